import AmcVerif.Lemmas.Loops
/-! Element transfers between two different regions (growth, move construction / assignment, swap): two-region versions
of the primitive specifications and the loop-level specifications of `uninitRelocN`, `moveN` and `swapDeep`. -/
namespace AmcVerif
variable {α β : Type}

/-- the error case after a primitive whose postcondition is `res = .ok x ∧ …` -/
local macro "okerr" : term => `(by rintro e m1 ⟨he, _⟩; cases he)

/-! ### auxiliary facts (kept in their own namespace: sibling files state some of them under the same names) -/
namespace Cross

theorem View.set2_left (v : View α) (r r' : Region) (hne : r ≠ r') (a b : List (Slot α)) :
    ((v.set r a).set r' b) r = some a := by
  rw [View.set_other _ _ _ _ hne, View.set_same]

theorem View.set2_right (v : View α) (r r' : Region) (a b : List (Slot α)) :
    ((v.set r a).set r' b) r' = some b := View.set_same _ _ _

theorem View.set2_set2 (v : View α) (r r' : Region) (a b a' b' : List (Slot α)) :
    (((v.set r a).set r' b).set r a').set r' b' = (v.set r a').set r' b' := by
  funext x; simp only [View.set]
  by_cases h1 : x = r' <;> by_cases h2 : x = r <;> simp [h1, h2]

theorem Post.congr {p q : M α β} {m : Mem α} {Q : Except Stop β → Mem α → Prop} (h : runM p m = runM q m)
    (hq : Post q m Q) : Post p m Q := by
  unfold Post at *; rw [h]; exact hq

theorem isTR_run (m : Mem α) : runM (isTR (α := α)) m = (.ok (m.cat != .ntr), m) := by
  unfold isTR; mnorm <;> rfl

theorem isTR_post (m : Mem α) : Post (isTR (α := α)) m (fun res m' => res = .ok (m.cat != .ntr) ∧ m' = m) := by
  unfold Post; rw [isTR_run]; exact ⟨rfl, rfl⟩

theorem uninitRelocN_ntr (m : Mem α) (h : m.cat = .ntr) (src dst : Addr) (n : Nat) :
    runM (uninitRelocN src n dst) m = runM (do uninitMoveN src n dst; destroyN src n) m := by
  unfold uninitRelocN
  simp [runM, h, ExceptT.run, StateT.run, bind, ExceptT.bind, ExceptT.mk, ExceptT.bindCont, StateT.bind, get, getThe,
    MonadStateOf.get, StateT.get, liftM, monadLift, MonadLift.monadLift, ExceptT.lift, pure, Functor.map, StateT.map]

theorem uninitRelocN_tr (m : Mem α) (h : m.cat ≠ .ntr) (src dst : Addr) (n : Nat) :
    runM (uninitRelocN src n dst) m = runM (relocBitwise src n dst) m := by
  unfold uninitRelocN
  have : (m.cat == Cat.ntr) = false := by cases hc : m.cat <;> simp_all
  simp [runM, this, ExceptT.run, StateT.run, bind, ExceptT.bind, ExceptT.mk, ExceptT.bindCont, StateT.bind, get, getThe,
    MonadStateOf.get, StateT.get, liftM, monadLift, MonadLift.monadLift, ExceptT.lift, pure, Functor.map, StateT.map]

theorem relocBitwise_zero (m : Mem α) (src dst : Addr) : runM (relocBitwise src 0 dst) m = (.ok (), m) := by
  unfold relocBitwise
  simp only [↓reduceIte]; rfl

theorem relocBitwise_tr (m : Mem α) (h : m.cat ≠ .ntr) (src dst : Addr) (n : Nat) (hn : n ≠ 0) :
    runM (relocBitwise src n dst) m = runM (do
      let vs ← readLiveN src n
      setRawN src n
      writeLiveRaw dst vs
      bumpEv fun e => { e with br := e.br + n }) m := by
  unfold relocBitwise
  have : (m.cat == Cat.ntr) = false := by cases hc : m.cat <;> simp_all
  simp [runM, hn, this, ExceptT.run, StateT.run, bind, ExceptT.bind, ExceptT.mk, ExceptT.bindCont, StateT.bind, get, getThe,
    MonadStateOf.get, StateT.get, liftM, monadLift, MonadLift.monadLift, ExceptT.lift, pure, Functor.map, StateT.map]

theorem getElem?_lt {γ : Type} {l : List γ} {i : Nat} {x : γ} (h : l[i]? = some x) : i < l.length := by
  rcases Nat.lt_or_ge i l.length with h1 | h1
  · exact h1
  · simp [List.getElem?_eq_none h1] at h

theorem readLiveN_post (r : Region) : ∀ (xs : List α) (m : Mem α) (pre post : List (Slot α)),
    m.buf r = some (pre ++ lives xs ++ post) →
    Post (readLiveN ⟨r, pre.length⟩ xs.length) m (fun res m' => res = .ok xs ∧ m' = m) := by
  intro xs
  induction xs with
  | nil => intro m pre post _; exact ⟨rfl, rfl⟩
  | cons x xs ih =>
    intro m pre post h
    simp only [List.length_cons, readLiveN]
    have hb : m.buf (Addr.mk r pre.length).r = some (pre ++ .live x :: (lives xs ++ post)) := by simpa [lives] using h
    refine Post.bind (readLive_post m ⟨r, pre.length⟩ _ x hb (get_mid _ _ _)) ?_ okerr
    rintro v m1 ⟨hv, rfl⟩
    injection hv with hv; subst hv
    have h1 : m1.buf r = some ((pre ++ [.live v]) ++ lives xs ++ post) := by rw [h]; simp [lives]
    have := ih m1 (pre ++ [.live v]) post h1
    simp only [List.length_append, List.length_cons, List.length_nil, Nat.zero_add] at this
    refine Post.bind this ?_ okerr
    rintro vs m2 ⟨hvs, rfl⟩
    injection hvs with hvs; subst hvs
    exact ⟨rfl, rfl⟩

theorem setRawN_post (r : Region) : ∀ (mid : List (Slot α)) (m : Mem α) (pre post : List (Slot α)),
    m.buf r = some (pre ++ mid ++ post) →
    Post (setRawN ⟨r, pre.length⟩ mid.length) m (OkSet m r (pre ++ raws mid.length ++ post)) := by
  intro mid
  induction mid with
  | nil =>
    intro m pre post h
    simp only [List.length_nil, setRawN, raws, List.replicate_zero]
    exact ⟨rfl, by rw [View.set_id _ _ _ (by simpa using h)]; rfl, Keep.refl m⟩
  | cons s mid ih =>
    intro m pre post h
    simp only [List.length_cons, setRawN]
    have hb : m.buf (Addr.mk r pre.length).r = some (pre ++ s :: (mid ++ post)) := by simpa using h
    refine Post.bind (wr_post m ⟨r, pre.length⟩ _ .raw hb (by simp)) ?_ ?_
    · rintro _ m1 ⟨_, hb1, hk1⟩
      simp only [set_mid] at hb1
      have h1 : m1.buf r = some ((pre ++ [.raw]) ++ mid ++ post) := by rw [hb1]; simp
      have := ih m1 (pre ++ [.raw]) post h1
      simp only [List.length_append, List.length_cons, List.length_nil, Nat.zero_add] at this
      refine Post.mono this ?_
      rintro res m2 ⟨hr, hb2, hk2⟩
      refine ⟨hr, ?_, hk1.trans hk2⟩
      rw [hb2, hb1]; simp [raws, List.replicate_succ]
    · rintro e m1 ⟨he, _⟩; cases he

theorem writeLiveRaw_post (r : Region) : ∀ (xs : List α) (m : Mem α) (pre post : List (Slot α)),
    m.buf r = some (pre ++ raws xs.length ++ post) →
    Post (writeLiveRaw ⟨r, pre.length⟩ xs) m (OkSet m r (pre ++ lives xs ++ post)) := by
  intro xs
  induction xs with
  | nil =>
    intro m pre post h
    simp only [writeLiveRaw, lives, List.map_nil]
    exact ⟨rfl, by rw [View.set_id _ _ _ (by simpa [raws] using h)]; rfl, Keep.refl m⟩
  | cons x xs ih =>
    intro m pre post h
    simp only [writeLiveRaw]
    have hb : m.buf (Addr.mk r pre.length).r = some (pre ++ .raw :: (raws xs.length ++ post)) := by
      simpa [raws, List.replicate_succ] using h
    refine Post.bind (requireRaw_post m ⟨r, pre.length⟩ _ .raw hb (get_mid _ _ _) (Or.inl rfl)) ?_ okerr
    rintro _ m0 ⟨_, rfl⟩
    refine Post.bind (wr_post m0 ⟨r, pre.length⟩ _ (.live x) hb (by simp)) ?_ ?_
    · rintro _ m1 ⟨_, hb1, hk1⟩
      simp only [set_mid] at hb1
      have h1 : m1.buf r = some ((pre ++ [.live x]) ++ raws xs.length ++ post) := by rw [hb1]; simp
      have := ih m1 (pre ++ [.live x]) post h1
      simp only [List.length_append, List.length_cons, List.length_nil, Nat.zero_add] at this
      refine Post.mono this ?_
      rintro res m2 ⟨hr, hb2, hk2⟩
      refine ⟨hr, ?_, hk1.trans hk2⟩
      rw [hb2, hb1]; simp [lives]
    · rintro e m1 ⟨he, _⟩; cases he

theorem raws_okRaw (c : Cat) (n : Nat) : ∀ s ∈ (raws n : List (Slot α)), okRaw c s := by
  intro s hs
  exact Or.inl (by simpa [raws] using (List.eq_of_mem_replicate hs))

theorem raws_split (a b : Nat) (h : a ≤ b) : (raws b : List (Slot α)) = raws a ++ raws (b - a) := by
  rw [raws_append]; congr 1; omega

theorem raws_regroup (a b c : Nat) (h : c ≤ a + b) (rest : List (Slot α)) :
    raws a ++ (raws b ++ rest) = raws c ++ (raws (a + b - c) ++ rest) := by
  rw [← List.append_assoc, ← List.append_assoc, raws_append, raws_append]; congr 2; omega

theorem View.set_eq_set2 {v : View α} {r : Region} {a : List (Slot α)} (ha : v r = some a) (r' : Region) (b : List (Slot α)) :
    v.set r' b = (v.set r a).set r' b := by rw [View.set_id _ _ _ ha]

theorem lives_append (xs ys : List α) : lives (xs ++ ys) = lives xs ++ lives ys := by simp [lives]

end Cross
open Cross

/-! ### two-region postconditions -/

/-- success, with the buffers of two regions replaced -/
def OkSet2 (m : Mem α) (r : Region) (a : List (Slot α)) (r' : Region) (b : List (Slot α)) :
    Except Stop Unit → Mem α → Prop :=
  fun res m' => res = .ok () ∧ Keep m m' ∧ m'.buf = View.set (View.set m.buf r a) r' b

theorem OkSet2.chain {m m1 : Mem α} {r r' : Region} {a b a' b' : List (Slot α)}
    (hb1 : m1.buf = View.set (View.set m.buf r a) r' b) (hk : Keep m m1) {res : Except Stop Unit} {m2 : Mem α}
    (h : OkSet2 m1 r a' r' b' res m2) : OkSet2 m r a' r' b' res m2 := by
  obtain ⟨hr, hk2, hb2⟩ := h
  exact ⟨hr, hk.trans hk2, by rw [hb2, hb1, View.set2_set2]⟩

theorem OkSet.to2_right {m : Mem α} {r r' : Region} {a b : List (Slot α)} (ha : m.buf r = some a)
    {res : Except Stop Unit} {m' : Mem α} (h : OkSet m r' b res m') : OkSet2 m r a r' b res m' := by
  obtain ⟨hr, hb, hk⟩ := h
  exact ⟨hr, hk, by rw [hb, View.set_id _ _ _ ha]⟩

theorem OkSet.to2_left {m : Mem α} {r r' : Region} (hne : r ≠ r') {a b : List (Slot α)} (hb' : m.buf r' = some b)
    {res : Except Stop Unit} {m' : Mem α} (h : OkSet m r a res m') : OkSet2 m r a r' b res m' := by
  obtain ⟨hr, hb, hk⟩ := h
  refine ⟨hr, hk, ?_⟩
  rw [hb, View.set_comm _ _ _ _ _ hne, View.set_id _ _ _ hb']

theorem OkSet2.swap {m : Mem α} {r r' : Region} (hne : r ≠ r') {a b : List (Slot α)}
    {res : Except Stop Unit} {m' : Mem α} (h : OkSet2 m r' b r a res m') : OkSet2 m r a r' b res m' := by
  obtain ⟨hr, hk, hb⟩ := h
  exact ⟨hr, hk, by rw [hb, View.set_comm _ _ _ _ _ hne]⟩

theorem OkSet2.refl {m : Mem α} {r r' : Region} {a b : List (Slot α)} (ha : m.buf r = some a) (hb : m.buf r' = some b) :
    OkSet2 m r a r' b (.ok ()) m := by
  refine ⟨rfl, Keep.refl m, ?_⟩
  rw [View.set_id _ _ _ ha, View.set_id _ _ _ hb]

/-! ### primitives with source and destination in different regions -/

/-- `construct_at(dst, std::move(*src))`, `dst` and `src` in different regions -/
theorem constructMove_across (m : Mem α) (dst src : Addr) (hne : dst.r ≠ src.r) (bs bd : List (Slot α)) (v : α) (s : Slot α)
    (hs : m.buf src.r = some bs) (hd : m.buf dst.r = some bd) (hsrc : bs[src.i]? = some (.live v)) (hdst : bd[dst.i]? = some s)
    (hok : okRaw m.cat s) :
    Post (constructMove dst src) m (fun res m' => res = .ok () ∧ Keep m m' ∧
      m'.buf = View.set (View.set m.buf dst.r (bd.set dst.i (.live v))) src.r (bs.set src.i (movedSlot m.cat v))) := by
  have hi := getElem?_lt hdst
  have hj := getElem?_lt hsrc
  unfold constructMove
  refine Post.bind (readLive_post m src bs v hs hsrc) ?_ okerr
  rintro v' m1 ⟨hv, rfl⟩
  injection hv with hv; subst hv
  refine Post.bind (requireRaw_post m1 dst bd s hd hdst hok) ?_ okerr
  rintro _ m2 ⟨_, rfl⟩
  refine Post.bind (wr_post m2 dst bd _ hd hi) ?_ ?_
  · rintro _ m3 ⟨_, hb3, hk3⟩
    refine Post.bind (movedFrom_post m3 v') ?_ okerr
    rintro ms m4 ⟨hms, rfl⟩
    injection hms with hms; subst hms
    have h3 : m4.buf src.r = some bs := by rw [hb3, View.set_other _ _ _ _ (Ne.symm hne)]; exact hs
    refine Post.bind (wr_post m4 src _ _ h3 hj) ?_ ?_
    · rintro _ m5 ⟨_, hb5, hk5⟩
      refine Post.mono (bumpEv_post m5 _) ?_
      rintro r m6 ⟨hr6, hs6⟩
      refine ⟨hr6, hk3.trans (hk5.trans hs6.2), ?_⟩
      rw [hs6.1, hb5, hb3, hk3.cat]
    · rintro e m5 ⟨he, _⟩; cases he
  · rintro e m3 ⟨he, _⟩; cases he

/-- `*dst = std::move(*src)`, `dst` and `src` in different regions -/
theorem assignMove_across (m : Mem α) (dst src : Addr) (hne : dst.r ≠ src.r) (bs bd : List (Slot α)) (v : α) (s : Slot α)
    (hs : m.buf src.r = some bs) (hd : m.buf dst.r = some bd) (hsrc : bs[src.i]? = some (.live v)) (hdst : bd[dst.i]? = some s)
    (hok : okAlive m.cat s) :
    Post (assignMove dst src) m (fun res m' => res = .ok () ∧ Keep m m' ∧
      m'.buf = View.set (View.set m.buf dst.r (bd.set dst.i (.live v))) src.r (bs.set src.i (movedSlot m.cat v))) := by
  have hi := getElem?_lt hdst
  have hj := getElem?_lt hsrc
  have hds : (dst == src) = false := by
    cases dst; cases src; simp only [beq_eq_false_iff_ne, ne_eq, Addr.mk.injEq, not_and]; intro h; exact absurd h hne
  unfold assignMove
  simp only [hds, Bool.false_eq_true, ↓reduceIte]
  refine Post.bind (readLive_post m src bs v hs hsrc) ?_ okerr
  rintro v' m1 ⟨hv, rfl⟩
  injection hv with hv; subst hv
  refine Post.bind (requireAlive_post m1 dst _ bd s hd hdst hok) ?_ okerr
  rintro _ m2 ⟨_, rfl⟩
  refine Post.bind (wr_post m2 dst bd _ hd hi) ?_ ?_
  · rintro _ m3 ⟨_, hb3, hk3⟩
    refine Post.bind (movedFrom_post m3 v') ?_ okerr
    rintro ms m4 ⟨hms, rfl⟩
    injection hms with hms; subst hms
    have h3 : m4.buf src.r = some bs := by rw [hb3, View.set_other _ _ _ _ (Ne.symm hne)]; exact hs
    refine Post.bind (wr_post m4 src _ _ h3 hj) ?_ ?_
    · rintro _ m5 ⟨_, hb5, hk5⟩
      refine Post.mono (bumpEv_post m5 _) ?_
      rintro r m6 ⟨hr6, hs6⟩
      refine ⟨hr6, hk3.trans (hk5.trans hs6.2), ?_⟩
      rw [hs6.1, hb5, hb3, hk3.cat]
    · rintro e m5 ⟨he, _⟩; cases he
  · rintro e m3 ⟨he, _⟩; cases he

/-- `std::swap(*a, *b)`, `a` and `b` in different regions -/
theorem swapElem_across (m : Mem α) (a b : Addr) (hne : a.r ≠ b.r) (ba bb : List (Slot α)) (va vb : α)
    (ha : m.buf a.r = some ba) (hb : m.buf b.r = some bb) (hva : ba[a.i]? = some (.live va)) (hvb : bb[b.i]? = some (.live vb)) :
    Post (swapElem a b) m (fun res m' => res = .ok () ∧ Keep m m' ∧
      m'.buf = View.set (View.set m.buf a.r (ba.set a.i (.live vb))) b.r (bb.set b.i (.live va))) := by
  have hi := getElem?_lt hva
  have hj := getElem?_lt hvb
  unfold swapElem
  refine Post.bind (readLive_post m a ba va ha hva) ?_ okerr
  rintro v' m1 ⟨hv, rfl⟩
  injection hv with hv; subst hv
  refine Post.bind (readLive_post m1 b bb vb hb hvb) ?_ okerr
  rintro v'' m2 ⟨hv, rfl⟩
  injection hv with hv; subst hv
  refine Post.bind (wr_post m2 a ba _ ha hi) ?_ ?_
  · rintro _ m3 ⟨_, hb3, hk3⟩
    have h3 : m3.buf b.r = some bb := by rw [hb3, View.set_other _ _ _ _ (Ne.symm hne)]; exact hb
    refine Post.bind (wr_post m3 b bb _ h3 hj) ?_ ?_
    · rintro _ m4 ⟨_, hb4, hk4⟩
      refine Post.bind (isTC_post m4) ?_ okerr
      rintro t m5 ⟨ht, rfl⟩
      injection ht with ht; subst ht
      by_cases hc : (m5.cat == Cat.tc) = true
      · simp only [hc, ↓reduceIte]
        exact Post.pure ⟨rfl, hk3.trans hk4, by rw [hb4, hb3]⟩
      · simp only [hc, Bool.false_eq_true, ↓reduceIte]
        refine Post.mono (bumpEv_post m5 _) ?_
        rintro r m6 ⟨hr6, hs6⟩
        exact ⟨hr6, hk3.trans (hk4.trans hs6.2), by rw [hs6.1, hb4, hb3]⟩
    · rintro e m4 ⟨he, _⟩; cases he
  · rintro e m3 ⟨he, _⟩; cases he

/-! ### element-wise transfer loops between two regions -/

/-- a range of moved-from objects -/
def mvd (c : Cat) (xs : List α) : List (Slot α) := xs.map (movedSlot c)

@[simp] theorem mvd_length (c : Cat) (xs : List α) : (mvd c xs).length = xs.length := by simp [mvd]

theorem mvd_okAlive (c : Cat) (xs : List α) : ∀ s ∈ mvd c xs, okAlive c s := by
  intro s hs
  simp only [mvd, List.mem_map] at hs
  obtain ⟨y, _, rfl⟩ := hs
  unfold movedSlot okAlive
  by_cases hc : c = .tc
  · exact Or.inr hc
  · simp [hc]

theorem mvd_tc (c : Cat) (hc : c = .tc) (xs : List α) : mvd c xs = lives xs := by
  simp [mvd, lives, movedSlot, hc]

/-- `uninitialized_move_n` from region `r` onto raw storage of region `r'` -/
theorem uninitMoveN_across (r r' : Region) (hne : r ≠ r') :
    ∀ (xs : List α) (m : Mem α) (pre post pre' mid post' : List (Slot α)),
    m.buf r = some (pre ++ lives xs ++ post) → m.buf r' = some (pre' ++ mid ++ post') → mid.length = xs.length →
    (∀ s ∈ mid, okRaw m.cat s) →
    Post (uninitMoveN ⟨r, pre.length⟩ xs.length ⟨r', pre'.length⟩) m
      (OkSet2 m r (pre ++ mvd m.cat xs ++ post) r' (pre' ++ lives xs ++ post')) := by
  intro xs
  induction xs with
  | nil =>
    intro m pre post pre' mid post' h h' hl _
    have : mid = [] := List.eq_nil_of_length_eq_zero hl
    subst this
    simp only [List.length_nil, uninitMoveN]
    exact Post.pure (OkSet2.refl (by simpa [mvd, lives] using h) (by simpa [lives] using h'))
  | cons x xs ih =>
    intro m pre post pre' mid post' h h' hl hok
    cases mid with
    | nil => simp at hl
    | cons s mid =>
    simp only [List.length_cons, uninitMoveN]
    have hs : m.buf (Addr.mk r pre.length).r = some (pre ++ .live x :: (lives xs ++ post)) := by simpa [lives] using h
    have hd : m.buf (Addr.mk r' pre'.length).r = some (pre' ++ s :: (mid ++ post')) := by simpa using h'
    refine Post.bind (constructMove_across m ⟨r', pre'.length⟩ ⟨r, pre.length⟩ (Ne.symm hne) _ _ x s hs hd
      (get_mid _ _ _) (get_mid _ _ _) (hok s (by simp))) ?_ ?_
    · rintro _ m1 ⟨_, hk1, hb1⟩
      simp only [set_mid] at hb1
      rw [View.set_comm _ _ _ _ _ (Ne.symm hne)] at hb1
      have h1 : m1.buf r = some ((pre ++ [movedSlot m.cat x]) ++ lives xs ++ post) := by
        rw [hb1, View.set2_left _ _ _ hne]; simp
      have h1' : m1.buf r' = some ((pre' ++ [.live x]) ++ mid ++ post') := by
        rw [hb1, View.set2_right]; simp
      have := ih m1 (pre ++ [movedSlot m.cat x]) post (pre' ++ [.live x]) mid post' h1 h1' (by simpa using hl)
        (fun s hs => by rw [hk1.cat]; exact hok s (by simp [hs]))
      simp only [List.length_append, List.length_cons, List.length_nil, Nat.zero_add] at this
      refine Post.mono this ?_
      intro res m2 hq
      have := OkSet2.chain hb1 hk1 hq
      simpa [mvd, lives, hk1.cat] using this
    · rintro e m1 ⟨he, _⟩; cases he

/-- `std::move(first, first+n, d)` from region `r` onto alive objects of region `r'` -/
theorem moveFwd_across (r r' : Region) (hne : r ≠ r') :
    ∀ (xs : List α) (m : Mem α) (pre post pre' mid post' : List (Slot α)),
    m.buf r = some (pre ++ lives xs ++ post) → m.buf r' = some (pre' ++ mid ++ post') → mid.length = xs.length →
    (∀ s ∈ mid, okAlive m.cat s) →
    Post (moveFwd ⟨r, pre.length⟩ xs.length ⟨r', pre'.length⟩) m
      (OkSet2 m r (pre ++ mvd m.cat xs ++ post) r' (pre' ++ lives xs ++ post')) := by
  intro xs
  induction xs with
  | nil =>
    intro m pre post pre' mid post' h h' hl _
    have : mid = [] := List.eq_nil_of_length_eq_zero hl
    subst this
    simp only [List.length_nil, moveFwd]
    exact Post.pure (OkSet2.refl (by simpa [mvd, lives] using h) (by simpa [lives] using h'))
  | cons x xs ih =>
    intro m pre post pre' mid post' h h' hl hok
    cases mid with
    | nil => simp at hl
    | cons s mid =>
    simp only [List.length_cons, moveFwd]
    have hs : m.buf (Addr.mk r pre.length).r = some (pre ++ .live x :: (lives xs ++ post)) := by simpa [lives] using h
    have hd : m.buf (Addr.mk r' pre'.length).r = some (pre' ++ s :: (mid ++ post')) := by simpa using h'
    refine Post.bind (assignMove_across m ⟨r', pre'.length⟩ ⟨r, pre.length⟩ (Ne.symm hne) _ _ x s hs hd
      (get_mid _ _ _) (get_mid _ _ _) (hok s (by simp))) ?_ ?_
    · rintro _ m1 ⟨_, hk1, hb1⟩
      simp only [set_mid] at hb1
      rw [View.set_comm _ _ _ _ _ (Ne.symm hne)] at hb1
      have h1 : m1.buf r = some ((pre ++ [movedSlot m.cat x]) ++ lives xs ++ post) := by
        rw [hb1, View.set2_left _ _ _ hne]; simp
      have h1' : m1.buf r' = some ((pre' ++ [.live x]) ++ mid ++ post') := by
        rw [hb1, View.set2_right]; simp
      have := ih m1 (pre ++ [movedSlot m.cat x]) post (pre' ++ [.live x]) mid post' h1 h1' (by simpa using hl)
        (fun s hs => by rw [hk1.cat]; exact hok s (by simp [hs]))
      simp only [List.length_append, List.length_cons, List.length_nil, Nat.zero_add] at this
      refine Post.mono this ?_
      intro res m2 hq
      have := OkSet2.chain hb1 hk1 hq
      simpa [mvd, lives, hk1.cat] using this
    · rintro e m1 ⟨he, _⟩; cases he

/-- `std::swap_ranges` of two equally long ranges of different regions -/
theorem swapRanges_across (r r' : Region) (hne : r ≠ r') :
    ∀ (xs ys : List α) (m : Mem α) (pre post pre' post' : List (Slot α)),
    xs.length = ys.length →
    m.buf r = some (pre ++ lives xs ++ post) → m.buf r' = some (pre' ++ lives ys ++ post') →
    Post (swapRanges ⟨r, pre.length⟩ xs.length ⟨r', pre'.length⟩) m
      (OkSet2 m r (pre ++ lives ys ++ post) r' (pre' ++ lives xs ++ post')) := by
  intro xs
  induction xs with
  | nil =>
    intro ys m pre post pre' post' hl h h'
    have : ys = [] := List.eq_nil_of_length_eq_zero hl.symm
    subst this
    simp only [List.length_nil, swapRanges]
    exact Post.pure (OkSet2.refl h h')
  | cons x xs ih =>
    intro ys m pre post pre' post' hl h h'
    cases ys with
    | nil => simp at hl
    | cons y ys =>
    simp only [List.length_cons, swapRanges]
    have hs : m.buf (Addr.mk r pre.length).r = some (pre ++ .live x :: (lives xs ++ post)) := by simpa [lives] using h
    have hd : m.buf (Addr.mk r' pre'.length).r = some (pre' ++ .live y :: (lives ys ++ post')) := by simpa [lives] using h'
    refine Post.bind (swapElem_across m ⟨r, pre.length⟩ ⟨r', pre'.length⟩ hne _ _ x y hs hd
      (get_mid _ _ _) (get_mid _ _ _)) ?_ ?_
    · rintro _ m1 ⟨_, hk1, hb1⟩
      simp only [set_mid] at hb1
      have h1 : m1.buf r = some ((pre ++ [.live y]) ++ lives xs ++ post) := by
        rw [hb1, View.set2_left _ _ _ hne]; simp
      have h1' : m1.buf r' = some ((pre' ++ [.live x]) ++ lives ys ++ post') := by
        rw [hb1, View.set2_right]; simp
      have := ih ys m1 (pre ++ [.live y]) post (pre' ++ [.live x]) post' (by simpa using hl) h1 h1'
      simp only [List.length_append, List.length_cons, List.length_nil, Nat.zero_add] at this
      refine Post.mono this ?_
      intro res m2 hq
      have := OkSet2.chain hb1 hk1 hq
      simpa [lives] using this
    · rintro e m1 ⟨he, _⟩; cases he

/-! ### relocation between two regions -/

/-- `memmove`-style relocation between two regions (byte-wise relocatable categories) -/
theorem relocBitwise_across (m : Mem α) (hc : m.cat ≠ .ntr) (r r' : Region) (hne : r ≠ r')
    (pre post pre' post' : List (Slot α)) (xs : List α)
    (h : m.buf r = some (pre ++ lives xs ++ post)) (h' : m.buf r' = some (pre' ++ raws xs.length ++ post')) :
    Post (relocBitwise ⟨r, pre.length⟩ xs.length ⟨r', pre'.length⟩) m
      (OkSet2 m r (pre ++ raws xs.length ++ post) r' (pre' ++ lives xs ++ post')) := by
  by_cases hn : xs.length = 0
  · have : xs = [] := List.eq_nil_of_length_eq_zero hn
    subst this
    unfold Post
    rw [List.length_nil, relocBitwise_zero]
    exact OkSet2.refl (by simpa [raws, lives] using h) (by simpa [raws, lives] using h')
  · refine Post.congr (relocBitwise_tr m hc _ _ _ hn) ?_
    refine Post.bind (readLiveN_post r xs m pre post h) ?_ okerr
    rintro vs m1 ⟨hvs, rfl⟩
    injection hvs with hvs; subst hvs
    have hset := setRawN_post r (lives vs) m1 pre post h
    simp only [lives_length] at hset
    refine Post.bind hset ?_ ?_
    · rintro _ m2 ⟨_, hb2, hk2⟩
      have h2' : m2.buf r' = some (pre' ++ raws vs.length ++ post') := by
        rw [hb2, View.set_other _ _ _ _ (Ne.symm hne)]; exact h'
      refine Post.bind (writeLiveRaw_post r' vs m2 pre' post' h2') ?_ ?_
      · rintro _ m3 ⟨_, hb3, hk3⟩
        refine Post.mono (bumpEv_post m3 _) ?_
        rintro res m4 ⟨hr4, hs4⟩
        exact ⟨hr4, hk2.trans (hk3.trans hs4.2), by rw [hs4.1, hb3, hb2]⟩
      · rintro e m3 ⟨he, _⟩; cases he
    · rintro e m2 ⟨he, _⟩; cases he

/-- `amc::uninitialized_relocate_n` from region `r` onto raw storage of region `r'`, every category -/
theorem relocAcross_post2 (m : Mem α) (r r' : Region) (hne : r ≠ r') (pre post pre' post' : List (Slot α)) (xs : List α)
    (h : m.buf r = some (pre ++ lives xs ++ post)) (h' : m.buf r' = some (pre' ++ raws xs.length ++ post')) :
    Post (uninitRelocN ⟨r, pre.length⟩ xs.length ⟨r', pre'.length⟩) m
      (OkSet2 m r (pre ++ raws xs.length ++ post) r' (pre' ++ lives xs ++ post')) := by
  by_cases hc : m.cat = .ntr
  · refine Post.congr (uninitRelocN_ntr m hc _ _ _) ?_
    have hmv := uninitMoveN_across r r' hne xs m pre post pre' (raws xs.length) post' h h' (by simp)
      (fun s hs => Or.inl (by simpa [raws] using (List.eq_of_mem_replicate hs)))
    refine Post.bind hmv ?_ ?_
    · rintro _ m1 ⟨_, hk1, hb1⟩
      have h1 : m1.buf r = some (pre ++ mvd m.cat xs ++ post) := by rw [hb1, View.set2_left _ _ _ hne]
      have hd := destroyN_post r (mvd m.cat xs) m1 pre post h1 (by rw [hk1.cat]; exact mvd_okAlive _ _)
      simp only [mvd_length] at hd
      refine Post.mono hd ?_
      intro res m2 hq
      have h1' : m1.buf r' = some (pre' ++ lives xs ++ post') := by rw [hb1, View.set2_right]
      exact OkSet2.chain hb1 hk1 (OkSet.to2_left hne h1' hq)
    · rintro e m1 ⟨he, _⟩; cases he
  · exact Post.congr (uninitRelocN_tr m hc _ _ _) (relocBitwise_across m hc r r' hne pre post pre' post' xs h h')

theorem relocAcross_post (m : Mem α) (r r' : Region) (hne : r ≠ r') (pre post pre' post' : List (Slot α)) (xs : List α)
    (h : m.buf r = some (pre ++ lives xs ++ post)) (h' : m.buf r' = some (pre' ++ raws xs.length ++ post')) :
    Post (uninitRelocN ⟨r, pre.length⟩ xs.length ⟨r', pre'.length⟩) m
      (fun res m' => res = .ok () ∧ Keep m m' ∧
         m'.buf = View.set (View.set m.buf r (pre ++ raws xs.length ++ post)) r' (pre' ++ lives xs ++ post')) :=
  relocAcross_post2 m r r' hne pre post pre' post' xs h h'

/-! ### `move_n` between two regions -/

theorem moveNAcross_post2 (m : Mem α) (r r' : Region) (hne : r ≠ r') (pre post pre' post' : List (Slot α)) (xs ys : List α) (k : Nat)
    (hroom : xs.length ≤ ys.length + k)
    (h : m.buf r = some (pre ++ lives xs ++ post)) (h' : m.buf r' = some (pre' ++ lives ys ++ raws k ++ post')) :
    Post (moveN ⟨r, pre.length⟩ xs.length ⟨r', pre'.length⟩ ys.length) m
      (OkSet2 m r (pre ++ raws xs.length ++ post) r' (pre' ++ lives xs ++ raws (ys.length + k - xs.length) ++ post')) := by
  unfold moveN
  refine Post.bind (isTR_post m) ?_ okerr
  rintro t m0 ⟨ht, rfl⟩
  injection ht with ht; subst ht
  by_cases hc : m0.cat = .ntr
  · -- move-assign / move-construct / destroy
    have ht : (m0.cat != Cat.ntr) = false := by simp [hc]
    simp only [ht, Bool.false_eq_true, ↓reduceIte]
    by_cases hlt : ys.length < xs.length
    · simp only [hlt, ↓reduceIte]
      obtain ⟨xs1, xs2, rfl, hl1⟩ : ∃ xs1 xs2, xs = xs1 ++ xs2 ∧ xs1.length = ys.length :=
        ⟨xs.take ys.length, xs.drop ys.length, (List.take_append_drop _ _).symm, by simp; omega⟩
      simp only [List.length_append] at hroom hlt
      have hmin : min (xs1 ++ xs2).length ys.length = xs1.length := by simp only [List.length_append]; omega
      rw [hmin]
      have hA : m0.buf r = some (pre ++ lives xs1 ++ (lives xs2 ++ post)) := by rw [h]; simp [lives]
      have hA' : m0.buf r' = some (pre' ++ lives ys ++ (raws k ++ post')) := by rw [h']; simp
      refine Post.bind (moveFwd_across r r' hne xs1 m0 pre _ pre' (lives ys) _ hA hA' (by simp [hl1]) (lives_okAlive _ _)) ?_ ?_
      · rintro _ m1 ⟨_, hk1, hb1⟩
        have hB : m1.buf r = some ((pre ++ mvd m0.cat xs1) ++ lives xs2 ++ post) := by
          rw [hb1, View.set2_left _ _ _ hne]; simp
        have hB' : m1.buf r' = some ((pre' ++ lives xs1) ++ raws xs2.length ++ (raws (k - xs2.length) ++ post')) := by
          rw [hb1, View.set2_right, raws_split xs2.length k (by omega)]; simp
        have hmv := uninitMoveN_across r r' hne xs2 m1 _ post _ (raws xs2.length) _ hB hB' (by simp) (raws_okRaw _ _)
        have e1 : (Addr.mk r pre.length).add ys.length = ⟨r, (pre ++ mvd m0.cat xs1).length⟩ := by simp [Addr.add, hl1]
        have e2 : (Addr.mk r' pre'.length).add ys.length = ⟨r', (pre' ++ lives xs1).length⟩ := by simp [Addr.add, hl1]
        have e3 : (xs1 ++ xs2).length - ys.length = xs2.length := by simp only [List.length_append]; omega
        rw [e1, e2, e3]
        refine Post.bind hmv ?_ ?_
        · rintro _ m2 ⟨_, hk2, hb2⟩
          have hC : m2.buf r = some (pre ++ mvd m0.cat (xs1 ++ xs2) ++ post) := by
            rw [hb2, View.set2_left _ _ _ hne, hk1.cat]; simp [mvd]
          have hC' : m2.buf r' = some (pre' ++ lives (xs1 ++ xs2) ++ raws (ys.length + k - (xs1 ++ xs2).length) ++ post') := by
            rw [hb2, View.set2_right, show ys.length + k - (xs1 ++ xs2).length = k - xs2.length by
              simp only [List.length_append]; omega]
            simp [lives]
          have hd := destroyN_post r (mvd m0.cat (xs1 ++ xs2)) m2 pre post hC
            (by rw [hk2.cat, hk1.cat]; exact mvd_okAlive _ _)
          simp only [mvd_length] at hd
          refine Post.mono hd ?_
          intro res m3 hq
          have q1 := OkSet.to2_left hne hC' hq
          have q2 := OkSet2.chain hb2 hk2 q1
          exact OkSet2.chain hb1 hk1 q2
        · rintro e m2 ⟨he, _⟩; cases he
      · rintro e m1 ⟨he, _⟩; cases he
    · simp only [hlt, ↓reduceIte]
      obtain ⟨ys1, ys2, rfl, hl1⟩ : ∃ ys1 ys2, ys = ys1 ++ ys2 ∧ ys1.length = xs.length :=
        ⟨ys.take xs.length, ys.drop xs.length, (List.take_append_drop _ _).symm, by simp; omega⟩
      have hmin : min xs.length (ys1 ++ ys2).length = xs.length := by simp only [List.length_append]; omega
      rw [hmin]
      have hA' : m0.buf r' = some (pre' ++ lives ys1 ++ (lives ys2 ++ raws k ++ post')) := by rw [h']; simp [lives]
      refine Post.bind (moveFwd_across r r' hne xs m0 pre _ pre' (lives ys1) _ h hA' (by simp [hl1]) (lives_okAlive _ _)) ?_ ?_
      · rintro _ m1 ⟨_, hk1, hb1⟩
        have hB : m1.buf r = some (pre ++ mvd m0.cat xs ++ post) := by
          rw [hb1, View.set2_left _ _ _ hne]
        have hB' : m1.buf r' = some ((pre' ++ lives xs) ++ lives ys2 ++ (raws k ++ post')) := by
          rw [hb1, View.set2_right]; simp
        have hd1 := destroyN_post r' (lives ys2) m1 _ _ hB' (lives_okAlive _ _)
        have e1 : (Addr.mk r' pre'.length).add xs.length = ⟨r', (pre' ++ lives xs).length⟩ := by simp [Addr.add]
        have e2 : (ys1 ++ ys2).length - xs.length = (lives ys2).length := by simp; omega
        rw [e1, e2]
        refine Post.bind hd1 ?_ ?_
        · rintro _ m2 ⟨_, hb2, hk2⟩
          have hC : m2.buf r = some (pre ++ mvd m0.cat xs ++ post) := by
            rw [hb2, View.set_other _ _ _ _ hne]; exact hB
          have hC' : m2.buf r' = some (pre' ++ lives xs ++ raws ((ys1 ++ ys2).length + k - xs.length) ++ post') := by
            rw [hb2, View.set_same, raws_split ys2.length ((ys1 ++ ys2).length + k - xs.length) (by simp; omega),
              show (ys1 ++ ys2).length + k - xs.length - ys2.length = k by simp only [List.length_append]; omega]
            simp
          have hd := destroyN_post r (mvd m0.cat xs) m2 pre post hC
            (by rw [hk2.cat, hk1.cat]; exact mvd_okAlive _ _)
          simp only [mvd_length] at hd
          refine Post.mono hd ?_
          intro res m3 hq
          have q1 := OkSet.to2_left hne hC' hq
          have q2 : OkSet2 m1 r _ r' _ res m3 := OkSet2.chain (hb2.trans (View.set_eq_set2 hB _ _)) hk2 q1
          exact OkSet2.chain hb1 hk1 q2
        · rintro e m2 ⟨he, _⟩; cases he
      · rintro e m1 ⟨he, _⟩; cases he
  · -- destroy the destination objects, relocate
    have ht : (m0.cat != Cat.ntr) = true := by simp [hc]
    simp only [ht, ↓reduceIte]
    have hA' : m0.buf r' = some (pre' ++ lives ys ++ (raws k ++ post')) := by rw [h']; simp
    have hd1 := destroyN_post r' (lives ys) m0 _ _ hA' (lives_okAlive _ _)
    simp only [lives_length] at hd1
    refine Post.bind hd1 ?_ ?_
    · rintro _ m1 ⟨_, hb1, hk1⟩
      have hB : m1.buf r = some (pre ++ lives xs ++ post) := by
        rw [hb1, View.set_other _ _ _ _ hne]; exact h
      have hB' : m1.buf r' = some (pre' ++ raws xs.length ++ (raws (ys.length + k - xs.length) ++ post')) := by
        rw [hb1, View.set_same]; simp only [List.append_assoc]; rw [raws_regroup _ _ _ hroom]
      have hrl := relocAcross_post2 m1 r r' hne pre post pre' _ xs hB hB'
      refine Post.mono hrl ?_
      intro res m2 hq
      have q2 : OkSet2 m0 r _ r' _ res m2 := OkSet2.chain (hb1.trans (View.set_eq_set2 h _ _)) hk1 hq
      simpa using q2
    · rintro e m1 ⟨he, _⟩; cases he

/-- `move_n(first, n, d_first, d_n)` from region `r` onto `d_n` objects followed by raw room in region `r'` -/
theorem moveNAcross_post (m : Mem α) (r r' : Region) (hne : r ≠ r') (pre post pre' post' : List (Slot α)) (xs ys : List α) (k : Nat)
    (hroom : xs.length ≤ ys.length + k)
    (h : m.buf r = some (pre ++ lives xs ++ post)) (h' : m.buf r' = some (pre' ++ lives ys ++ raws k ++ post')) :
    Post (moveN ⟨r, pre.length⟩ xs.length ⟨r', pre'.length⟩ ys.length) m
      (fun res m' => res = .ok () ∧ Keep m m' ∧
         m'.buf = View.set (View.set m.buf r (pre ++ raws xs.length ++ post)) r'
                     (pre' ++ lives xs ++ raws (ys.length + k - xs.length) ++ post')) :=
  moveNAcross_post2 m r r' hne pre post pre' post' xs ys k hroom h h'

/-! ### `swap_deep` between two regions -/

theorem swapDeepAcross_post2 (m : Mem α) (r r' : Region) (hne : r ≠ r') (pre post pre' post' : List (Slot α)) (xs ys : List α)
    (k k' : Nat) (hroom : ys.length ≤ xs.length + k) (hroom' : xs.length ≤ ys.length + k')
    (h : m.buf r = some (pre ++ lives xs ++ raws k ++ post)) (h' : m.buf r' = some (pre' ++ lives ys ++ raws k' ++ post')) :
    Post (swapDeep ⟨r, pre.length⟩ xs.length ⟨r', pre'.length⟩ ys.length) m
      (OkSet2 m r (pre ++ lives ys ++ raws (xs.length + k - ys.length) ++ post) r'
                  (pre' ++ lives xs ++ raws (ys.length + k' - xs.length) ++ post')) := by
  unfold swapDeep
  by_cases hlt : xs.length < ys.length
  · simp only [hlt, ↓reduceIte]
    obtain ⟨ys1, ys2, rfl, hl1⟩ : ∃ ys1 ys2, ys = ys1 ++ ys2 ∧ ys1.length = xs.length :=
      ⟨ys.take xs.length, ys.drop xs.length, (List.take_append_drop _ _).symm, by simp; omega⟩
    simp only [List.length_append] at hroom hroom' hlt
    have hmin : min xs.length (ys1 ++ ys2).length = xs.length := by simp only [List.length_append]; omega
    rw [hmin]
    have hA : m.buf r = some (pre ++ lives xs ++ (raws k ++ post)) := by rw [h]; simp
    have hA' : m.buf r' = some (pre' ++ lives ys1 ++ (lives ys2 ++ raws k' ++ post')) := by rw [h']; simp [lives]
    refine Post.bind (swapRanges_across r r' hne xs ys1 m pre _ pre' _ hl1.symm hA hA') ?_ ?_
    · rintro _ m1 ⟨_, hk1, hb1⟩
      have hS : m1.buf r' = some ((pre' ++ lives xs) ++ lives ys2 ++ (raws k' ++ post')) := by
        rw [hb1, View.set2_right]; simp
      have hD : m1.buf r = some ((pre ++ lives ys1) ++ raws ys2.length ++ (raws (k - ys2.length) ++ post)) := by
        rw [hb1, View.set2_left _ _ _ hne, raws_split ys2.length k (by omega)]; simp
      have hrl := relocAcross_post2 m1 r' r (Ne.symm hne) _ _ _ _ ys2 hS hD
      have e1 : (Addr.mk r' pre'.length).add xs.length = ⟨r', (pre' ++ lives xs).length⟩ := by simp [Addr.add]
      have e2 : (Addr.mk r pre.length).add xs.length = ⟨r, (pre ++ lives ys1).length⟩ := by simp [Addr.add, hl1]
      have e3 : (ys1 ++ ys2).length - xs.length = ys2.length := by simp only [List.length_append]; omega
      rw [e1, e2, e3]
      refine Post.mono hrl ?_
      intro res m2 hq
      have q := OkSet2.chain hb1 hk1 (OkSet2.swap hne hq)
      have ea : pre ++ lives ys1 ++ lives ys2 ++ (raws (k - ys2.length) ++ post)
          = pre ++ lives (ys1 ++ ys2) ++ raws (xs.length + k - (ys1 ++ ys2).length) ++ post := by
        rw [show xs.length + k - (ys1 ++ ys2).length = k - ys2.length by simp only [List.length_append]; omega, lives_append]
        simp
      have eb : pre' ++ lives xs ++ raws ys2.length ++ (raws k' ++ post')
          = pre' ++ lives xs ++ raws ((ys1 ++ ys2).length + k' - xs.length) ++ post' := by
        rw [show (ys1 ++ ys2).length + k' - xs.length = ys2.length + k' by simp only [List.length_append]; omega, ← raws_append]
        simp
      rw [ea, eb] at q
      exact q
    · rintro e m1 ⟨he, _⟩; cases he
  · simp only [hlt, ↓reduceIte]
    obtain ⟨xs1, xs2, rfl, hl1⟩ : ∃ xs1 xs2, xs = xs1 ++ xs2 ∧ xs1.length = ys.length :=
      ⟨xs.take ys.length, xs.drop ys.length, (List.take_append_drop _ _).symm, by simp; omega⟩
    simp only [List.length_append] at hroom hroom' hlt
    have hmin : min (xs1 ++ xs2).length ys.length = xs1.length := by simp only [List.length_append]; omega
    rw [hmin]
    have hA : m.buf r = some (pre ++ lives xs1 ++ (lives xs2 ++ raws k ++ post)) := by rw [h]; simp [lives]
    have hA' : m.buf r' = some (pre' ++ lives ys ++ (raws k' ++ post')) := by rw [h']; simp
    refine Post.bind (swapRanges_across r r' hne xs1 ys m pre _ pre' _ hl1 hA hA') ?_ ?_
    · rintro _ m1 ⟨_, hk1, hb1⟩
      have hS : m1.buf r = some ((pre ++ lives ys) ++ lives xs2 ++ (raws k ++ post)) := by
        rw [hb1, View.set2_left _ _ _ hne]; simp
      have hD : m1.buf r' = some ((pre' ++ lives xs1) ++ raws xs2.length ++ (raws (k' - xs2.length) ++ post')) := by
        rw [hb1, View.set2_right, raws_split xs2.length k' (by omega)]; simp
      have hrl := relocAcross_post2 m1 r r' hne _ _ _ _ xs2 hS hD
      have e1 : (Addr.mk r pre.length).add ys.length = ⟨r, (pre ++ lives ys).length⟩ := by simp [Addr.add]
      have e2 : (Addr.mk r' pre'.length).add ys.length = ⟨r', (pre' ++ lives xs1).length⟩ := by simp [Addr.add, hl1]
      have e3 : (xs1 ++ xs2).length - ys.length = xs2.length := by simp only [List.length_append]; omega
      rw [e1, e2, e3]
      refine Post.mono hrl ?_
      intro res m2 hq
      have q := OkSet2.chain hb1 hk1 hq
      have ea : pre ++ lives ys ++ raws xs2.length ++ (raws k ++ post)
          = pre ++ lives ys ++ raws ((xs1 ++ xs2).length + k - ys.length) ++ post := by
        rw [show (xs1 ++ xs2).length + k - ys.length = xs2.length + k by simp only [List.length_append]; omega, ← raws_append]
        simp
      have eb : pre' ++ lives xs1 ++ lives xs2 ++ (raws (k' - xs2.length) ++ post')
          = pre' ++ lives (xs1 ++ xs2) ++ raws (ys.length + k' - (xs1 ++ xs2).length) ++ post' := by
        rw [show ys.length + k' - (xs1 ++ xs2).length = k' - xs2.length by simp only [List.length_append]; omega, lives_append]
        simp
      rw [ea, eb] at q
      exact q
    · rintro e m1 ⟨he, _⟩; cases he

/-- `swap_deep(first1, count1, first2, count2)` of two ranges of different regions, each followed by raw room -/
theorem swapDeepAcross_post (m : Mem α) (r r' : Region) (hne : r ≠ r') (pre post pre' post' : List (Slot α)) (xs ys : List α)
    (k k' : Nat) (hroom : ys.length ≤ xs.length + k) (hroom' : xs.length ≤ ys.length + k')
    (h : m.buf r = some (pre ++ lives xs ++ raws k ++ post)) (h' : m.buf r' = some (pre' ++ lives ys ++ raws k' ++ post')) :
    Post (swapDeep ⟨r, pre.length⟩ xs.length ⟨r', pre'.length⟩ ys.length) m
      (fun res m' => res = .ok () ∧ Keep m m' ∧
         m'.buf = View.set (View.set m.buf r (pre ++ lives ys ++ raws (xs.length + k - ys.length) ++ post)) r'
                     (pre' ++ lives xs ++ raws (ys.length + k' - xs.length) ++ post')) :=
  swapDeepAcross_post2 m r r' hne pre post pre' post' xs ys k k' hroom hroom' h h'

end AmcVerif
