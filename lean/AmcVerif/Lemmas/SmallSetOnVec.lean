import AmcVerif.Lemmas.FlatSetOnVec
import AmcVerif.Bridge.SmallSetBridge
/-! The inline state of `amc::SmallSet` on top of the slot-level vector model.

While a SmallSet is small its elements live in the inline vector `_vec` (insertion order, `_set` empty).  Here `_vec` is pool
container `c` of the slot model; the decision is the *generated* function of `Gen/SmallSetGen.lean` applied to the state
`⟨contents of c, []⟩`, the mutation is the slot-level vector operation the list primitive of the generated code stands for
(`_vec.push_back(v)` = `vec ++ [v]` = `pushBackCopy` / `pushBackMove`; `_vec.erase(it)` = `vec.eraseIdx it` = `eraseOne`).
An insertion into a full inline vector makes the set grow into its backing set, which the slot model does not contain: the
composed operation then does nothing and reports `false` ("left the inline state"). -/
namespace AmcVerif
open AmcVerif.FS AmcVerif.Sets AmcVerif.Bridge.SmallSet
variable {α : Type}

/-- the small state whose inline vector holds `xs` -/
def smallState (xs : List α) : SSet α := ⟨xs, []⟩

theorem smallState_excl (xs : List α) : (smallState xs).set ≠ [] → (smallState xs).vec = [] := fun h => absurd rfl h

/-- the model says that `insert(v)` stays in the inline state: `v` is already present or there is room -/
def StaysSmall (lt : α → α → Bool) (N : Nat) (xs : List α) (v : α) : Prop :=
  ((smallState xs).insert lt N v).2.2.2.isSome = true

/-- the exits of `SmallSet::insert` in the small state: found (nothing changes), appended (`_vec.push_back(v)`), or the
    inline vector is full and the set grows -/
theorem ss_insert_cases (lt : α → α → Bool) (N : Nat) (xs : List α) (v : α) :
    (∃ i, insertR lt N (smallState xs) v = (smallState xs, ((true, i), false), scanCalls lt (smallState xs) v)) ∨
    (xs.length ≠ N ∧
      insertR lt N (smallState xs) v = (smallState (xs ++ [v]), ((true, xs.length), true), scanCalls lt (smallState xs) v)) ∨
    (xs.length = N ∧ ¬ StaysSmall lt N xs v ∧
      ∃ s' i b, insertR lt N (smallState xs) v = (s', ((false, i), b), scanCalls lt (smallState xs) v)) := by
  unfold StaysSmall insertR SSet.insert
  have hsm : (smallState xs).isSmall = true := rfl
  simp only [hsm, if_true]
  show _ ∨ _ ∨ _
  have hv : (smallState xs).vec = xs := rfl
  simp only [hv]
  generalize findSmall lt xs v 0 = p
  obtain ⟨r, n⟩ := p
  cases r with
  | some i => exact Or.inl ⟨i, rfl⟩
  | none =>
    by_cases hf : xs.length = N
    · refine Or.inr (Or.inr ⟨hf, ?_, ?_⟩)
      · simp [hf]
      · simp only [hf, if_true]
        exact ⟨_, _, _, rfl⟩
    · refine Or.inr (Or.inl ⟨hf, ?_⟩)
      simp only [hf, if_false]
      rfl

/-- the exits of `SmallSet::erase(key)` in the small state -/
theorem ss_erase_cases (lt : α → α → Bool) (N : Nat) (xs : List α) (k : α) :
    (∃ n, Gen.SmallSet.erase lt N (smallState xs) k = some (smallState xs, 0, n)
        ∧ ((smallState xs).eraseKey lt k).1 = smallState xs) ∨
    (∃ i n n', Gen.SmallSet.erase lt N (smallState xs) k = some (smallState (xs.eraseIdx i), 1, n)
        ∧ Gen.SmallSet.mfind_small lt N (smallState xs) k = some (smallState xs, i, n') ∧ i < xs.length
        ∧ ((smallState xs).eraseKey lt k).1 = smallState (xs.eraseIdx i)) := by
  rw [erase_eq lt N (smallState xs) k (smallState_excl xs), mfind_small_eq]
  unfold SSet.eraseKey
  have hsm : (smallState xs).isSmall = true := rfl
  have hv : (smallState xs).vec = xs := rfl
  simp only [hsm, if_true, hv]
  cases hf : (findSmall lt xs k 0).1 with
  | none => exact Or.inl ⟨_, rfl, rfl⟩
  | some i =>
    have hr := findSmall_range lt xs k 0 i hf
    exact Or.inr ⟨i, _, (findSmall lt xs k 0).2, rfl, by simp, by omega, rfl⟩

/-! ### the composed operations -/

/-- `SmallSet::insert(const T&)` (smallset.hpp:290) on a small set; `false`: the set has to grow (not modelled, nothing done) -/
def ssInsert (cfg : Cfg) (c : Nat) (lt : α → α → Bool) (N : Nat) (v : α) : M α Bool := do
  let xs ← elems cfg c
  match Gen.SmallSet.insert lt N (smallState xs) v with
  | some (_, ((true, _), true), _) => do pushBackCopy cfg c (.lit v); pure true
  | some (_, ((true, _), false), _) => pure true
  | some (_, ((false, _), _), _) => pure false
  | none => fault .precond

/-- `SmallSet::insert(T&&)` (smallset.hpp:292) on a small set -/
def ssInsertMove (cfg : Cfg) (c : Nat) (lt : α → α → Bool) (N : Nat) (v : α) : M α Bool := do
  let xs ← elems cfg c
  match Gen.SmallSet.insert_rv lt N (smallState xs) v with
  | some (_, ((true, _), true), _) => do pushBackMove cfg c v; pure true
  | some (_, ((true, _), false), _) => pure true
  | some (_, ((false, _), _), _) => pure false
  | none => fault .precond

/-- `SmallSet::erase(const T&)` (smallset.hpp:395) on a small set: the generated `erase` decides, the position is the one
    `mfind_small` (which `erase` calls, L399) returns -/
def ssEraseKey (cfg : Cfg) (c : Nat) (lt : α → α → Bool) (N : Nat) (k : α) : M α Unit := do
  let xs ← elems cfg c
  match Gen.SmallSet.erase lt N (smallState xs) k with
  | some (_, 0, _) => pure ()
  | some (_, _ + 1, _) =>
    match Gen.SmallSet.mfind_small lt N (smallState xs) k with
    | some (_, i, _) => do let _ ← eraseOne cfg c i; pure ()
    | none => fault .precond
  | none => fault .precond

section posts
variable {cfg : Cfg} {Ok : VB → Prop}

/-- keeping the value `b` instead of `()` -/
theorem strong_const {β : Type} {c : Nat} {m : Mem α} {w : VB} {xs xs' : List α} {x : M α Unit} (b : β)
    (h : Post x m (StrongPost cfg Ok c m w xs xs' ())) :
    Post (do x; pure b) m (StrongPost cfg Ok c m w xs xs' b) := by
  refine Post.bind h ?_ ?_
  · rintro a m1 ⟨hq, hfr⟩
    rcases hq with ⟨_, hv⟩ | ⟨e, he, _⟩
    · exact ⟨Or.inl ⟨rfl, hv⟩, hfr⟩
    · cases he
  · rintro e m1 ⟨hq, hfr⟩
    rcases hq with ⟨he, _⟩ | ⟨e', he, hv⟩
    · cases he
    · injection he with he; subst he
      exact ⟨Or.inr ⟨e', rfl, hv⟩, hfr⟩

/-- `insert(const T&)` while the set stays small: strong guarantee, never a fault; the inline vector ends with the contents
    computed by the set model -/
theorem ssInsert_post (L : VecLaws α cfg Ok) (m : Mem α) (c : Nat) (xs : List α) (w : VB) (lt : α → α → Bool) (N : Nat) (v : α)
    (h : VRepW cfg Ok c m xs w) (hf : Fresh m) (hsmall : StaysSmall lt N xs v) :
    Post (ssInsert cfg c lt N v) m (StrongPost cfg Ok c m w xs ((smallState xs).insert lt N v).1.vec true) := by
  unfold ssInsert
  refine Post.bind (elems_post L m c xs w h hf) ?_ (by okerr)
  rintro ys m1 ⟨hys, rfl⟩; injection hys with hys; subst hys
  rw [insert_eq lt N (smallState ys) v (smallState_excl ys)]
  have hl : ((smallState ys).insert lt N v).1 = (insertR lt N (smallState ys) v).1 := rfl
  rw [hl]
  rcases ss_insert_cases lt N ys v with ⟨i, he⟩ | ⟨_, he⟩ | ⟨_, hns, _⟩
  · rw [he]
    exact ⟨Or.inl ⟨rfl, w, h⟩, FrameL.refl _ _ _ _⟩
  · rw [he]
    exact strong_const true (pushBackCopy_post L m1 c ys w (.lit v) v h hf rfl)
  · exact absurd hsmall hns

/-- `insert(T&&)` while the set stays small -/
theorem ssInsertMove_post (L : VecLaws α cfg Ok) (m : Mem α) (c : Nat) (xs : List α) (w : VB) (lt : α → α → Bool) (N : Nat) (v : α)
    (h : VRepW cfg Ok c m xs w) (hf : Fresh m) (hsmall : StaysSmall lt N xs v) :
    Post (ssInsertMove cfg c lt N v) m (StrongPost cfg Ok c m w xs ((smallState xs).insert lt N v).1.vec true) := by
  unfold ssInsertMove
  refine Post.bind (elems_post L m c xs w h hf) ?_ (by okerr)
  rintro ys m1 ⟨hys, rfl⟩; injection hys with hys; subst hys
  rw [insert_rv_eq lt N (smallState ys) v (smallState_excl ys)]
  have hl : ((smallState ys).insert lt N v).1 = (insertR lt N (smallState ys) v).1 := rfl
  rw [hl]
  rcases ss_insert_cases lt N ys v with ⟨i, he⟩ | ⟨_, he⟩ | ⟨_, hns, _⟩
  · rw [he]
    exact ⟨Or.inl ⟨rfl, w, h⟩, FrameL.refl _ _ _ _⟩
  · rw [he]
    exact strong_const true (pushBackMove_post L m1 c ys w v h hf)
  · exact absurd hsmall hns

/-- when the inline vector is full and the value is new, the inline-state operation reports `false` and touches nothing -/
theorem ssInsert_grows (L : VecLaws α cfg Ok) (m : Mem α) (c : Nat) (xs : List α) (w : VB) (lt : α → α → Bool) (N : Nat) (v : α)
    (h : VRepW cfg Ok c m xs w) (hf : Fresh m) (hns : ¬ StaysSmall lt N xs v) :
    Post (ssInsert cfg c lt N v) m (fun res m' => res = .ok false ∧ m' = m) := by
  unfold ssInsert
  refine Post.bind (elems_post L m c xs w h hf) ?_ (by okerr)
  rintro ys m1 ⟨hys, rfl⟩; injection hys with hys; subst hys
  rw [insert_eq lt N (smallState ys) v (smallState_excl ys)]
  rcases ss_insert_cases lt N ys v with ⟨i, he⟩ | ⟨hne, he⟩ | ⟨_, _, s', i, b, he⟩
  · exact absurd (by unfold StaysSmall; have := congrArg (fun r => r.2.1.1.1) he; simpa [insertR] using this) hns
  · exact absurd (by unfold StaysSmall; have := congrArg (fun r => r.2.1.1.1) he; simpa [insertR] using this) hns
  · rw [he]
    exact ⟨rfl, rfl⟩

/-- the set stays small iff the value is present or the inline vector is not full -/
theorem staysSmall_of_room (lt : α → α → Bool) (N : Nat) (xs : List α) (v : α) (hroom : xs.length ≠ N) : StaysSmall lt N xs v := by
  rcases ss_insert_cases lt N xs v with ⟨i, he⟩ | ⟨_, he⟩ | ⟨hN, _, _⟩
  · unfold StaysSmall; have := congrArg (fun r => r.2.1.1.1) he; simpa [insertR] using this
  · unfold StaysSmall; have := congrArg (fun r => r.2.1.1.1) he; simpa [insertR] using this
  · exact absurd hN hroom

/-- what the inline vector holds after an insertion that stays small: the old elements, followed by `v` if it was new -/
theorem ssInsert_result (lt : α → α → Bool) (N : Nat) (xs : List α) (v : α) (hsmall : StaysSmall lt N xs v) :
    ((smallState xs).insert lt N v).1.vec = xs ∨ (xs.length ≠ N ∧ ((smallState xs).insert lt N v).1.vec = xs ++ [v]) := by
  have hl : ((smallState xs).insert lt N v).1 = (insertR lt N (smallState xs) v).1 := rfl
  rw [hl]
  rcases ss_insert_cases lt N xs v with ⟨i, he⟩ | ⟨hne, he⟩ | ⟨_, hns, _⟩
  · rw [he]; exact Or.inl rfl
  · rw [he]; exact Or.inr ⟨hne, rfl⟩
  · exact absurd hsmall hns

/-- `erase(key)` on a small set: strong guarantee (in fact it cannot throw), never a fault -/
theorem ssEraseKey_post (L : VecLaws α cfg Ok) (m : Mem α) (c : Nat) (xs : List α) (w : VB) (lt : α → α → Bool) (N : Nat) (k : α)
    (h : VRepW cfg Ok c m xs w) (hf : Fresh m) :
    Post (ssEraseKey cfg c lt N k) m (StrongPost cfg Ok c m w xs ((smallState xs).eraseKey lt k).1.vec ()) := by
  unfold ssEraseKey
  refine Post.bind (elems_post L m c xs w h hf) ?_ (by okerr)
  rintro ys m1 ⟨hys, rfl⟩; injection hys with hys; subst hys
  rcases ss_erase_cases lt N ys k with ⟨n, hg, hl⟩ | ⟨i, n, n', hg, hfi, hi, hl⟩
  · rw [hg, hl]
    exact StrongPost.noop h
  · rw [hg, hl]
    simp only [hfi]
    exact discard_strong (eraseOne_post L m1 c ys w h hf i hi)

end posts
end AmcVerif
