import AmcVerif.Lemmas.MoveLoops
import AmcVerif.Lemmas.RelocLoops
import AmcVerif.Lemmas.CrossLoops
import AmcVerif.Lemmas.Loops2
import AmcVerif.Model.Vec
/-! Category-independent specifications of the element helpers of `Prim/Helpers.lean` (the `cat = .ntr` statements of
`MoveLoops.lean` merged with the `cat ≠ .ntr` statements of `RelocLoops.lean`), the argument of an insertion (`ArgIn`), and the
single-element insertions `insert_n` / `emplace_n` with their roll-back (strong exception guarantee). -/
namespace AmcVerif
variable {α : Type}

/-! ### Part 1: category-independent helper specifications -/

theorem gapSlot_ntr {c : Cat} (hc : c = .ntr) : (gapSlot c : Slot α) = .hollow := by simp [gapSlot, hc]
theorem gapSlot_tr {c : Cat} (hc : c ≠ .ntr) : (gapSlot c : Slot α) = .raw := by simp [gapSlot, hc]

theorem shiftRight1_post (m : Mem α) (r : Region) (pre post : List (Slot α)) (xs : List α) (hx : xs ≠ [])
    (h : m.buf r = some (pre ++ lives xs ++ .raw :: post)) :
    Post (shiftRight1 ⟨r, pre.length⟩ xs.length) m (OkSet m r (pre ++ gapSlot m.cat :: lives xs ++ post)) := by
  by_cases hc : m.cat = .ntr
  · rw [gapSlot_ntr hc]; exact shiftRight1_ntr m hc r pre post xs hx h
  · rw [gapSlot_tr hc]; exact shiftRight1_tr m hc r pre post xs hx h

theorem shiftLeft_post (m : Mem α) (r : Region) (pre post : List (Slot α)) (xs : List α) (hx : xs ≠ [])
    (h : m.buf r = some (pre ++ gapSlot m.cat :: lives xs ++ post)) :
    Post (shiftLeft ⟨r, pre.length + 1⟩ xs.length) m (OkSet m r (pre ++ lives xs ++ .raw :: post)) := by
  by_cases hc : m.cat = .ntr
  · rw [gapSlot_ntr hc] at h; exact shiftLeft_ntr m hc r pre post xs hx h
  · rw [gapSlot_tr hc] at h; exact shiftLeft_tr m hc r pre post xs h

theorem eraseAt_post (m : Mem α) (r : Region) (pre post : List (Slot α)) (x : α) (xs : List α)
    (h : m.buf r = some (pre ++ .live x :: lives xs ++ post)) :
    Post (eraseAt ⟨r, pre.length⟩ xs.length) m (OkSet m r (pre ++ lives xs ++ .raw :: post)) := by
  by_cases hc : m.cat = .ntr
  · exact eraseAt_ntr m hc r pre post x xs h
  · exact eraseAt_tr m hc r pre post x xs h

theorem eraseN_post (m : Mem α) (r : Region) (pre post : List (Slot α)) (del xs : List α) (hn : del ≠ [])
    (h : m.buf r = some (pre ++ lives del ++ lives xs ++ post)) :
    Post (eraseN ⟨r, pre.length⟩ del.length xs.length) m (OkSet m r (pre ++ lives xs ++ raws del.length ++ post)) := by
  by_cases hc : m.cat = .ntr
  · exact eraseN_ntr m hc r pre post del xs hn h
  · exact eraseN_tr m hc r pre post del xs h

theorem shiftRightN_post (m : Mem α) (r : Region) (pre post : List (Slot α)) (xs : List α) (count : Nat) (hx : xs ≠ []) (hcount : 0 < count)
    (h : m.buf r = some (pre ++ lives xs ++ raws count ++ post)) :
    Post (shiftRightN ⟨r, pre.length⟩ xs.length count) m
      (OkSet m r (pre ++ List.replicate (min count xs.length) (gapSlot m.cat) ++ raws (count - xs.length) ++ lives xs ++ post)) := by
  by_cases hc : m.cat = .ntr
  · rw [gapSlot_ntr hc]; exact shiftRightN_ntr m hc r pre post xs count hx hcount h
  · rw [gapSlot_tr hc]
    have := shiftRightN_tr m hc r pre post xs count h
    have e : (pre ++ List.replicate (min count xs.length) (Slot.raw : Slot α) ++ raws (count - xs.length) ++ lives xs ++ post)
        = pre ++ raws count ++ lives xs ++ post := by
      have : (List.replicate (min count xs.length) (Slot.raw : Slot α)) = raws (min count xs.length) := rfl
      rw [this, List.append_assoc pre, raws_append]
      congr 4; omega
    rw [e]; exact this

/-! ### Part 2: the argument of an insertion, `insert_n` -/

/-- the argument of an insertion denotes `v` and (when it is a reference) lies outside the window -/
def ArgIn (vw : View α) (r : Region) (pre post : List (Slot α)) (n : Nat) : Arg α → α → Prop
  | .copy ref, v => RefIn vw r pre post n ref v
  | .move x, v => x = v

/-- the argument of an insertion can be read in memory `m` and denotes `v` -/
def ArgD (m : Mem α) : Arg α → α → Prop
  | .copy ref, v => Post (deref ref) m (fun res m' => res = .ok v ∧ m' = m)
  | .move x, v => x = v

theorem ArgIn.toD {m : Mem α} {r : Region} {pre post : List (Slot α)} {arg : Arg α} {v : α} (mid : List (Slot α))
    (h : m.buf r = some (pre ++ mid ++ post)) (ha : ArgIn m.buf r pre post mid.length arg v) : ArgD m arg v := by
  cases arg with
  | copy ref => exact deref_post m r pre mid post ref v h ha
  | move x => exact ha

theorem ArgIn.set {vw : View α} {r : Region} {pre post : List (Slot α)} {n : Nat} {arg : Arg α} {v : α}
    (h : ArgIn vw r pre post n arg v) (b' : List (Slot α)) : ArgIn (vw.set r b') r pre post n arg v := by
  cases arg with
  | copy ref => exact RefIn.set h b'
  | move x => exact h

/-- `RefIn` only looks at the view on regions other than `r` -/
theorem RefIn.congr {vw vw' : View α} {r : Region} {pre post : List (Slot α)} {n : Nat} {ref : Ref α} {v : α}
    (hv : ∀ r', r' ≠ r → vw' r' = vw r') (h : RefIn vw r pre post n ref v) : RefIn vw' r pre post n ref v := by
  cases ref with
  | lit x => exact h
  | «at» a =>
    rcases h with ⟨hne, b, hb, hv'⟩ | h | h
    · exact Or.inl ⟨hne, b, by rw [hv _ hne]; exact hb, hv'⟩
    · exact Or.inr (Or.inl h)
    · exact Or.inr (Or.inr h)

theorem ArgIn.congr {vw vw' : View α} {r : Region} {pre post : List (Slot α)} {n : Nat} {arg : Arg α} {v : α}
    (hv : ∀ r', r' ≠ r → vw' r' = vw r') (h : ArgIn vw r pre post n arg v) : ArgIn vw' r pre post n arg v := by
  cases arg with
  | copy ref => exact RefIn.congr hv h
  | move x => exact h

theorem constructArg_postD (m : Mem α) (r : Region) (pre post : List (Slot α)) (arg : Arg α) (v : α)
    (h : m.buf r = some (pre ++ .raw :: post)) (ha : ArgD m arg v) :
    Post (constructArg ⟨r, pre.length⟩ arg) m (OkSetOrExc m r (pre ++ .live v :: post) .elem) := by
  cases arg with
  | copy ref => exact constructCopyRef_post m r pre post ref v h ha
  | move x =>
    have hx : x = v := ha
    subst hx
    simp only [constructArg]
    have := constructFromRvalue_post m ⟨r, pre.length⟩ x _ .raw h (get_mid _ _ _) (Or.inl rfl)
    simp only [set_mid] at this
    exact Post.mono this (fun _ _ hq => Or.inl hq)

theorem constructArg_post (m : Mem α) (r : Region) (pre post : List (Slot α)) (arg : Arg α) (v : α)
    (h : m.buf r = some (pre ++ .raw :: post)) (ha : ArgIn m.buf r pre post 1 arg v) :
    Post (constructArg ⟨r, pre.length⟩ arg) m (OkSetOrExc m r (pre ++ .live v :: post) .elem) :=
  constructArg_postD m r pre post arg v h (ArgIn.toD [.raw] (by simpa using h) ha)

theorem assignAfterShift_post (m : Mem α) (r : Region) (pre post : List (Slot α)) (arg : Arg α) (v : α)
    (h : m.buf r = some (pre ++ gapSlot m.cat :: post)) (ha : ArgIn m.buf r pre post 1 arg v) :
    Post (assignAfterShift ⟨r, pre.length⟩ arg) m (OkSetOrExc m r (pre ++ .live v :: post) .elem) := by
  unfold assignAfterShift
  refine Post.bind (isTR_post m) ?_ (by rintro e m1 ⟨he, _⟩; cases he)
  rintro t m0 ⟨ht, rfl⟩
  injection ht with ht; subst ht
  by_cases hc : m0.cat = .ntr
  · rw [gapSlot_ntr hc] at h
    simp only [hc, bne_self_eq_false, Bool.false_eq_true, ↓reduceIte]
    cases arg with
    | copy ref =>
      have := assignCopyRef_post m0 r pre [] post .hollow ref v (by simp) (by simpa using h) (show RefIn m0.buf r pre post (([] : List (Slot α)).length + 1) ref v from ha)
      simpa using this
    | move x =>
      have hx : x = v := ha
      subst hx
      have := assignFromRvalue_post m0 ⟨r, pre.length⟩ x _ .hollow h (get_mid _ _ _) (Or.inl (by simp))
      simp only [set_mid] at this
      exact Post.mono this (fun _ _ hq => Or.inl hq)
  · rw [gapSlot_tr hc] at h
    simp only [RelocB.cat_bne_ntr hc, ↓reduceIte]
    exact constructArg_post m0 r pre post arg v h ha

theorem insertN_post (m : Mem α) (r : Region) (pre post : List (Slot α)) (xs : List α) (arg : Arg α) (v : α)
    (h : m.buf r = some (pre ++ lives xs ++ .raw :: post))
    (ha : ∀ g : Slot α, ArgIn (View.set m.buf r (pre ++ g :: lives xs ++ post)) r pre (lives xs ++ post) 1 arg v) :
    Post (insertN ⟨r, pre.length⟩ xs.length arg) m
      (fun res m' => ((res = .ok () ∧ m'.buf = View.set m.buf r (pre ++ .live v :: lives xs ++ post)) ∨
                      (res = .error (.exc .elem) ∧ m'.buf = m.buf)) ∧ Keep m m') := by
  unfold insertN
  by_cases hx : xs = []
  · subst hx
    simp only [List.length_nil, ↓reduceIte]
    have h0 : m.buf r = some (pre ++ .raw :: post) := by simpa [lives] using h
    have ha0 : ArgIn m.buf r pre post 1 arg v := by
      have := ha .raw
      simp only [lives, List.map_nil, List.nil_append] at this
      rw [View.set_id _ _ _ (by simpa using h0)] at this
      simpa using this
    refine Post.mono (constructArg_post m r pre post arg v h0 ha0) ?_
    rintro res m1 (⟨hr, hb, hk⟩ | ⟨hr, hs⟩)
    · exact ⟨Or.inl ⟨hr, by rw [hb]; simp [lives]⟩, hk⟩
    · exact ⟨Or.inr ⟨hr, hs.1⟩, hs.2⟩
  · have hn : xs.length ≠ 0 := fun h0 => hx (List.eq_nil_of_length_eq_zero h0)
    simp only [hn, ↓reduceIte]
    refine Post.bind (shiftRight1_post m r pre post xs hx h) ?_ ?_
    · rintro _ m1 ⟨_, hb1, hk1⟩
      have h1 : m1.buf r = some (pre ++ gapSlot m1.cat :: (lives xs ++ post)) := by
        rw [hb1, hk1.cat]; simp
      have ha1 : ArgIn m1.buf r pre (lives xs ++ post) 1 arg v := by
        rw [hb1]; exact ha _
      refine Post.tryCatch (assignAfterShift_post m1 r pre (lives xs ++ post) arg v h1 ha1) ?_ ?_
      · rintro _ m2 (⟨_, hb2, hk2⟩ | ⟨he, _⟩)
        · exact ⟨Or.inl ⟨rfl, by rw [hb2, hb1]; simp⟩, hk1.trans hk2⟩
        · cases he
      · rintro e m2 (⟨he, _⟩ | ⟨he, hs2⟩)
        · cases he
        · injection he with he; subst he
          have h2 : m2.buf r = some (pre ++ gapSlot m2.cat :: lives xs ++ post) := by
            rw [hs2.1, hs2.2.cat]; simpa using h1
          refine Post.bind (shiftLeft_post m2 r pre post xs hx h2) ?_ ?_
          · rintro _ m3 ⟨_, hb3, hk3⟩
            refine Post.throw ⟨Or.inr ⟨rfl, ?_⟩, hk1.trans (hs2.2.trans hk3)⟩
            rw [hb3, hs2.1, hb1, View.set_set, View.set_id _ _ _ h]
          · rintro e m3 ⟨he, _⟩; cases he
    · rintro e m1 ⟨he, _⟩; cases he

/-! ### Part 3: `emplace_n` -/

theorem view_tmp_roundtrip (vw : View α) (r : Region) (L T B1 B2 : List (Slot α)) (ht : vw .tmp = some T) :
    View.set (View.set (View.set (View.set vw .tmp L) r B1) .tmp T) r B2 = View.set vw r B2 := by
  funext x
  simp only [View.set]
  by_cases h1 : x = r
  · simp [h1]
  · by_cases h2 : x = .tmp
    · subst h2; simp [h1, ht]
    · simp [h1, h2]

theorem relocateAfterShift_post (m : Mem α) (r : Region) (hr : r ≠ .tmp) (pre post : List (Slot α)) (v : α)
    (h : m.buf r = some (pre ++ gapSlot m.cat :: post)) (ht : m.buf .tmp = some [.live v]) :
    Post (relocateAfterShift tmpAddr ⟨r, pre.length⟩) m
      (fun res m' => res = .ok () ∧ Keep m m' ∧ m'.buf = View.set (View.set m.buf .tmp [.raw]) r (pre ++ .live v :: post)) := by
  unfold relocateAfterShift
  refine Post.bind (isTR_post m) ?_ (by rintro e m1 ⟨he, _⟩; cases he)
  rintro t m0 ⟨ht0, rfl⟩
  injection ht0 with ht0; subst ht0
  by_cases hc : m0.cat = .ntr
  · rw [gapSlot_ntr hc] at h
    simp only [hc, bne_self_eq_false, Bool.false_eq_true, ↓reduceIte]
    have ham := assignMove_across m0 ⟨r, pre.length⟩ tmpAddr hr [.live v] (pre ++ .hollow :: post) v .hollow ht h
      rfl (get_mid _ _ _) (Or.inl (by simp))
    refine Post.bind ham ?_ ?_
    · rintro _ m1 ⟨_, hk1, hb1⟩
      simp only [set_mid, hc, movedSlot_ntr, tmpAddr, List.set_cons_zero] at hb1
      have h1 : m1.buf (Addr.mk Region.tmp 0).r = some [.hollow] := by rw [hb1]; simp
      have hd := destroyAt_post m1 ⟨.tmp, 0⟩ [.hollow] .hollow h1 rfl (Or.inl (by simp))
      refine Post.mono hd ?_
      rintro res m2 ⟨hr2, hb2, hk2⟩
      refine ⟨hr2, hk1.trans hk2, ?_⟩
      rw [hb2, hb1]
      simp only [List.set_cons_zero, View.set_set]
      rw [View.set_comm _ _ _ _ _ hr]
    · rintro e m1 ⟨he, _⟩; cases he
  · rw [gapSlot_tr hc] at h
    simp only [RelocB.cat_bne_ntr hc, ↓reduceIte]
    unfold relocateAt
    have := relocAcross_post m0 .tmp r (Ne.symm hr) [] [] pre post [v] (by simpa [lives] using ht) (by simpa [raws] using h)
    simpa [raws, lives, tmpAddr] using this

theorem emplaceN_post (m : Mem α) (r : Region) (hr : r ≠ .tmp) (pre post : List (Slot α)) (xs : List α) (arg : Arg α) (v : α)
    (h : m.buf r = some (pre ++ lives xs ++ .raw :: post)) (ht : m.buf .tmp = some [.raw])
    (ha : ArgIn m.buf r pre (lives xs ++ .raw :: post) 0 arg v) :
    Post (emplaceN ⟨r, pre.length⟩ xs.length arg) m
      (fun res m' => ((res = .ok () ∧ m'.buf = View.set m.buf r (pre ++ .live v :: lives xs ++ post)) ∨
                      (res = .error (.exc .elem) ∧ m'.buf = m.buf)) ∧ Keep m m') := by
  have hD : ArgD m arg v := ArgIn.toD (pre := pre) (post := lives xs ++ .raw :: post) [] (by rw [h]; simp) ha
  unfold emplaceN
  by_cases hx : xs = []
  · subst hx
    simp only [List.length_nil, ↓reduceIte]
    have h0 : m.buf r = some (pre ++ .raw :: post) := by simpa [lives] using h
    refine Post.mono (constructArg_postD m r pre post arg v h0 hD) ?_
    rintro res m1 (⟨hr1, hb, hk⟩ | ⟨hr1, hs⟩)
    · exact ⟨Or.inl ⟨hr1, by rw [hb]; simp [lives]⟩, hk⟩
    · exact ⟨Or.inr ⟨hr1, hs.1⟩, hs.2⟩
  · have hn : xs.length ≠ 0 := fun h0 => hx (List.eq_nil_of_length_eq_zero h0)
    simp only [hn, ↓reduceIte]
    have hc := constructArg_postD m .tmp [] [] arg v (by simpa using ht) hD
    refine Post.bind hc ?_ ?_
    · rintro _ m1 (⟨_, hb1, hk1⟩ | ⟨he, _⟩)
      · simp only [List.nil_append] at hb1
        have h1 : m1.buf r = some (pre ++ lives xs ++ .raw :: post) := by
          rw [hb1, View.set_other _ _ _ _ hr]; exact h
        refine Post.bind (shiftRight1_post m1 r pre post xs hx h1) ?_ ?_
        · rintro _ m2 ⟨_, hb2, hk2⟩
          have h2 : m2.buf r = some (pre ++ gapSlot m2.cat :: (lives xs ++ post)) := by
            rw [hb2, hk2.cat]; simp
          have ht2 : m2.buf .tmp = some [.live v] := by
            rw [hb2, View.set_other _ _ _ _ (Ne.symm hr), hb1]; simp
          refine Post.mono (relocateAfterShift_post m2 r hr pre (lives xs ++ post) v h2 ht2) ?_
          rintro res m3 ⟨hr3, hk3, hb3⟩
          refine ⟨Or.inl ⟨hr3, ?_⟩, hk1.trans (hk2.trans hk3)⟩
          rw [hb3, hb2, hb1, view_tmp_roundtrip _ _ _ _ _ _ ht]; simp
        · rintro e m2 ⟨he, _⟩; cases he
      · cases he
    · rintro e m1 (⟨he, _⟩ | ⟨he, hs⟩)
      · cases he
      · exact ⟨Or.inr ⟨he, hs.1⟩, hs.2⟩
end AmcVerif
