import AmcVerif.Model.MemAlgo
/-! Helper lemmas for C15: characterisation of the loops of `Model/MemAlgo.lean` on well-formed input (sources alive,
destination raw) and evaluation of the `Spec` net effects on the same input. No property statements here. -/
namespace AmcVerif.MemAlgo
open AmcVerif
variable {α : Type}

/- list facts (proved here so that nothing depends on the names of core lemmas) -/


theorem take_map_app {β γ : Type} (f : β → γ) (vs : List β) (t : List γ) : (vs.map f ++ t).take vs.length = vs.map f := by
  induction vs with
  | nil => simp
  | cons v vs ih => simp [ih]
theorem drop_map_app {β γ : Type} (f : β → γ) (vs : List β) (t : List γ) : (vs.map f ++ t).drop vs.length = t := by
  induction vs with
  | nil => simp
  | cons v vs ih => simp [ih]
theorem take_rep_app {γ : Type} (n : Nat) (x : γ) (t : List γ) : (List.replicate n x ++ t).take n = List.replicate n x := by
  induction n with
  | zero => simp
  | succ n ih => simp [List.replicate_succ, ih]
theorem drop_rep_app {γ : Type} (n : Nat) (x : γ) (t : List γ) : (List.replicate n x ++ t).drop n = t := by
  induction n with
  | zero => simp
  | succ n ih => simp [List.replicate_succ, ih]

theorem allLive_shape (vs : List α) (st : List (Slot α)) : allLive vs.length (vs.map .live ++ st) = true := by
  simp [allLive, Slot.isLive]
theorem allRaw_shape (n : Nat) (dt : List (Slot α)) : allRaw n (List.replicate n .raw ++ dt) = true := by
  simp [allRaw, Slot.isRaw]

theorem loop1_ok {step : Nat → Slot α → Step1 α} {f : Slot α → Slot α} (l rest : List (Slot α)) (i : Nat)
    (h : ∀ j s, i ≤ j → j < i + l.length → s ∈ l → step j s = .ok (f s)) :
    loop1 step i l.length (l ++ rest) = ⟨l.map f ++ rest, i + l.length, .finished⟩ := by
  induction l generalizing i with
  | nil => simp [loop1]
  | cons s l ih =>
    have h0 := h i s (Nat.le_refl _) (by simp) (by simp)
    have ih' := ih (i+1) (fun j x h1 h2 hx => h j x (by omega) (by simp; omega) (by simp [hx]))
    simp [loop1, h0, ih']
    omega

theorem loop1_throw {step : Nat → Slot α → Step1 α} {f : Slot α → Slot α} (pre : List (Slot α)) (s : Slot α)
    (post : List (Slot α)) (i : Nat)
    (hok : ∀ j x, i ≤ j → j < i + pre.length → x ∈ pre → step j x = .ok (f x))
    (hth : step (i + pre.length) s = .throw) :
    loop1 step i (pre.length + (post.length + 1)) (pre ++ s :: post) = ⟨pre.map f ++ s :: post, i + pre.length, .threw⟩ := by
  induction pre generalizing i with
  | nil =>
    simp at hth
    simp [loop1, hth]
  | cons p pre ih =>
    have h0 := hok i p (Nat.le_refl _) (by simp) (by simp)
    have ih' := ih (i+1) (fun j x h1 h2 hx => hok j x (by omega) (by simp; omega) (by simp [hx]))
      (by simpa [Nat.add_assoc, Nat.add_comm 1] using hth)
    have e : (p :: pre).length + (post.length + 1) = (pre.length + (post.length + 1)) + 1 := by simp; omega
    rw [e]
    simp [loop1, h0, ih']
    omega

theorem map_const_raw {β : Type} (l : List β) : l.map (fun _ => (Slot.raw : Slot α)) = List.replicate l.length .raw := by
  induction l with
  | nil => rfl
  | cons x l ih => simp [List.replicate_succ, ih]

/- the two loop schemes -/


theorem loop2_ok {step : Nat → Slot α → Slot α → Step2 α} {f g : α → Slot α} (vs : List α) (st dt : List (Slot α)) (i : Nat)
    (h : ∀ j v, i ≤ j → j < i + vs.length → step j (.live v) .raw = .ok (f v) (g v)) :
    loop2 step i vs.length (vs.map .live ++ st) (List.replicate vs.length .raw ++ dt)
      = ⟨vs.map f ++ st, vs.map g ++ dt, i + vs.length, .finished⟩ := by
  induction vs generalizing i with
  | nil => simp [loop2]
  | cons v vs ih =>
    have h0 := h i v (Nat.le_refl _) (by simp)
    have ih' := ih (i+1) (fun j w h1 h2 => h j w (by omega) (by simp; omega))
    simp [loop2, List.replicate_succ, h0, ih']
    omega

theorem loop2_throw {step : Nat → Slot α → Slot α → Step2 α} {f g : α → Slot α} (pre : List α) (v : α) (post : List α)
    (st dt : List (Slot α)) (i : Nat)
    (hok : ∀ j w, i ≤ j → j < i + pre.length → step j (.live w) .raw = .ok (f w) (g w))
    (hth : step (i + pre.length) (.live v) .raw = .throw) :
    loop2 step i (pre.length + (post.length + 1)) ((pre ++ v :: post).map .live ++ st)
        (List.replicate (pre.length + (post.length + 1)) .raw ++ dt)
      = ⟨pre.map f ++ ((v :: post).map .live ++ st), pre.map g ++ (List.replicate (post.length + 1) .raw ++ dt),
         i + pre.length, .threw⟩ := by
  induction pre generalizing i with
  | nil =>
    simp at hth
    simp [loop2, List.replicate_succ, hth]
  | cons p pre ih =>
    have h0 := hok i p (Nat.le_refl _) (by simp)
    have ih' := ih (i+1) (fun j w h1 h2 => hok j w (by omega) (by simp; omega)) (by simpa [Nat.add_assoc, Nat.add_comm 1] using hth)
    have e : (p :: pre).length + (post.length + 1) = (pre.length + (post.length + 1)) + 1 := by simp; omega
    rw [e]
    simp [loop2, List.replicate_succ, h0]
    simp at ih'
    rw [ih']
    simp
    exact ⟨by simp [List.replicate_succ], by omega⟩

/- schedule facts -/
theorem throwAt_none_ne {k : Option Nat} {n : Nat} (h : throwAt k n = none) (j : Nat) (hj : j < n) : k ≠ some j := by
  intro e
  subst e
  simp [throwAt, hj] at h

theorem throwAt_some_lt {j n : Nat} (h : j < n) : throwAt (some j) n = some j := by
  simp [throwAt, h]

theorem throwAt_none_none (n : Nat) : throwAt none n = none := rfl

theorem throwAt_zero (k : Option Nat) : throwAt k 0 = none := by
  cases k <;> simp [throwAt]

/- loop bodies on well-formed input -/
theorem loop2_copy_ok (k : Option Nat) (vs : List α) (st dt : List (Slot α)) (hk : throwAt k vs.length = none) :
    loop2 (copyStep k) 0 vs.length (vs.map .live ++ st) (List.replicate vs.length .raw ++ dt)
      = ⟨vs.map .live ++ st, vs.map .live ++ dt, vs.length, .finished⟩ := by
  have := loop2_ok (step := copyStep k) (f := Slot.live) (g := Slot.live) vs st dt 0
    (fun j v _ h2 => by simp [copyStep, throwAt_none_ne hk j (by omega)])
  simpa using this

theorem loop2_move_ok (ty : Ty) (k : Option Nat) (vs : List α) (st dt : List (Slot α)) (hk : throwAt k vs.length = none) :
    loop2 (moveStep ty k) 0 vs.length (vs.map .live ++ st) (List.replicate vs.length .raw ++ dt)
      = ⟨vs.map ty.movedFrom ++ st, vs.map .live ++ dt, vs.length, .finished⟩ := by
  have := loop2_ok (step := moveStep ty k) (f := ty.movedFrom) (g := Slot.live) vs st dt 0
    (fun j v _ h2 => by simp [moveStep, throwAt_none_ne hk j (by omega)])
  simpa using this

theorem loop2_bitCopy_ok (vs : List α) (st dt : List (Slot α)) :
    loop2 (bitCopyStep true) 0 vs.length (vs.map .live ++ st) (List.replicate vs.length .raw ++ dt)
      = ⟨vs.map .live ++ st, vs.map .live ++ dt, vs.length, .finished⟩ := by
  have := loop2_ok (step := bitCopyStep true) (f := Slot.live) (g := Slot.live) vs st dt 0
    (fun j v _ _ => by simp [bitCopyStep])
  simpa using this

theorem loop2_bitReloc_ok (vs : List α) (st dt : List (Slot α)) :
    loop2 (bitRelocStep true) 0 vs.length (vs.map .live ++ st) (List.replicate vs.length .raw ++ dt)
      = ⟨List.replicate vs.length .raw ++ st, vs.map .live ++ dt, vs.length, .finished⟩ := by
  have := loop2_ok (step := bitRelocStep true) (f := fun _ => Slot.raw) (g := Slot.live) vs st dt 0
    (fun j v _ _ => by simp [bitRelocStep])
  simpa [map_const_raw] using this

theorem loop2_copy_throw (pre : List α) (v : α) (post : List α) (st dt : List (Slot α)) :
    loop2 (copyStep (some pre.length)) 0 (pre.length + (post.length + 1)) ((pre ++ v :: post).map .live ++ st)
        (List.replicate (pre.length + (post.length + 1)) .raw ++ dt)
      = ⟨(pre ++ v :: post).map .live ++ st, pre.map .live ++ (List.replicate (post.length + 1) .raw ++ dt),
         pre.length, .threw⟩ := by
  have := loop2_throw (step := copyStep (some pre.length)) (f := Slot.live) (g := Slot.live) pre v post st dt 0
    (fun j w _ h2 => by
      have : pre.length ≠ j := by omega
      simp [copyStep, this])
    (by simp [copyStep])
  simpa using this

theorem loop2_move_throw (ty : Ty) (pre : List α) (v : α) (post : List α) (st dt : List (Slot α)) :
    loop2 (moveStep ty (some pre.length)) 0 (pre.length + (post.length + 1)) ((pre ++ v :: post).map .live ++ st)
        (List.replicate (pre.length + (post.length + 1)) .raw ++ dt)
      = ⟨pre.map ty.movedFrom ++ ((v :: post).map .live ++ st),
         pre.map .live ++ (List.replicate (post.length + 1) .raw ++ dt), pre.length, .threw⟩ := by
  have := loop2_throw (step := moveStep ty (some pre.length)) (f := ty.movedFrom) (g := Slot.live) pre v post st dt 0
    (fun j w _ h2 => by
      have : pre.length ≠ j := by omega
      simp [moveStep, this])
    (by simp [moveStep])
  simpa using this

/-- the memcpy loops stop with `bitwiseNTR` at the first element when the trait does not allow a byte-wise copy -/
theorem loop2_bitCopy_denied (v : α) (vs : List α) (st dt : List (Slot α)) (n : Nat) :
    (loop2 (bitCopyStep false) 0 (n + 1) ((v :: vs).map .live ++ st) (List.replicate (n + 1) .raw ++ dt)).stop
      = .fault .bitwiseNTR := by
  simp [loop2, List.replicate_succ, bitCopyStep]

theorem loop2_bitReloc_denied (v : α) (vs : List α) (st dt : List (Slot α)) (n : Nat) :
    (loop2 (bitRelocStep false) 0 (n + 1) ((v :: vs).map .live ++ st) (List.replicate (n + 1) .raw ++ dt)).stop
      = .fault .bitwiseNTR := by
  simp [loop2, List.replicate_succ, bitRelocStep]

/- destroy loop -/
theorem destroyLoop_alive (l rest : List (Slot α)) (h : ∀ s ∈ l, s ≠ Slot.raw) :
    destroyLoop l.length (l ++ rest) = ⟨List.replicate l.length .raw ++ rest, l.length, .finished⟩ := by
  have := loop1_ok (step := destroyStep) (f := fun _ => Slot.raw) l rest 0
    (fun j s _ _ hs => by
      have := h s hs
      cases s <;> simp_all [destroyStep])
  simpa [destroyLoop, map_const_raw] using this

theorem destroyLoop_live (vs : List α) (rest : List (Slot α)) :
    destroyLoop vs.length (vs.map .live ++ rest) = ⟨List.replicate vs.length .raw ++ rest, vs.length, .finished⟩ := by
  have := destroyLoop_alive (vs.map Slot.live) rest (by simp)
  simpa using this

theorem movedFrom_ne_raw (ty : Ty) (v : α) : ty.movedFrom v ≠ Slot.raw := by
  unfold Ty.movedFrom
  split <;> simp

theorem destroyLoop_movedFrom (ty : Ty) (vs : List α) (rest : List (Slot α)) :
    destroyLoop vs.length (vs.map ty.movedFrom ++ rest) = ⟨List.replicate vs.length .raw ++ rest, vs.length, .finished⟩ := by
  have := destroyLoop_alive (vs.map ty.movedFrom) rest (by
    intro s hs
    simp at hs
    obtain ⟨v, _, rfl⟩ := hs
    exact movedFrom_ne_raw ty v)
  simpa using this

/- one-range construction loops -/
theorem loop1_init_ok (z : α) (k : Option Nat) (n : Nat) (rest : List (Slot α)) (hk : throwAt k n = none) :
    loop1 (initStep z k) 0 n (List.replicate n .raw ++ rest) = ⟨List.replicate n (.live z) ++ rest, n, .finished⟩ := by
  have := loop1_ok (step := initStep z k) (f := fun _ => Slot.live z) (List.replicate n Slot.raw) rest 0
    (fun j s _ h2 hs => by
      have hs' : s = Slot.raw := (List.mem_replicate.mp hs).2
      subst hs'
      have : j < n := by simpa using h2
      simp [initStep, throwAt_none_ne hk j this])
  simpa using this

theorem loop1_fill_ok (z : α) (n : Nat) (rest : List (Slot α)) :
    loop1 (fillStep z) 0 n (List.replicate n .raw ++ rest) = ⟨List.replicate n (.live z) ++ rest, n, .finished⟩ := by
  have := loop1_ok (step := fillStep z) (f := fun _ => Slot.live z) (List.replicate n Slot.raw) rest 0
    (fun j s _ _ _ => by simp [fillStep])
  simpa using this

theorem loop1_vacuous_ok (z : α) (n : Nat) (rest : List (Slot α)) :
    loop1 (vacuousStep z) 0 n (List.replicate n .raw ++ rest) = ⟨List.replicate n (.live z) ++ rest, n, .finished⟩ := by
  have := loop1_ok (step := vacuousStep z) (f := fun _ => Slot.live z) (List.replicate n Slot.raw) rest 0
    (fun j s _ _ hs => by
      have hs' : s = Slot.raw := (List.mem_replicate.mp hs).2
      subst hs'
      simp [vacuousStep])
  simpa using this

theorem loop1_init_throw_aux (z : α) (b : Nat) (rest : List (Slot α)) (a i : Nat) :
    loop1 (initStep z (some (i + a))) i (a + (b + 1)) (List.replicate (a + (b + 1)) .raw ++ rest)
      = ⟨List.replicate a (.live z) ++ (List.replicate (b + 1) .raw ++ rest), i + a, .threw⟩ := by
  induction a generalizing i with
  | zero => simp [loop1, List.replicate_succ, initStep]
  | succ a ih =>
    have e : a + 1 + (b + 1) = (a + (b + 1)) + 1 := by omega
    have e2 : i + (a + 1) = (i + 1) + a := by omega
    have ne : i + 1 + a ≠ i := by omega
    rw [e, e2]
    simp only [List.replicate_succ, List.cons_append, loop1, initStep, Option.some.injEq, ne, if_false]
    rw [ih (i + 1)]
    simp [List.replicate_succ]

theorem loop1_init_throw (z : α) (a b : Nat) (rest : List (Slot α)) :
    loop1 (initStep z (some a)) 0 (a + (b + 1)) (List.replicate (a + (b + 1)) .raw ++ rest)
      = ⟨List.replicate a (.live z) ++ (List.replicate (b + 1) .raw ++ rest), a, .threw⟩ := by
  have := loop1_init_throw_aux z b rest a 0
  simpa using this

/- shapes with an explicit length -/
theorem allLive_shape' {n : Nat} (vs : List α) (st : List (Slot α)) (h : vs.length = n) :
    allLive n (vs.map .live ++ st) = true := by
  subst h
  exact allLive_shape vs st

theorem allAlive_shape (l rest : List (Slot α)) (h : ∀ s ∈ l, s ≠ Slot.raw) : allAlive l.length (l ++ rest) = true := by
  simp [allAlive]
  intro s hs
  have := h s hs
  cases s <;> simp_all [Slot.isRaw]

theorem allAlive_live (vs : List α) (rest : List (Slot α)) : allAlive vs.length (vs.map .live ++ rest) = true := by
  have := allAlive_shape (vs.map Slot.live) rest (by simp)
  simpa using this

theorem allAlive_movedFrom (ty : Ty) (vs : List α) (rest : List (Slot α)) :
    allAlive vs.length (vs.map ty.movedFrom ++ rest) = true := by
  have := allAlive_shape (vs.map ty.movedFrom) rest (by
    intro s hs
    simp at hs
    obtain ⟨v, _, rfl⟩ := hs
    exact movedFrom_ne_raw ty v)
  simpa using this

theorem map_mf_live (ty : Ty) (vs : List α) : (vs.map Slot.live).map ty.mf = vs.map ty.movedFrom := by
  induction vs with
  | nil => rfl
  | cons v vs ih => simp [Ty.mf]

theorem movedFrom_trivCopy (ty : Ty) (h : ty.trivCopy = true) (vs : List α) : vs.map ty.movedFrom = vs.map Slot.live := by
  induction vs with
  | nil => rfl
  | cons v vs ih => simp [Ty.movedFrom, h]

/-- every non-empty list splits at any valid index -/
theorem split_at {β : Type} (vs : List β) (j : Nat) (h : j < vs.length) :
    ∃ pre v post, vs = pre ++ v :: post ∧ pre.length = j := by
  induction vs generalizing j with
  | nil => simp at h
  | cons x xs ih =>
    cases j with
    | zero => exact ⟨[], x, xs, rfl, rfl⟩
    | succ j =>
      obtain ⟨pre, v, post, e, hl⟩ := ih j (by simpa using h)
      exact ⟨x :: pre, v, post, by simp [e], by simp [hl]⟩

/- ImplModeFactory facts -/
theorem mode_memMove {it : It} {m : Bool} (h : it.mode m = .memMove) :
    m = true ∧ it.rvalueRef = false ∧ it.sameType = true ∧ it.isPointerIn = true ∧ it.isPointerOut = true := by
  obtain ⟨a, b, c, d⟩ := it
  cases a <;> cases b <;> cases c <;> cases d <;> cases m <;> simp [It.mode, implMode] at h ⊢

theorem mode_inALoop {it : It} {m : Bool} (h : it.mode m = .memMoveInALoop) :
    m = true ∧ it.rvalueRef = false ∧ it.sameType = true := by
  obtain ⟨a, b, c, d⟩ := it
  cases a <;> cases b <;> cases c <;> cases d <;> cases m <;> simp [It.mode, implMode] at h ⊢

theorem mode_false (it : It) : it.mode false = .dflt := by
  simp [It.mode, implMode]


theorem mf_comp_live (ty : Ty) : (ty.mf ∘ (Slot.live : α → Slot α)) = ty.movedFrom := by
  funext v
  simp [Ty.mf]

theorem rep_app_rep {γ : Type} (a b : Nat) (x : γ) (t : List γ) :
    List.replicate a x ++ (List.replicate b x ++ t) = List.replicate (a + b) x ++ t := by
  induction a with
  | zero => simp
  | succ a ih =>
    have e : a + 1 + b = (a + b) + 1 := by omega
    rw [e]
    simp [List.replicate_succ, ih]

/- loop + handler: the clean-up restores the destination -/
theorem guarded2_copy_throw (ret : Nat → Outcome) (pre : List α) (v : α) (post : List α) (st dt : List (Slot α)) :
    guarded2 (loop2 (copyStep (some pre.length)) 0 (pre.length + (post.length + 1)) ((pre ++ v :: post).map .live ++ st)
        (List.replicate (pre.length + (post.length + 1)) .raw ++ dt)) ret
      = ⟨(pre ++ v :: post).map .live ++ st, List.replicate (pre.length + (post.length + 1)) .raw ++ dt, .thrown⟩ := by
  rw [loop2_copy_throw]
  simp only [guarded2, destroyLoop_live, rep_app_rep]

theorem guarded2_move_throw (ty : Ty) (ret : Nat → Outcome) (pre : List α) (v : α) (post : List α) (st dt : List (Slot α)) :
    guarded2 (loop2 (moveStep ty (some pre.length)) 0 (pre.length + (post.length + 1)) ((pre ++ v :: post).map .live ++ st)
        (List.replicate (pre.length + (post.length + 1)) .raw ++ dt)) ret
      = ⟨pre.map ty.movedFrom ++ ((v :: post).map .live ++ st),
         List.replicate (pre.length + (post.length + 1)) .raw ++ dt, .thrown⟩ := by
  rw [loop2_move_throw]
  simp only [guarded2, destroyLoop_live, rep_app_rep]

theorem destroyLoop_rep_live (z : α) (a : Nat) (rest : List (Slot α)) :
    destroyLoop a (List.replicate a (.live z) ++ rest) = ⟨List.replicate a .raw ++ rest, a, .finished⟩ := by
  have := destroyLoop_live (List.replicate a z) rest
  simpa using this

theorem guarded1_init_throw (ret : Nat → Outcome) (z : α) (a b : Nat) (rest : List (Slot α)) :
    guarded1 (loop1 (initStep z (some a)) 0 (a + (b + 1)) (List.replicate (a + (b + 1)) .raw ++ rest)) ret
      = ⟨List.replicate (a + (b + 1)) .raw ++ rest, .thrown⟩ := by
  rw [loop1_init_throw]
  simp only [guarded1, destroyLoop_rep_live, rep_app_rep]

end AmcVerif.MemAlgo
