import AmcVerif.Lemmas.SmallSetRefine
/-! The element-level contract of `merge` (`MergeSpec`) and its proof for the loop shared by `FlatSet::merge` (`mergeFrom`) and both
arms of `SmallSet::merge` (`mergeLoop_spec`, generic in the target and its insertion function).  No generated code is imported here,
so that the FlatSet statement (`Props/C03f.lean`) does not depend on the SmallSet translation and vice versa. -/
namespace AmcVerif.Sets
open AmcVerif.FS
variable {α : Type} {lt : α → α → Bool}

/-- the loop shared by both arms of `merge`: try to insert each source element into the target, keep it in the source when an
    equivalent element is already there -/
def mergeLoop {T : Type} (ins : T → α → T × Bool) (src : List α) (t : T) (kept : List α) : T × List α :=
  src.foldl (fun (acc : T × List α) v => if (ins acc.1 v).2 then ((ins acc.1 v).1, acc.2) else (acc.1, acc.2 ++ [v])) (t, kept)

theorem mergeLoop_spec {T : Type} (ins : T → α → T × Bool) (el : T → List α) (I : T → Prop)
    (hI : ∀ t v, I t → I (ins t v).1)
    (hT : ∀ t v, I t → (ins t v).2 = true → (el (ins t v).1).Perm (v :: el t))
    (hF : ∀ t v, I t → ((ins t v).2 = false ↔ HasEquiv lt (el t) v)) :
    ∀ (src : List α) (t : T) (kept : List α), I t →
      I (mergeLoop ins src t kept).1 ∧ ∃ moved, (el (mergeLoop ins src t kept).1).Perm (moved ++ el t)
        ∧ (moved ++ (mergeLoop ins src t kept).2).Perm (src ++ kept)
        ∧ (∀ x ∈ moved, ¬ HasEquiv lt (el t) x)
        ∧ (∀ x ∈ (mergeLoop ins src t kept).2, x ∈ kept ∨ HasEquiv lt (el (mergeLoop ins src t kept).1) x) := by
  intro src
  induction src with
  | nil => intro t kept h; exact ⟨h, [], by simp [mergeLoop], by simp [mergeLoop], by simp, fun x hx => Or.inl (by simpa [mergeLoop] using hx)⟩
  | cons v src ih =>
    intro t kept h
    cases hb : (ins t v).2 with
    | true =>
      have e : mergeLoop ins (v :: src) t kept = mergeLoop ins src (ins t v).1 kept := by simp [mergeLoop, hb]
      rw [e]
      obtain ⟨hi, moved, p1, p2, hm, hk⟩ := ih (ins t v).1 kept (hI t v h)
      have hp := hT t v h hb
      refine ⟨hi, v :: moved, ?_, ?_, ?_, hk⟩
      · exact (p1.trans (List.Perm.append_left moved hp)).trans (by simp)
      · simpa using List.Perm.cons v p2
      · intro x hx
        rcases List.mem_cons.mp hx with rfl | hx'
        · intro he; have := (hF t x h).mpr he; rw [hb] at this; cases this
        · intro ⟨y, hy, he⟩
          exact hm x hx' ⟨y, hp.mem_iff.mpr (List.mem_cons_of_mem _ hy), he⟩
    | false =>
      have e : mergeLoop ins (v :: src) t kept = mergeLoop ins src t (kept ++ [v]) := by simp [mergeLoop, hb]
      rw [e]
      obtain ⟨hi, moved, p1, p2, hm, hk⟩ := ih t (kept ++ [v]) h
      refine ⟨hi, moved, p1, ?_, hm, ?_⟩
      · refine p2.trans ?_
        rw [← List.append_assoc]
        simpa using List.perm_append_singleton v (src ++ kept)
      · intro x hx
        rcases hk x hx with hx' | hx'
        · rcases List.mem_append.mp hx' with h1 | h1
          · exact Or.inl h1
          · right
            have : x = v := by simpa using h1
            subst this
            obtain ⟨y, hy, he⟩ := (hF t x h).mp hb
            exact ⟨y, p1.mem_iff.mpr (List.mem_append_right _ hy), he⟩
        · exact Or.inr hx'

/-- the element-level contract of `merge` -/
structure MergeSpec (lt : α → α → Bool) (tgt src tgt' src' : List α) : Prop where
  moved_kept : ∃ moved, tgt'.Perm (moved ++ tgt) ∧ (moved ++ src').Perm src ∧ (∀ x ∈ moved, ¬ HasEquiv lt tgt x)
  kept_equiv : ∀ x ∈ src', HasEquiv lt tgt' x

/-- `FlatSet::merge` / the large-source arm: `mergeFrom` on a strictly increasing target -/
theorem mergeFrom_spec (hswo : SWO lt) (l o : List α) (hs : Sorted lt l) :
    Sorted lt (mergeFrom lt l o).1 ∧ MergeSpec lt l o (mergeFrom lt l o).1 (mergeFrom lt l o).2 := by
  have e : mergeFrom lt l o = mergeLoop (fun t v => ((insertVal lt t v).1, (insertVal lt t v).2.2)) o l [] := rfl
  rw [e]
  obtain ⟨hi, moved, p1, p2, hm, hk⟩ := mergeLoop_spec (lt := lt) (fun t v => ((insertVal lt t v).1, (insertVal lt t v).2.2)) id
    (Sorted lt) (fun t v h => insertVal_sorted hswo t h v) (fun t v _ hb => insertVal_perm t v hb)
    (fun t v h => insertVal_not_inserted_iff hswo t h v) o l [] hs
  exact ⟨hi, ⟨moved, p1, by simpa using p2, hm⟩, fun x hx => (hk x hx).resolve_left (by simp)⟩

end AmcVerif.Sets
