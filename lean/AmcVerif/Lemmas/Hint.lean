import AmcVerif.Lemmas.FlatSetCore
namespace AmcVerif.FS
variable {α : Type} {lt : α → α → Bool}

theorem getElem?_none_of_ge {l : List α} {i : Nat} (h : l.length ≤ i) : l[i]? = none := by simp [h]


/-- exit "v < *prev(hint)": the binary search over [begin, prev) finds the global lower bound -/
theorem lowerIdx_take (hswo : SWO lt) (l : List α) (v : α) (k : Nat) (p : α)
    (hp : l[k]? = some p) (hvp : lt v p = true) :
    lowerIdx lt l v = lowerIdx lt (l.take k) v := by
  have hk : k < l.length := by
    rcases Nat.lt_or_ge k l.length with h | h
    · exact h
    · simp [h] at hp
  have hle : lowerIdx lt (l.take k) v ≤ k := by
    have := lowerIdx_le (lt := lt) (l.take k) v
    simp [List.length_take] at this; omega
  apply lowerIdx_eq l v _ _ (by omega)
  · intro x hx
    rcases Nat.lt_or_ge (lowerIdx lt (l.take k) v) k with hlt' | hge
    · have : (l.take k)[lowerIdx lt (l.take k) v]? = some x := by
        rw [List.getElem?_take]; simp [hlt', hx]
      exact lowerIdx_at (l.take k) v x this
    · have : lowerIdx lt (l.take k) v = k := by omega
      rw [this, hp] at hx; cases hx
      exact hswo.asymm hvp
  · intro j x hj hx
    have : (l.take k)[j]? = some x := by
      rw [List.getElem?_take]; simp [show j < k by omega, hx]
    exact lowerIdx_below (l.take k) v j x hj this

/-- shared proof of the binary-search exit -/
theorem branchB (hswo : SWO lt) (l : List α) (v : α) (h : Nat) (h0 : ¬ h = 0) (p : α)
    (hp : l[h-1]? = some p) (hvp : lt v p = true)
    (fin : ∀ i, lowerIdx lt l v = i →
      (insertVal lt l v) = (match l[i]? with
        | some x => if lt v x then (l.insertIdx i v, i, true) else (l, i, false)
        | none => (l.insertIdx i v, i, true))) :
    searchBefore lt l h v =
      ((insertVal lt l v).1, (insertVal lt l v).2.1) := by
  have hi := lowerIdx_take hswo l v (h-1) p hp hvp
  rw [fin _ hi]
  unfold searchBefore
  generalize lowerIdx lt (List.take (h - 1) l) v = i
  by_cases hih : i = h - 1
  · subst hih; simp [hp, hvp]
  · simp only [hih, ↓reduceIte]
    cases l[i]? with
    | none => simp
    | some x => cases hvx : lt v x <;> simp [hvx]

/-- C12 (model level): for every sorted l, every hint position h ≤ |l| and every v,
    hinted insertion gives the same list and the same designated index as plain insertion. -/
theorem insertHint_eq_insertVal (hswo : SWO lt) (l : List α) (hs : Sorted lt l) (h : Nat) (hh : h ≤ l.length) (v : α) :
    insertHint lt l h v = ((insertVal lt l v).1, (insertVal lt l v).2.1) := by
  -- generic finisher: once the lower bound index is known, both sides compute
  have fin : ∀ i, lowerIdx lt l v = i →
      (insertVal lt l v) = (match l[i]? with
        | some x => if lt v x then (l.insertIdx i v, i, true) else (l, i, false)
        | none => (l.insertIdx i v, i, true)) := by
    intro i hi; subst hi; rfl
  unfold insertHint
  cases hlh : l[h]? with
  | none =>
    -- hint == end
    have hn : h = l.length := by
      have : l.length ≤ h := by
        rcases Nat.lt_or_ge h l.length with hlt' | hge
        · simp [List.getElem?_eq_getElem hlt'] at hlh
        · exact hge
      omega
    simp only [Bool.true_eq_false, ↓reduceIte, if_true]
    by_cases h0 : h = 0
    · -- empty list
      have hl : l = [] := by cases l with | nil => rfl | cons a t => simp at hn; omega
      subst hl; simp [h0, insertVal, lowerIdx]
    · simp only [h0, ↓reduceIte, ne_eq, not_false_eq_true]
      have hp : ∃ p, l[h-1]? = some p := ⟨l[h-1]'(by omega), by simp [List.getElem?_eq_getElem (show h-1 < l.length by omega)]⟩
      obtain ⟨p, hp⟩ := hp
      simp only [hp]
      cases hvp : lt v p with
      | false =>
        simp only [Bool.not_false, ↓reduceIte]
        cases hpv : lt p v with
        | false =>
          -- p ≡ v : return h-1
          have hi : lowerIdx lt l v = h - 1 :=
            lowerIdx_eq l v (h-1) (below_of_sorted_equiv hswo hs hp hvp) (by omega)
              (fun x hx => by rw [hp] at hx; cases hx; exact hpv)
          simp [fin _ hi, hp, hvp]
        | true =>
          have hi : lowerIdx lt l v = h := by
            apply lowerIdx_eq l v h _ hh (fun x hx => by rw [hlh] at hx; cases hx)
            have := below_of_sorted hswo hs hp hpv
            intro j x hj hx; exact this j x (by omega) hx
          simp [fin _ hi, hlh]
      | true =>
        -- v < prev : binary search in [0, h-1)
        simp only [Bool.not_true, Bool.false_eq_true, ↓reduceIte]
        exact branchB hswo l v h h0 p hp hvp fin
  | some x =>
    dsimp only
    cases hxv : lt x v with
    | false =>
      -- v ≤ *hint
      simp only [Bool.not_false, ↓reduceIte]
      by_cases h0 : h = 0
      · simp only [h0, ↓reduceIte, ne_eq, not_true_eq_false] at hlh ⊢
        cases hvx : lt v x with
        | false =>
          have hi : lowerIdx lt l v = 0 :=
            lowerIdx_eq l v 0 (by intro j x hj; omega) (by omega) (fun y hy => by rw [hlh] at hy; cases hy; exact hxv)
          simp [fin _ hi, hlh, hvx]
        | true =>
          have hi : lowerIdx lt l v = 0 :=
            lowerIdx_eq l v 0 (by intro j x hj; omega) (by omega) (fun y hy => by rw [hlh] at hy; cases hy; exact hxv)
          simp [fin _ hi, hlh, hvx]
      · simp only [h0, ↓reduceIte, ne_eq, not_false_eq_true]
        have hp : ∃ p, l[h-1]? = some p := ⟨l[h-1]'(by omega), by simp [List.getElem?_eq_getElem (show h-1 < l.length by omega)]⟩
        obtain ⟨p, hp⟩ := hp
        simp only [hp]
        cases hvp : lt v p with
        | true =>
          simp only [Bool.not_true, Bool.false_eq_true, ↓reduceIte]
          exact branchB hswo l v h h0 p hp hvp fin
        | false =>
          simp only [Bool.not_false, ↓reduceIte]
          cases hvx : lt v x with
          | false =>
            -- *hint ≡ v
            have hi : lowerIdx lt l v = h :=
              lowerIdx_eq l v h (below_of_sorted_equiv hswo hs hlh hvx) hh
                (fun y hy => by rw [hlh] at hy; cases hy; exact hxv)
            simp [fin _ hi, hlh, hvx]
          | true =>
            simp only [Bool.not_true, Bool.false_eq_true, ↓reduceIte]
            cases hpv : lt p v with
            | false =>
              have hi : lowerIdx lt l v = h - 1 :=
                lowerIdx_eq l v (h-1) (below_of_sorted_equiv hswo hs hp hvp) (by omega)
                  (fun y hy => by rw [hp] at hy; cases hy; exact hpv)
              simp [fin _ hi, hp, hvp]
            | true =>
              have hi : lowerIdx lt l v = h := by
                apply lowerIdx_eq l v h _ hh (fun y hy => by rw [hlh] at hy; cases hy; exact hxv)
                have := below_of_sorted hswo hs hp hpv
                intro j y hj hy; exact this j y (by omega) hy
              simp [fin _ hi, hlh, hvx]
    | true =>
      -- *hint < v : look at next
      simp only [Bool.not_true, Bool.false_eq_true, ↓reduceIte]
      cases hny : l[h+1]? with
      | none =>
        have hn : l.length = h + 1 := by
          have h1 : h < l.length := by
            rcases Nat.lt_or_ge h l.length with a | a
            · exact a
            · simp [a] at hlh
          have h2 : l.length ≤ h + 1 := by
            rcases Nat.lt_or_ge (h+1) l.length with a | a
            · simp [List.getElem?_eq_getElem a] at hny
            · exact a
          omega
        have hi : lowerIdx lt l v = h + 1 :=
          lowerIdx_eq l v (h+1) (below_of_sorted hswo hs hlh hxv) (by omega)
            (fun y hy => by rw [hny] at hy; cases hy)
        simp [fin _ hi, hny]
      | some y =>
        simp only
        cases hyv : lt y v with
        | true => simp
        | false =>
          have hi : lowerIdx lt l v = h + 1 :=
            lowerIdx_eq l v (h+1) (below_of_sorted hswo hs hlh hxv)
              (by rcases Nat.lt_or_ge (h+1) l.length with a | a
                  · omega
                  · simp [a] at hny)
              (fun z hz => by rw [hny] at hz; cases hz; exact hyv)
          cases hvy : lt v y <;> simp [fin _ hi, hny, hvy]
end AmcVerif.FS
