import AmcVerif.Lemmas.MonadNorm
/-! Run lemmas for the slot-level primitives of `Prim/Slot.lean`: what each primitive does to the buffer of a region,
stated through `Mem.buf` / `Mem.setBuf`. They are the basis of the helper-level theorems (C02, C09). -/
namespace AmcVerif
variable {α : Type}

/-- the buffer of a region, if the region exists -/
def Mem.buf (m : Mem α) : Region → Option (List (Slot α))
  | .inl c => m.inls[c]?
  | .blk id => (m.blocks.find? (·.id == id)).map (·.buf)
  | .tmp => some [m.tmp]

/-- replace the buffer of a region (what `putBuf` does) -/
def Mem.setBuf (m : Mem α) (r : Region) (b : List (Slot α)) : Mem α :=
  match r with
  | .inl c => { m with inls := m.inls.set c b }
  | .blk id => { m with blocks := m.blocks.map fun (bl : Block α) => if bl.id == id then { bl with buf := b } else bl }
  | .tmp => { m with tmp := b.headD .raw }

theorem getBuf_run (m : Mem α) (r : Region) (b : List (Slot α)) (h : m.buf r = some b) :
    runM (getBuf r) m = (.ok b, m) := by
  unfold getBuf
  cases r with
  | inl c =>
    simp only [Mem.buf] at h
    mnorm; simp [h]; rfl
  | blk id =>
    simp only [Mem.buf, Option.map_eq_some_iff] at h
    obtain ⟨bl, hb, rfl⟩ := h
    mnorm; simp [hb]; rfl
  | tmp =>
    simp only [Mem.buf, Option.some.injEq] at h
    subst h
    mnorm

theorem putBuf_run (m : Mem α) (r : Region) (b : List (Slot α)) :
    runM (putBuf r b) m = (.ok (), m.setBuf r b) := by
  unfold putBuf Mem.setBuf
  cases r <;> mnorm <;> rfl

theorem rd_run (m : Mem α) (a : Addr) (b : List (Slot α)) (s : Slot α) (h : m.buf a.r = some b) (hs : b[a.i]? = some s) :
    runM (rd a) m = (.ok s, m) := by
  have hg := getBuf_run m a.r b h
  unfold rd
  mnorm
  simp [hg, hs]; rfl

theorem wr_run (m : Mem α) (a : Addr) (b : List (Slot α)) (s : Slot α) (h : m.buf a.r = some b) (hi : a.i < b.length) :
    runM (wr a s) m = (.ok (), m.setBuf a.r (b.set a.i s)) := by
  have hg := getBuf_run m a.r b h
  have hp := putBuf_run m a.r (b.set a.i s)
  unfold wr
  mnorm
  simp [hg, hi, hp]

end AmcVerif

namespace AmcVerif
variable {α : Type}

theorem find_map_same (bs : List (Block α)) (id : Nat) (b : List (Slot α)) (bl : Block α)
    (h : bs.find? (·.id == id) = some bl) :
    (bs.map fun (x : Block α) => if x.id == id then { x with buf := b } else x).find? (·.id == id)
      = some { bl with buf := b } := by
  induction bs with
  | nil => simp at h
  | cons x xs ih =>
    rw [List.find?_cons] at h
    rw [List.map_cons, List.find?_cons]
    cases hx : (x.id == id) with
    | true =>
      rw [hx] at h
      simp only [Option.some.injEq] at h
      subst h
      simp only [hx, ↓reduceIte]
    | false =>
      rw [hx] at h
      simp only [hx, Bool.false_eq_true, ↓reduceIte]
      exact ih h

theorem find_map_other (bs : List (Block α)) (id id' : Nat) (b : List (Slot α)) (hne : id' ≠ id) :
    ((bs.map fun (x : Block α) => if x.id == id then { x with buf := b } else x).find? (·.id == id')).map (·.buf)
      = (bs.find? (·.id == id')).map (·.buf) := by
  induction bs with
  | nil => rfl
  | cons x xs ih =>
    rw [List.map_cons, List.find?_cons, List.find?_cons]
    cases hx : (x.id == id) with
    | true =>
      have hxi : x.id = id := by simpa using hx
      have hx' : (x.id == id') = false := by
        simp only [beq_eq_false_iff_ne, ne_eq]; rw [hxi]; exact fun h => hne h.symm
      simp only [↓reduceIte, hx']
      exact ih
    | false =>
      simp only [Bool.false_eq_true, ↓reduceIte]
      cases hx' : (x.id == id') with
      | true => rfl
      | false => exact ih

/-- after `setBuf r b` on an existing region, region `r` holds `b` and every other region is untouched -/
theorem buf_setBuf_same (m : Mem α) (r : Region) (b0 b : List (Slot α)) (h : m.buf r = some b0)
    (hlen : r = .tmp → b.length = 1) : (m.setBuf r b).buf r = some b := by
  cases r with
  | inl c =>
    simp only [Mem.buf] at h ⊢
    simp only [Mem.setBuf]
    have hc : c < m.inls.length := by
      rcases Nat.lt_or_ge c m.inls.length with h1 | h1
      · exact h1
      · simp [List.getElem?_eq_none h1] at h
    simp [List.getElem?_set, hc]
  | blk id =>
    simp only [Mem.buf, Option.map_eq_some_iff] at h
    obtain ⟨bl, hb, _⟩ := h
    simp only [Mem.buf, Mem.setBuf]
    rw [find_map_same m.blocks id b bl hb]; rfl
  | tmp =>
    have := hlen rfl
    simp only [Mem.buf, Mem.setBuf]
    match b, this with
    | [x], _ => rfl

theorem buf_setBuf_other (m : Mem α) (r r' : Region) (b : List (Slot α)) (hne : r' ≠ r) :
    (m.setBuf r b).buf r' = m.buf r' := by
  cases r with
  | inl c =>
    cases r' with
    | inl c' =>
      have : c' ≠ c := fun h => hne (by rw [h])
      simp only [Mem.buf, Mem.setBuf]
      rw [List.getElem?_set_ne (Ne.symm this)]
    | blk _ => rfl
    | tmp => rfl
  | blk id =>
    cases r' with
    | inl _ => rfl
    | blk id' =>
      have : id' ≠ id := fun h => hne (by rw [h])
      simp only [Mem.buf, Mem.setBuf]
      exact find_map_other m.blocks id id' b this
    | tmp => rfl
  | tmp =>
    cases r' with
    | inl _ => rfl
    | blk _ => rfl
    | tmp => exact absurd rfl hne

@[simp] theorem setBuf_cat (m : Mem α) (r : Region) (b : List (Slot α)) : (m.setBuf r b).cat = m.cat := by
  cases r <;> rfl
@[simp] theorem setBuf_fuel (m : Mem α) (r : Region) (b : List (Slot α)) : (m.setBuf r b).fuel = m.fuel := by
  cases r <;> rfl
@[simp] theorem setBuf_ws (m : Mem α) (r : Region) (b : List (Slot α)) : (m.setBuf r b).ws = m.ws := by
  cases r <;> rfl
@[simp] theorem setBuf_ev (m : Mem α) (r : Region) (b : List (Slot α)) : (m.setBuf r b).ev = m.ev := by
  cases r <;> rfl

end AmcVerif

namespace AmcVerif
variable {α : Type}

/-- `m'` is `m` with the buffer of region `r` replaced by `b'` and the fuel set to `f'` (event counters are free) -/
structure Upd (m m' : Mem α) (r : Region) (b' : List (Slot α)) (f' : Option Nat) : Prop where
  buf : m'.buf r = some b'
  other : ∀ r', r' ≠ r → m'.buf r' = m.buf r'
  cat : m'.cat = m.cat
  ws : m'.ws = m.ws
  fuel : m'.fuel = f'
  hr : m'.hasRealloc = m.hasRealloc
  nid : m'.nextId = m.nextId

theorem Upd.refl (m : Mem α) (r : Region) (b : List (Slot α)) (h : m.buf r = some b) : Upd m m r b m.fuel :=
  ⟨h, fun _ _ => rfl, rfl, rfl, rfl, rfl, rfl⟩

theorem Upd.trans {m m1 m2 : Mem α} {r : Region} {b1 b2 : List (Slot α)} {f1 f2 : Option Nat}
    (h1 : Upd m m1 r b1 f1) (h2 : Upd m1 m2 r b2 f2) : Upd m m2 r b2 f2 :=
  ⟨h2.buf, fun r' hr => (h2.other r' hr).trans (h1.other r' hr), h2.cat.trans h1.cat, h2.ws.trans h1.ws, h2.fuel,
   h2.hr.trans h1.hr, h2.nid.trans h1.nid⟩

/-- memories that agree on everything the primitives read, except the event counters -/
theorem upd_setBuf (m : Mem α) (r : Region) (b0 b : List (Slot α)) (h : m.buf r = some b0) (hl : b.length = b0.length) :
    Upd m (m.setBuf r b) r b m.fuel := by
  refine ⟨buf_setBuf_same m r b0 b h ?_, fun r' hr => buf_setBuf_other m r r' b hr, by simp, by simp, by simp, ?_, ?_⟩
  · intro hr; subst hr
    simp only [Mem.buf, Option.some.injEq] at h
    subst h; simpa using hl
  · cases r <;> rfl
  · cases r <;> rfl

theorem bumpEv_run (m : Mem α) (f : Ev → Ev) : runM (bumpEv f) m = (.ok (), { m with ev := f m.ev }) := by
  unfold bumpEv; mnorm <;> rfl

theorem isTC_run (m : Mem α) : runM (isTC (α := α)) m = (.ok (m.cat == .tc), m) := by
  unfold isTC; mnorm <;> rfl

/-- the three behaviours of a throwing event -/
theorem tick_none (m : Mem α) (e : Exc) (h : m.fuel = none ∨ m.fuel = some 0) : runM (tick e) m = (.ok (), m) := by
  unfold tick; mnorm
  rcases h with h | h <;> simp [h] <;> rfl

theorem tick_throw (m : Mem α) (e : Exc) (h : m.fuel = some 1) :
    runM (tick e) m = (.error (.exc e), { m with fuel := some 0 }) := by
  unfold tick; mnorm
  simp [h]; rfl

theorem tick_dec (m : Mem α) (e : Exc) (k : Nat) (h : m.fuel = some (k + 2)) :
    runM (tick e) m = (.ok (), { m with fuel := some (k + 1) }) := by
  unfold tick; mnorm
  simp [h]; rfl

end AmcVerif
