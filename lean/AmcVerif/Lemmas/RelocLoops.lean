import AmcVerif.Lemmas.Loops
/-! Byte-wise relocation inside one region (`cat ≠ .ntr`): specifications of `readLiveN`, `setRawN`, `writeLiveRaw`,
`relocBitwise` (overlap allowed) and of the `memmove` branch of the shifting / erasing helpers of `Prim/Helpers.lean`.

The auxiliary lemmas live in the namespace `AmcVerif.RelocB` (so that they cannot clash with same-named lemmas of sibling
files); the interface theorems `relocRight_post`, `relocLeft_post`, `shiftRight1_tr`, `shiftRightN_tr`, `shiftLeft_tr`,
`uninitShiftLeft_tr`, `eraseAt_tr`, `eraseN_tr` are in `AmcVerif`. -/
namespace AmcVerif
variable {α : Type}
namespace RelocB

theorem get_run (m : Mem α) : runM (get : M α (Mem α)) m = (.ok m, m) := by
  mnorm <;> rfl

theorem get_post (m : Mem α) : Post (get : M α (Mem α)) m (fun res m' => res = .ok m ∧ m' = m) := by
  unfold Post; rw [get_run]; exact ⟨rfl, rfl⟩

theorem isTR_run (m : Mem α) : runM (isTR (α := α)) m = (.ok (m.cat != .ntr), m) := by
  unfold isTR; mnorm <;> rfl

theorem isTR_post (m : Mem α) : Post (isTR (α := α)) m (fun res m' => res = .ok (m.cat != .ntr) ∧ m' = m) := by
  unfold Post; rw [isTR_run]; exact ⟨rfl, rfl⟩

theorem cat_bne_ntr {c : Cat} (hc : c ≠ .ntr) : (c != Cat.ntr) = true := by
  cases c <;> simp_all

theorem cat_beq_ntr {c : Cat} (hc : c ≠ .ntr) : (c == Cat.ntr) = false := by
  cases c <;> simp_all

/-- `readLiveN` on a range of live slots returns their values and changes nothing -/
theorem readLiveN_post (r : Region) (xs : List α) : ∀ (m : Mem α) (pre post : List (Slot α)),
    m.buf r = some (pre ++ lives xs ++ post) →
    Post (readLiveN ⟨r, pre.length⟩ xs.length) m (fun res m' => res = .ok xs ∧ m' = m) := by
  induction xs with
  | nil =>
    intro m pre post _
    simp only [List.length_nil, readLiveN]
    exact ⟨rfl, rfl⟩
  | cons x xs ih =>
    intro m pre post h
    simp only [List.length_cons, readLiveN]
    have hb : m.buf (Addr.mk r pre.length).r = some (pre ++ .live x :: (lives xs ++ post)) := by simpa [lives] using h
    refine Post.bind (readLive_post m ⟨r, pre.length⟩ _ x hb (get_mid _ _ _)) ?_ (by rintro e m1 ⟨he, _⟩; cases he)
    rintro v m1 ⟨hv, rfl⟩
    injection hv with hv; subst hv
    have h1 : m1.buf r = some ((pre ++ [.live v]) ++ lives xs ++ post) := by rw [h]; simp [lives]
    have := ih m1 (pre ++ [.live v]) post h1
    simp only [List.length_append, List.length_cons, List.length_nil, Nat.zero_add] at this
    refine Post.bind this ?_ (by rintro e m1 ⟨he, _⟩; cases he)
    rintro vs m2 ⟨hvs, rfl⟩
    injection hvs with hvs; subst hvs
    exact ⟨rfl, rfl⟩

/-- `setRawN` makes a range of slots raw (whatever they held) -/
theorem setRawN_post (r : Region) (mid : List (Slot α)) : ∀ (m : Mem α) (pre post : List (Slot α)),
    m.buf r = some (pre ++ mid ++ post) →
    Post (setRawN ⟨r, pre.length⟩ mid.length) m (OkSet m r (pre ++ raws mid.length ++ post)) := by
  induction mid with
  | nil =>
    intro m pre post h
    simp only [List.length_nil, setRawN, raws, List.replicate_zero]
    exact ⟨rfl, by rw [View.set_id _ _ _ (by simpa using h)]; rfl, Keep.refl m⟩
  | cons s mid ih =>
    intro m pre post h
    simp only [List.length_cons, setRawN]
    have hb : m.buf (Addr.mk r pre.length).r = some (pre ++ s :: (mid ++ post)) := by simpa using h
    refine Post.bind (wr_post m ⟨r, pre.length⟩ _ .raw hb (by simp)) ?_ ?_
    · rintro _ m1 ⟨_, hb1, hk1⟩
      simp only [set_mid] at hb1
      have h1 : m1.buf r = some ((pre ++ [.raw]) ++ mid ++ post) := by rw [hb1]; simp
      have := ih m1 (pre ++ [.raw]) post h1
      simp only [List.length_append, List.length_cons, List.length_nil, Nat.zero_add] at this
      refine Post.mono this ?_
      rintro res m2 ⟨hr, hb2, hk2⟩
      refine ⟨hr, ?_, hk1.trans hk2⟩
      rw [hb2, hb1]; simp [raws, List.replicate_succ]
    · rintro e m1 ⟨he, _⟩; cases he

/-- `writeLiveRaw` on a range of raw slots makes them live with the given values -/
theorem writeLiveRaw_post (r : Region) (xs : List α) : ∀ (m : Mem α) (pre post : List (Slot α)),
    m.buf r = some (pre ++ raws xs.length ++ post) →
    Post (writeLiveRaw ⟨r, pre.length⟩ xs) m (OkSet m r (pre ++ lives xs ++ post)) := by
  induction xs with
  | nil =>
    intro m pre post h
    simp only [writeLiveRaw, lives, List.map_nil]
    exact ⟨rfl, by rw [View.set_id _ _ _ (by simpa [raws] using h)]; rfl, Keep.refl m⟩
  | cons x xs ih =>
    intro m pre post h
    simp only [writeLiveRaw]
    have hb : m.buf (Addr.mk r pre.length).r = some (pre ++ .raw :: (raws xs.length ++ post)) := by
      simpa [raws, List.replicate_succ] using h
    refine Post.bind (requireRaw_post m ⟨r, pre.length⟩ _ .raw hb (get_mid _ _ _) (Or.inl rfl)) ?_
      (by rintro e m1 ⟨he, _⟩; cases he)
    rintro _ m0 ⟨_, rfl⟩
    refine Post.bind (wr_post m0 ⟨r, pre.length⟩ _ (.live x) hb (by simp)) ?_ ?_
    · rintro _ m1 ⟨_, hb1, hk1⟩
      simp only [set_mid] at hb1
      have h1 : m1.buf r = some ((pre ++ [.live x]) ++ raws xs.length ++ post) := by rw [hb1]; simp
      have := ih m1 (pre ++ [.live x]) post h1
      simp only [List.length_append, List.length_cons, List.length_nil, Nat.zero_add] at this
      refine Post.mono this ?_
      rintro res m2 ⟨hr, hb2, hk2⟩
      refine ⟨hr, ?_, hk1.trans hk2⟩
      rw [hb2, hb1]; simp [lives]
    · rintro e m1 ⟨he, _⟩; cases he

/-- `memmove` of `xs.length` live objects inside one region (`cat ≠ .ntr`): the window of the buffer that holds the
    objects moves from behind `pre` to behind `pre'`; everything else of the (rearranged) buffer is unchanged. Overlap is
    allowed: the side condition only says that the two decompositions agree once the objects are taken out. -/
theorem relocBitwise_post (m : Mem α) (hc : m.cat ≠ .ntr) (r : Region) (pre post pre' post' : List (Slot α)) (xs : List α)
    (h : m.buf r = some (pre ++ lives xs ++ post))
    (heq : pre ++ raws xs.length ++ post = pre' ++ raws xs.length ++ post') :
    Post (relocBitwise ⟨r, pre.length⟩ xs.length ⟨r, pre'.length⟩) m (OkSet m r (pre' ++ lives xs ++ post')) := by
  unfold relocBitwise
  by_cases hn : xs.length = 0
  · simp only [hn, ↓reduceIte]
    have hx : xs = [] := List.eq_nil_of_length_eq_zero hn
    subst hx
    refine ⟨rfl, ?_, Keep.refl m⟩
    rw [View.set_id _ _ _ (by rw [h]; simpa [raws, lives] using heq)]; rfl
  · simp only [hn, ↓reduceIte]
    refine Post.bind (get_post m) ?_ (by rintro e m1 ⟨he, _⟩; cases he)
    rintro m0 m1 ⟨hm0, hm1⟩
    injection hm0 with hm0; subst m0; subst m1
    simp only [cat_beq_ntr hc, Bool.false_eq_true, ↓reduceIte]
    refine Post.bind (readLiveN_post r xs m pre post h) ?_ (by rintro e m1 ⟨he, _⟩; cases he)
    rintro vs m2 ⟨hvs, hm2⟩
    injection hvs with hvs; subst vs; subst m2
    have hs := setRawN_post r (lives xs) m pre post h
    simp only [lives_length] at hs
    refine Post.bind hs ?_ (by rintro e m1 ⟨he, _⟩; cases he)
    rintro _ m3 ⟨_, hb3, hk3⟩
    have h3 : m3.buf r = some (pre' ++ raws xs.length ++ post') := by rw [hb3, View.set_same, heq]
    refine Post.bind (writeLiveRaw_post r xs m3 pre' post' h3) ?_ (by rintro e m1 ⟨he, _⟩; cases he)
    rintro _ m4 ⟨_, hb4, hk4⟩
    refine Post.mono (bumpEv_post m4 _) ?_
    rintro res m5 ⟨hr, hs5⟩
    refine ⟨hr, ?_, hk3.trans (hk4.trans hs5.2)⟩
    rw [hs5.1, hb4, hb3, View.set_set]

theorem uninitRelocN_run_tr (m : Mem α) (hc : m.cat ≠ .ntr) (src dst : Addr) (n : Nat) :
    runM (uninitRelocN src n dst) m = runM (relocBitwise src n dst) m := by
  unfold uninitRelocN
  have : (m.cat == Cat.ntr) = false := cat_beq_ntr hc
  simp [runM, this, ExceptT.run, StateT.run, bind, ExceptT.bind, ExceptT.mk, ExceptT.bindCont, StateT.bind, get, getThe,
    MonadStateOf.get, StateT.get, liftM, monadLift, MonadLift.monadLift, ExceptT.lift, pure, Functor.map, StateT.map]

/-- for a byte-wise relocatable category `uninitialized_relocate_n` is the `memmove` -/
theorem uninitRelocN_tr (m : Mem α) (hc : m.cat ≠ .ntr) (src dst : Addr) (n : Nat) (Q : Except Stop Unit → Mem α → Prop)
    (h : Post (relocBitwise src n dst) m Q) : Post (uninitRelocN src n dst) m Q := by
  unfold Post at *
  rw [uninitRelocN_run_tr m hc]; exact h

theorem raws_comm (a b : Nat) : (raws a ++ raws b : List (Slot α)) = raws b ++ raws a := by
  rw [raws_append, raws_append, Nat.add_comm]

end RelocB
open RelocB

/-- right shift by `c` slots within one region -/
theorem relocRight_post (m : Mem α) (hc : m.cat ≠ .ntr) (r : Region) (pre post : List (Slot α)) (xs : List α) (c : Nat)
    (h : m.buf r = some (pre ++ lives xs ++ raws c ++ post)) :
    Post (uninitRelocN ⟨r, pre.length⟩ xs.length ⟨r, pre.length + c⟩) m (OkSet m r (pre ++ raws c ++ lives xs ++ post)) := by
  refine uninitRelocN_tr m hc _ _ _ _ ?_
  have := relocBitwise_post m hc r pre (raws c ++ post) (pre ++ raws c) post xs (by rw [h]; simp)
    (by simp only [List.append_assoc]; rw [← List.append_assoc (raws _) (raws _), raws_comm, List.append_assoc])
  simpa using this

/-- left shift by `c` slots within one region -/
theorem relocLeft_post (m : Mem α) (hc : m.cat ≠ .ntr) (r : Region) (pre post : List (Slot α)) (xs : List α) (c : Nat)
    (h : m.buf r = some (pre ++ raws c ++ lives xs ++ post)) :
    Post (uninitRelocN ⟨r, pre.length + c⟩ xs.length ⟨r, pre.length⟩) m (OkSet m r (pre ++ lives xs ++ raws c ++ post)) := by
  refine uninitRelocN_tr m hc _ _ _ _ ?_
  have := relocBitwise_post m hc r (pre ++ raws c) post pre (raws c ++ post) xs h
    (by simp only [List.append_assoc]; rw [← List.append_assoc (raws _) (raws _), raws_comm, List.append_assoc])
  simpa using this

/-- the helpers of `Prim/Helpers.lean` take their `memmove` branch when the category is byte-wise relocatable -/
theorem RelocB.ifTR_post {β : Type} (m : Mem α) (hc : m.cat ≠ .ntr) (A B : M α β) (Q : Except Stop β → Mem α → Prop)
    (h : Post A m Q) : Post (do if ← isTR then A else B) m Q := by
  refine Post.bind (isTR_post m) ?_ (by rintro e m1 ⟨he, _⟩; cases he)
  rintro b m1 ⟨hb, hm1⟩
  injection hb with hb; subst b; subst m1
  simp only [cat_bne_ntr hc, ↓reduceIte]
  exact h

theorem shiftRight1_tr (m : Mem α) (hc : m.cat ≠ .ntr) (r : Region) (pre post : List (Slot α)) (xs : List α) (hx : xs ≠ [])
    (h : m.buf r = some (pre ++ lives xs ++ .raw :: post)) :
    Post (shiftRight1 ⟨r, pre.length⟩ xs.length) m (OkSet m r (pre ++ .raw :: lives xs ++ post)) := by
  have _ := hx   -- `shift_right(first, n)` requires `n ≠ 0`; the byte-wise branch does not need it
  unfold shiftRight1
  refine ifTR_post m hc _ _ _ ?_
  have := relocRight_post m hc r pre post xs 1 (by rw [h]; simp [raws])
  simpa [raws, Addr.add] using this

theorem shiftRightN_tr (m : Mem α) (hc : m.cat ≠ .ntr) (r : Region) (pre post : List (Slot α)) (xs : List α) (count : Nat)
    (h : m.buf r = some (pre ++ lives xs ++ raws count ++ post)) :
    Post (shiftRightN ⟨r, pre.length⟩ xs.length count) m (OkSet m r (pre ++ raws count ++ lives xs ++ post)) := by
  unfold shiftRightN
  refine ifTR_post m hc _ _ _ ?_
  exact relocRight_post m hc r pre post xs count h

theorem shiftLeft_tr (m : Mem α) (hc : m.cat ≠ .ntr) (r : Region) (pre post : List (Slot α)) (xs : List α)
    (h : m.buf r = some (pre ++ .raw :: lives xs ++ post)) :
    Post (shiftLeft ⟨r, pre.length + 1⟩ xs.length) m (OkSet m r (pre ++ lives xs ++ .raw :: post)) := by
  unfold shiftLeft
  refine ifTR_post m hc _ _ _ ?_
  have := relocLeft_post m hc r pre post xs 1 (by rw [h]; simp [raws])
  simpa [raws] using this

theorem uninitShiftLeft_tr (m : Mem α) (hc : m.cat ≠ .ntr) (r : Region) (pre post : List (Slot α)) (xs : List α)
    (h : m.buf r = some (pre ++ .raw :: lives xs ++ post)) :
    Post (uninitShiftLeft ⟨r, pre.length + 1⟩ xs.length) m (OkSet m r (pre ++ lives xs ++ .raw :: post)) := by
  unfold uninitShiftLeft
  refine ifTR_post m hc _ _ _ ?_
  have := relocLeft_post m hc r pre post xs 1 (by rw [h]; simp [raws])
  simpa [raws] using this

theorem eraseAt_tr (m : Mem α) (hc : m.cat ≠ .ntr) (r : Region) (pre post : List (Slot α)) (x : α) (xs : List α)
    (h : m.buf r = some (pre ++ .live x :: lives xs ++ post)) :
    Post (eraseAt ⟨r, pre.length⟩ xs.length) m (OkSet m r (pre ++ lives xs ++ .raw :: post)) := by
  unfold eraseAt
  refine ifTR_post m hc _ _ _ ?_
  have hb : m.buf (Addr.mk r pre.length).r = some (pre ++ .live x :: (lives xs ++ post)) := by simpa using h
  refine Post.bind (destroyAt_post m ⟨r, pre.length⟩ _ (.live x) hb (get_mid _ _ _) (Or.inl (by simp))) ?_ ?_
  · rintro _ m1 ⟨_, hb1, hk1⟩
    simp only [set_mid] at hb1
    have h1 : m1.buf r = some (pre ++ raws 1 ++ lives xs ++ post) := by rw [hb1]; simp [raws]
    have := relocLeft_post m1 (by rw [hk1.cat]; exact hc) r pre post xs 1 h1
    refine Post.mono this ?_
    rintro res m2 ⟨hr, hb2, hk2⟩
    refine ⟨hr, ?_, hk1.trans hk2⟩
    rw [hb2, hb1]; simp [raws]
  · rintro e m1 ⟨he, _⟩; cases he

theorem eraseN_tr (m : Mem α) (hc : m.cat ≠ .ntr) (r : Region) (pre post : List (Slot α)) (del xs : List α)
    (h : m.buf r = some (pre ++ lives del ++ lives xs ++ post)) :
    Post (eraseN ⟨r, pre.length⟩ del.length xs.length) m (OkSet m r (pre ++ lives xs ++ raws del.length ++ post)) := by
  unfold eraseN
  refine ifTR_post m hc _ _ _ ?_
  have hd := destroyN_post r (lives del) m pre (lives xs ++ post) (by rw [h]; simp) (lives_okAlive _ _)
  simp only [lives_length] at hd
  refine Post.bind hd ?_ ?_
  · rintro _ m1 ⟨_, hb1, hk1⟩
    have h1 : m1.buf r = some (pre ++ raws del.length ++ lives xs ++ post) := by rw [hb1]; simp
    have := relocLeft_post m1 (by rw [hk1.cat]; exact hc) r pre post xs del.length h1
    refine Post.mono this ?_
    rintro res m2 ⟨hr, hb2, hk2⟩
    refine ⟨hr, ?_, hk1.trans hk2⟩
    rw [hb2, hb1]; simp
  · rintro e m1 ⟨he, _⟩; cases he

end AmcVerif
