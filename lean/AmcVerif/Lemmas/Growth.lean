import AmcVerif.Lemmas.WStep
/-! C18 core: the growth policy of `SafeNextCapacity` at least doubles the capacity every two growth steps (unless
clamped by the size_type maximum), hence `O(log n)` reallocations for `n` appended elements. -/
namespace AmcVerif

/-- capacity after one growth step from a full vector of capacity `c` (one more element needed) -/
def nextFull (kMax c : Nat) : Nat := nextCapOf kMax c (c + 1)

theorem nextFull_gt (kMax c : Nat) (h : c < kMax) : c < nextFull kMax c ∧ nextFull kMax c ≤ kMax := by
  unfold nextFull nextCapOf; simp only [Nat.min_def, Nat.max_def]; repeat' split
  all_goals omega

theorem nextFull_two (kMax c : Nat) (h : 2 ≤ c) :
    2 * c ≤ nextFull kMax (nextFull kMax c) ∨ nextFull kMax (nextFull kMax c) = kMax ∨ kMax ≤ c := by
  unfold nextFull nextCapOf; simp only [Nat.min_def, Nat.max_def]; repeat' split
  all_goals omega

/-- number of growth steps until the capacity reaches `target`, with fuel -/
def growSteps (kMax : Nat) : Nat → Nat → Nat → Nat
  | 0, _, _ => 0
  | fuel+1, c, target => if target ≤ c then 0 else 1 + growSteps kMax fuel (nextFull kMax c) target

theorem growSteps_le_log (kMax : Nat) (fuel c target k : Nat) (hc : 2 ≤ c) (ht : target ≤ kMax)
    (hk : target ≤ c * 2 ^ k) : growSteps kMax fuel c target ≤ 2 * k := by
  induction k generalizing fuel c with
  | zero =>
    cases fuel with
    | zero => simp [growSteps]
    | succ f => simp [growSteps]; omega
  | succ k ih =>
    cases fuel with
    | zero => simp [growSteps]
    | succ f =>
      simp only [growSteps]
      split
      · omega
      · cases f with
        | zero => simp [growSteps]; omega
        | succ g =>
          simp only [growSteps]
          split
          · omega
          · rename_i h1 h2
            have hck : c < kMax := by omega
            have hg1 := nextFull_gt kMax c hck
            rcases nextFull_two kMax c hc with h2c | hmax | hge
            · have hn : 2 ≤ nextFull kMax (nextFull kMax c) := by omega
              have := ih g (nextFull kMax (nextFull kMax c)) hn (by
                calc target ≤ c * 2 ^ (k+1) := hk
                  _ = (2 * c) * 2 ^ k := by rw [Nat.pow_succ]; ac_rfl
                  _ ≤ nextFull kMax (nextFull kMax c) * 2 ^ k := Nat.mul_le_mul_right _ h2c)
              omega
            · -- clamped at the maximum: the target is reached
              cases g with
              | zero => simp [growSteps]; omega
              | succ g' =>
                simp only [growSteps]
                rw [if_pos (by omega)]
                omega
            · omega

/-- from any start (also capacities 0 and 1): at most two more steps -/
theorem growSteps_le_log' (kMax : Nat) (fuel c target k : Nat) (ht : target ≤ kMax)
    (hk : target ≤ 2 * 2 ^ k) : growSteps kMax fuel c target ≤ 2 * k + 2 := by
  by_cases hc : 2 ≤ c
  · have := growSteps_le_log kMax fuel c target k hc ht (by
      calc target ≤ 2 * 2 ^ k := hk
        _ ≤ c * 2 ^ k := Nat.mul_le_mul_right _ hc)
    omega
  · -- c ∈ {0, 1}: 0 → 1 → 2
    cases fuel with
    | zero => simp [growSteps]
    | succ f =>
      simp only [growSteps]
      split
      · omega
      · rename_i h1
        have hck : c < kMax := by omega
        have hg1 := nextFull_gt kMax c hck
        by_cases hc1 : 2 ≤ nextFull kMax c
        · have := growSteps_le_log kMax f (nextFull kMax c) target k hc1 ht (by
            calc target ≤ 2 * 2 ^ k := hk
              _ ≤ nextFull kMax c * 2 ^ k := Nat.mul_le_mul_right _ hc1)
          omega
        · cases f with
          | zero => simp [growSteps]
          | succ g =>
            simp only [growSteps]
            split
            · omega
            · rename_i h2
              have hck2 : nextFull kMax c < kMax := by omega
              have hg2 := nextFull_gt kMax (nextFull kMax c) hck2
              have hc2 : 2 ≤ nextFull kMax (nextFull kMax c) := by omega
              have := growSteps_le_log kMax g (nextFull kMax (nextFull kMax c)) target k hc2 ht (by
                calc target ≤ 2 * 2 ^ k := hk
                  _ ≤ nextFull kMax (nextFull kMax c) * 2 ^ k := Nat.mul_le_mul_right _ hc2)
              omega

/-- allocator requests (allocate / reallocate) among a list of effects -/
def reallocCount (effs : List Eff) : Nat :=
  (effs.filter fun e => match e with | .alloc _ _ => true | .realloc _ _ _ _ _ => true | _ => false).length

theorem reallocCount_append (a b : List Eff) : reallocCount (a ++ b) = reallocCount a + reallocCount b := by
  simp [reallocCount, List.filter_append]

theorem reallocCount_growEffs (small : Bool) (t : VB) (sz cap r fresh : Nat) :
    reallocCount (growEffs small t sz cap r fresh) = 1 := by
  unfold growEffs reallocCount; cases small <;> simp

theorem growSteps_fuel_mono (kMax : Nat) : ∀ f c tg, growSteps kMax f c tg ≤ growSteps kMax (f + 1) c tg := by
  intro f
  induction f with
  | zero => intro c tg; simp [growSteps]
  | succ f ihf =>
    intro c tg
    have h1 : growSteps kMax (f + 1) c tg = if tg ≤ c then 0 else 1 + growSteps kMax f (nextFull kMax c) tg := rfl
    have h2 : growSteps kMax (f + 1 + 1) c tg = if tg ≤ c then 0 else 1 + growSteps kMax (f + 1) (nextFull kMax c) tg := rfl
    rw [h1, h2]
    split
    · exact Nat.le_refl _
    · have := ihf (nextFull kMax c) tg
      omega

theorem growSteps_reached (kMax f c tg : Nat) (h : tg ≤ c) : growSteps kMax f c tg = 0 := by
  cases f with
  | zero => rfl
  | succ m => simp only [growSteps]; rw [if_pos h]

theorem growSteps_succ (kMax f c tg : Nat) :
    growSteps kMax (f + 1) c tg = if tg ≤ c then 0 else 1 + growSteps kMax f (nextFull kMax c) tg := rfl

variable {ops : BaseOps} {N : Nat}

/-- appending `n` elements one by one: the number of allocator requests is bounded by the number of growth steps of
    the capacity sequence towards `size + n` -/
theorem pushes_reallocs (L : SmallLaws ops N) (hk : ops.kMax < 2 ^ 62) (n : Nat) :
    ∀ (t : VB) (fresh : Nat), SRep N ops.kMax t →
      ∀ t' effs, wRun ops N t fresh (List.replicate n WOp.push) = some (t', effs) →
        reallocCount effs ≤ growSteps ops.kMax n (ops.capacity t) (ops.size t + n) := by
  induction n with
  | zero =>
    intro t fresh _ t' effs hr
    simp only [List.replicate, wRun, Option.some.injEq, Prod.mk.injEq] at hr
    obtain ⟨_, rfl⟩ := hr
    simp [reallocCount, growSteps]
  | succ n ih =>
    intro t fresh h t' effs hr
    have hb := L.bounds t h
    simp only [List.replicate, wRun] at hr
    cases hs : wStep ops N t fresh WOp.push with
    | error e => simp only [hs] at hr; cases hr
    | ok p =>
      obtain ⟨t1, e1⟩ := p
      simp only [hs] at hr
      have post := wStep_ok L t h WOp.push trivial (by omega) fresh t1 e1 hs
      cases hr2 : wRun ops N t1 (fresh + 1) (List.replicate n WOp.push) with
      | none => simp only [hr2] at hr; cases hr
      | some q =>
        obtain ⟨t2, e2⟩ := q
        simp only [hr2, Option.some.injEq, Prod.mk.injEq] at hr
        obtain ⟨rfl, rfl⟩ := hr
        have ih' := ih t1 (fresh + 1) post.rep t2 e2 hr2
        rw [reallocCount_append]
        have hsz : ops.size t1 = ops.size t + 1 := post.size
        have etgt : ops.size t + 1 + n = ops.size t + (n + 1) := by omega
        rw [hsz, etgt] at ih'
        rw [growSteps_succ]
        -- did this push grow?
        simp only [wStep] at hs
        rcases wAdjust_cases L t h (ops.size t + 1) fresh (by omega) with ⟨_, he⟩ | ⟨hfit, he⟩ | ⟨hkk, hc, ta, ea, he, hra, hsa, hna, hsma, hcapa, hef⟩
        · rw [he] at hs; cases hs
        · -- no growth: capacity unchanged, no effect
          rw [he] at hs; simp only [Except.ok.injEq, Prod.mk.injEq] at hs
          obtain ⟨rfl, rfl⟩ := hs
          have hcap1 : ops.capacity (ops.incrSize t) = ops.capacity t := (L.incr t h (by omega)).2.2.1
          rw [hcap1] at ih'
          have e0 : reallocCount [] = 0 := rfl
          rw [e0]
          split
          · rename_i htc
            rw [growSteps_reached _ _ _ _ htc] at ih'
            omega
          · rename_i htc
            have hm : growSteps ops.kMax n (ops.capacity t) (ops.size t + (n + 1))
                ≤ 1 + growSteps ops.kMax n (nextFull ops.kMax (ops.capacity t)) (ops.size t + (n + 1)) := by
              cases n with
              | zero => simp [growSteps]
              | succ m =>
                rw [growSteps_succ, if_neg htc]
                have := growSteps_fuel_mono ops.kMax m (nextFull ops.kMax (ops.capacity t)) (ops.size t + (m + 1 + 1))
                omega
            omega
        · -- growth: exactly one allocator request, capacity becomes nextFull (size = capacity here)
          rw [he] at hs; simp only [Except.ok.injEq, Prod.mk.injEq] at hs
          obtain ⟨rfl, rfl⟩ := hs
          have hfull : ops.size t = ops.capacity t := by omega
          have hcap1 : ops.capacity (ops.incrSize ta) = nextFull ops.kMax (ops.capacity t) := by
            rw [(L.incr ta hra (by omega)).2.2.1, hcapa, ← hfull]; rfl
          rw [hcap1] at ih'
          rw [hef, reallocCount_growEffs, if_neg (by omega)]
          omega

end AmcVerif
