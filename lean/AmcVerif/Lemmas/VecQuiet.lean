import AmcVerif.Lemmas.VecRep
/-! Element-level code is *quiet*: whatever a slot-level primitive or helper of `Prim/Slot.lean` / `Prim/Helpers.lean` does, and
whatever its outcome (normal return, C++ exception, even a lifetime fault), it never touches the size/capacity/pointer words of
any container, never creates or frees a heap block, never changes the element count a block was allocated with, never takes a
fresh block identifier and never calls the allocator (`QRel`). Proved once per primitive, compositionally (`Quiet.bind`,
`Quiet.tryCatch`, …; tactic `quiet`), without any precondition: this is the partial-correctness half that the address-stability
theorems of `Lemmas/VecStable.lean` combine with the total-correctness operation theorems of `Lemmas/VecOps*.lean`. -/
namespace AmcVerif
variable {α β γ : Type}

/-- what element-level code never changes: the words of every container, the block counter, the element category, the allocator
    kind, the allocator-call counters, the set of existing heap blocks and the element count each was allocated with -/
structure QRel (m m' : Mem α) : Prop where
  ws : m'.ws = m.ws
  nid : m'.nextId = m.nextId
  cat : m'.cat = m.cat
  hr : m'.hasRealloc = m.hasRealloc
  al : m'.ev.al = m.ev.al
  de : m'.ev.de = m.ev.de
  re : m'.ev.re = m.ev.re
  blk : ∀ id, (m'.buf (.blk id)).isSome = (m.buf (.blk id)).isSome
  cnt : ∀ id, m'.cnt id = m.cnt id

theorem QRel.refl (m : Mem α) : QRel m m :=
  ⟨rfl, rfl, rfl, rfl, rfl, rfl, rfl, fun _ => rfl, fun _ => rfl⟩

theorem QRel.trans {m m1 m2 : Mem α} (h1 : QRel m m1) (h2 : QRel m1 m2) : QRel m m2 :=
  ⟨h2.ws.trans h1.ws, h2.nid.trans h1.nid, h2.cat.trans h1.cat, h2.hr.trans h1.hr, h2.al.trans h1.al, h2.de.trans h1.de,
   h2.re.trans h1.re, fun id => (h2.blk id).trans (h1.blk id), fun id => (h2.cnt id).trans (h1.cnt id)⟩

/-- `p` is element-level code: from every memory, every outcome of `p` satisfies `QRel` -/
structure Quiet (p : M α β) : Prop where
  run : ∀ m, QRel m (runM p m).2

theorem Quiet.post {p : M α β} (h : Quiet p) (m : Mem α) : Post p m (fun _ m' => QRel m m') := h.run m

theorem Quiet.pure (a : β) : Quiet (pure a : M α β) := ⟨fun m => QRel.refl m⟩
theorem Quiet.throw (e : Stop) : Quiet (throw e : M α β) := ⟨fun m => QRel.refl m⟩
theorem Quiet.fault (f : Fault) : Quiet (fault f : M α β) := ⟨fun m => QRel.refl m⟩
theorem Quiet.raise (e : Exc) : Quiet (raise e : M α β) := ⟨fun m => QRel.refl m⟩
theorem Quiet.get : Quiet (get : M α (Mem α)) := ⟨fun m => QRel.refl m⟩

theorem Quiet.bind {x : M α β} {f : β → M α γ} (hx : Quiet x) (hf : ∀ a, Quiet (f a)) : Quiet (x >>= f) := by
  constructor
  intro m
  have := hx.run m
  rw [runM_bind]
  cases h : runM x m with
  | mk r m1 =>
    rw [h] at this
    cases r with
    | ok a => exact this.trans ((hf a).run m1)
    | error e => exact this

theorem Quiet.tryCatch {x : M α β} {h : Stop → M α β} (hx : Quiet x) (hh : ∀ e, Quiet (h e)) : Quiet (tryCatch x h) := by
  constructor
  intro m
  have := hx.run m
  rw [runM_tryCatch]
  cases hr : runM x m with
  | mk r m1 =>
    rw [hr] at this
    cases r with
    | ok a => exact this
    | error e => exact this.trans ((hh e).run m1)

theorem Quiet.ite {c : Prop} [Decidable c] {t e : M α β} (ht : Quiet t) (he : Quiet e) : Quiet (if c then t else e) := by
  split
  · exact ht
  · exact he


syntax "quiet_leaf" : tactic
macro_rules | `(tactic| quiet_leaf) => `(tactic| first
  | exact Quiet.pure _ | exact Quiet.throw _ | exact Quiet.fault _ | exact Quiet.raise _ | exact Quiet.get)
macro "quiet" : tactic =>
  `(tactic| repeat' (first
      | (with_reducible quiet_leaf) | (with_reducible apply Quiet.bind) | (with_reducible apply Quiet.tryCatch)
      | (with_reducible apply Quiet.ite) | intro _ | split))

theorem Quiet.getBuf (r : Region) : Quiet (getBuf (α := α) r) := by
  unfold AmcVerif.getBuf; quiet

theorem setBuf_blk_isSome (m : Mem α) (r : Region) (b : List (Slot α)) (id : Nat) :
    ((m.setBuf r b).buf (.blk id)).isSome = (m.buf (.blk id)).isSome := by
  cases r with
  | inl c => rfl
  | tmp => rfl
  | blk id0 =>
    simp only [Mem.buf, Mem.setBuf, Option.isSome_map]
    induction m.blocks with
    | nil => rfl
    | cons x xs ih =>
      rw [List.map_cons, List.find?_cons, List.find?_cons]
      by_cases hx : (x.id == id0) = true
      · simp only [hx, ↓reduceIte]
        cases hx' : (x.id == id) with
        | true => rfl
        | false => exact ih
      · simp only [hx, Bool.false_eq_true, ↓reduceIte]
        cases hx' : (x.id == id) with
        | true => rfl
        | false => exact ih

theorem Quiet.putBuf (r : Region) (b : List (Slot α)) : Quiet (putBuf r b) := by
  constructor
  intro m
  rw [putBuf_run]
  exact ⟨by simp, by cases r <;> rfl, by simp, by cases r <;> rfl, by simp, by simp, by simp, setBuf_blk_isSome m r b, setBuf_cnt m r b⟩

macro_rules | `(tactic| quiet_leaf) => `(tactic| first | exact Quiet.getBuf _ | exact Quiet.putBuf _ _)

theorem Quiet.rd (a : Addr) : Quiet (rd (α := α) a) := by unfold AmcVerif.rd; quiet
theorem Quiet.wr (a : Addr) (s : Slot α) : Quiet (wr a s) := by unfold AmcVerif.wr; quiet
macro_rules | `(tactic| quiet_leaf) => `(tactic| first | exact Quiet.rd _ | exact Quiet.wr _ _)

theorem Quiet.isTC : Quiet (isTC (α := α)) := by unfold AmcVerif.isTC; quiet
theorem Quiet.isTR : Quiet (isTR (α := α)) := by unfold AmcVerif.isTR; quiet


theorem Quiet.tick (e : Exc) : Quiet (tick (α := α) e) := by
  constructor
  intro m
  match hf : m.fuel with
  | none => rw [tick_none m e (Or.inl hf)]; exact QRel.refl m
  | some 0 => rw [tick_none m e (Or.inr hf)]; exact QRel.refl m
  | some 1 => rw [tick_throw m e hf]; exact ⟨rfl, rfl, rfl, rfl, rfl, rfl, rfl, fun _ => rfl, fun _ => rfl⟩
  | some (k+2) => rw [tick_dec m e k hf]; exact ⟨rfl, rfl, rfl, rfl, rfl, rfl, rfl, fun _ => rfl, fun _ => rfl⟩

theorem Quiet.bumpEv (f : Ev → Ev) (hf : ∀ e, (f e).al = e.al ∧ (f e).de = e.de ∧ (f e).re = e.re) : Quiet (bumpEv (α := α) f) := by
  constructor
  intro m
  rw [bumpEv_run]
  exact ⟨rfl, rfl, rfl, rfl, (hf m.ev).1, (hf m.ev).2.1, (hf m.ev).2.2, fun _ => rfl, fun _ => rfl⟩

macro_rules | `(tactic| quiet_leaf) => `(tactic| first
  | exact Quiet.isTC | exact Quiet.isTR | exact Quiet.tick _ | exact Quiet.bumpEv _ (fun _ => ⟨rfl, rfl, rfl⟩))

theorem Quiet.readLive (a : Addr) : Quiet (readLive (α := α) a) := by unfold AmcVerif.readLive; quiet
theorem Quiet.requireRaw (a : Addr) : Quiet (requireRaw (α := α) a) := by unfold AmcVerif.requireRaw; quiet
theorem Quiet.requireAlive (a : Addr) (f : Fault) : Quiet (requireAlive (α := α) a f) := by unfold AmcVerif.requireAlive; quiet
theorem Quiet.movedFrom (v : α) : Quiet (movedFrom v) := by unfold AmcVerif.movedFrom; quiet
macro_rules | `(tactic| quiet_leaf) => `(tactic| first
  | exact Quiet.readLive _ | exact Quiet.requireRaw _ | exact Quiet.requireAlive _ _ | exact Quiet.movedFrom _)

theorem Quiet.constructCopy (a : Addr) (v : α) : Quiet (constructCopy a v) := by unfold AmcVerif.constructCopy; quiet
theorem Quiet.constructValue [Inhabited α] (a : Addr) : Quiet (constructValue (α := α) a) := by unfold AmcVerif.constructValue; quiet
theorem Quiet.constructMove (d s : Addr) : Quiet (constructMove (α := α) d s) := by unfold AmcVerif.constructMove; quiet
theorem Quiet.constructFromRvalue (d : Addr) (v : α) : Quiet (constructFromRvalue d v) := by unfold AmcVerif.constructFromRvalue; quiet
theorem Quiet.destroyAt (a : Addr) : Quiet (destroyAt (α := α) a) := by unfold AmcVerif.destroyAt; quiet
theorem Quiet.assignCopy (a : Addr) (v : α) : Quiet (assignCopy a v) := by unfold AmcVerif.assignCopy; quiet
theorem Quiet.assignMove (d s : Addr) : Quiet (assignMove (α := α) d s) := by unfold AmcVerif.assignMove; quiet
theorem Quiet.assignFromRvalue (d : Addr) (v : α) : Quiet (assignFromRvalue d v) := by unfold AmcVerif.assignFromRvalue; quiet
macro_rules | `(tactic| quiet_leaf) => `(tactic| first
  | exact Quiet.constructCopy _ _ | exact Quiet.constructValue _ | exact Quiet.constructMove _ _ | exact Quiet.constructFromRvalue _ _
  | exact Quiet.destroyAt _ | exact Quiet.assignCopy _ _ | exact Quiet.assignMove _ _ | exact Quiet.assignFromRvalue _ _)

theorem Quiet.readLiveN (n : Nat) : ∀ a : Addr, Quiet (readLiveN (α := α) a n) := by
  induction n with
  | zero => intro a; unfold AmcVerif.readLiveN; quiet
  | succ n ih => intro a; unfold AmcVerif.readLiveN; quiet; exact ih _
theorem Quiet.setRawN (n : Nat) : ∀ a : Addr, Quiet (setRawN (α := α) a n) := by
  induction n with
  | zero => intro a; unfold AmcVerif.setRawN; quiet
  | succ n ih => intro a; unfold AmcVerif.setRawN; quiet; exact ih _
theorem Quiet.writeLiveRaw (vs : List α) : ∀ a : Addr, Quiet (writeLiveRaw a vs) := by
  induction vs with
  | nil => intro a; unfold AmcVerif.writeLiveRaw; quiet
  | cons v vs ih => intro a; unfold AmcVerif.writeLiveRaw; quiet; exact ih _
theorem Quiet.destroyN (n : Nat) : ∀ a : Addr, Quiet (destroyN (α := α) a n) := by
  induction n with
  | zero => intro a; unfold AmcVerif.destroyN; quiet
  | succ n ih => intro a; unfold AmcVerif.destroyN; quiet; exact ih _
macro_rules | `(tactic| quiet_leaf) => `(tactic| first
  | exact Quiet.readLiveN _ _ | exact Quiet.setRawN _ _ | exact Quiet.writeLiveRaw _ _ | exact Quiet.destroyN _ _)

theorem Quiet.relocBitwise (s : Addr) (n : Nat) (d : Addr) : Quiet (relocBitwise (α := α) s n d) := by
  unfold AmcVerif.relocBitwise; quiet

theorem Quiet.uninitFillN_go (a : Addr) (v : α) (k : Nat) : ∀ (p : Addr) (done : Nat), Quiet (uninitFillN.go a v p k done) := by
  induction k with
  | zero => intro p d; unfold uninitFillN.go; quiet
  | succ k ih => intro p d; unfold uninitFillN.go; quiet; exact ih _ _
theorem Quiet.uninitCopyN_go (a : Addr) (vs : List α) : ∀ (p : Addr) (done : Nat), Quiet (uninitCopyN.go a p vs done) := by
  induction vs with
  | nil => intro p d; unfold uninitCopyN.go; quiet
  | cons v vs ih => intro p d; unfold uninitCopyN.go; quiet; exact ih _ _
theorem Quiet.uninitValueN_go [Inhabited α] (a : Addr) (k : Nat) : ∀ (p : Addr) (done : Nat), Quiet (uninitValueN.go (α := α) a p k done) := by
  induction k with
  | zero => intro p d; unfold uninitValueN.go; quiet
  | succ k ih => intro p d; unfold uninitValueN.go; quiet; exact ih _ _
theorem Quiet.uninitFillN (a : Addr) (n : Nat) (v : α) : Quiet (uninitFillN a n v) := Quiet.uninitFillN_go a v n a 0
theorem Quiet.uninitCopyN (a : Addr) (vs : List α) : Quiet (uninitCopyN a vs) := Quiet.uninitCopyN_go a vs a 0
theorem Quiet.uninitValueN [Inhabited α] (a : Addr) (n : Nat) : Quiet (uninitValueN (α := α) a n) := Quiet.uninitValueN_go a n a 0

theorem Quiet.fillN (n : Nat) (v : α) : ∀ a : Addr, Quiet (fillN a n v) := by
  induction n with
  | zero => intro a; unfold AmcVerif.fillN; quiet
  | succ n ih => intro a; unfold AmcVerif.fillN; quiet; exact ih _
theorem Quiet.copyN (vs : List α) : ∀ a : Addr, Quiet (copyN a vs) := by
  induction vs with
  | nil => intro a; unfold AmcVerif.copyN; quiet
  | cons v vs ih => intro a; unfold AmcVerif.copyN; quiet; exact ih _
theorem Quiet.uninitMoveN (n : Nat) : ∀ s d : Addr, Quiet (uninitMoveN (α := α) s n d) := by
  induction n with
  | zero => intro s d; unfold AmcVerif.uninitMoveN; quiet
  | succ n ih => intro s d; unfold AmcVerif.uninitMoveN; quiet; exact ih _ _
theorem Quiet.moveFwd (n : Nat) : ∀ s d : Addr, Quiet (moveFwd (α := α) s n d) := by
  induction n with
  | zero => intro s d; unfold AmcVerif.moveFwd; quiet
  | succ n ih => intro s d; unfold AmcVerif.moveFwd; quiet; exact ih _ _
theorem Quiet.moveBwd (n : Nat) : ∀ s d : Addr, Quiet (moveBwd (α := α) s n d) := by
  induction n with
  | zero => intro s d; unfold AmcVerif.moveBwd; quiet
  | succ n ih => intro s d; unfold AmcVerif.moveBwd; quiet; exact ih _ _
macro_rules | `(tactic| quiet_leaf) => `(tactic| first
  | exact Quiet.relocBitwise _ _ _ | exact Quiet.uninitFillN _ _ _ | exact Quiet.uninitCopyN _ _ | exact Quiet.uninitValueN _ _
  | exact Quiet.fillN _ _ _ | exact Quiet.copyN _ _ | exact Quiet.uninitMoveN _ _ _ | exact Quiet.moveFwd _ _ _ | exact Quiet.moveBwd _ _ _)

theorem Quiet.uninitRelocN (s : Addr) (n : Nat) (d : Addr) : Quiet (uninitRelocN (α := α) s n d) := by
  unfold AmcVerif.uninitRelocN; quiet
theorem Quiet.relocateAt (s d : Addr) : Quiet (relocateAt (α := α) s d) := Quiet.uninitRelocN s 1 d
macro_rules | `(tactic| quiet_leaf) => `(tactic| first | exact Quiet.uninitRelocN _ _ _ | exact Quiet.relocateAt _ _)

/- helpers of `Prim/Helpers.lean` -/
theorem Quiet.deref (r : Ref α) : Quiet (deref r) := by unfold AmcVerif.deref; quiet
macro_rules | `(tactic| quiet_leaf) => `(tactic| exact Quiet.deref _)
theorem Quiet.constructCopyRef (a : Addr) (r : Ref α) : Quiet (constructCopyRef a r) := by unfold AmcVerif.constructCopyRef; quiet
theorem Quiet.assignCopyRef (a : Addr) (r : Ref α) : Quiet (assignCopyRef a r) := by unfold AmcVerif.assignCopyRef; quiet
macro_rules | `(tactic| quiet_leaf) => `(tactic| first | exact Quiet.constructCopyRef _ _ | exact Quiet.assignCopyRef _ _)
theorem Quiet.uninitFillRef_go (a : Addr) (r : Ref α) (k : Nat) : ∀ (p : Addr) (done : Nat), Quiet (uninitFillRef.go a r p k done) := by
  induction k with
  | zero => intro p d; unfold uninitFillRef.go; quiet
  | succ k ih => intro p d; unfold uninitFillRef.go; quiet; exact ih _ _
theorem Quiet.uninitFillRef (a : Addr) (n : Nat) (r : Ref α) : Quiet (uninitFillRef a n r) := Quiet.uninitFillRef_go a r n a 0
theorem Quiet.fillRef (n : Nat) (r : Ref α) : ∀ a : Addr, Quiet (fillRef a n r) := by
  induction n with
  | zero => intro a; unfold AmcVerif.fillRef; quiet
  | succ n ih => intro a; unfold AmcVerif.fillRef; quiet; exact ih _
macro_rules | `(tactic| quiet_leaf) => `(tactic| first | exact Quiet.uninitFillRef _ _ _ | exact Quiet.fillRef _ _ _)
theorem Quiet.shiftRight1 (f : Addr) (n : Nat) : Quiet (shiftRight1 (α := α) f n) := by unfold AmcVerif.shiftRight1; quiet
theorem Quiet.shiftRightN (f : Addr) (n c : Nat) : Quiet (shiftRightN (α := α) f n c) := by unfold AmcVerif.shiftRightN; quiet
theorem Quiet.fillAfterShift (f : Addr) (n c : Nat) (v : Ref α) : Quiet (fillAfterShift f n c v) := by unfold AmcVerif.fillAfterShift; quiet
theorem Quiet.assignN (vals : List α) (d : Addr) (n : Nat) : Quiet (assignN vals d n) := by unfold AmcVerif.assignN; quiet
theorem Quiet.copyAfterShift (vals : List α) (n : Nat) (p : Addr) : Quiet (copyAfterShift vals n p) := by unfold AmcVerif.copyAfterShift; quiet
theorem Quiet.shiftLeft (f : Addr) (n : Nat) : Quiet (shiftLeft (α := α) f n) := by unfold AmcVerif.shiftLeft; quiet
theorem Quiet.eraseN (f : Addr) (n c : Nat) : Quiet (eraseN (α := α) f n c) := by unfold AmcVerif.eraseN; quiet
theorem Quiet.eraseAt (f : Addr) (c : Nat) : Quiet (eraseAt (α := α) f c) := by unfold AmcVerif.eraseAt; quiet
theorem Quiet.fillHelper (f : Addr) (n c : Nat) (v : Ref α) : Quiet (fillHelper f n c v) := by unfold AmcVerif.fillHelper; quiet
theorem Quiet.constructArg (a : Addr) (v : Arg α) : Quiet (constructArg a v) := by unfold AmcVerif.constructArg; quiet
macro_rules | `(tactic| quiet_leaf) => `(tactic| first
  | exact Quiet.shiftRight1 _ _ | exact Quiet.shiftRightN _ _ _ | exact Quiet.fillAfterShift _ _ _ _ | exact Quiet.assignN _ _ _
  | exact Quiet.copyAfterShift _ _ _ | exact Quiet.shiftLeft _ _ | exact Quiet.eraseN _ _ _ | exact Quiet.eraseAt _ _
  | exact Quiet.fillHelper _ _ _ _ | exact Quiet.constructArg _ _)
theorem Quiet.assignAfterShift (p : Addr) (v : Arg α) : Quiet (assignAfterShift p v) := by unfold AmcVerif.assignAfterShift; quiet
theorem Quiet.relocateAfterShift (e d : Addr) : Quiet (relocateAfterShift (α := α) e d) := by unfold AmcVerif.relocateAfterShift; quiet
macro_rules | `(tactic| quiet_leaf) => `(tactic| first | exact Quiet.assignAfterShift _ _ | exact Quiet.relocateAfterShift _ _)
theorem Quiet.insertN (p : Addr) (n : Nat) (v : Arg α) : Quiet (insertN p n v) := by unfold AmcVerif.insertN; quiet
theorem Quiet.emplaceN (p : Addr) (n : Nat) (v : Arg α) : Quiet (emplaceN p n v) := by unfold AmcVerif.emplaceN; quiet
macro_rules | `(tactic| quiet_leaf) => `(tactic| first | exact Quiet.insertN _ _ _ | exact Quiet.emplaceN _ _ _)

end AmcVerif
