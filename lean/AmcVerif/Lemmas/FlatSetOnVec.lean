import AmcVerif.Lemmas.VecOpSpecs
import AmcVerif.Bridge.FlatSetBridge
import AmcVerif.Lemmas.HintC
import AmcVerif.Lemmas.FlatSetInv
/-! `amc::FlatSet` on top of the slot-level vector model.

A FlatSet is a sorted vector `_sortedVector` plus decision logic.  `Gen/FlatSetGen.lean` (generated from `flatset.hpp`)
contains the decision logic with the vector members as list primitives (`_sortedVector.insert(it, v)` = `l.insertIdx it v`,
`_sortedVector.erase(it)` = `l.eraseIdx it`).  Here the two halves are composed: the FlatSet whose underlying vector is pool
container `c` of the slot model.  The *decision* is the generated function applied to the contents of the container; the
*mutation* is the slot-level vector operation (`insertOne`, `eraseOne`, `clear` of `Model/Vec.lean`) the list primitive stands
for.  The theorems: every FlatSet operation has the strong exception guarantee and never produces a lifetime fault, its
result is the list of the hand-written set model (`Sets.insertValC`, `Sets.insertHintC`, `Sets.eraseKey`) and — for a strict
weak order and sorted contents — the `std::set`-conforming list `FS.insertVal`; any history of FlatSet operations, continued
after every C++ exception, never faults, leaks no block and keeps the vector sorted and duplicate-free. -/
namespace AmcVerif
open AmcVerif.FS AmcVerif.Sets AmcVerif.Bridge.FlatSet
variable {α : Type}
set_option linter.unusedSimpArgs false

/-! ### Part 1a: glue between the list primitives of the generated code and the results of the vector theorems -/

/-- `_sortedVector.insert(begin() + i, v)` as a list primitive of the generated code is the list that `insertOne_post`
    states -/
theorem insertIdx_eq_take_drop (l : List α) (i : Nat) (v : α) (hi : i ≤ l.length) :
    l.insertIdx i v = l.take i ++ v :: l.drop i := by
  induction l generalizing i with
  | nil =>
    cases i with
    | zero => simp
    | succ j => simp at hi
  | cons a t ih =>
    cases i with
    | zero => simp
    | succ j => simp [List.insertIdx_succ_cons, ih j (by simpa using hi)]

theorem length_insertIdx_ne (l : List α) (i : Nat) (v : α) (hi : i ≤ l.length) : (l.insertIdx i v).length ≠ l.length := by
  rw [List.length_insertIdx]; simp [hi]

/-- the shape of the result of a (hinted or plain) insertion: content unchanged, or `v` inserted at the returned position,
    which is a valid position -/
def InsShape (l : List α) (v : α) (l' : List α) (i : Nat) : Prop := l' = l ∨ (l' = l.insertIdx i v ∧ i ≤ l.length)

/-- the two exits of `insert_val`: "not inserted" (the content is unchanged) or "inserted at `i`" (the content is
    `l.insertIdx i v` and `i` is a valid position) -/
theorem insertValC_shape (lt : α → α → Bool) (l : List α) (v : α) :
    ((insertValC lt l v).2.2.1 = false ∧ (insertValC lt l v).1 = l) ∨
    ((insertValC lt l v).2.2.1 = true ∧ (insertValC lt l v).1 = l.insertIdx (insertValC lt l v).2.1 v
      ∧ (insertValC lt l v).2.1 ≤ l.length) := by
  have hle := lowerBound_le lt l v 0 l.length
  unfold insertValC
  generalize lowerBound lt l v 0 l.length = p at hle
  obtain ⟨i, c⟩ := p
  simp only [Nat.zero_add] at hle ⊢
  cases hx : l[i]? with
  | none => exact Or.inr ⟨rfl, rfl, hle⟩
  | some x =>
    cases hvx : lt v x
    · exact Or.inl ⟨by simp [hvx], by simp [hvx]⟩
    · exact Or.inr ⟨by simp [hvx], by simp [hvx], by simpa [hvx] using hle⟩

/-- when the generated `insert(const T&)` reports "inserted at `i`", its content is `xs.insertIdx i v` with `i ≤ size()`;
    otherwise the content is unchanged; it never reaches undefined behaviour -/
theorem gen_insert_cases (lt : α → α → Bool) (l : List α) (v : α) :
    (∃ i n, Gen.FlatSet.insert lt l v = some (l.insertIdx i v, (i, true), n) ∧ i ≤ l.length
        ∧ (insertValC lt l v).1 = l.insertIdx i v) ∨
    (∃ i n, Gen.FlatSet.insert lt l v = some (l, (i, false), n) ∧ (insertValC lt l v).1 = l) := by
  rw [insert_eq]
  have hs := insertValC_shape lt l v
  unfold insertValR
  generalize insertValC lt l v = q at hs
  obtain ⟨q1, q2, q3, q4⟩ := q
  simp only at hs ⊢
  rcases hs with ⟨rfl, rfl⟩ | ⟨rfl, rfl, hi⟩
  · exact Or.inr ⟨q2, q4, rfl, rfl⟩
  · exact Or.inl ⟨q2, q4, rfl, hi, rfl⟩

theorem gen_insert_rv_cases (lt : α → α → Bool) (l : List α) (v : α) :
    (∃ i n, Gen.FlatSet.insert_rv lt l v = some (l.insertIdx i v, (i, true), n) ∧ i ≤ l.length
        ∧ (insertValC lt l v).1 = l.insertIdx i v) ∨
    (∃ i n, Gen.FlatSet.insert_rv lt l v = some (l, (i, false), n) ∧ (insertValC lt l v).1 = l) := by
  have h := gen_insert_cases lt l v
  rw [insert_eq] at h
  rw [insert_rv_eq]
  exact h

theorem gen_emplace_cases (lt : α → α → Bool) (l : List α) (v : α) :
    (∃ i n, Gen.FlatSet.emplace lt l v = some (l.insertIdx i v, (i, true), n) ∧ i ≤ l.length
        ∧ (insertValC lt l v).1 = l.insertIdx i v) ∨
    (∃ i n, Gen.FlatSet.emplace lt l v = some (l, (i, false), n) ∧ (insertValC lt l v).1 = l) := by
  have h := gen_insert_cases lt l v
  rw [insert_eq] at h
  rw [emplace_eq]
  exact h

/-- closes a leaf of the decision tree of `insert_hint` once the outcome of every comparison on the path is known -/
local macro "hintleaf" : tactic =>
  `(tactic| (
    try simp only [Bool.not_false, Bool.not_true, if_true, Bool.false_eq_true, if_false]
    first
    | exact Or.inl rfl
    | exact Or.inl trivial
    | exact Or.inr ⟨rfl, by omega⟩
    | exact Or.inr ⟨trivial, by omega⟩))

/-- the exits of `insert_hint`: the content is unchanged, or it is `l.insertIdx i v` where `i ≤ size()` is the returned
    position -/
theorem insertHintC_shape (lt : α → α → Bool) (l : List α) (h : Nat) (hh : h ≤ l.length) (v : α) :
    InsShape l v (insertHintC lt l h v).1 (insertHintC lt l h v).2.1 := by
  have hlo := lowerBound_le lt l v 0 (h - 1)
  have hval : InsShape l v (insertValC lt l v).1 (insertValC lt l v).2.1 := by
    rcases insertValC_shape lt l v with ⟨_, h1⟩ | ⟨_, h1, h2⟩
    · exact Or.inl h1
    · exact Or.inr ⟨h1, h2⟩
  unfold InsShape at *
  unfold insertHintC
  generalize lowerBound lt l v 0 (h - 1) = p at hlo
  obtain ⟨j, cj⟩ := p
  simp only [Nat.zero_add] at hlo
  generalize insertValC lt l v = q at hval
  obtain ⟨q1, q2, q3, q4⟩ := q
  simp only at hval
  by_cases he : h = l.length
  · -- hint == end()
    have hn : l[h]? = none := by simp [he]
    by_cases h0 : h = 0
    · subst h0
      simp only [hn, if_true]
      hintleaf
    · obtain ⟨p, hp⟩ := getElem?_of_lt l (h - 1) (by omega)
      simp only [hn, hp, h0, if_false, if_true]
      cases hvp : lt v p
      · cases hpv : lt p v
        · simp only [Bool.not_false, Bool.not_true, if_true, Bool.false_eq_true, if_false]
          hintleaf
        · simp only [Bool.not_false, Bool.not_true, if_true, Bool.false_eq_true, if_false]
          hintleaf
      · simp only [Bool.not_false, Bool.not_true, if_true, Bool.false_eq_true, if_false]
        by_cases hj : j = h - 1
        · simp only [hj, if_true]
          hintleaf
        · obtain ⟨y, hy⟩ := getElem?_of_lt l j (by omega)
          simp only [hj, hy, if_false]
          cases hvy : lt v y
          · simp only [Bool.false_eq_true, if_false]
            hintleaf
          · simp only [if_true]
            hintleaf
  · have hlt : h < l.length := by omega
    obtain ⟨x, hx⟩ := getElem?_of_lt l h hlt
    simp only [hx]
    cases hxv : lt x v
    · -- !comp(*hint, v)
      simp only [Bool.not_false, if_true]
      by_cases h0 : h = 0
      · subst h0
        simp only [if_true]
        cases hvx : lt v x
        · simp only [Bool.not_false, Bool.not_true, if_true, Bool.false_eq_true, if_false]
          hintleaf
        · simp only [Bool.not_false, Bool.not_true, if_true, Bool.false_eq_true, if_false]
          hintleaf
      · obtain ⟨p, hp⟩ := getElem?_of_lt l (h - 1) (by omega)
        simp only [h0, hp, if_false]
        cases hvp : lt v p
        · simp only [Bool.not_false, if_true]
          cases hvx : lt v x
          · simp only [Bool.not_false, Bool.not_true, if_true, Bool.false_eq_true, if_false]
            hintleaf
          · simp only [Bool.not_false, Bool.not_true, if_true, Bool.false_eq_true, if_false]
            cases hpv : lt p v
            · simp only [Bool.not_false, Bool.not_true, if_true, Bool.false_eq_true, if_false]
              hintleaf
            · simp only [Bool.not_false, Bool.not_true, if_true, Bool.false_eq_true, if_false]
              hintleaf
        · simp only [Bool.not_true, Bool.false_eq_true, if_false]
          by_cases hj : j = h - 1
          · simp only [hj, if_true]
            hintleaf
          · obtain ⟨y, hy⟩ := getElem?_of_lt l j (by omega)
            simp only [hj, hy, if_false]
            cases hvy : lt v y
            · simp only [Bool.false_eq_true, if_false]
              hintleaf
            · simp only [if_true]
              hintleaf
    · -- comp(*hint, v)
      simp only [Bool.not_true, Bool.false_eq_true, if_false]
      by_cases hn1 : h + 1 = l.length
      · have hnn : l[h + 1]? = none := by simp [hn1]
        simp only [hnn]
        hintleaf
      · obtain ⟨y, hy⟩ := getElem?_of_lt l (h + 1) (by omega)
        simp only [hy]
        cases hyv : lt y v
        · cases hvy : lt v y
          · simp only [Bool.not_false, Bool.not_true, if_true, Bool.false_eq_true, if_false]
            hintleaf
          · simp only [Bool.not_false, Bool.not_true, if_true, Bool.false_eq_true, if_false]
            hintleaf
        · simp only [Bool.not_false, Bool.not_true, if_true, Bool.false_eq_true, if_false]
          exact hval

/-- the generated `insert(hint, const T&)` under the precondition `begin() <= hint <= end()`: never undefined behaviour;
    either the content has grown (then it is `l.insertIdx i v` at the returned position `i ≤ size()`), or it is unchanged -/
theorem gen_insert_at_cases (lt : α → α → Bool) (l : List α) (h : Nat) (hh : h ≤ l.length) (v : α) :
    (∃ i n, Gen.FlatSet.insert_at lt l h v = some (l.insertIdx i v, i, n) ∧ i ≤ l.length
        ∧ (insertHintC lt l h v).1 = l.insertIdx i v) ∨
    (∃ i n, Gen.FlatSet.insert_at lt l h v = some (l, i, n) ∧ (insertHintC lt l h v).1 = l) := by
  rw [insert_at_eq lt l h hh v]
  have hs := insertHintC_shape lt l h hh v
  unfold InsShape at hs
  generalize insertHintC lt l h v = q at hs
  obtain ⟨q1, q2, q3⟩ := q
  simp only at hs ⊢
  rcases hs with rfl | ⟨rfl, hi⟩
  · exact Or.inr ⟨q2, q3, rfl, rfl⟩
  · exact Or.inl ⟨q2, q3, rfl, hi, rfl⟩

/-- the generated `erase(key)`: never undefined behaviour; it reports 0 and leaves the content, or reports 1 and the
    content is `l.eraseIdx i` where `i < size()` is the position returned by the generated `find` -/
theorem gen_erase_cases (lt : α → α → Bool) (l : List α) (k : α) :
    (∃ n, Gen.FlatSet.erase lt l k = some (l, 0, n) ∧ (eraseKey lt l k).1 = l) ∨
    (∃ i n n', Gen.FlatSet.erase lt l k = some (l.eraseIdx i, 1, n) ∧ Gen.FlatSet.find lt l k = some (i, n') ∧ i < l.length
        ∧ (eraseKey lt l k).1 = l.eraseIdx i) := by
  rw [erase_eq, find_eq]
  unfold eraseKey
  generalize hf : findC lt l k = p
  obtain ⟨r, n⟩ := p
  cases r with
  | none => exact Or.inl ⟨n, rfl, rfl⟩
  | some i =>
    have := findC_some_lt lt l k i (by rw [hf])
    exact Or.inr ⟨i, n, n, rfl, rfl, this, rfl⟩

/-! ### Part 1b: the composed operations

The FlatSet whose `_sortedVector` is pool container `c`.  Every operation first reads the visible elements (`elems`: this is
what the comparisons of the decision logic dereference — it faults on a dead or moved-from element), runs the *generated*
decision function on them and then performs the slot-level vector operation its list primitive stands for.  `none` from a
generated function means the C++ code dereferenced an iterator outside `[begin, end)`: a precondition fault. -/

/-- `FlatSet::insert(const T&)` (flatset.hpp:207) -/
def fsInsert (cfg : Cfg) (c : Nat) (lt : α → α → Bool) (v : α) : M α Unit := do
  let xs ← elems cfg c
  match Gen.FlatSet.insert lt xs v with
  | some (_, (i, true), _) => do let _ ← insertOne cfg c i (.copy (.lit v)); pure ()
  | some (_, (_, false), _) => pure ()
  | none => fault .precond

/-- `FlatSet::insert(T&&)` (flatset.hpp:209) -/
def fsInsertMove (cfg : Cfg) (c : Nat) (lt : α → α → Bool) (v : α) : M α Unit := do
  let xs ← elems cfg c
  match Gen.FlatSet.insert_rv lt xs v with
  | some (_, (i, true), _) => do let _ ← insertOne cfg c i (.move v); pure ()
  | some (_, (_, false), _) => pure ()
  | none => fault .precond

/-- `FlatSet::emplace(args...)` (flatset.hpp:252) = `insert(T(args...))`: the temporary is built first (an element
    construction outside the container: it may throw, before anything is touched), then moved in -/
def fsEmplace (cfg : Cfg) (c : Nat) (lt : α → α → Bool) (v : α) : M α Unit := do
  tick .elem
  let xs ← elems cfg c
  match Gen.FlatSet.emplace lt xs v with
  | some (_, (i, true), _) => do let _ ← insertOne cfg c i (.move v); pure ()
  | some (_, (_, false), _) => pure ()
  | none => fault .precond

/-- `FlatSet::insert(const_iterator hint, const T&)` (flatset.hpp:211).  The generated function returns the content and the
    position; an element was inserted iff the content has grown (`insert_hint` returns the iterator of `_sortedVector.insert`
    on exactly those paths) -/
def fsInsertHint (cfg : Cfg) (c : Nat) (lt : α → α → Bool) (hint : Nat) (v : α) : M α Unit := do
  let xs ← elems cfg c
  match Gen.FlatSet.insert_at lt xs hint v with
  | some (l', i, _) =>
    if l'.length = xs.length then pure () else do let _ ← insertOne cfg c i (.copy (.lit v)); pure ()
  | none => fault .precond

/-- `FlatSet::insert(const_iterator hint, T&&)` (flatset.hpp:213) -/
def fsInsertHintMove (cfg : Cfg) (c : Nat) (lt : α → α → Bool) (hint : Nat) (v : α) : M α Unit := do
  let xs ← elems cfg c
  match Gen.FlatSet.insert_at_rv lt xs hint v with
  | some (l', i, _) =>
    if l'.length = xs.length then pure () else do let _ ← insertOne cfg c i (.move v); pure ()
  | none => fault .precond

/-- `FlatSet::emplace_hint(hint, args...)` (flatset.hpp:257) = `insert(hint, T(args...))` -/
def fsEmplaceHint (cfg : Cfg) (c : Nat) (lt : α → α → Bool) (hint : Nat) (v : α) : M α Unit := do
  tick .elem
  let xs ← elems cfg c
  match Gen.FlatSet.emplace_hint lt xs hint v with
  | some (l', i, _) =>
    if l'.length = xs.length then pure () else do let _ ← insertOne cfg c i (.move v); pure ()
  | none => fault .precond

/-- `FlatSet::erase(const T&)` (flatset.hpp:291): the generated `erase` decides (0 or 1 element), the position is the one
    the generated `find` (which `erase` calls, L292) returns -/
def fsEraseKey (cfg : Cfg) (c : Nat) (lt : α → α → Bool) (k : α) : M α Unit := do
  let xs ← elems cfg c
  match Gen.FlatSet.erase lt xs k with
  | some (_, 0, _) => pure ()
  | some (_, _ + 1, _) =>
    match Gen.FlatSet.find lt xs k with
    | some (i, _) => do let _ ← eraseOne cfg c i; pure ()
    | none => fault .precond
  | none => fault .precond

/-- `FlatSet::clear()` (flatset.hpp:205) -/
def fsClear (cfg : Cfg) (c : Nat) : M α Unit := clear cfg c

/-- `FlatSet::find / contains / count(const T&)`: reads the elements, changes nothing -/
def fsFind (cfg : Cfg) (c : Nat) (lt : α → α → Bool) (k : α) : M α Unit := do
  let xs ← elems cfg c
  match Gen.FlatSet.find lt xs k with
  | some _ => pure ()
  | none => fault .precond

/-! ### Part 2: strong guarantee, no fault, result = the list of the set model -/

section posts
variable {cfg : Cfg} {Ok : VB → Prop}

/-- nothing done: the outcome of the "already present" exits -/
theorem StrongPost.noop {c : Nat} {m : Mem α} {w : VB} {xs : List α} (h : VRepW cfg Ok c m xs w) :
    StrongPost cfg Ok c m w xs xs () (.ok ()) m :=
  ⟨Or.inl ⟨rfl, w, h⟩, FrameL.refl _ _ _ _⟩

/-- an outcome after a prefix that changed neither the buffers nor the words (the construction of a temporary) -/
theorem StrongPost.afterSame {β : Type} {c : Nat} {m m1 : Mem α} {w : VB} {xs xs' : List α} {okv : β} (hs : Same m m1)
    {res : Except Stop β} {m' : Mem α} (h : StrongPost cfg Ok c m1 w xs xs' okv res m') :
    StrongPost cfg Ok c m w xs xs' okv res m' :=
  StrongPost.lift ((FrameL.refl cfg c _ m).same hs) (Or.inl rfl) h

/-- the mutation of every insertion path: `_sortedVector.insert(begin() + i, v)` with the list primitive's result -/
theorem fs_insertAt_post (L : VecLaws α cfg Ok) (m : Mem α) (c : Nat) (xs : List α) (w : VB)
    (h : VRepW cfg Ok c m xs w) (hf : Fresh m) (i : Nat) (hi : i ≤ xs.length) (arg : Arg α) (v : α)
    (hv : ArgOK cfg c m w xs arg v) :
    Post (do let _ ← insertOne cfg c i arg; pure ()) m (StrongPost cfg Ok c m w xs (xs.insertIdx i v) ()) := by
  rw [insertIdx_eq_take_drop xs i v hi]
  exact discard_strong (insertOne_post L m c xs w h hf i hi arg v hv)

/-- `insert(const T&)`: strong guarantee, never a fault; the result is the content computed by the set model -/
theorem fsInsert_postC (L : VecLaws α cfg Ok) (m : Mem α) (c : Nat) (xs : List α) (w : VB) (lt : α → α → Bool) (v : α)
    (h : VRepW cfg Ok c m xs w) (hf : Fresh m) :
    Post (fsInsert cfg c lt v) m (StrongPost cfg Ok c m w xs (insertValC lt xs v).1 ()) := by
  unfold fsInsert
  refine Post.bind (elems_post L m c xs w h hf) ?_ (by okerr)
  rintro ys m1 ⟨hys, rfl⟩; injection hys with hys; subst hys
  rcases gen_insert_cases lt ys v with ⟨i, n, hg, hi, hl⟩ | ⟨i, n, hg, hl⟩
  · rw [hg, hl]
    exact fs_insertAt_post L m1 c ys w h hf i hi _ v rfl
  · rw [hg, hl]
    exact StrongPost.noop h

/-- `insert(T&&)` -/
theorem fsInsertMove_postC (L : VecLaws α cfg Ok) (m : Mem α) (c : Nat) (xs : List α) (w : VB) (lt : α → α → Bool) (v : α)
    (h : VRepW cfg Ok c m xs w) (hf : Fresh m) :
    Post (fsInsertMove cfg c lt v) m (StrongPost cfg Ok c m w xs (insertValC lt xs v).1 ()) := by
  unfold fsInsertMove
  refine Post.bind (elems_post L m c xs w h hf) ?_ (by okerr)
  rintro ys m1 ⟨hys, rfl⟩; injection hys with hys; subst hys
  rcases gen_insert_rv_cases lt ys v with ⟨i, n, hg, hi, hl⟩ | ⟨i, n, hg, hl⟩
  · rw [hg, hl]
    exact fs_insertAt_post L m1 c ys w h hf i hi _ v rfl
  · rw [hg, hl]
    exact StrongPost.noop h

/-- `emplace(args...)`: the construction of the temporary may throw too — the set is untouched then -/
theorem fsEmplace_postC (L : VecLaws α cfg Ok) (m : Mem α) (c : Nat) (xs : List α) (w : VB) (lt : α → α → Bool) (v : α)
    (h : VRepW cfg Ok c m xs w) (hf : Fresh m) :
    Post (fsEmplace cfg c lt v) m (StrongPost cfg Ok c m w xs (insertValC lt xs v).1 ()) := by
  unfold fsEmplace
  refine Post.bind (tick_post m .elem) ?_ ?_
  · rintro _ m0 ⟨_, hs0⟩
    have h0 := h.ofSame hs0
    have hf0 := hf.ofSame hs0
    refine Post.mono ?_ (fun _ _ hq => StrongPost.afterSame hs0 hq)
    refine Post.bind (elems_post L m0 c xs w h0 hf0) ?_ (by okerr)
    rintro ys m1 ⟨hys, rfl⟩; injection hys with hys; subst hys
    rcases gen_emplace_cases lt ys v with ⟨i, n, hg, hi, hl⟩ | ⟨i, n, hg, hl⟩
    · rw [hg, hl]
      exact fs_insertAt_post L m1 c ys w h0 hf0 i hi _ v rfl
    · rw [hg, hl]
      exact StrongPost.noop h0
  · rintro e m0 ⟨he, hs0⟩
    rcases he with he | he
    · cases he
    · exact ⟨Or.inr ⟨_, he, w, h.ofSame hs0⟩, (FrameL.refl cfg c _ m).same hs0⟩

/-- the common tail of the three hinted insertions: `q` is the result of the generated function -/
theorem fs_hint_tail (L : VecLaws α cfg Ok) (m : Mem α) (c : Nat) (xs : List α) (w : VB) (v : α) (arg : Arg α)
    (hv : ArgOK cfg c m w xs arg v) (h : VRepW cfg Ok c m xs w) (hf : Fresh m) (q : List α × Nat × Nat)
    (hs : InsShape xs v q.1 q.2.1) :
    Post (match (some q : Option (List α × Nat × Nat)) with
      | some (l', i, _) =>
        if l'.length = xs.length then pure () else do let _ ← insertOne cfg c i arg; pure ()
      | none => fault .precond : M α Unit) m (StrongPost cfg Ok c m w xs q.1 ()) := by
  unfold InsShape at hs
  obtain ⟨q1, q2, q3⟩ := q
  simp only at hs ⊢
  rcases hs with rfl | ⟨rfl, hi⟩
  · rw [if_pos rfl]
    exact StrongPost.noop h
  · rw [if_neg (length_insertIdx_ne xs q2 v hi)]
    exact fs_insertAt_post L m c xs w h hf q2 hi arg v hv

/-- `insert(hint, const T&)` under its precondition `begin() <= hint <= end()` -/
theorem fsInsertHint_postC (L : VecLaws α cfg Ok) (m : Mem α) (c : Nat) (xs : List α) (w : VB) (lt : α → α → Bool) (hint : Nat)
    (v : α) (h : VRepW cfg Ok c m xs w) (hf : Fresh m) (hh : hint ≤ xs.length) :
    Post (fsInsertHint cfg c lt hint v) m (StrongPost cfg Ok c m w xs (insertHintC lt xs hint v).1 ()) := by
  unfold fsInsertHint
  refine Post.bind (elems_post L m c xs w h hf) ?_ (by okerr)
  rintro ys m1 ⟨hys, rfl⟩; injection hys with hys; subst hys
  rw [insert_at_eq lt ys hint hh v]
  exact fs_hint_tail L m1 c ys w v (.copy (.lit v)) rfl h hf _ (insertHintC_shape lt ys hint hh v)

/-- `insert(hint, T&&)` -/
theorem fsInsertHintMove_postC (L : VecLaws α cfg Ok) (m : Mem α) (c : Nat) (xs : List α) (w : VB) (lt : α → α → Bool) (hint : Nat)
    (v : α) (h : VRepW cfg Ok c m xs w) (hf : Fresh m) (hh : hint ≤ xs.length) :
    Post (fsInsertHintMove cfg c lt hint v) m (StrongPost cfg Ok c m w xs (insertHintC lt xs hint v).1 ()) := by
  unfold fsInsertHintMove
  refine Post.bind (elems_post L m c xs w h hf) ?_ (by okerr)
  rintro ys m1 ⟨hys, rfl⟩; injection hys with hys; subst hys
  rw [insert_at_rv_eq lt ys hint hh v]
  exact fs_hint_tail L m1 c ys w v (.move v) rfl h hf _ (insertHintC_shape lt ys hint hh v)

/-- `emplace_hint(hint, args...)` -/
theorem fsEmplaceHint_postC (L : VecLaws α cfg Ok) (m : Mem α) (c : Nat) (xs : List α) (w : VB) (lt : α → α → Bool) (hint : Nat)
    (v : α) (h : VRepW cfg Ok c m xs w) (hf : Fresh m) (hh : hint ≤ xs.length) :
    Post (fsEmplaceHint cfg c lt hint v) m (StrongPost cfg Ok c m w xs (insertHintC lt xs hint v).1 ()) := by
  unfold fsEmplaceHint
  refine Post.bind (tick_post m .elem) ?_ ?_
  · rintro _ m0 ⟨_, hs0⟩
    have h0 := h.ofSame hs0
    have hf0 := hf.ofSame hs0
    refine Post.mono ?_ (fun _ _ hq => StrongPost.afterSame hs0 hq)
    refine Post.bind (elems_post L m0 c xs w h0 hf0) ?_ (by okerr)
    rintro ys m1 ⟨hys, rfl⟩; injection hys with hys; subst hys
    rw [emplace_hint_eq lt ys hint hh v]
    exact fs_hint_tail L m1 c ys w v (.move v) rfl h0 hf0 _ (insertHintC_shape lt ys hint hh v)
  · rintro e m0 ⟨he, hs0⟩
    rcases he with he | he
    · cases he
    · exact ⟨Or.inr ⟨_, he, w, h.ofSame hs0⟩, (FrameL.refl cfg c _ m).same hs0⟩

/-- `erase(key)` -/
theorem fsEraseKey_post (L : VecLaws α cfg Ok) (m : Mem α) (c : Nat) (xs : List α) (w : VB) (lt : α → α → Bool) (k : α)
    (h : VRepW cfg Ok c m xs w) (hf : Fresh m) :
    Post (fsEraseKey cfg c lt k) m (StrongPost cfg Ok c m w xs (eraseKey lt xs k).1 ()) := by
  unfold fsEraseKey
  refine Post.bind (elems_post L m c xs w h hf) ?_ (by okerr)
  rintro ys m1 ⟨hys, rfl⟩; injection hys with hys; subst hys
  rcases gen_erase_cases lt ys k with ⟨n, hg, hl⟩ | ⟨i, n, n', hg, hfi, hi, hl⟩
  · rw [hg, hl]
    exact StrongPost.noop h
  · rw [hg, hl]
    simp only [hfi]
    exact discard_strong (eraseOne_post L m1 c ys w h hf i hi)

/-- `clear()` -/
theorem fsClear_post (L : VecLaws α cfg Ok) (m : Mem α) (c : Nat) (xs : List α) (w : VB)
    (h : VRepW cfg Ok c m xs w) (hf : Fresh m) :
    Post (fsClear cfg c) m (StrongPost cfg Ok c m w xs [] ()) :=
  clear_post L m c xs w h hf

/-- `find(key)` (and `contains`, `count`): no fault, nothing changes -/
theorem fsFind_post (L : VecLaws α cfg Ok) (m : Mem α) (c : Nat) (xs : List α) (w : VB) (lt : α → α → Bool) (k : α)
    (h : VRepW cfg Ok c m xs w) (hf : Fresh m) :
    Post (fsFind cfg c lt k) m (StrongPost cfg Ok c m w xs xs ()) := by
  unfold fsFind
  refine Post.bind (elems_post L m c xs w h hf) ?_ (by okerr)
  rintro ys m1 ⟨hys, rfl⟩; injection hys with hys; subst hys
  rw [find_eq]
  exact StrongPost.noop h

/-! #### the same with the `std::set`-conforming specification `FS.insertVal`, for a strict weak order and sorted contents -/

theorem insertValC_fst (hswo : SWO lt) (xs : List α) (hs : Sorted lt xs) (v : α) : (insertValC lt xs v).1 = (insertVal lt xs v).1 :=
  congrArg Prod.fst (insertValC_eq hswo xs hs v)

theorem insertHintC_fst {lt : α → α → Bool} (hswo : SWO lt) (xs : List α) (hs : Sorted lt xs) (hint : Nat) (hh : hint ≤ xs.length) (v : α) :
    (insertHintC lt xs hint v).1 = (insertVal lt xs v).1 :=
  (congrArg Prod.fst (insertHintC_proj hswo xs hs hint hh v)).trans
    (congrArg Prod.fst (insertHint_eq_insertVal hswo xs hs hint hh v))

theorem fsInsert_post (L : VecLaws α cfg Ok) (m : Mem α) (c : Nat) (xs : List α) (w : VB) {lt : α → α → Bool} (v : α)
    (h : VRepW cfg Ok c m xs w) (hf : Fresh m) (hswo : SWO lt) (hs : Sorted lt xs) :
    Post (fsInsert cfg c lt v) m (StrongPost cfg Ok c m w xs (insertVal lt xs v).1 ()) := by
  rw [← insertValC_fst hswo xs hs v]; exact fsInsert_postC L m c xs w lt v h hf

theorem fsInsertMove_post (L : VecLaws α cfg Ok) (m : Mem α) (c : Nat) (xs : List α) (w : VB) {lt : α → α → Bool} (v : α)
    (h : VRepW cfg Ok c m xs w) (hf : Fresh m) (hswo : SWO lt) (hs : Sorted lt xs) :
    Post (fsInsertMove cfg c lt v) m (StrongPost cfg Ok c m w xs (insertVal lt xs v).1 ()) := by
  rw [← insertValC_fst hswo xs hs v]; exact fsInsertMove_postC L m c xs w lt v h hf

theorem fsEmplace_post (L : VecLaws α cfg Ok) (m : Mem α) (c : Nat) (xs : List α) (w : VB) {lt : α → α → Bool} (v : α)
    (h : VRepW cfg Ok c m xs w) (hf : Fresh m) (hswo : SWO lt) (hs : Sorted lt xs) :
    Post (fsEmplace cfg c lt v) m (StrongPost cfg Ok c m w xs (insertVal lt xs v).1 ()) := by
  rw [← insertValC_fst hswo xs hs v]; exact fsEmplace_postC L m c xs w lt v h hf

/-- a hint is only a hint (C12) — also at the level of the slot model: whatever the hint, the set ends with the content of
    plain insertion, or throws and is unchanged -/
theorem fsInsertHint_post (L : VecLaws α cfg Ok) (m : Mem α) (c : Nat) (xs : List α) (w : VB) {lt : α → α → Bool} (hint : Nat)
    (v : α) (h : VRepW cfg Ok c m xs w) (hf : Fresh m) (hh : hint ≤ xs.length) (hswo : SWO lt) (hs : Sorted lt xs) :
    Post (fsInsertHint cfg c lt hint v) m (StrongPost cfg Ok c m w xs (insertVal lt xs v).1 ()) := by
  rw [← insertHintC_fst hswo xs hs hint hh v]; exact fsInsertHint_postC L m c xs w lt hint v h hf hh

theorem fsInsertHintMove_post (L : VecLaws α cfg Ok) (m : Mem α) (c : Nat) (xs : List α) (w : VB) {lt : α → α → Bool} (hint : Nat)
    (v : α) (h : VRepW cfg Ok c m xs w) (hf : Fresh m) (hh : hint ≤ xs.length) (hswo : SWO lt) (hs : Sorted lt xs) :
    Post (fsInsertHintMove cfg c lt hint v) m (StrongPost cfg Ok c m w xs (insertVal lt xs v).1 ()) := by
  rw [← insertHintC_fst hswo xs hs hint hh v]; exact fsInsertHintMove_postC L m c xs w lt hint v h hf hh

theorem fsEmplaceHint_post (L : VecLaws α cfg Ok) (m : Mem α) (c : Nat) (xs : List α) (w : VB) {lt : α → α → Bool} (hint : Nat)
    (v : α) (h : VRepW cfg Ok c m xs w) (hf : Fresh m) (hh : hint ≤ xs.length) (hswo : SWO lt) (hs : Sorted lt xs) :
    Post (fsEmplaceHint cfg c lt hint v) m (StrongPost cfg Ok c m w xs (insertVal lt xs v).1 ()) := by
  rw [← insertHintC_fst hswo xs hs hint hh v]; exact fsEmplaceHint_postC L m c xs w lt hint v h hf hh

end posts

/-! ### Part 3: the operations as `OpSpec`s and the history theorems -/

/-- `insert(const T&)` -/
def opFsInsert (lt : α → α → Bool) (v : α) : OpSpec α where
  run := fun cfg c => fsInsert cfg c lt v
  pre := fun _ _ => True
  spec := fun xs => (insertValC lt xs v).1
  strong := true

/-- `insert(T&&)` -/
def opFsInsertMove (lt : α → α → Bool) (v : α) : OpSpec α where
  run := fun cfg c => fsInsertMove cfg c lt v
  pre := fun _ _ => True
  spec := fun xs => (insertValC lt xs v).1
  strong := true

/-- `emplace(args...)` -/
def opFsEmplace (lt : α → α → Bool) (v : α) : OpSpec α where
  run := fun cfg c => fsEmplace cfg c lt v
  pre := fun _ _ => True
  spec := fun xs => (insertValC lt xs v).1
  strong := true

/-- `insert(hint, const T&)`; precondition `begin() <= hint <= end()` -/
def opFsInsertHint (lt : α → α → Bool) (hint : Nat) (v : α) : OpSpec α where
  run := fun cfg c => fsInsertHint cfg c lt hint v
  pre := fun _ xs => hint ≤ xs.length
  spec := fun xs => (insertHintC lt xs hint v).1
  strong := true

/-- `insert(hint, T&&)` -/
def opFsInsertHintMove (lt : α → α → Bool) (hint : Nat) (v : α) : OpSpec α where
  run := fun cfg c => fsInsertHintMove cfg c lt hint v
  pre := fun _ xs => hint ≤ xs.length
  spec := fun xs => (insertHintC lt xs hint v).1
  strong := true

/-- `emplace_hint(hint, args...)` -/
def opFsEmplaceHint (lt : α → α → Bool) (hint : Nat) (v : α) : OpSpec α where
  run := fun cfg c => fsEmplaceHint cfg c lt hint v
  pre := fun _ xs => hint ≤ xs.length
  spec := fun xs => (insertHintC lt xs hint v).1
  strong := true

/-- `erase(const T&)` -/
def opFsEraseKey (lt : α → α → Bool) (k : α) : OpSpec α where
  run := fun cfg c => fsEraseKey cfg c lt k
  pre := fun _ _ => True
  spec := fun xs => (eraseKey lt xs k).1
  strong := true

/-- `clear()` -/
def opFsClear : OpSpec α where
  run := fun cfg c => fsClear cfg c
  pre := fun _ _ => True
  spec := fun _ => []
  strong := true

/-- `find` / `contains` / `count` -/
def opFsFind (lt : α → α → Bool) (k : α) : OpSpec α where
  run := fun cfg c => fsFind cfg c lt k
  pre := fun _ _ => True
  spec := fun xs => xs
  strong := true

section ok
variable {cfg : Cfg} {Ok : VB → Prop}

theorem opFsInsert_ok (L : VecLaws α cfg Ok) (lt : α → α → Bool) (v : α) : OpOK cfg Ok (opFsInsert lt v) := by
  intro m c xs w hw hi _ _
  exact OpOK.stepStrong hi rfl (fsInsert_postC L m c xs w lt v hw hi.fresh)

theorem opFsInsertMove_ok (L : VecLaws α cfg Ok) (lt : α → α → Bool) (v : α) : OpOK cfg Ok (opFsInsertMove lt v) := by
  intro m c xs w hw hi _ _
  exact OpOK.stepStrong hi rfl (fsInsertMove_postC L m c xs w lt v hw hi.fresh)

theorem opFsEmplace_ok (L : VecLaws α cfg Ok) (lt : α → α → Bool) (v : α) : OpOK cfg Ok (opFsEmplace lt v) := by
  intro m c xs w hw hi _ _
  exact OpOK.stepStrong hi rfl (fsEmplace_postC L m c xs w lt v hw hi.fresh)

theorem opFsInsertHint_ok (L : VecLaws α cfg Ok) (lt : α → α → Bool) (hint : Nat) (v : α) :
    OpOK cfg Ok (opFsInsertHint lt hint v) := by
  intro m c xs w hw hi hpre _
  exact OpOK.stepStrong hi rfl (fsInsertHint_postC L m c xs w lt hint v hw hi.fresh hpre)

theorem opFsInsertHintMove_ok (L : VecLaws α cfg Ok) (lt : α → α → Bool) (hint : Nat) (v : α) :
    OpOK cfg Ok (opFsInsertHintMove lt hint v) := by
  intro m c xs w hw hi hpre _
  exact OpOK.stepStrong hi rfl (fsInsertHintMove_postC L m c xs w lt hint v hw hi.fresh hpre)

theorem opFsEmplaceHint_ok (L : VecLaws α cfg Ok) (lt : α → α → Bool) (hint : Nat) (v : α) :
    OpOK cfg Ok (opFsEmplaceHint lt hint v) := by
  intro m c xs w hw hi hpre _
  exact OpOK.stepStrong hi rfl (fsEmplaceHint_postC L m c xs w lt hint v hw hi.fresh hpre)

theorem opFsEraseKey_ok (L : VecLaws α cfg Ok) (lt : α → α → Bool) (k : α) : OpOK cfg Ok (opFsEraseKey lt k) := by
  intro m c xs w hw hi _ _
  exact OpOK.stepStrong hi rfl (fsEraseKey_post L m c xs w lt k hw hi.fresh)

theorem opFsClear_ok (L : VecLaws α cfg Ok) : OpOK cfg Ok (opFsClear (α := α)) := by
  intro m c xs w hw hi _ _
  exact OpOK.stepStrong hi rfl (fsClear_post L m c xs w hw hi.fresh)

theorem opFsFind_ok (L : VecLaws α cfg Ok) (lt : α → α → Bool) (k : α) : OpOK cfg Ok (opFsFind lt k) := by
  intro m c xs w hw hi _ _
  exact OpOK.stepStrong hi rfl (fsFind_post L m c xs w lt k hw hi.fresh)

end ok

/-- the operations of a FlatSet with comparator `lt`: the operations with decision logic above, and the members that
    delegate directly to `_sortedVector` (`erase(pos)`, `erase(first, last)`, `reserve(n)`: flatset.hpp:196, 299, 300) -/
inductive IsFlatSetOp (cfg : Cfg) (lt : α → α → Bool) : OpSpec α → Prop
  | insert (v : α) : IsFlatSetOp cfg lt (opFsInsert lt v)
  | insertMove (v : α) : IsFlatSetOp cfg lt (opFsInsertMove lt v)
  | emplace (v : α) : IsFlatSetOp cfg lt (opFsEmplace lt v)
  | insertHint (hint : Nat) (v : α) : IsFlatSetOp cfg lt (opFsInsertHint lt hint v)
  | insertHintMove (hint : Nat) (v : α) : IsFlatSetOp cfg lt (opFsInsertHintMove lt hint v)
  | emplaceHint (hint : Nat) (v : α) : IsFlatSetOp cfg lt (opFsEmplaceHint lt hint v)
  | eraseKey (k : α) : IsFlatSetOp cfg lt (opFsEraseKey lt k)
  | clear : IsFlatSetOp cfg lt opFsClear
  | find (k : α) : IsFlatSetOp cfg lt (opFsFind lt k)
  | erasePos (p : Nat) : IsFlatSetOp cfg lt (opErase p)
  | eraseRange (p q : Nat) : IsFlatSetOp cfg lt (opEraseRange p q)
  | reserve (n : Nat) : IsFlatSetOp cfg lt (opReserve n)

/-- every FlatSet operation satisfies the single-step contract, for every flavour of the underlying vector and every
    comparator (no hypothesis on the comparator or on the order of the elements is needed for this) -/
theorem IsFlatSetOp.ok {cfg : Cfg} {Ok : VB → Prop} {lt : α → α → Bool} (L : VecLaws α cfg Ok) {o : OpSpec α}
    (h : IsFlatSetOp cfg lt o) : OpOK cfg Ok o := by
  cases h with
  | insert v => exact opFsInsert_ok L lt v
  | insertMove v => exact opFsInsertMove_ok L lt v
  | emplace v => exact opFsEmplace_ok L lt v
  | insertHint hint v => exact opFsInsertHint_ok L lt hint v
  | insertHintMove hint v => exact opFsInsertHintMove_ok L lt hint v
  | emplaceHint hint v => exact opFsEmplaceHint_ok L lt hint v
  | eraseKey k => exact opFsEraseKey_ok L lt k
  | clear => exact opFsClear_ok L
  | find k => exact opFsFind_ok L lt k
  | erasePos p => exact opErase_ok L p
  | eraseRange p q => exact opEraseRange_ok L p q
  | reserve n => exact opReserve_ok L n

/-- every FlatSet operation has the strong guarantee … -/
theorem IsFlatSetOp.strong {cfg : Cfg} {lt : α → α → Bool} {o : OpSpec α} (h : IsFlatSetOp cfg lt o) : o.strong = true := by
  cases h <;> rfl

/-- … and its theorem holds for every element category -/
theorem IsFlatSetOp.nonTC {cfg : Cfg} {lt : α → α → Bool} {o : OpSpec α} (h : IsFlatSetOp cfg lt o) : o.nonTC = false := by
  cases h <;> rfl

theorem eraseKey_sorted {lt : α → α → Bool} (l : List α) (hs : Sorted lt l) (k : α) : Sorted lt (eraseKey lt l k).1 := by
  unfold eraseKey
  cases hf : findC lt l k with
  | mk o c => cases o <;> simp <;> first | exact hs | exact eraseIdx_sorted l hs _

theorem take_drop_sorted {lt : α → α → Bool} (l : List α) (hs : Sorted lt l) (p q : Nat) (hpq : p ≤ q) :
    Sorted lt (l.take p ++ l.drop q) := by
  have hsub : (l.take p ++ l.drop q).Sublist l := by
    have h1 : (l.take p ++ l.drop q).Sublist (l.take p ++ l.drop p) := by
      refine List.Sublist.append (List.Sublist.refl _) ?_
      have : l.drop q = (l.drop p).drop (q - p) := by rw [List.drop_drop]; congr 1; omega
      rw [this]; exact List.drop_sublist _ _
    rwa [List.take_append_drop] at h1
  exact List.Pairwise.sublist hsub hs

/-- every FlatSet operation maps a sorted (duplicate-free) list to a sorted list, under its precondition -/
theorem IsFlatSetOp.spec_sorted {cfg : Cfg} {lt : α → α → Bool} (hswo : SWO lt) {o : OpSpec α} (h : IsFlatSetOp cfg lt o)
    (xs : List α) (hs : Sorted lt xs) (hpre : o.pre cfg xs) : Sorted lt (o.spec xs) := by
  cases h with
  | insert v => show Sorted lt (insertValC lt xs v).1; rw [insertValC_fst hswo xs hs v]; exact insertVal_sorted hswo xs hs v
  | insertMove v => show Sorted lt (insertValC lt xs v).1; rw [insertValC_fst hswo xs hs v]; exact insertVal_sorted hswo xs hs v
  | emplace v => show Sorted lt (insertValC lt xs v).1; rw [insertValC_fst hswo xs hs v]; exact insertVal_sorted hswo xs hs v
  | insertHint hint v =>
    show Sorted lt (insertHintC lt xs hint v).1
    rw [insertHintC_fst hswo xs hs hint hpre v]; exact insertVal_sorted hswo xs hs v
  | insertHintMove hint v =>
    show Sorted lt (insertHintC lt xs hint v).1
    rw [insertHintC_fst hswo xs hs hint hpre v]; exact insertVal_sorted hswo xs hs v
  | emplaceHint hint v =>
    show Sorted lt (insertHintC lt xs hint v).1
    rw [insertHintC_fst hswo xs hs hint hpre v]; exact insertVal_sorted hswo xs hs v
  | eraseKey k => exact eraseKey_sorted xs hs k
  | clear => exact List.Pairwise.nil
  | find k => exact hs
  | erasePos p => exact eraseIdx_sorted xs hs p
  | eraseRange p q => exact take_drop_sorted xs hs p q hpre.1
  | reserve n => exact hs

/-- sortedness is an invariant of every abstract outcome of a history of FlatSet operations whose preconditions hold -/
theorem flatset_trace_sorted {cfg : Cfg} {lt : α → α → Bool} (hswo : SWO lt) :
    ∀ (ops : List (OpSpec α)) (xs ys : List α), (∀ o ∈ ops, IsFlatSetOp cfg lt o) → Safe cfg ops xs → Sorted lt xs →
      Trace cfg ops xs ys → Sorted lt ys := by
  intro ops xs ys hops hsafe hs ht
  induction ht with
  | nil xs => exact hs
  | ok o rest xs ys _ ih =>
    obtain ⟨hpre, hsok, _⟩ := hsafe
    exact ih (fun o' ho' => hops o' (by simp [ho'])) hsok ((hops o (by simp)).spec_sorted hswo xs hs hpre)
  | thrown o rest xs xs'' ys hst _ ih =>
    obtain ⟨_, _, hsexc⟩ := hsafe
    have hx : xs'' = xs := hst (hops o (by simp)).strong
    exact ih (fun o' ho' => hops o' (by simp [ho'])) (hsexc xs'' hst) (hx ▸ hs)

/-- the history theorem for the FlatSet operations, for every comparator: running any history of them on a valid container,
    continuing after every C++ exception, never produces a lifetime fault; the container ends holding a list allowed by the
    trace (every step is a strong-guarantee step: an operation that throws leaves the list), and no heap block is leaked -/
theorem flatset_history {cfg : Cfg} {Ok : VB → Prop} (L : VecLaws α cfg Ok) (c : Nat) (lt : α → α → Bool)
    (ops : List (OpSpec α)) (hops : ∀ o ∈ ops, IsFlatSetOp cfg lt o) (m : Mem α) (xs : List α)
    (hv : VRep cfg Ok c m xs) (hi : HInv m) (hs : Safe cfg ops xs) (n0 : Nat) (ho : Owned cfg c n0 m) :
    Post (runHist cfg c ops) m (fun res m' => res = .ok () ∧ ∃ ys, Trace cfg ops xs ys ∧ VRep cfg Ok c m' ys ∧ HInv m' ∧ m'.cat = m.cat
      ∧ Owned cfg c n0 m') :=
  hist_post cfg Ok c n0 ops m xs (fun o ho => (hops o ho).ok L) hv hi hs
    (fun o ho hn => by rw [(hops o ho).nonTC] at hn; cases hn) ho

/-- the history theorem of the FlatSet on the slot model: for a strict weak order, any history of FlatSet operations on a
    set whose vector holds a sorted list — whichever element copies or allocations throw along the way — never commits a
    lifetime fault, leaks no heap block, and ends with the vector holding a sorted, duplicate-free list: a valid FlatSet -/
theorem flatset_history_sorted {cfg : Cfg} {Ok : VB → Prop} (L : VecLaws α cfg Ok) (c : Nat) {lt : α → α → Bool} (hswo : SWO lt)
    (ops : List (OpSpec α)) (hops : ∀ o ∈ ops, IsFlatSetOp cfg lt o) (m : Mem α) (xs : List α)
    (hv : VRep cfg Ok c m xs) (hsorted : Sorted lt xs) (hi : HInv m) (hs : Safe cfg ops xs) (n0 : Nat) (ho : Owned cfg c n0 m) :
    Post (runHist cfg c ops) m (fun res m' => res = .ok () ∧ ∃ ys, Trace cfg ops xs ys ∧ Sorted lt ys ∧ VRep cfg Ok c m' ys ∧ HInv m'
      ∧ m'.cat = m.cat ∧ Owned cfg c n0 m') := by
  refine Post.mono (flatset_history L c lt ops hops m xs hv hi hs n0 ho) ?_
  rintro res m' ⟨hr, ys, ht, hv', hi', hc', ho'⟩
  exact ⟨hr, ys, ht, flatset_trace_sorted hswo ops xs ys hops hs hsorted ht, hv', hi', hc', ho'⟩

/-- `Sorted` is strict: no two elements of a sorted list are equivalent (the set is duplicate-free) -/
theorem sorted_no_equiv {lt : α → α → Bool} {l : List α} (hs : Sorted lt l) {i j : Nat} {x y : α} (hij : i < j)
    (hx : l[i]? = some x) (hy : l[j]? = some y) : ¬ Equiv lt x y := by
  intro he
  have := sorted_get hs hij hx hy
  rw [he.1] at this; cases this

end AmcVerif
