import AmcVerif.Model.WVec
/-! One-step and history lemmas about the word level (`wStep`), proved from the word laws only. -/
namespace AmcVerif
variable {ops : BaseOps} {N : Nat}

/-- what one successful word-level step guarantees -/
structure StepPost (ops : BaseOps) (N : Nat) (t : VB) (op : WOp) (t' : VB) (effs : List Eff) : Prop where
  rep : SRep N ops.kMax t'
  size : ops.size t' = op.specSize (ops.size t)
  /-- capacity never decreases, except through shrink_to_fit -/
  mono : op ≠ .shrinkToFit → ops.capacity t ≤ ops.capacity t'
  /-- room for what was asked -/
  room : op ≠ .shrinkToFit → op.needed (ops.size t) ≤ ops.capacity t'
  /-- an operation whose needs fit the current capacity does not reallocate: no effect, same buffer, same state -/
  stable : op ≠ .shrinkToFit → op.needed (ops.size t) ≤ ops.capacity t →
    effs = [] ∧ t'.dyn = t.dyn ∧ ops.capacity t' = ops.capacity t ∧ ops.isSmall t' = ops.isSmall t

theorem wStep_ok (L : SmallLaws ops N) (t : VB) (h : SRep N ops.kMax t) (op : WOp) (hv : op.Valid ops t)
    (h62 : ops.capacity t < 2 ^ 62) (fresh : Nat) (t' : VB) (effs : List Eff)
    (hs : wStep ops N t fresh op = .ok (t', effs)) : StepPost ops N t op t' effs := by
  have hb := L.bounds t h
  cases op with
  | growTo needed newSize =>
    simp only [WOp.Valid] at hv
    simp only [wStep] at hs
    rcases wAdjust_cases L t h needed fresh h62 with ⟨_, he⟩ | ⟨hfit, he⟩ | ⟨hk, hc, t1, e1, he, hr1, hs1, hn1, hsm1, hcap1, hef⟩
    · rw [he] at hs; cases hs
    · rw [he] at hs; simp only [Except.ok.injEq, Prod.mk.injEq] at hs
      obtain ⟨rfl, rfl⟩ := hs
      have hl := L.setSize t h newSize (by omega)
      exact ⟨hl.1, hl.2.1, fun _ => by rw [hl.2.2.1]; exact Nat.le_refl _, fun _ => by rw [hl.2.2.1]; exact hfit,
        fun _ _ => ⟨rfl, hl.2.2.2.2, hl.2.2.1, hl.2.2.2.1⟩⟩
    · rw [he] at hs; simp only [Except.ok.injEq, Prod.mk.injEq] at hs
      obtain ⟨rfl, rfl⟩ := hs
      have hl := L.setSize t1 hr1 newSize (by omega)
      refine ⟨hl.1, hl.2.1, fun _ => by rw [hl.2.2.1]; omega, fun _ => by rw [hl.2.2.1]; exact hn1, ?_⟩
      intro _ hfit; simp only [WOp.needed] at hfit; omega
  | push =>
    simp only [wStep] at hs
    rcases wAdjust_cases L t h (ops.size t + 1) fresh h62 with ⟨_, he⟩ | ⟨hfit, he⟩ | ⟨hk, hc, t1, e1, he, hr1, hs1, hn1, hsm1, hcap1, hef⟩
    · rw [he] at hs; cases hs
    · rw [he] at hs; simp only [Except.ok.injEq, Prod.mk.injEq] at hs
      obtain ⟨rfl, rfl⟩ := hs
      have hl := L.incr t h (by omega)
      exact ⟨hl.1, hl.2.1, fun _ => by rw [hl.2.2.1]; exact Nat.le_refl _, fun _ => by rw [hl.2.2.1]; exact hfit,
        fun _ _ => ⟨rfl, hl.2.2.2.2, hl.2.2.1, hl.2.2.2.1⟩⟩
    · rw [he] at hs; simp only [Except.ok.injEq, Prod.mk.injEq] at hs
      obtain ⟨rfl, rfl⟩ := hs
      have hl := L.incr t1 hr1 (by omega)
      refine ⟨hl.1, by rw [hl.2.1, hs1]; rfl, fun _ => by rw [hl.2.2.1]; omega, fun _ => by rw [hl.2.2.1]; exact hn1, ?_⟩
      intro _ hfit; simp only [WOp.needed] at hfit; omega
  | shrinkTo n =>
    simp only [WOp.Valid] at hv
    simp only [wStep, Except.ok.injEq, Prod.mk.injEq] at hs
    obtain ⟨rfl, rfl⟩ := hs
    have hl := L.setSize t h n (by omega)
    exact ⟨hl.1, hl.2.1, fun _ => by rw [hl.2.2.1]; exact Nat.le_refl _, fun _ => by simp [WOp.needed],
      fun _ _ => ⟨rfl, hl.2.2.2.2, hl.2.2.1, hl.2.2.2.1⟩⟩
  | pop =>
    simp only [WOp.Valid] at hv
    simp only [wStep, Except.ok.injEq, Prod.mk.injEq] at hs
    obtain ⟨rfl, rfl⟩ := hs
    have hl := L.decr t h hv
    exact ⟨hl.1, by simp only [WOp.specSize]; omega, fun _ => by rw [hl.2.2.1]; exact Nat.le_refl _,
      fun _ => by simp [WOp.needed], fun _ _ => ⟨rfl, hl.2.2.2.2, hl.2.2.1, hl.2.2.2.1⟩⟩
  | reserve n =>
    simp only [WOp.Valid] at hv
    simp only [wStep] at hs
    by_cases hfit : n ≤ ops.capacity t
    · rw [wReserve_fits t n fresh hfit] at hs
      simp only [Except.ok.injEq, Prod.mk.injEq] at hs
      obtain ⟨rfl, rfl⟩ := hs
      exact ⟨h, rfl, fun _ => Nat.le_refl _, fun _ => hfit, fun _ _ => ⟨rfl, rfl, rfl, rfl⟩⟩
    · unfold wReserve at hs; rw [if_pos (by omega)] at hs
      rw [L.growOk t h n true fresh n (L.safeExact _ _ hv)] at hs
      simp only [Except.ok.injEq, Prod.mk.injEq] at hs
      obtain ⟨rfl, rfl⟩ := hs
      have hg := L.grownRep (ops.size t) n (PtrV.blk (fresh + 0)) (by omega) hv
      refine ⟨hg.1, hg.2.1, fun _ => by rw [hg.2.2.1]; omega, fun _ => by rw [hg.2.2.1]; exact Nat.le_refl _, ?_⟩
      intro _ hf; simp only [WOp.needed] at hf; omega
  | shrinkToFit =>
    simp only [wStep, Except.ok.injEq] at hs
    have hl := L.shrinkImpl t h fresh
    rw [hs] at hl
    exact ⟨hl.1, hl.2.1, fun hne => absurd rfl hne, fun hne => absurd rfl hne, fun hne => absurd rfl hne⟩

/-- the only failure of a word-level step is `overflow_error`, exactly when more than the size_type maximum is needed -/
theorem wStep_error (L : SmallLaws ops N) (t : VB) (h : SRep N ops.kMax t) (op : WOp) (hv : op.Valid ops t)
    (h62 : ops.capacity t < 2 ^ 62) (fresh : Nat) :
    (∃ e, wStep ops N t fresh op = .error e) ↔ ops.kMax < op.needed (ops.size t) := by
  have hb := L.bounds t h
  cases op with
  | growTo needed newSize =>
    simp only [wStep, WOp.needed]
    rcases wAdjust_cases L t h needed fresh h62 with ⟨hk, he⟩ | ⟨hfit, he⟩ | ⟨hk, hc, t1, e1, he, _⟩
    · rw [he]; exact ⟨fun _ => hk, fun _ => ⟨_, rfl⟩⟩
    · rw [he]; exact ⟨fun ⟨_, h⟩ => (by cases h), fun hk => (by omega)⟩
    · rw [he]; exact ⟨fun ⟨_, h⟩ => (by cases h), fun hk' => (by omega)⟩
  | push =>
    simp only [wStep, WOp.needed]
    rcases wAdjust_cases L t h (ops.size t + 1) fresh h62 with ⟨hk, he⟩ | ⟨hfit, he⟩ | ⟨hk, hc, t1, e1, he, _⟩
    · rw [he]; exact ⟨fun _ => hk, fun _ => ⟨_, rfl⟩⟩
    · rw [he]; exact ⟨fun ⟨_, h⟩ => (by cases h), fun hk => (by omega)⟩
    · rw [he]; exact ⟨fun ⟨_, h⟩ => (by cases h), fun hk' => (by omega)⟩
  | shrinkTo n => simp only [wStep, WOp.needed]; exact ⟨fun ⟨_, h⟩ => (by cases h), fun hk => (by omega)⟩
  | pop => simp only [wStep, WOp.needed]; exact ⟨fun ⟨_, h⟩ => (by cases h), fun hk => (by omega)⟩
  | reserve n =>
    simp only [WOp.Valid] at hv
    simp only [wStep, WOp.needed]
    refine ⟨fun ⟨e, he⟩ => ?_, fun hk => by omega⟩
    exfalso
    by_cases hfit : n ≤ ops.capacity t
    · rw [wReserve_fits t n fresh hfit] at he; cases he
    · unfold wReserve at he; rw [if_pos (by omega)] at he
      rw [L.growOk t h n true fresh n (L.safeExact _ _ hv)] at he; cases he
  | shrinkToFit => simp only [wStep, WOp.needed]; exact ⟨fun ⟨_, h⟩ => (by cases h), fun hk => (by omega)⟩

/- ------------------------------------------------------------------------------------------------------------
   histories
   ------------------------------------------------------------------------------------------------------------ -/

/-- run a list of word-level operations; `none` when one of them throws (the state is then the one before it) -/
def wRun (ops : BaseOps) (N : Nat) : VB → Nat → List WOp → Option (VB × List Eff)
  | t, _, [] => some (t, [])
  | t, fresh, op :: rest =>
    match wStep ops N t fresh op with
    | .error _ => none
    | .ok (t', effs) =>
      match wRun ops N t' (fresh + 1) rest with
      | none => none
      | some (t'', effs') => some (t'', effs ++ effs')

/-- the sizes std::vector goes through -/
def specSizes (sz : Nat) : List WOp → Nat
  | [] => sz
  | op :: rest => specSizes (op.specSize sz) rest

/-- every operation of the history is valid in the (specification) state it is applied to -/
def ValidHist (ops : BaseOps) (sz : Nat) : List WOp → Prop
  | [] => True
  | op :: rest =>
    (match op with
      | .growTo needed newSize => newSize ≤ needed ∧ sz ≤ needed
      | .push => True
      | .shrinkTo n => n ≤ sz
      | .pop => 0 < sz
      | .reserve n => n ≤ ops.kMax
      | .shrinkToFit => True) ∧ ValidHist ops (op.specSize sz) rest

theorem valid_of_validHist (t : VB) (op : WOp) (rest : List WOp) (h : ValidHist ops (ops.size t) (op :: rest)) :
    op.Valid ops t := by
  cases op <;> simp_all [ValidHist, WOp.Valid]

/-- for every history: the representation invariant holds at the end and the decoded size is std::vector's -/
theorem wRun_spec (L : SmallLaws ops N) (hk : ops.kMax < 2 ^ 62) (hist : List WOp) :
    ∀ (t : VB) (fresh : Nat), SRep N ops.kMax t → ValidHist ops (ops.size t) hist →
      ∀ t' effs, wRun ops N t fresh hist = some (t', effs) →
        SRep N ops.kMax t' ∧ ops.size t' = specSizes (ops.size t) hist
          ∧ ops.size t' ≤ ops.capacity t' ∧ ops.capacity t' ≤ ops.kMax := by
  induction hist with
  | nil =>
    intro t fresh h _ t' effs hr
    simp only [wRun, Option.some.injEq, Prod.mk.injEq] at hr
    obtain ⟨rfl, rfl⟩ := hr
    have hb := L.bounds t h
    exact ⟨h, rfl, hb.1, hb.2.1⟩
  | cons op rest ih =>
    intro t fresh h hv t' effs hr
    have hb := L.bounds t h
    have hvo := valid_of_validHist t op rest hv
    simp only [wRun] at hr
    cases hs : wStep ops N t fresh op with
    | error e => simp only [hs] at hr; cases hr
    | ok p =>
      obtain ⟨t1, e1⟩ := p
      simp only [hs] at hr
      have post := wStep_ok L t h op hvo (by omega) fresh t1 e1 hs
      cases hr2 : wRun ops N t1 (fresh + 1) rest with
      | none => simp only [hr2] at hr; cases hr
      | some q =>
        obtain ⟨t2, e2⟩ := q
        simp only [hr2, Option.some.injEq, Prod.mk.injEq] at hr
        obtain ⟨rfl, rfl⟩ := hr
        have hv' : ValidHist ops (ops.size t1) rest := by
          rw [post.size]; exact hv.2
        have := ih t1 (fresh + 1) post.rep hv' t2 e2 hr2
        rw [post.size] at this
        exact this

end AmcVerif

namespace AmcVerif
variable {ops : BaseOps} {N : Nat}

/-- along a history without `shrink_to_fit` the capacity never decreases -/
theorem wRun_mono (L : SmallLaws ops N) (hk : ops.kMax < 2 ^ 62) (hist : List WOp) :
    ∀ (t : VB) (fresh : Nat), SRep N ops.kMax t → ValidHist ops (ops.size t) hist →
      (∀ op ∈ hist, op ≠ WOp.shrinkToFit) →
      ∀ t' effs, wRun ops N t fresh hist = some (t', effs) → ops.capacity t ≤ ops.capacity t' := by
  induction hist with
  | nil =>
    intro t fresh _ _ _ t' effs hr
    simp only [wRun, Option.some.injEq, Prod.mk.injEq] at hr
    obtain ⟨rfl, rfl⟩ := hr
    exact Nat.le_refl _
  | cons op rest ih =>
    intro t fresh h hv hne t' effs hr
    have hb := L.bounds t h
    have hvo := valid_of_validHist t op rest hv
    simp only [wRun] at hr
    cases hs : wStep ops N t fresh op with
    | error e => simp only [hs] at hr; cases hr
    | ok p =>
      obtain ⟨t1, e1⟩ := p
      simp only [hs] at hr
      have post := wStep_ok L t h op hvo (by omega) fresh t1 e1 hs
      cases hr2 : wRun ops N t1 (fresh + 1) rest with
      | none => simp only [hr2] at hr; cases hr
      | some q =>
        obtain ⟨t2, e2⟩ := q
        simp only [hr2, Option.some.injEq, Prod.mk.injEq] at hr
        obtain ⟨rfl, rfl⟩ := hr
        have hv' : ValidHist ops (ops.size t1) rest := by rw [post.size]; exact hv.2
        have h1 := post.mono (hne op (List.mem_cons_self))
        have h2 := ih t1 (fresh + 1) post.rep hv' (fun o ho => hne o (List.mem_cons_of_mem _ ho)) t2 e2 hr2
        omega

/-- every operation of the history needs no more than the inline capacity -/
def Confined (N : Nat) (sz : Nat) : List WOp → Prop
  | [] => True
  | op :: rest => op.needed sz ≤ N ∧ Confined N (op.specSize sz) rest

/-- C05 at word level: a history confined to the inline capacity, started inline, never throws, stays inline with
    capacity N, and emits no element or allocator effect at all -/
theorem wRun_inline (L : SmallLaws ops N) (hk : ops.kMax < 2 ^ 62) (hist : List WOp) :
    ∀ (t : VB) (fresh : Nat), SRep N ops.kMax t → ops.isSmall t = true → ValidHist ops (ops.size t) hist →
      Confined N (ops.size t) hist →
      ∃ t', wRun ops N t fresh hist = some (t', []) ∧ SRep N ops.kMax t' ∧ ops.isSmall t' = true
        ∧ ops.capacity t' = N := by
  induction hist with
  | nil =>
    intro t fresh h hs _ _
    exact ⟨t, rfl, h, hs, (L.bounds t h).2.2 hs⟩
  | cons op rest ih =>
    intro t fresh h hsm hv hc
    have hb := L.bounds t h
    have hcapN := hb.2.2 hsm
    have hvo := valid_of_validHist t op rest hv
    have hfit : op.needed (ops.size t) ≤ ops.capacity t := by rw [hcapN]; exact hc.1
    -- the step succeeds
    have hok : ∃ t1 e1, wStep ops N t fresh op = .ok (t1, e1) := by
      cases hs : wStep ops N t fresh op with
      | ok p => exact ⟨p.1, p.2, rfl⟩
      | error e =>
        have := (wStep_error L t h op hvo (by omega) fresh).mp ⟨e, hs⟩
        have hN := L.kmax
        omega
    obtain ⟨t1, e1, hs⟩ := hok
    have post := wStep_ok L t h op hvo (by omega) fresh t1 e1 hs
    by_cases hsh : op = WOp.shrinkToFit
    · subst hsh
      simp only [wStep, Except.ok.injEq] at hs
      have hl := (L.shrinkImpl t h fresh).2.2.1 hsm
      rw [hs] at hl
      have hsm1 : ops.isSmall t1 = true := by
        have e1' : t1 = t := by
          cases t1; cases t; simp_all
        rw [e1']; exact hsm
      have hv' : ValidHist ops (ops.size t1) rest := by rw [post.size]; exact hv.2
      have hc' : Confined N (ops.size t1) rest := by rw [post.size]; exact hc.2
      obtain ⟨t2, hr2, h2⟩ := ih t1 (fresh + 1) post.rep hsm1 hv' hc'
      refine ⟨t2, ?_, h2⟩
      have he1 : e1 = [] := hl.2.2.2
      subst he1
      simp only [wRun, wStep, hs, hr2, List.append_nil]
    · have st := post.stable hsh hfit
      have hsm1 : ops.isSmall t1 = true := by rw [st.2.2.2]; exact hsm
      have hv' : ValidHist ops (ops.size t1) rest := by rw [post.size]; exact hv.2
      have hc' : Confined N (ops.size t1) rest := by rw [post.size]; exact hc.2
      obtain ⟨t2, hr2, h2⟩ := ih t1 (fresh + 1) post.rep hsm1 hv' hc'
      refine ⟨t2, ?_, h2⟩
      simp only [wRun, hs, hr2, st.1, List.nil_append]

end AmcVerif
