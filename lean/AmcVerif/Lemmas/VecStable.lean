import AmcVerif.Lemmas.VecQuiet
import AmcVerif.Lemmas.VecOpSpecs
/-! "No reallocation while the result fits": address stability, capacity monotonicity and the inline-storage promise at
container level (serves C07 and C05; corollaries in `Props/C07b.lean`, `Props/C05b.lean`).

The operation theorems of `Lemmas/VecOpsA/B/C.lean` end in `StrongPost` / `BasicPost`, which hide the final words behind `VRep`
and therefore do not say that the buffer stayed where it was. Here every operation of the catalogue `IsVecOp` gets a second
theorem about the very same run (`Post` is about one deterministic run, so the two combine with `Post.both`): whatever the
outcome,

* `capacity()` has not decreased (`Evol.mono`), and
* if the flavour is static (`cfg.dynamic = false`) or the capacity the operation needs is available, NOTHING was reallocated
  (`Stable`): the final words have the same `begin()` and the same `capacity()`, the set of heap blocks and their allocation
  counts are unchanged, `nextId` is unchanged (no `grow` was even attempted) and no allocator call was counted.

Method: the capacity adjustment that starts an operation is the only part that can reallocate (`AdjOut`, from
`adjustCapacity(Ref)_post` / `…_room` of `Lemmas/VecRep.lean`, `growOrDestroy_post` for the `emplace` paths); everything after
it is element-level code, which is `Quiet` (`Lemmas/VecQuiet.lean`: unconditionally, for every outcome), followed by one size
update whose law (`SizeLaws.incr/decr/setSize`) keeps `begin()` and `capacity()`.

`VOp` is the catalogue of `IsVecOp` as data (so that the capacity an operation needs, `VOp.need`, is a function of the
operation), `VOp.step` the strengthened single-step contract, `hist_evol` / `hist_stable` / `hist_mono` the history theorems. -/
namespace AmcVerif
variable {α β γ δ : Type}

theorem Post.both {p : M α β} {m : Mem α} {Q1 Q2 : Except Stop β → Mem α → Prop} (h1 : Post p m Q1) (h2 : Post p m Q2) :
    Post p m (fun r m' => Q1 r m' ∧ Q2 r m') := ⟨h1, h2⟩

/-- nothing was reallocated between `m` and `m'` (container `c`): the block counter is unchanged (no `grow` was even attempted:
    `grow` takes a fresh identifier before anything else), the set of existing heap blocks and the element count each was
    allocated with are unchanged, no allocate / deallocate / reallocate call was counted, the words of the other containers are
    untouched, and the words of `c` still have the same `begin()` and the same `capacity()` -/
structure Stable (cfg : Cfg) (c : Nat) (m m' : Mem α) : Prop where
  nid : m'.nextId = m.nextId
  blk : ∀ id, (m'.buf (.blk id)).isSome = (m.buf (.blk id)).isSome
  cnt : ∀ id, m'.cnt id = m.cnt id
  al : m'.ev.al = m.ev.al
  de : m'.ev.de = m.ev.de
  re : m'.ev.re = m.ev.re
  wsLen : m'.ws.length = m.ws.length
  wsOther : ∀ c', c' ≠ c → m'.ws[c']? = m.ws[c']?
  words : ∀ w, m.ws[c]? = some w →
    ∃ w', m'.ws[c]? = some w' ∧ cfg.ops.begin w' = cfg.ops.begin w ∧ cfg.ops.capacity w' = cfg.ops.capacity w

theorem Stable.refl (cfg : Cfg) (c : Nat) (m : Mem α) : Stable cfg c m m :=
  ⟨rfl, fun _ => rfl, fun _ => rfl, rfl, rfl, rfl, rfl, fun _ _ => rfl, fun w h => ⟨w, h, rfl, rfl⟩⟩

theorem Stable.trans {cfg : Cfg} {c : Nat} {m m1 m2 : Mem α} (h1 : Stable cfg c m m1) (h2 : Stable cfg c m1 m2) :
    Stable cfg c m m2 :=
  ⟨h2.nid.trans h1.nid, fun id => (h2.blk id).trans (h1.blk id), fun id => (h2.cnt id).trans (h1.cnt id),
   h2.al.trans h1.al, h2.de.trans h1.de, h2.re.trans h1.re, h2.wsLen.trans h1.wsLen,
   fun c' hc => (h2.wsOther c' hc).trans (h1.wsOther c' hc),
   fun w hw => by
     obtain ⟨w1, hw1, hb1, hc1⟩ := h1.words w hw
     obtain ⟨w2, hw2, hb2, hc2⟩ := h2.words w1 hw1
     exact ⟨w2, hw2, hb2.trans hb1, hc2.trans hc1⟩⟩

theorem Stable.ofQuiet {cfg : Cfg} {c : Nat} {m m' : Mem α} (h : QRel m m') : Stable cfg c m m' :=
  ⟨h.nid, h.blk, h.cnt, h.al, h.de, h.re, by rw [h.ws], fun _ _ => by rw [h.ws], fun w hw => ⟨w, by rw [h.ws]; exact hw, rfl, rfl⟩⟩

theorem ws_lt_of_get {m : Mem α} {c : Nat} {w : VB} (h : m.ws[c]? = some w) : c < m.ws.length := by
  rcases Nat.lt_or_ge c m.ws.length with h1 | h1
  · exact h1
  · simp [List.getElem?_eq_none h1] at h

/-- element-level code followed by new words with the same buffer pointer and capacity -/
theorem Stable.setW {cfg : Cfg} {c : Nat} {m m2 : Mem α} {w w' : VB} (hq : QRel m m2) (hws : m.ws[c]? = some w)
    (hbeg : cfg.ops.begin w' = cfg.ops.begin w) (hcap : cfg.ops.capacity w' = cfg.ops.capacity w) :
    Stable cfg c m ({ m2 with ws := m2.ws.set c w' } : Mem α) := by
  have hc : c < m2.ws.length := by rw [hq.ws]; exact ws_lt_of_get hws
  refine ⟨hq.nid, fun id => by rw [withWs_buf]; exact hq.blk id, fun id => (withWs_cnt _ _ _).trans (hq.cnt id), hq.al, hq.de, hq.re,
    by simp [hq.ws], fun c' hc' => by simp [List.getElem?_set_ne (Ne.symm hc'), hq.ws], fun w0 hw0 => ?_⟩
  rw [hws] at hw0; injection hw0 with hw0; subst hw0
  exact ⟨w', by simp [hc], hbeg, hcap⟩

/-- the words of a valid container after a `Stable` step -/
theorem Stable.rep {cfg : Cfg} {Ok : VB → Prop} {c : Nat} {m m' : Mem α} {xs ys : List α} {w : VB} (h : Stable cfg c m m')
    (hw : VRepW cfg Ok c m xs w) (hv : VRep cfg Ok c m' ys) :
    ∃ w', VRepW cfg Ok c m' ys w' ∧ cfg.ops.begin w' = cfg.ops.begin w ∧ cfg.ops.capacity w' = cfg.ops.capacity w := by
  obtain ⟨w', hw'⟩ := hv
  obtain ⟨w'', hws, hb, hc⟩ := h.words w hw.ws
  rw [hw'.ws] at hws; injection hws with hws; subst hws
  exact ⟨w', hw', hb, hc⟩

/- ### word steps ------------------------------------------------------------------------------------------ -/

theorem tail_incr {cfg : Cfg} {Ok : VB → Prop} (L : SizeLaws cfg.ops Ok) {c : Nat} {m m2 : Mem α} {w : VB} (hq : QRel m m2)
    (hws : m.ws[c]? = some w) (hok : Ok w) (hlt : cfg.ops.size w < cfg.ops.capacity w) :
    Post (incrSize cfg c) m2 (fun _ m' => Stable cfg c m m') := by
  refine Post.mono (incrSize_post cfg m2 c w (by rw [hq.ws]; exact hws)) ?_
  rintro res m' ⟨_, rfl⟩
  have hl := L.incr w hok hlt
  exact Stable.setW hq hws hl.2.2.2 hl.2.2.1

theorem tail_decr {cfg : Cfg} {Ok : VB → Prop} (L : SizeLaws cfg.ops Ok) {c : Nat} {m m2 : Mem α} {w : VB} (hq : QRel m m2)
    (hws : m.ws[c]? = some w) (hok : Ok w) (hpos : 0 < cfg.ops.size w) :
    Post (decrSize cfg c) m2 (fun _ m' => Stable cfg c m m') := by
  refine Post.mono (decrSize_post cfg m2 c w (by rw [hq.ws]; exact hws)) ?_
  rintro res m' ⟨_, rfl⟩
  have hl := L.decr w hok hpos
  exact Stable.setW hq hws hl.2.2.2 hl.2.2.1

theorem tail_setSize {cfg : Cfg} {Ok : VB → Prop} (L : SizeLaws cfg.ops Ok) {c : Nat} {m m2 : Mem α} {w : VB} (s : Nat) (hq : QRel m m2)
    (hws : m.ws[c]? = some w) (hok : Ok w) (hs : s ≤ cfg.ops.capacity w) :
    Post (setSize cfg c s) m2 (fun _ m' => Stable cfg c m m') := by
  refine Post.mono (setSize_post cfg m2 c w s (by rw [hq.ws]; exact hws) (Nat.le_trans hs (L.bounds w hok).2)) ?_
  rintro res m' ⟨_, rfl⟩
  have hl := L.setSize w hok s hs
  exact Stable.setW hq hws hl.2.2.2 hl.2.2.1

/-- element-level code, then a continuation that is stable relative to the start -/
theorem elem_then {cfg : Cfg} {c : Nat} {m m1 : Mem α} {p : M α β} {q : β → M α γ} (hp : Quiet p)
    (hq : ∀ a m2, QRel m m2 → Post (q a) m2 (fun _ m' => Stable cfg c m m')) (h1 : QRel m m1) :
    Post (p >>= q) m1 (fun _ m' => Stable cfg c m m') := by
  refine Post.bind (hp.post m1) ?_ ?_
  · intro a m2 h2; exact hq a m2 (h1.trans h2)
  · intro e m2 h2; exact Stable.ofQuiet (h1.trans h2)

theorem elem_last {cfg : Cfg} {c : Nat} {m m1 : Mem α} {p : M α β} (hp : Quiet p) (h1 : QRel m m1) :
    Post p m1 (fun _ m' => Stable cfg c m m') :=
  Post.mono (hp.post m1) (fun _ _ h2 => Stable.ofQuiet (h1.trans h2))

/- ### capacity evolution of one operation ----------------------------------------------------------------- -/

/-- outcome of an operation on container `c` with words `w`, whatever the outcome: the capacity has not decreased, and under
    the condition `room` nothing was reallocated -/
structure Evol (cfg : Cfg) (c : Nat) (m : Mem α) (w : VB) (room : Prop) (m' : Mem α) : Prop where
  mono : ∃ w', m'.ws[c]? = some w' ∧ cfg.ops.capacity w ≤ cfg.ops.capacity w'
  stable : room → Stable cfg c m m'

theorem Evol.ofStable {cfg : Cfg} {c : Nat} {m m' : Mem α} {w : VB} {room : Prop} (hws : m.ws[c]? = some w)
    (h : Stable cfg c m m') : Evol cfg c m w room m' := by
  obtain ⟨w', hw', _, hc⟩ := h.words w hws
  exact ⟨⟨w', hw', by omega⟩, fun _ => h⟩

theorem Evol.refl {cfg : Cfg} {c : Nat} {m : Mem α} {w : VB} {room : Prop} (hws : m.ws[c]? = some w) : Evol cfg c m w room m :=
  Evol.ofStable hws (Stable.refl cfg c m)

/-- outcome of the capacity adjustment that starts an operation -/
def AdjOut (cfg : Cfg) (Ok : VB → Prop) (c : Nat) (m : Mem α) (xs : List α) (w : VB) (needed : Nat) :
    Except Stop β → Mem α → Prop :=
  fun res m1 => ((cfg.dynamic = false ∨ needed ≤ cfg.ops.capacity w) → m1 = m) ∧
    match res with
    | .ok _ => ∃ w1, VRepW cfg Ok c m1 xs w1 ∧ needed ≤ cfg.ops.capacity w1 ∧ cfg.ops.capacity w ≤ cfg.ops.capacity w1
    | .error _ => m1.ws[c]? = some w

theorem adjust_same {cfg : Cfg} {Ok : VB → Prop} (L : VecLaws α cfg Ok) (m : Mem α) (c : Nat) (w : VB) (needed : Nat)
    (hws : m.ws[c]? = some w) (hroom : cfg.dynamic = false ∨ needed ≤ cfg.ops.capacity w) :
    Post (adjustCapacity cfg c needed) m (fun _ m' => m' = m) := by
  by_cases hr : needed ≤ cfg.ops.capacity w
  · exact Post.mono (adjustCapacity_room cfg Ok L.size m c w needed hws hr) (fun _ _ h => h.2)
  · have hd : cfg.dynamic = false := by
      rcases hroom with h | h
      · exact h
      · exact absurd h hr
    exact Post.mono (OpsB.adjustCapacity_static L m c w needed hws hd) (fun _ _ h => h.1)

theorem adjust_adj {cfg : Cfg} {Ok : VB → Prop} (L : VecLaws α cfg Ok) (m : Mem α) (c : Nat) (xs : List α) (w : VB) (needed : Nat)
    (h : VRepW cfg Ok c m xs w) (hf : Fresh m) :
    Post (adjustCapacity cfg c needed) m (AdjOut cfg Ok c m xs w needed) := by
  by_cases hroom : cfg.dynamic = false ∨ needed ≤ cfg.ops.capacity w
  · refine Post.mono (Post.both (adjust_same L m c w needed h.ws hroom) (adjustCapacity_post L m c xs w needed h hf)) ?_
    rintro res m' ⟨rfl, hq, _⟩
    refine ⟨fun _ => rfl, ?_⟩
    rcases hq with ⟨hr, w', hg⟩ | ⟨e, he, _⟩
    · subst hr
      have : w' = w := by
        have := hg.rep.ws; rw [h.ws] at this; injection this with this; exact this.symm
      subst this
      exact ⟨w', h, hg.cap, Nat.le_refl _⟩
    · subst he; exact h.ws
  · refine Post.mono (adjustCapacity_post L m c xs w needed h hf) ?_
    rintro res m' ⟨hq, _⟩
    refine ⟨fun hr => absurd hr hroom, ?_⟩
    have hlt : cfg.ops.capacity w < needed := by
      rcases Nat.lt_or_ge (cfg.ops.capacity w) needed with h1 | h1
      · exact h1
      · exact absurd (Or.inr h1) hroom
    rcases hq with ⟨hr, w', hg⟩ | ⟨e, he, hw', _⟩
    · subst hr; exact ⟨w', hg.rep, hg.cap, by have := hg.cap; omega⟩
    · subst he; exact hw'.ws


theorem adjustRef_same {cfg : Cfg} {Ok : VB → Prop} (L : VecLaws α cfg Ok) (m : Mem α) (c : Nat) (w : VB) (needed : Nat) (ref : Ref α)
    (hws : m.ws[c]? = some w) (hroom : cfg.dynamic = false ∨ needed ≤ cfg.ops.capacity w) :
    Post (adjustCapacityRef cfg c needed ref) m (fun _ m' => m' = m) := by
  by_cases hr : needed ≤ cfg.ops.capacity w
  · exact Post.mono (adjustCapacityRef_room cfg Ok L.size m c w needed ref hws hr) (fun _ _ h => h.2)
  · have hd : cfg.dynamic = false := by
      rcases hroom with h | h
      · exact h
      · exact absurd h hr
    unfold adjustCapacityRef
    rw [if_neg (by simp [hd])]
    refine Post.bind (adjust_same L m c w needed hws (Or.inl hd)) ?_ ?_
    · rintro _ m1 rfl; exact rfl
    · rintro e m1 rfl; exact rfl

theorem adjustRef_adj {cfg : Cfg} {Ok : VB → Prop} (L : VecLaws α cfg Ok) (m : Mem α) (c : Nat) (xs : List α) (w : VB) (needed : Nat)
    (ref : Ref α) (v : α) (h : VRepW cfg Ok c m xs w) (hf : Fresh m) (hv : RefOK cfg c m w xs ref v) :
    Post (adjustCapacityRef cfg c needed ref) m (AdjOut cfg Ok c m xs w needed) := by
  by_cases hroom : cfg.dynamic = false ∨ needed ≤ cfg.ops.capacity w
  · refine Post.mono (Post.both (adjustRef_same L m c w needed ref h.ws hroom) (adjustCapacityRef_post L m c xs w needed ref v h hf hv)) ?_
    rintro res m' ⟨rfl, hq, _⟩
    refine ⟨fun _ => rfl, ?_⟩
    rcases hq with ⟨ref', hr, w', hg, _⟩ | ⟨e, he, _⟩
    · subst hr
      have : w' = w := by
        have := hg.rep.ws; rw [h.ws] at this; injection this with this; exact this.symm
      subst this
      exact ⟨w', h, hg.cap, Nat.le_refl _⟩
    · subst he; exact h.ws
  · refine Post.mono (adjustCapacityRef_post L m c xs w needed ref v h hf hv) ?_
    rintro res m' ⟨hq, _⟩
    refine ⟨fun hr => absurd hr hroom, ?_⟩
    have hlt : cfg.ops.capacity w < needed := by
      rcases Nat.lt_or_ge (cfg.ops.capacity w) needed with h1 | h1
      · exact h1
      · exact absurd (Or.inr h1) hroom
    rcases hq with ⟨ref', hr, w', hg, _⟩ | ⟨e, he, hw', _⟩
    · subst hr; exact ⟨w', hg.rep, hg.cap, by have := hg.cap; omega⟩
    · subst he; exact hw'.ws

/-- the value returned by the adjustment does not matter -/
theorem AdjOut.map {cfg : Cfg} {Ok : VB → Prop} {c : Nat} {m : Mem α} {xs : List α} {w : VB} {needed : Nat} {p : M α β} (g : β → γ)
    (h : Post p m (AdjOut cfg Ok c m xs w needed)) : Post (do let a ← p; pure (g a)) m (AdjOut cfg Ok c m xs w needed) := by
  refine Post.bind h ?_ ?_
  · intro a m1 h1; exact h1
  · intro e m1 h1; exact h1

/-- an operation = capacity adjustment, then a part that does not reallocate -/
theorem Evol.after {cfg : Cfg} {Ok : VB → Prop} {c : Nat} {m : Mem α} {xs : List α} {w : VB} {needed : Nat} {room : Prop}
    (hroom : room → cfg.dynamic = false ∨ needed ≤ cfg.ops.capacity w) (hws : m.ws[c]? = some w) {p : M α β} {f : β → M α γ}
    (hp : Post p m (AdjOut cfg Ok c m xs w needed))
    (hf : ∀ a m1 w1, VRepW cfg Ok c m1 xs w1 → needed ≤ cfg.ops.capacity w1 → Post (f a) m1 (fun _ m' => Stable cfg c m1 m')) :
    Post (p >>= f) m (fun _ m' => Evol cfg c m w room m') := by
  refine Post.bind hp ?_ ?_
  · rintro a m1 ⟨hsame, w1, hw1, hn1, hc1⟩
    refine Post.mono (hf a m1 w1 hw1 hn1) ?_
    intro res m' hst
    obtain ⟨w', hw', _, hc'⟩ := hst.words w1 hw1.ws
    refine ⟨⟨w', hw', by omega⟩, fun hr => ?_⟩
    have := hsame (hroom hr); subst this
    exact hst
  · rintro e m1 ⟨hsame, hw1⟩
    refine ⟨⟨w, hw1, Nat.le_refl _⟩, fun hr => ?_⟩
    have := hsame (hroom hr); subst this
    exact Stable.refl cfg c _

/- ### the operations ---------------------------------------------------------------------------------------- -/
section ops
variable {cfg : Cfg} {Ok : VB → Prop}

/-- `push_back(const T&)` -/
theorem pushBackCopy_evol (L : VecLaws α cfg Ok) (m : Mem α) (c : Nat) (xs : List α) (w : VB)
    (ref : Ref α) (v : α) (h : VRepW cfg Ok c m xs w) (hf : Fresh m) (hv : RefOK cfg c m w xs ref v) :
    Post (pushBackCopy cfg c ref) m (fun _ m' => Evol cfg c m w (cfg.dynamic = false ∨ xs.length + 1 ≤ cfg.ops.capacity w) m') := by
  unfold pushBackCopy
  refine Post.bind (vsize_post cfg m c w h.ws) ?_ (by okerr)
  rintro sz m0 ⟨hsz, rfl⟩; injection hsz with hsz; subst hsz
  rw [h.size]
  refine Evol.after id h.ws (adjustRef_adj L m0 c xs w _ ref v h hf hv) ?_
  intro ref' m1 w1 hw1 hcap
  refine Post.bind (vend_post cfg m1 c w1 hw1.ws) ?_ (by okerr)
  rintro a m2 ⟨_, rfl⟩
  exact elem_then (Quiet.constructCopyRef _ _)
    (fun _ m3 hq => tail_incr L.size hq hw1.ws hw1.ok (by rw [hw1.size]; omega)) (QRel.refl _)

/-- `push_back(T&&)` -/
theorem pushBackMove_evol (L : VecLaws α cfg Ok) (m : Mem α) (c : Nat) (xs : List α) (w : VB)
    (v : α) (h : VRepW cfg Ok c m xs w) (hf : Fresh m) :
    Post (pushBackMove cfg c v) m (fun _ m' => Evol cfg c m w (cfg.dynamic = false ∨ xs.length + 1 ≤ cfg.ops.capacity w) m') := by
  unfold pushBackMove
  refine Post.bind (vsize_post cfg m c w h.ws) ?_ (by okerr)
  rintro sz m0 ⟨hsz, rfl⟩; injection hsz with hsz; subst hsz
  rw [h.size]
  refine Evol.after id h.ws (adjust_adj L m0 c xs w _ h hf) ?_
  intro _ m1 w1 hw1 hcap
  refine Post.bind (vend_post cfg m1 c w1 hw1.ws) ?_ (by okerr)
  rintro a m2 ⟨_, rfl⟩
  exact elem_then (Quiet.constructFromRvalue _ _)
    (fun _ m3 hq => tail_incr L.size hq hw1.ws hw1.ok (by rw [hw1.size]; omega)) (QRel.refl _)


theorem Post.bindInv {m : Mem α} {p : M α β} {f : β → M α γ} {S : Mem α → Prop} (hp : Post p m (fun _ m' => S m'))
    (hf : ∀ a m1, S m1 → Post (f a) m1 (fun _ m' => S m')) : Post (p >>= f) m (fun _ m' => S m') :=
  Post.bind hp hf (fun _ _ h => h)

/-- `pop_back()` (after element-level code) -/
theorem popBack_tail (L : VecLaws α cfg Ok) (m m1 : Mem α) (c : Nat) (xs : List α) (w : VB)
    (h : VRepW cfg Ok c m xs w) (hne : xs ≠ []) (hq1 : QRel m m1) :
    Post (popBack cfg c) m1 (fun _ m' => Stable cfg c m m') := by
  unfold popBack
  refine Post.bind (vend_post cfg m1 c w (by rw [hq1.ws]; exact h.ws)) ?_ ?_
  · rintro a m2 ⟨_, rfl⟩
    have hpos : 0 < xs.length := List.length_pos_iff.mpr hne
    exact elem_then (Quiet.destroyAt _)
      (fun _ m3 hq => tail_decr L.size hq h.ws h.ok (by rw [h.size]; exact hpos)) hq1
  · rintro e m2 ⟨he, _⟩; cases he

theorem popBack_stable (L : VecLaws α cfg Ok) (m : Mem α) (c : Nat) (xs : List α) (w : VB)
    (h : VRepW cfg Ok c m xs w) (hne : xs ≠ []) : Post (popBack cfg c) m (fun _ m' => Stable cfg c m m') :=
  popBack_tail L m m c xs w h hne (QRel.refl m)

/-- `pop_back_val()` -/
theorem popBackVal_stable (L : VecLaws α cfg Ok) (m : Mem α) (c : Nat) (xs : List α) (w : VB)
    (h : VRepW cfg Ok c m xs w) (hne : xs ≠ []) : Post (popBackVal cfg c) m (fun _ m' => Stable cfg c m m') := by
  unfold popBackVal
  refine Post.bind (vend_post cfg m c w h.ws) ?_ (by okerr)
  rintro a m2 ⟨_, rfl⟩
  refine elem_then (Quiet.readLive _) (fun v m3 hq3 => ?_) (QRel.refl _)
  refine elem_then (Quiet.movedFrom _) (fun s m4 hq4 => ?_) hq3
  refine elem_then (Quiet.wr _ _) (fun _ m5 hq5 => ?_) hq4
  refine elem_then (Quiet.bumpEv _ (fun _ => ⟨rfl, rfl, rfl⟩)) (fun _ m6 hq6 => ?_) hq5
  exact Post.bindInv (popBack_tail L m2 m6 c xs w h hne hq6) (fun _ m7 h7 => h7)

/-- the tail of the shrinking operations: destroy a suffix, commit the size -/
theorem truncate_tail (L : VecLaws α cfg Ok) (m : Mem α) (c : Nat) (xs : List α) (w : VB) (h : VRepW cfg Ok c m xs w)
    (a : Addr) (k s : Nat) (hs : s ≤ cfg.ops.capacity w) :
    Post (do destroyN (α := α) a k; setSize cfg c s) m (fun _ m' => Stable cfg c m m') :=
  elem_then (Quiet.destroyN _ _) (fun _ _ hq => tail_setSize L.size s hq h.ws h.ok hs) (QRel.refl _)

/-- `clear()` -/
theorem clear_stable (L : VecLaws α cfg Ok) (m : Mem α) (c : Nat) (xs : List α) (w : VB) (h : VRepW cfg Ok c m xs w) :
    Post (clear cfg c) m (fun _ m' => Stable cfg c m m') := by
  unfold clear
  refine Post.bind (vbegin_post cfg m c w h.ws) ?_ (by okerr)
  rintro a m1 ⟨_, rfl⟩
  refine Post.bind (vsize_post cfg m1 c w h.ws) ?_ (by okerr)
  rintro sz m2 ⟨_, rfl⟩
  exact truncate_tail L m2 c xs w h _ _ 0 (Nat.zero_le _)

/-- the tail of the `append` family: construct at `end()`, commit the size -/
theorem append_tail_stable (L : VecLaws α cfg Ok) (m1 : Mem α) (c : Nat) (xs : List α) (w1 : VB) (hw1 : VRepW cfg Ok c m1 xs w1)
    (act : Addr → M α Unit) (hact : ∀ a, Quiet (act a)) (s : Nat) (hs : s ≤ cfg.ops.capacity w1) :
    Post (do act (← vend cfg c); setSize cfg c s) m1 (fun _ m' => Stable cfg c m1 m') := by
  refine Post.bind (vend_post cfg m1 c w1 hw1.ws) ?_ (by okerr)
  rintro a m2 ⟨_, rfl⟩
  exact elem_then (hact _) (fun _ m3 hq => tail_setSize L.size s hq hw1.ws hw1.ok hs) (QRel.refl _)

theorem grow_append_evol (L : VecLaws α cfg Ok) (m : Mem α) (c : Nat) (xs : List α) (w : VB)
    (act : Addr → M α Unit) (hact : ∀ a, Quiet (act a)) (needed s : Nat) (h : VRepW cfg Ok c m xs w) (hf : Fresh m) (hs : s ≤ needed) :
    Post (do adjustCapacity cfg c needed; act (← vend cfg c); setSize cfg c s) m
      (fun _ m' => Evol cfg c m w (cfg.dynamic = false ∨ needed ≤ cfg.ops.capacity w) m') :=
  Evol.after id h.ws (adjust_adj L m c xs w needed h hf)
    (fun _ m1 w1 hw1 hcap => append_tail_stable L m1 c xs w1 hw1 act hact s (by omega))

theorem grow_append_ref_evol (L : VecLaws α cfg Ok) (m : Mem α) (c : Nat) (xs : List α) (w : VB) (ref : Ref α) (v : α)
    (act : Ref α → Addr → M α Unit) (hact : ∀ r a, Quiet (act r a)) (needed s : Nat) (h : VRepW cfg Ok c m xs w) (hf : Fresh m)
    (hv : RefOK cfg c m w xs ref v) (hs : s ≤ needed) :
    Post (do let newV ← adjustCapacityRef cfg c needed ref; act newV (← vend cfg c); setSize cfg c s) m
      (fun _ m' => Evol cfg c m w (cfg.dynamic = false ∨ needed ≤ cfg.ops.capacity w) m') :=
  Evol.after id h.ws (adjustRef_adj L m c xs w needed ref v h hf hv)
    (fun r m1 w1 hw1 hcap => append_tail_stable L m1 c xs w1 hw1 (act r) (hact r) s (by omega))

/-- `append(first, last)` -/
theorem appendRange_evol (L : VecLaws α cfg Ok) (m : Mem α) (c : Nat) (xs : List α) (w : VB)
    (vals : List α) (h : VRepW cfg Ok c m xs w) (hf : Fresh m) :
    Post (appendRange cfg c vals) m
      (fun _ m' => Evol cfg c m w (cfg.dynamic = false ∨ xs.length + vals.length ≤ cfg.ops.capacity w) m') := by
  unfold appendRange
  refine Post.bind (vsize_post cfg m c w h.ws) ?_ (by okerr)
  rintro sz m0 ⟨hsz, rfl⟩; injection hsz with hsz; subst hsz
  rw [h.size]
  exact grow_append_evol L m0 c xs w (fun a => uninitCopyN a vals) (fun a => Quiet.uninitCopyN a vals) _ _ h hf (Nat.le_refl _)

/-- `append(count)` -/
theorem appendN_evol [Inhabited α] (L : VecLaws α cfg Ok) (m : Mem α) (c : Nat) (xs : List α) (w : VB)
    (count : Nat) (h : VRepW cfg Ok c m xs w) (hf : Fresh m) :
    Post (appendN cfg c count) m
      (fun _ m' => Evol cfg c m w (cfg.dynamic = false ∨ xs.length + count ≤ cfg.ops.capacity w) m') := by
  unfold appendN
  refine Post.bind (vsize_post cfg m c w h.ws) ?_ (by okerr)
  rintro sz m0 ⟨hsz, rfl⟩; injection hsz with hsz; subst hsz
  rw [h.size]
  exact grow_append_evol L m0 c xs w (fun a => uninitValueN a count) (fun a => Quiet.uninitValueN a count) _ _ h hf (Nat.le_refl _)

/-- `append(count, v)` -/
theorem appendFill_evol (L : VecLaws α cfg Ok) (m : Mem α) (c : Nat) (xs : List α) (w : VB)
    (count : Nat) (ref : Ref α) (v : α) (h : VRepW cfg Ok c m xs w) (hf : Fresh m) (hv : RefOK cfg c m w xs ref v) :
    Post (appendFill cfg c count ref) m
      (fun _ m' => Evol cfg c m w (cfg.dynamic = false ∨ xs.length + count ≤ cfg.ops.capacity w) m') := by
  unfold appendFill
  refine Post.bind (vsize_post cfg m c w h.ws) ?_ (by okerr)
  rintro sz m0 ⟨hsz, rfl⟩; injection hsz with hsz; subst hsz
  rw [h.size]
  exact grow_append_ref_evol L m0 c xs w ref v (fun r a => uninitFillRef a count r) (fun r a => Quiet.uninitFillRef a count r)
    _ _ h hf hv (Nat.le_refl _)

/-- `resize(count)` -/
theorem resize_evol [Inhabited α] (L : VecLaws α cfg Ok) (m : Mem α) (c : Nat) (xs : List α) (w : VB)
    (count : Nat) (h : VRepW cfg Ok c m xs w) (hf : Fresh m) :
    Post (resize cfg c count) m (fun _ m' => Evol cfg c m w (cfg.dynamic = false ∨ count ≤ cfg.ops.capacity w) m') := by
  have hle := h.le
  unfold resize
  refine Post.bind (vsize_post cfg m c w h.ws) ?_ (by okerr)
  rintro sz m0 ⟨hsz, rfl⟩; injection hsz with hsz; subst hsz
  rw [h.size]
  by_cases hlt : xs.length < count
  · simp only [hlt, ↓reduceIte]
    exact grow_append_evol L m0 c xs w (fun a => uninitValueN a (count - xs.length)) (fun a => Quiet.uninitValueN a _) _ _ h hf
      (Nat.le_refl _)
  · simp only [hlt, ↓reduceIte]
    refine Post.bind (vbegin_post cfg m0 c w h.ws) ?_ (by okerr)
    rintro a m1 ⟨_, rfl⟩
    exact Post.mono (truncate_tail L m1 c xs w h _ _ count (by omega)) (fun _ _ hst => Evol.ofStable h.ws hst)

/-- `resize(count, v)` -/
theorem resizeFill_evol (L : VecLaws α cfg Ok) (m : Mem α) (c : Nat) (xs : List α) (w : VB)
    (count : Nat) (ref : Ref α) (v : α) (h : VRepW cfg Ok c m xs w) (hf : Fresh m) (hv : RefOK cfg c m w xs ref v) :
    Post (resizeFill cfg c count ref) m (fun _ m' => Evol cfg c m w (cfg.dynamic = false ∨ count ≤ cfg.ops.capacity w) m') := by
  have hle := h.le
  unfold resizeFill
  refine Post.bind (vsize_post cfg m c w h.ws) ?_ (by okerr)
  rintro sz m0 ⟨hsz, rfl⟩; injection hsz with hsz; subst hsz
  rw [h.size]
  by_cases hlt : xs.length < count
  · simp only [hlt, ↓reduceIte]
    exact grow_append_ref_evol L m0 c xs w ref v (fun r a => uninitFillRef a (count - xs.length) r)
      (fun r a => Quiet.uninitFillRef a _ r) _ _ h hf hv (Nat.le_refl _)
  · simp only [hlt, ↓reduceIte]
    refine Post.bind (vbegin_post cfg m0 c w h.ws) ?_ (by okerr)
    rintro a m1 ⟨_, rfl⟩
    exact Post.mono (truncate_tail L m1 c xs w h _ _ count (by omega)) (fun _ _ hst => Evol.ofStable h.ws hst)

/-- `reserve(n)`: the capacity afterwards is at least `n` whenever it returns normally -/
theorem reserve_evol (L : VecLaws α cfg Ok) (m : Mem α) (c : Nat) (xs : List α) (w : VB)
    (n : Nat) (h : VRepW cfg Ok c m xs w) (hf : Fresh m) (hn : n ≤ cfg.ops.kMax) :
    Post (reserve cfg c n) m (fun res m' => Evol cfg c m w (cfg.dynamic = false ∨ n ≤ cfg.ops.capacity w) m' ∧
      (res = .ok () → ∃ w', m'.ws[c]? = some w' ∧ n ≤ cfg.ops.capacity w')) := by
  unfold reserve
  by_cases hd : cfg.dynamic = true
  · rw [if_pos hd]
    refine Post.bind (vcap_post cfg m c w h.ws) ?_ (by okerr)
    rintro k m1 ⟨hk, rfl⟩; injection hk with hk; subst hk
    by_cases hlt : cfg.ops.capacity w < n
    · rw [if_pos hlt]
      refine Post.mono (L.grow hd m1 c xs w n true h hf hlt (fun _ => hn)) ?_
      rintro res m' ⟨hq, _⟩
      have hnr : ¬ (cfg.dynamic = false ∨ n ≤ cfg.ops.capacity w) := by
        rintro (h1 | h1)
        · rw [hd] at h1; cases h1
        · omega
      rcases hq with ⟨_, w', hg⟩ | ⟨e, he, hw', _⟩
      · have := hg.cap
        exact ⟨⟨⟨w', hg.rep.ws, by omega⟩, fun hr => absurd hr hnr⟩, fun _ => ⟨w', hg.rep.ws, hg.cap⟩⟩
      · subst he
        exact ⟨⟨⟨w, hw'.ws, Nat.le_refl _⟩, fun hr => absurd hr hnr⟩, fun he => by cases he⟩
    · rw [if_neg hlt]
      exact ⟨Evol.refl h.ws, fun _ => ⟨w, h.ws, by omega⟩⟩
  · rw [if_neg hd]
    have hd' : cfg.dynamic = false := by simpa using hd
    refine Post.mono (OpsB.adjustCapacity_static L m c w n h.ws hd') ?_
    rintro res m' ⟨rfl, hq⟩
    refine ⟨Evol.refl h.ws, fun hr => ?_⟩
    rcases hq with ⟨_, hroom⟩ | ⟨he, _⟩
    · exact ⟨w, h.ws, hroom⟩
    · rw [hr] at he; cases he

/-- `erase(pos)` -/
theorem eraseOne_stable (L : VecLaws α cfg Ok) (m : Mem α) (c : Nat) (xs : List α) (w : VB)
    (h : VRepW cfg Ok c m xs w) (p : Nat) (hp : p < xs.length) :
    Post (eraseOne cfg c p) m (fun _ m' => Stable cfg c m m') := by
  unfold eraseOne
  refine Post.bind (vsize_post cfg m c w h.ws) ?_ (by okerr)
  rintro sz m0 ⟨_, rfl⟩
  refine Post.bind (posAddr_post cfg m0 c w p h.ws) ?_ (by okerr)
  rintro a m1 ⟨_, rfl⟩
  refine elem_then (Quiet.eraseAt _ _) (fun _ m3 hq => ?_) (QRel.refl _)
  exact Post.bindInv (tail_decr L.size hq h.ws h.ok (by rw [h.size]; omega)) (fun _ m4 h4 => h4)

/-- `erase(first, last)` -/
theorem eraseRange_stable (L : VecLaws α cfg Ok) (m : Mem α) (c : Nat) (xs : List α) (w : VB)
    (h : VRepW cfg Ok c m xs w) (p q : Nat) :
    Post (eraseRange cfg c p q) m (fun _ m' => Stable cfg c m m') := by
  have hle := h.le
  unfold eraseRange
  refine Post.bind (vsize_post cfg m c w h.ws) ?_ (by okerr)
  rintro sz m0 ⟨hsz, rfl⟩; injection hsz with hsz; subst hsz
  rw [h.size]
  by_cases hn : q - p = 0
  · simp only [hn, ne_eq, not_true_eq_false, ↓reduceIte]
    exact Stable.refl _ _ _
  · simp only [hn, ne_eq, not_false_eq_true, ↓reduceIte]
    refine Post.bind (posAddr_post cfg m0 c w p h.ws) ?_ (by okerr)
    rintro a m1 ⟨_, rfl⟩
    refine elem_then (Quiet.eraseN _ _ _) (fun _ m3 hq => ?_) (QRel.refl _)
    exact Post.bindInv (tail_setSize L.size _ hq h.ws h.ok (by omega)) (fun _ m4 h4 => h4)


/-- `insert(pos, const T&)` / `insert(pos, T&&)` -/
theorem insertOne_evol (L : VecLaws α cfg Ok) (m : Mem α) (c : Nat) (xs : List α) (w : VB)
    (h : VRepW cfg Ok c m xs w) (hf : Fresh m) (p : Nat) (arg : Arg α) (v : α) (hv : ArgOK cfg c m w xs arg v) :
    Post (insertOne cfg c p arg) m
      (fun _ m' => Evol cfg c m w (cfg.dynamic = false ∨ xs.length + 1 ≤ cfg.ops.capacity w) m') := by
  unfold insertOne
  refine Post.bind (vsize_post cfg m c w h.ws) ?_ (by okerr)
  rintro sz m0 ⟨hsz, rfl⟩; injection hsz with hsz; subst hsz
  rw [h.size]
  have tail : ∀ (g : Addr → Nat → Arg α) (m1 : Mem α) (w1 : VB), VRepW cfg Ok c m1 xs w1 → xs.length + 1 ≤ cfg.ops.capacity w1 →
      Post (do
        let pos ← posAddr cfg c p
        let n ← vsize cfg c
        insertN pos (n - p) (g pos n)
        incrSize cfg c
        pure p) m1 (fun _ m' => Stable cfg c m1 m') := by
    intro g m1 w1 hw1 hcap
    refine Post.bind (posAddr_post cfg m1 c w1 p hw1.ws) ?_ (by okerr)
    rintro pos m2 ⟨_, rfl⟩
    refine Post.bind (vsize_post cfg m2 c w1 hw1.ws) ?_ (by okerr)
    rintro sz m3 ⟨_, rfl⟩
    refine elem_then (Quiet.insertN _ _ _) (fun _ m4 hq => ?_) (QRel.refl _)
    exact Post.bindInv (tail_incr L.size hq hw1.ws hw1.ok (by rw [hw1.size]; omega)) (fun _ m5 h5 => h5)
  cases arg with
  | copy r =>
    simp only [pure_bind]
    exact Evol.after id h.ws (adjustRef_adj L m0 c xs w _ r v h hf hv)
      (fun a m1 w1 hw1 hcap => tail (fun pos n => Arg.copy (addressAfterShift a pos (n - p) 1)) m1 w1 hw1 hcap)
  | move x =>
    simp only [pure_bind]
    exact Evol.after id h.ws (adjust_adj L m0 c xs w _ h hf) (fun a m1 w1 hw1 hcap => tail (fun _ _ => Arg.move x) m1 w1 hw1 hcap)


/-- the growing path of `emplace` / `emplace_back` (capacity exhausted): the element is built in the temporary, the container
    grows (or throws, unchanged), and the rest does not reallocate: the capacity has increased, or is what it was -/
theorem emplace_grow_evol (L : VecLaws α cfg Ok) (m : Mem α) (c : Nat) (xs : List α) (w : VB)
    (h : VRepW cfg Ok c m xs w) (hf : Fresh m) (arg : Arg α) (v : α) (hv : ArgOK cfg c m w xs arg v)
    (ht : m.buf .tmp = some [.raw]) (hd : cfg.dynamic = true) (hfull : cfg.ops.capacity w = xs.length) (rest : M α β)
    (hrest : ∀ (m2 : Mem α) (w' : VB), VRepW cfg Ok c m2 xs w' → xs.length + 1 ≤ cfg.ops.capacity w' →
      Post rest m2 (fun _ m' => Stable cfg c m2 m')) :
    Post (do constructArg tmpAddr arg; growOrDestroy cfg c (xs.length + 1); rest) m
      (fun _ m' => Evol cfg c m w (cfg.dynamic = false ∨ xs.length + 1 ≤ cfg.ops.capacity w) m') := by
  have hnr : ¬ (cfg.dynamic = false ∨ xs.length + 1 ≤ cfg.ops.capacity w) := by
    rintro (h1 | h1)
    · rw [hd] at h1; cases h1
    · omega
  have keep : ∀ m' : Mem α, m'.ws[c]? = some w → Evol cfg c m w (cfg.dynamic = false ∨ xs.length + 1 ≤ cfg.ops.capacity w) m' :=
    fun m' hw' => ⟨⟨w, hw', Nat.le_refl _⟩, fun hr => absurd hr hnr⟩
  have hc := constructArg_postD m .tmp [] [] arg v (by simpa using ht) (hv.toD h)
  refine Post.bind hc ?_ ?_
  · rintro _ m1 hq
    rcases hq with ⟨_, hb1, hk1⟩ | ⟨he, _⟩
    · simp only [List.nil_append] at hb1
      have hw1 : VRepW cfg Ok c m1 xs w := h.ofTmp hb1 hk1
      have hf1 : Fresh m1 := Fresh.ofSet hf hk1.nid hb1 (OpsB.tmp_isSome m)
      have ht1 : m1.buf .tmp = some [.live v] := by rw [hb1]; simp
      refine Post.bind (growOrDestroy_post L m1 c xs w (xs.length + 1) v hw1 hf1 hd (by omega) ht1) ?_ ?_
      · rintro _ m2 hq2
        rcases hq2 with ⟨_, ⟨w', hw', hcap, _⟩, _, _⟩ | ⟨e, he, _⟩
        · refine Post.mono (hrest m2 w' hw' hcap) ?_
          intro res m' hst
          obtain ⟨w'', hw'', _, hc''⟩ := hst.words w' hw'.ws
          exact ⟨⟨w'', hw'', by omega⟩, fun hr => absurd hr hnr⟩
        · cases he
      · rintro e m2 hq2
        rcases hq2 with ⟨he, _⟩ | ⟨e', _, hw2, _⟩
        · cases he
        · exact keep m2 hw2.ws
    · cases he
  · rintro e m1 hq
    rcases hq with ⟨he, _⟩ | ⟨_, hs1⟩
    · cases he
    · exact keep m1 (by rw [hs1.2.ws]; exact h.ws)

/-- `emplace_back(args…)` -/
theorem emplaceBack_evol (L : VecLaws α cfg Ok) (m : Mem α) (c : Nat) (xs : List α) (w : VB)
    (h : VRepW cfg Ok c m xs w) (hf : Fresh m) (arg : Arg α) (v : α) (hv : ArgOK cfg c m w xs arg v)
    (ht : m.buf .tmp = some [.raw]) :
    Post (emplaceBack cfg c arg) m
      (fun _ m' => Evol cfg c m w (cfg.dynamic = false ∨ xs.length + 1 ≤ cfg.ops.capacity w) m') := by
  have hle := h.le
  have room : ∀ (m1 : Mem α) (w1 : VB), VRepW cfg Ok c m1 xs w1 → xs.length + 1 ≤ cfg.ops.capacity w1 →
      Post (do let a ← vend cfg c; let _ ← constructArg a arg; incrSize cfg c) m1 (fun _ m' => Stable cfg c m1 m') := by
    intro m1 w1 hw1 hcap
    refine Post.bind (vend_post cfg m1 c w1 hw1.ws) ?_ (by okerr)
    rintro a m2 ⟨_, rfl⟩
    exact elem_then (Quiet.constructArg _ _)
      (fun _ m3 hq => tail_incr L.size hq hw1.ws hw1.ok (by rw [hw1.size]; omega)) (QRel.refl _)
  unfold emplaceBack
  dsimp only
  by_cases hd : cfg.dynamic = true
  · rw [if_pos hd]
    refine Post.bind (vsize_post cfg m c w h.ws) ?_ (by okerr)
    rintro sz m0 ⟨hsz, rfl⟩; injection hsz with hsz; subst hsz
    refine Post.bind (vcap_post cfg m0 c w h.ws) ?_ (by okerr)
    rintro k m1 ⟨hk, rfl⟩; injection hk with hk; subst hk
    rw [h.size]
    by_cases hfull : xs.length = cfg.ops.capacity w
    · rw [if_pos (by simp [hfull])]
      refine emplace_grow_evol L m1 c xs w h hf arg v hv ht hd hfull.symm _ ?_
      intro m2 w' hw' hcap
      refine Post.bind (vend_post cfg m2 c w' hw'.ws) ?_ (by okerr)
      rintro a m3 ⟨_, rfl⟩
      exact elem_then (Quiet.relocateAt _ _)
        (fun _ m4 hq => tail_incr L.size hq hw'.ws hw'.ok (by rw [hw'.size]; omega)) (QRel.refl _)
    · rw [if_neg (by simpa using hfull)]
      exact Post.mono (room m1 w h (by omega)) (fun _ _ hst => Evol.ofStable h.ws hst)
  · rw [if_neg hd]
    have hd' : cfg.dynamic = false := by simpa using hd
    refine Post.bind (vsize_post cfg m c w h.ws) ?_ (by okerr)
    rintro sz m0 ⟨hsz, rfl⟩; injection hsz with hsz; subst hsz
    rw [h.size]
    refine Post.bind (OpsB.adjustCapacity_static L m0 c w (xs.length + 1) h.ws hd') ?_ ?_
    · rintro _ m1 ⟨rfl, hq⟩
      rcases hq with ⟨_, hroom⟩ | ⟨he, _⟩
      · exact Post.mono (room m1 w h hroom) (fun _ _ hst => Evol.ofStable h.ws hst)
      · cases he
    · rintro e m1 ⟨rfl, _⟩
      exact Evol.refl h.ws

/-- `emplace(pos, args…)` -/
theorem emplace_evol (L : VecLaws α cfg Ok) (m : Mem α) (c : Nat) (xs : List α) (w : VB)
    (h : VRepW cfg Ok c m xs w) (hf : Fresh m) (p : Nat) (arg : Arg α) (v : α) (hv : ArgOK cfg c m w xs arg v)
    (ht : m.buf .tmp = some [.raw]) :
    Post (emplace cfg c p arg) m
      (fun _ m' => Evol cfg c m w (cfg.dynamic = false ∨ xs.length + 1 ≤ cfg.ops.capacity w) m') := by
  have hle := h.le
  have room : ∀ (m1 : Mem α) (w1 : VB), VRepW cfg Ok c m1 xs w1 → xs.length + 1 ≤ cfg.ops.capacity w1 →
      Post (do let a ← posAddr cfg c p; let _ ← emplaceN a (xs.length - p) arg; incrSize cfg c; pure p) m1
        (fun _ m' => Stable cfg c m1 m') := by
    intro m1 w1 hw1 hcap
    refine Post.bind (posAddr_post cfg m1 c w1 p hw1.ws) ?_ (by okerr)
    rintro a m2 ⟨_, rfl⟩
    refine elem_then (Quiet.emplaceN _ _ _) (fun _ m3 hq => ?_) (QRel.refl _)
    exact Post.bindInv (tail_incr L.size hq hw1.ws hw1.ok (by rw [hw1.size]; omega)) (fun _ m5 h5 => h5)
  unfold emplace
  refine Post.bind (vsize_post cfg m c w h.ws) ?_ (by okerr)
  rintro sz m0 ⟨hsz, rfl⟩; injection hsz with hsz; subst hsz
  dsimp only
  rw [h.size]
  by_cases hd : cfg.dynamic = true
  · rw [if_pos hd]
    refine Post.bind (vcap_post cfg m0 c w h.ws) ?_ (by okerr)
    rintro k m1 ⟨hk, rfl⟩; injection hk with hk; subst hk
    by_cases hfull : xs.length = cfg.ops.capacity w
    · rw [if_pos (by simp [hfull])]
      refine emplace_grow_evol L m1 c xs w h hf arg v hv ht hd hfull.symm _ ?_
      intro m2 w' hw' hcap
      refine Post.bind (posAddr_post cfg m2 c w' p hw'.ws) ?_ (by okerr)
      rintro a m3 ⟨_, rfl⟩
      have fin : ∀ m4 : Mem α, QRel m3 m4 → Post (do incrSize cfg c; pure p) m4 (fun _ m' => Stable cfg c m3 m') :=
        fun m4 hq => Post.bindInv (tail_incr L.size hq hw'.ws hw'.ok (by rw [hw'.size]; omega)) (fun _ m5 h5 => h5)
      by_cases hn : xs.length - p = 0
      · rw [if_pos hn]
        exact elem_then (Quiet.relocateAt _ _) (fun _ m4 hq => fin m4 hq) (QRel.refl _)
      · rw [if_neg hn]
        refine elem_then (Quiet.shiftRight1 _ _) (fun _ m4 hq4 => ?_) (QRel.refl _)
        exact elem_then (Quiet.relocateAfterShift _ _) (fun _ m5 hq5 => fin m5 hq5) hq4
    · rw [if_neg (by simpa using hfull)]
      exact Post.mono (room m1 w h (by omega)) (fun _ _ hst => Evol.ofStable h.ws hst)
  · rw [if_neg hd]
    have hd' : cfg.dynamic = false := by simpa using hd
    refine Post.bind (OpsB.adjustCapacity_static L m0 c w (xs.length + 1) h.ws hd') ?_ ?_
    · rintro _ m1 ⟨rfl, hq⟩
      rcases hq with ⟨_, hroom⟩ | ⟨he, _⟩
      · exact Post.mono (room m1 w h hroom) (fun _ _ hst => Evol.ofStable h.ws hst)
      · cases he
    · rintro e m1 ⟨rfl, _⟩
      exact Evol.refl h.ws


/-- `insert(pos, first, last)` -/
theorem insertRange_evol (L : VecLaws α cfg Ok) (m : Mem α) (c : Nat) (xs : List α) (w : VB)
    (p : Nat) (vals : List α) (h : VRepW cfg Ok c m xs w) (hf : Fresh m) :
    Post (insertRange cfg c p vals) m
      (fun _ m' => Evol cfg c m w (cfg.dynamic = false ∨ xs.length + vals.length ≤ cfg.ops.capacity w) m') := by
  unfold insertRange
  by_cases hv : vals = []
  · subst hv
    simp only [List.length_nil, gt_iff_lt, Nat.lt_irrefl, ↓reduceIte]
    exact Post.pure (Evol.refl h.ws)
  · have hvl : 0 < vals.length := List.length_pos_iff.mpr hv
    simp only [gt_iff_lt, hvl, ↓reduceIte]
    refine Post.bind (vsize_post cfg m c w h.ws) ?_ (by okerr)
    rintro sz m0 ⟨hsz, rfl⟩; injection hsz with hsz; subst hsz
    rw [h.size]
    refine Evol.after id h.ws (adjust_adj L m0 c xs w _ h hf) ?_
    intro _ m1 w1 hw1 hcap
    refine Post.bind (posAddr_post cfg m1 c w1 p hw1.ws) ?_ (by okerr)
    rintro a m2 ⟨_, rfl⟩
    have fin : ∀ m4 : Mem α, QRel m2 m4 →
        Post (do setSize cfg c (xs.length + vals.length); pure p) m4 (fun _ m' => Stable cfg c m2 m') :=
      fun m4 hq => Post.bindInv (tail_setSize L.size _ hq hw1.ws hw1.ok hcap) (fun _ m5 h5 => h5)
    by_cases he : xs.length - p = 0
    · simp only [he, ↓reduceIte]
      exact elem_then (Quiet.uninitCopyN _ _) (fun _ m4 hq => fin m4 hq) (QRel.refl _)
    · simp only [he, ↓reduceIte]
      refine elem_then (Quiet.shiftRightN _ _ _) (fun _ m4 hq4 => ?_) (QRel.refl _)
      exact elem_then (Quiet.copyAfterShift _ _ _) (fun _ m5 hq5 => fin m5 hq5) hq4

/-- `insert(pos, count, v)` -/
theorem insertCount_evol (L : VecLaws α cfg Ok) (m : Mem α) (c : Nat) (xs : List α) (w : VB)
    (p count : Nat) (ref : Ref α) (v : α) (h : VRepW cfg Ok c m xs w) (hf : Fresh m) (hv : RefOK cfg c m w xs ref v) :
    Post (insertCount cfg c p count ref) m
      (fun _ m' => Evol cfg c m w (cfg.dynamic = false ∨ xs.length + count ≤ cfg.ops.capacity w) m') := by
  unfold insertCount
  by_cases hc0 : count = 0
  · subst hc0
    simp only [gt_iff_lt, Nat.lt_irrefl, ↓reduceIte]
    exact Post.pure (Evol.refl h.ws)
  · have hvl : 0 < count := by omega
    simp only [gt_iff_lt, hvl, ↓reduceIte]
    refine Post.bind (vsize_post cfg m c w h.ws) ?_ (by okerr)
    rintro sz m0 ⟨hsz, rfl⟩; injection hsz with hsz; subst hsz
    rw [h.size]
    refine Evol.after id h.ws (adjustRef_adj L m0 c xs w _ ref v h hf hv) ?_
    intro ref' m1 w1 hw1 hcap
    refine Post.bind (posAddr_post cfg m1 c w1 p hw1.ws) ?_ (by okerr)
    rintro a m2 ⟨_, rfl⟩
    have fin : ∀ m4 : Mem α, QRel m2 m4 →
        Post (do setSize cfg c (xs.length + count); pure p) m4 (fun _ m' => Stable cfg c m2 m') :=
      fun m4 hq => Post.bindInv (tail_setSize L.size _ hq hw1.ws hw1.ok hcap) (fun _ m5 h5 => h5)
    by_cases he : xs.length - p = 0
    · simp only [he, ↓reduceIte]
      exact elem_then (Quiet.uninitFillRef _ _ _) (fun _ m4 hq => fin m4 hq) (QRel.refl _)
    · simp only [he, ↓reduceIte]
      refine elem_then (Quiet.shiftRightN _ _ _) (fun _ m4 hq4 => ?_) (QRel.refl _)
      exact elem_then (Quiet.fillAfterShift _ _ _ _) (fun _ m5 hq5 => fin m5 hq5) hq4

/-- `assign(first, last)` -/
theorem assignRange_evol (L : VecLaws α cfg Ok) (m : Mem α) (c : Nat) (xs : List α) (w : VB)
    (vals : List α) (h : VRepW cfg Ok c m xs w) (hf : Fresh m) :
    Post (assignRange cfg c vals) m
      (fun _ m' => Evol cfg c m w (cfg.dynamic = false ∨ vals.length ≤ cfg.ops.capacity w) m') := by
  have hle := h.le
  unfold assignRange
  refine Post.bind (vsize_post cfg m c w h.ws) ?_ (by okerr)
  rintro sz m0 ⟨hsz, rfl⟩; injection hsz with hsz; subst hsz
  rw [h.size]
  by_cases hlt : xs.length < vals.length
  · simp only [hlt, ↓reduceIte]
    refine Evol.after id h.ws (adjust_adj L m0 c xs w _ h hf) ?_
    intro _ m1 w1 hw1 hcap
    refine Post.bind (vbegin_post cfg m1 c w1 hw1.ws) ?_ (by okerr)
    rintro a m2 ⟨_, rfl⟩
    exact elem_then (Quiet.assignN _ _ _) (fun _ m3 hq => tail_setSize L.size _ hq hw1.ws hw1.ok hcap) (QRel.refl _)
  · simp only [hlt, ↓reduceIte]
    refine Post.bind (vbegin_post cfg m0 c w h.ws) ?_ (by okerr)
    rintro a m1 ⟨_, rfl⟩
    refine Post.mono ?_ (fun _ _ hst => Evol.ofStable h.ws hst)
    refine elem_then (Quiet.copyN _ _) (fun _ m3 hq3 => ?_) (QRel.refl _)
    exact elem_then (Quiet.destroyN _ _) (fun _ m4 hq4 => tail_setSize L.size _ hq4 h.ws h.ok (by omega)) hq3

/-- `assign(count, v)` -/
theorem assignFill_evol (L : VecLaws α cfg Ok) (m : Mem α) (c : Nat) (xs : List α) (w : VB)
    (count : Nat) (ref : Ref α) (v : α) (hv : RefOK cfg c m w xs ref v) (h : VRepW cfg Ok c m xs w) (hf : Fresh m) :
    Post (assignFill cfg c count ref) m
      (fun _ m' => Evol cfg c m w (cfg.dynamic = false ∨ count ≤ cfg.ops.capacity w) m') := by
  have hle := h.le
  unfold assignFill
  refine Post.bind (vsize_post cfg m c w h.ws) ?_ (by okerr)
  rintro sz m0 ⟨hsz, rfl⟩; injection hsz with hsz; subst hsz
  rw [h.size]
  by_cases hlt : xs.length < count
  · simp only [hlt, ↓reduceIte]
    refine Evol.after id h.ws (adjustRef_adj L m0 c xs w _ ref v h hf hv) ?_
    intro ref' m1 w1 hw1 hcap
    refine Post.bind (vbegin_post cfg m1 c w1 hw1.ws) ?_ (by okerr)
    rintro a m2 ⟨_, rfl⟩
    exact elem_then (Quiet.fillHelper _ _ _ _) (fun _ m3 hq => tail_setSize L.size _ hq hw1.ws hw1.ok hcap) (QRel.refl _)
  · simp only [hlt, ↓reduceIte]
    refine Post.bind (vbegin_post cfg m0 c w h.ws) ?_ (by okerr)
    rintro a m1 ⟨_, rfl⟩
    refine Post.mono ?_ (fun _ _ hst => Evol.ofStable h.ws hst)
    refine elem_then (Quiet.fillRef _ _ _) (fun _ m3 hq3 => ?_) (QRel.refl _)
    exact elem_then (Quiet.destroyN _ _) (fun _ m4 hq4 => tail_setSize L.size _ hq4 h.ws h.ok (by omega)) hq3

end ops

/- ### the operation theorems with the storage clause ------------------------------------------------------------- -/

/-- an outcome shape `Q` (`StrongPost …`, `BasicPost …`, `OpStepPost …`) strengthened by what happened to the storage of
    container `c` (words `w` before), whatever the outcome: `capacity()` has not decreased; and when the flavour is static or
    the capacity `need` the operation requires is available, nothing was reallocated (`Stable`: same `begin()`, same
    `capacity()`, same heap blocks with the same allocation counts, no block identifier taken, no allocator call) -/
def StablePost (cfg : Cfg) (c : Nat) (m : Mem α) (w : VB) (need : Nat) (Q : Except Stop β → Mem α → Prop) :
    Except Stop β → Mem α → Prop :=
  fun res m' => Q res m' ∧ Evol cfg c m w (cfg.dynamic = false ∨ need ≤ cfg.ops.capacity w) m'

theorem StablePost.ofStable {cfg : Cfg} {c : Nat} {m : Mem α} {w : VB} {Q : Except Stop β → Mem α → Prop} {p : M α β}
    (hws : m.ws[c]? = some w) (hq : Post p m Q) (hs : Post p m (fun _ m' => Stable cfg c m m')) :
    Post p m (StablePost cfg c m w 0 Q) :=
  Post.both hq (Post.mono hs (fun _ _ h => Evol.ofStable hws h))

section opsS
variable {cfg : Cfg} {Ok : VB → Prop}

theorem pushBackCopy_postS (L : VecLaws α cfg Ok) (m : Mem α) (c : Nat) (xs : List α) (w : VB) (ref : Ref α) (v : α)
    (h : VRepW cfg Ok c m xs w) (hf : Fresh m) (hv : RefOK cfg c m w xs ref v) :
    Post (pushBackCopy cfg c ref) m (StablePost cfg c m w (xs.length + 1) (StrongPost cfg Ok c m w xs (xs ++ [v]) ())) :=
  Post.both (pushBackCopy_post L m c xs w ref v h hf hv) (pushBackCopy_evol L m c xs w ref v h hf hv)

theorem pushBackMove_postS (L : VecLaws α cfg Ok) (m : Mem α) (c : Nat) (xs : List α) (w : VB) (v : α)
    (h : VRepW cfg Ok c m xs w) (hf : Fresh m) :
    Post (pushBackMove cfg c v) m (StablePost cfg c m w (xs.length + 1) (StrongPost cfg Ok c m w xs (xs ++ [v]) ())) :=
  Post.both (pushBackMove_post L m c xs w v h hf) (pushBackMove_evol L m c xs w v h hf)

theorem popBack_postS (L : VecLaws α cfg Ok) (m : Mem α) (c : Nat) (xs : List α) (w : VB)
    (h : VRepW cfg Ok c m xs w) (hf : Fresh m) (hne : xs ≠ []) :
    Post (popBack cfg c) m (StablePost cfg c m w 0 (StrongPost cfg Ok c m w xs xs.dropLast ())) :=
  StablePost.ofStable h.ws (popBack_post L m c xs w h hf hne) (popBack_stable L m c xs w h hne)

theorem popBackVal_postS (L : VecLaws α cfg Ok) (m : Mem α) (c : Nat) (xs : List α) (w : VB)
    (h : VRepW cfg Ok c m xs w) (hf : Fresh m) (hne : xs ≠ []) :
    Post (popBackVal cfg c) m (StablePost cfg c m w 0 (StrongPost cfg Ok c m w xs xs.dropLast (xs.getLast hne))) :=
  StablePost.ofStable h.ws (popBackVal_post L m c xs w h hf hne) (popBackVal_stable L m c xs w h hne)

theorem clear_postS (L : VecLaws α cfg Ok) (m : Mem α) (c : Nat) (xs : List α) (w : VB)
    (h : VRepW cfg Ok c m xs w) (hf : Fresh m) :
    Post (clear cfg c) m (StablePost cfg c m w 0 (StrongPost cfg Ok c m w xs [] ())) :=
  StablePost.ofStable h.ws (clear_post L m c xs w h hf) (clear_stable L m c xs w h)

theorem appendRange_postS (L : VecLaws α cfg Ok) (m : Mem α) (c : Nat) (xs : List α) (w : VB) (vals : List α)
    (h : VRepW cfg Ok c m xs w) (hf : Fresh m) :
    Post (appendRange cfg c vals) m
      (StablePost cfg c m w (xs.length + vals.length) (StrongPost cfg Ok c m w xs (xs ++ vals) ())) :=
  Post.both (appendRange_post L m c xs w vals h hf) (appendRange_evol L m c xs w vals h hf)

theorem appendN_postS [Inhabited α] (L : VecLaws α cfg Ok) (m : Mem α) (c : Nat) (xs : List α) (w : VB) (count : Nat)
    (h : VRepW cfg Ok c m xs w) (hf : Fresh m) :
    Post (appendN cfg c count) m
      (StablePost cfg c m w (xs.length + count) (StrongPost cfg Ok c m w xs (xs ++ List.replicate count default) ())) :=
  Post.both (appendN_post L m c xs w count h hf) (appendN_evol L m c xs w count h hf)

theorem appendFill_postS (L : VecLaws α cfg Ok) (m : Mem α) (c : Nat) (xs : List α) (w : VB) (count : Nat) (ref : Ref α) (v : α)
    (h : VRepW cfg Ok c m xs w) (hf : Fresh m) (hv : RefOK cfg c m w xs ref v) :
    Post (appendFill cfg c count ref) m
      (StablePost cfg c m w (xs.length + count) (StrongPost cfg Ok c m w xs (xs ++ List.replicate count v) ())) :=
  Post.both (appendFill_post L m c xs w count ref v h hf hv) (appendFill_evol L m c xs w count ref v h hf hv)

theorem resize_postS [Inhabited α] (L : VecLaws α cfg Ok) (m : Mem α) (c : Nat) (xs : List α) (w : VB) (count : Nat)
    (h : VRepW cfg Ok c m xs w) (hf : Fresh m) :
    Post (resize cfg c count) m (StablePost cfg c m w count (StrongPost cfg Ok c m w xs
      (if xs.length < count then xs ++ List.replicate (count - xs.length) default else xs.take count) ())) :=
  Post.both (resize_post L m c xs w count h hf) (resize_evol L m c xs w count h hf)

theorem resizeFill_postS (L : VecLaws α cfg Ok) (m : Mem α) (c : Nat) (xs : List α) (w : VB) (count : Nat) (ref : Ref α) (v : α)
    (h : VRepW cfg Ok c m xs w) (hf : Fresh m) (hv : RefOK cfg c m w xs ref v) :
    Post (resizeFill cfg c count ref) m (StablePost cfg c m w count (StrongPost cfg Ok c m w xs
      (if xs.length < count then xs ++ List.replicate (count - xs.length) v else xs.take count) ())) :=
  Post.both (resizeFill_post L m c xs w count ref v h hf hv) (resizeFill_evol L m c xs w count ref v h hf hv)

/-- `reserve(n)`: nothing is reallocated when `n ≤ capacity()`; after a normal return `capacity() ≥ n` -/
theorem reserve_postS (L : VecLaws α cfg Ok) (m : Mem α) (c : Nat) (xs : List α) (w : VB) (n : Nat)
    (h : VRepW cfg Ok c m xs w) (hf : Fresh m) (hn : n ≤ cfg.ops.kMax) :
    Post (reserve cfg c n) m (fun res m' => StablePost cfg c m w n (StrongPost cfg Ok c m w xs xs ()) res m' ∧
      (res = .ok () → ∃ w', VRepW cfg Ok c m' xs w' ∧ n ≤ cfg.ops.capacity w')) := by
  refine Post.mono (Post.both (reserve_post L m c xs w n h hf hn) (reserve_evol L m c xs w n h hf hn)) ?_
  rintro res m' ⟨hs, hev, hc⟩
  refine ⟨⟨hs, hev⟩, fun hr => ?_⟩
  obtain ⟨w', hws', hn'⟩ := hc hr
  rcases hs.1 with ⟨_, w'', hw''⟩ | ⟨e, he, _⟩
  · have := hw''.ws; rw [hws'] at this; injection this with this; subst this
    exact ⟨w', hw'', hn'⟩
  · rw [hr] at he; cases he

theorem eraseOne_postS (L : VecLaws α cfg Ok) (m : Mem α) (c : Nat) (xs : List α) (w : VB)
    (h : VRepW cfg Ok c m xs w) (hf : Fresh m) (p : Nat) (hp : p < xs.length) :
    Post (eraseOne cfg c p) m (StablePost cfg c m w 0 (StrongPost cfg Ok c m w xs (xs.eraseIdx p) p)) :=
  StablePost.ofStable h.ws (eraseOne_post L m c xs w h hf p hp) (eraseOne_stable L m c xs w h p hp)

theorem eraseRange_postS (L : VecLaws α cfg Ok) (m : Mem α) (c : Nat) (xs : List α) (w : VB)
    (h : VRepW cfg Ok c m xs w) (hf : Fresh m) (p q : Nat) (hpq : p ≤ q) (hq : q ≤ xs.length) :
    Post (eraseRange cfg c p q) m (StablePost cfg c m w 0 (StrongPost cfg Ok c m w xs (xs.take p ++ xs.drop q) p)) :=
  StablePost.ofStable h.ws (eraseRange_post L m c xs w h hf p q hpq hq) (eraseRange_stable L m c xs w h p q)

theorem insertOne_postS (L : VecLaws α cfg Ok) (m : Mem α) (c : Nat) (xs : List α) (w : VB)
    (h : VRepW cfg Ok c m xs w) (hf : Fresh m) (p : Nat) (hp : p ≤ xs.length) (arg : Arg α) (v : α)
    (hv : ArgOK cfg c m w xs arg v) :
    Post (insertOne cfg c p arg) m
      (StablePost cfg c m w (xs.length + 1) (StrongPost cfg Ok c m w xs (xs.take p ++ v :: xs.drop p) p)) :=
  Post.both (insertOne_post L m c xs w h hf p hp arg v hv) (insertOne_evol L m c xs w h hf p arg v hv)

theorem emplace_postS (L : VecLaws α cfg Ok) (m : Mem α) (c : Nat) (xs : List α) (w : VB)
    (h : VRepW cfg Ok c m xs w) (hf : Fresh m) (p : Nat) (hp : p ≤ xs.length) (arg : Arg α) (v : α)
    (hv : ArgOK cfg c m w xs arg v) (ht : m.buf .tmp = some [.raw]) :
    Post (emplace cfg c p arg) m
      (StablePost cfg c m w (xs.length + 1) (StrongPost cfg Ok c m w xs (xs.take p ++ v :: xs.drop p) p)) :=
  Post.both (Post.mono (emplace_post L m c xs w h hf p hp arg v hv ht (regionOf_ne_tmp cfg c w)) (fun _ _ hq => hq.1))
    (emplace_evol L m c xs w h hf p arg v hv ht)

theorem emplaceBack_postS (L : VecLaws α cfg Ok) (m : Mem α) (c : Nat) (xs : List α) (w : VB)
    (h : VRepW cfg Ok c m xs w) (hf : Fresh m) (arg : Arg α) (v : α) (hv : ArgOK cfg c m w xs arg v)
    (ht : m.buf .tmp = some [.raw]) :
    Post (emplaceBack cfg c arg) m (StablePost cfg c m w (xs.length + 1) (StrongPost cfg Ok c m w xs (xs ++ [v]) ())) :=
  Post.both (Post.mono (emplaceBack_post L m c xs w h hf arg v hv ht (regionOf_ne_tmp cfg c w)) (fun _ _ hq => hq.1))
    (emplaceBack_evol L m c xs w h hf arg v hv ht)

theorem insertRange_postS (L : VecLaws α cfg Ok) (m : Mem α) (c : Nat) (xs : List α) (w : VB)
    (p : Nat) (hp : p ≤ xs.length) (vals : List α) (hend : p = xs.length) (h : VRepW cfg Ok c m xs w) (hf : Fresh m) :
    Post (insertRange cfg c p vals) m
      (StablePost cfg c m w (xs.length + vals.length) (StrongPost cfg Ok c m w xs (xs ++ vals) p)) :=
  Post.both (insertRange_post L m c xs w p hp vals hend h hf) (insertRange_evol L m c xs w p vals h hf)

theorem insertCount_postS (L : VecLaws α cfg Ok) (m : Mem α) (c : Nat) (xs : List α) (w : VB)
    (p count : Nat) (hp : p ≤ xs.length) (ref : Ref α) (v : α) (hv : RefOK cfg c m w xs ref v) (hlit : ∃ x, ref = .lit x)
    (hend : p = xs.length) (h : VRepW cfg Ok c m xs w) (hf : Fresh m) :
    Post (insertCount cfg c p count ref) m
      (StablePost cfg c m w (xs.length + count) (StrongPost cfg Ok c m w xs (xs ++ List.replicate count v) p)) :=
  Post.both (insertCount_post L m c xs w p count hp ref v hv hlit hend h hf) (insertCount_evol L m c xs w p count ref v h hf hv)

theorem assignRange_postS (L : VecLaws α cfg Ok) (m : Mem α) (c : Nat) (xs : List α) (w : VB) (vals : List α)
    (h : VRepW cfg Ok c m xs w) (hf : Fresh m) (hcat : m.cat ≠ .tc) :
    Post (assignRange cfg c vals) m (StablePost cfg c m w vals.length (BasicPost cfg Ok c m w vals ())) :=
  Post.both (assignRange_post L m c xs w vals h hf hcat) (assignRange_evol L m c xs w vals h hf)

theorem assignFill_postS (L : VecLaws α cfg Ok) (m : Mem α) (c : Nat) (xs : List α) (w : VB)
    (count : Nat) (ref : Ref α) (v : α) (hv : RefOK cfg c m w xs ref v) (hlit : ∃ x, ref = .lit x)
    (h : VRepW cfg Ok c m xs w) (hf : Fresh m) (hcat : m.cat ≠ .tc) :
    Post (assignFill cfg c count ref) m (StablePost cfg c m w count (BasicPost cfg Ok c m w (List.replicate count v) ())) :=
  Post.both (assignFill_post L m c xs w count ref v hv hlit h hf hcat) (assignFill_evol L m c xs w count ref v hv h hf)

end opsS

/- ### the catalogue of operations, as data ---------------------------------------------------------------------- -/

/-- the operation kinds of `IsVecOp` (`Lemmas/VecOpSpecs.lean`), as data: a history is a list of these -/
inductive VOp (α : Type) where
  | pushBack (v : α)
  | pushBackMove (v : α)
  | popBack
  | popBackVal
  | clear
  | appendRange (vals : List α)
  | appendN (inst : Inhabited α) (n : Nat)
  | appendFill (n : Nat) (v : α)
  | resize (inst : Inhabited α) (n : Nat)
  | resizeFill (n : Nat) (v : α)
  | reserve (n : Nat)
  | erase (p : Nat)
  | eraseRange (p q : Nat)
  | insert (p : Nat) (v : α)
  | insertMove (p : Nat) (v : α)
  | emplace (p : Nat) (v : α)
  | emplaceBack (v : α)
  | insertRangeEnd (p : Nat) (vals : List α)
  | insertCountEnd (p n : Nat) (v : α)
  | assign (vals : List α)
  | assignFill (n : Nat) (v : α)
  | pushBackSelf (i : Nat)
  | insertSelf (p i : Nat)

/-- the `OpSpec` of an operation kind -/
def VOp.spec : VOp α → OpSpec α
  | .pushBack v => opPushBack v
  | .pushBackMove v => opPushBackMove v
  | .popBack => opPopBack
  | .popBackVal => opPopBackVal
  | .clear => opClear
  | .appendRange vals => opAppendRange vals
  | .appendN inst n => @opAppendN α inst n
  | .appendFill n v => opAppendFill n v
  | .resize inst n => @opResize α inst n
  | .resizeFill n v => opResizeFill n v
  | .reserve n => opReserve n
  | .erase p => opErase p
  | .eraseRange p q => opEraseRange p q
  | .insert p v => opInsert p v
  | .insertMove p v => opInsertMove p v
  | .emplace p v => opEmplace p v
  | .emplaceBack v => opEmplaceBack v
  | .insertRangeEnd p vals => opInsertRangeEnd p vals
  | .insertCountEnd p n v => opInsertCountEnd p n v
  | .assign vals => opAssign vals
  | .assignFill n v => opAssignFill n v
  | .pushBackSelf i => opPushBackSelf i
  | .insertSelf p i => opInsertSelf p i

/-- the capacity an operation asks for explicitly (`reserve(n)`) -/
def VOp.req : VOp α → Nat
  | .reserve n => n
  | _ => 0

/-- the capacity an operation needs on the list `xs`: the length of its result, and what it explicitly asks for -/
def VOp.need (k : VOp α) (xs : List α) : Nat := max (k.spec.spec xs).length k.req

theorem VOp.isVecOp (cfg : Cfg) (k : VOp α) : IsVecOp cfg k.spec := by
  cases k with
  | pushBack v => exact .pushBack v
  | pushBackMove v => exact .pushBackMove v
  | popBack => exact .popBack
  | popBackVal => exact .popBackVal
  | clear => exact .clear
  | appendRange vals => exact .appendRange vals
  | appendN inst n => exact @IsVecOp.appendN α cfg inst n
  | appendFill n v => exact .appendFill n v
  | resize inst n => exact @IsVecOp.resize α cfg inst n
  | resizeFill n v => exact .resizeFill n v
  | reserve n => exact .reserve n
  | erase p => exact .erase p
  | eraseRange p q => exact .eraseRange p q
  | insert p v => exact .insert p v
  | insertMove p v => exact .insertMove p v
  | emplace p v => exact .emplace p v
  | emplaceBack v => exact .emplaceBack v
  | insertRangeEnd p vals => exact .insertRangeEnd p vals
  | insertCountEnd p n v => exact .insertCountEnd p n v
  | assign vals => exact .assign vals
  | assignFill n v => exact .assignFill n v
  | pushBackSelf i => exact .pushBackSelf i
  | insertSelf p i => exact .insertSelf p i

/-- every operation of `IsVecOp` is in the catalogue -/
theorem IsVecOp.exists_vop {cfg : Cfg} {o : OpSpec α} (h : IsVecOp cfg o) : ∃ k : VOp α, k.spec = o := by
  cases h with
  | pushBack v => exact ⟨.pushBack v, rfl⟩
  | pushBackMove v => exact ⟨.pushBackMove v, rfl⟩
  | popBack => exact ⟨.popBack, rfl⟩
  | popBackVal => exact ⟨.popBackVal, rfl⟩
  | clear => exact ⟨.clear, rfl⟩
  | appendRange vals => exact ⟨.appendRange vals, rfl⟩
  | appendN n => exact ⟨.appendN _ n, rfl⟩
  | appendFill n v => exact ⟨.appendFill n v, rfl⟩
  | resize n => exact ⟨.resize _ n, rfl⟩
  | resizeFill n v => exact ⟨.resizeFill n v, rfl⟩
  | reserve n => exact ⟨.reserve n, rfl⟩
  | erase p => exact ⟨.erase p, rfl⟩
  | eraseRange p q => exact ⟨.eraseRange p q, rfl⟩
  | insert p v => exact ⟨.insert p v, rfl⟩
  | insertMove p v => exact ⟨.insertMove p v, rfl⟩
  | emplace p v => exact ⟨.emplace p v, rfl⟩
  | emplaceBack v => exact ⟨.emplaceBack v, rfl⟩
  | insertRangeEnd p vals => exact ⟨.insertRangeEnd p vals, rfl⟩
  | insertCountEnd p n v => exact ⟨.insertCountEnd p n v, rfl⟩
  | assign vals => exact ⟨.assign vals, rfl⟩
  | assignFill n v => exact ⟨.assignFill n v, rfl⟩
  | pushBackSelf i => exact ⟨.pushBackSelf i, rfl⟩
  | insertSelf p i => exact ⟨.insertSelf p i, rfl⟩

theorem Evol.weaken {cfg : Cfg} {c : Nat} {m m' : Mem α} {w : VB} {room room' : Prop} (h : Evol cfg c m w room m')
    (hr : room' → room) : Evol cfg c m w room' m' := ⟨h.mono, fun h' => h.stable (hr h')⟩

/-- discarding the result of an operation -/
theorem post_discard {m : Mem α} {p : M α β} {S : Mem α → Prop} (hp : Post p m (fun _ m' => S m')) :
    Post (do let _ ← p; Pure.pure ()) m (fun _ m' => S m') :=
  Post.bindInv hp (fun _ _ h => h)


/-- every operation of the catalogue, whatever its outcome: the capacity does not decrease, and nothing is reallocated when
    the flavour is static or the capacity the operation needs is available -/
theorem VOp.evol {cfg : Cfg} {Ok : VB → Prop} (L : VecLaws α cfg Ok) (k : VOp α) (m : Mem α) (c : Nat) (xs : List α) (w : VB)
    (hw : VRepW cfg Ok c m xs w) (hi : HInv m) (hpre : k.spec.pre cfg xs) :
    Post (k.spec.run cfg c) m (fun _ m' => Evol cfg c m w (cfg.dynamic = false ∨ k.need xs ≤ cfg.ops.capacity w) m') := by
  have hf := hi.fresh
  cases k with
  | pushBack v =>
    refine Post.mono (pushBackCopy_evol L m c xs w (.lit v) v hw hf rfl) (fun _ _ h => h.weaken ?_)
    rintro (h | h)
    · exact Or.inl h
    · right; simp [VOp.need, VOp.spec, VOp.req, opPushBack] at h; omega
  | pushBackMove v =>
    refine Post.mono (pushBackMove_evol L m c xs w v hw hf) (fun _ _ h => h.weaken ?_)
    rintro (h | h)
    · exact Or.inl h
    · right; simp [VOp.need, VOp.spec, VOp.req, opPushBackMove] at h; omega
  | popBack => exact Post.mono (popBack_stable L m c xs w hw hpre) (fun _ _ h => Evol.ofStable hw.ws h)
  | popBackVal => exact post_discard (Post.mono (popBackVal_stable L m c xs w hw hpre) (fun _ _ h => Evol.ofStable hw.ws h))
  | clear => exact Post.mono (clear_stable L m c xs w hw) (fun _ _ h => Evol.ofStable hw.ws h)
  | appendRange vals =>
    refine Post.mono (appendRange_evol L m c xs w vals hw hf) (fun _ _ h => h.weaken ?_)
    rintro (h | h)
    · exact Or.inl h
    · right; simp [VOp.need, VOp.spec, VOp.req, opAppendRange] at h; omega
  | appendN inst n =>
    refine Post.mono (appendN_evol L m c xs w n hw hf) (fun _ _ h => h.weaken ?_)
    rintro (h | h)
    · exact Or.inl h
    · right; simp [VOp.need, VOp.spec, VOp.req, opAppendN] at h; omega
  | appendFill n v =>
    refine Post.mono (appendFill_evol L m c xs w n (.lit v) v hw hf rfl) (fun _ _ h => h.weaken ?_)
    rintro (h | h)
    · exact Or.inl h
    · right; simp [VOp.need, VOp.spec, VOp.req, opAppendFill] at h; omega
  | resize inst n =>
    refine Post.mono (resize_evol L m c xs w n hw hf) (fun _ _ h => h.weaken ?_)
    rintro (h | h)
    · exact Or.inl h
    · by_cases hlt : xs.length < n
      · right; simp [VOp.need, VOp.spec, VOp.req, opResize, hlt] at h; omega
      · right; have := hw.le; omega
  | resizeFill n v =>
    refine Post.mono (resizeFill_evol L m c xs w n (.lit v) v hw hf rfl) (fun _ _ h => h.weaken ?_)
    rintro (h | h)
    · exact Or.inl h
    · by_cases hlt : xs.length < n
      · right; simp [VOp.need, VOp.spec, VOp.req, opResizeFill, hlt] at h; omega
      · right; have := hw.le; omega
  | reserve n =>
    refine Post.mono (reserve_evol L m c xs w n hw hf hpre) (fun _ _ h => h.1.weaken ?_)
    rintro (h | h)
    · exact Or.inl h
    · right; simp [VOp.need, VOp.spec, VOp.req, opReserve] at h; omega
  | erase p => exact post_discard (Post.mono (eraseOne_stable L m c xs w hw p hpre) (fun _ _ h => Evol.ofStable hw.ws h))
  | eraseRange p q => exact post_discard (Post.mono (eraseRange_stable L m c xs w hw p q) (fun _ _ h => Evol.ofStable hw.ws h))
  | insert p v =>
    have hp : p ≤ xs.length := hpre
    refine post_discard (Post.mono (insertOne_evol L m c xs w hw hf p (.copy (.lit v)) v rfl) (fun _ _ h => h.weaken ?_))
    rintro (h | h)
    · exact Or.inl h
    · right; simp [VOp.need, VOp.spec, VOp.req, opInsert] at h; omega
  | insertMove p v =>
    have hp : p ≤ xs.length := hpre
    refine post_discard (Post.mono (insertOne_evol L m c xs w hw hf p (.move v) v rfl) (fun _ _ h => h.weaken ?_))
    rintro (h | h)
    · exact Or.inl h
    · right; simp [VOp.need, VOp.spec, VOp.req, opInsertMove] at h; omega
  | emplace p v =>
    have hp : p ≤ xs.length := hpre
    refine post_discard (Post.mono (emplace_evol L m c xs w hw hf p (.copy (.lit v)) v rfl hi.tmp) (fun _ _ h => h.weaken ?_))
    rintro (h | h)
    · exact Or.inl h
    · right; simp [VOp.need, VOp.spec, VOp.req, opEmplace] at h; omega
  | emplaceBack v =>
    refine Post.mono (emplaceBack_evol L m c xs w hw hf (.copy (.lit v)) v rfl hi.tmp) (fun _ _ h => h.weaken ?_)
    rintro (h | h)
    · exact Or.inl h
    · right; simp [VOp.need, VOp.spec, VOp.req, opEmplaceBack] at h; omega
  | insertRangeEnd p vals =>
    refine post_discard (Post.mono (insertRange_evol L m c xs w p vals hw hf) (fun _ _ h => h.weaken ?_))
    rintro (h | h)
    · exact Or.inl h
    · right; simp [VOp.need, VOp.spec, VOp.req, opInsertRangeEnd] at h; omega
  | insertCountEnd p n v =>
    refine post_discard (Post.mono (insertCount_evol L m c xs w p n (.lit v) v hw hf rfl) (fun _ _ h => h.weaken ?_))
    rintro (h | h)
    · exact Or.inl h
    · right; simp [VOp.need, VOp.spec, VOp.req, opInsertCountEnd] at h; omega
  | assign vals =>
    refine Post.mono (assignRange_evol L m c xs w vals hw hf) (fun _ _ h => h.weaken ?_)
    rintro (h | h)
    · exact Or.inl h
    · right; simp [VOp.need, VOp.spec, VOp.req, opAssign] at h; omega
  | assignFill n v =>
    refine Post.mono (assignFill_evol L m c xs w n (.lit v) v rfl hw hf) (fun _ _ h => h.weaken ?_)
    rintro (h | h)
    · exact Or.inl h
    · right; simp [VOp.need, VOp.spec, VOp.req, opAssignFill] at h; omega
  | pushBackSelf i =>
    have hlt : i < xs.length := hpre
    have hx : xs[i]? = some xs[i] := List.getElem?_eq_getElem hlt
    show Post (do let b ← vbegin cfg c; pushBackCopy cfg c (.at (b.add i))) m _
    refine Post.bind (vbegin_post cfg m c w hw.ws) ?_ (by okerr)
    rintro b m1 ⟨hb, rfl⟩; injection hb with hb; subst hb
    refine Post.mono (pushBackCopy_evol L m1 c xs w _ xs[i] hw hf (Or.inl ⟨rfl, by simp [Addr.add]⟩)) (fun _ _ h => h.weaken ?_)
    rintro (h | h)
    · exact Or.inl h
    · right; simp [VOp.need, VOp.spec, VOp.req, opPushBackSelf, hx] at h; omega
  | insertSelf p i =>
    have hp : p ≤ xs.length := hpre.1
    have hlt : i < xs.length := hpre.2
    have hx : xs[i]? = some xs[i] := List.getElem?_eq_getElem hlt
    show Post (do let b ← vbegin cfg c; let _ ← insertOne cfg c p (.copy (.at (b.add i))); Pure.pure ()) m _
    refine Post.bind (vbegin_post cfg m c w hw.ws) ?_ (by okerr)
    rintro b m1 ⟨hb, rfl⟩; injection hb with hb; subst hb
    refine post_discard (Post.mono (insertOne_evol L m1 c xs w hw hf p _ xs[i] (Or.inl ⟨rfl, by simp [Addr.add]⟩))
      (fun _ _ h => h.weaken ?_))
    rintro (h | h)
    · exact Or.inl h
    · right; simp [VOp.need, VOp.spec, VOp.req, opInsertSelf, hx] at h; omega


/- ### single steps of the catalogue ------------------------------------------------------------------------------- -/

/-- the final words of a `StablePost` outcome in which the container is valid: capacity monotone; unchanged buffer pointer
    and capacity when there was room -/
theorem Evol.rep {cfg : Cfg} {Ok : VB → Prop} {c : Nat} {m m' : Mem α} {w : VB} {room : Prop} {ys : List α}
    (h : Evol cfg c m w room m') (hws : m.ws[c]? = some w) (hv : VRep cfg Ok c m' ys) :
    ∃ w', VRepW cfg Ok c m' ys w' ∧ cfg.ops.capacity w ≤ cfg.ops.capacity w' ∧
      (room → cfg.ops.begin w' = cfg.ops.begin w ∧ cfg.ops.capacity w' = cfg.ops.capacity w ∧ Stable cfg c m m') := by
  obtain ⟨w', hw'⟩ := hv
  obtain ⟨w'', hws'', hc⟩ := h.mono
  rw [hw'.ws] at hws''; injection hws'' with hws''; subst hws''
  refine ⟨w', hw', hc, fun hr => ?_⟩
  have hst := h.stable hr
  obtain ⟨w3, hw3, hb3, hc3⟩ := hst.words w hws
  rw [hw'.ws] at hw3; injection hw3 with hw3; subst hw3
  exact ⟨hb3, hc3, hst⟩

/-- single-step contract of an operation of the catalogue, with the storage clause -/
theorem VOp.step {cfg : Cfg} {Ok : VB → Prop} (L : VecLaws α cfg Ok) (k : VOp α) (m : Mem α) (c : Nat) (xs : List α) (w : VB)
    (hw : VRepW cfg Ok c m xs w) (hi : HInv m) (hpre : k.spec.pre cfg xs) (hcat : k.spec.nonTC = true → m.cat ≠ .tc) :
    Post (k.spec.run cfg c) m (StablePost cfg c m w (k.need xs) (OpStepPost cfg Ok c m w xs k.spec)) :=
  Post.both ((k.isVecOp cfg).ok L m c xs w hw hi hpre hcat) (k.evol L m c xs w hw hi hpre)

/- ### histories --------------------------------------------------------------------------------------------------- -/

/-- every operation of the history, along every abstract outcome (each operation takes effect or throws), needs at most the
    capacity `K` -/
def FitsAll (cfg : Cfg) (K : Nat) : List (VOp α) → List α → Prop
  | [], _ => True
  | k :: rest, xs => k.need xs ≤ K ∧ FitsAll cfg K rest (k.spec.spec xs) ∧
      (∀ xs'', (k.spec.strong = true → xs'' = xs) → xs''.length ≤ K → FitsAll cfg K rest xs'')

/-- the history theorem with the storage clause: running any history of catalogue operations on a valid container (words `w`),
    continuing after every C++ exception: no lifetime fault, a final state the list semantics allows, `capacity()` at the end
    is at least what it was; and if the flavour is static or every operation of the history, along every outcome, needs at
    most the initial capacity, then nothing was ever reallocated: same `begin()`, same `capacity()`, same heap blocks, no
    block identifier taken, no allocator call (`Stable`) -/
theorem hist_evol {cfg : Cfg} {Ok : VB → Prop} (L : VecLaws α cfg Ok) (c : Nat) (ks : List (VOp α)) :
    ∀ (m : Mem α) (xs : List α) (w : VB), VRepW cfg Ok c m xs w → HInv m → Safe cfg (ks.map VOp.spec) xs →
    (∀ k ∈ ks, k.spec.nonTC = true → m.cat ≠ .tc) →
    Post (runHist cfg c (ks.map VOp.spec)) m (fun res m' => res = .ok () ∧ ∃ ys w', Trace cfg (ks.map VOp.spec) xs ys ∧
      VRepW cfg Ok c m' ys w' ∧ HInv m' ∧ m'.cat = m.cat ∧ cfg.ops.capacity w ≤ cfg.ops.capacity w' ∧
      ((cfg.dynamic = false ∨ FitsAll cfg (cfg.ops.capacity w) ks xs) →
        cfg.ops.begin w' = cfg.ops.begin w ∧ cfg.ops.capacity w' = cfg.ops.capacity w ∧ Stable cfg c m m')) := by
  induction ks with
  | nil =>
    intro m xs w hw hi _ _
    exact ⟨rfl, xs, w, Trace.nil xs, hw, hi, rfl, Nat.le_refl _, fun _ => ⟨rfl, rfl, Stable.refl _ _ _⟩⟩
  | cons k rest ih =>
    intro m xs w hw hi hs hcat
    simp only [List.map_cons, Safe] at hs
    obtain ⟨hpre, hsok, hsexc⟩ := hs
    have hstep := k.step L m c xs w hw hi hpre (hcat k (by simp))
    simp only [List.map_cons, runHist]
    refine Post.bind (Q1 := fun res m1 => res = .ok () ∧ ∃ xs1 w1, VRepW cfg Ok c m1 xs1 w1 ∧ HInv m1 ∧ m1.cat = m.cat ∧
        Safe cfg (rest.map VOp.spec) xs1 ∧ (∀ ys, Trace cfg (rest.map VOp.spec) xs1 ys → Trace cfg (k.spec :: rest.map VOp.spec) xs ys) ∧
        cfg.ops.capacity w ≤ cfg.ops.capacity w1 ∧
        ((cfg.dynamic = false ∨ FitsAll cfg (cfg.ops.capacity w) (k :: rest) xs) →
          cfg.ops.begin w1 = cfg.ops.begin w ∧ cfg.ops.capacity w1 = cfg.ops.capacity w ∧ Stable cfg c m m1 ∧
          (cfg.dynamic = false ∨ FitsAll cfg (cfg.ops.capacity w1) rest xs1)))
      (Post.tryCatch hstep ?_ ?_) ?_ ?_
    · rintro _ m1 ⟨⟨hq, hi1, hc1, _⟩, hev⟩
      rcases hq with ⟨_, hv1⟩ | ⟨e, xs'', he, _, _⟩
      · obtain ⟨w1, hw1, hmono, hst⟩ := hev.rep hw.ws hv1
        refine ⟨rfl, _, w1, hw1, hi1, hc1, hsok, fun ys ht => Trace.ok k.spec _ xs ys ht, hmono, fun hfit => ?_⟩
        have hroom : cfg.dynamic = false ∨ k.need xs ≤ cfg.ops.capacity w := by
          rcases hfit with h | h
          · exact Or.inl h
          · exact Or.inr h.1
        obtain ⟨hb, hc, hs⟩ := hst hroom
        refine ⟨hb, hc, hs, ?_⟩
        rcases hfit with h | h
        · exact Or.inl h
        · right; rw [hc]; exact h.2.1
      · cases he
    · rintro e m1 ⟨⟨hq, hi1, hc1, _⟩, hev⟩
      rcases hq with ⟨he, _⟩ | ⟨e', xs'', he, hv1, hstr⟩
      · cases he
      · injection he with he; subst he
        obtain ⟨w1, hw1, hmono, hst⟩ := hev.rep hw.ws hv1
        refine ⟨rfl, xs'', w1, hw1, hi1, hc1, hsexc xs'' hstr, fun ys ht => Trace.thrown k.spec _ xs xs'' ys hstr ht, hmono,
          fun hfit => ?_⟩
        have hroom : cfg.dynamic = false ∨ k.need xs ≤ cfg.ops.capacity w := by
          rcases hfit with h | h
          · exact Or.inl h
          · exact Or.inr h.1
        obtain ⟨hb, hc, hs⟩ := hst hroom
        refine ⟨hb, hc, hs, ?_⟩
        rcases hfit with h | h
        · exact Or.inl h
        · right; rw [hc]; exact h.2.2 xs'' hstr (by rw [← hc]; exact hw1.le)
    · rintro _ m1 ⟨_, xs1, w1, hw1, hi1, hc1, hs1, htr, hmono1, hfit1⟩
      refine Post.mono (ih m1 xs1 w1 hw1 hi1 hs1 (fun k' hk' hn => by rw [hc1]; exact hcat k' (by simp [hk']) hn)) ?_
      rintro res m2 ⟨hr, ys, w2, ht, hw2, hi2, hc2, hmono2, hfit2⟩
      refine ⟨hr, ys, w2, htr ys ht, hw2, hi2, hc2.trans hc1, Nat.le_trans hmono1 hmono2, fun hfit => ?_⟩
      obtain ⟨hb1, hcp1, hst1, hrest⟩ := hfit1 hfit
      obtain ⟨hb2, hcp2, hst2⟩ := hfit2 hrest
      exact ⟨hb2.trans hb1, hcp2.trans hcp1, hst1.trans hst2⟩
    · rintro e m1 ⟨he, _⟩; cases he

/-- along any history in which every operation, along every outcome, needs at most the initial capacity (or on a static
    flavour): `begin()` and `capacity()` never change and no block is ever created (apply it to every prefix of a history) -/
theorem hist_stable {cfg : Cfg} {Ok : VB → Prop} (L : VecLaws α cfg Ok) (c : Nat) (ks : List (VOp α)) (m : Mem α) (xs : List α)
    (w : VB) (hw : VRepW cfg Ok c m xs w) (hi : HInv m) (hs : Safe cfg (ks.map VOp.spec) xs)
    (hcat : ∀ k ∈ ks, k.spec.nonTC = true → m.cat ≠ .tc) (hfit : cfg.dynamic = false ∨ FitsAll cfg (cfg.ops.capacity w) ks xs) :
    Post (runHist cfg c (ks.map VOp.spec)) m (fun res m' => res = .ok () ∧ ∃ ys w', Trace cfg (ks.map VOp.spec) xs ys ∧
      VRepW cfg Ok c m' ys w' ∧ HInv m' ∧ m'.cat = m.cat ∧
      cfg.ops.begin w' = cfg.ops.begin w ∧ cfg.ops.capacity w' = cfg.ops.capacity w ∧ Stable cfg c m m') :=
  Post.mono (hist_evol L c ks m xs w hw hi hs hcat) (fun _ _ ⟨hr, ys, w', ht, hw', hi', hc', _, hst⟩ =>
    ⟨hr, ys, w', ht, hw', hi', hc', hst hfit⟩)

/-- `capacity()` never decreases along a history of catalogue operations (`shrink_to_fit`, moves and swaps are not in the
    catalogue), whatever throws -/
theorem hist_mono {cfg : Cfg} {Ok : VB → Prop} (L : VecLaws α cfg Ok) (c : Nat) (ks : List (VOp α)) (m : Mem α) (xs : List α)
    (w : VB) (hw : VRepW cfg Ok c m xs w) (hi : HInv m) (hs : Safe cfg (ks.map VOp.spec) xs)
    (hcat : ∀ k ∈ ks, k.spec.nonTC = true → m.cat ≠ .tc) :
    Post (runHist cfg c (ks.map VOp.spec)) m (fun res m' => res = .ok () ∧ ∃ ys w', Trace cfg (ks.map VOp.spec) xs ys ∧
      VRepW cfg Ok c m' ys w' ∧ HInv m' ∧ m'.cat = m.cat ∧ cfg.ops.capacity w ≤ cfg.ops.capacity w') :=
  Post.mono (hist_evol L c ks m xs w hw hi hs hcat) (fun _ _ ⟨hr, ys, w', ht, hw', hi', hc', hm, _⟩ =>
    ⟨hr, ys, w', ht, hw', hi', hc', hm⟩)

end AmcVerif
