import AmcVerif.Lemmas.FlatSetInv
/-! The counted model of `insert_hint` (`insertHintC`, the one run against the real FlatSet) computes the same list
and index as the specification-level `insertHint` (proved equal to plain insertion in `Lemmas/Hint.lean`), and uses
at most four comparator calls when the hint is correct. -/
namespace AmcVerif.Sets
open AmcVerif.FS
variable {α : Type} {lt : α → α → Bool}

/-- the halving loop over the window `[0, k)` computes the specification's lower bound of the prefix of length `k` -/
theorem lowerBound_prefix (hswo : SWO lt) (l : List α) (hs : Sorted lt l) (v : α) (k : Nat) (hk : k ≤ l.length) :
    (lowerBound lt l v 0 k).1 = lowerIdx lt (l.take k) v := by
  have r := lowerBound_spec hswo l hs v k 0 k (Nat.le_refl _) (by omega)
  symm
  have hlen : (l.take k).length = k := by simp [List.length_take]; omega
  apply lowerIdx_eq (l.take k) v _ _ (by omega)
  · intro x hx
    rw [List.getElem?_take] at hx
    split at hx
    · exact r.2.2.2 x (by omega) hx
    · cases hx
  · intro j x hj hx
    rw [List.getElem?_take] at hx
    split at hx
    · exact r.2.2.1 j x (by omega) hj hx
    · cases hx

theorem insertHintC_proj (hswo : SWO lt) (l : List α) (hs : Sorted lt l) (h : Nat) (hh : h ≤ l.length) (v : α) :
    ((insertHintC lt l h v).1, (insertHintC lt l h v).2.1) = insertHint lt l h v := by
  have hpre := lowerBound_prefix hswo l hs v (h - 1) (by omega)
  have hval := insertValC_eq hswo l hs v
  unfold insertHintC insertHint searchBefore
  generalize hlb : lowerBound lt l v 0 (h - 1) = p at hpre
  obtain ⟨i, c⟩ := p
  simp only at hpre
  subst hpre
  have hv1 : (insertValC lt l v).1 = (insertVal lt l v).1 := by rw [← hval]
  have hv2 : (insertValC lt l v).2.1 = (insertVal lt l v).2.1 := by rw [← hval]
  cases hlh : l[h]? with
  | none =>
    by_cases h0 : h = 0
    · simp [h0]
    · cases hp : l[h-1]? with
      | none => simp [h0, hp]
      | some p =>
        cases hvp : lt v p <;> cases hpv : lt p v <;> simp [h0, hp, hvp, hpv]
        all_goals (try (split <;> simp_all))
        all_goals (try (split <;> simp_all))
        all_goals (try (split <;> simp_all))
  | some x =>
    cases hxv : lt x v with
    | false =>
      by_cases h0 : h = 0
      · cases hvx : lt v x <;> simp [h0, hxv, hvx]
      · cases hp : l[h-1]? with
        | none => cases hvx : lt v x <;> simp [h0, hp, hxv, hvx]
        | some p =>
          cases hvp : lt v p <;> cases hpv : lt p v <;> cases hvx : lt v x <;> simp [h0, hp, hxv, hvp, hpv, hvx]
          all_goals (try (split <;> simp_all))
          all_goals (try (split <;> simp_all))
          all_goals (try (split <;> simp_all))
    | true =>
      cases hn : l[h+1]? with
      | none => simp [hxv, hn]
      | some y =>
        cases hyv : lt y v <;> cases hvy : lt v y <;> simp [hxv, hn, hyv, hvy, hv1, hv2]

/-- a hint is *correct* when it is the position where the value belongs (its lower bound) -/
def CorrectHint (lt : α → α → Bool) (l : List α) (h : Nat) (v : α) : Prop := h = lowerIdx lt l v

/-- with a correct hint, insertion needs at most four comparator calls, whatever the size of the set -/
theorem insertHintC_correct_count (hswo : SWO lt) (l : List α) (h : Nat) (v : α) (hc : CorrectHint lt l h v) :
    (insertHintC lt l h v).2.2 ≤ 4 := by
  unfold CorrectHint at hc
  unfold insertHintC
  cases hlh : l[h]? with
  | none =>
    by_cases h0 : h = 0
    · simp [h0]
    · cases hp : l[h-1]? with
      | none => simp [h0, hp]
      | some p =>
        have hpv : lt p v = true := lowerIdx_below l v (h-1) p (by omega) hp
        have hvp : lt v p = false := hswo.asymm hpv
        simp [h0, hp, hpv, hvp]
  | some x =>
    have hxv : lt x v = false := by subst hc; exact lowerIdx_at l v x hlh
    by_cases h0 : h = 0
    · cases hvx : lt v x <;> simp [h0, hxv, hvx]
    · cases hp : l[h-1]? with
      | none => cases hvx : lt v x <;> simp [h0, hp, hxv, hvx]
      | some p =>
        have hpv : lt p v = true := lowerIdx_below l v (h-1) p (by omega) hp
        have hvp : lt v p = false := hswo.asymm hpv
        cases hvx : lt v x <;> simp [h0, hp, hxv, hpv, hvp, hvx]

end AmcVerif.Sets
