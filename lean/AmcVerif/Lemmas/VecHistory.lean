import AmcVerif.Lemmas.VecRep
/-! Histories of operations on one container: if every operation of a history satisfies its single-step contract (`OpOK`), then
running the whole history — continuing after every C++ exception — never produces a lifetime fault, and the container ends
in a state the abstract list semantics allows (`Trace`). -/
namespace AmcVerif
variable {α : Type}

/-- an operation on container `c`: the model program, its precondition and result on the abstract list, and whether an exception
    leaves the container unchanged (strong guarantee) or merely valid (basic guarantee) -/
structure OpSpec (α : Type) where
  run : Cfg → Nat → M α Unit
  pre : Cfg → List α → Prop
  spec : List α → List α
  strong : Bool
  /-- the operation's theorem is only available for element types that are not trivially copyable (the two `assign` forms:
      their trivially-copyable branch constructs over live objects, which the slot model only tolerates without throws) -/
  nonTC : Bool := false

/-- what a history carries from step to step besides the container itself -/
structure HInv (m : Mem α) : Prop where
  fresh : Fresh m
  tmp : m.buf .tmp = some [.raw]

/-- single-step contract: from a valid state (words `w`) satisfying the precondition the operation yields the specified list, or
    throws a C++ exception leaving the old list (strong) or some valid list (basic); never a lifetime fault; nothing outside the
    container is touched and no heap block is left behind (`FrameL`: `FrameG` and `NoLeak`) -/
def OpStepPost (cfg : Cfg) (Ok : VB → Prop) (c : Nat) (m : Mem α) (w : VB) (xs : List α) (o : OpSpec α) :
    Except Stop Unit → Mem α → Prop :=
  fun res m' => ((res = .ok () ∧ VRep cfg Ok c m' (o.spec xs)) ∨
                 (∃ e xs'', res = .error (.exc e) ∧ VRep cfg Ok c m' xs'' ∧ (o.strong = true → xs'' = xs)))
                ∧ HInv m' ∧ m'.cat = m.cat ∧ FrameL cfg c (regionOf cfg c w) m m'

def OpOK (cfg : Cfg) (Ok : VB → Prop) (o : OpSpec α) : Prop :=
  ∀ (m : Mem α) (c : Nat) (xs : List α) (w : VB), VRepW cfg Ok c m xs w → HInv m → o.pre cfg xs → (o.nonTC = true → m.cat ≠ .tc) →
    Post (o.run cfg c) m (OpStepPost cfg Ok c m w xs o)

/-- history-level leak freedom: every heap block with identifier `≥ n0` (the value of `nextId` when the history started) that
    exists is the block the container owns -/
def Owned (cfg : Cfg) (c : Nat) (n0 : Nat) (m : Mem α) : Prop :=
  ∀ id, n0 ≤ id → (m.buf (.blk id)).isSome → ∃ w, m.ws[c]? = some w ∧ regionOf cfg c w = .blk id ∧ 0 < cfg.ops.capacity w

/-- at the start of a history no block with an identifier `≥ nextId` exists -/
theorem Owned.start (cfg : Cfg) (c : Nat) {m : Mem α} (hf : Fresh m) : Owned cfg c m.nextId m := by
  intro id hge hid
  have := hf id hid
  omega

/-- a leak-free step preserves it: a block that exists afterwards and is not the container's existed before and was not the
    container's -/
theorem Owned.step {cfg : Cfg} {c n0 : Nat} {m m' : Mem α} (h : Owned cfg c n0 m) (hn : NoLeak cfg c m m') : Owned cfg c n0 m' := by
  intro id hge hid
  rcases hn id hid with ⟨e0, n1, _⟩ | ⟨_, _, o2⟩ | ⟨_, o2⟩
  · exact absurd (h id hge e0) n1
  · exact o2
  · exact o2

/-- run a history; a C++ exception ends the operation that threw it, not the history -/
def runHist (cfg : Cfg) (c : Nat) : List (OpSpec α) → M α Unit
  | [] => pure ()
  | o :: rest => do
    tryCatch (o.run cfg c) fun s => match s with
      | .exc _ => pure ()
      | .fault _ => throw s
    runHist cfg c rest

/-- the abstract outcomes of a history: each operation takes effect, or throws (leaving the list, or — basic guarantee — some list) -/
inductive Trace (cfg : Cfg) : List (OpSpec α) → List α → List α → Prop
  | nil (xs) : Trace cfg [] xs xs
  | ok (o rest xs ys) : Trace cfg rest (o.spec xs) ys → Trace cfg (o :: rest) xs ys
  | thrown (o rest xs xs'' ys) : (o.strong = true → xs'' = xs) → Trace cfg rest xs'' ys → Trace cfg (o :: rest) xs ys

/-- the preconditions hold along every abstract outcome -/
def Safe (cfg : Cfg) : List (OpSpec α) → List α → Prop
  | [], _ => True
  | o :: rest, xs => o.pre cfg xs ∧ Safe cfg rest (o.spec xs) ∧ (∀ xs'', (o.strong = true → xs'' = xs) → Safe cfg rest xs'')

/-- the history theorem with an additional invariant `I` of the memory that every framed, leak-free step on the container
    preserves (the step may use that the container was valid before and is valid after it) -/
theorem hist_post_inv (cfg : Cfg) (Ok : VB → Prop) (c : Nat) (I : Mem α → Prop)
    (hI : ∀ (m m' : Mem α) (w : VB) (xs xs' : List α), VRepW cfg Ok c m xs w → VRep cfg Ok c m' xs' → HInv m → I m →
      FrameL cfg c (regionOf cfg c w) m m' → I m') :
    ∀ (ops : List (OpSpec α)) (m : Mem α) (xs : List α),
    (∀ o ∈ ops, OpOK cfg Ok o) → VRep cfg Ok c m xs → HInv m → Safe cfg ops xs → (∀ o ∈ ops, o.nonTC = true → m.cat ≠ .tc) → I m →
    Post (runHist cfg c ops) m (fun res m' => res = .ok () ∧ ∃ ys, Trace cfg ops xs ys ∧ VRep cfg Ok c m' ys ∧ HInv m' ∧ m'.cat = m.cat
      ∧ I m') := by
  intro ops
  induction ops with
  | nil =>
    intro m xs _ hv hi _ _ hinv
    exact ⟨rfl, xs, Trace.nil xs, hv, hi, rfl, hinv⟩
  | cons o rest ih =>
    intro m xs hok hv hi hs hcat hinv
    obtain ⟨w, hw⟩ := hv
    obtain ⟨hpre, hsok, hsexc⟩ := hs
    have hstep := hok o (by simp) m c xs w hw hi hpre (hcat o (by simp))
    simp only [runHist]
    refine Post.bind (Q1 := fun res m1 => res = .ok () ∧ ∃ xs1, ((xs1 = o.spec xs) ∨ (o.strong = true → xs1 = xs)) ∧
        VRep cfg Ok c m1 xs1 ∧ HInv m1 ∧ m1.cat = m.cat ∧ I m1 ∧ Safe cfg rest xs1
          ∧ (∀ ys, Trace cfg rest xs1 ys → Trace cfg (o :: rest) xs ys))
      (Post.tryCatch hstep ?_ ?_) ?_ ?_
    · rintro _ m1 ⟨hq, hi1, hc1, hfr1⟩
      rcases hq with ⟨_, hv1⟩ | ⟨e, xs'', he, _, _⟩
      · exact ⟨rfl, _, Or.inl rfl, hv1, hi1, hc1, hI m m1 w xs _ hw hv1 hi hinv hfr1, hsok, fun ys ht => Trace.ok o rest xs ys ht⟩
      · cases he
    · rintro e m1 ⟨hq, hi1, hc1, hfr1⟩
      rcases hq with ⟨he, _⟩ | ⟨e', xs'', he, hv1, hst⟩
      · cases he
      · injection he with he; subst he
        exact ⟨rfl, xs'', Or.inr hst, hv1, hi1, hc1, hI m m1 w xs _ hw hv1 hi hinv hfr1, hsexc xs'' hst,
          fun ys ht => Trace.thrown o rest xs xs'' ys hst ht⟩
    · rintro _ m1 ⟨_, xs1, _, hv1, hi1, hc1, hinv1, hs1, htr⟩
      refine Post.mono (ih m1 xs1 (fun o' ho' => hok o' (by simp [ho'])) hv1 hi1 hs1
        (fun o' ho' hn => by rw [hc1]; exact hcat o' (by simp [ho']) hn) hinv1) ?_
      rintro res m2 ⟨hr, ys, ht, hv2, hi2, hc2, hinv2⟩
      exact ⟨hr, ys, htr ys ht, hv2, hi2, hc2.trans hc1, hinv2⟩
    · rintro e m1 ⟨he, _⟩; cases he

/-- the history theorem: no lifetime fault, a final state the abstract semantics allows, and history-level leak freedom: if
    every block allocated since `nextId` was `n0` is the container's at the start (e.g. `n0 = m.nextId`: `Owned.start`), it is
    so at the end — whatever the history does and whatever throws, no stray block is left behind -/
theorem hist_post (cfg : Cfg) (Ok : VB → Prop) (c : Nat) (n0 : Nat) (ops : List (OpSpec α)) (m : Mem α) (xs : List α)
    (hok : ∀ o ∈ ops, OpOK cfg Ok o) (hv : VRep cfg Ok c m xs) (hi : HInv m) (hs : Safe cfg ops xs)
    (hcat : ∀ o ∈ ops, o.nonTC = true → m.cat ≠ .tc) (ho : Owned cfg c n0 m) :
    Post (runHist cfg c ops) m (fun res m' => res = .ok () ∧ ∃ ys, Trace cfg ops xs ys ∧ VRep cfg Ok c m' ys ∧ HInv m' ∧ m'.cat = m.cat
      ∧ Owned cfg c n0 m') :=
  hist_post_inv cfg Ok c (Owned cfg c n0) (fun _ _ _ _ _ _ _ _ h hfr => h.step hfr.noLeak) ops m xs hok hv hi hs hcat ho

end AmcVerif

namespace AmcVerif
variable {α : Type}

theorem regionOf_ne_tmp (cfg : Cfg) (c : Nat) (w : VB) : regionOf cfg c w ≠ .tmp := by
  unfold regionOf resolve
  split <;> simp

theorem FrameG.tmp {c : Nat} {cfg : Cfg} {w : VB} {m m' : Mem α} (h : FrameG c (regionOf cfg c w) m m') : m'.buf .tmp = m.buf .tmp :=
  h.bufOther .tmp (Ne.symm (regionOf_ne_tmp cfg c w)) (fun id hid => by cases hid)

theorem HInv.frame {c : Nat} {cfg : Cfg} {w : VB} {m m' : Mem α} (hi : HInv m) (h : FrameG c (regionOf cfg c w) m m') : HInv m' :=
  ⟨h.fresh hi.fresh, by rw [h.tmp]; exact hi.tmp⟩

/-- a strong-guarantee operation theorem is a single-step contract -/
theorem OpStepPost.ofStrong {cfg : Cfg} {Ok : VB → Prop} {c : Nat} {m : Mem α} {w : VB} {xs : List α} {o : OpSpec α}
    (hi : HInv m) {res : Except Stop Unit} {m' : Mem α} (h : StrongPost cfg Ok c m w xs (o.spec xs) () res m') :
    OpStepPost cfg Ok c m w xs o res m' := by
  obtain ⟨hq, hfr⟩ := h
  refine ⟨?_, hi.frame hfr.toFrameG, hfr.cat, hfr⟩
  rcases hq with hq | ⟨e, he, hv⟩
  · exact Or.inl hq
  · exact Or.inr ⟨e, xs, he, hv, fun _ => rfl⟩

theorem OpStepPost.ofBasic {cfg : Cfg} {Ok : VB → Prop} {c : Nat} {m : Mem α} {w : VB} {xs : List α} {o : OpSpec α}
    (hb : o.strong = false) (hi : HInv m) {res : Except Stop Unit} {m' : Mem α} (h : BasicPost cfg Ok c m w (o.spec xs) () res m') :
    OpStepPost cfg Ok c m w xs o res m' := by
  obtain ⟨hq, hfr⟩ := h
  refine ⟨?_, hi.frame hfr.toFrameG, hfr.cat, hfr⟩
  rcases hq with hq | ⟨e, xs'', he, hv⟩
  · exact Or.inl hq
  · exact Or.inr ⟨e, xs'', he, hv, fun hs => by rw [hb] at hs; cases hs⟩

end AmcVerif
