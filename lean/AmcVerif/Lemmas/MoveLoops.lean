import AmcVerif.Lemmas.Loops
/-! Move loops inside one region for element types that are moved through their move operations (`cat = .ntr`):
`moveFwd`, `moveBwd`, `uninitMoveN` and the helpers `shiftRight1`, `shiftRightN`, `shiftLeft`, `uninitShiftLeft`, `eraseAt`,
`eraseN` of `Prim/Helpers.lean` in their move-construct / move-assign branch. -/
namespace AmcVerif
variable {α : Type}

/-! ### two-position list facts -/

theorem get2_fst (A B C : List (Slot α)) (s1 s2 : Slot α) (i : Nat) (hi : i = A.length) :
    (A ++ s1 :: (B ++ s2 :: C))[i]? = some s1 := by
  subst hi; simp

theorem get2_snd (A B C : List (Slot α)) (s1 s2 : Slot α) (j : Nat) (hj : j = A.length + 1 + B.length) :
    (A ++ s1 :: (B ++ s2 :: C))[j]? = some s2 := by
  subst hj
  rw [List.getElem?_append_right (by omega)]
  rw [show A.length + 1 + B.length - A.length = B.length + 1 by omega]
  simp

theorem set2 (A B C : List (Slot α)) (s1 s2 t1 t2 : Slot α) (i j : Nat) (hi : i = A.length)
    (hj : j = A.length + 1 + B.length) :
    ((A ++ s1 :: (B ++ s2 :: C)).set i t1).set j t2 = A ++ t1 :: (B ++ t2 :: C) := by
  subst hi; subst hj
  rw [set_mid]
  rw [List.set_append_right _ _ (by omega)]
  rw [show A.length + 1 + B.length - A.length = B.length + 1 by omega]
  simp

theorem set2' (A B C : List (Slot α)) (s1 s2 t1 t2 : Slot α) (i j : Nat) (hi : i = A.length)
    (hj : j = A.length + 1 + B.length) :
    ((A ++ s1 :: (B ++ s2 :: C)).set j t2).set i t1 = A ++ t1 :: (B ++ t2 :: C) := by
  rw [List.set_comm _ _ (by omega)]
  exact set2 A B C s1 s2 t1 t2 i j hi hj

theorem movedSlot_ntr (v : α) : movedSlot .ntr v = .hollow := by simp [movedSlot]

theorem isTR_post (m : Mem α) : Post (isTR (α := α)) m (fun res m' => res = .ok (m.cat != .ntr) ∧ m' = m) := by
  unfold Post isTR
  exact ⟨rfl, rfl⟩

/-! ### single moves between two positions of one buffer -/

/-- `*dst = std::move(*src)` with `dst` to the left of `src` -/
theorem assignMove_left (m : Mem α) (hc : m.cat = .ntr) (r : Region) (A B C : List (Slot α)) (d : Slot α) (v : α)
    (hd : d ≠ .raw) (i j : Nat) (hi : i = A.length) (hj : j = A.length + 1 + B.length)
    (h : m.buf r = some (A ++ d :: (B ++ .live v :: C))) :
    Post (assignMove ⟨r, i⟩ ⟨r, j⟩) m (OkSet m r (A ++ .live v :: (B ++ .hollow :: C))) := by
  have := assignMove_post m ⟨r, i⟩ ⟨r, j⟩ _ v d rfl (by simp only; omega) h (get2_snd A B C _ _ j hj)
    (get2_fst A B C _ _ i hi) (Or.inl hd)
  rw [hc, movedSlot_ntr] at this
  simp only [set2 A B C _ _ _ _ i j hi hj] at this
  exact this

/-- `*dst = std::move(*src)` with `dst` to the right of `src` -/
theorem assignMove_right (m : Mem α) (hc : m.cat = .ntr) (r : Region) (A B C : List (Slot α)) (d : Slot α) (v : α)
    (hd : d ≠ .raw) (i j : Nat) (hi : i = A.length) (hj : j = A.length + 1 + B.length)
    (h : m.buf r = some (A ++ .live v :: (B ++ d :: C))) :
    Post (assignMove ⟨r, j⟩ ⟨r, i⟩) m (OkSet m r (A ++ .hollow :: (B ++ .live v :: C))) := by
  have := assignMove_post m ⟨r, j⟩ ⟨r, i⟩ _ v d rfl (by simp only; omega) h (get2_fst A B C _ _ i hi)
    (get2_snd A B C _ _ j hj) (Or.inl hd)
  rw [hc, movedSlot_ntr] at this
  simp only [set2' A B C _ _ _ _ i j hi hj] at this
  exact this

/-- `construct_at(dst, std::move(*src))` with `dst` to the left of `src` -/
theorem constructMove_left (m : Mem α) (hc : m.cat = .ntr) (r : Region) (A B C : List (Slot α)) (v : α)
    (i j : Nat) (hi : i = A.length) (hj : j = A.length + 1 + B.length)
    (h : m.buf r = some (A ++ .raw :: (B ++ .live v :: C))) :
    Post (constructMove ⟨r, i⟩ ⟨r, j⟩) m (OkSet m r (A ++ .live v :: (B ++ .hollow :: C))) := by
  have := constructMove_post m ⟨r, i⟩ ⟨r, j⟩ _ v .raw rfl h (get2_snd A B C _ _ j hj)
    (get2_fst A B C _ _ i hi) (Or.inl rfl)
  rw [hc, movedSlot_ntr] at this
  simp only [set2 A B C _ _ _ _ i j hi hj] at this
  exact this

/-- `construct_at(dst, std::move(*src))` with `dst` to the right of `src` -/
theorem constructMove_right (m : Mem α) (hc : m.cat = .ntr) (r : Region) (A B C : List (Slot α)) (v : α)
    (i j : Nat) (hi : i = A.length) (hj : j = A.length + 1 + B.length)
    (h : m.buf r = some (A ++ .live v :: (B ++ .raw :: C))) :
    Post (constructMove ⟨r, j⟩ ⟨r, i⟩) m (OkSet m r (A ++ .hollow :: (B ++ .live v :: C))) := by
  have := constructMove_post m ⟨r, j⟩ ⟨r, i⟩ _ v .raw rfl h (get2_fst A B C _ _ i hi)
    (get2_snd A B C _ _ j hj) (Or.inl rfl)
  rw [hc, movedSlot_ntr] at this
  simp only [set2' A B C _ _ _ _ i j hi hj] at this
  exact this


/-- `moveFwd` to the left over a gap `del` of alive slots satisfying `P` (invariant form) -/
theorem moveFwd_gen (P : Slot α → Prop) (hP : P .hollow) (hPr : ∀ s, P s → s ≠ .raw) (r : Region) :
    ∀ (xs : List α) (m : Mem α) (pre del post : List (Slot α)) (i j : Nat),
    m.cat = .ntr → del ≠ [] → (∀ s ∈ del, P s) → i = pre.length + del.length → j = pre.length →
    m.buf r = some (pre ++ (del ++ (lives xs ++ post))) →
    Post (moveFwd ⟨r, i⟩ xs.length ⟨r, j⟩) m
      (fun res m' => res = .ok () ∧ Keep m m' ∧ ∃ del' : List (Slot α), del'.length = del.length ∧ (∀ s ∈ del', P s) ∧
        m'.buf = View.set m.buf r (pre ++ (lives xs ++ (del' ++ post)))) := by
  intro xs
  induction xs with
  | nil =>
    intro m pre del post i j _ _ hdel _ _ h
    simp only [List.length_nil, moveFwd]
    refine ⟨rfl, Keep.refl m, del, rfl, hdel, ?_⟩
    show m.buf = _
    rw [View.set_id]; simpa [lives] using h
  | cons x xs ih =>
    intro m pre del post i j hc hne hdel hi hj h
    cases del with
    | nil => exact absurd rfl hne
    | cons d del =>
      simp only [List.length_cons, moveFwd]
      have h0 : m.buf r = some (pre ++ d :: (del ++ .live x :: (lives xs ++ post))) := by
        rw [h]; simp [lives]
      refine Post.bind (assignMove_left m hc r pre del _ d x (hPr d (hdel d (by simp))) j i hj
        (by simp only [List.length_cons] at hi; omega) h0) ?_ ?_
      · rintro _ m1 ⟨_, hb1, hk1⟩
        have h1 : m1.buf r = some ((pre ++ [.live x]) ++ ((del ++ [.hollow]) ++ (lives xs ++ post))) := by
          rw [hb1]; simp
        have := ih m1 (pre ++ [.live x]) (del ++ [.hollow]) post (i + 1) (j + 1) (hk1.cat.trans hc) (by simp)
          (by
            intro s hs
            rcases List.mem_append.1 hs with hs | hs
            · exact hdel s (by simp [hs])
            · simp at hs; subst hs; exact hP)
          (by simp at hi ⊢; omega) (by simp; omega) h1
        refine Post.mono this ?_
        rintro res m2 ⟨hr, hk2, del', hl, hp, hb2⟩
        refine ⟨hr, hk1.trans hk2, del', by simpa using hl, hp, ?_⟩
        rw [hb2, hb1]; simp [lives]
      · rintro e m1 ⟨he, _⟩; cases he
/-- item 3: `moveFwd` over a gap of alive slots (the loop of `erase_n`) -/
theorem moveFwdN_post (m : Mem α) (hc : m.cat = .ntr) (r : Region) (pre post del : List (Slot α)) (xs : List α)
    (hdel : ∀ s ∈ del, s ≠ .raw) (hn : del ≠ [])
    (h : m.buf r = some (pre ++ del ++ lives xs ++ post)) :
    Post (moveFwd ⟨r, pre.length + del.length⟩ xs.length ⟨r, pre.length⟩) m
      (fun res m' => res = .ok () ∧ Keep m m' ∧ ∃ del' : List (Slot α), del'.length = del.length ∧ (∀ s ∈ del', s ≠ .raw) ∧
         m'.buf = View.set m.buf r (pre ++ lives xs ++ del' ++ post)) := by
  have := moveFwd_gen (fun s => s ≠ .raw) (by simp) (fun _ hs => hs) r xs m pre del post _ _ hc hn hdel rfl rfl
    (by rw [h]; simp)
  refine Post.mono this ?_
  rintro res m1 ⟨hr, hk, del', hl, hp, hb⟩
  refine ⟨hr, hk, del', hl, hp, ?_⟩
  rw [hb]; simp

/-- item 2: `moveFwd` with destination one slot to the left -/
theorem moveFwd1_post (m : Mem α) (hc : m.cat = .ntr) (r : Region) (pre post : List (Slot α)) (xs : List α)
    (h : m.buf r = some (pre ++ .hollow :: lives xs ++ post)) :
    Post (moveFwd ⟨r, pre.length + 1⟩ xs.length ⟨r, pre.length⟩) m (OkSet m r (pre ++ lives xs ++ .hollow :: post)) := by
  have := moveFwd_gen (fun s => s = .hollow) rfl (fun _ hs => by subst hs; simp) r xs m pre [.hollow] post
    (pre.length + 1) pre.length hc (by simp) (by simp) rfl rfl (by rw [h]; simp)
  refine Post.mono this ?_
  rintro res m1 ⟨hr, hk, del', hl, hp, hb⟩
  refine ⟨hr, ?_, hk⟩
  match del', hl, hp with
  | [d], _, hp =>
    have : d = .hollow := hp d (by simp)
    subst this
    rw [hb]; simp
/-- the common tail of `shift_left` / `erase_at`: move the window one slot to the left onto an alive slot, destroy the leftover -/
theorem moveFwd1_destroy (m : Mem α) (hc : m.cat = .ntr) (r : Region) (pre post : List (Slot α)) (d : Slot α) (xs : List α)
    (hd : d ≠ .raw) (i j k : Nat) (hi : i = pre.length + 1) (hj : j = pre.length) (hk : k = pre.length + xs.length)
    (h : m.buf r = some (pre ++ d :: (lives xs ++ post))) :
    Post (do moveFwd ⟨r, i⟩ xs.length ⟨r, j⟩; destroyAt ⟨r, k⟩) m (OkSet m r (pre ++ (lives xs ++ .raw :: post))) := by
  subst hi hj hk
  have := moveFwdN_post m hc r pre post [d] xs (by simpa using hd) (by simp) (by rw [h]; simp)
  refine Post.bind this ?_ ?_
  · rintro _ m1 ⟨_, hk1, del', hl, hp, hb1⟩
    match del', hl, hp with
    | [d'], _, hp =>
      have h1 : m1.buf (Addr.mk r (pre.length + xs.length)).r = some ((pre ++ lives xs) ++ d' :: post) := by
        rw [hb1]; simp
      have := destroyAt_post m1 ⟨r, pre.length + xs.length⟩ _ d' h1
        (by simp) (Or.inl (hp d' (by simp)))
      refine Post.mono this ?_
      rintro res m2 ⟨hr, hb2, hk2⟩
      refine ⟨hr, ?_, hk1.trans hk2⟩
      rw [hb2, hb1]
      have : (pre ++ lives xs ++ d' :: post).set (pre.length + xs.length) .raw = pre ++ lives xs ++ .raw :: post := by
        simp
      simp only [this]; simp
  · rintro e m1 ⟨he, _⟩; cases he

theorem shiftLeft_ntr (m : Mem α) (hc : m.cat = .ntr) (r : Region) (pre post : List (Slot α)) (xs : List α) (hx : xs ≠ [])
    (h : m.buf r = some (pre ++ .hollow :: lives xs ++ post)) :
    Post (shiftLeft ⟨r, pre.length + 1⟩ xs.length) m (OkSet m r (pre ++ lives xs ++ .raw :: post)) := by
  cases xs with
  | nil => exact absurd rfl hx
  | cons x xs =>
    unfold shiftLeft
    refine Post.bind (isTR_post m) ?_ okpost_err
    rintro t m0 ⟨ht, rfl⟩
    injection ht with ht; subst ht
    simp only [hc, bne_self_eq_false, Bool.false_eq_true, ↓reduceIte, List.length_cons, Nat.add_sub_cancel, Addr.add]
    have h0 : m0.buf r = some (pre ++ .hollow :: ([] ++ .live x :: (lives xs ++ post))) := by rw [h]; simp [lives]
    refine Post.bind (assignMove_left m0 hc r pre [] _ .hollow x (by simp) _ _ rfl (by simp) h0) ?_ ?_
    · rintro _ m1 ⟨_, hb1, hk1⟩
      have h1 : m1.buf r = some ((pre ++ [.live x]) ++ .hollow :: (lives xs ++ post)) := by rw [hb1]; simp
      have := moveFwd1_destroy m1 (hk1.cat.trans hc) r (pre ++ [.live x]) post .hollow xs (by simp)
        (pre.length + 1 + 1) (pre.length + 1) (pre.length + 1 + xs.length) (by simp) (by simp) (by simp) h1
      refine Post.mono this ?_
      rintro res m2 ⟨hr, hb2, hk2⟩
      refine ⟨hr, ?_, hk1.trans hk2⟩
      rw [hb2, hb1]; simp [lives]
    · rintro e m1 ⟨he, _⟩; cases he

theorem uninitShiftLeft_ntr (m : Mem α) (hc : m.cat = .ntr) (r : Region) (pre post : List (Slot α)) (xs : List α) (hx : xs ≠ [])
    (h : m.buf r = some (pre ++ .raw :: lives xs ++ post)) :
    Post (uninitShiftLeft ⟨r, pre.length + 1⟩ xs.length) m (OkSet m r (pre ++ lives xs ++ .raw :: post)) := by
  cases xs with
  | nil => exact absurd rfl hx
  | cons x xs =>
    unfold uninitShiftLeft
    refine Post.bind (isTR_post m) ?_ okpost_err
    rintro t m0 ⟨ht, rfl⟩
    injection ht with ht; subst ht
    simp only [hc, bne_self_eq_false, Bool.false_eq_true, ↓reduceIte, List.length_cons, Nat.add_sub_cancel, Addr.add]
    have h0 : m0.buf r = some (pre ++ .raw :: ([] ++ .live x :: (lives xs ++ post))) := by rw [h]; simp [lives]
    refine Post.bind (constructMove_left m0 hc r pre [] _ x _ _ rfl (by simp) h0) ?_ ?_
    · rintro _ m1 ⟨_, hb1, hk1⟩
      have h1 : m1.buf r = some ((pre ++ [.live x]) ++ .hollow :: (lives xs ++ post)) := by rw [hb1]; simp
      have := moveFwd1_destroy m1 (hk1.cat.trans hc) r (pre ++ [.live x]) post .hollow xs (by simp)
        (pre.length + 1 + 1) (pre.length + 1) (pre.length + 1 + xs.length) (by simp) (by simp) (by simp) h1
      refine Post.mono this ?_
      rintro res m2 ⟨hr, hb2, hk2⟩
      refine ⟨hr, ?_, hk1.trans hk2⟩
      rw [hb2, hb1]; simp [lives]
    · rintro e m1 ⟨he, _⟩; cases he

theorem eraseAt_ntr (m : Mem α) (hc : m.cat = .ntr) (r : Region) (pre post : List (Slot α)) (x : α) (xs : List α)
    (h : m.buf r = some (pre ++ .live x :: lives xs ++ post)) :
    Post (eraseAt ⟨r, pre.length⟩ xs.length) m (OkSet m r (pre ++ lives xs ++ .raw :: post)) := by
  unfold eraseAt
  refine Post.bind (isTR_post m) ?_ okpost_err
  rintro t m0 ⟨ht, rfl⟩
  injection ht with ht; subst ht
  simp only [hc, bne_self_eq_false, Bool.false_eq_true, ↓reduceIte, Addr.add]
  have := moveFwd1_destroy m0 hc r pre post (.live x) xs (by simp) _ _ _ rfl rfl rfl (by rw [h]; simp)
  refine Post.mono this ?_
  rintro res m2 ⟨hr, hb2, hk2⟩
  refine ⟨hr, ?_, hk2⟩
  rw [hb2]; simp

theorem eraseN_ntr (m : Mem α) (hc : m.cat = .ntr) (r : Region) (pre post : List (Slot α)) (del xs : List α) (hn : del ≠ [])
    (h : m.buf r = some (pre ++ lives del ++ lives xs ++ post)) :
    Post (eraseN ⟨r, pre.length⟩ del.length xs.length) m (OkSet m r (pre ++ lives xs ++ raws del.length ++ post)) := by
  unfold eraseN
  refine Post.bind (isTR_post m) ?_ okpost_err
  rintro t m0 ⟨ht, rfl⟩
  injection ht with ht; subst ht
  simp only [hc, bne_self_eq_false, Bool.false_eq_true, ↓reduceIte, Addr.add]
  have := moveFwdN_post m0 hc r pre post (lives del) xs
    (fun s hs => by
      simp only [lives, List.mem_map] at hs
      obtain ⟨y, _, rfl⟩ := hs
      simp)
    (by cases del with
        | nil => exact absurd rfl hn
        | cons a l => simp [lives]) h
  simp only [lives_length] at this
  refine Post.bind this ?_ ?_
  · rintro _ m1 ⟨_, hk1, del', hl, hp, hb1⟩
    have h1 : m1.buf r = some ((pre ++ lives xs) ++ del' ++ post) := by rw [hb1]; simp
    have := destroyN_post r del' m1 (pre ++ lives xs) post h1 (fun s hs => Or.inl (hp s hs))
    simp only [List.length_append, lives_length, hl] at this
    refine Post.mono this ?_
    rintro res m2 ⟨hr, hb2, hk2⟩
    refine ⟨hr, ?_, hk1.trans hk2⟩
    rw [hb2, hb1]; simp
  · rintro e m1 ⟨he, _⟩; cases he
theorem lives_append (xs ys : List α) : lives (xs ++ ys) = lives xs ++ lives ys := by simp [lives]

theorem snoc_of_length_succ {β : Type} (l : List β) (k : Nat) (h : l.length = k + 1) :
    ∃ l' b, l = l' ++ [b] ∧ l'.length = k := by
  rcases List.eq_nil_or_concat l with h0 | ⟨l', b, h0⟩
  · subst h0; simp at h
  · subst h0
    refine ⟨l', b, by simp, ?_⟩
    simp at h; exact h

/-- `moveBwd` to the right over a gap of alive slots satisfying `P` (invariant form) -/
theorem moveBwd_gen (P : Slot α → Prop) (hP : P .hollow) (hPr : ∀ s, P s → s ≠ .raw) (r : Region) :
    ∀ (n : Nat) (xs : List α) (m : Mem α) (pre gap post : List (Slot α)) (i j : Nat),
    xs.length = n → m.cat = .ntr → gap ≠ [] → (∀ s ∈ gap, P s) → i = pre.length → j = pre.length + gap.length →
    m.buf r = some (pre ++ (lives xs ++ (gap ++ post))) →
    Post (moveBwd ⟨r, i⟩ n ⟨r, j⟩) m
      (fun res m' => res = .ok () ∧ Keep m m' ∧ ∃ gap' : List (Slot α), gap'.length = gap.length ∧ (∀ s ∈ gap', P s) ∧
        m'.buf = View.set m.buf r (pre ++ (gap' ++ (lives xs ++ post)))) := by
  intro n
  induction n with
  | zero =>
    intro xs m pre gap post i j hl _ _ hgap _ _ h
    have : xs = [] := List.length_eq_zero_iff.1 hl
    subst this
    simp only [moveBwd]
    refine ⟨rfl, Keep.refl m, gap, rfl, hgap, ?_⟩
    show m.buf = _
    rw [View.set_id]; simpa [lives] using h
  | succ k ih =>
    intro xs m pre gap post i j hl hc hne hgap hi hj h
    obtain ⟨xs', x, rfl, hl'⟩ := snoc_of_length_succ xs k hl
    obtain ⟨gap', g, rfl, -⟩ := snoc_of_length_succ gap (gap.length - 1) (by
      cases gap with
      | nil => exact absurd rfl hne
      | cons a l => simp)
    simp only [moveBwd, Addr.add]
    have h0 : m.buf r = some ((pre ++ lives xs') ++ .live x :: (gap' ++ g :: post)) := by
      rw [h]; simp [lives]
    refine Post.bind (assignMove_right m hc r (pre ++ lives xs') gap' post g x (hPr g (hgap g (by simp))) (i + k) (j + k)
      (by simp; omega) (by simp at hj ⊢; omega) h0) ?_ ?_
    · rintro _ m1 ⟨_, hb1, hk1⟩
      have h1 : m1.buf r = some (pre ++ (lives xs' ++ ((.hollow :: gap') ++ (.live x :: post)))) := by
        rw [hb1]; simp
      have := ih xs' m1 pre (.hollow :: gap') (.live x :: post) i j hl' (hk1.cat.trans hc) (by simp)
        (by
          intro s hs
          rcases List.mem_cons.1 hs with hs | hs
          · subst hs; exact hP
          · exact hgap s (by simp [hs]))
        hi (by simp at hj ⊢; omega) h1
      refine Post.mono this ?_
      rintro res m2 ⟨hr, hk2, gap'', hl2, hp, hb2⟩
      refine ⟨hr, hk1.trans hk2, gap'', by simpa using hl2, hp, ?_⟩
      rw [hb2, hb1]; simp [lives]
    · rintro e m1 ⟨he, _⟩; cases he

/-- item 1: `moveBwd` with destination one slot to the right (the loop of `shift_right`) -/
theorem moveBwd1_post (m : Mem α) (hc : m.cat = .ntr) (r : Region) (pre post : List (Slot α)) (xs : List α)
    (h : m.buf r = some (pre ++ lives xs ++ .hollow :: post)) :
    Post (moveBwd ⟨r, pre.length⟩ xs.length ⟨r, pre.length + 1⟩) m (OkSet m r (pre ++ .hollow :: lives xs ++ post)) := by
  have := moveBwd_gen (fun s => s = .hollow) rfl (fun _ hs => by subst hs; simp) r xs.length xs m pre [.hollow] post
    pre.length (pre.length + 1) rfl hc (by simp) (by simp) rfl rfl (by rw [h]; simp)
  refine Post.mono this ?_
  rintro res m1 ⟨hr, hk, gap', hl, hp, hb⟩
  refine ⟨hr, ?_, hk⟩
  match gap', hl, hp with
  | [d], _, hp =>
    have : d = .hollow := hp d (by simp)
    subst this
    rw [hb]; simp
theorem shiftRight1_ntr (m : Mem α) (hc : m.cat = .ntr) (r : Region) (pre post : List (Slot α)) (xs : List α) (hx : xs ≠ [])
    (h : m.buf r = some (pre ++ lives xs ++ .raw :: post)) :
    Post (shiftRight1 ⟨r, pre.length⟩ xs.length) m (OkSet m r (pre ++ .hollow :: lives xs ++ post)) := by
  obtain ⟨xs', x, rfl, -⟩ := snoc_of_length_succ xs (xs.length - 1) (by
    cases xs with
    | nil => exact absurd rfl hx
    | cons a l => simp)
  unfold shiftRight1
  refine Post.bind (isTR_post m) ?_ okpost_err
  rintro t m0 ⟨ht, rfl⟩
  injection ht with ht; subst ht
  simp only [hc, bne_self_eq_false, Bool.false_eq_true, ↓reduceIte, List.length_append, List.length_cons, List.length_nil,
    Nat.zero_add, Nat.add_sub_cancel, Addr.add]
  have h0 : m0.buf r = some ((pre ++ lives xs') ++ .live x :: ([] ++ .raw :: post)) := by rw [h]; simp [lives]
  refine Post.bind (constructMove_right m0 hc r (pre ++ lives xs') [] post x _ _ (by simp) (by simp; omega) h0) ?_ ?_
  · rintro _ m1 ⟨_, hb1, hk1⟩
    have h1 : m1.buf r = some (pre ++ lives xs' ++ .hollow :: (.live x :: post)) := by rw [hb1]; simp
    have := moveBwd1_post m1 (hk1.cat.trans hc) r pre (.live x :: post) xs' h1
    refine Post.mono this ?_
    rintro res m2 ⟨hr, hb2, hk2⟩
    refine ⟨hr, ?_, hk1.trans hk2⟩
    rw [hb2, hb1]; simp [lives]
  · rintro e m1 ⟨he, _⟩; cases he
/-- `uninitMoveN` inside one region onto raw slots to the right of the source (any `mid` in between) -/
theorem uninitMoveN_right (r : Region) : ∀ (xs : List α) (m : Mem α) (pre mid post : List (Slot α)) (i j : Nat),
    m.cat = .ntr → i = pre.length → j = pre.length + xs.length + mid.length →
    m.buf r = some (pre ++ (lives xs ++ (mid ++ (raws xs.length ++ post)))) →
    Post (uninitMoveN ⟨r, i⟩ xs.length ⟨r, j⟩) m
      (OkSet m r (pre ++ (List.replicate xs.length .hollow ++ (mid ++ (lives xs ++ post))))) := by
  intro xs
  induction xs with
  | nil =>
    intro m pre mid post i j _ _ _ h
    simp only [List.length_nil, uninitMoveN]
    refine ⟨rfl, ?_, Keep.refl m⟩
    show m.buf = _
    rw [View.set_id]; simpa [lives, raws] using h
  | cons x xs ih =>
    intro m pre mid post i j hc hi hj h
    simp only [List.length_cons, uninitMoveN, Addr.add]
    have h0 : m.buf r = some (pre ++ .live x :: ((lives xs ++ mid) ++ .raw :: (raws xs.length ++ post))) := by
      rw [h]; simp [lives, raws, List.replicate_succ]
    refine Post.bind (constructMove_right m hc r pre (lives xs ++ mid) _ x i j hi
      (by simp at hj ⊢; omega) h0) ?_ ?_
    · rintro _ m1 ⟨_, hb1, hk1⟩
      have h1 : m1.buf r = some ((pre ++ [.hollow]) ++ (lives xs ++ ((mid ++ [.live x]) ++ (raws xs.length ++ post)))) := by
        rw [hb1]; simp
      have := ih m1 (pre ++ [.hollow]) (mid ++ [.live x]) post (i + 1) (j + 1) (hk1.cat.trans hc) (by simp; omega)
        (by simp at hj ⊢; omega) h1
      refine Post.mono this ?_
      rintro res m2 ⟨hr, hb2, hk2⟩
      refine ⟨hr, ?_, hk1.trans hk2⟩
      rw [hb2, hb1]; simp [lives, List.replicate_succ]
    · rintro e m1 ⟨he, _⟩; cases he

/-- item 5: the multi-slot right shift -/
theorem shiftRightN_ntr (m : Mem α) (hc : m.cat = .ntr) (r : Region) (pre post : List (Slot α)) (xs : List α) (count : Nat)
    (hx : xs ≠ []) (hcount : 0 < count)
    (h : m.buf r = some (pre ++ lives xs ++ raws count ++ post)) :
    Post (shiftRightN ⟨r, pre.length⟩ xs.length count) m
      (OkSet m r (pre ++ List.replicate (min count xs.length) .hollow ++ raws (count - xs.length) ++ lives xs ++ post)) := by
  unfold shiftRightN
  refine Post.bind (isTR_post m) ?_ okpost_err
  rintro t m0 ⟨ht, rfl⟩
  injection ht with ht; subst ht
  simp only [hc, bne_self_eq_false, Bool.false_eq_true, ↓reduceIte, Addr.add]
  by_cases hlt : count < xs.length
  · simp only [hlt, ↓reduceIte]
    -- split the window into the part that stays inside it and the last `count` elements
    have hsplit : xs = xs.take (xs.length - count) ++ xs.drop (xs.length - count) := (List.take_append_drop _ _).symm
    have hl1 : (xs.take (xs.length - count)).length = xs.length - count := by simp
    have hl2 : (xs.drop (xs.length - count)).length = count := by simp; omega
    generalize xs.take (xs.length - count) = xs1 at hsplit hl1
    generalize xs.drop (xs.length - count) = xs2 at hsplit hl2
    subst hsplit
    subst hl2
    simp only [List.length_append, Nat.add_sub_cancel]
    have h0 : m0.buf r = some ((pre ++ lives xs1) ++ (lives xs2 ++ ([] ++ (raws xs2.length ++ post)))) := by
      rw [h]; simp [lives]
    refine Post.bind (uninitMoveN_right r xs2 m0 (pre ++ lives xs1) [] post _ _ hc (by simp) (by simp; omega) h0) ?_ ?_
    · rintro _ m1 ⟨_, hb1, hk1⟩
      have h1 : m1.buf r = some (pre ++ (lives xs1 ++ (List.replicate xs2.length .hollow ++ (lives xs2 ++ post)))) := by
        rw [hb1]; simp
      have := moveBwd_gen (fun s => s = .hollow) rfl (fun _ hs => by subst hs; simp) r xs1.length xs1 m1 pre
        (List.replicate xs2.length .hollow) (lives xs2 ++ post) pre.length (pre.length + xs2.length) rfl (hk1.cat.trans hc)
        (by
          intro h0
          have := congrArg List.length h0
          simp only [List.length_replicate, List.length_nil] at this; omega)
        (fun s hs => (List.mem_replicate.1 hs).2) rfl (by simp) h1
      refine Post.mono this ?_
      rintro res m2 ⟨hr, hk2, gap', hl, hp, hb2⟩
      have hg : gap' = List.replicate xs2.length .hollow := List.eq_replicate_iff.2 ⟨by simpa using hl, hp⟩
      subst hg
      refine ⟨hr, ?_, hk1.trans hk2⟩
      rw [hb2, hb1]
      have e1 : min xs2.length (xs1.length + xs2.length) = xs2.length := by omega
      have e2 : xs2.length - (xs1.length + xs2.length) = 0 := by omega
      simp [lives, raws, e1, e2]
    · rintro e m1 ⟨he, _⟩; cases he
  · simp only [hlt, ↓reduceIte]
    have hge : xs.length ≤ count := Nat.le_of_not_lt hlt
    have h0 : m0.buf r = some (pre ++ (lives xs ++ (raws (count - xs.length) ++ (raws xs.length ++ post)))) := by
      rw [h, ← List.append_assoc (raws _), raws_append, show count - xs.length + xs.length = count by omega]; simp
    have := uninitMoveN_right r xs m0 pre (raws (count - xs.length)) post pre.length (pre.length + count) hc rfl
      (by simp; omega) h0
    refine Post.mono this ?_
    rintro res m2 ⟨hr, hb2, hk2⟩
    refine ⟨hr, ?_, hk2⟩
    rw [hb2]
    have e1 : min count xs.length = xs.length := by omega
    simp [e1]
end AmcVerif
