import AmcVerif.Lemmas.Loops
/-! More loop-level specifications: `uninitialized_copy_n`, `uninitialized_value_construct_n` (all-or-nothing) and the
assignment loops `copy_n` / `fill_n` (which stop half-way when a copy assignment throws). -/
namespace AmcVerif
variable {α β γ : Type}

/-- `std::uninitialized_copy_n` from a list of values (loop invariant form) -/
theorem uninitCopyN_go_post (r : Region) (pre post : List (Slot α)) :
    ∀ (vs : List α) (m : Mem α) (ys : List α),
    m.buf r = some (pre ++ lives ys ++ raws vs.length ++ post) →
    Post (uninitCopyN.go ⟨r, pre.length⟩ ⟨r, pre.length + ys.length⟩ vs ys.length) m
      (BuiltOrRolledBack m r (pre ++ lives (ys ++ vs) ++ post) (pre ++ raws (ys.length + vs.length) ++ post)) := by
  intro vs
  induction vs with
  | nil =>
    intro m ys h
    simp only [uninitCopyN.go]
    refine ⟨Or.inl ⟨rfl, ?_⟩, Keep.refl m⟩
    show m.buf = _
    rw [View.set_id]; simpa [raws] using h
  | cons v vs ih =>
    intro m ys h
    simp only [uninitCopyN.go]
    have h0 : m.buf r = some ((pre ++ lives ys) ++ .raw :: (raws vs.length ++ post)) := by
      rw [h]; simp [raws, List.replicate_succ]
    have hact : Post (constructCopy ⟨r, (pre ++ lives ys).length⟩ v) m
        (OkSetOrExc m r (pre ++ lives ys ++ .live v :: (raws vs.length ++ post)) .elem) := by
      have := constructCopy_post m ⟨r, (pre ++ lives ys).length⟩ v _ .raw h0 (get_mid _ _ _) (Or.inl rfl)
      simpa only [set_mid] using this
    have hstep := uninit_step_post m r pre (raws vs.length ++ post) ys v _ h0 hact
    simp only [List.length_append, lives_length] at hstep
    refine Post.bind hstep ?_ ?_
    · rintro _ m1 ⟨hq, hk1⟩
      rcases hq with ⟨_, hb1⟩ | ⟨he, _⟩
      · have h1 : m1.buf r = some (pre ++ lives (ys ++ [v]) ++ raws vs.length ++ post) := by rw [hb1]; simp
        have := ih m1 (ys ++ [v]) h1
        simp only [List.length_append, List.length_cons, List.length_nil, Nat.zero_add] at this
        refine Post.mono this ?_
        intro res m2 hq2
        have := BuiltOrRolledBack.chain hb1 hk1 hq2
        simpa [Nat.add_assoc, Nat.add_comm 1 vs.length] using this
      · cases he
    · rintro e m1 ⟨hq, hk1⟩
      rcases hq with ⟨he, _⟩ | ⟨he, hb1⟩
      · cases he
      · refine ⟨Or.inr ⟨he, ?_⟩, hk1⟩
        rw [hb1, List.append_assoc pre, raws_snoc, ← List.append_assoc (raws _), raws_append, ← List.append_assoc pre,
          show ys.length + 1 + vs.length = ys.length + (v :: vs).length by simp; omega]

theorem uninitCopyN_post (m : Mem α) (r : Region) (pre post : List (Slot α)) (vs : List α)
    (h : m.buf r = some (pre ++ raws vs.length ++ post)) :
    Post (uninitCopyN ⟨r, pre.length⟩ vs) m
      (BuiltOrRolledBack m r (pre ++ lives vs ++ post) (pre ++ raws vs.length ++ post)) := by
  have := uninitCopyN_go_post r pre post vs m [] (by simpa [lives] using h)
  simpa [uninitCopyN] using this

/-- `std::uninitialized_value_construct_n` (loop invariant form) -/
theorem uninitValueN_go_post [Inhabited α] (r : Region) (pre post : List (Slot α)) :
    ∀ (k : Nat) (m : Mem α) (ys : List α),
    m.buf r = some (pre ++ lives ys ++ raws k ++ post) →
    Post (uninitValueN.go ⟨r, pre.length⟩ ⟨r, pre.length + ys.length⟩ k ys.length) m
      (BuiltOrRolledBack m r (pre ++ lives (ys ++ List.replicate k default) ++ post) (pre ++ raws (ys.length + k) ++ post)) := by
  intro k
  induction k with
  | zero =>
    intro m ys h
    simp only [uninitValueN.go]
    refine ⟨Or.inl ⟨rfl, ?_⟩, Keep.refl m⟩
    show m.buf = _
    rw [View.set_id]; simpa [raws] using h
  | succ k ih =>
    intro m ys h
    simp only [uninitValueN.go]
    have h0 : m.buf r = some ((pre ++ lives ys) ++ .raw :: (raws k ++ post)) := by
      rw [h]; simp [raws, List.replicate_succ]
    have hact : Post (constructValue (α := α) ⟨r, (pre ++ lives ys).length⟩) m
        (OkSetOrExc m r (pre ++ lives ys ++ .live default :: (raws k ++ post)) .elem) := by
      have := constructValue_post m ⟨r, (pre ++ lives ys).length⟩ _ .raw h0 (get_mid _ _ _) (Or.inl rfl)
      simpa only [set_mid] using this
    have hstep := uninit_step_post m r pre (raws k ++ post) ys default _ h0 hact
    simp only [List.length_append, lives_length] at hstep
    refine Post.bind hstep ?_ ?_
    · rintro _ m1 ⟨hq, hk1⟩
      rcases hq with ⟨_, hb1⟩ | ⟨he, _⟩
      · have h1 : m1.buf r = some (pre ++ lives (ys ++ [default]) ++ raws k ++ post) := by rw [hb1]; simp
        have := ih m1 (ys ++ [default]) h1
        simp only [List.length_append, List.length_cons, List.length_nil, Nat.zero_add] at this
        refine Post.mono this ?_
        intro res m2 hq2
        have := BuiltOrRolledBack.chain hb1 hk1 hq2
        simpa [List.replicate_succ, Nat.add_assoc, Nat.add_comm 1 k] using this
      · cases he
    · rintro e m1 ⟨hq, hk1⟩
      rcases hq with ⟨he, _⟩ | ⟨he, hb1⟩
      · cases he
      · refine ⟨Or.inr ⟨he, ?_⟩, hk1⟩
        rw [hb1, List.append_assoc pre, raws_snoc, ← List.append_assoc (raws _), raws_append, ← List.append_assoc pre,
          show ys.length + 1 + k = ys.length + (k + 1) by omega]

theorem uninitValueN_post [Inhabited α] (m : Mem α) (r : Region) (pre post : List (Slot α)) (k : Nat)
    (h : m.buf r = some (pre ++ raws k ++ post)) :
    Post (uninitValueN (α := α) ⟨r, pre.length⟩ k) m
      (BuiltOrRolledBack m r (pre ++ lives (List.replicate k default) ++ post) (pre ++ raws k ++ post)) := by
  have := uninitValueN_go_post r pre post k m [] (by simpa [lives] using h)
  simpa [uninitValueN] using this

end AmcVerif

namespace AmcVerif
variable {α β γ : Type}

/-- outcome of an assignment loop over a window `mid` of alive objects: all assigned, or a copy assignment threw after the
    first `j` objects were assigned (the others keep their old state) -/
def AssignedOrPartial (m : Mem α) (r : Region) (pre mid post : List (Slot α)) (vals : List α) :
    Except Stop Unit → Mem α → Prop :=
  fun res m' => ((res = .ok () ∧ m'.buf = View.set m.buf r (pre ++ lives vals ++ post)) ∨
                 (res = .error (.exc .elem) ∧ ∃ j, j < vals.length ∧
                    m'.buf = View.set m.buf r (pre ++ lives (vals.take j) ++ mid.drop j ++ post))) ∧ Keep m m'

theorem AssignedOrPartial.chain {m m1 : Mem α} {r : Region} {b1 pre mid post : List (Slot α)} {vals : List α}
    (hb1 : m1.buf = View.set m.buf r b1) (hk : Keep m m1) {res : Except Stop Unit} {m2 : Mem α}
    (h : AssignedOrPartial m1 r pre mid post vals res m2) : AssignedOrPartial m r pre mid post vals res m2 := by
  rcases h with ⟨h | ⟨he, j, hj, hb⟩, hk2⟩
  · exact ⟨Or.inl ⟨h.1, by rw [h.2, hb1]; simp⟩, hk.trans hk2⟩
  · exact ⟨Or.inr ⟨he, j, hj, by rw [hb, hb1]; simp⟩, hk.trans hk2⟩

theorem okAlive_of_ne_raw (c : Cat) (s : Slot α) (h : s ≠ .raw) : okAlive c s := Or.inl h

/-- `std::copy_n` from a list of values onto alive objects -/
theorem copyN_post (r : Region) : ∀ (vals : List α) (m : Mem α) (pre mid post : List (Slot α)),
    mid.length = vals.length → (∀ s ∈ mid, s ≠ .raw) → m.buf r = some (pre ++ mid ++ post) →
    Post (copyN ⟨r, pre.length⟩ vals) m (AssignedOrPartial m r pre mid post vals) := by
  intro vals
  induction vals with
  | nil =>
    intro m pre mid post hl _ h
    have : mid = [] := List.eq_nil_of_length_eq_zero (by simpa using hl)
    subst this
    simp only [copyN]
    refine ⟨Or.inl ⟨rfl, ?_⟩, Keep.refl m⟩
    show m.buf = _
    rw [View.set_id]; simpa [lives] using h
  | cons v vals ih =>
    intro m pre mid post hl hal h
    match mid, hl, hal, h with
    | s :: mid', hl, hal, h =>
      simp only [copyN]
      have hb : m.buf (Addr.mk r pre.length).r = some (pre ++ s :: (mid' ++ post)) := by simpa using h
      have hact := assignCopy_post m ⟨r, pre.length⟩ v _ s hb (get_mid _ _ _) (Or.inl (hal s (by simp)))
      simp only [set_mid] at hact
      refine Post.bind hact ?_ ?_
      · rintro _ m1 hq
        rcases hq with ⟨_, hb1, hk1⟩ | ⟨he, _⟩
        · have h1 : m1.buf r = some ((pre ++ [.live v]) ++ mid' ++ post) := by rw [hb1]; simp
          have := ih m1 (pre ++ [.live v]) mid' post (by simpa using hl) (fun s hs => hal s (by simp [hs])) h1
          simp only [List.length_append, List.length_cons, List.length_nil, Nat.zero_add] at this
          refine Post.mono this ?_
          rintro res m2 ⟨hq2, hk2⟩
          refine ⟨?_, hk1.trans hk2⟩
          rcases hq2 with ⟨hr2, hb2⟩ | ⟨he2, j, hj, hb2⟩
          · exact Or.inl ⟨hr2, by rw [hb2, hb1]; simp [lives]⟩
          · refine Or.inr ⟨he2, j + 1, by simpa using hj, ?_⟩
            rw [hb2, hb1]; simp [lives]
        · cases he
      · rintro e m1 hq
        rcases hq with ⟨he, _⟩ | ⟨he, hsame⟩
        · cases he
        · refine ⟨Or.inr ⟨he, 0, by simp, ?_⟩, hsame.2⟩
          rw [hsame.1, View.set_id]; simpa [lives] using h

end AmcVerif

namespace AmcVerif
variable {α β γ : Type}

theorem RefIn.shift {vw : View α} {r : Region} {pre post : List (Slot α)} {n : Nat} {ref : Ref α} {v : α} (s : Slot α)
    (h : RefIn vw r pre post (n + 1) ref v) : RefIn vw r (pre ++ [s]) post n ref v := by
  cases ref with
  | lit x => exact h
  | «at» a =>
    rcases h with h | ⟨hr, hv⟩ | ⟨hr, j, hj, hv⟩
    · exact Or.inl h
    · refine Or.inr (Or.inl ⟨hr, ?_⟩)
      have hlt : a.i < pre.length := by
        rcases Nat.lt_or_ge a.i pre.length with h1 | h1
        · exact h1
        · simp [List.getElem?_eq_none h1] at hv
      rw [List.getElem?_append_left hlt]; exact hv
    · exact Or.inr (Or.inr ⟨hr, j, by simp; omega, hv⟩)

/-- a reference outside the window is not the first slot of the window -/
theorem RefIn.ne_first {vw : View α} {r : Region} {pre post : List (Slot α)} {n : Nat} {a : Addr} {v : α}
    (h : RefIn vw r pre post (n + 1) (.at a) v) : (Addr.mk r pre.length == a) = false := by
  rw [beq_eq_false_iff_ne]
  intro heq
  subst heq
  rcases h with ⟨hne, _⟩ | ⟨_, hv⟩ | ⟨_, j, hj, _⟩
  · exact hne rfl
  · simp at hv
  · simp at hj; omega

theorem assignCopyRef_post (m : Mem α) (r : Region) (pre rest post : List (Slot α)) (s : Slot α) (ref : Ref α) (v : α)
    (hs : s ≠ .raw) (h : m.buf r = some (pre ++ s :: rest ++ post))
    (hin : RefIn m.buf r pre post (rest.length + 1) ref v) :
    Post (assignCopyRef ⟨r, pre.length⟩ ref) m (OkSetOrExc m r (pre ++ .live v :: rest ++ post) .elem) := by
  have hb : m.buf (Addr.mk r pre.length).r = some (pre ++ s :: (rest ++ post)) := by simpa using h
  have hassign : ∀ x, Post (assignCopy ⟨r, pre.length⟩ x) m (OkSetOrExc m r (pre ++ .live x :: rest ++ post) .elem) := by
    intro x
    have := assignCopy_post m ⟨r, pre.length⟩ x _ s hb (get_mid _ _ _) (Or.inl hs)
    simpa only [set_mid, List.append_assoc, List.cons_append] using this
  cases ref with
  | lit x =>
    simp only [RefIn] at hin; subst hin
    simp only [assignCopyRef]
    exact hassign x
  | «at» b =>
    simp only [assignCopyRef, RefIn.ne_first hin, Bool.false_eq_true, ↓reduceIte]
    have hd := deref_post m r pre (s :: rest) post (.at b) v (by simpa using h) (by simpa using hin)
    simp only [deref] at hd
    refine Post.bind hd ?_ okpost_err
    rintro v' m1 ⟨hv, rfl⟩
    injection hv with hv; subst hv
    exact hassign v'

/-- `std::fill_n` through a reference that lies outside the assigned window -/
theorem fillRef_post (r : Region) (ref : Ref α) (v : α) : ∀ (n : Nat) (m : Mem α) (pre mid post : List (Slot α)),
    mid.length = n → (∀ s ∈ mid, s ≠ .raw) → m.buf r = some (pre ++ mid ++ post) → RefIn m.buf r pre post n ref v →
    Post (fillRef ⟨r, pre.length⟩ n ref) m (AssignedOrPartial m r pre mid post (List.replicate n v)) := by
  intro n
  induction n with
  | zero =>
    intro m pre mid post hl _ h _
    have : mid = [] := List.eq_nil_of_length_eq_zero hl
    subst this
    simp only [fillRef]
    refine ⟨Or.inl ⟨rfl, ?_⟩, Keep.refl m⟩
    show m.buf = _
    rw [View.set_id]; simpa [lives] using h
  | succ n ih =>
    intro m pre mid post hl hal h hin
    match mid, hl, hal, h with
    | s :: mid', hl, hal, h =>
      simp only [fillRef]
      have hl' : mid'.length = n := by simpa using hl
      have hact := assignCopyRef_post m r pre mid' post s ref v (hal s (by simp)) (by simpa using h) (by rw [hl']; exact hin)
      refine Post.bind hact ?_ ?_
      · rintro _ m1 hq
        rcases hq with ⟨_, hb1, hk1⟩ | ⟨he, _⟩
        · have h1 : m1.buf r = some ((pre ++ [.live v]) ++ mid' ++ post) := by rw [hb1]; simp
          have hin1 : RefIn m1.buf r (pre ++ [.live v]) post n ref v := by
            rw [hb1]; exact (RefIn.shift _ hin).set _
          have := ih m1 (pre ++ [.live v]) mid' post hl' (fun s hs => hal s (by simp [hs])) h1 hin1
          simp only [List.length_append, List.length_cons, List.length_nil, Nat.zero_add] at this
          refine Post.mono this ?_
          rintro res m2 ⟨hq2, hk2⟩
          refine ⟨?_, hk1.trans hk2⟩
          rcases hq2 with ⟨hr2, hb2⟩ | ⟨he2, j, hj, hb2⟩
          · exact Or.inl ⟨hr2, by rw [hb2, hb1]; simp [lives, List.replicate_succ]⟩
          · refine Or.inr ⟨he2, j + 1, by simpa using hj, ?_⟩
            rw [hb2, hb1]; simp [lives, List.replicate_succ]
        · cases he
      · rintro e m1 hq
        rcases hq with ⟨he, _⟩ | ⟨he, hsame⟩
        · cases he
        · refine ⟨Or.inr ⟨he, 0, by simp, ?_⟩, hsame.2⟩
          rw [hsame.1, View.set_id]; simpa [lives] using h

end AmcVerif
