import AmcVerif.Lemmas.VecOpsA
import AmcVerif.Lemmas.HelperPosts
/-! Container-level theorems for the vector operations that shift elements: `erase(pos)`, `erase(first, last)`,
`insert(pos, v)`, `emplace(pos, args...)`, `emplace_back(args...)`. Same shape as `VecOpsA.lean`: from
`VRepW cfg Ok c m xs w` the operation ends in `StrongPost` (success with exactly the new contents, or an exception with the
contents unchanged; never a lifetime fault). -/
namespace AmcVerif
variable {α : Type}

theorem lives_app (xs ys : List α) : lives (xs ++ ys) = lives xs ++ lives ys := by simp [lives]

theorem lives_take_drop (xs : List α) (p : Nat) : lives xs = lives (xs.take p) ++ lives (xs.drop p) := by
  rw [← lives_app, List.take_append_drop]

/-- `erase(pos)` -/
theorem eraseOne_post {cfg : Cfg} {Ok : VB → Prop} (L : VecLaws α cfg Ok) (m : Mem α) (c : Nat) (xs : List α) (w : VB)
    (h : VRepW cfg Ok c m xs w) (_hf : Fresh m) (p : Nat) (hp : p < xs.length) :
    Post (eraseOne cfg c p) m (StrongPost cfg Ok c m w xs (xs.eraseIdx p) p) := by
  have hle := h.le
  unfold eraseOne
  refine Post.bind (vsize_post cfg m c w h.ws) ?_ (by okerr)
  rintro sz m0 ⟨hsz, rfl⟩; injection hsz with hsz; subst hsz
  refine Post.bind (posAddr_post cfg m0 c w p h.ws) ?_ (by okerr)
  rintro a m1 ⟨ha, rfl⟩; injection ha with ha; subst ha
  rw [List.eraseIdx_eq_take_drop_succ]
  have hl : lives xs = lives (xs.take p) ++ .live xs[p] :: lives (xs.drop (p + 1)) := by
    conv => lhs; rw [← List.take_append_drop p xs, List.drop_eq_getElem_cons hp]
    rw [lives_app]; rfl
  have hbuf : m1.buf (regionOf cfg c w) = some (lives (xs.take p) ++ .live xs[p] :: lives (xs.drop (p + 1))
      ++ raws (cfg.ops.capacity w - xs.length)) := by
    rcases h.buf with h0 | hb
    · omega
    · rw [hb, hl]
  have e1 : (lives (xs.take p)).length = p := by simp; omega
  have e2 : (xs.drop (p + 1)).length = cfg.ops.size w - p - 1 := by simp [h.size]; omega
  have hact := eraseAt_post m1 (regionOf cfg c w) (lives (xs.take p)) _ xs[p] (xs.drop (p + 1)) hbuf
  rw [e1, e2] at hact
  refine Post.bind hact ?_ ?_
  · rintro _ m2 ⟨_, hb2, hk2⟩
    have hws2 : m2.ws[c]? = some w := by rw [hk2.ws]; exact h.ws
    refine Post.bind (decrSize_post cfg m2 c w hws2) ?_ (by okerr)
    rintro _ m3 ⟨_, rfl⟩
    have hl3 := L.size.decr w h.ok (by rw [h.size]; omega)
    have hlen : (xs.take p ++ xs.drop (p + 1)).length + 1 = xs.length := by simp; omega
    have hb2' : m2.buf = View.set m1.buf (regionOf cfg c w)
        (lives (xs.take p ++ xs.drop (p + 1)) ++ raws (cfg.ops.capacity w - (xs.take p ++ xs.drop (p + 1)).length)) := by
      rw [hb2, raws_succ_sub (cfg.ops.capacity w) (xs.take p ++ xs.drop (p + 1)).length (by omega)]
      rw [show (xs.take p ++ xs.drop (p + 1)).length + 1 = xs.length from hlen]
      simp [lives]
    have hst2 := h.store.set hb2' (by simp; omega) hk2
    refine Post.pure ⟨Or.inl ⟨rfl, _, VRepW.commit hst2 hl3.1 hl3.2.2.2 hl3.2.2.1 (by rw [h.size] at hl3; omega)⟩, ?_⟩
    exact ((FrameG.refl c _ m1).elem (Or.inl rfl) (h.isSome (by omega)) hb2' hk2).withWs _
  · rintro e m2 ⟨he, _⟩; cases he

/-- `erase(first, last)` -/
theorem eraseRange_post {cfg : Cfg} {Ok : VB → Prop} (L : VecLaws α cfg Ok) (m : Mem α) (c : Nat) (xs : List α) (w : VB)
    (h : VRepW cfg Ok c m xs w) (_hf : Fresh m) (p q : Nat) (hpq : p ≤ q) (hq : q ≤ xs.length) :
    Post (eraseRange cfg c p q) m (StrongPost cfg Ok c m w xs (xs.take p ++ xs.drop q) p) := by
  have hle := h.le
  unfold eraseRange
  refine Post.bind (vsize_post cfg m c w h.ws) ?_ (by okerr)
  rintro sz m0 ⟨hsz, rfl⟩; injection hsz with hsz; subst hsz
  by_cases hn : q - p = 0
  · have : q = p := by omega
    subst this
    simp only [Nat.sub_self, ne_eq, not_true_eq_false, ↓reduceIte, List.take_append_drop]
    exact ⟨Or.inl ⟨rfl, w, h⟩, FrameG.refl _ _ _⟩
  · simp only [ne_eq, hn, not_false_eq_true, ↓reduceIte]
    refine Post.bind (posAddr_post cfg m0 c w p h.ws) ?_ (by okerr)
    rintro a m1 ⟨ha, rfl⟩; injection ha with ha; subst ha
    have hl : lives xs = lives (xs.take p) ++ lives ((xs.drop p).take (q - p)) ++ lives (xs.drop q) := by
      conv => lhs; rw [← List.take_append_drop p xs, ← List.take_append_drop (q - p) (xs.drop p)]
      rw [lives_app, lives_app, List.drop_drop, show p + (q - p) = q by omega, List.append_assoc]
    have hbuf : m1.buf (regionOf cfg c w) = some (lives (xs.take p) ++ lives ((xs.drop p).take (q - p)) ++ lives (xs.drop q)
        ++ raws (cfg.ops.capacity w - xs.length)) := by
      rcases h.buf with h0 | hb
      · omega
      · rw [hb, hl]
    have e1 : (lives (xs.take p)).length = p := by simp; omega
    have e2 : ((xs.drop p).take (q - p)).length = q - p := by simp; omega
    have e3 : (xs.drop q).length = cfg.ops.size w - q := by simp [h.size]
    have hact := eraseN_post m1 (regionOf cfg c w) (lives (xs.take p)) _ ((xs.drop p).take (q - p)) (xs.drop q)
      (by intro h0; rw [h0] at e2; simp at e2; omega) hbuf
    rw [e1, e2, e3] at hact
    refine Post.bind hact ?_ ?_
    · rintro _ m2 ⟨_, hb2, hk2⟩
      have hlen : (xs.take p ++ xs.drop q).length = xs.length - (q - p) := by simp; omega
      have hb2' : m2.buf = View.set m1.buf (regionOf cfg c w)
          (lives (xs.take p ++ xs.drop q) ++ raws (cfg.ops.capacity w - (xs.take p ++ xs.drop q).length)) := by
        rw [hb2, List.append_assoc, raws_append, lives_app, hlen]
        congr 3; omega
      have hst2 := h.store.set hb2' (by simp; omega) hk2
      rw [h.size]
      refine Post.bind (setSize_commit L _ hlen.symm hst2 (by omega)
        ((FrameG.refl c _ m1).elem (Or.inl rfl) (h.isSome (by omega)) hb2' hk2)) ?_ ?_
      · rintro _ m3 ⟨⟨_, hrep⟩, hfr⟩
        exact Post.pure ⟨Or.inl ⟨rfl, hrep⟩, hfr⟩
      · rintro e m3 ⟨⟨he, _⟩, _⟩; cases he
    · rintro e m2 ⟨he, _⟩; cases he
/-- the argument of an insertion into container `c` denotes the value `v` (the lift of `RefOK` to `Arg`) -/
def ArgOK (cfg : Cfg) (c : Nat) (m : Mem α) (w : VB) (xs : List α) : Arg α → α → Prop
  | .copy ref, v => RefOK cfg c m w xs ref v
  | .move x, v => x = v

theorem getElem?_lt' {γ : Type} {l : List γ} {i : Nat} {x : γ} (h : l[i]? = some x) : i < l.length := by
  rcases Nat.lt_or_ge i l.length with h1 | h1
  · exact h1
  · simp [List.getElem?_eq_none h1] at h

/-- a valid argument reference, re-addressed by `address_after_shift`, lies outside the one-slot window at `p` of the
    shifted buffer: an aliasing index `i < p` stays, an index `i ≥ p` moves to `i + 1` -/
theorem RefOK.afterShift {cfg : Cfg} {c : Nat} {m : Mem α} {w : VB} {xs : List α} {ref : Ref α} {v : α}
    (h : RefOK cfg c m w xs ref v) (p : Nat) (hp : p ≤ xs.length) (post b' : List (Slot α)) :
    RefIn (View.set m.buf (regionOf cfg c w) b') (regionOf cfg c w) (lives (xs.take p)) (lives (xs.drop p) ++ post) 1
      (addressAfterShift ref ⟨regionOf cfg c w, p⟩ (xs.length - p) 1) v := by
  cases ref with
  | lit x => exact h
  | «at» a =>
    rcases h with ⟨hr, hx⟩ | ⟨hr, _, b, hb, hbv⟩
    · have hlt := getElem?_lt' hx
      by_cases hi : a.i < p
      · have hcond : (a.r == regionOf cfg c w && decide (p ≤ a.i) && decide (a.i < p + (xs.length - p))) = false := by
          simp; intro _ h2; omega
        simp only [addressAfterShift, hcond, Bool.false_eq_true, ↓reduceIte]
        refine Or.inr (Or.inl ⟨hr, lives_get _ _ _ ?_⟩)
        rw [List.getElem?_take, if_pos hi]; exact hx
      · have hcond : (a.r == regionOf cfg c w && decide (p ≤ a.i) && decide (a.i < p + (xs.length - p))) = true := by
          simp [hr]; omega
        simp only [addressAfterShift, hcond, ↓reduceIte]
        refine Or.inr (Or.inr ⟨hr, a.i - p, by simp; omega, ?_⟩)
        rw [List.getElem?_append_left (by simp; omega)]
        refine lives_get _ _ _ ?_
        rw [List.getElem?_drop, show p + (a.i - p) = a.i by omega]; exact hx
    · have hcond : (a.r == regionOf cfg c w && decide (p ≤ a.i) && decide (a.i < p + (xs.length - p))) = false := by
        simp [hr]
      simp only [addressAfterShift, hcond, Bool.false_eq_true, ↓reduceIte]
      exact Or.inl ⟨hr, b, by rw [View.set_other _ _ _ _ hr]; exact hb, hbv⟩

/-- a valid argument reference lies outside the empty window at `p` -/
theorem RefOK.refIn0 {cfg : Cfg} {c : Nat} {m : Mem α} {w : VB} {xs : List α} {ref : Ref α} {v : α}
    (h : RefOK cfg c m w xs ref v) (p : Nat) (hp : p ≤ xs.length) (post : List (Slot α)) :
    RefIn m.buf (regionOf cfg c w) (lives (xs.take p)) (lives (xs.drop p) ++ post) 0 ref v := by
  cases ref with
  | lit x => exact h
  | «at» a =>
    rcases h with ⟨hr, hx⟩ | ⟨hr, _, b, hb, hbv⟩
    · have hlt := getElem?_lt' hx
      by_cases hi : a.i < p
      · refine Or.inr (Or.inl ⟨hr, lives_get _ _ _ ?_⟩)
        rw [List.getElem?_take, if_pos hi]; exact hx
      · refine Or.inr (Or.inr ⟨hr, a.i - p, by simp; omega, ?_⟩)
        rw [List.getElem?_append_left (by simp; omega)]
        refine lives_get _ _ _ ?_
        rw [List.getElem?_drop, show p + (a.i - p) = a.i by omega]; exact hx
    · exact Or.inl ⟨hr, b, hb, hbv⟩

/-- committing `incrSize` once the buffer holds `xs'` (one more element than the size word says) followed by raw slots -/
theorem incrSize_commit {cfg : Cfg} {Ok : VB → Prop} (L : VecLaws α cfg Ok) {m0 m : Mem α} {r0 : Region} {c : Nat} {w : VB}
    {xs' : List α} (hst : Store cfg Ok c m w (lives xs' ++ raws (cfg.ops.capacity w - xs'.length)))
    (hsz : cfg.ops.size w + 1 = xs'.length) (hle : xs'.length ≤ cfg.ops.capacity w) (hfr : FrameG c r0 m0 m) :
    Post (incrSize cfg c) m (fun res m' => (res = .ok () ∧ VRep cfg Ok c m' xs') ∧ FrameG c r0 m0 m') := by
  refine Post.mono (incrSize_post cfg m c w hst.ws) ?_
  rintro res m' ⟨hr, rfl⟩
  have hl := L.size.incr w hst.ok (by omega)
  exact ⟨⟨hr, _, VRepW.commit hst hl.1 hl.2.2.2 hl.2.2.1 (by omega)⟩, hfr.withWs _⟩

theorem lives_insert (xs : List α) (p : Nat) (v : α) (rest : List (Slot α)) :
    lives (xs.take p) ++ .live v :: lives (xs.drop p) ++ rest = lives (xs.take p ++ v :: xs.drop p) ++ rest := by
  simp [lives]

/-- the part of `insert(pos, v)` after the capacity adjustment -/
theorem insert_tail {cfg : Cfg} {Ok : VB → Prop} (L : VecLaws α cfg Ok) {m0 : Mem α} {r0 : Region} (m1 : Mem α) (c : Nat)
    (xs : List α) (w' : VB) (p : Nat) (hp : p ≤ xs.length) (arg' : Arg α) (v : α)
    (hw' : VRepW cfg Ok c m1 xs w') (hcap : xs.length + 1 ≤ cfg.ops.capacity w') (hv' : ArgOK cfg c m1 w' xs arg' v)
    (hfr : FrameG c r0 m0 m1) (hreg : regionOf cfg c w' = r0 ∨ ∃ id, regionOf cfg c w' = .blk id ∧ m0.nextId ≤ id) :
    Post (do
        let pos ← posAddr cfg c p
        let nShift := (← vsize cfg c) - p
        let v'' := match arg' with
          | .copy r => Arg.copy (addressAfterShift r pos nShift 1)
          | .move x => Arg.move x
        insertN pos nShift v''
        incrSize cfg c
        pure p) m1
      (fun res m' => ((res = .ok p ∧ VRep cfg Ok c m' (xs.take p ++ v :: xs.drop p)) ∨
          (∃ e, res = .error (.exc e) ∧ VRep cfg Ok c m' xs)) ∧ FrameG c r0 m0 m') := by
  refine Post.bind (posAddr_post cfg m1 c w' p hw'.ws) ?_ (by okerr)
  rintro a m2 ⟨ha, rfl⟩; injection ha with ha; subst ha
  refine Post.bind (vsize_post cfg m2 c w' hw'.ws) ?_ (by okerr)
  rintro sz m3 ⟨hsz, rfl⟩; injection hsz with hsz; subst hsz
  rw [hw'.size]
  have hbuf : m3.buf (regionOf cfg c w') = some (lives (xs.take p) ++ lives (xs.drop p) ++
      .raw :: raws (cfg.ops.capacity w' - (xs.length + 1))) := by
    rcases hw'.buf with h0 | hb
    · omega
    · rw [hb, raws_succ_sub _ _ hcap, ← lives_take_drop]
  have e1 : (lives (xs.take p)).length = p := by simp; omega
  have e2 : (xs.drop p).length = xs.length - p := by simp
  have key : ∀ arg'' : Arg α,
      (∀ g : Slot α, ArgIn (View.set m3.buf (regionOf cfg c w')
        (lives (xs.take p) ++ g :: lives (xs.drop p) ++ raws (cfg.ops.capacity w' - (xs.length + 1))))
        (regionOf cfg c w') (lives (xs.take p)) (lives (xs.drop p) ++ raws (cfg.ops.capacity w' - (xs.length + 1))) 1 arg'' v) →
      Post (do insertN ⟨regionOf cfg c w', p⟩ (xs.length - p) arg''; incrSize cfg c; pure p) m3
        (fun res m' => ((res = .ok p ∧ VRep cfg Ok c m' (xs.take p ++ v :: xs.drop p)) ∨
          (∃ e, res = .error (.exc e) ∧ VRep cfg Ok c m' xs)) ∧ FrameG c r0 m0 m') := by
    intro arg'' ha
    have hact := insertN_post m3 (regionOf cfg c w') (lives (xs.take p)) _ (xs.drop p) arg'' v hbuf ha
    rw [e1, e2] at hact
    refine Post.bind hact ?_ ?_
    · rintro _ m4 ⟨hq, hk4⟩
      rcases hq with ⟨_, hb4⟩ | ⟨he, _⟩
      · rw [lives_insert] at hb4
        have hlen : (xs.take p ++ v :: xs.drop p).length = xs.length + 1 := by simp; omega
        rw [← hlen] at hb4
        have hst4 := hw'.store.set hb4 (by simp; omega) hk4
        refine Post.bind (incrSize_commit L hst4 (by rw [hw'.size, hlen]) (by omega)
          (hfr.elem hreg (hw'.isSome (by omega)) hb4 hk4)) ?_ ?_
        · rintro _ m5 ⟨⟨_, hrep⟩, hfr5⟩
          exact Post.pure ⟨Or.inl ⟨rfl, hrep⟩, hfr5⟩
        · rintro e m5 ⟨⟨he, _⟩, _⟩; cases he
      · cases he
    · rintro e m4 ⟨hq, hk4⟩
      rcases hq with ⟨he, _⟩ | ⟨he, hb4⟩
      · cases he
      · injection he with he; subst he
        have hs4 : Same m3 m4 := ⟨hb4, hk4⟩
        exact ⟨Or.inr ⟨_, rfl, w', hw'.ofSame hs4⟩, hfr.same hs4⟩
  cases arg' with
  | copy ref =>
    refine key _ ?_
    intro g
    exact RefOK.afterShift hv' p hp _ _
  | move x => exact key _ (fun g => hv')

/-- `insert(pos, v)`: strong guarantee; the argument may alias an element of the container -/
theorem insertOne_post {cfg : Cfg} {Ok : VB → Prop} (L : VecLaws α cfg Ok) (m : Mem α) (c : Nat) (xs : List α) (w : VB)
    (h : VRepW cfg Ok c m xs w) (hf : Fresh m) (p : Nat) (hp : p ≤ xs.length) (arg : Arg α) (v : α)
    (hv : ArgOK cfg c m w xs arg v) :
    Post (insertOne cfg c p arg) m (StrongPost cfg Ok c m w xs (xs.take p ++ v :: xs.drop p) p) := by
  unfold insertOne
  refine Post.bind (vsize_post cfg m c w h.ws) ?_ (by okerr)
  rintro sz m0 ⟨hsz, rfl⟩; injection hsz with hsz; subst hsz
  rw [h.size]
  cases arg with
  | copy ref =>
    dsimp only
    refine Post.bind (adjustCapacityRef_post L m0 c xs w (xs.length + 1) ref v h hf hv) ?_ ?_
    · rintro ref' m1 ⟨hq, hfr⟩
      rcases hq with ⟨ref'', hr, w', ⟨hw', hcap, hreg⟩, hv'⟩ | ⟨e, he, _⟩
      · injection hr with hr; subst hr
        refine Post.bind (Q1 := fun res m' => res = .ok (Arg.copy ref') ∧ m' = m1) ⟨rfl, rfl⟩ ?_ (by okerr)
        rintro arg' m2 ⟨ha, rfl⟩; injection ha with ha; subst ha
        exact insert_tail L m2 c xs w' p hp (.copy ref') v hw' hcap hv' hfr hreg
      · cases he
    · rintro e m1 ⟨hq, hfr⟩
      rcases hq with ⟨_, he, _⟩ | ⟨e', he, hw', _⟩
      · cases he
      · injection he with he; subst he
        exact ⟨Or.inr ⟨e', rfl, w, hw'⟩, hfr⟩
  | move x =>
    dsimp only
    refine Post.bind (adjustCapacity_post L m0 c xs w (xs.length + 1) h hf) ?_ ?_
    · rintro _ m1 ⟨hq, hfr⟩
      rcases hq with ⟨_, w', ⟨hw', hcap, hreg⟩⟩ | ⟨e, he, _⟩
      · refine Post.bind (Q1 := fun res m' => res = .ok (Arg.move x) ∧ m' = m1) ⟨rfl, rfl⟩ ?_ (by okerr)
        rintro arg' m2 ⟨ha, rfl⟩; injection ha with ha; subst ha
        exact insert_tail L m2 c xs w' p hp (.move x) v hw' hcap hv hfr hreg
      · cases he
    · rintro e m1 ⟨hq, hfr⟩
      rcases hq with ⟨he, _⟩ | ⟨e', he, hw', _⟩
      · cases he
      · injection he with he; subst he
        exact ⟨Or.inr ⟨e', rfl, w, hw'⟩, hfr⟩
end AmcVerif
