import AmcVerif.Lemmas.VecOpsA
import AmcVerif.Lemmas.HelperPosts
/-! Container-level theorems for the vector operations that shift elements: `erase(pos)`, `erase(first, last)`,
`insert(pos, v)`, `emplace(pos, args...)`, `emplace_back(args...)`. Same shape as `VecOpsA.lean`: from
`VRepW cfg Ok c m xs w` the operation ends in `StrongPost` (success with exactly the new contents, or an exception with the
contents unchanged; never a lifetime fault). -/
namespace AmcVerif
variable {α : Type}

theorem OpsB.lives_app (xs ys : List α) : lives (xs ++ ys) = lives xs ++ lives ys := by simp [lives]
open OpsB

theorem OpsB.lives_take_drop (xs : List α) (p : Nat) : lives xs = lives (xs.take p) ++ lives (xs.drop p) := by
  rw [← lives_app, List.take_append_drop]

/-- `erase(pos)` -/
theorem eraseOne_post {cfg : Cfg} {Ok : VB → Prop} (L : VecLaws α cfg Ok) (m : Mem α) (c : Nat) (xs : List α) (w : VB)
    (h : VRepW cfg Ok c m xs w) (_hf : Fresh m) (p : Nat) (hp : p < xs.length) :
    Post (eraseOne cfg c p) m (StrongPost cfg Ok c m w xs (xs.eraseIdx p) p) := by
  have hle := h.le
  unfold eraseOne
  refine Post.bind (vsize_post cfg m c w h.ws) ?_ (by okerr)
  rintro sz m0 ⟨hsz, rfl⟩; injection hsz with hsz; subst hsz
  refine Post.bind (posAddr_post cfg m0 c w p h.ws) ?_ (by okerr)
  rintro a m1 ⟨ha, rfl⟩; injection ha with ha; subst ha
  rw [List.eraseIdx_eq_take_drop_succ]
  have hl : lives xs = lives (xs.take p) ++ .live xs[p] :: lives (xs.drop (p + 1)) := by
    conv => lhs; rw [← List.take_append_drop p xs, List.drop_eq_getElem_cons hp]
    rw [lives_app]; rfl
  have hbuf : m1.buf (regionOf cfg c w) = some (lives (xs.take p) ++ .live xs[p] :: lives (xs.drop (p + 1))
      ++ raws (cfg.ops.capacity w - xs.length)) := by
    rcases h.buf with h0 | hb
    · omega
    · rw [hb, hl]
  have e1 : (lives (xs.take p)).length = p := by simp; omega
  have e2 : (xs.drop (p + 1)).length = cfg.ops.size w - p - 1 := by simp [h.size]; omega
  have hact := eraseAt_post m1 (regionOf cfg c w) (lives (xs.take p)) _ xs[p] (xs.drop (p + 1)) hbuf
  rw [e1, e2] at hact
  refine Post.bind hact ?_ ?_
  · rintro _ m2 ⟨_, hb2, hk2⟩
    have hws2 : m2.ws[c]? = some w := by rw [hk2.ws]; exact h.ws
    refine Post.bind (decrSize_post cfg m2 c w hws2) ?_ (by okerr)
    rintro _ m3 ⟨_, rfl⟩
    have hl3 := L.size.decr w h.ok (by rw [h.size]; omega)
    have hlen : (xs.take p ++ xs.drop (p + 1)).length + 1 = xs.length := by simp; omega
    have hb2' : m2.buf = View.set m1.buf (regionOf cfg c w)
        (lives (xs.take p ++ xs.drop (p + 1)) ++ raws (cfg.ops.capacity w - (xs.take p ++ xs.drop (p + 1)).length)) := by
      rw [hb2, raws_succ_sub (cfg.ops.capacity w) (xs.take p ++ xs.drop (p + 1)).length (by omega)]
      rw [show (xs.take p ++ xs.drop (p + 1)).length + 1 = xs.length from hlen]
      simp [lives]
    have hst2 := h.store.set hb2' (by simp; omega) hk2
    refine Post.pure ⟨Or.inl ⟨rfl, _, VRepW.commit hst2 hl3.1 hl3.2.2.2 hl3.2.2.1 (by rw [h.size] at hl3; omega)⟩, ?_⟩
    exact ((FrameL.refl cfg c _ m1).elem (Or.inl rfl) (h.isSome (by omega)) hb2' hk2).withWs _ hws2 hl3.2.2.2 hl3.2.2.1
  · rintro e m2 ⟨he, _⟩; cases he

/-- `erase(first, last)` -/
theorem eraseRange_post {cfg : Cfg} {Ok : VB → Prop} (L : VecLaws α cfg Ok) (m : Mem α) (c : Nat) (xs : List α) (w : VB)
    (h : VRepW cfg Ok c m xs w) (_hf : Fresh m) (p q : Nat) (hpq : p ≤ q) (hq : q ≤ xs.length) :
    Post (eraseRange cfg c p q) m (StrongPost cfg Ok c m w xs (xs.take p ++ xs.drop q) p) := by
  have hle := h.le
  unfold eraseRange
  refine Post.bind (vsize_post cfg m c w h.ws) ?_ (by okerr)
  rintro sz m0 ⟨hsz, rfl⟩; injection hsz with hsz; subst hsz
  by_cases hn : q - p = 0
  · have : q = p := by omega
    subst this
    simp only [Nat.sub_self, ne_eq, not_true_eq_false, ↓reduceIte, List.take_append_drop]
    exact ⟨Or.inl ⟨rfl, w, h⟩, FrameL.refl _ _ _ _⟩
  · simp only [ne_eq, hn, not_false_eq_true, ↓reduceIte]
    refine Post.bind (posAddr_post cfg m0 c w p h.ws) ?_ (by okerr)
    rintro a m1 ⟨ha, rfl⟩; injection ha with ha; subst ha
    have hl : lives xs = lives (xs.take p) ++ lives ((xs.drop p).take (q - p)) ++ lives (xs.drop q) := by
      conv => lhs; rw [← List.take_append_drop p xs, ← List.take_append_drop (q - p) (xs.drop p)]
      rw [lives_app, lives_app, List.drop_drop, show p + (q - p) = q by omega, List.append_assoc]
    have hbuf : m1.buf (regionOf cfg c w) = some (lives (xs.take p) ++ lives ((xs.drop p).take (q - p)) ++ lives (xs.drop q)
        ++ raws (cfg.ops.capacity w - xs.length)) := by
      rcases h.buf with h0 | hb
      · omega
      · rw [hb, hl]
    have e1 : (lives (xs.take p)).length = p := by simp; omega
    have e2 : ((xs.drop p).take (q - p)).length = q - p := by simp; omega
    have e3 : (xs.drop q).length = cfg.ops.size w - q := by simp [h.size]
    have hact := eraseN_post m1 (regionOf cfg c w) (lives (xs.take p)) _ ((xs.drop p).take (q - p)) (xs.drop q)
      (by intro h0; rw [h0] at e2; simp at e2; omega) hbuf
    rw [e1, e2, e3] at hact
    refine Post.bind hact ?_ ?_
    · rintro _ m2 ⟨_, hb2, hk2⟩
      have hlen : (xs.take p ++ xs.drop q).length = xs.length - (q - p) := by simp; omega
      have hb2' : m2.buf = View.set m1.buf (regionOf cfg c w)
          (lives (xs.take p ++ xs.drop q) ++ raws (cfg.ops.capacity w - (xs.take p ++ xs.drop q).length)) := by
        rw [hb2, List.append_assoc, raws_append, lives_app, hlen]
        congr 3; omega
      have hst2 := h.store.set hb2' (by simp; omega) hk2
      rw [h.size]
      refine Post.bind (setSize_commit L _ hlen.symm hst2 (by omega)
        ((FrameL.refl cfg c _ m1).elem (Or.inl rfl) (h.isSome (by omega)) hb2' hk2)) ?_ ?_
      · rintro _ m3 ⟨⟨_, hrep⟩, hfr⟩
        exact Post.pure ⟨Or.inl ⟨rfl, hrep⟩, hfr⟩
      · rintro e m3 ⟨⟨he, _⟩, _⟩; cases he
    · rintro e m2 ⟨he, _⟩; cases he
/-- the argument of an insertion into container `c` denotes the value `v` (the lift of `RefOK` to `Arg`) -/
def ArgOK (cfg : Cfg) (c : Nat) (m : Mem α) (w : VB) (xs : List α) : Arg α → α → Prop
  | .copy ref, v => RefOK cfg c m w xs ref v
  | .move x, v => x = v

theorem OpsB.getElem?_lt' {γ : Type} {l : List γ} {i : Nat} {x : γ} (h : l[i]? = some x) : i < l.length := by
  rcases Nat.lt_or_ge i l.length with h1 | h1
  · exact h1
  · simp [List.getElem?_eq_none h1] at h

/-- a valid argument reference, re-addressed by `address_after_shift`, lies outside the one-slot window at `p` of the
    shifted buffer: an aliasing index `i < p` stays, an index `i ≥ p` moves to `i + 1` -/
theorem RefOK.afterShift {cfg : Cfg} {c : Nat} {m : Mem α} {w : VB} {xs : List α} {ref : Ref α} {v : α}
    (h : RefOK cfg c m w xs ref v) (p : Nat) (hp : p ≤ xs.length) (post b' : List (Slot α)) :
    RefIn (View.set m.buf (regionOf cfg c w) b') (regionOf cfg c w) (lives (xs.take p)) (lives (xs.drop p) ++ post) 1
      (addressAfterShift ref ⟨regionOf cfg c w, p⟩ (xs.length - p) 1) v := by
  cases ref with
  | lit x => exact h
  | «at» a =>
    rcases h with ⟨hr, hx⟩ | ⟨hr, _, b, hb, hbv⟩
    · have hlt := getElem?_lt' hx
      by_cases hi : a.i < p
      · have hcond : (a.r == regionOf cfg c w && decide (p ≤ a.i) && decide (a.i < p + (xs.length - p))) = false := by
          simp; intro _ h2; omega
        simp only [addressAfterShift, hcond, Bool.false_eq_true, ↓reduceIte]
        refine Or.inr (Or.inl ⟨hr, lives_get _ _ _ ?_⟩)
        rw [List.getElem?_take, if_pos hi]; exact hx
      · have hcond : (a.r == regionOf cfg c w && decide (p ≤ a.i) && decide (a.i < p + (xs.length - p))) = true := by
          simp [hr]; omega
        simp only [addressAfterShift, hcond, ↓reduceIte]
        refine Or.inr (Or.inr ⟨hr, a.i - p, by simp; omega, ?_⟩)
        rw [List.getElem?_append_left (by simp; omega)]
        refine lives_get _ _ _ ?_
        rw [List.getElem?_drop, show p + (a.i - p) = a.i by omega]; exact hx
    · have hcond : (a.r == regionOf cfg c w && decide (p ≤ a.i) && decide (a.i < p + (xs.length - p))) = false := by
        simp [hr]
      simp only [addressAfterShift, hcond, Bool.false_eq_true, ↓reduceIte]
      exact Or.inl ⟨hr, b, by rw [View.set_other _ _ _ _ hr]; exact hb, hbv⟩

/-- a valid argument reference lies outside the empty window at `p` -/
theorem RefOK.refIn0 {cfg : Cfg} {c : Nat} {m : Mem α} {w : VB} {xs : List α} {ref : Ref α} {v : α}
    (h : RefOK cfg c m w xs ref v) (p : Nat) (hp : p ≤ xs.length) (post : List (Slot α)) :
    RefIn m.buf (regionOf cfg c w) (lives (xs.take p)) (lives (xs.drop p) ++ post) 0 ref v := by
  cases ref with
  | lit x => exact h
  | «at» a =>
    rcases h with ⟨hr, hx⟩ | ⟨hr, _, b, hb, hbv⟩
    · have hlt := getElem?_lt' hx
      by_cases hi : a.i < p
      · refine Or.inr (Or.inl ⟨hr, lives_get _ _ _ ?_⟩)
        rw [List.getElem?_take, if_pos hi]; exact hx
      · refine Or.inr (Or.inr ⟨hr, a.i - p, by simp; omega, ?_⟩)
        rw [List.getElem?_append_left (by simp; omega)]
        refine lives_get _ _ _ ?_
        rw [List.getElem?_drop, show p + (a.i - p) = a.i by omega]; exact hx
    · exact Or.inl ⟨hr, b, hb, hbv⟩

/-- committing `incrSize` once the buffer holds `xs'` (one more element than the size word says) followed by raw slots -/
theorem OpsB.incrSize_commit {cfg : Cfg} {Ok : VB → Prop} (L : VecLaws α cfg Ok) {m0 m : Mem α} {r0 : Region} {c : Nat} {w : VB}
    {xs' : List α} (hst : Store cfg Ok c m w (lives xs' ++ raws (cfg.ops.capacity w - xs'.length)))
    (hsz : cfg.ops.size w + 1 = xs'.length) (hle : xs'.length ≤ cfg.ops.capacity w) (hfr : FrameL cfg c r0 m0 m) :
    Post (incrSize cfg c) m (fun res m' => (res = .ok () ∧ VRep cfg Ok c m' xs') ∧ FrameL cfg c r0 m0 m') := by
  refine Post.mono (incrSize_post cfg m c w hst.ws) ?_
  rintro res m' ⟨hr, rfl⟩
  have hl := L.size.incr w hst.ok (by omega)
  exact ⟨⟨hr, _, VRepW.commit hst hl.1 hl.2.2.2 hl.2.2.1 (by omega)⟩, hfr.withWs _ hst.ws hl.2.2.2 hl.2.2.1⟩

theorem OpsB.lives_insert (xs : List α) (p : Nat) (v : α) (rest : List (Slot α)) :
    lives (xs.take p) ++ .live v :: lives (xs.drop p) ++ rest = lives (xs.take p ++ v :: xs.drop p) ++ rest := by
  simp [lives]

/-- the part of `insert(pos, v)` after the capacity adjustment -/
theorem insert_tail {cfg : Cfg} {Ok : VB → Prop} (L : VecLaws α cfg Ok) {m0 : Mem α} {r0 : Region} (m1 : Mem α) (c : Nat)
    (xs : List α) (w' : VB) (p : Nat) (hp : p ≤ xs.length) (arg' : Arg α) (v : α)
    (hw' : VRepW cfg Ok c m1 xs w') (hcap : xs.length + 1 ≤ cfg.ops.capacity w') (hv' : ArgOK cfg c m1 w' xs arg' v)
    (hfr : FrameL cfg c r0 m0 m1) (hreg : regionOf cfg c w' = r0 ∨ ∃ id, regionOf cfg c w' = .blk id ∧ m0.nextId ≤ id) :
    Post (do
        let pos ← posAddr cfg c p
        let nShift := (← vsize cfg c) - p
        let v'' := match arg' with
          | .copy r => Arg.copy (addressAfterShift r pos nShift 1)
          | .move x => Arg.move x
        insertN pos nShift v''
        incrSize cfg c
        pure p) m1
      (fun res m' => ((res = .ok p ∧ VRep cfg Ok c m' (xs.take p ++ v :: xs.drop p)) ∨
          (∃ e, res = .error (.exc e) ∧ VRep cfg Ok c m' xs)) ∧ FrameL cfg c r0 m0 m') := by
  refine Post.bind (posAddr_post cfg m1 c w' p hw'.ws) ?_ (by okerr)
  rintro a m2 ⟨ha, rfl⟩; injection ha with ha; subst ha
  refine Post.bind (vsize_post cfg m2 c w' hw'.ws) ?_ (by okerr)
  rintro sz m3 ⟨hsz, rfl⟩; injection hsz with hsz; subst hsz
  rw [hw'.size]
  have hbuf : m3.buf (regionOf cfg c w') = some (lives (xs.take p) ++ lives (xs.drop p) ++
      .raw :: raws (cfg.ops.capacity w' - (xs.length + 1))) := by
    rcases hw'.buf with h0 | hb
    · omega
    · rw [hb, raws_succ_sub _ _ hcap, ← lives_take_drop]
  have e1 : (lives (xs.take p)).length = p := by simp; omega
  have e2 : (xs.drop p).length = xs.length - p := by simp
  have key : ∀ arg'' : Arg α,
      (∀ g : Slot α, ArgIn (View.set m3.buf (regionOf cfg c w')
        (lives (xs.take p) ++ g :: lives (xs.drop p) ++ raws (cfg.ops.capacity w' - (xs.length + 1))))
        (regionOf cfg c w') (lives (xs.take p)) (lives (xs.drop p) ++ raws (cfg.ops.capacity w' - (xs.length + 1))) 1 arg'' v) →
      Post (do insertN ⟨regionOf cfg c w', p⟩ (xs.length - p) arg''; incrSize cfg c; pure p) m3
        (fun res m' => ((res = .ok p ∧ VRep cfg Ok c m' (xs.take p ++ v :: xs.drop p)) ∨
          (∃ e, res = .error (.exc e) ∧ VRep cfg Ok c m' xs)) ∧ FrameL cfg c r0 m0 m') := by
    intro arg'' ha
    have hact := insertN_post m3 (regionOf cfg c w') (lives (xs.take p)) _ (xs.drop p) arg'' v hbuf ha
    rw [e1, e2] at hact
    refine Post.bind hact ?_ ?_
    · rintro _ m4 ⟨hq, hk4⟩
      rcases hq with ⟨_, hb4⟩ | ⟨he, _⟩
      · rw [lives_insert] at hb4
        have hlen : (xs.take p ++ v :: xs.drop p).length = xs.length + 1 := by simp; omega
        rw [← hlen] at hb4
        have hst4 := hw'.store.set hb4 (by simp; omega) hk4
        refine Post.bind (incrSize_commit L hst4 (by rw [hw'.size, hlen]) (by omega)
          (hfr.elem hreg (hw'.isSome (by omega)) hb4 hk4)) ?_ ?_
        · rintro _ m5 ⟨⟨_, hrep⟩, hfr5⟩
          exact Post.pure ⟨Or.inl ⟨rfl, hrep⟩, hfr5⟩
        · rintro e m5 ⟨⟨he, _⟩, _⟩; cases he
      · cases he
    · rintro e m4 ⟨hq, hk4⟩
      rcases hq with ⟨he, _⟩ | ⟨he, hb4⟩
      · cases he
      · injection he with he; subst he
        have hs4 : Same m3 m4 := ⟨hb4, hk4⟩
        exact ⟨Or.inr ⟨_, rfl, w', hw'.ofSame hs4⟩, hfr.same hs4⟩
  cases arg' with
  | copy ref =>
    refine key _ ?_
    intro g
    exact RefOK.afterShift hv' p hp _ _
  | move x => exact key _ (fun g => hv')

/-- `insert(pos, v)`: strong guarantee; the argument may alias an element of the container -/
theorem insertOne_post {cfg : Cfg} {Ok : VB → Prop} (L : VecLaws α cfg Ok) (m : Mem α) (c : Nat) (xs : List α) (w : VB)
    (h : VRepW cfg Ok c m xs w) (hf : Fresh m) (p : Nat) (hp : p ≤ xs.length) (arg : Arg α) (v : α)
    (hv : ArgOK cfg c m w xs arg v) :
    Post (insertOne cfg c p arg) m (StrongPost cfg Ok c m w xs (xs.take p ++ v :: xs.drop p) p) := by
  unfold insertOne
  refine Post.bind (vsize_post cfg m c w h.ws) ?_ (by okerr)
  rintro sz m0 ⟨hsz, rfl⟩; injection hsz with hsz; subst hsz
  rw [h.size]
  cases arg with
  | copy ref =>
    dsimp only
    refine Post.bind (adjustCapacityRef_post L m0 c xs w (xs.length + 1) ref v h hf hv) ?_ ?_
    · rintro ref' m1 ⟨hq, hfr⟩
      rcases hq with ⟨ref'', hr, w', ⟨hw', hcap, hreg⟩, hv'⟩ | ⟨e, he, _⟩
      · injection hr with hr; subst hr
        refine Post.bind (Q1 := fun res m' => res = .ok (Arg.copy ref') ∧ m' = m1) ⟨rfl, rfl⟩ ?_ (by okerr)
        rintro arg' m2 ⟨ha, rfl⟩; injection ha with ha; subst ha
        exact insert_tail L m2 c xs w' p hp (.copy ref') v hw' hcap hv' hfr hreg
      · cases he
    · rintro e m1 ⟨hq, hfr⟩
      rcases hq with ⟨_, he, _⟩ | ⟨e', he, hw', _⟩
      · cases he
      · injection he with he; subst he
        exact ⟨Or.inr ⟨e', rfl, w, hw'⟩, hfr⟩
  | move x =>
    dsimp only
    refine Post.bind (adjustCapacity_post L m0 c xs w (xs.length + 1) h hf) ?_ ?_
    · rintro _ m1 ⟨hq, hfr⟩
      rcases hq with ⟨_, w', ⟨hw', hcap, hreg⟩⟩ | ⟨e, he, _⟩
      · refine Post.bind (Q1 := fun res m' => res = .ok (Arg.move x) ∧ m' = m1) ⟨rfl, rfl⟩ ?_ (by okerr)
        rintro arg' m2 ⟨ha, rfl⟩; injection ha with ha; subst ha
        exact insert_tail L m2 c xs w' p hp (.move x) v hw' hcap hv hfr hreg
      · cases he
    · rintro e m1 ⟨hq, hfr⟩
      rcases hq with ⟨he, _⟩ | ⟨e', he, hw', _⟩
      · cases he
      · injection he with he; subst he
        exact ⟨Or.inr ⟨e', rfl, w, hw'⟩, hfr⟩

/-! ### the stack temporary of `emplace` -/

theorem OpsB.regionOf_ne_tmp (cfg : Cfg) (c : Nat) (w : VB) : regionOf cfg c w ≠ .tmp := by
  unfold regionOf resolve
  split <;> simp

/-- `FrameL` up to the stack temporary: what an `emplace` on container `c` leaves alone while the temporary is in use -/
structure FrameT (cfg : Cfg) (c : Nat) (r : Region) (m m' : Mem α) : Prop where
  cat : m'.cat = m.cat
  hr : m'.hasRealloc = m.hasRealloc
  wsLen : m'.ws.length = m.ws.length
  wsOther : ∀ c', c' ≠ c → m'.ws[c']? = m.ws[c']?
  nid : m.nextId ≤ m'.nextId
  fresh : Fresh m → Fresh m'
  bufOther : ∀ r', r' ≠ r → r' ≠ .tmp → (∀ id, r' = .blk id → id < m.nextId) → m'.buf r' = m.buf r'
  cntOther : ∀ id, Region.blk id ≠ r → id < m.nextId → m'.cnt id = m.cnt id
  noLeak : NoLeak cfg c m m'

theorem FrameL.toT {cfg : Cfg} {c : Nat} {r : Region} {m m' : Mem α} (h : FrameL cfg c r m m') : FrameT cfg c r m m' :=
  ⟨h.cat, h.hr, h.wsLen, h.wsOther, h.nid, h.fresh, fun r' hne _ hold => h.bufOther r' hne hold, h.cntOther, h.noLeak⟩

/-- the temporary holds at the end what it held at the start: the whole operation is framed -/
theorem FrameT.toG {cfg : Cfg} {c : Nat} {r : Region} {m m' : Mem α} (h : FrameT cfg c r m m') (ht : m'.buf .tmp = m.buf .tmp) :
    FrameL cfg c r m m' := by
  refine ⟨⟨h.cat, h.hr, h.wsLen, h.wsOther, h.nid, h.fresh, ?_, h.cntOther⟩, h.noLeak⟩
  intro r' hne hold
  by_cases htmp : r' = .tmp
  · subst htmp; exact ht
  · exact h.bufOther r' hne htmp hold

/-- an element-level effect on the temporary and/or the (possibly fresh) region of container `c`, after a framed prefix -/
theorem FrameT.step {cfg : Cfg} {c : Nat} {r0 r1 : Region} {m m1 m2 : Mem α} (h : FrameT cfg c r0 m m1)
    (hreg : r1 = r0 ∨ ∃ id, r1 = .blk id ∧ m.nextId ≤ id) (hk : Keep m1 m2)
    (hsome : ∀ id, (m2.buf (.blk id)).isSome → (m1.buf (.blk id)).isSome)
    (hb : ∀ r', r' ≠ r1 → r' ≠ .tmp → m2.buf r' = m1.buf r') : FrameT cfg c r0 m m2 := by
  refine ⟨hk.cat.trans h.cat, hk.hr.trans h.hr, by rw [hk.ws]; exact h.wsLen, fun c' hc => by rw [hk.ws]; exact h.wsOther c' hc,
    by rw [hk.nid]; exact h.nid, fun hf id hid => by rw [hk.nid]; exact h.fresh hf id (hsome id hid), ?_,
    fun id hne hlt => (hk.cnt id).trans (h.cntOther id hne hlt),
    h.noLeak.step hsome (OwnsBlk.congr (by rw [hk.ws]))⟩
  intro r' hne htmp hold
  have hne1 : r' ≠ r1 := by
    rcases hreg with hreg | ⟨id, hreg, hge⟩
    · rw [hreg]; exact hne
    · intro heq
      have := hold id (heq.trans hreg)
      omega
  rw [hb r' hne1 htmp]
  exact h.bufOther r' hne htmp hold

theorem FrameT.withWs {cfg : Cfg} {c : Nat} {r0 : Region} {m m1 : Mem α} (h : FrameT cfg c r0 m m1) {w1 : VB} (w : VB)
    (hws : m1.ws[c]? = some w1) (hbeg : cfg.ops.begin w = cfg.ops.begin w1) (hcap : cfg.ops.capacity w = cfg.ops.capacity w1) :
    FrameT cfg c r0 m ({ m1 with ws := m1.ws.set c w } : Mem α) :=
  ⟨h.cat, h.hr, by simpa using h.wsLen, fun c' hc => by simpa [List.getElem?_set_ne (Ne.symm hc)] using h.wsOther c' hc,
    h.nid, fun hf => by
      intro id hid
      rw [withWs_buf] at hid
      exact h.fresh hf id hid,
    fun r' hne htmp hold => by rw [withWs_buf]; exact h.bufOther r' hne htmp hold,
    fun id hne hlt => (withWs_cnt _ _ _).trans (h.cntOther id hne hlt),
    h.noLeak.step (fun id hid => by rw [withWs_buf] at hid; exact hid) (OwnsBlk.withWs hws hbeg hcap)⟩

theorem OpsB.tmp_isSome (m : Mem α) : (m.buf .tmp).isSome := rfl

/-- an effect confined to the temporary -/
theorem FrameT.tmp {cfg : Cfg} {c : Nat} {r0 : Region} {m m1 m2 : Mem α} {b : List (Slot α)} (h : FrameT cfg c r0 m m1)
    (hb : m2.buf = View.set m1.buf .tmp b) (hk : Keep m1 m2) : FrameT cfg c r0 m m2 := by
  refine h.step (r1 := r0) (Or.inl rfl) hk ?_ ?_
  · intro id hid; rw [hb, View.set_other _ _ _ _ (by simp)] at hid; exact hid
  · intro r' _ htmp; rw [hb, View.set_other _ _ _ _ htmp]

/-- an effect on the temporary and on the region of the container -/
theorem FrameT.tmpElem {cfg : Cfg} {c : Nat} {r0 r1 : Region} {m m1 m2 : Mem α} {bt b : List (Slot α)} (h : FrameT cfg c r0 m m1)
    (hreg : r1 = r0 ∨ ∃ id, r1 = .blk id ∧ m.nextId ≤ id) (hsome : (m1.buf r1).isSome)
    (hb : m2.buf = View.set (View.set m1.buf .tmp bt) r1 b) (hk : Keep m1 m2) : FrameT cfg c r0 m m2 := by
  refine h.step hreg hk ?_ ?_
  · intro id hid
    rw [hb] at hid
    by_cases h1 : Region.blk id = r1
    · rw [h1]; exact hsome
    · rw [View.set_other _ _ _ _ h1, View.set_other _ _ _ _ (by simp)] at hid; exact hid
  · intro r' h1 htmp; rw [hb, View.set_other _ _ _ _ h1, View.set_other _ _ _ _ htmp]

/-- the container is not affected by what happens in another region (not its inline storage) -/
theorem VRepW.ofOther {cfg : Cfg} {Ok : VB → Prop} {c : Nat} {m m' : Mem α} {xs : List α} {w : VB} {r' : Region}
    {b : List (Slot α)} (h : VRepW cfg Ok c m xs w) (hb : m'.buf = View.set m.buf r' b) (hk : Keep m m')
    (h1 : regionOf cfg c w ≠ r') (h2 : Region.inl c ≠ r') : VRepW cfg Ok c m' xs w := by
  refine ⟨⟨by rw [hk.ws]; exact h.ws, h.ok, h.store.len, ?_, fun id hr hc => by rw [hk.cnt]; exact h.store.cnt id hr hc, ?_⟩, h.size⟩
  · rw [hb, View.set_other _ _ _ _ h1]; exact h.store.buf
  · intro hne hfl
    rw [hb, View.set_other _ _ _ _ h2]; exact h.store.inl hne hfl

theorem VRepW.ofTmp {cfg : Cfg} {Ok : VB → Prop} {c : Nat} {m m' : Mem α} {xs : List α} {w : VB}
    {b : List (Slot α)} (h : VRepW cfg Ok c m xs w) (hb : m'.buf = View.set m.buf .tmp b) (hk : Keep m m') :
    VRepW cfg Ok c m' xs w :=
  h.ofOther hb hk (regionOf_ne_tmp cfg c w) (by simp)

/-- a valid argument can be read -/
theorem ArgOK.toD {cfg : Cfg} {Ok : VB → Prop} {c : Nat} {m : Mem α} {w : VB} {xs : List α} {arg : Arg α} {v : α}
    (h : VRepW cfg Ok c m xs w) (hv : ArgOK cfg c m w xs arg v) : ArgD m arg v := by
  cases arg with
  | move x => exact hv
  | copy ref =>
    cases ref with
    | lit x =>
      have hx : x = v := hv
      subst hx; exact ⟨rfl, rfl⟩
    | «at» a =>
      simp only [ArgD, deref]
      rcases hv with ⟨hr, hx⟩ | ⟨hr, _, b, hb, hbv⟩
      · have hlt := getElem?_lt' hx
        have hle := h.le
        rcases h.buf with h0 | hb
        · omega
        · refine readLive_post m a _ v (hr ▸ hb) ?_
          rw [List.getElem?_append_left (by simpa using hlt)]
          exact lives_get _ _ _ hx
      · exact readLive_post m a b v hb hbv

/-- `growOrDestroy(newElem)` with the new element in the temporary: the container has grown and the temporary still holds
    the element; or growth threw, the container is exactly as before and the temporary has been destroyed -/
theorem growOrDestroy_post {cfg : Cfg} {Ok : VB → Prop} (L : VecLaws α cfg Ok) (m : Mem α) (c : Nat) (xs : List α) (w : VB)
    (needed : Nat) (v : α) (h : VRepW cfg Ok c m xs w) (hf : Fresh m) (hd : cfg.dynamic = true)
    (hlt : cfg.ops.capacity w < needed) (ht : m.buf .tmp = some [.live v]) :
    Post (growOrDestroy cfg c needed) m (fun res m' =>
      (res = .ok () ∧ (∃ w', Grown cfg Ok c m m' xs w w' needed) ∧ m'.buf .tmp = some [.live v]
        ∧ FrameL cfg c (regionOf cfg c w) m m') ∨
      (∃ e, res = .error (.exc e) ∧ VRepW cfg Ok c m' xs w ∧ m'.buf = View.set m.buf .tmp [.raw] ∧ m'.buf .tmp = some [.raw]
        ∧ FrameT cfg c (regionOf cfg c w) m m')) := by
  unfold growOrDestroy
  refine Post.tryCatch (L.grow hd m c xs w needed false h hf hlt (by simp)) ?_ ?_
  · rintro _ m1 ⟨hq, hfr⟩
    rcases hq with ⟨_, w', hg⟩ | ⟨e, he, _⟩
    · refine Or.inl ⟨rfl, ⟨w', hg⟩, ?_, hfr⟩
      rw [hfr.bufOther .tmp (Ne.symm (regionOf_ne_tmp cfg c w)) (by intro id hid; cases hid)]; exact ht
    · cases he
  · rintro e m1 ⟨hq, hfr⟩
    rcases hq with ⟨he, _⟩ | ⟨e', he, hw1, hb1⟩
    · cases he
    · injection he with he; subst he
      dsimp only
      have ht1 : m1.buf (Addr.mk Region.tmp 0).r = some [.live v] := by rw [hb1]; exact ht
      refine Post.bind (destroyAt_post m1 ⟨.tmp, 0⟩ [.live v] (.live v) ht1 rfl (Or.inl (by simp))) ?_ ?_
      · rintro _ m2 ⟨_, hb2, hk2⟩
        simp only [List.set_cons_zero] at hb2
        refine Post.throw (Or.inr ⟨e', rfl, hw1.ofTmp hb2 hk2, by rw [hb2, hb1], by rw [hb2]; simp, hfr.toT.tmp hb2 hk2⟩)
      · rintro e m2 ⟨he, _⟩; cases he

theorem FrameT.trans {cfg : Cfg} {c : Nat} {r : Region} {m m1 m2 : Mem α} (h1 : FrameT cfg c r m m1) (h2 : FrameT cfg c r m1 m2) :
    FrameT cfg c r m m2 :=
  ⟨h2.cat.trans h1.cat, h2.hr.trans h1.hr, h2.wsLen.trans h1.wsLen, fun c' hc => (h2.wsOther c' hc).trans (h1.wsOther c' hc),
    Nat.le_trans h1.nid h2.nid, fun hf => h2.fresh (h1.fresh hf),
    fun r' hne htmp hold => (h2.bufOther r' hne htmp (fun id hid => Nat.lt_of_lt_of_le (hold id hid) h1.nid)).trans
      (h1.bufOther r' hne htmp hold),
    fun id hne hlt => (h2.cntOther id hne (Nat.lt_of_lt_of_le hlt h1.nid)).trans (h1.cntOther id hne hlt),
    h1.noLeak.trans h2.noLeak h1.nid⟩

theorem FrameT.same {cfg : Cfg} {c : Nat} {r0 : Region} {m m1 m2 : Mem α} (h : FrameT cfg c r0 m m1) (hs : Same m1 m2) : FrameT cfg c r0 m m2 :=
  h.step (r1 := r0) (Or.inl rfl) hs.2 (fun id hid => by rw [hs.1] at hid; exact hid) (fun r' _ _ => by rw [hs.1])

/-- an element-level update of the buffer of container `c` together with the temporary -/
theorem Store.setT {cfg : Cfg} {Ok : VB → Prop} {c : Nat} {m m' : Mem α} {w : VB} {b b' bt : List (Slot α)}
    (h : Store cfg Ok c m w b) (hb : m'.buf = View.set (View.set m.buf .tmp bt) (regionOf cfg c w) b') (hl : b'.length = b.length)
    (hk : Keep m m') : Store cfg Ok c m' w b' := by
  refine ⟨by rw [hk.ws]; exact h.ws, h.ok, hl.trans h.len, Or.inr (by rw [hb]; simp), fun id hr hc => by rw [hk.cnt]; exact h.cnt id hr hc, ?_⟩
  intro hne hfl
  rw [hb, View.set_other _ _ _ _ (Ne.symm hne), View.set_other _ _ _ _ (by simp)]
  exact h.inl hne hfl

/-- `incrSize` once the buffer holds `xs'` (one more element than the size word says) followed by raw slots -/
theorem OpsB.incrSize_commitW {cfg : Cfg} {Ok : VB → Prop} (L : VecLaws α cfg Ok) {m : Mem α} {c : Nat} {w : VB}
    {xs' : List α} (hst : Store cfg Ok c m w (lives xs' ++ raws (cfg.ops.capacity w - xs'.length)))
    (hsz : cfg.ops.size w + 1 = xs'.length) (hle : xs'.length ≤ cfg.ops.capacity w) :
    Post (incrSize cfg c) m (fun res m' => res = .ok () ∧ VRep cfg Ok c m' xs' ∧
      ∃ w'', m' = ({ m with ws := m.ws.set c w'' } : Mem α) ∧ cfg.ops.begin w'' = cfg.ops.begin w
        ∧ cfg.ops.capacity w'' = cfg.ops.capacity w) := by
  refine Post.mono (incrSize_post cfg m c w hst.ws) ?_
  rintro res m' ⟨hr, rfl⟩
  have hl := L.size.incr w hst.ok (by omega)
  exact ⟨hr, ⟨_, VRepW.commit hst hl.1 hl.2.2.2 hl.2.2.1 (by omega)⟩, _, rfl, hl.2.2.2, hl.2.2.1⟩

/-- the last step of `emplace` / `emplace_back`: the buffer holds the new contents, the temporary is raw again -/
theorem emplace_finish {cfg : Cfg} {Ok : VB → Prop} (L : VecLaws α cfg Ok) {m0 : Mem α} {r0 : Region} (m2 m3 : Mem α) (c : Nat)
    (xs xs' : List α) (w' : VB) (hw' : VRepW cfg Ok c m2 xs w') (hlen : xs'.length = xs.length + 1)
    (hcap : xs.length + 1 ≤ cfg.ops.capacity w') (hk : Keep m2 m3)
    (hb : m3.buf = View.set (View.set m2.buf .tmp [.raw]) (regionOf cfg c w') (lives xs' ++ raws (cfg.ops.capacity w' - xs'.length)))
    (hfr : FrameT cfg c r0 m0 m2) (hreg : regionOf cfg c w' = r0 ∨ ∃ id, regionOf cfg c w' = .blk id ∧ m0.nextId ≤ id) :
    Post (incrSize cfg c) m3 (fun res m' => res = .ok () ∧ VRep cfg Ok c m' xs' ∧ FrameT cfg c r0 m0 m' ∧ m'.buf .tmp = some [.raw]) := by
  have hst3 := hw'.store.setT hb (by simp; omega) hk
  refine Post.mono (incrSize_commitW L hst3 (by rw [hw'.size, hlen]) (by omega)) ?_
  rintro res m' ⟨hr, hrep, w'', rfl, hbeg'', hcap''⟩
  refine ⟨hr, hrep, (hfr.tmpElem hreg (hw'.isSome (by omega)) hb hk).withWs _ hst3.ws hbeg'' hcap'', ?_⟩
  rw [withWs_buf, hb, View.set_other _ _ _ _ (Ne.symm (regionOf_ne_tmp cfg c w'))]; simp

/-- `relocate_at(&tmp, pos)` onto a raw slot -/
theorem relocTmp_post (m : Mem α) (r : Region) (hr : r ≠ .tmp) (pre post : List (Slot α)) (v : α)
    (h : m.buf r = some (pre ++ .raw :: post)) (ht : m.buf .tmp = some [.live v]) :
    Post (relocateAt tmpAddr ⟨r, pre.length⟩) m
      (fun res m' => res = .ok () ∧ Keep m m' ∧ m'.buf = View.set (View.set m.buf .tmp [.raw]) r (pre ++ .live v :: post)) := by
  unfold relocateAt
  have := relocAcross_post m .tmp r (Ne.symm hr) [] [] pre post [v] (by simpa [lives] using ht) (by simpa [raws] using h)
  simpa [raws, lives, tmpAddr] using this

/-- `adjustCapacity` of a static vector: a pure check -/
theorem OpsB.adjustCapacity_static {cfg : Cfg} {Ok : VB → Prop} (L : VecLaws α cfg Ok) (m : Mem α) (c : Nat) (w : VB) (needed : Nat)
    (hws : m.ws[c]? = some w) (hd : cfg.dynamic = false) :
    Post (adjustCapacity cfg c needed) m (fun res m' => m' = m ∧
      ((res = .ok () ∧ needed ≤ cfg.ops.capacity w) ∨ (res = .error (.exc .outOfRange) ∧ cfg.ops.capacity w < needed))) := by
  by_cases hroom : needed ≤ cfg.ops.capacity w
  · refine Post.mono (adjustCapacity_room cfg Ok L.size m c w needed hws hroom) ?_
    rintro res m' ⟨hr, rfl⟩
    exact ⟨rfl, Or.inl ⟨hr, hroom⟩⟩
  · unfold adjustCapacity
    rw [if_neg (by simp [hd]), if_pos (L.checked hd)]
    refine Post.bind (vcap_post cfg m c w hws) ?_ (by okerr)
    rintro k m1 ⟨hk, rfl⟩; injection hk with hk; subst hk
    rw [L.size.checkErr _ _ (by omega)]
    exact ⟨rfl, Or.inr ⟨rfl, by omega⟩⟩

theorem ArgOK.argIn1 {cfg : Cfg} {c : Nat} {m : Mem α} {w : VB} {xs : List α} {arg : Arg α} {v : α}
    (hv : ArgOK cfg c m w xs arg v) (post : List (Slot α)) : ArgIn m.buf (regionOf cfg c w) (lives xs) post 1 arg v := by
  cases arg with
  | copy ref => exact RefOK.refIn hv post 1
  | move x => exact hv

/-- `emplace_back` when there is room: the element is built in place -/
theorem emplaceBack_room {cfg : Cfg} {Ok : VB → Prop} (L : VecLaws α cfg Ok) (m : Mem α) (c : Nat) (xs : List α) (w : VB)
    (h : VRepW cfg Ok c m xs w) (arg : Arg α) (v : α) (hv : ArgOK cfg c m w xs arg v) (ht : m.buf .tmp = some [.raw])
    (hroom : xs.length + 1 ≤ cfg.ops.capacity w) :
    Post (do let a ← vend cfg c; let _ ← constructArg a arg; incrSize cfg c) m
      (fun res m' => StrongPost cfg Ok c m w xs (xs ++ [v]) () res m' ∧ m'.buf .tmp = some [.raw]) := by
  refine Post.bind (vend_post cfg m c w h.ws) ?_ (by okerr)
  rintro a m1 ⟨ha, rfl⟩; injection ha with ha; subst ha
  have hbuf : m1.buf (regionOf cfg c w) = some (lives xs ++ .raw :: raws (cfg.ops.capacity w - (xs.length + 1))) := by
    rcases h.buf with h0 | hb
    · omega
    · rw [hb, raws_succ_sub _ _ hroom]
  have hact := constructArg_post m1 (regionOf cfg c w) (lives xs) _ arg v hbuf (hv.argIn1 _)
  rw [h.size, show xs.length = (lives xs).length by simp]
  refine Post.bind hact ?_ ?_
  · rintro _ m2 hq
    rcases hq with ⟨_, hb2, hk2⟩ | ⟨he, _⟩
    · rw [lives_snoc] at hb2
      have hlen : (xs ++ [v]).length = xs.length + 1 := by simp
      rw [← hlen] at hb2
      have hst2 := h.store.set hb2 (by simp; omega) hk2
      refine Post.mono (incrSize_commitW L hst2 (by rw [h.size, hlen]) (by omega)) ?_
      rintro res m' ⟨hr, hrep, w'', rfl, hbeg'', hcap''⟩
      refine ⟨⟨Or.inl ⟨hr, hrep⟩, ((FrameL.refl cfg c _ m1).elem (Or.inl rfl) (h.isSome (by omega)) hb2 hk2).withWs _ hst2.ws hbeg'' hcap''⟩, ?_⟩
      rw [withWs_buf, hb2, View.set_other _ _ _ _ (Ne.symm (regionOf_ne_tmp cfg c w))]; exact ht
    · cases he
  · rintro e m2 hq
    rcases hq with ⟨he, _⟩ | ⟨he, hs2⟩
    · cases he
    · exact ⟨⟨Or.inr ⟨_, he, w, h.ofSame hs2⟩, (FrameL.refl cfg c _ m1).same hs2⟩, by rw [hs2.1]; exact ht⟩

/-- the first two steps of the growing path of `emplace` / `emplace_back`: the element is built in the temporary, then the
    container grows (the temporary is destroyed when that fails) -/
theorem emplace_grow {β : Type} {cfg : Cfg} {Ok : VB → Prop} (L : VecLaws α cfg Ok) (m : Mem α) (c : Nat) (xs : List α) (w : VB)
    (h : VRepW cfg Ok c m xs w) (hf : Fresh m) (arg : Arg α) (v : α) (hv : ArgOK cfg c m w xs arg v)
    (ht : m.buf .tmp = some [.raw]) (hd : cfg.dynamic = true) (hfull : cfg.ops.capacity w = xs.length)
    (rest : M α β) (xs' : List α) (okv : β)
    (hrest : ∀ (m2 : Mem α) (w' : VB), VRepW cfg Ok c m2 xs w' → xs.length + 1 ≤ cfg.ops.capacity w' →
      m2.buf .tmp = some [.live v] → FrameT cfg c (regionOf cfg c w) m m2 →
      (regionOf cfg c w' = regionOf cfg c w ∨ ∃ id, regionOf cfg c w' = .blk id ∧ m.nextId ≤ id) →
      Post rest m2 (fun res m' => res = .ok okv ∧ VRep cfg Ok c m' xs' ∧ FrameT cfg c (regionOf cfg c w) m m' ∧
        m'.buf .tmp = some [.raw])) :
    Post (do constructArg tmpAddr arg; growOrDestroy cfg c (xs.length + 1); rest) m
      (fun res m' => StrongPost cfg Ok c m w xs xs' okv res m' ∧ m'.buf .tmp = some [.raw]) := by
  have hc := constructArg_postD m .tmp [] [] arg v (by simpa using ht) (hv.toD h)
  refine Post.bind hc ?_ ?_
  · rintro _ m1 hq
    rcases hq with ⟨_, hb1, hk1⟩ | ⟨he, _⟩
    · simp only [List.nil_append] at hb1
      have hw1 : VRepW cfg Ok c m1 xs w := h.ofTmp hb1 hk1
      have hf1 : Fresh m1 := Fresh.ofSet hf hk1.nid hb1 (tmp_isSome m)
      have ht1 : m1.buf .tmp = some [.live v] := by rw [hb1]; simp
      have hfr1 : FrameT cfg c (regionOf cfg c w) m m1 := (FrameL.refl cfg c _ m).toT.tmp hb1 hk1
      refine Post.bind (growOrDestroy_post L m1 c xs w (xs.length + 1) v hw1 hf1 hd (by omega) ht1) ?_ ?_
      · rintro _ m2 hq2
        rcases hq2 with ⟨_, ⟨w', hw', hcap, hreg⟩, ht2, hfr2⟩ | ⟨e, he, _⟩
        · refine Post.mono (hrest m2 w' hw' hcap ht2 (hfr1.trans hfr2.toT) ?_) ?_
          · rcases hreg with hreg | ⟨id, hreg, hge⟩
            · exact Or.inl hreg
            · exact Or.inr ⟨id, hreg, by rw [← hk1.nid]; exact hge⟩
          · rintro res m' ⟨hr, hrep, hfr, ht'⟩
            exact ⟨⟨Or.inl ⟨hr, hrep⟩, hfr.toG (by rw [ht', ht])⟩, ht'⟩
        · cases he
      · rintro e m2 hq2
        rcases hq2 with ⟨he, _⟩ | ⟨e', he, hw2, _, ht2, hfr2⟩
        · cases he
        · injection he with he; subst he
          exact ⟨⟨Or.inr ⟨e', rfl, w, hw2⟩, (hfr1.trans hfr2).toG (by rw [ht2, ht])⟩, ht2⟩
    · cases he
  · rintro e m1 hq
    rcases hq with ⟨he, _⟩ | ⟨he, hs1⟩
    · cases he
    · injection he with he; subst he
      exact ⟨⟨Or.inr ⟨_, rfl, w, h.ofSame hs1⟩, (FrameL.refl cfg c _ m).same hs1⟩, by rw [hs1.1]; exact ht⟩

/-- `emplace_back(args...)` -/
theorem emplaceBack_post {cfg : Cfg} {Ok : VB → Prop} (L : VecLaws α cfg Ok) (m : Mem α) (c : Nat) (xs : List α) (w : VB)
    (h : VRepW cfg Ok c m xs w) (hf : Fresh m) (arg : Arg α) (v : α) (hv : ArgOK cfg c m w xs arg v)
    (ht : m.buf .tmp = some [.raw]) (_hr : regionOf cfg c w ≠ .tmp) :
    Post (emplaceBack cfg c arg) m
      (fun res m' => StrongPost cfg Ok c m w xs (xs ++ [v]) () res m' ∧ m'.buf .tmp = some [.raw]) := by
  have hle := h.le
  unfold emplaceBack
  dsimp only
  by_cases hd : cfg.dynamic = true
  · rw [if_pos hd]
    refine Post.bind (vsize_post cfg m c w h.ws) ?_ (by okerr)
    rintro sz m0 ⟨hsz, rfl⟩; injection hsz with hsz; subst hsz
    refine Post.bind (vcap_post cfg m0 c w h.ws) ?_ (by okerr)
    rintro k m1 ⟨hk, rfl⟩; injection hk with hk; subst hk
    rw [h.size]
    by_cases hfull : xs.length = cfg.ops.capacity w
    · rw [if_pos (by simp [hfull])]
      refine emplace_grow L m1 c xs w h hf arg v hv ht hd hfull.symm _ (xs ++ [v]) () ?_
      intro m2 w' hw' hcap ht2 hfr2 hreg
      refine Post.bind (vend_post cfg m2 c w' hw'.ws) ?_ (by okerr)
      rintro a m3 ⟨ha, rfl⟩; injection ha with ha; subst ha
      have hbuf : m3.buf (regionOf cfg c w') = some (lives xs ++ .raw :: raws (cfg.ops.capacity w' - (xs.length + 1))) := by
        rcases hw'.buf with h0 | hb
        · omega
        · rw [hb, raws_succ_sub _ _ hcap]
      have hact := relocTmp_post m3 (regionOf cfg c w') (regionOf_ne_tmp cfg c w') (lives xs) _ v hbuf ht2
      rw [hw'.size, show xs.length = (lives xs).length by simp]
      refine Post.bind hact ?_ ?_
      · rintro _ m4 ⟨_, hk4, hb4⟩
        rw [lives_snoc] at hb4
        have hlen : (xs ++ [v]).length = xs.length + 1 := by simp
        rw [← hlen] at hb4
        exact emplace_finish L m3 m4 c xs (xs ++ [v]) w' hw' hlen hcap hk4 hb4 hfr2 hreg
      · rintro e m4 ⟨he, _⟩; cases he
    · rw [if_neg (by simpa using hfull)]
      exact emplaceBack_room L m1 c xs w h arg v hv ht (by omega)
  · rw [if_neg hd]
    have hd' : cfg.dynamic = false := by simpa using hd
    refine Post.bind (vsize_post cfg m c w h.ws) ?_ (by okerr)
    rintro sz m0 ⟨hsz, rfl⟩; injection hsz with hsz; subst hsz
    rw [h.size]
    refine Post.bind (adjustCapacity_static L m0 c w (xs.length + 1) h.ws hd') ?_ ?_
    · rintro _ m1 ⟨rfl, hq⟩
      rcases hq with ⟨_, hroom⟩ | ⟨he, _⟩
      · exact emplaceBack_room L m1 c xs w h arg v hv ht hroom
      · cases he
    · rintro e m1 ⟨rfl, hq⟩
      rcases hq with ⟨he, _⟩ | ⟨he, _⟩
      · cases he
      · exact ⟨⟨Or.inr ⟨_, he, w, h⟩, FrameL.refl _ _ _ _⟩, ht⟩

theorem ArgOK.argIn0 {cfg : Cfg} {c : Nat} {m : Mem α} {w : VB} {xs : List α} {arg : Arg α} {v : α}
    (hv : ArgOK cfg c m w xs arg v) (p : Nat) (hp : p ≤ xs.length) (post : List (Slot α)) :
    ArgIn m.buf (regionOf cfg c w) (lives (xs.take p)) (lives (xs.drop p) ++ post) 0 arg v := by
  cases arg with
  | copy ref => exact RefOK.refIn0 hv p hp post
  | move x => exact hv

theorem View.set_tmp_set (vw : View α) (r : Region) (hr : r ≠ .tmp) (X T Y : List (Slot α)) :
    View.set (View.set (View.set vw r X) .tmp T) r Y = View.set (View.set vw .tmp T) r Y := by
  rw [View.set_comm _ r .tmp _ _ hr, View.set_set]

/-- `emplace` when there is room: `emplace_n` -/
theorem emplace_room {cfg : Cfg} {Ok : VB → Prop} (L : VecLaws α cfg Ok) (m : Mem α) (c : Nat) (xs : List α) (w : VB)
    (h : VRepW cfg Ok c m xs w) (p : Nat) (hp : p ≤ xs.length) (arg : Arg α) (v : α) (hv : ArgOK cfg c m w xs arg v)
    (ht : m.buf .tmp = some [.raw]) (hroom : xs.length + 1 ≤ cfg.ops.capacity w) :
    Post (do let a ← posAddr cfg c p; let _ ← emplaceN a (xs.length - p) arg; incrSize cfg c; pure p) m
      (fun res m' => StrongPost cfg Ok c m w xs (xs.take p ++ v :: xs.drop p) p res m' ∧ m'.buf .tmp = some [.raw]) := by
  refine Post.bind (posAddr_post cfg m c w p h.ws) ?_ (by okerr)
  rintro a m1 ⟨ha, rfl⟩; injection ha with ha; subst ha
  have hbuf : m1.buf (regionOf cfg c w) = some (lives (xs.take p) ++ lives (xs.drop p) ++
      .raw :: raws (cfg.ops.capacity w - (xs.length + 1))) := by
    rcases h.buf with h0 | hb
    · omega
    · rw [hb, raws_succ_sub _ _ hroom, ← lives_take_drop]
  have e1 : (lives (xs.take p)).length = p := by simp; omega
  have e2 : (xs.drop p).length = xs.length - p := by simp
  have hact := emplaceN_post m1 (regionOf cfg c w) (regionOf_ne_tmp cfg c w) (lives (xs.take p)) _ (xs.drop p) arg v hbuf ht
    (hv.argIn0 p hp _)
  rw [e1, e2] at hact
  refine Post.bind hact ?_ ?_
  · rintro _ m2 ⟨hq, hk2⟩
    rcases hq with ⟨_, hb2⟩ | ⟨he, _⟩
    · rw [lives_insert] at hb2
      have hlen : (xs.take p ++ v :: xs.drop p).length = xs.length + 1 := by simp; omega
      rw [← hlen] at hb2
      have hst2 := h.store.set hb2 (by simp; omega) hk2
      refine Post.bind (incrSize_commitW L hst2 (by rw [h.size, hlen]) (by omega)) ?_ ?_
      · rintro _ m3 ⟨_, hrep, w'', rfl, hbeg'', hcap''⟩
        refine Post.pure ⟨⟨Or.inl ⟨rfl, hrep⟩,
          ((FrameL.refl cfg c _ m1).elem (Or.inl rfl) (h.isSome (by omega)) hb2 hk2).withWs _ hst2.ws hbeg'' hcap''⟩, ?_⟩
        rw [withWs_buf, hb2, View.set_other _ _ _ _ (Ne.symm (regionOf_ne_tmp cfg c w))]; exact ht
      · rintro e m3 ⟨he, _⟩; cases he
    · cases he
  · rintro e m2 ⟨hq, hk2⟩
    rcases hq with ⟨he, _⟩ | ⟨he, hb2⟩
    · cases he
    · injection he with he; subst he
      have hs2 : Same m1 m2 := ⟨hb2, hk2⟩
      exact ⟨⟨Or.inr ⟨_, rfl, w, h.ofSame hs2⟩, (FrameL.refl cfg c _ m1).same hs2⟩, by rw [hb2]; exact ht⟩

/-- `emplace(pos, args...)`: the element is built in the stack temporary first, so the argument may alias any element -/
theorem emplace_post {cfg : Cfg} {Ok : VB → Prop} (L : VecLaws α cfg Ok) (m : Mem α) (c : Nat) (xs : List α) (w : VB)
    (h : VRepW cfg Ok c m xs w) (hf : Fresh m) (p : Nat) (hp : p ≤ xs.length) (arg : Arg α) (v : α)
    (hv : ArgOK cfg c m w xs arg v) (ht : m.buf .tmp = some [.raw]) (_hr : regionOf cfg c w ≠ .tmp) :
    Post (emplace cfg c p arg) m
      (fun res m' => StrongPost cfg Ok c m w xs (xs.take p ++ v :: xs.drop p) p res m' ∧ m'.buf .tmp = some [.raw]) := by
  have hle := h.le
  unfold emplace
  refine Post.bind (vsize_post cfg m c w h.ws) ?_ (by okerr)
  rintro sz m0 ⟨hsz, rfl⟩; injection hsz with hsz; subst hsz
  dsimp only
  rw [h.size]
  by_cases hd : cfg.dynamic = true
  · rw [if_pos hd]
    refine Post.bind (vcap_post cfg m0 c w h.ws) ?_ (by okerr)
    rintro k m1 ⟨hk, rfl⟩; injection hk with hk; subst hk
    by_cases hfull : xs.length = cfg.ops.capacity w
    · rw [if_pos (by simp [hfull])]
      refine emplace_grow L m1 c xs w h hf arg v hv ht hd hfull.symm _ (xs.take p ++ v :: xs.drop p) p ?_
      intro m2 w' hw' hcap ht2 hfr2 hreg
      refine Post.bind (posAddr_post cfg m2 c w' p hw'.ws) ?_ (by okerr)
      rintro a m3 ⟨ha, rfl⟩; injection ha with ha; subst ha
      have hlen : (xs.take p ++ v :: xs.drop p).length = xs.length + 1 := by simp; omega
      have e1 : (lives (xs.take p)).length = p := by simp; omega
      have e2 : (xs.drop p).length = xs.length - p := by simp
      have hbuf : m3.buf (regionOf cfg c w') = some (lives (xs.take p) ++ lives (xs.drop p) ++
          .raw :: raws (cfg.ops.capacity w' - (xs.length + 1))) := by
        rcases hw'.buf with h0 | hb
        · omega
        · rw [hb, raws_succ_sub _ _ hcap, ← lives_take_drop]
      have hne' := regionOf_ne_tmp cfg c w'
      have fin : ∀ m4 m5 : Mem α, Keep m3 m5 →
          m5.buf = View.set (View.set m3.buf .tmp [.raw]) (regionOf cfg c w')
            (lives (xs.take p) ++ .live v :: lives (xs.drop p) ++ raws (cfg.ops.capacity w' - (xs.length + 1))) → m4 = m5 →
          Post (do incrSize cfg c; pure p) m4 (fun res m' => res = .ok p ∧ VRep cfg Ok c m' (xs.take p ++ v :: xs.drop p) ∧
            FrameT cfg c (regionOf cfg c w) m1 m' ∧ m'.buf .tmp = some [.raw]) := by
        rintro m4 _ hk5 hb5 rfl
        rw [lives_insert, ← hlen] at hb5
        refine Post.bind (emplace_finish L m3 m4 c xs _ w' hw' hlen hcap hk5 hb5 hfr2 hreg) ?_ ?_
        · rintro _ m6 ⟨_, hrep, hfr6, ht6⟩
          exact Post.pure ⟨rfl, hrep, hfr6, ht6⟩
        · rintro e m6 ⟨he, _⟩; cases he
      by_cases hn : xs.length - p = 0
      · rw [if_pos hn]
        have hdrop : xs.drop p = [] := List.drop_eq_nil_of_le (by omega)
        have hbuf0 : m3.buf (regionOf cfg c w') = some (lives (xs.take p) ++ .raw :: raws (cfg.ops.capacity w' - (xs.length + 1))) := by
          rw [hbuf, hdrop]; simp [lives]
        have hact := relocTmp_post m3 (regionOf cfg c w') hne' (lives (xs.take p)) _ v hbuf0 ht2
        rw [e1] at hact
        refine Post.bind hact ?_ ?_
        · rintro _ m4 ⟨_, hk4, hb4⟩
          refine fin m4 m4 hk4 ?_ rfl
          rw [hb4, hdrop]; simp [lives]
        · rintro e m4 ⟨he, _⟩; cases he
      · rw [if_neg hn]
        have hx : xs.drop p ≠ [] := by
          intro h0; rw [h0] at e2; simp at e2; omega
        have hsh := shiftRight1_post m3 (regionOf cfg c w') (lives (xs.take p)) _ (xs.drop p) hx hbuf
        rw [e1, e2] at hsh
        refine Post.bind hsh ?_ ?_
        · rintro _ m4 ⟨_, hb4, hk4⟩
          have h4 : m4.buf (regionOf cfg c w') = some (lives (xs.take p) ++ gapSlot m4.cat ::
              (lives (xs.drop p) ++ raws (cfg.ops.capacity w' - (xs.length + 1)))) := by
            rw [hb4, hk4.cat]; simp
          have ht4 : m4.buf .tmp = some [.live v] := by
            rw [hb4, View.set_other _ _ _ _ (Ne.symm hne')]; exact ht2
          have hrel := relocateAfterShift_post m4 (regionOf cfg c w') hne' (lives (xs.take p)) _ v h4 ht4
          rw [e1] at hrel
          refine Post.bind hrel ?_ ?_
          · rintro _ m5 ⟨_, hk5, hb5⟩
            refine fin m5 m5 (hk4.trans hk5) ?_ rfl
            rw [hb5, hb4, View.set_tmp_set _ _ hne']; simp
          · rintro e m5 ⟨he, _⟩; cases he
        · rintro e m4 ⟨he, _⟩; cases he
    · rw [if_neg (by simpa using hfull)]
      exact emplace_room L m1 c xs w h p hp arg v hv ht (by omega)
  · rw [if_neg hd]
    have hd' : cfg.dynamic = false := by simpa using hd
    refine Post.bind (adjustCapacity_static L m0 c w (xs.length + 1) h.ws hd') ?_ ?_
    · rintro _ m1 ⟨rfl, hq⟩
      rcases hq with ⟨_, hroom⟩ | ⟨he, _⟩
      · exact emplace_room L m1 c xs w h p hp arg v hv ht hroom
      · cases he
    · rintro e m1 ⟨rfl, hq⟩
      rcases hq with ⟨he, _⟩ | ⟨he, _⟩
      · cases he
      · injection he with he; subst he
        exact ⟨⟨Or.inr ⟨_, rfl, w, h⟩, FrameL.refl _ _ _ _⟩, ht⟩
end AmcVerif
