import AmcVerif.Lemmas.Bounds
/-! Invariant lemmas of the FlatSet model: every operation keeps the list strictly sorted under the stored comparator
(hence free of equivalent duplicates), and `insert` behaves as on a std::set: it inserts iff no equivalent element
is present, never touches the other elements, and designates the element equivalent to the value. -/
namespace AmcVerif.FS
variable {α : Type} {lt : α → α → Bool}

/-- equivalence induced by the comparator -/
def Equiv (lt : α → α → Bool) (a b : α) : Prop := lt a b = false ∧ lt b a = false

theorem mem_takeWhile_imp {p : α → Bool} {l : List α} {a : α} (h : a ∈ l.takeWhile p) : p a = true := by
  induction l with
  | nil => simp at h
  | cons x t ih =>
    simp only [List.takeWhile] at h
    cases hx : p x with
    | false => simp [hx] at h
    | true =>
      simp only [hx, List.mem_cons] at h
      rcases h with rfl | h
      · exact hx
      · exact ih h

theorem insertIdx_takeWhile (p : α → Bool) (l : List α) (v : α) :
    l.insertIdx (l.takeWhile p).length v = l.takeWhile p ++ v :: l.dropWhile p := by
  induction l with
  | nil => simp
  | cons x t ih =>
    cases hx : p x with
    | false => simp [List.takeWhile, List.dropWhile, hx]
    | true => simp [List.takeWhile, List.dropWhile, hx, List.insertIdx_succ_cons, ih]

theorem take_lowerIdx (l : List α) (v : α) : l.take (lowerIdx lt l v) = l.takeWhile (fun x => lt x v) := by
  unfold lowerIdx
  induction l with
  | nil => simp
  | cons x t ih => cases hx : lt x v <;> simp [List.takeWhile, hx, ih]

theorem drop_lowerIdx (l : List α) (v : α) : l.drop (lowerIdx lt l v) = l.dropWhile (fun x => lt x v) := by
  unfold lowerIdx
  induction l with
  | nil => simp
  | cons x t ih => cases hx : lt x v <;> simp [List.takeWhile, List.dropWhile, hx, ih]

/-- what `dropWhile (· < v)` starts with is the element at the lower bound -/
theorem getElem?_lowerIdx (l : List α) (v : α) : l[lowerIdx lt l v]? = (l.dropWhile (fun x => lt x v)).head? := by
  rw [← drop_lowerIdx]; simp [List.head?_drop]

/-- inserting at the lower bound keeps the list sorted, provided `v` is strictly below the element found there -/
theorem sorted_insert_at_lower (hswo : SWO lt) (l : List α) (hs : Sorted lt l) (v : α)
    (hnext : ∀ x, l[lowerIdx lt l v]? = some x → lt v x = true) :
    Sorted lt (l.insertIdx (lowerIdx lt l v) v) := by
  unfold lowerIdx
  rw [insertIdx_takeWhile]
  have hsplit : l.takeWhile (fun x => lt x v) ++ l.dropWhile (fun x => lt x v) = l := List.takeWhile_append_dropWhile
  unfold Sorted at *
  rw [List.pairwise_append]
  have hd : (l.dropWhile (fun x => lt x v)).Pairwise (fun a b => lt a b = true) :=
    List.Pairwise.sublist (List.dropWhile_sublist _) hs
  have htk : (l.takeWhile (fun x => lt x v)).Pairwise (fun a b => lt a b = true) :=
    List.Pairwise.sublist (List.takeWhile_sublist _) hs
  -- v is below everything in the dropped part
  have hvd : ∀ b ∈ l.dropWhile (fun x => lt x v), lt v b = true := by
    intro b hb
    cases hdw : l.dropWhile (fun x => lt x v) with
    | nil => rw [hdw] at hb; cases hb
    | cons x rest =>
      have hx : lt v x = true := by
        apply hnext x
        rw [getElem?_lowerIdx, hdw]; rfl
      rw [hdw] at hb hd
      rcases List.mem_cons.mp hb with rfl | hb'
      · exact hx
      · exact hswo.trans _ _ _ hx ((List.pairwise_cons.mp hd).1 b hb')
  refine ⟨htk, ?_, ?_⟩
  · rw [List.pairwise_cons]; exact ⟨hvd, hd⟩
  · intro a ha b hb
    have hav : lt a v = true := mem_takeWhile_imp (p := fun x => lt x v) ha
    rcases List.mem_cons.mp hb with rfl | hb'
    · exact hav
    · exact hswo.trans _ _ _ hav (hvd b hb')

theorem insertVal_sorted (hswo : SWO lt) (l : List α) (hs : Sorted lt l) (v : α) :
    Sorted lt (insertVal lt l v).1 := by
  unfold insertVal
  simp only
  cases hl : l[lowerIdx lt l v]? with
  | none => simp only; exact sorted_insert_at_lower hswo l hs v (fun x hx => by rw [hl] at hx; cases hx)
  | some x =>
    simp only
    cases hvx : lt v x with
    | false => simpa using hs
    | true =>
      simp only [↓reduceIte]
      exact sorted_insert_at_lower hswo l hs v (fun y hy => by rw [hl] at hy; cases hy; exact hvx)

/-- `insert` does not insert exactly when an equivalent element is already present, and then changes nothing -/
theorem insertVal_not_inserted_iff (hswo : SWO lt) (l : List α) (hs : Sorted lt l) (v : α) :
    (insertVal lt l v).2.2 = false ↔ ∃ x ∈ l, Equiv lt x v := by
  unfold insertVal
  simp only
  constructor
  · intro h
    cases hl : l[lowerIdx lt l v]? with
    | none => rw [hl] at h; simp at h
    | some x =>
      rw [hl] at h
      simp only at h
      cases hvx : lt v x with
      | true => rw [hvx] at h; simp at h
      | false => exact ⟨x, List.mem_of_getElem? hl, lowerIdx_at l v x hl, hvx⟩
  · rintro ⟨y, hy, hyv, hvy⟩
    obtain ⟨j, hj, rfl⟩ := List.getElem_of_mem hy
    have hjy : l[j]? = some l[j] := List.getElem?_eq_getElem hj
    -- the lower bound is at most j ...
    have hle : lowerIdx lt l v ≤ j := by
      rcases Nat.lt_or_ge j (lowerIdx lt l v) with h | h
      · have := lowerIdx_below l v j l[j] h hjy; rw [hyv] at this; cases this
      · exact h
    -- ... and not before j
    have heq : lowerIdx lt l v = j := by
      rcases Nat.lt_or_ge (lowerIdx lt l v) j with h | h
      · have hi : lowerIdx lt l v < l.length := by omega
        have hx := List.getElem?_eq_getElem hi
        have h1 := sorted_get hs h hx hjy
        have h2 := hswo.lt_of_lt_of_not_lt h1 hvy
        have h3 := lowerIdx_at l v _ hx
        rw [h2] at h3; cases h3
      · omega
    rw [heq, hjy]
    simp [hvy]

theorem insertVal_noop (l : List α) (v : α) (h : (insertVal lt l v).2.2 = false) : (insertVal lt l v).1 = l := by
  unfold insertVal at *
  simp only at *
  cases hl : l[lowerIdx lt l v]? with
  | none => rw [hl] at h; simp at h
  | some x =>
    rw [hl] at h
    simp only at h ⊢
    cases hvx : lt v x with
    | true => rw [hvx] at h; simp at h
    | false => simp

/-- membership after `insert`: the old elements, plus the value when it was inserted -/
theorem insertVal_mem (l : List α) (v : α) (x : α) :
    x ∈ (insertVal lt l v).1 ↔ x ∈ l ∨ ((insertVal lt l v).2.2 = true ∧ x = v) := by
  have hle := lowerIdx_le (lt := lt) l v
  unfold insertVal
  simp only
  cases hl : l[lowerIdx lt l v]? with
  | none => simp only [List.mem_insertIdx hle, true_and]; exact ⟨fun h => h.symm, fun h => h.symm⟩
  | some y =>
    simp only
    cases hvy : lt v y with
    | false => simp
    | true => simp only [↓reduceIte, List.mem_insertIdx hle, true_and]; exact ⟨fun h => h.symm, fun h => h.symm⟩

/-- the index returned by `insert` designates an element equivalent to the value -/
theorem insertVal_designates (hswo : SWO lt) (l : List α) (v : α) :
    ∃ y, (insertVal lt l v).1[(insertVal lt l v).2.1]? = some y ∧ Equiv lt y v := by
  have hle := lowerIdx_le (lt := lt) l v
  unfold insertVal
  simp only
  cases hl : l[lowerIdx lt l v]? with
  | none =>
    simp only
    exact ⟨v, by rw [List.getElem?_insertIdx_self]; simp [hle], hswo.irrefl v, hswo.irrefl v⟩
  | some x =>
    simp only
    cases hvx : lt v x with
    | true =>
      simp only [↓reduceIte]
      exact ⟨v, by rw [List.getElem?_insertIdx_self]; simp [hle], hswo.irrefl v, hswo.irrefl v⟩
    | false =>
      simp only [Bool.false_eq_true, ↓reduceIte]
      exact ⟨x, hl, lowerIdx_at l v x hl, hvx⟩

theorem eraseIdx_sorted (l : List α) (hs : Sorted lt l) (i : Nat) : Sorted lt (l.eraseIdx i) :=
  List.Pairwise.sublist (List.eraseIdx_sublist l i) hs

theorem insertAll_sorted (hswo : SWO lt) (vs : List α) : ∀ (l : List α), Sorted lt l → Sorted lt (AmcVerif.Sets.insertAll lt l vs) := by
  induction vs with
  | nil => intro l hs; simpa [AmcVerif.Sets.insertAll] using hs
  | cons v rest ih =>
    intro l hs
    simp only [AmcVerif.Sets.insertAll, List.foldl_cons]
    exact ih _ (insertVal_sorted hswo l hs v)

/-- `find` succeeds exactly when an equivalent element is present, and designates it -/
theorem findC_some_iff (hswo : SWO lt) (l : List α) (hs : Sorted lt l) (k : α) :
    (∃ i, (AmcVerif.Sets.findC lt l k).1 = some i ∧ ∃ y, l[i]? = some y ∧ Equiv lt y k) ↔ ∃ x ∈ l, Equiv lt x k := by
  have hins := insertVal_not_inserted_iff hswo l hs k
  have hlb := AmcVerif.Sets.lowerBound_eq_lowerIdx hswo l hs k
  unfold AmcVerif.Sets.findC
  generalize hp : AmcVerif.Sets.lowerBound lt l k 0 l.length = p at hlb
  obtain ⟨i, c⟩ := p
  simp only at hlb
  subst hlb
  unfold insertVal at hins
  simp only at hins ⊢
  cases hl : l[lowerIdx lt l k]? with
  | none =>
    rw [hl] at hins
    simp only at hins ⊢
    constructor
    · rintro ⟨i, hi, _⟩; cases hi
    · intro h; have := hins.mpr h; simp at this
  | some x =>
    rw [hl] at hins
    simp only at hins ⊢
    cases hkx : lt k x with
    | true =>
      rw [hkx] at hins
      simp only [↓reduceIte]
      constructor
      · rintro ⟨i, hi, _⟩; cases hi
      · intro h; have := hins.mpr h; simp at this
    | false =>
      simp only [Bool.false_eq_true, ↓reduceIte]
      constructor
      · rintro ⟨i, hi, y, hy, he⟩
        cases hi
        exact ⟨y, List.mem_of_getElem? hy, he⟩
      · intro _
        exact ⟨_, rfl, x, hl, lowerIdx_at l k x hl, hkx⟩

end AmcVerif.FS
