import AmcVerif.Lemmas.Growth
/-! C18, second half: the *element* cost of growth. Every growth step of a full vector of capacity `c` relocates
`c` elements and reaches at least `⌈1.5·c⌉` (unless clamped by the size_type maximum, which can happen only once,
at the very end), so the relocated totals of `n` appends form a geometric series: `O(n)` relocations in total.
Proved from the word laws only. -/
namespace AmcVerif

/-- number of elements an effect relocates from one buffer to another: the element count of
    `uninitialized_relocate_n` and the live count carried by `vec::Reallocate` -/
def Eff.relocated : Eff → Nat
  | .relocN _ n _ => n
  | .realloc _ _ _ live _ => live
  | _ => 0

/-- total number of element relocations among a list of effects -/
def relocatedCount : List Eff → Nat
  | [] => 0
  | e :: rest => e.relocated + relocatedCount rest

theorem relocatedCount_nil : relocatedCount [] = 0 := rfl

theorem relocatedCount_append (a b : List Eff) :
    relocatedCount (a ++ b) = relocatedCount a + relocatedCount b := by
  induction a with
  | nil => simp [relocatedCount]
  | cons e rest ih => simp only [List.cons_append, relocatedCount, ih]; omega

/-- a growth relocates exactly the live elements -/
theorem relocatedCount_growEffs (small : Bool) (t : VB) (sz cap r fresh : Nat) :
    relocatedCount (growEffs small t sz cap r fresh) = sz := by
  unfold growEffs; cases small <;> simp [relocatedCount, Eff.relocated]

/-- the growth factor: unless clamped at the maximum, `2·new ≥ 3·old` -/
theorem nextFull_factor (kMax c : Nat) (h : c < kMax) :
    nextFull kMax c = kMax ∨ 3 * c ≤ 2 * nextFull kMax c := by
  unfold nextFull nextCapOf; simp only [Nat.min_def, Nat.max_def]; repeat' split
  all_goals omega

/-- and the growth does not overshoot: `2·new ≤ 3·old + 1` for a non-empty full vector -/
theorem nextFull_upper (kMax c : Nat) (h : 1 ≤ c) : 2 * nextFull kMax c ≤ 3 * c + 1 := by
  unfold nextFull nextCapOf; simp only [Nat.min_def, Nat.max_def]; repeat' split
  all_goals omega

/- ------------------------------------------------------------------------------------------------------------
   histories of pushes
   ------------------------------------------------------------------------------------------------------------ -/

theorem validHist_pushes (ops : BaseOps) : ∀ (n s : Nat), ValidHist ops s (List.replicate n WOp.push) := by
  intro n
  induction n with
  | zero => intro s; trivial
  | succ j ih => intro s; exact ⟨trivial, ih _⟩

theorem specSizes_pushes : ∀ (n s : Nat), specSizes s (List.replicate n WOp.push) = s + n := by
  intro n
  induction n with
  | zero => intro s; rfl
  | succ m ih => intro s; simp only [List.replicate, specSizes, WOp.specSize]; rw [ih]; omega

theorem confined_pushes : ∀ (n s c : Nat), s + n ≤ c → Confined c s (List.replicate n WOp.push) := by
  intro n
  induction n with
  | zero => intro s c _; trivial
  | succ m ih =>
    intro s c h
    refine ⟨?_, ?_⟩
    · simp only [WOp.needed]; omega
    · simp only [WOp.specSize]; exact ih (s + 1) c (by omega)

theorem pushes_no_shrink (n : Nat) : ∀ op ∈ List.replicate n WOp.push, op ≠ WOp.shrinkToFit := by
  intro op ho
  rw [List.eq_of_mem_replicate ho]
  intro h; cases h

variable {ops : BaseOps} {N : Nat}

/-- a history (without `shrink_to_fit`) whose needs never exceed the current capacity never throws, keeps buffer,
    capacity and inline/heap state, and emits no element or allocator effect at all (the generalisation of
    `wRun_inline` from the inline capacity to any capacity) -/
theorem wRun_within (L : SmallLaws ops N) (hk : ops.kMax < 2 ^ 62) (hist : List WOp) :
    ∀ (t : VB) (fresh : Nat), SRep N ops.kMax t → ValidHist ops (ops.size t) hist →
      (∀ op ∈ hist, op ≠ WOp.shrinkToFit) → Confined (ops.capacity t) (ops.size t) hist →
      ∃ t', wRun ops N t fresh hist = some (t', []) ∧ SRep N ops.kMax t'
        ∧ ops.size t' = specSizes (ops.size t) hist ∧ ops.capacity t' = ops.capacity t
        ∧ t'.dyn = t.dyn ∧ ops.isSmall t' = ops.isSmall t := by
  induction hist with
  | nil =>
    intro t fresh h _ _ _
    exact ⟨t, rfl, h, rfl, rfl, rfl, rfl⟩
  | cons op rest ih =>
    intro t fresh h hv hne hc
    have hb := L.bounds t h
    have hvo := valid_of_validHist t op rest hv
    have hfit : op.needed (ops.size t) ≤ ops.capacity t := hc.1
    have hsh : op ≠ WOp.shrinkToFit := hne op List.mem_cons_self
    have hok : ∃ t1 e1, wStep ops N t fresh op = .ok (t1, e1) := by
      cases hs : wStep ops N t fresh op with
      | ok p => exact ⟨p.1, p.2, rfl⟩
      | error e =>
        have := (wStep_error L t h op hvo (by omega) fresh).mp ⟨e, hs⟩
        omega
    obtain ⟨t1, e1, hs⟩ := hok
    have post := wStep_ok L t h op hvo (by omega) fresh t1 e1 hs
    have st := post.stable hsh hfit
    have hv' : ValidHist ops (ops.size t1) rest := by rw [post.size]; exact hv.2
    have hc' : Confined (ops.capacity t1) (ops.size t1) rest := by rw [post.size, st.2.2.1]; exact hc.2
    obtain ⟨t2, hr2, hrep2, hsz2, hcap2, hdyn2, hsm2⟩ :=
      ih t1 (fresh + 1) post.rep hv' (fun o ho => hne o (List.mem_cons_of_mem _ ho)) hc'
    refine ⟨t2, ?_, hrep2, ?_, ?_, ?_, ?_⟩
    · simp only [wRun, hs, hr2, st.1, List.nil_append]
    · rw [hsz2, post.size]; rfl
    · rw [hcap2, st.2.2.1]
    · rw [hdyn2, st.2.1]
    · rw [hsm2, st.2.2.2]

/-- `n` pushes that fit the current capacity: the run succeeds without any effect -/
theorem pushes_within (L : SmallLaws ops N) (hk : ops.kMax < 2 ^ 62) (n : Nat) (t : VB) (fresh : Nat)
    (h : SRep N ops.kMax t) (hfit : ops.size t + n ≤ ops.capacity t) :
    ∃ t', wRun ops N t fresh (List.replicate n WOp.push) = some (t', []) ∧ SRep N ops.kMax t'
      ∧ ops.size t' = ops.size t + n ∧ ops.capacity t' = ops.capacity t
      ∧ t'.dyn = t.dyn ∧ ops.isSmall t' = ops.isSmall t := by
  obtain ⟨t', hr, hrep, hsz, hrest⟩ := wRun_within L hk (List.replicate n WOp.push) t fresh h
    (validHist_pushes ops n _) (pushes_no_shrink n) (confined_pushes n _ _ hfit)
  exact ⟨t', hr, hrep, by rw [hsz, specSizes_pushes], hrest⟩

/-- a run of pushes that never exceeds the capacity emits nothing: no relocation, no allocator request -/
theorem pushes_within_effs (L : SmallLaws ops N) (hk : ops.kMax < 2 ^ 62) (n : Nat) (t : VB) (fresh : Nat)
    (h : SRep N ops.kMax t) (hfit : ops.size t + n ≤ ops.capacity t) (t' : VB) (effs : List Eff)
    (hr : wRun ops N t fresh (List.replicate n WOp.push) = some (t', effs)) :
    effs = [] ∧ ops.capacity t' = ops.capacity t ∧ t'.dyn = t.dyn := by
  obtain ⟨t2, hr2, _, _, hcap, hdyn, _⟩ := pushes_within L hk n t fresh h hfit
  rw [hr2] at hr
  simp only [Option.some.injEq, Prod.mk.injEq] at hr
  obtain ⟨rfl, rfl⟩ := hr
  exact ⟨rfl, hcap, hdyn⟩

/-- a successful run of `n` pushes ends with size `size + n`, which therefore fits the size_type -/
theorem pushes_size (L : SmallLaws ops N) (hk : ops.kMax < 2 ^ 62) (n : Nat) (t : VB) (fresh : Nat)
    (h : SRep N ops.kMax t) (t' : VB) (effs : List Eff)
    (hr : wRun ops N t fresh (List.replicate n WOp.push) = some (t', effs)) :
    SRep N ops.kMax t' ∧ ops.size t' = ops.size t + n ∧ ops.size t + n ≤ ops.capacity t'
      ∧ ops.capacity t' ≤ ops.kMax := by
  have hs := wRun_spec L hk _ t fresh h (validHist_pushes ops n _) t' effs hr
  rw [specSizes_pushes] at hs
  refine ⟨hs.1, hs.2.1, ?_, hs.2.2.2⟩
  rw [← hs.2.1]; exact hs.2.2.1

/-- one successful push: either it fits (no effect, same capacity and buffer) or the vector was full and grows to
    `nextFull`, relocating exactly its `size = capacity` elements with one allocator request -/
theorem wStep_push_cases (L : SmallLaws ops N) (hk : ops.kMax < 2 ^ 62) (t : VB) (h : SRep N ops.kMax t)
    (fresh : Nat) (t1 : VB) (e1 : List Eff) (hs : wStep ops N t fresh WOp.push = .ok (t1, e1)) :
    SRep N ops.kMax t1 ∧ ops.size t1 = ops.size t + 1 ∧
    ((ops.size t < ops.capacity t ∧ e1 = [] ∧ ops.capacity t1 = ops.capacity t ∧ t1.dyn = t.dyn
        ∧ ops.isSmall t1 = ops.isSmall t)
     ∨ (ops.size t = ops.capacity t ∧ ops.capacity t < ops.kMax
        ∧ ops.capacity t1 = nextFull ops.kMax (ops.capacity t)
        ∧ e1 = growEffs (ops.isSmall t) t (ops.size t) (ops.capacity t) (ops.capacity t1) fresh
        ∧ ops.isSmall t1 = false)) := by
  have hb := L.bounds t h
  simp only [wStep] at hs
  rcases wAdjust_cases L t h (ops.size t + 1) fresh (by omega) with
    ⟨_, he⟩ | ⟨hfit, he⟩ | ⟨hkk, hc, ta, ea, he, hra, hsa, hna, hsma, hcapa, hef⟩
  · rw [he] at hs; cases hs
  · rw [he] at hs; simp only [Except.ok.injEq, Prod.mk.injEq] at hs
    obtain ⟨rfl, rfl⟩ := hs
    have hl := L.incr t h (by omega)
    exact ⟨hl.1, hl.2.1, Or.inl ⟨by omega, rfl, hl.2.2.1, hl.2.2.2.2, hl.2.2.2.1⟩⟩
  · rw [he] at hs; simp only [Except.ok.injEq, Prod.mk.injEq] at hs
    obtain ⟨rfl, rfl⟩ := hs
    have hl := L.incr ta hra (by omega)
    have hfull : ops.size t = ops.capacity t := by omega
    refine ⟨hl.1, by rw [hl.2.1, hsa], Or.inr ⟨hfull, by omega, ?_, ?_, ?_⟩⟩
    · rw [hl.2.2.1, hcapa, ← hfull]; rfl
    · rw [hl.2.2.1]; exact hef
    · rw [hl.2.2.2.1]; exact hsma

/-- **amortised cost of appending.** A successful run of `n` pushes from any well-formed state either relocates
    nothing, or relocates at most `3·(size + n) − 2·capacity − 3` elements in total
    (`size`, `capacity` of the start state; `size + n` is the final size). -/
theorem pushes_relocated_sharp (L : SmallLaws ops N) (hk : ops.kMax < 2 ^ 62) (n : Nat) :
    ∀ (t : VB) (fresh : Nat), SRep N ops.kMax t →
      ∀ t' effs, wRun ops N t fresh (List.replicate n WOp.push) = some (t', effs) →
        relocatedCount effs = 0
          ∨ relocatedCount effs + 2 * ops.capacity t + 3 ≤ 3 * (ops.size t + n) := by
  induction n with
  | zero =>
    intro t fresh _ t' effs hr
    simp only [List.replicate, wRun, Option.some.injEq, Prod.mk.injEq] at hr
    obtain ⟨_, rfl⟩ := hr
    exact Or.inl rfl
  | succ n ih =>
    intro t fresh h t' effs hr
    have hb := L.bounds t h
    simp only [List.replicate, wRun] at hr
    cases hs : wStep ops N t fresh WOp.push with
    | error e => simp only [hs] at hr; cases hr
    | ok p =>
      obtain ⟨t1, e1⟩ := p
      simp only [hs] at hr
      cases hr2 : wRun ops N t1 (fresh + 1) (List.replicate n WOp.push) with
      | none => simp only [hr2] at hr; cases hr
      | some q =>
        obtain ⟨t2, e2⟩ := q
        simp only [hr2, Option.some.injEq, Prod.mk.injEq] at hr
        obtain ⟨rfl, rfl⟩ := hr
        obtain ⟨hrep1, hsz1, hcase⟩ := wStep_push_cases L hk t h fresh t1 e1 hs
        have ih' := ih t1 (fresh + 1) hrep1 t2 e2 hr2
        rw [relocatedCount_append]
        rcases hcase with ⟨_, he1, hcap1, _, _⟩ | ⟨hfull, hlt, hcap1, he1, _⟩
        · -- no growth
          rw [he1, relocatedCount_nil]
          rw [hcap1, hsz1] at ih'
          omega
        · -- growth of a full vector: `size t` relocations, capacity `nextFull`
          have hcost : relocatedCount e1 = ops.size t := by rw [he1, relocatedCount_growEffs]
          rw [hcost]
          rcases nextFull_factor ops.kMax (ops.capacity t) hlt with hclamp | hfac
          · -- clamped at the maximum: nothing can grow afterwards
            have hfin := pushes_size L hk n t1 (fresh + 1) hrep1 t2 e2 hr2
            have hb2 := L.bounds t2 hfin.1
            have hfit : ops.size t1 + n ≤ ops.capacity t1 := by rw [hcap1, hclamp]; omega
            have hnil := (pushes_within_effs L hk n t1 (fresh + 1) hrep1 hfit t2 e2 hr2).1
            rw [hnil, relocatedCount_nil]
            omega
          · rw [hcap1, hsz1] at ih'
            omega

/-- the plain linear bound: `n` pushes relocate at most `3·(size + n)` elements in total -/
theorem pushes_relocated (L : SmallLaws ops N) (hk : ops.kMax < 2 ^ 62) (n : Nat) (t : VB) (fresh : Nat)
    (h : SRep N ops.kMax t) (t' : VB) (effs : List Eff)
    (hr : wRun ops N t fresh (List.replicate n WOp.push) = some (t', effs)) :
    relocatedCount effs ≤ 3 * (ops.size t + n) := by
  have := pushes_relocated_sharp L hk n t fresh h t' effs hr
  omega

/- ------------------------------------------------------------------------------------------------------------
   reserve
   ------------------------------------------------------------------------------------------------------------ -/

/-- outcome of `reserve(m)` with `m` within the size_type maximum -/
theorem wStep_reserve_cases (L : SmallLaws ops N) (t : VB) (h : SRep N ops.kMax t) (m : Nat) (hm : m ≤ ops.kMax)
    (fresh : Nat) :
    (m ≤ ops.capacity t ∧ wStep ops N t fresh (.reserve m) = .ok (t, []))
    ∨ (ops.capacity t < m ∧ ∃ t1, wStep ops N t fresh (.reserve m)
          = .ok (t1, growEffs (ops.isSmall t) t (ops.size t) (ops.capacity t) m fresh)
        ∧ SRep N ops.kMax t1 ∧ ops.size t1 = ops.size t ∧ ops.capacity t1 = m ∧ ops.isSmall t1 = false) := by
  have hb := L.bounds t h
  by_cases hfit : m ≤ ops.capacity t
  · exact Or.inl ⟨hfit, by simp only [wStep]; exact wReserve_fits t m fresh hfit⟩
  · right
    refine ⟨by omega, _, ?_, L.grownRep (ops.size t) m (PtrV.blk (fresh + 0)) (by omega) hm⟩
    simp only [wStep]; unfold wReserve; rw [if_pos (by omega)]
    exact L.growOk t h m true fresh m (L.safeExact _ _ hm)

/-- `reserve(m)` followed by pushes up to the reserved size: the run succeeds, its only effects are those of the
    reserve itself (at most one allocator request, relocating the `size` live elements exactly when the capacity
    was insufficient); the pushes relocate and allocate nothing and keep the reserved buffer -/
theorem reserve_pushes (L : SmallLaws ops N) (hk : ops.kMax < 2 ^ 62) (t : VB) (h : SRep N ops.kMax t)
    (m n : Nat) (hm : m ≤ ops.kMax) (hn : ops.size t + n ≤ m) (fresh : Nat) :
    ∃ t1 e1 t', wStep ops N t fresh (.reserve m) = .ok (t1, e1)
      ∧ wRun ops N t1 (fresh + 1) (List.replicate n WOp.push) = some (t', [])
      ∧ wRun ops N t fresh (WOp.reserve m :: List.replicate n WOp.push) = some (t', e1)
      ∧ reallocCount e1 ≤ 1
      ∧ relocatedCount e1 = (if ops.capacity t < m then ops.size t else 0)
      ∧ ops.size t' = ops.size t + n ∧ m ≤ ops.capacity t' ∧ ops.capacity t' = ops.capacity t1
      ∧ t'.dyn = t1.dyn := by
  have key : ∃ t1 e1, wStep ops N t fresh (.reserve m) = .ok (t1, e1) ∧ SRep N ops.kMax t1
      ∧ ops.size t1 = ops.size t ∧ m ≤ ops.capacity t1 ∧ reallocCount e1 ≤ 1
      ∧ relocatedCount e1 = (if ops.capacity t < m then ops.size t else 0) := by
    rcases wStep_reserve_cases L t h m hm fresh with ⟨hfit, hs⟩ | ⟨hlt, t1, hs, hrep1, hsz1, hcap1, _⟩
    · refine ⟨t, [], hs, h, rfl, hfit, by simp [reallocCount], ?_⟩
      rw [if_neg (by omega)]; rfl
    · refine ⟨t1, _, hs, hrep1, hsz1, by omega, ?_, ?_⟩
      · rw [reallocCount_growEffs]; exact Nat.le_refl _
      · rw [if_pos hlt, relocatedCount_growEffs]
  obtain ⟨t1, e1, hs, hrep1, hsz1, hcap1, hal, hrel⟩ := key
  obtain ⟨t', hr2, _, hsz2, hcap2, hdyn2, _⟩ :=
    pushes_within L hk n t1 (fresh + 1) hrep1 (by omega)
  refine ⟨t1, e1, t', hs, hr2, ?_, hal, hrel, by omega, by omega, hcap2, hdyn2⟩
  simp only [wRun, hs, hr2, List.append_nil]

end AmcVerif
