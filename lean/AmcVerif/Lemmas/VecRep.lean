import AmcVerif.Lemmas.Loops2
import AmcVerif.Model.Vec
/-! Container-level representation: `VRepW cfg Ok c m xs w` says that pool container `c` of memory `m`, with size/capacity/
pointer words `w`, holds exactly the elements `xs` at the start of its buffer and nothing else (all other slots raw);
`SizeLaws` is the flavour-independent part of the laws of the generated size members, `GrowSpec` what a flavour's `grow`
guarantees, `FrameG` what an operation on container `c` leaves alone, `NoLeak` that it leaves no heap block behind (`FrameL` = both); `StrongPost` / `BasicPost` are the outcome shapes
of the public operations (strong / basic exception guarantee, never a lifetime fault). -/
namespace AmcVerif
variable {α β γ : Type}

/-- flavour-independent laws of the generated size members, relative to a representation invariant `Ok` of the words -/
structure SizeLaws (ops : BaseOps) (Ok : VB → Prop) : Prop where
  bounds : ∀ t, Ok t → ops.size t ≤ ops.capacity t ∧ ops.capacity t ≤ ops.kMax
  incr : ∀ t, Ok t → ops.size t < ops.capacity t →
    Ok (ops.incrSize t) ∧ ops.size (ops.incrSize t) = ops.size t + 1 ∧ ops.capacity (ops.incrSize t) = ops.capacity t
      ∧ ops.begin (ops.incrSize t) = ops.begin t
  decr : ∀ t, Ok t → 0 < ops.size t →
    Ok (ops.decrSize t) ∧ ops.size (ops.decrSize t) + 1 = ops.size t ∧ ops.capacity (ops.decrSize t) = ops.capacity t
      ∧ ops.begin (ops.decrSize t) = ops.begin t
  setSize : ∀ t, Ok t → ∀ s, s ≤ ops.capacity t →
    Ok (ops.setSize t s) ∧ ops.size (ops.setSize t s) = s ∧ ops.capacity (ops.setSize t s) = ops.capacity t
      ∧ ops.begin (ops.setSize t s) = ops.begin t
  checkOk : ∀ c m, c ≤ m → ops.check c m = .ok []
  checkErr : ∀ c m, m < c → ops.check c m = .error .outOfRange

macro "okerr" : tactic => `(tactic| (rintro e m1 ⟨he, _⟩; cases he))

theorem resolve_i (c0 c1 : Nat) (p : PtrV) : (resolve c0 c1 p).i = 0 := by
  unfold resolve; split <;> rfl

/-- the region holding the elements of a container whose words are `w` -/
def regionOf (cfg : Cfg) (c : Nat) (w : VB) : Region := (resolve c c (cfg.ops.begin w)).r

theorem resolve_eq (cfg : Cfg) (c : Nat) (w : VB) : resolve c c (cfg.ops.begin w) = ⟨regionOf cfg c w, 0⟩ := by
  unfold regionOf
  have := resolve_i c c (cfg.ops.begin w)
  cases h : resolve c c (cfg.ops.begin w) with
  | mk r i => rw [h] at this; simp at this; subst this; rfl

/-- the storage of container `c`: its words `w` are registered in the pool and satisfy the flavour invariant `Ok`; the
    region they point to holds the buffer `b` of exactly `capacity` slots (a container of capacity 0 may have no buffer at
    all: `amc::vector` with a null pointer); a heap block was allocated with exactly `capacity` elements; and a SmallVector
    in heap state has nothing left in its inline storage -/
structure Store (cfg : Cfg) (Ok : VB → Prop) (c : Nat) (m : Mem α) (w : VB) (b : List (Slot α)) : Prop where
  ws : m.ws[c]? = some w
  ok : Ok w
  len : b.length = cfg.ops.capacity w
  buf : cfg.ops.capacity w = 0 ∨ m.buf (regionOf cfg c w) = some b
  cnt : ∀ id, regionOf cfg c w = .blk id → cfg.ops.capacity w ≠ 0 → m.cnt id = some (cfg.ops.capacity w)
  inl : regionOf cfg c w ≠ .inl c → cfg.flavour = .small → m.buf (.inl c) = some (raws cfg.n)

/-- container `c` holds exactly `xs`, in words `w`: the first `size` slots of its buffer are the live elements, all other
    slots are raw -/
structure VRepW (cfg : Cfg) (Ok : VB → Prop) (c : Nat) (m : Mem α) (xs : List α) (w : VB) : Prop where
  store : Store cfg Ok c m w (lives xs ++ raws (cfg.ops.capacity w - xs.length))
  size : cfg.ops.size w = xs.length

theorem VRepW.ws {cfg : Cfg} {Ok : VB → Prop} {c : Nat} {m : Mem α} {xs : List α} {w : VB} (h : VRepW cfg Ok c m xs w) :
    m.ws[c]? = some w := h.store.ws
theorem VRepW.ok {cfg : Cfg} {Ok : VB → Prop} {c : Nat} {m : Mem α} {xs : List α} {w : VB} (h : VRepW cfg Ok c m xs w) :
    Ok w := h.store.ok
theorem VRepW.buf {cfg : Cfg} {Ok : VB → Prop} {c : Nat} {m : Mem α} {xs : List α} {w : VB} (h : VRepW cfg Ok c m xs w) :
    cfg.ops.capacity w = 0 ∨ m.buf (regionOf cfg c w) = some (lives xs ++ raws (cfg.ops.capacity w - xs.length)) := h.store.buf
theorem VRepW.le {cfg : Cfg} {Ok : VB → Prop} {c : Nat} {m : Mem α} {xs : List α} {w : VB} (h : VRepW cfg Ok c m xs w) :
    xs.length ≤ cfg.ops.capacity w := by
  have := h.store.len
  simp only [List.length_append, lives_length, raws_length] at this
  omega

def VRep (cfg : Cfg) (Ok : VB → Prop) (c : Nat) (m : Mem α) (xs : List α) : Prop := ∃ w, VRepW cfg Ok c m xs w

/-- what an operation on container `c` (whose elements live in the regions `rs`) leaves alone -/
structure Frame (c : Nat) (rs : List Region) (m m' : Mem α) : Prop where
  cat : m'.cat = m.cat
  hr : m'.hasRealloc = m.hasRealloc
  wsLen : m'.ws.length = m.ws.length
  wsOther : ∀ c', c' ≠ c → m'.ws[c']? = m.ws[c']?
  bufOther : ∀ r', r' ∉ rs → m'.buf r' = m.buf r'

theorem Frame.refl (c : Nat) (rs : List Region) (m : Mem α) : Frame c rs m m :=
  ⟨rfl, rfl, rfl, fun _ _ => rfl, fun _ _ => rfl⟩

theorem Frame.trans {c : Nat} {rs : List Region} {m m1 m2 : Mem α} (h1 : Frame c rs m m1) (h2 : Frame c rs m1 m2) :
    Frame c rs m m2 :=
  ⟨h2.cat.trans h1.cat, h2.hr.trans h1.hr, h2.wsLen.trans h1.wsLen,
   fun c' hc => (h2.wsOther c' hc).trans (h1.wsOther c' hc), fun r' hr => (h2.bufOther r' hr).trans (h1.bufOther r' hr)⟩

theorem Frame.mono {c : Nat} {rs rs' : List Region} {m m' : Mem α} (h : Frame c rs m m') (hs : ∀ r, r ∈ rs → r ∈ rs') :
    Frame c rs' m m' :=
  ⟨h.cat, h.hr, h.wsLen, h.wsOther, fun r' hr => h.bufOther r' (fun hin => hr (hs r' hin))⟩

/-- an element-level effect confined to region `r` is framed -/
theorem Frame.ofSet {c : Nat} {r : Region} {m m' : Mem α} {b : List (Slot α)} (hb : m'.buf = View.set m.buf r b) (hk : Keep m m') :
    Frame c [r] m m' :=
  ⟨hk.cat, hk.hr, by rw [hk.ws], fun _ _ => by rw [hk.ws], fun r' hr => by
    rw [hb, View.set_other]; simpa using hr⟩

theorem Frame.ofSame {c : Nat} {rs : List Region} {m m' : Mem α} (h : Same m m') : Frame c rs m m' :=
  ⟨h.2.cat, h.2.hr, by rw [h.2.ws], fun _ _ => by rw [h.2.ws], fun r' _ => by rw [h.1]⟩

/- word access ------------------------------------------------------------------------------------------- -/

theorem getW_post (m : Mem α) (c : Nat) (w : VB) (h : m.ws[c]? = some w) :
    Post (getW c) m (fun res m' => res = .ok w ∧ m' = m) := by
  unfold Post getW; mnorm; simp [h]; exact ⟨rfl, rfl⟩

theorem setW_run (m : Mem α) (c : Nat) (w : VB) : runM (setW c w) m = (.ok (), { m with ws := m.ws.set c w }) := by
  unfold setW; mnorm <;> rfl

theorem withWs_buf (m : Mem α) (ws : List VB) : ({ m with ws := ws } : Mem α).buf = m.buf := by
  funext r; cases r <;> rfl

theorem vsize_post (cfg : Cfg) (m : Mem α) (c : Nat) (w : VB) (h : m.ws[c]? = some w) :
    Post (vsize cfg c) m (fun res m' => res = .ok (cfg.ops.size w) ∧ m' = m) := by
  unfold vsize
  refine Post.bind (getW_post m c w h) ?_ (by okerr)
  rintro w' m1 ⟨hw, rfl⟩; injection hw with hw; subst hw; exact ⟨rfl, rfl⟩

theorem vcap_post (cfg : Cfg) (m : Mem α) (c : Nat) (w : VB) (h : m.ws[c]? = some w) :
    Post (vcap cfg c) m (fun res m' => res = .ok (cfg.ops.capacity w) ∧ m' = m) := by
  unfold vcap
  refine Post.bind (getW_post m c w h) ?_ (by okerr)
  rintro w' m1 ⟨hw, rfl⟩; injection hw with hw; subst hw; exact ⟨rfl, rfl⟩

theorem vbegin_post (cfg : Cfg) (m : Mem α) (c : Nat) (w : VB) (h : m.ws[c]? = some w) :
    Post (vbegin cfg c) m (fun res m' => res = .ok ⟨regionOf cfg c w, 0⟩ ∧ m' = m) := by
  unfold vbegin
  refine Post.bind (getW_post m c w h) ?_ (by okerr)
  rintro w' m1 ⟨hw, rfl⟩; injection hw with hw; subst hw
  exact ⟨by rw [← resolve_eq]; rfl, rfl⟩

theorem vend_post (cfg : Cfg) (m : Mem α) (c : Nat) (w : VB) (h : m.ws[c]? = some w) :
    Post (vend cfg c) m (fun res m' => res = .ok ⟨regionOf cfg c w, cfg.ops.size w⟩ ∧ m' = m) := by
  unfold vend
  refine Post.bind (vbegin_post cfg m c w h) ?_ (by okerr)
  rintro a m1 ⟨ha, rfl⟩; injection ha with ha; subst ha
  refine Post.bind (vsize_post cfg m1 c w h) ?_ (by okerr)
  rintro s m2 ⟨hs, rfl⟩; injection hs with hs; subst hs
  exact ⟨by simp [Addr.add]; rfl, rfl⟩

theorem posAddr_post (cfg : Cfg) (m : Mem α) (c : Nat) (w : VB) (p : Nat) (h : m.ws[c]? = some w) :
    Post (posAddr cfg c p) m (fun res m' => res = .ok ⟨regionOf cfg c w, p⟩ ∧ m' = m) := by
  unfold posAddr
  refine Post.bind (vbegin_post cfg m c w h) ?_ (by okerr)
  rintro a m1 ⟨ha, rfl⟩; injection ha with ha; subst ha
  exact ⟨by simp [Addr.add]; rfl, rfl⟩

end AmcVerif

namespace AmcVerif
variable {α β γ : Type}

theorem setW_post (m : Mem α) (c : Nat) (w : VB) :
    Post (setW c w) m (fun res m' => res = .ok () ∧ m' = { m with ws := m.ws.set c w }) := by
  unfold Post; rw [setW_run]; exact ⟨rfl, rfl⟩

theorem incrSize_post (cfg : Cfg) (m : Mem α) (c : Nat) (w : VB) (h : m.ws[c]? = some w) :
    Post (incrSize cfg c) m (fun res m' => res = .ok () ∧ m' = { m with ws := m.ws.set c (cfg.ops.incrSize w) }) := by
  unfold incrSize
  refine Post.bind (getW_post m c w h) ?_ (by okerr)
  rintro w' m1 ⟨hw, rfl⟩; injection hw with hw; subst hw
  exact setW_post m1 c _

theorem decrSize_post (cfg : Cfg) (m : Mem α) (c : Nat) (w : VB) (h : m.ws[c]? = some w) :
    Post (decrSize cfg c) m (fun res m' => res = .ok () ∧ m' = { m with ws := m.ws.set c (cfg.ops.decrSize w) }) := by
  unfold decrSize
  refine Post.bind (getW_post m c w h) ?_ (by okerr)
  rintro w' m1 ⟨hw, rfl⟩; injection hw with hw; subst hw
  exact setW_post m1 c _

theorem setSize_post (cfg : Cfg) (m : Mem α) (c : Nat) (w : VB) (s : Nat) (h : m.ws[c]? = some w) (hs : s ≤ cfg.ops.kMax) :
    Post (setSize cfg c s) m (fun res m' => res = .ok () ∧ m' = { m with ws := m.ws.set c (cfg.ops.setSize w s) }) := by
  unfold setSize
  refine Post.bind (getW_post m c w h) ?_ (by okerr)
  rintro w' m1 ⟨hw, rfl⟩; injection hw with hw; subst hw
  rw [Nat.mod_eq_of_lt (by omega)]
  exact setW_post m1 c _

theorem regionOf_congr (cfg : Cfg) (c : Nat) (w w' : VB) (h : cfg.ops.begin w' = cfg.ops.begin w) :
    regionOf cfg c w' = regionOf cfg c w := by unfold regionOf; rw [h]

/-- an element-level update of the buffer of container `c` -/
theorem Store.set {cfg : Cfg} {Ok : VB → Prop} {c : Nat} {m m' : Mem α} {w : VB} {b b' : List (Slot α)}
    (h : Store cfg Ok c m w b) (hb : m'.buf = View.set m.buf (regionOf cfg c w) b') (hl : b'.length = b.length) (hk : Keep m m') :
    Store cfg Ok c m' w b' := by
  refine ⟨by rw [hk.ws]; exact h.ws, h.ok, hl.trans h.len, Or.inr (by rw [hb]; simp), fun id hr hc => by rw [hk.cnt]; exact h.cnt id hr hc, ?_⟩
  intro hne hfl
  rw [hb, View.set_other _ _ _ _ (Ne.symm hne)]
  exact h.inl hne hfl

theorem Store.same {cfg : Cfg} {Ok : VB → Prop} {c : Nat} {m m' : Mem α} {w : VB} {b : List (Slot α)}
    (h : Store cfg Ok c m w b) (hs : Same m m') : Store cfg Ok c m' w b :=
  ⟨by rw [hs.2.ws]; exact h.ws, h.ok, h.len, by rw [hs.1]; exact h.buf, fun id hr hc => by rw [hs.2.cnt]; exact h.cnt id hr hc,
   fun hne hfl => by rw [hs.1]; exact h.inl hne hfl⟩

theorem withWs_cnt (m : Mem α) (ws : List VB) (id : Nat) : ({ m with ws := ws } : Mem α).cnt id = m.cnt id := rfl

/-- new words for container `c` that keep the buffer pointer and the capacity -/
theorem Store.withWs {cfg : Cfg} {Ok : VB → Prop} {c : Nat} {m : Mem α} {w w' : VB} {b : List (Slot α)}
    (h : Store cfg Ok c m w b) (hok : Ok w') (hbeg : cfg.ops.begin w' = cfg.ops.begin w) (hcap : cfg.ops.capacity w' = cfg.ops.capacity w) :
    Store cfg Ok c ({ m with ws := m.ws.set c w' } : Mem α) w' b := by
  have hc : c < m.ws.length := by
    rcases Nat.lt_or_ge c m.ws.length with h1 | h1
    · exact h1
    · have := h.ws; simp [List.getElem?_eq_none h1] at this
  have hreg := regionOf_congr cfg c w w' hbeg
  refine ⟨by simp [hc], hok, by rw [hcap]; exact h.len, ?_, ?_, ?_⟩
  · rw [withWs_buf, hreg, hcap]; exact h.buf
  · intro id hr hne; rw [withWs_cnt, hcap]; exact h.cnt id (hreg ▸ hr) (hcap ▸ hne)
  · intro hne hfl; rw [withWs_buf]; exact h.inl (hreg ▸ hne) hfl

/-- committing new words `w'` (same buffer pointer, same capacity) once the buffer holds `xs'` followed by raw slots -/
theorem VRepW.commit {cfg : Cfg} {Ok : VB → Prop} {c : Nat} {m : Mem α} {w w' : VB} {xs' : List α}
    (h : Store cfg Ok c m w (lives xs' ++ raws (cfg.ops.capacity w - xs'.length))) (hok : Ok w')
    (hbeg : cfg.ops.begin w' = cfg.ops.begin w) (hcap : cfg.ops.capacity w' = cfg.ops.capacity w) (hsz : cfg.ops.size w' = xs'.length) :
    VRepW cfg Ok c ({ m with ws := m.ws.set c w' } : Mem α) xs' w' :=
  ⟨by rw [hcap]; exact h.withWs hok hbeg hcap, hsz⟩

theorem Frame.withWs (c : Nat) (rs : List Region) (m : Mem α) (w : VB) : Frame c rs m ({ m with ws := m.ws.set c w } : Mem α) :=
  ⟨rfl, rfl, by simp, fun c' hc => by simp [List.getElem?_set_ne (Ne.symm hc)], fun r' _ => by rw [withWs_buf]⟩

/-- `adjustCapacity` when the capacity suffices: nothing happens -/
theorem adjustCapacity_room (cfg : Cfg) (Ok : VB → Prop) (L : SizeLaws cfg.ops Ok) (m : Mem α) (c : Nat) (w : VB) (needed : Nat)
    (h : m.ws[c]? = some w) (hroom : needed ≤ cfg.ops.capacity w) :
    Post (adjustCapacity cfg c needed) m (fun res m' => res = .ok () ∧ m' = m) := by
  unfold adjustCapacity
  split
  · refine Post.bind (vcap_post cfg m c w h) ?_ (by okerr)
    rintro k m1 ⟨hk, rfl⟩; injection hk with hk; subst hk
    rw [if_neg (by omega)]; exact ⟨rfl, rfl⟩
  · split
    · refine Post.bind (vcap_post cfg m c w h) ?_ (by okerr)
      rintro k m1 ⟨hk, rfl⟩; injection hk with hk; subst hk
      rw [L.checkOk _ _ hroom]; exact ⟨rfl, rfl⟩
    · refine Post.bind (vcap_post cfg m c w h) ?_ (by okerr)
      rintro k m1 ⟨hk, rfl⟩; injection hk with hk; subst hk
      rw [if_neg (by omega)]; exact ⟨rfl, rfl⟩

theorem adjustCapacityRef_room (cfg : Cfg) (Ok : VB → Prop) (L : SizeLaws cfg.ops Ok) (m : Mem α) (c : Nat) (w : VB) (needed : Nat)
    (ref : Ref α) (h : m.ws[c]? = some w) (hroom : needed ≤ cfg.ops.capacity w) :
    Post (adjustCapacityRef cfg c needed ref) m (fun res m' => res = .ok ref ∧ m' = m) := by
  unfold adjustCapacityRef
  split
  · refine Post.bind (vcap_post cfg m c w h) ?_ (by okerr)
    rintro k m1 ⟨hk, rfl⟩; injection hk with hk; subst hk
    rw [if_neg (by omega)]; exact ⟨rfl, rfl⟩
  · refine Post.bind (adjustCapacity_room cfg Ok L m c w needed h hroom) ?_ (by okerr)
    rintro _ m1 ⟨_, rfl⟩
    exact ⟨rfl, rfl⟩

end AmcVerif

namespace AmcVerif
variable {α β γ : Type}

/-- all block identifiers in use are below the next fresh one -/
def Fresh (m : Mem α) : Prop := ∀ id, (m.buf (.blk id)).isSome → id < m.nextId

/-- frame of an operation that may move the elements of container `c` to a freshly allocated block -/
structure FrameG (c : Nat) (r : Region) (m m' : Mem α) : Prop where
  cat : m'.cat = m.cat
  hr : m'.hasRealloc = m.hasRealloc
  wsLen : m'.ws.length = m.ws.length
  wsOther : ∀ c', c' ≠ c → m'.ws[c']? = m.ws[c']?
  nid : m.nextId ≤ m'.nextId
  fresh : Fresh m → Fresh m'
  bufOther : ∀ r', r' ≠ r → (∀ id, r' = .blk id → id < m.nextId) → m'.buf r' = m.buf r'
  /-- the allocation counts of the pre-existing blocks of others are unchanged -/
  cntOther : ∀ id, Region.blk id ≠ r → id < m.nextId → m'.cnt id = m.cnt id

theorem FrameG.refl (c : Nat) (r : Region) (m : Mem α) : FrameG c r m m :=
  ⟨rfl, rfl, rfl, fun _ _ => rfl, Nat.le_refl _, id, fun _ _ _ => rfl, fun _ _ _ => rfl⟩

theorem View.set_isSome (v : View α) (r : Region) (b : List (Slot α)) (h : (v r).isSome) (r' : Region) :
    ((v.set r b) r').isSome = (v r').isSome := by
  by_cases hr : r' = r
  · subst hr; simp [h]
  · rw [View.set_other _ _ _ _ hr]

/- leak freedom ------------------------------------------------------------------------------------------ -/

/-- container `c` owns heap block `id` in memory `m`: its words point to that block and its capacity is not 0 (a container
    of capacity 0 has no storage: the null pointer of an `amc::vector` resolves to block 0 without owning it) -/
def OwnsBlk (cfg : Cfg) (c : Nat) (m : Mem α) (id : Nat) : Prop :=
  ∃ w, m.ws[c]? = some w ∧ regionOf cfg c w = .blk id ∧ 0 < cfg.ops.capacity w

/-- no heap block is leaked (or stolen) by a step from `m` to `m'` on container `c`: every heap block that exists in `m'`
    is a block of somebody else that already existed (and still is not `c`'s), or the block `c` owned before and still owns,
    or a freshly allocated block that `c` owns now. In particular: the set of existing blocks is the old set, minus the old
    block of `c` if `c` moved to another block, plus the new block of `c` — nothing else. -/
def NoLeak (cfg : Cfg) (c : Nat) (m m' : Mem α) : Prop :=
  ∀ id, (m'.buf (.blk id)).isSome →
    ((m.buf (.blk id)).isSome ∧ ¬ OwnsBlk cfg c m id ∧ ¬ OwnsBlk cfg c m' id)
    ∨ ((m.buf (.blk id)).isSome ∧ OwnsBlk cfg c m id ∧ OwnsBlk cfg c m' id)
    ∨ (m.nextId ≤ id ∧ OwnsBlk cfg c m' id)

theorem OwnsBlk.congr {cfg : Cfg} {c : Nat} {m m' : Mem α} (h : m'.ws[c]? = m.ws[c]?) (id : Nat) :
    OwnsBlk cfg c m' id ↔ OwnsBlk cfg c m id := by
  unfold OwnsBlk; rw [h]

/-- what a container with words `w` owns -/
theorem OwnsBlk.iff {cfg : Cfg} {c : Nat} {m : Mem α} {w : VB} (h : m.ws[c]? = some w) (id : Nat) :
    OwnsBlk cfg c m id ↔ (regionOf cfg c w = .blk id ∧ 0 < cfg.ops.capacity w) := by
  constructor
  · rintro ⟨w', hw', hr, hc⟩
    rw [h] at hw'; injection hw' with hw'; subst hw'
    exact ⟨hr, hc⟩
  · rintro ⟨hr, hc⟩; exact ⟨w, h, hr, hc⟩

theorem NoLeak.refl (cfg : Cfg) (c : Nat) (m : Mem α) : NoLeak cfg c m m := by
  intro id hid
  by_cases ho : OwnsBlk cfg c m id
  · exact Or.inr (Or.inl ⟨hid, ho, ho⟩)
  · exact Or.inl ⟨hid, ho, ho⟩

/-- a further step that creates no block and does not change what `c` owns -/
theorem NoLeak.step {cfg : Cfg} {c : Nat} {m m1 m2 : Mem α} (h : NoLeak cfg c m m1)
    (hbuf : ∀ id, (m2.buf (.blk id)).isSome → (m1.buf (.blk id)).isSome)
    (hown : ∀ id, OwnsBlk cfg c m2 id ↔ OwnsBlk cfg c m1 id) : NoLeak cfg c m m2 := by
  intro id hid
  rcases h id (hbuf id hid) with ⟨h1, h2, h3⟩ | ⟨h1, h2, h3⟩ | ⟨h1, h3⟩
  · exact Or.inl ⟨h1, h2, fun ho => h3 ((hown id).mp ho)⟩
  · exact Or.inr (Or.inl ⟨h1, h2, (hown id).mpr h3⟩)
  · exact Or.inr (Or.inr ⟨h1, (hown id).mpr h3⟩)

/-- composition through an intermediate memory -/
theorem NoLeak.trans {cfg : Cfg} {c : Nat} {m m1 m2 : Mem α} (h1 : NoLeak cfg c m m1) (h2 : NoLeak cfg c m1 m2)
    (hn : m.nextId ≤ m1.nextId) : NoLeak cfg c m m2 := by
  intro id hid
  rcases h2 id hid with ⟨e1, n1, n2⟩ | ⟨e1, o1, o2⟩ | ⟨f1, o2⟩
  · rcases h1 id e1 with ⟨e0, n0, _⟩ | ⟨_, _, o1⟩ | ⟨_, o1⟩
    · exact Or.inl ⟨e0, n0, n2⟩
    · exact absurd o1 n1
    · exact absurd o1 n1
  · rcases h1 id e1 with ⟨_, _, n1⟩ | ⟨e0, o0, _⟩ | ⟨f0, _⟩
    · exact absurd o1 n1
    · exact Or.inr (Or.inl ⟨e0, o0, o2⟩)
    · exact Or.inr (Or.inr ⟨f0, o2⟩)
  · exact Or.inr (Or.inr ⟨Nat.le_trans hn f1, o2⟩)

/-- the three kinds of steps the operation proofs are made of: an element-level update of an existing region … -/
theorem NoLeak.ofSet {cfg : Cfg} {c : Nat} {m m' : Mem α} {r : Region} {b : List (Slot α)}
    (hb : m'.buf = View.set m.buf r b) (hr : (m.buf r).isSome) (hk : Keep m m') : NoLeak cfg c m m' :=
  (NoLeak.refl cfg c m).step (fun id hid => by rw [hb, View.set_isSome _ _ _ hr] at hid; exact hid)
    (OwnsBlk.congr (by rw [hk.ws]))

/-- … a step that changes neither the view nor the words … -/
theorem NoLeak.ofSame {cfg : Cfg} {c : Nat} {m m' : Mem α} (hs : Same m m') : NoLeak cfg c m m' :=
  (NoLeak.refl cfg c m).step (fun id hid => by rw [hs.1] at hid; exact hid) (OwnsBlk.congr (by rw [hs.2.ws]))

theorem OwnsBlk.withWs {cfg : Cfg} {c : Nat} {m : Mem α} {w w' : VB} (hws : m.ws[c]? = some w)
    (hbeg : cfg.ops.begin w' = cfg.ops.begin w) (hcap : cfg.ops.capacity w' = cfg.ops.capacity w) (id : Nat) :
    OwnsBlk cfg c ({ m with ws := m.ws.set c w' } : Mem α) id ↔ OwnsBlk cfg c m id := by
  have hc : c < m.ws.length := by
    rcases Nat.lt_or_ge c m.ws.length with h1 | h1
    · exact h1
    · simp [List.getElem?_eq_none h1] at hws
  rw [OwnsBlk.iff (w := w') (by simp [hc]), OwnsBlk.iff hws, regionOf_congr cfg c w w' hbeg, hcap]

/-- … and new words for container `c` with the same buffer pointer and capacity -/
theorem NoLeak.withWs {cfg : Cfg} {c : Nat} {m : Mem α} {w w' : VB} (hws : m.ws[c]? = some w)
    (hbeg : cfg.ops.begin w' = cfg.ops.begin w) (hcap : cfg.ops.capacity w' = cfg.ops.capacity w) :
    NoLeak cfg c m ({ m with ws := m.ws.set c w' } : Mem α) :=
  (NoLeak.refl cfg c m).step (fun id hid => by rw [withWs_buf] at hid; exact hid) (OwnsBlk.withWs hws hbeg hcap)

/-- `FrameG` together with leak freedom: what an operation on container `c` leaves alone, and no heap block is left behind -/
structure FrameL (cfg : Cfg) (c : Nat) (r : Region) (m m' : Mem α) : Prop extends FrameG c r m m' where
  noLeak : NoLeak cfg c m m'

theorem FrameL.refl (cfg : Cfg) (c : Nat) (r : Region) (m : Mem α) : FrameL cfg c r m m :=
  ⟨FrameG.refl c r m, NoLeak.refl cfg c m⟩

/-- container `c`, which held `xs` in words `w`, now holds `xs` in words `w'` with room for `needed` elements, in the same
    region or in a fresh block -/
structure Grown (cfg : Cfg) (Ok : VB → Prop) (c : Nat) (m m' : Mem α) (xs : List α) (w w' : VB) (needed : Nat) : Prop where
  rep : VRepW cfg Ok c m' xs w'
  cap : needed ≤ cfg.ops.capacity w'
  reg : regionOf cfg c w' = regionOf cfg c w ∨ ∃ id, regionOf cfg c w' = .blk id ∧ m.nextId ≤ id

/-- outcome of `grow` / a capacity adjustment on a container holding `xs` in words `w`: the container still holds `xs`
    with room for `needed` elements; or an exception was thrown and the container is exactly as before (same words, same
    buffers) -/
def GrowPost (cfg : Cfg) (Ok : VB → Prop) (c : Nat) (m : Mem α) (xs : List α) (w : VB) (needed : Nat) :
    Except Stop Unit → Mem α → Prop :=
  fun res m' =>
    ((res = .ok () ∧ ∃ w', Grown cfg Ok c m m' xs w w' needed) ∨
     (∃ e, res = .error (.exc e) ∧ VRepW cfg Ok c m' xs w ∧ m'.buf = m.buf)) ∧ FrameL cfg c (regionOf cfg c w) m m'

/-- what the flavour's `grow` guarantees (proved per flavour; vacuous for FixedCapacityVector, which never grows) -/
def GrowSpec (α : Type) (cfg : Cfg) (Ok : VB → Prop) : Prop :=
  cfg.dynamic = true → ∀ (m : Mem α) (c : Nat) (xs : List α) (w : VB) (needed : Nat) (exact : Bool),
    VRepW cfg Ok c m xs w → Fresh m → cfg.ops.capacity w < needed → (exact = true → needed ≤ cfg.ops.kMax) →
    Post (grow cfg c needed exact) m (GrowPost cfg Ok c m xs w needed)

/-- the laws a flavour has to provide -/
structure VecLaws (α : Type) (cfg : Cfg) (Ok : VB → Prop) : Prop where
  size : SizeLaws cfg.ops Ok
  grow : GrowSpec α cfg Ok
  /-- the unchecked static growing policy has undefined behaviour on overflow: not covered -/
  checked : cfg.dynamic = false → cfg.checked = true

theorem GrowPost.stay {cfg : Cfg} {Ok : VB → Prop} {c : Nat} {m : Mem α} {xs : List α} {w : VB} {needed : Nat}
    (h : VRepW cfg Ok c m xs w) (hroom : needed ≤ cfg.ops.capacity w) : GrowPost cfg Ok c m xs w needed (.ok ()) m :=
  ⟨Or.inl ⟨rfl, w, ⟨h, hroom, Or.inl rfl⟩⟩, FrameL.refl _ _ _ _⟩

/-- `adjustCapacity(needed)`: room afterwards, or an exception and nothing changed -/
theorem adjustCapacity_post {cfg : Cfg} {Ok : VB → Prop} (L : VecLaws α cfg Ok) (m : Mem α) (c : Nat) (xs : List α) (w : VB)
    (needed : Nat) (h : VRepW cfg Ok c m xs w) (hf : Fresh m) :
    Post (adjustCapacity cfg c needed) m (GrowPost cfg Ok c m xs w needed) := by
  by_cases hroom : needed ≤ cfg.ops.capacity w
  · refine Post.mono (adjustCapacity_room cfg Ok L.size m c w needed h.ws hroom) ?_
    rintro res m' ⟨hr, rfl⟩; subst hr
    exact GrowPost.stay h hroom
  · unfold adjustCapacity
    by_cases hd : cfg.dynamic = true
    · rw [if_pos hd]
      refine Post.bind (vcap_post cfg m c w h.ws) ?_ (by okerr)
      rintro k m1 ⟨hk, rfl⟩; injection hk with hk; subst hk
      rw [if_pos (by omega)]
      exact L.grow hd m1 c xs w needed false h hf (by omega) (by simp)
    · rw [if_neg hd, if_pos (L.checked (by simpa using hd))]
      refine Post.bind (vcap_post cfg m c w h.ws) ?_ (by okerr)
      rintro k m1 ⟨hk, rfl⟩; injection hk with hk; subst hk
      rw [L.size.checkErr _ _ (by omega)]
      exact ⟨Or.inr ⟨_, rfl, h, rfl⟩, FrameL.refl _ _ _ _⟩

end AmcVerif

namespace AmcVerif
variable {α β γ : Type}

/-- a `const T&` argument of an operation on container `c` denotes the value `v`: an outside object, an element of the
    container itself (aliasing) or a live object in another region that already exists -/
def RefOK (cfg : Cfg) (c : Nat) (m : Mem α) (w : VB) (xs : List α) : Ref α → α → Prop
  | .lit x, v => x = v
  | .at a, v => (a.r = regionOf cfg c w ∧ xs[a.i]? = some v) ∨
                (a.r ≠ regionOf cfg c w ∧ (∀ id, a.r = .blk id → id < m.nextId) ∧ ∃ b, m.buf a.r = some b ∧ b[a.i]? = some (.live v))

theorem lives_get (xs : List α) (i : Nat) (v : α) (h : xs[i]? = some v) : (lives xs)[i]? = some (.live v) := by
  simp [lives, h]

/-- a valid argument reference lies outside any window that starts at or after `size()` -/
theorem RefOK.refIn {cfg : Cfg} {c : Nat} {m : Mem α} {w : VB} {xs : List α} {ref : Ref α} {v : α}
    (h : RefOK cfg c m w xs ref v) (post : List (Slot α)) (n : Nat) :
    RefIn m.buf (regionOf cfg c w) (lives xs) post n ref v := by
  cases ref with
  | lit x => exact h
  | «at» a =>
    rcases h with ⟨hr, hv⟩ | ⟨hr, _, b, hb, hv⟩
    · exact Or.inr (Or.inl ⟨hr, lives_get _ _ _ hv⟩)
    · exact Or.inl ⟨hr, b, hb, hv⟩

/-- `adjustCapacity(needed, v)`: as `adjustCapacity`, and the returned reference still denotes `v` -/
theorem adjustCapacityRef_post {cfg : Cfg} {Ok : VB → Prop} (L : VecLaws α cfg Ok) (m : Mem α) (c : Nat) (xs : List α) (w : VB)
    (needed : Nat) (ref : Ref α) (v : α) (h : VRepW cfg Ok c m xs w) (hf : Fresh m) (hv : RefOK cfg c m w xs ref v) :
    Post (adjustCapacityRef cfg c needed ref) m (fun res m' =>
      ((∃ ref', res = .ok ref' ∧ ∃ w', Grown cfg Ok c m m' xs w w' needed ∧ RefOK cfg c m' w' xs ref' v) ∨
       (∃ e, res = .error (.exc e) ∧ VRepW cfg Ok c m' xs w ∧ m'.buf = m.buf)) ∧ FrameL cfg c (regionOf cfg c w) m m') := by
  by_cases hroom : needed ≤ cfg.ops.capacity w
  · refine Post.mono (adjustCapacityRef_room cfg Ok L.size m c w needed ref h.ws hroom) ?_
    rintro res m' ⟨hr, rfl⟩; subst hr
    exact ⟨Or.inl ⟨ref, rfl, w, ⟨h, hroom, Or.inl rfl⟩, hv⟩, FrameL.refl _ _ _ _⟩
  · unfold adjustCapacityRef
    by_cases hd : cfg.dynamic = true
    · rw [if_pos hd]
      refine Post.bind (vcap_post cfg m c w h.ws) ?_ (by okerr)
      rintro k m1 ⟨hk, rfl⟩; injection hk with hk; subst hk
      rw [if_pos (by omega)]
      refine Post.bind (vbegin_post cfg m1 c w h.ws) ?_ (by okerr)
      rintro b m2 ⟨hb, rfl⟩; injection hb with hb; subst hb
      refine Post.bind (vsize_post cfg m2 c w h.ws) ?_ (by okerr)
      rintro sz m3 ⟨hsz, rfl⟩; injection hsz with hsz; subst hsz
      refine Post.bind (L.grow hd m3 c xs w needed false h hf (by omega) (by simp)) ?_ ?_
      · rintro _ m4 ⟨hq, hfr⟩
        rcases hq with ⟨_, w', ⟨hw', hcap, hreg⟩⟩ | ⟨e, he, _⟩
        · cases ref with
          | lit x =>
            exact ⟨Or.inl ⟨.lit x, rfl, w', ⟨hw', hcap, hreg⟩, hv⟩, hfr⟩
          | «at» a =>
            rcases hv with ⟨hr, hx⟩ | ⟨hr, hid, b, hb, hbv⟩
            · have hlt : a.i < xs.length := by
                rcases Nat.lt_or_ge a.i xs.length with h1 | h1
                · exact h1
                · simp [List.getElem?_eq_none h1] at hx
              have hcond : (a.r == regionOf cfg c w && decide (0 ≤ a.i) && decide (a.i < 0 + cfg.ops.size w)) = true := by
                simp [hr, h.size, hlt]
              simp only [hcond, ↓reduceIte]
              refine Post.bind (vbegin_post cfg m4 c w' hw'.ws) ?_ (by okerr)
              rintro b' m5 ⟨hb', rfl⟩; injection hb' with hb'; subst hb'
              refine ⟨Or.inl ⟨_, rfl, w', ⟨hw', hcap, hreg⟩, Or.inl ⟨rfl, by simpa using hx⟩⟩, hfr⟩
            · have hcond : (a.r == regionOf cfg c w && decide (0 ≤ a.i) && decide (a.i < 0 + cfg.ops.size w)) = false := by
                simp [hr]
              simp only [hcond, Bool.false_eq_true, ↓reduceIte]
              refine ⟨Or.inl ⟨_, rfl, w', ⟨hw', hcap, hreg⟩, Or.inr ⟨?_, fun id hid' => Nat.lt_of_lt_of_le (hid id hid') hfr.nid, b, ?_, hbv⟩⟩, hfr⟩
              · rcases hreg with hreg | ⟨id, hreg, hge⟩
                · rw [hreg]; exact hr
                · intro heq
                  have := hid id (heq.trans hreg)
                  omega
              · show m4.buf a.r = some b
                rw [hfr.bufOther a.r hr hid]; exact hb
        · cases he
      · rintro e m4 ⟨hq, hfr⟩
        rcases hq with ⟨he, _⟩ | ⟨e', he, hw', hb'⟩
        · cases he
        · injection he with he; subst he
          exact ⟨Or.inr ⟨e', rfl, hw', hb'⟩, hfr⟩
    · rw [if_neg hd]
      unfold adjustCapacity
      rw [if_neg hd, if_pos (L.checked (by simpa using hd))]
      refine Post.bind (Post.bind (vcap_post cfg m c w h.ws) (Q := fun res m' => res = .error (.exc .outOfRange) ∧ m' = m) ?_ (by okerr)) ?_ ?_
      · rintro k m1 ⟨hk, rfl⟩; injection hk with hk; subst hk
        rw [L.size.checkErr _ _ (by omega)]
        exact ⟨rfl, rfl⟩
      · rintro _ m1 ⟨he, _⟩; cases he
      · rintro e m1 ⟨he, rfl⟩
        injection he with he; subst he
        exact ⟨Or.inr ⟨_, rfl, h, rfl⟩, FrameL.refl _ _ _ _⟩
end AmcVerif

namespace AmcVerif
variable {α β γ : Type}

theorem VRepW.ofSame {cfg : Cfg} {Ok : VB → Prop} {c : Nat} {m m' : Mem α} {xs : List α} {w : VB}
    (h : VRepW cfg Ok c m xs w) (hs : Same m m') : VRepW cfg Ok c m' xs w :=
  ⟨h.store.same hs, h.size⟩

theorem Fresh.ofSet {m m' : Mem α} {r : Region} {b : List (Slot α)} (hf : Fresh m) (hn : m'.nextId = m.nextId)
    (hb : m'.buf = View.set m.buf r b) (hr : (m.buf r).isSome) : Fresh m' := by
  intro id hid
  rw [hb, View.set_isSome _ _ _ hr] at hid
  rw [hn]; exact hf id hid

theorem Fresh.ofSame {m m' : Mem α} (hf : Fresh m) (hs : Same m m') : Fresh m' := by
  intro id hid
  rw [hs.1] at hid
  rw [hs.2.nid]; exact hf id hid

/-- an element-level effect on the (possibly fresh) region of container `c`, after a framed prefix -/
theorem FrameG.elem {c : Nat} {r0 r1 : Region} {m m1 m2 : Mem α} {b : List (Slot α)} (h : FrameG c r0 m m1)
    (hreg : r1 = r0 ∨ ∃ id, r1 = .blk id ∧ m.nextId ≤ id) (hsome : (m1.buf r1).isSome)
    (hb : m2.buf = View.set m1.buf r1 b) (hk : Keep m1 m2) : FrameG c r0 m m2 := by
  refine ⟨hk.cat.trans h.cat, hk.hr.trans h.hr, by rw [hk.ws]; exact h.wsLen, fun c' hc => by rw [hk.ws]; exact h.wsOther c' hc,
    by rw [hk.nid]; exact h.nid, fun hf => Fresh.ofSet (h.fresh hf) hk.nid hb hsome, ?_, fun id hne hlt => ?_⟩
  · intro r' hne hold
    have hne1 : r' ≠ r1 := by
      rcases hreg with hreg | ⟨id, hreg, hge⟩
      · rw [hreg]; exact hne
      · intro heq
        have := hold id (heq.trans hreg)
        omega
    rw [hb, View.set_other _ _ _ _ hne1]
    exact h.bufOther r' hne hold
  · exact (hk.cnt id).trans (h.cntOther id hne hlt)

theorem FrameG.same {c : Nat} {r0 : Region} {m m1 m2 : Mem α} (h : FrameG c r0 m m1) (hs : Same m1 m2) : FrameG c r0 m m2 :=
  ⟨hs.2.cat.trans h.cat, hs.2.hr.trans h.hr, by rw [hs.2.ws]; exact h.wsLen, fun c' hc => by rw [hs.2.ws]; exact h.wsOther c' hc,
    by rw [hs.2.nid]; exact h.nid, fun hf => (h.fresh hf).ofSame hs, fun r' hne hold => by rw [hs.1]; exact h.bufOther r' hne hold,
    fun id hne hlt => (hs.2.cnt id).trans (h.cntOther id hne hlt)⟩

theorem FrameG.withWs {c : Nat} {r0 : Region} {m m1 : Mem α} (h : FrameG c r0 m m1) (w : VB) :
    FrameG c r0 m ({ m1 with ws := m1.ws.set c w } : Mem α) :=
  ⟨h.cat, h.hr, by simpa using h.wsLen, fun c' hc => by simpa [List.getElem?_set_ne (Ne.symm hc)] using h.wsOther c' hc,
    h.nid, fun hf => by
      intro id hid
      rw [withWs_buf] at hid
      exact h.fresh hf id hid,
    fun r' hne hold => by rw [withWs_buf]; exact h.bufOther r' hne hold,
    fun id hne hlt => (withWs_cnt _ _ _).trans (h.cntOther id hne hlt)⟩

/-- an element-level effect on the (possibly fresh) region of container `c`, after a framed, leak-free prefix -/
theorem FrameL.elem {cfg : Cfg} {c : Nat} {r0 r1 : Region} {m m1 m2 : Mem α} {b : List (Slot α)} (h : FrameL cfg c r0 m m1)
    (hreg : r1 = r0 ∨ ∃ id, r1 = .blk id ∧ m.nextId ≤ id) (hsome : (m1.buf r1).isSome)
    (hb : m2.buf = View.set m1.buf r1 b) (hk : Keep m1 m2) : FrameL cfg c r0 m m2 :=
  ⟨h.toFrameG.elem hreg hsome hb hk,
   h.noLeak.step (fun id hid => by rw [hb, View.set_isSome _ _ _ hsome] at hid; exact hid) (OwnsBlk.congr (by rw [hk.ws]))⟩

theorem FrameL.same {cfg : Cfg} {c : Nat} {r0 : Region} {m m1 m2 : Mem α} (h : FrameL cfg c r0 m m1) (hs : Same m1 m2) :
    FrameL cfg c r0 m m2 :=
  ⟨h.toFrameG.same hs, h.noLeak.step (fun id hid => by rw [hs.1] at hid; exact hid) (OwnsBlk.congr (by rw [hs.2.ws]))⟩

/-- new words `w'` for container `c` (which has words `w1`) with the same buffer pointer and the same capacity -/
theorem FrameL.withWs {cfg : Cfg} {c : Nat} {r0 : Region} {m m1 : Mem α} (h : FrameL cfg c r0 m m1) {w1 : VB} (w' : VB)
    (hws : m1.ws[c]? = some w1) (hbeg : cfg.ops.begin w' = cfg.ops.begin w1)
    (hcap : cfg.ops.capacity w' = cfg.ops.capacity w1) :
    FrameL cfg c r0 m ({ m1 with ws := m1.ws.set c w' } : Mem α) :=
  ⟨h.toFrameG.withWs w', h.noLeak.step (fun id hid => by rw [withWs_buf] at hid; exact hid) (OwnsBlk.withWs hws hbeg hcap)⟩

/-- strong guarantee: the operation succeeds with `xs'`, or throws and the container still holds `xs` -/
def StrongPost (cfg : Cfg) (Ok : VB → Prop) (c : Nat) (m : Mem α) (w : VB) (xs xs' : List α) (okv : β) :
    Except Stop β → Mem α → Prop :=
  fun res m' => ((res = .ok okv ∧ VRep cfg Ok c m' xs') ∨ (∃ e, res = .error (.exc e) ∧ VRep cfg Ok c m' xs))
    ∧ FrameL cfg c (regionOf cfg c w) m m'

/-- basic guarantee: the operation succeeds with `xs'`, or throws and the container holds some valid sequence -/
def BasicPost (cfg : Cfg) (Ok : VB → Prop) (c : Nat) (m : Mem α) (w : VB) (xs' : List α) (okv : β) :
    Except Stop β → Mem α → Prop :=
  fun res m' => ((res = .ok okv ∧ VRep cfg Ok c m' xs') ∨ (∃ e xs'', res = .error (.exc e) ∧ VRep cfg Ok c m' xs''))
    ∧ FrameL cfg c (regionOf cfg c w) m m'

theorem lives_snoc (xs : List α) (v : α) (rest : List (Slot α)) : lives xs ++ .live v :: rest = lives (xs ++ [v]) ++ rest := by
  simp [lives]

theorem raws_succ_sub (cap len : Nat) (h : len + 1 ≤ cap) : (raws (cap - len) : List (Slot α)) = .raw :: raws (cap - (len + 1)) := by
  have : cap - len = (cap - (len + 1)) + 1 := by omega
  rw [this]; simp [raws, List.replicate_succ]

theorem VRepW.isSome {cfg : Cfg} {Ok : VB → Prop} {c : Nat} {m : Mem α} {xs : List α} {w : VB}
    (h : VRepW cfg Ok c m xs w) (hc : 0 < cfg.ops.capacity w) : (m.buf (regionOf cfg c w)).isSome := by
  rcases h.buf with h0 | hb
  · omega
  · rw [hb]; rfl

/-- `push_back(const T&)` -/
theorem pushBackCopy_post {cfg : Cfg} {Ok : VB → Prop} (L : VecLaws α cfg Ok) (m : Mem α) (c : Nat) (xs : List α) (w : VB)
    (ref : Ref α) (v : α) (h : VRepW cfg Ok c m xs w) (hf : Fresh m) (hv : RefOK cfg c m w xs ref v) :
    Post (pushBackCopy cfg c ref) m (StrongPost cfg Ok c m w xs (xs ++ [v]) ()) := by
  unfold pushBackCopy
  refine Post.bind (vsize_post cfg m c w h.ws) ?_ (by okerr)
  rintro sz m0 ⟨hsz, rfl⟩; injection hsz with hsz; subst hsz
  rw [h.size]
  refine Post.bind (adjustCapacityRef_post L m0 c xs w (xs.length + 1) ref v h hf hv) ?_ ?_
  · rintro ref' m1 ⟨hq, hfr⟩
    rcases hq with ⟨ref'', hr, w', ⟨hw', hcap, hreg⟩, hv'⟩ | ⟨e, he, _⟩
    · injection hr with hr; subst hr
      refine Post.bind (vend_post cfg m1 c w' hw'.ws) ?_ (by okerr)
      rintro a m2 ⟨ha, rfl⟩; injection ha with ha; subst ha
      have hbuf : m2.buf (regionOf cfg c w') = some (lives xs ++ .raw :: raws (cfg.ops.capacity w' - (xs.length + 1))) := by
        rcases hw'.buf with h0 | hb
        · omega
        · rw [hb, raws_succ_sub _ _ hcap]
      have hd := deref_post m2 (regionOf cfg c w') (lives xs) (.raw :: raws (cfg.ops.capacity w' - (xs.length + 1))) [] ref' v
        (by simpa using hbuf) (hv'.refIn _ _)
      have hact := constructCopyRef_post m2 (regionOf cfg c w') (lives xs) _ ref' v hbuf hd
      rw [hw'.size, show xs.length = (lives xs).length by simp]
      refine Post.bind hact ?_ ?_
      · rintro _ m3 hq3
        rcases hq3 with ⟨_, hb3, hk3⟩ | ⟨he, _⟩
        · have hws3 : m3.ws[c]? = some w' := by rw [hk3.ws]; exact hw'.ws
          refine Post.mono (incrSize_post cfg m3 c w' hws3) ?_
          rintro res m4 ⟨hr4, rfl⟩
          have hl := L.size.incr w' hw'.ok (by rw [hw'.size]; omega)
          rw [lives_snoc] at hb3
          have hst3 := hw'.store.set hb3 (by simp; omega) hk3
          refine ⟨Or.inl ⟨hr4, _, VRepW.commit (xs' := xs ++ [v]) (by simpa using hst3) hl.1 hl.2.2.2 hl.2.2.1
            (by rw [hl.2.1, hw'.size]; simp)⟩, ?_⟩
          exact (hfr.elem hreg (hw'.isSome (by omega)) hb3 hk3).withWs _ hws3 hl.2.2.2 hl.2.2.1
        · cases he
      · rintro e m3 hq3
        rcases hq3 with ⟨he, _⟩ | ⟨he, hs3⟩
        · cases he
        · exact ⟨Or.inr ⟨_, he, w', hw'.ofSame hs3⟩, hfr.same hs3⟩
    · cases he
  · rintro e m1 ⟨hq, hfr⟩
    rcases hq with ⟨_, he, _⟩ | ⟨e', he, hw', _⟩
    · cases he
    · injection he with he; subst he
      exact ⟨Or.inr ⟨e', rfl, w, hw'⟩, hfr⟩

end AmcVerif
