import AmcVerif.Lemmas.VecOpsB
import AmcVerif.Lemmas.VecOpsC
/-! Container-level theorems for the single-pass input-range operations of the vector model (`Model/Vec.lean`): the length of the
range is not known in advance, so the elements arrive one `emplace_back` at a time.

* `append(first, last)`  — `appendInput_post`: strong guarantee. When an `emplace_back` throws (element copy, allocation,
  capacity limit) the elements appended so far are destroyed again and the size is restored (repair 305901a of the library).
* `assign(first, last)`  — `assignInput_post`: basic guarantee (`clear`, then append).
* `insert(pos, first, last)` — `insertInput_post`: strong guarantee: the append (with its roll-back) happens before the rotation,
  which is modelled by its net effect on the values and cannot throw.

A sequence of `emplace_back`s may move the container from its region to a fresh block several times; to compose the frames
(`FrameL.trans`) every step has to say where the container lives afterwards. `StrongPostR` is `StrongPost` with that information
(`RegStep`), `emplaceBack_postR` the corresponding strengthening of `emplaceBack_post` (VecOpsB.lean). -/
namespace AmcVerif
variable {α β : Type}
open OpsB

/-! ### Part 0: where the container lives after a step -/

/-- the words `w'` of container `c` point to the region the words `w` pointed to, or to a block allocated after memory `m` -/
def RegStep (cfg : Cfg) (c : Nat) (m : Mem α) (w w' : VB) : Prop :=
  regionOf cfg c w' = regionOf cfg c w ∨ ∃ id, regionOf cfg c w' = .blk id ∧ m.nextId ≤ id

theorem RegStep.refl (cfg : Cfg) (c : Nat) (m : Mem α) (w : VB) : RegStep cfg c m w w := Or.inl rfl

theorem RegStep.ofRegion {cfg : Cfg} {c : Nat} {m : Mem α} {w w' : VB} (h : regionOf cfg c w' = regionOf cfg c w) :
    RegStep cfg c m w w' := Or.inl h

theorem RegStep.trans {cfg : Cfg} {c : Nat} {m m1 : Mem α} {w w1 w2 : VB} (h1 : RegStep cfg c m w w1)
    (h2 : RegStep cfg c m1 w1 w2) (hn : m.nextId ≤ m1.nextId) : RegStep cfg c m w w2 := by
  rcases h2 with h2 | ⟨id, h2, hge⟩
  · rcases h1 with h1 | ⟨id, h1, hge⟩
    · exact Or.inl (h2.trans h1)
    · exact Or.inr ⟨id, h2.trans h1, hge⟩
  · exact Or.inr ⟨id, h2, Nat.le_trans hn hge⟩

/-- a later step that stays in the region -/
theorem RegStep.stay {cfg : Cfg} {c : Nat} {m : Mem α} {w w1 w2 : VB} (h1 : RegStep cfg c m w w1)
    (h2 : regionOf cfg c w2 = regionOf cfg c w1) : RegStep cfg c m w w2 := by
  rcases h1 with h1 | ⟨id, h1, hge⟩
  · exact Or.inl (h2.trans h1)
  · exact Or.inr ⟨id, h2.trans h1, hge⟩

/-- a valid container whose registered words are `w` is valid in these words -/
theorem VRep.atWs {cfg : Cfg} {Ok : VB → Prop} {c : Nat} {m : Mem α} {xs : List α} {w : VB} (h : VRep cfg Ok c m xs)
    (hws : m.ws[c]? = some w) : VRepW cfg Ok c m xs w := by
  obtain ⟨w', h'⟩ := h
  have := h'.ws
  rw [hws] at this; injection this with this; subst this
  exact h'

theorem OpsF.ws_set_get {m : Mem α} {c : Nat} {w : VB} (hws : m.ws[c]? = some w) (w'' : VB) :
    ({ m with ws := m.ws.set c w'' } : Mem α).ws[c]? = some w'' := by
  have hc : c < m.ws.length := getElem?_lt' hws
  simp [hc]

/-- strong guarantee with the region information: the operation succeeds with `xs'`, or throws and the container still holds
    `xs`; in both cases in words `w'` that point to the old region or to a fresh block -/
def StrongPostR (cfg : Cfg) (Ok : VB → Prop) (c : Nat) (m : Mem α) (w : VB) (xs xs' : List α) (okv : β) :
    Except Stop β → Mem α → Prop :=
  fun res m' => (∃ w', RegStep cfg c m w w' ∧
      ((res = .ok okv ∧ VRepW cfg Ok c m' xs' w') ∨ (∃ e, res = .error (.exc e) ∧ VRepW cfg Ok c m' xs w')))
    ∧ FrameL cfg c (regionOf cfg c w) m m'

theorem StrongPostR.strong {cfg : Cfg} {Ok : VB → Prop} {c : Nat} {m : Mem α} {w : VB} {xs xs' : List α} {okv : β}
    {res : Except Stop β} {m' : Mem α} (h : StrongPostR cfg Ok c m w xs xs' okv res m') :
    StrongPost cfg Ok c m w xs xs' okv res m' := by
  obtain ⟨⟨w', _, hq⟩, hfr⟩ := h
  rcases hq with ⟨hr, hv⟩ | ⟨e, he, hv⟩
  · exact ⟨Or.inl ⟨hr, w', hv⟩, hfr⟩
  · exact ⟨Or.inr ⟨e, he, w', hv⟩, hfr⟩

/-- an outcome relative to an intermediate memory `m1` (reached by a framed prefix) is an outcome relative to the start -/
theorem StrongPostR.lift {cfg : Cfg} {Ok : VB → Prop} {c : Nat} {m m1 : Mem α} {w w1 : VB} {xs xs' : List α} {okv : β}
    (hfr : FrameL cfg c (regionOf cfg c w) m m1) (hreg : RegStep cfg c m w w1)
    {res : Except Stop β} {m' : Mem α} (h : StrongPostR cfg Ok c m1 w1 xs xs' okv res m') :
    StrongPostR cfg Ok c m w xs xs' okv res m' := by
  obtain ⟨⟨w', hr', hq⟩, hfr'⟩ := h
  exact ⟨⟨w', hreg.trans hr' hfr.nid, hq⟩, hfr.trans hreg hfr'⟩

/-! ### Part 1: `emplace_back` with the region information -/

/-- the last step of `emplace_back` on the growing path (as `emplace_finish`, exposing the final words) -/
theorem OpsF.emplace_finish {cfg : Cfg} {Ok : VB → Prop} (L : VecLaws α cfg Ok) {m0 : Mem α} {r0 : Region} (m2 m3 : Mem α) (c : Nat)
    (xs xs' : List α) (w' : VB) (hw' : VRepW cfg Ok c m2 xs w') (hlen : xs'.length = xs.length + 1)
    (hcap : xs.length + 1 ≤ cfg.ops.capacity w') (hk : Keep m2 m3)
    (hb : m3.buf = View.set (View.set m2.buf .tmp [.raw]) (regionOf cfg c w') (lives xs' ++ raws (cfg.ops.capacity w' - xs'.length)))
    (hfr : FrameT cfg c r0 m0 m2) (hreg : regionOf cfg c w' = r0 ∨ ∃ id, regionOf cfg c w' = .blk id ∧ m0.nextId ≤ id) :
    Post (incrSize cfg c) m3 (fun res m' => res = .ok () ∧
      (∃ w'', VRepW cfg Ok c m' xs' w'' ∧ regionOf cfg c w'' = regionOf cfg c w') ∧ FrameT cfg c r0 m0 m' ∧
      m'.buf .tmp = some [.raw]) := by
  have hst3 := hw'.store.setT hb (by simp; omega) hk
  refine Post.mono (incrSize_commitW L hst3 (by rw [hw'.size, hlen]) (by omega)) ?_
  rintro res m' ⟨hr, hrep, w'', rfl, hbeg'', hcap''⟩
  refine ⟨hr, ⟨w'', hrep.atWs (OpsF.ws_set_get hst3.ws w''), regionOf_congr cfg c w' w'' hbeg''⟩,
    (hfr.tmpElem hreg (hw'.isSome (by omega)) hb hk).withWs _ hst3.ws hbeg'' hcap'', ?_⟩
  rw [withWs_buf, hb, View.set_other _ _ _ _ (Ne.symm (OpsB.regionOf_ne_tmp cfg c w'))]; simp

/-- `emplace_back` when there is room (as `emplaceBack_room`, exposing the final words) -/
theorem OpsF.emplaceBack_room {cfg : Cfg} {Ok : VB → Prop} (L : VecLaws α cfg Ok) (m : Mem α) (c : Nat) (xs : List α) (w : VB)
    (h : VRepW cfg Ok c m xs w) (arg : Arg α) (v : α) (hv : ArgOK cfg c m w xs arg v) (ht : m.buf .tmp = some [.raw])
    (hroom : xs.length + 1 ≤ cfg.ops.capacity w) :
    Post (do let a ← vend cfg c; let _ ← constructArg a arg; incrSize cfg c) m
      (fun res m' => StrongPostR cfg Ok c m w xs (xs ++ [v]) () res m' ∧ m'.buf .tmp = some [.raw]) := by
  refine Post.bind (vend_post cfg m c w h.ws) ?_ (by okerr)
  rintro a m1 ⟨ha, rfl⟩; injection ha with ha; subst ha
  have hbuf : m1.buf (regionOf cfg c w) = some (lives xs ++ .raw :: raws (cfg.ops.capacity w - (xs.length + 1))) := by
    rcases h.buf with h0 | hb
    · omega
    · rw [hb, raws_succ_sub _ _ hroom]
  have hact := constructArg_post m1 (regionOf cfg c w) (lives xs) _ arg v hbuf (hv.argIn1 _)
  rw [h.size, show xs.length = (lives xs).length by simp]
  refine Post.bind hact ?_ ?_
  · rintro _ m2 hq
    rcases hq with ⟨_, hb2, hk2⟩ | ⟨he, _⟩
    · rw [lives_snoc] at hb2
      have hlen : (xs ++ [v]).length = xs.length + 1 := by simp
      rw [← hlen] at hb2
      have hst2 := h.store.set hb2 (by simp; omega) hk2
      refine Post.mono (incrSize_commitW L hst2 (by rw [h.size, hlen]) (by omega)) ?_
      rintro res m' ⟨hr, hrep, w'', rfl, hbeg'', hcap''⟩
      refine ⟨⟨⟨w'', RegStep.ofRegion (regionOf_congr cfg c w w'' hbeg''),
          Or.inl ⟨hr, hrep.atWs (OpsF.ws_set_get hst2.ws w'')⟩⟩,
        ((FrameL.refl cfg c _ m1).elem (Or.inl rfl) (h.isSome (by omega)) hb2 hk2).withWs _ hst2.ws hbeg'' hcap''⟩, ?_⟩
      rw [withWs_buf, hb2, View.set_other _ _ _ _ (Ne.symm (OpsB.regionOf_ne_tmp cfg c w))]; exact ht
    · cases he
  · rintro e m2 hq
    rcases hq with ⟨he, _⟩ | ⟨he, hs2⟩
    · cases he
    · exact ⟨⟨⟨w, RegStep.refl _ _ _ _, Or.inr ⟨_, he, h.ofSame hs2⟩⟩, (FrameL.refl cfg c _ m1).same hs2⟩,
        by rw [hs2.1]; exact ht⟩

/-- the first two steps of the growing path of `emplace_back` (as `emplace_grow`, with the region information) -/
theorem OpsF.emplace_grow {β : Type} {cfg : Cfg} {Ok : VB → Prop} (L : VecLaws α cfg Ok) (m : Mem α) (c : Nat) (xs : List α) (w : VB)
    (h : VRepW cfg Ok c m xs w) (hf : Fresh m) (arg : Arg α) (v : α) (hv : ArgOK cfg c m w xs arg v)
    (ht : m.buf .tmp = some [.raw]) (hd : cfg.dynamic = true) (hfull : cfg.ops.capacity w = xs.length)
    (rest : M α β) (xs' : List α) (okv : β)
    (hrest : ∀ (m2 : Mem α) (w' : VB), VRepW cfg Ok c m2 xs w' → xs.length + 1 ≤ cfg.ops.capacity w' →
      m2.buf .tmp = some [.live v] → FrameT cfg c (regionOf cfg c w) m m2 → RegStep cfg c m w w' →
      Post rest m2 (fun res m' => res = .ok okv ∧ (∃ w'', VRepW cfg Ok c m' xs' w'' ∧ regionOf cfg c w'' = regionOf cfg c w') ∧
        FrameT cfg c (regionOf cfg c w) m m' ∧ m'.buf .tmp = some [.raw])) :
    Post (do constructArg tmpAddr arg; growOrDestroy cfg c (xs.length + 1); rest) m
      (fun res m' => StrongPostR cfg Ok c m w xs xs' okv res m' ∧ m'.buf .tmp = some [.raw]) := by
  have hc := constructArg_postD m .tmp [] [] arg v (by simpa using ht) (hv.toD h)
  refine Post.bind hc ?_ ?_
  · rintro _ m1 hq
    rcases hq with ⟨_, hb1, hk1⟩ | ⟨he, _⟩
    · simp only [List.nil_append] at hb1
      have hw1 : VRepW cfg Ok c m1 xs w := h.ofTmp hb1 hk1
      have hf1 : Fresh m1 := Fresh.ofSet hf hk1.nid hb1 (tmp_isSome m)
      have ht1 : m1.buf .tmp = some [.live v] := by rw [hb1]; simp
      have hfr1 : FrameT cfg c (regionOf cfg c w) m m1 := (FrameL.refl cfg c _ m).toT.tmp hb1 hk1
      refine Post.bind (growOrDestroy_post L m1 c xs w (xs.length + 1) v hw1 hf1 hd (by omega) ht1) ?_ ?_
      · rintro _ m2 hq2
        rcases hq2 with ⟨_, ⟨w', hw', hcap, hreg⟩, ht2, hfr2⟩ | ⟨e, he, _⟩
        · have hreg' : RegStep cfg c m w w' := by
            rcases hreg with hreg | ⟨id, hreg, hge⟩
            · exact Or.inl hreg
            · exact Or.inr ⟨id, hreg, by rw [← hk1.nid]; exact hge⟩
          refine Post.mono (hrest m2 w' hw' hcap ht2 (hfr1.trans hfr2.toT) hreg') ?_
          rintro res m' ⟨hr, ⟨w'', hrep, hr''⟩, hfr, ht'⟩
          exact ⟨⟨⟨w'', hreg'.stay hr'', Or.inl ⟨hr, hrep⟩⟩, hfr.toG (by rw [ht', ht])⟩, ht'⟩
        · cases he
      · rintro e m2 hq2
        rcases hq2 with ⟨he, _⟩ | ⟨e', he, hw2, _, ht2, hfr2⟩
        · cases he
        · injection he with he; subst he
          exact ⟨⟨⟨w, RegStep.refl _ _ _ _, Or.inr ⟨e', rfl, hw2⟩⟩, (hfr1.trans hfr2).toG (by rw [ht2, ht])⟩, ht2⟩
    · cases he
  · rintro e m1 hq
    rcases hq with ⟨he, _⟩ | ⟨he, hs1⟩
    · cases he
    · injection he with he; subst he
      exact ⟨⟨⟨w, RegStep.refl _ _ _ _, Or.inr ⟨_, rfl, h.ofSame hs1⟩⟩, (FrameL.refl cfg c _ m).same hs1⟩,
        by rw [hs1.1]; exact ht⟩

/-- `emplace_back(args...)`: as `emplaceBack_post`, and the container lives in its old region or in a fresh block -/
theorem emplaceBack_postR {cfg : Cfg} {Ok : VB → Prop} (L : VecLaws α cfg Ok) (m : Mem α) (c : Nat) (xs : List α) (w : VB)
    (h : VRepW cfg Ok c m xs w) (hf : Fresh m) (arg : Arg α) (v : α) (hv : ArgOK cfg c m w xs arg v)
    (ht : m.buf .tmp = some [.raw]) :
    Post (emplaceBack cfg c arg) m
      (fun res m' => StrongPostR cfg Ok c m w xs (xs ++ [v]) () res m' ∧ m'.buf .tmp = some [.raw]) := by
  have hle := h.le
  unfold emplaceBack
  dsimp only
  by_cases hd : cfg.dynamic = true
  · rw [if_pos hd]
    refine Post.bind (vsize_post cfg m c w h.ws) ?_ (by okerr)
    rintro sz m0 ⟨hsz, rfl⟩; injection hsz with hsz; subst hsz
    refine Post.bind (vcap_post cfg m0 c w h.ws) ?_ (by okerr)
    rintro k m1 ⟨hk, rfl⟩; injection hk with hk; subst hk
    rw [h.size]
    by_cases hfull : xs.length = cfg.ops.capacity w
    · rw [if_pos (by simp [hfull])]
      refine OpsF.emplace_grow L m1 c xs w h hf arg v hv ht hd hfull.symm _ (xs ++ [v]) () ?_
      intro m2 w' hw' hcap ht2 hfr2 hreg
      refine Post.bind (vend_post cfg m2 c w' hw'.ws) ?_ (by okerr)
      rintro a m3 ⟨ha, rfl⟩; injection ha with ha; subst ha
      have hbuf : m3.buf (regionOf cfg c w') = some (lives xs ++ .raw :: raws (cfg.ops.capacity w' - (xs.length + 1))) := by
        rcases hw'.buf with h0 | hb
        · omega
        · rw [hb, raws_succ_sub _ _ hcap]
      have hact := relocTmp_post m3 (regionOf cfg c w') (OpsB.regionOf_ne_tmp cfg c w') (lives xs) _ v hbuf ht2
      rw [hw'.size, show xs.length = (lives xs).length by simp]
      refine Post.bind hact ?_ ?_
      · rintro _ m4 ⟨_, hk4, hb4⟩
        rw [lives_snoc] at hb4
        have hlen : (xs ++ [v]).length = xs.length + 1 := by simp
        rw [← hlen] at hb4
        exact OpsF.emplace_finish L m3 m4 c xs (xs ++ [v]) w' hw' hlen hcap hk4 hb4 hfr2 hreg
      · rintro e m4 ⟨he, _⟩; cases he
    · rw [if_neg (by simpa using hfull)]
      exact OpsF.emplaceBack_room L m1 c xs w h arg v hv ht (by omega)
  · rw [if_neg hd]
    have hd' : cfg.dynamic = false := by simpa using hd
    refine Post.bind (vsize_post cfg m c w h.ws) ?_ (by okerr)
    rintro sz m0 ⟨hsz, rfl⟩; injection hsz with hsz; subst hsz
    rw [h.size]
    refine Post.bind (adjustCapacity_static L m0 c w (xs.length + 1) h.ws hd') ?_ ?_
    · rintro _ m1 ⟨rfl, hq⟩
      rcases hq with ⟨_, hroom⟩ | ⟨he, _⟩
      · exact OpsF.emplaceBack_room L m1 c xs w h arg v hv ht hroom
      · cases he
    · rintro e m1 ⟨rfl, hq⟩
      rcases hq with ⟨he, _⟩ | ⟨he, _⟩
      · cases he
      · exact ⟨⟨⟨w, RegStep.refl _ _ _ _, Or.inr ⟨_, he, h⟩⟩, FrameL.refl _ _ _ _⟩, ht⟩

/-! ### Part 2: the `emplace_back` loop and `append(first, last)` for input iterators -/

/-- outcome of the `emplace_back` loop over `vals` on a container holding `xs`: all of `vals` appended; or an exception after
    `k` elements were appended — those are still there. Never a lifetime fault; the temporary is raw again. -/
def AppendLoopPost (cfg : Cfg) (Ok : VB → Prop) (c : Nat) (m : Mem α) (w : VB) (xs vals : List α) :
    Except Stop Unit → Mem α → Prop :=
  fun res m' => (∃ w', RegStep cfg c m w w' ∧
      ((res = .ok () ∧ VRepW cfg Ok c m' (xs ++ vals) w') ∨
       (∃ e k, res = .error (.exc e) ∧ k ≤ vals.length ∧ VRepW cfg Ok c m' (xs ++ vals.take k) w')))
    ∧ FrameL cfg c (regionOf cfg c w) m m' ∧ m'.buf .tmp = some [.raw]

theorem appendInputLoop_post {cfg : Cfg} {Ok : VB → Prop} (L : VecLaws α cfg Ok) (c : Nat) (vals : List α) :
    ∀ (m : Mem α) (xs : List α) (w : VB), VRepW cfg Ok c m xs w → Fresh m → m.buf .tmp = some [.raw] →
    Post (appendInputLoop cfg c vals) m (AppendLoopPost cfg Ok c m w xs vals) := by
  induction vals with
  | nil =>
    intro m xs w h _ ht
    simp only [appendInputLoop]
    exact Post.pure ⟨⟨w, RegStep.refl _ _ _ _, Or.inl ⟨rfl, by simpa using h⟩⟩, FrameL.refl _ _ _ _, ht⟩
  | cons v vs ih =>
    intro m xs w h hf ht
    simp only [appendInputLoop]
    refine Post.bind (emplaceBack_postR L m c xs w h hf (.copy (.lit v)) v rfl ht) ?_ ?_
    · rintro _ m1 ⟨⟨⟨w1, hr1, hq⟩, hfr1⟩, ht1⟩
      rcases hq with ⟨_, hw1⟩ | ⟨e, he, _⟩
      · refine Post.mono (ih m1 (xs ++ [v]) w1 hw1 (hfr1.fresh hf) ht1) ?_
        rintro res m2 ⟨⟨w2, hr2, hq2⟩, hfr2, ht2⟩
        refine ⟨⟨w2, hr1.trans hr2 hfr1.nid, ?_⟩, hfr1.trans hr1 hfr2, ht2⟩
        rcases hq2 with ⟨hr, hw2⟩ | ⟨e, k, he, hk, hw2⟩
        · exact Or.inl ⟨hr, by simpa using hw2⟩
        · exact Or.inr ⟨e, k + 1, he, by simp only [List.length_cons]; omega, by simpa using hw2⟩
      · cases he
    · rintro e m1 ⟨⟨⟨w1, hr1, hq⟩, hfr1⟩, ht1⟩
      rcases hq with ⟨he, _⟩ | ⟨e', he, hw1⟩
      · cases he
      · exact ⟨⟨w1, hr1, Or.inr ⟨e', 0, he, Nat.zero_le _, by simpa using hw1⟩⟩, hfr1, ht1⟩

/-- committing a new size (as `setSize_commit`, exposing the final words: same region) -/
theorem OpsF.setSize_commit {cfg : Cfg} {Ok : VB → Prop} (L : VecLaws α cfg Ok) {m0 m : Mem α} {r0 : Region} {c : Nat} {w : VB}
    {xs' : List α} (s : Nat) (hs : s = xs'.length)
    (hst : Store cfg Ok c m w (lives xs' ++ raws (cfg.ops.capacity w - xs'.length))) (hle : xs'.length ≤ cfg.ops.capacity w)
    (hfr : FrameL cfg c r0 m0 m) :
    Post (setSize cfg c s) m (fun res m' => res = .ok () ∧
      (∃ w', VRepW cfg Ok c m' xs' w' ∧ regionOf cfg c w' = regionOf cfg c w) ∧ FrameL cfg c r0 m0 m') := by
  subst hs
  have hb := L.size.bounds w hst.ok
  refine Post.mono (setSize_post cfg m c w xs'.length hst.ws (by omega)) ?_
  rintro res m' ⟨hr, rfl⟩
  have hl := L.size.setSize w hst.ok xs'.length hle
  exact ⟨hr, ⟨_, VRepW.commit hst hl.1 hl.2.2.2 hl.2.2.1 hl.2.1, regionOf_congr cfg c w _ hl.2.2.2⟩,
    hfr.withWs _ hst.ws hl.2.2.2 hl.2.2.1⟩

/-- destroying the tail `[count, size)` and committing the size `count` (as `truncate_core`): this never throws, and the
    container stays in its region -/
theorem OpsF.truncate_core {cfg : Cfg} {Ok : VB → Prop} (L : VecLaws α cfg Ok) (m : Mem α) (c : Nat) (xs : List α) (w : VB)
    (count : Nat) (h : VRepW cfg Ok c m xs w) (hc : count ≤ xs.length) :
    Post (do destroyN ⟨regionOf cfg c w, count⟩ (xs.length - count); setSize cfg c count) m
      (fun res m' => res = .ok () ∧ (∃ w', VRepW cfg Ok c m' (xs.take count) w' ∧ regionOf cfg c w' = regionOf cfg c w) ∧
        FrameL cfg c (regionOf cfg c w) m m') := by
  have hle := h.le
  have hlt : (xs.take count).length = count := by simp; omega
  by_cases h0 : xs.length - count = 0
  · have hx : xs.take count = xs := List.take_of_length_le (by omega)
    rw [h0]
    simp only [destroyN]
    refine Post.bind (Q1 := fun res m' => res = .ok () ∧ m' = m) ⟨rfl, rfl⟩ ?_ (by okerr)
    rintro _ m1 ⟨_, rfl⟩
    exact OpsF.setSize_commit L (xs' := xs.take count) count hlt.symm (by rw [hx]; exact h.store) (by omega)
      (FrameL.refl cfg c (regionOf cfg c w) _)
  · have hbuf : m.buf (regionOf cfg c w) = some (lives (xs.take count) ++ lives (xs.drop count)
        ++ raws (cfg.ops.capacity w - xs.length)) := by
      rcases h.buf with hz | hb
      · omega
      · rw [hb]; simp only [lives, ← List.map_append, List.take_append_drop]
    have hd := destroyN_post (regionOf cfg c w) (lives (xs.drop count)) m (lives (xs.take count)) _ hbuf (lives_okAlive _ _)
    simp only [lives_length, List.length_drop, hlt] at hd
    refine Post.bind hd ?_ ?_
    · rintro _ m1 ⟨_, hb1, hk1⟩
      rw [List.append_assoc, raws_append, show xs.length - count + (cfg.ops.capacity w - xs.length)
        = cfg.ops.capacity w - (xs.take count).length by omega] at hb1
      have hst1 := h.store.set hb1 (by simp; omega) hk1
      exact OpsF.setSize_commit L (xs' := xs.take count) count hlt.symm hst1 (by omega)
        ((FrameL.refl cfg c _ m).elem (Or.inl rfl) (h.isSome (by omega)) hb1 hk1)
    · rintro e m1 ⟨he, _⟩; cases he

theorem OpsF.tmp_of_frame {cfg : Cfg} {c : Nat} {w : VB} {m m' : Mem α} (h : FrameL cfg c (regionOf cfg c w) m m') :
    m'.buf .tmp = m.buf .tmp :=
  h.bufOther .tmp (Ne.symm (OpsB.regionOf_ne_tmp cfg c w)) (fun id hid => by cases hid)

/-- `append(first, last)` for single-pass input iterators, with the region information: all of `vals` appended, or an exception
    and the container holds `xs` again (the elements appended before the throw were destroyed, the size restored) -/
theorem appendInput_postR {cfg : Cfg} {Ok : VB → Prop} (L : VecLaws α cfg Ok) (m : Mem α) (c : Nat) (xs : List α) (w : VB)
    (vals : List α) (h : VRepW cfg Ok c m xs w) (hf : Fresh m) (ht : m.buf .tmp = some [.raw]) :
    Post (appendInput cfg c vals) m
      (fun res m' => StrongPostR cfg Ok c m w xs (xs ++ vals) () res m' ∧ m'.buf .tmp = some [.raw]) := by
  unfold appendInput
  refine Post.bind (vsize_post cfg m c w h.ws) ?_ (by okerr)
  rintro sz m0 ⟨hsz, rfl⟩; injection hsz with hsz; subst hsz
  rw [h.size]
  refine Post.tryCatch (appendInputLoop_post L c vals m0 xs w h hf ht) ?_ ?_
  · rintro _ m1 ⟨⟨w1, hr1, hq⟩, hfr1, ht1⟩
    rcases hq with ⟨_, hw1⟩ | ⟨e, k, he, _⟩
    · exact ⟨⟨⟨w1, hr1, Or.inl ⟨rfl, hw1⟩⟩, hfr1⟩, ht1⟩
    · cases he
  · rintro s m1 ⟨⟨w1, hr1, hq⟩, hfr1, ht1⟩
    rcases hq with ⟨he, _⟩ | ⟨e, k, he, hk, hw1⟩
    · cases he
    · injection he with he; subst he
      dsimp only
      refine Post.bind (vbegin_post cfg m1 c w1 hw1.ws) ?_ (by okerr)
      rintro a m2 ⟨ha, rfl⟩; injection ha with ha; subst ha
      refine Post.bind (vsize_post cfg m2 c w1 hw1.ws) ?_ (by okerr)
      rintro s2 m3 ⟨hs2, rfl⟩; injection hs2 with hs2; subst hs2
      have e1 : (Addr.mk (regionOf cfg c w1) 0).add xs.length = ⟨regionOf cfg c w1, xs.length⟩ := by simp [Addr.add]
      rw [e1, hw1.size, ← bind_assoc]
      have htr := OpsF.truncate_core L m3 c (xs ++ vals.take k) w1 xs.length hw1 (by simp)
      rw [List.take_left] at htr
      refine Post.bind htr ?_ ?_
      · rintro _ m2 ⟨_, ⟨w2, hw2, hr2⟩, hfr2⟩
        refine Post.throw ⟨⟨⟨w2, hr1.stay hr2, Or.inr ⟨e, rfl, hw2⟩⟩, hfr1.trans hr1 hfr2⟩, ?_⟩
        rw [OpsF.tmp_of_frame hfr2]; exact ht1
      · rintro e' m2 ⟨he, _⟩; cases he

/-- `append(first, last)` for single-pass input iterators (`std::istream_iterator` …): strong guarantee -/
theorem appendInput_post {cfg : Cfg} {Ok : VB → Prop} (L : VecLaws α cfg Ok) (m : Mem α) (c : Nat) (xs : List α) (w : VB)
    (vals : List α) (h : VRepW cfg Ok c m xs w) (hf : Fresh m) (ht : m.buf .tmp = some [.raw]) :
    Post (appendInput cfg c vals) m (StrongPost cfg Ok c m w xs (xs ++ vals) ()) :=
  Post.mono (appendInput_postR L m c xs w vals h hf ht) (fun _ _ hq => hq.1.strong)

/-! ### Part 3: `assign(first, last)` for input iterators -/

/-- `clear()` (as `clear_post`): it never throws and the container stays in its region -/
theorem OpsF.clear_post {cfg : Cfg} {Ok : VB → Prop} (L : VecLaws α cfg Ok) (m : Mem α) (c : Nat) (xs : List α) (w : VB)
    (h : VRepW cfg Ok c m xs w) :
    Post (clear cfg c) m (fun res m' => res = .ok () ∧
      (∃ w', VRepW cfg Ok c m' [] w' ∧ regionOf cfg c w' = regionOf cfg c w) ∧ FrameL cfg c (regionOf cfg c w) m m') := by
  unfold clear
  refine Post.bind (vbegin_post cfg m c w h.ws) ?_ (by okerr)
  rintro a m1 ⟨ha, rfl⟩; injection ha with ha; subst ha
  refine Post.bind (vsize_post cfg m1 c w h.ws) ?_ (by okerr)
  rintro sz m2 ⟨hsz, rfl⟩; injection hsz with hsz; subst hsz
  have := OpsF.truncate_core L m2 c xs w 0 h (Nat.zero_le _)
  rw [h.size]
  simpa using this

/-- `assign(first, last)` for single-pass input iterators: `clear`, then one `emplace_back` per element. Basic guarantee: when
    an `emplace_back` throws, the container holds the elements assigned so far. (The temporary of `emplace_back` is raw again
    afterwards: `FrameL` leaves `.tmp` alone, `OpsF.tmp_of_frame`.) -/
theorem assignInput_post {cfg : Cfg} {Ok : VB → Prop} (L : VecLaws α cfg Ok) (m : Mem α) (c : Nat) (xs : List α) (w : VB)
    (vals : List α) (h : VRepW cfg Ok c m xs w) (hf : Fresh m) (ht : m.buf .tmp = some [.raw]) :
    Post (assignInput cfg c vals) m (BasicPost cfg Ok c m w vals ()) := by
  unfold assignInput
  refine Post.bind (OpsF.clear_post L m c xs w h) ?_ ?_
  · rintro _ m1 ⟨_, ⟨w1, hw1, hr1⟩, hfr1⟩
    have ht1 : m1.buf .tmp = some [.raw] := by rw [OpsF.tmp_of_frame hfr1]; exact ht
    refine Post.mono (appendInputLoop_post L c vals m1 [] w1 hw1 (hfr1.fresh hf) ht1) ?_
    rintro res m2 ⟨⟨w2, hr2, hq⟩, hfr2, ht2⟩
    refine ⟨?_, hfr1.trans (Or.inl hr1) hfr2⟩
    rcases hq with ⟨hr, hw2⟩ | ⟨e, k, he, _, hw2⟩
    · exact Or.inl ⟨hr, w2, by simpa using hw2⟩
    · exact Or.inr ⟨e, _, he, w2, hw2⟩
  · rintro e m1 ⟨he, _⟩; cases he

/-! ### Part 4: `insert(pos, first, last)` for input iterators -/

/-- the local `put` loop of `insertInput`: overwrite a range of slots by live values (the net effect of `std::rotate`) -/
theorem OpsF.put_post (r : Region) (vs : List α) : ∀ (m : Mem α) (pre mid post : List (Slot α)),
    mid.length = vs.length → m.buf r = some (pre ++ mid ++ post) →
    Post (insertInput.put ⟨r, pre.length⟩ vs) m (OkSet m r (pre ++ lives vs ++ post)) := by
  induction vs with
  | nil =>
    intro m pre mid post hl h
    have hm : mid = [] := List.eq_nil_of_length_eq_zero (by simpa using hl)
    subst hm
    simp only [insertInput.put, lives, List.map_nil]
    exact Post.pure ⟨rfl, by rw [View.set_id _ _ _ (by simpa using h)], Keep.refl m⟩
  | cons v vs ih =>
    intro m pre mid post hl h
    cases mid with
    | nil => simp at hl
    | cons s mid =>
      simp only [insertInput.put]
      have hb : m.buf (Addr.mk r pre.length).r = some (pre ++ s :: (mid ++ post)) := by simpa using h
      refine Post.bind (wr_post m ⟨r, pre.length⟩ _ (.live v) hb (by simp)) ?_ ?_
      · rintro _ m1 ⟨_, hb1, hk1⟩
        simp only [set_mid] at hb1
        have h1 : m1.buf r = some ((pre ++ [.live v]) ++ mid ++ post) := by rw [hb1]; simp
        have := ih m1 (pre ++ [.live v]) mid post (by simpa using hl) h1
        simp only [List.length_append, List.length_cons, List.length_nil, Nat.zero_add] at this
        refine Post.mono this ?_
        rintro res m2 ⟨hr, hb2, hk2⟩
        refine ⟨hr, ?_, hk1.trans hk2⟩
        rw [hb2, hb1]; simp [lives]
      · rintro e m1 ⟨he, _⟩; cases he

/-- overwriting all elements of a container by as many values: the container holds the new values, in the same words -/
theorem OpsF.putAll_post {cfg : Cfg} {Ok : VB → Prop} (m : Mem α) (c : Nat) (xs ys : List α) (w : VB)
    (h : VRepW cfg Ok c m xs w) (hl : ys.length = xs.length) :
    Post (insertInput.put ⟨regionOf cfg c w, 0⟩ ys) m (fun res m' => res = .ok () ∧ VRepW cfg Ok c m' ys w ∧
      FrameL cfg c (regionOf cfg c w) m m' ∧ m'.buf .tmp = m.buf .tmp) := by
  by_cases h0 : xs.length = 0
  · have hx : xs = [] := List.eq_nil_of_length_eq_zero h0
    have hy : ys = [] := List.eq_nil_of_length_eq_zero (by omega)
    subst hx; subst hy
    simp only [insertInput.put]
    exact ⟨rfl, h, FrameL.refl _ _ _ _, rfl⟩
  · have hle := h.le
    have hbuf : m.buf (regionOf cfg c w) = some ([] ++ lives xs ++ raws (cfg.ops.capacity w - xs.length)) := by
      rcases h.buf with hz | hb
      · omega
      · rw [hb]; simp
    refine Post.mono (OpsF.put_post (regionOf cfg c w) ys m [] (lives xs) _ (by simp [hl]) hbuf) ?_
    rintro res m' ⟨hr, hb', hk'⟩
    have hb'' : m'.buf = View.set m.buf (regionOf cfg c w) (lives ys ++ raws (cfg.ops.capacity w - ys.length)) := by
      rw [hb', hl]; simp
    refine ⟨hr, h.ofSet hl hb'' hk', FrameL.ofSet h (by omega) hb'' hk', ?_⟩
    rw [hb'', View.set_other _ _ _ _ (Ne.symm (OpsB.regionOf_ne_tmp cfg c w))]

/-- reading all elements of a container -/
theorem OpsF.readAll_post {cfg : Cfg} {Ok : VB → Prop} (m : Mem α) (c : Nat) (xs : List α) (w : VB)
    (h : VRepW cfg Ok c m xs w) :
    Post (readLiveN ⟨regionOf cfg c w, 0⟩ xs.length) m (fun res m' => res = .ok xs ∧ m' = m) := by
  by_cases h0 : xs.length = 0
  · have hx : xs = [] := List.eq_nil_of_length_eq_zero h0
    subst hx
    simp only [List.length_nil, readLiveN]
    exact ⟨rfl, rfl⟩
  · have hle := h.le
    have hbuf : m.buf (regionOf cfg c w) = some ([] ++ lives xs ++ raws (cfg.ops.capacity w - xs.length)) := by
      rcases h.buf with hz | hb
      · omega
      · rw [hb]; simp
    exact RelocB.readLiveN_post (regionOf cfg c w) xs m [] _ hbuf

/-- `insert(pos, first, last)` for single-pass input iterators, with the region information -/
theorem insertInput_postR {cfg : Cfg} {Ok : VB → Prop} (L : VecLaws α cfg Ok) (m : Mem α) (c : Nat) (xs : List α) (w : VB)
    (p : Nat) (vals : List α) (h : VRepW cfg Ok c m xs w) (hf : Fresh m) (ht : m.buf .tmp = some [.raw]) (hp : p ≤ xs.length) :
    Post (insertInput cfg c p vals) m
      (fun res m' => StrongPostR cfg Ok c m w xs (xs.take p ++ vals ++ xs.drop p) p res m' ∧ m'.buf .tmp = some [.raw]) := by
  unfold insertInput
  refine Post.bind (vsize_post cfg m c w h.ws) ?_ (by okerr)
  rintro sz m0 ⟨hsz, rfl⟩; injection hsz with hsz; subst hsz
  rw [h.size]
  refine Post.bind (appendInput_postR L m0 c xs w vals h hf ht) ?_ ?_
  · rintro _ m1 ⟨⟨⟨w1, hr1, hq⟩, hfr1⟩, ht1⟩
    rcases hq with ⟨_, hw1⟩ | ⟨e, he, _⟩
    · refine Post.bind (vbegin_post cfg m1 c w1 hw1.ws) ?_ (by okerr)
      rintro a m2 ⟨ha, rfl⟩; injection ha with ha; subst ha
      refine Post.bind (vsize_post cfg m2 c w1 hw1.ws) ?_ (by okerr)
      rintro s2 m3 ⟨hs2, rfl⟩; injection hs2 with hs2; subst hs2
      rw [hw1.size]
      refine Post.bind (OpsF.readAll_post m3 c (xs ++ vals) w1 hw1) ?_ (by okerr)
      · rintro all m4 ⟨hall, rfl⟩; injection hall with hall; subst hall
        have hrot : List.take p (xs ++ vals) ++ List.drop xs.length (xs ++ vals) ++ List.drop p (List.take xs.length (xs ++ vals))
            = xs.take p ++ vals ++ xs.drop p := by
          rw [List.take_append_of_le_length hp, List.drop_left, List.take_left]
        dsimp only
        rw [hrot]
        have hlen : (xs.take p ++ vals ++ xs.drop p).length = (xs ++ vals).length := by
          simp only [List.length_append, List.length_take, List.length_drop]; omega
        refine Post.bind (OpsF.putAll_post m4 c (xs ++ vals) _ w1 hw1 hlen) ?_ ?_
        · rintro _ m4 ⟨_, hw4, hfr4, ht4⟩
          exact Post.pure ⟨⟨⟨w1, hr1, Or.inl ⟨rfl, hw4⟩⟩, hfr1.trans hr1 hfr4⟩, by rw [ht4]; exact ht1⟩
        · rintro e m4 ⟨he, _⟩; cases he
    · cases he
  · rintro e m1 ⟨⟨⟨w1, hr1, hq⟩, hfr1⟩, ht1⟩
    rcases hq with ⟨he, _⟩ | ⟨e', he, hw1⟩
    · cases he
    · injection he with he; subst he
      exact ⟨⟨⟨w1, hr1, Or.inr ⟨e', rfl, hw1⟩⟩, hfr1⟩, ht1⟩

/-- `insert(pos, first, last)` for single-pass input iterators: success ⇒ the range is inserted at `p`; exception ⇒ the container
    holds `xs` again (the append with its roll-back happens before the rotation, which cannot throw) -/
theorem insertInput_post {cfg : Cfg} {Ok : VB → Prop} (L : VecLaws α cfg Ok) (m : Mem α) (c : Nat) (xs : List α) (w : VB)
    (p : Nat) (vals : List α) (h : VRepW cfg Ok c m xs w) (hf : Fresh m) (ht : m.buf .tmp = some [.raw]) (hp : p ≤ xs.length) :
    Post (insertInput cfg c p vals) m (StrongPost cfg Ok c m w xs (xs.take p ++ vals ++ xs.drop p) p) :=
  Post.mono (insertInput_postR L m c xs w p vals h hf ht hp) (fun _ _ hq => hq.1.strong)

end AmcVerif
