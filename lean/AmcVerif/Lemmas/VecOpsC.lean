import AmcVerif.Lemmas.VecOpsA
import AmcVerif.Lemmas.HelperPosts
import AmcVerif.Lemmas.AllocPosts
/-! Container-level theorems for construction, destruction, copies and the bulk assignment / insertion operations of the
vector model (`Model/Vec.lean`): `assign(first,last)`, `assign(count,v)`, `insert(pos,first,last)`, `insert(pos,count,v)`,
`Vector()`, `~Vector()`, `operator=(const&)`, `Vector(const&)`. Same shape as `VecOpsA.lean`: from `VRepW cfg Ok c m xs w` the
operation ends in `BasicPost` / `StrongPost` / `InsPost` (never a lifetime fault).

* Part 0: glue (`FrameG.trans`, `FrameL.trans`, `VRepW.ofSet`, lifting an outcome over a capacity adjustment).
* Part 1: `assignN_post`, `assign_shrink_core`, `assign_grow_core`, `assignRange_post`.
* Part 2: `FillPost`, `copyAfterShift_post`, `fillAfterShift_post` (the gap left by `shift_right(first, n, count)`).
* Part 3: `InsPost`, `insertRange_ins` / `_post` / `_ok`, `insertCount_ins` / `_post` / `_ok` / `_end_post`.
* Part 4: `fillHelper_post`, `assignFill_post`.
* Part 5: `construct_post`, `DtorSpec`, `destruct_post` and their `SmallVector` / `amc::vector` instances.
* Part 6: `copyAssign_post`, `copyConstruct_post`. -/
namespace AmcVerif
variable {α β : Type}

/-! ### Part 0: general glue -/

/-- composition of frames; the second step may act on the (possibly fresh) region the container moved to -/
theorem FrameG.trans {c : Nat} {r0 r1 : Region} {m m1 m2 : Mem α} (h1 : FrameG c r0 m m1)
    (hreg : r1 = r0 ∨ ∃ id, r1 = .blk id ∧ m.nextId ≤ id) (h2 : FrameG c r1 m1 m2) : FrameG c r0 m m2 := by
  refine ⟨h2.cat.trans h1.cat, h2.hr.trans h1.hr, h2.wsLen.trans h1.wsLen,
    fun c' hc => (h2.wsOther c' hc).trans (h1.wsOther c' hc), Nat.le_trans h1.nid h2.nid, fun hf => h2.fresh (h1.fresh hf), ?_, ?_⟩
  · intro r' hne hold
    have hne1 : r' ≠ r1 := by
      rcases hreg with hreg | ⟨id, hreg, hge⟩
      · rw [hreg]; exact hne
      · intro heq
        have := hold id (heq.trans hreg)
        omega
    rw [h2.bufOther r' hne1 (fun id hid => Nat.lt_of_lt_of_le (hold id hid) h1.nid)]
    exact h1.bufOther r' hne hold
  · intro j hne hlt
    have hne1 : Region.blk j ≠ r1 := by
      rcases hreg with hreg | ⟨id, hreg, hge⟩
      · rw [hreg]; exact hne
      · intro heq
        rw [hreg] at heq; injection heq with heq
        omega
    exact (h2.cntOther j hne1 (Nat.lt_of_lt_of_le hlt h1.nid)).trans (h1.cntOther j hne hlt)

theorem FrameL.trans {cfg : Cfg} {c : Nat} {r0 r1 : Region} {m m1 m2 : Mem α} (h1 : FrameL cfg c r0 m m1)
    (hreg : r1 = r0 ∨ ∃ id, r1 = .blk id ∧ m.nextId ≤ id) (h2 : FrameL cfg c r1 m1 m2) : FrameL cfg c r0 m m2 :=
  ⟨h1.toFrameG.trans hreg h2.toFrameG, h1.noLeak.trans h2.noLeak h1.nid⟩

/-- an element-level update of the buffer that keeps the number of elements -/
theorem VRepW.ofSet {cfg : Cfg} {Ok : VB → Prop} {c : Nat} {m m' : Mem α} {xs xs' : List α} {w : VB}
    (h : VRepW cfg Ok c m xs w) (hl : xs'.length = xs.length)
    (hb : m'.buf = View.set m.buf (regionOf cfg c w) (lives xs' ++ raws (cfg.ops.capacity w - xs'.length))) (hk : Keep m m') :
    VRepW cfg Ok c m' xs' w :=
  ⟨h.store.set hb (by simp [hl]) hk, by rw [h.size, hl]⟩

theorem StrongPost.basic {cfg : Cfg} {Ok : VB → Prop} {c : Nat} {m : Mem α} {w : VB} {xs xs' : List α} {okv : β}
    {res : Except Stop β} {m' : Mem α} (h : StrongPost cfg Ok c m w xs xs' okv res m') : BasicPost cfg Ok c m w xs' okv res m' := by
  rcases h with ⟨h | ⟨e, he, hv⟩, hfr⟩
  · exact ⟨Or.inl h, hfr⟩
  · exact ⟨Or.inr ⟨e, xs, he, hv⟩, hfr⟩

/-- an outcome relative to an intermediate memory `m1` (reached by a framed prefix, e.g. a capacity adjustment) is an
    outcome relative to the initial memory -/
theorem BasicPost.lift {cfg : Cfg} {Ok : VB → Prop} {c : Nat} {m m1 : Mem α} {w w1 : VB} {xs' : List α} {okv : β}
    (hfr : FrameL cfg c (regionOf cfg c w) m m1)
    (hreg : regionOf cfg c w1 = regionOf cfg c w ∨ ∃ id, regionOf cfg c w1 = .blk id ∧ m.nextId ≤ id)
    {res : Except Stop β} {m' : Mem α} (h : BasicPost cfg Ok c m1 w1 xs' okv res m') : BasicPost cfg Ok c m w xs' okv res m' :=
  ⟨h.1, hfr.trans hreg h.2⟩

theorem StrongPost.lift {cfg : Cfg} {Ok : VB → Prop} {c : Nat} {m m1 : Mem α} {w w1 : VB} {xs xs' : List α} {okv : β}
    (hfr : FrameL cfg c (regionOf cfg c w) m m1)
    (hreg : regionOf cfg c w1 = regionOf cfg c w ∨ ∃ id, regionOf cfg c w1 = .blk id ∧ m.nextId ≤ id)
    {res : Except Stop β} {m' : Mem α} (h : StrongPost cfg Ok c m1 w1 xs xs' okv res m') : StrongPost cfg Ok c m w xs xs' okv res m' :=
  ⟨h.1, hfr.trans hreg h.2⟩

/-- the frame of one element-level update of the buffer of the container -/
theorem FrameL.ofSet {cfg : Cfg} {Ok : VB → Prop} {c : Nat} {m m' : Mem α} {xs : List α} {w : VB} {b : List (Slot α)}
    (h : VRepW cfg Ok c m xs w) (hc : 0 < cfg.ops.capacity w)
    (hb : m'.buf = View.set m.buf (regionOf cfg c w) b) (hk : Keep m m') : FrameL cfg c (regionOf cfg c w) m m' :=
  (FrameL.refl cfg c _ m).elem (Or.inl rfl) (h.isSome hc) hb hk

/-! ### Part 1: `assign(first, last)` -/

/-- `assign_n` for a non trivially-copyable type: copy-assign over the `xs.length` existing objects, then build the rest in
    the raw slots behind them (all or nothing) -/
theorem assignN_post (m : Mem α) (hcat : m.cat ≠ .tc) (r : Region) (xs vals : List α) (post : List (Slot α))
    (hlt : xs.length < vals.length)
    (h : m.buf r = some (lives xs ++ raws (vals.length - xs.length) ++ post)) :
    Post (assignN vals ⟨r, 0⟩ xs.length) m (fun res m' =>
      ((res = .ok () ∧ m'.buf = View.set m.buf r (lives vals ++ post)) ∨
       (res = .error (.exc .elem) ∧ ∃ ys : List α, ys.length = xs.length ∧
          m'.buf = View.set m.buf r (lives ys ++ raws (vals.length - xs.length) ++ post))) ∧ Keep m m') := by
  unfold assignN
  refine Post.bind (isTC_post m) ?_ (by okerr)
  rintro t m0 ⟨ht, rfl⟩; injection ht with ht; subst ht
  have hc : (m0.cat == Cat.tc) = false := by simpa using hcat
  simp only [hc, Bool.false_eq_true, ↓reduceIte, hlt]
  have htl : (vals.take xs.length).length = xs.length := by simp; omega
  have hdl : (vals.drop xs.length).length = vals.length - xs.length := by simp
  have hcp := copyN_post r (vals.take xs.length) m0 [] (lives xs) (raws (vals.length - xs.length) ++ post)
    (by simp; omega) (fun s hs => by
      simp only [lives, List.mem_map] at hs; obtain ⟨y, _, rfl⟩ := hs; simp) (by simpa using h)
  simp only [List.length_nil] at hcp
  refine Post.bind hcp ?_ ?_
  · rintro _ m1 ⟨hq, hk1⟩
    rcases hq with ⟨_, hb1⟩ | ⟨he, _⟩
    · have h1 : m1.buf r = some (lives (vals.take xs.length) ++ raws (vals.drop xs.length).length ++ post) := by
        rw [hb1, hdl]; simp
      have hu := uninitCopyN_post m1 r (lives (vals.take xs.length)) post (vals.drop xs.length) h1
      simp only [lives_length, htl] at hu
      rw [show (Addr.mk r 0).add xs.length = ⟨r, xs.length⟩ by simp [Addr.add]]
      refine Post.mono hu ?_
      rintro res m2 ⟨hq2, hk2⟩
      refine ⟨?_, hk1.trans hk2⟩
      rcases hq2 with ⟨hr2, hb2⟩ | ⟨hr2, hb2⟩
      · refine Or.inl ⟨hr2, ?_⟩
        rw [hb2, hb1, View.set_set, ← lives_append, List.take_append_drop]
      · refine Or.inr ⟨hr2, vals.take xs.length, htl, ?_⟩
        rw [hb2, hb1, View.set_set, hdl]
    · cases he
  · rintro e m1 ⟨hq, hk1⟩
    rcases hq with ⟨he, _⟩ | ⟨he, j, hj, hb1⟩
    · cases he
    · refine ⟨Or.inr ⟨he, (vals.take xs.length).take j ++ xs.drop j, ?_, ?_⟩, hk1⟩
      · simp only [List.length_append, List.length_take, List.length_drop] at hj ⊢; omega
      · rw [hb1]; simp [lives]

theorem lives_ne_raw (ys : List α) : ∀ s ∈ lives ys, s ≠ Slot.raw := by
  intro s hs
  simp only [lives, List.mem_map] at hs
  obtain ⟨y, _, rfl⟩ := hs
  simp

/-- the tail of an assignment that does not need more room: after the first `count` elements were overwritten (`act`,
    which may stop half-way), the surplus is destroyed and the size committed -/
theorem assign_shrink_core {cfg : Cfg} {Ok : VB → Prop} (L : VecLaws α cfg Ok) (m : Mem α) (c : Nat) (xs : List α) (w : VB)
    (vals : List α) (act : M α Unit) (h : VRepW cfg Ok c m xs w) (hc : vals.length ≤ xs.length)
    (hnil : vals = [] → Post act m (fun res m' => res = .ok () ∧ m' = m))
    (hact : ∀ post, m.buf (regionOf cfg c w) = some ([] ++ lives (xs.take vals.length) ++ post) →
      Post act m (AssignedOrPartial m (regionOf cfg c w) [] (lives (xs.take vals.length)) post vals)) :
    Post (do act; destroyN ⟨regionOf cfg c w, vals.length⟩ (xs.length - vals.length); setSize cfg c vals.length) m
      (BasicPost cfg Ok c m w vals ()) := by
  have hle := h.le
  by_cases hv : vals = []
  · refine Post.bind (hnil hv) ?_ (by okerr)
    rintro _ m1 ⟨_, rfl⟩
    subst hv
    refine Post.mono (truncate_core L m1 c xs w 0 h (Nat.zero_le _)) ?_
    intro res m' hq
    have := hq.basic
    simpa using this
  · have hvl : 0 < vals.length := List.length_pos_iff.mpr hv
    have hbuf : m.buf (regionOf cfg c w) = some ([] ++ lives (xs.take vals.length)
        ++ (lives (xs.drop vals.length) ++ raws (cfg.ops.capacity w - xs.length))) := by
      rcases h.buf with hz | hb
      · omega
      · rw [hb]; simp only [List.nil_append, ← List.append_assoc, ← lives_append, List.take_append_drop]
    refine Post.bind (hact _ hbuf) ?_ ?_
    · rintro _ m1 ⟨hq, hk1⟩
      rcases hq with ⟨_, hb1⟩ | ⟨he, _⟩
      · have hl1 : (vals ++ xs.drop vals.length).length = xs.length := by simp; omega
        have h1 : VRepW cfg Ok c m1 (vals ++ xs.drop vals.length) w := by
          refine h.ofSet hl1 ?_ hk1
          rw [hb1, hl1]; simp [lives_append]
        have ht := truncate_core L m1 c (vals ++ xs.drop vals.length) w vals.length h1 (by omega)
        rw [hl1] at ht
        refine Post.mono ht ?_
        intro res m' hq
        have hq' := (hq.basic).lift (w := w) (FrameL.ofSet h (by omega) hb1 hk1) (Or.inl rfl)
        simpa using hq'
      · cases he
    · rintro e m1 ⟨hq, hk1⟩
      rcases hq with ⟨he, _⟩ | ⟨he, j, hj, hb1⟩
      · cases he
      · have hl1 : (vals.take j ++ (xs.take vals.length).drop j ++ xs.drop vals.length).length = xs.length := by
          simp only [List.length_append, List.length_take, List.length_drop]; omega
        have h1 : VRepW cfg Ok c m1 (vals.take j ++ (xs.take vals.length).drop j ++ xs.drop vals.length) w := by
          refine h.ofSet hl1 ?_ hk1
          rw [hb1, hl1]; simp [lives]
        exact ⟨Or.inr ⟨_, _, he, w, h1⟩, FrameL.ofSet h (by omega) hb1 hk1⟩

/-- the tail of an assignment into a container that has room for the `n` new elements (`xs.length < n`): `act` overwrites
    the existing elements and builds the others behind them, or throws leaving `xs.length` live elements -/
theorem assign_grow_core {cfg : Cfg} {Ok : VB → Prop} (L : VecLaws α cfg Ok) (m : Mem α) (c : Nat) (xs : List α) (w : VB)
    (vals : List α) (act : M α Unit) (h : VRepW cfg Ok c m xs w) (hlt : xs.length < vals.length)
    (hcap : vals.length ≤ cfg.ops.capacity w)
    (hact : ∀ post, m.buf (regionOf cfg c w) = some (lives xs ++ raws (vals.length - xs.length) ++ post) →
      Post act m (fun res m' =>
        ((res = .ok () ∧ m'.buf = View.set m.buf (regionOf cfg c w) (lives vals ++ post)) ∨
         (res = .error (.exc .elem) ∧ ∃ ys : List α, ys.length = xs.length ∧
            m'.buf = View.set m.buf (regionOf cfg c w) (lives ys ++ raws (vals.length - xs.length) ++ post))) ∧ Keep m m')) :
    Post (do act; setSize cfg c vals.length) m (BasicPost cfg Ok c m w vals ()) := by
  have hbuf : m.buf (regionOf cfg c w) = some (lives xs ++ raws (vals.length - xs.length)
      ++ raws (cfg.ops.capacity w - vals.length)) := by
    rcases h.buf with hz | hb
    · omega
    · rw [hb, List.append_assoc, raws_append]; congr 3; omega
  refine Post.bind (hact _ hbuf) ?_ ?_
  · rintro _ m1 ⟨hq, hk1⟩
    rcases hq with ⟨_, hb1⟩ | ⟨he, _⟩
    · have hst1 := h.store.set hb1 (by simp; omega) hk1
      refine Post.mono (setSize_commit L (xs' := vals) vals.length rfl hst1 hcap (FrameL.ofSet h (by omega) hb1 hk1)) ?_
      rintro res m' ⟨hq, hfr'⟩
      exact ⟨Or.inl hq, hfr'⟩
    · cases he
  · rintro e m1 ⟨hq, hk1⟩
    rcases hq with ⟨he, _⟩ | ⟨he, ys, hys, hb1⟩
    · cases he
    · rw [List.append_assoc, raws_append] at hb1
      have h1 : VRepW cfg Ok c m1 ys w := by
        refine h.ofSet hys ?_ hk1
        rw [hb1, hys]; congr 3; omega
      exact ⟨Or.inr ⟨_, _, he, w, h1⟩, FrameL.ofSet h (by omega) hb1 hk1⟩

/-- `assign(first, last)` (forward iterators) for a non trivially-copyable element type: basic guarantee -/
theorem assignRange_post {cfg : Cfg} {Ok : VB → Prop} (L : VecLaws α cfg Ok) (m : Mem α) (c : Nat) (xs : List α) (w : VB)
    (vals : List α) (h : VRepW cfg Ok c m xs w) (hf : Fresh m) (hcat : m.cat ≠ .tc) :
    Post (assignRange cfg c vals) m (BasicPost cfg Ok c m w vals ()) := by
  unfold assignRange
  refine Post.bind (vsize_post cfg m c w h.ws) ?_ (by okerr)
  rintro sz m0 ⟨hsz, rfl⟩; injection hsz with hsz; subst hsz
  rw [h.size]
  by_cases hlt : xs.length < vals.length
  · simp only [hlt, ↓reduceIte]
    refine Post.bind (adjustCapacity_post L m0 c xs w _ h hf) ?_ ?_
    · rintro _ m1 ⟨hq, hfr⟩
      rcases hq with ⟨_, w', ⟨hw', hcap, hreg⟩⟩ | ⟨e, he, _⟩
      · refine Post.bind (vbegin_post cfg m1 c w' hw'.ws) ?_ (by okerr)
        rintro a m2 ⟨ha, rfl⟩; injection ha with ha; subst ha
        have hcat2 : m2.cat ≠ .tc := by rw [hfr.cat]; exact hcat
        refine Post.mono (assign_grow_core L m2 c xs w' vals _ hw' hlt hcap
          (fun post hb => assignN_post m2 hcat2 _ xs vals post hlt hb)) ?_
        intro res m' hq
        exact hq.lift hfr hreg
      · cases he
    · rintro e m1 ⟨hq, hfr⟩
      rcases hq with ⟨he, _⟩ | ⟨e', he, hw', _⟩
      · cases he
      · injection he with he; subst he
        exact ⟨Or.inr ⟨e', xs, rfl, w, hw'⟩, hfr⟩
  · simp only [hlt, ↓reduceIte]
    refine Post.bind (vbegin_post cfg m0 c w h.ws) ?_ (by okerr)
    rintro a m1 ⟨ha, rfl⟩; injection ha with ha; subst ha
    have := assign_shrink_core L m1 c xs w vals (copyN ⟨regionOf cfg c w, 0⟩ vals) h (by omega)
      (by rintro rfl; exact ⟨rfl, rfl⟩)
      (fun post hb => copyN_post (regionOf cfg c w) vals m1 [] (lives (xs.take vals.length)) post (by simp; omega)
        (lives_ne_raw _) hb)
    simpa [Addr.add] using this

/-! ### Part 2: filling the gap opened by `shift_right(first, n, count)` -/

/-- outcome of filling a window of region `r` (behind `pre`) with `vals`: done, or an element copy threw (only the buffer
    of `r` may have changed) -/
def FillPost (m : Mem α) (r : Region) (pre : List (Slot α)) (vals : List α) (post : List (Slot α)) :
    Except Stop Unit → Mem α → Prop :=
  fun res m' => ((res = .ok () ∧ m'.buf = View.set m.buf r (pre ++ lives vals ++ post)) ∨
                 (res = .error (.exc .elem) ∧ ∃ b', m'.buf = View.set m.buf r b')) ∧ Keep m m'

theorem FillPost.chain {m m1 : Mem α} {r : Region} {b1 pre post : List (Slot α)} {vals : List α}
    (hb1 : m1.buf = View.set m.buf r b1) (hk : Keep m m1) {res : Except Stop Unit} {m2 : Mem α}
    (h : FillPost m1 r pre vals post res m2) : FillPost m r pre vals post res m2 := by
  rcases h with ⟨h | ⟨he, b', hb⟩, hk2⟩
  · exact ⟨Or.inl ⟨h.1, by rw [h.2, hb1]; simp⟩, hk.trans hk2⟩
  · exact ⟨Or.inr ⟨he, b', by rw [hb, hb1]; simp⟩, hk.trans hk2⟩

theorem FillPost.ofBuilt {m : Mem α} {r : Region} {pre post rolled : List (Slot α)} {vals : List α}
    {res : Except Stop Unit} {m' : Mem α} (h : BuiltOrRolledBack m r (pre ++ lives vals ++ post) rolled res m') :
    FillPost m r pre vals post res m' := by
  rcases h with ⟨h | h, hk⟩
  · exact ⟨Or.inl h, hk⟩
  · exact ⟨Or.inr ⟨h.1, _, h.2⟩, hk⟩

theorem FillPost.ofAssigned {m : Mem α} {r : Region} {pre mid post : List (Slot α)} {vals : List α}
    {res : Except Stop Unit} {m' : Mem α} (h : AssignedOrPartial m r pre mid post vals res m') :
    FillPost m r pre vals post res m' := by
  rcases h with ⟨h | ⟨he, j, _, hb⟩, hk⟩
  · exact ⟨Or.inl h, hk⟩
  · exact ⟨Or.inr ⟨he, _, hb⟩, hk⟩

theorem replicate_hollow_ne_raw (k : Nat) : ∀ s ∈ List.replicate k (Slot.hollow : Slot α), s ≠ Slot.raw := by
  intro s hs
  rw [List.mem_replicate] at hs
  rw [hs.2]; simp

/-- `copy_after_shift(first, n, count, pos)` on the gap left by `shift_right(pos, n, count)` -/
theorem copyAfterShift_post (m : Mem α) (r : Region) (pre post : List (Slot α)) (vals : List α) (n : Nat)
    (h : m.buf r = some (pre ++ List.replicate (min vals.length n) (gapSlot m.cat) ++ raws (vals.length - n) ++ post)) :
    Post (copyAfterShift vals n ⟨r, pre.length⟩) m (FillPost m r pre vals post) := by
  unfold copyAfterShift
  refine Post.bind (isTR_post m) ?_ (by okerr)
  rintro t m0 ⟨ht, rfl⟩; injection ht with ht; subst ht
  by_cases hc : m0.cat = .ntr
  · rw [gapSlot_ntr hc] at h
    simp only [hc, bne_self_eq_false, Bool.false_eq_true, ↓reduceIte]
    by_cases hn : n < vals.length
    · simp only [hn, ↓reduceIte]
      rw [Nat.min_eq_right (Nat.le_of_lt hn)] at h
      have htl : (vals.take n).length = n := by simp; omega
      have hcp := copyN_post r (vals.take n) m0 pre (List.replicate n .hollow) (raws (vals.length - n) ++ post)
        (by simp; omega) (replicate_hollow_ne_raw n) (by rw [h]; simp)
      refine Post.bind hcp ?_ ?_
      · rintro _ m1 ⟨hq, hk1⟩
        rcases hq with ⟨_, hb1⟩ | ⟨he, _⟩
        · have h1 : m1.buf r = some ((pre ++ lives (vals.take n)) ++ raws (vals.drop n).length ++ post) := by
            rw [hb1]; simp
          have hu := uninitCopyN_post m1 r (pre ++ lives (vals.take n)) post (vals.drop n) h1
          simp only [List.length_append, lives_length, htl] at hu
          rw [show (Addr.mk r pre.length).add n = ⟨r, pre.length + n⟩ by simp [Addr.add]]
          refine Post.mono hu ?_
          intro res m2 hq2
          have e : pre ++ lives (vals.take n) ++ lives (vals.drop n) ++ post = pre ++ lives vals ++ post := by
            rw [List.append_assoc pre, ← lives_append, List.take_append_drop]
          rw [e] at hq2
          exact (FillPost.ofBuilt hq2).chain hb1 hk1
        · cases he
      · rintro e m1 ⟨hq, hk1⟩
        rcases hq with ⟨he, _⟩ | ⟨he, j, _, hb1⟩
        · cases he
        · exact ⟨Or.inr ⟨he, _, hb1⟩, hk1⟩
    · simp only [hn, ↓reduceIte]
      have hz : vals.length - n = 0 := by omega
      rw [Nat.min_eq_left (by omega), hz] at h
      have hcp := copyN_post r vals m0 pre (List.replicate vals.length .hollow) post
        (by simp) (replicate_hollow_ne_raw _) (by rw [h]; simp [raws])
      exact Post.mono hcp (fun _ _ hq => FillPost.ofAssigned hq)
  · rw [gapSlot_tr hc] at h
    simp only [RelocB.cat_bne_ntr hc, ↓reduceIte]
    have h1 : m0.buf r = some (pre ++ raws vals.length ++ post) := by
      rw [h]
      have : (List.replicate (min vals.length n) (Slot.raw : Slot α)) = raws (min vals.length n) := rfl
      rw [this, List.append_assoc pre, raws_append]
      congr 4; omega
    exact Post.mono (uninitCopyN_post m0 r pre post vals h1) (fun _ _ hq => FillPost.ofBuilt hq)

/-- `fill_after_shift(first, n, count, v)` with an outside value, on the gap left by `shift_right(first, n, count)` -/
theorem fillAfterShift_post (m : Mem α) (r : Region) (pre post : List (Slot α)) (v : α) (n count : Nat)
    (h : m.buf r = some (pre ++ List.replicate (min count n) (gapSlot m.cat) ++ raws (count - n) ++ post)) :
    Post (fillAfterShift ⟨r, pre.length⟩ n count (.lit v)) m (FillPost m r pre (List.replicate count v) post) := by
  unfold fillAfterShift
  refine Post.bind (isTR_post m) ?_ (by okerr)
  rintro t m0 ⟨ht, rfl⟩; injection ht with ht; subst ht
  by_cases hc : m0.cat = .ntr
  · rw [gapSlot_ntr hc] at h
    simp only [hc, bne_self_eq_false, Bool.false_eq_true, ↓reduceIte]
    by_cases hn : n < count
    · simp only [hn, ↓reduceIte]
      rw [Nat.min_eq_right (Nat.le_of_lt hn)] at h
      have hu := uninitFillRef_post m0 r (pre ++ List.replicate n .hollow) post (.lit v) v (count - n) h rfl
      simp only [List.length_append, List.length_replicate] at hu
      rw [show (Addr.mk r pre.length).add n = ⟨r, pre.length + n⟩ by simp [Addr.add]]
      refine Post.bind hu ?_ ?_
      · rintro _ m1 ⟨hq, hk1⟩
        rcases hq with ⟨_, hb1⟩ | ⟨he, _⟩
        · have h1 : m1.buf r = some (pre ++ List.replicate n .hollow ++ (lives (List.replicate (count - n) v) ++ post)) := by
            rw [hb1]; simp
          have hf := fillRef_post r (.lit v) v n m1 pre (List.replicate n .hollow) (lives (List.replicate (count - n) v) ++ post)
            (by simp) (replicate_hollow_ne_raw n) h1 rfl
          refine Post.mono hf ?_
          intro res m2 hq2
          have e : pre ++ lives (List.replicate n v) ++ (lives (List.replicate (count - n) v) ++ post)
              = pre ++ lives (List.replicate count v) ++ post := by
            rw [List.append_assoc pre, ← List.append_assoc (lives _), ← lives_append, List.replicate_append_replicate,
              show n + (count - n) = count by omega, ← List.append_assoc]
          have hq3 := FillPost.ofAssigned hq2
          unfold FillPost at hq3 ⊢
          rw [e] at hq3
          exact FillPost.chain hb1 hk1 hq3
        · cases he
      · rintro e m1 ⟨hq, hk1⟩
        rcases hq with ⟨he, _⟩ | ⟨he, hb1⟩
        · cases he
        · exact ⟨Or.inr ⟨he, _, hb1⟩, hk1⟩
    · simp only [hn, ↓reduceIte]
      have hz : count - n = 0 := by omega
      rw [Nat.min_eq_left (by omega), hz] at h
      have hf := fillRef_post r (.lit v) v count m0 pre (List.replicate count .hollow) post
        (by simp) (replicate_hollow_ne_raw _) (by rw [h]; simp [raws]) rfl
      exact Post.mono hf (fun _ _ hq => FillPost.ofAssigned hq)
  · rw [gapSlot_tr hc] at h
    simp only [RelocB.cat_bne_ntr hc, ↓reduceIte]
    have h1 : m0.buf r = some (pre ++ raws count ++ post) := by
      rw [h]
      have : (List.replicate (min count n) (Slot.raw : Slot α)) = raws (min count n) := rfl
      rw [this, List.append_assoc pre, raws_append]
      congr 4; omega
    exact Post.mono (uninitFillRef_post m0 r pre post (.lit v) v count h1 rfl) (fun _ _ hq => FillPost.ofBuilt hq)

/-! ### Part 3: `insert(pos, first, last)` and `insert(pos, count, v)` -/

/-- outcome of an insertion of `vals` at index `p` into a container holding `xs`: success with exactly the new contents; or
    an exception (never a lifetime fault), and if the insertion was at the end the container still holds `xs` (strong
    guarantee; in the middle the library gives no guarantee: known defect V9) -/
def InsPost (cfg : Cfg) (Ok : VB → Prop) (c : Nat) (m : Mem α) (w : VB) (xs : List α) (p : Nat) (vals : List α) :
    Except Stop Nat → Mem α → Prop :=
  fun res m' => ((res = .ok p ∧ VRep cfg Ok c m' (xs.take p ++ vals ++ xs.drop p)) ∨
                 (∃ e, res = .error (.exc e) ∧ (p = xs.length → VRep cfg Ok c m' xs)))
    ∧ FrameL cfg c (regionOf cfg c w) m m'

theorem InsPost.lift {cfg : Cfg} {Ok : VB → Prop} {c : Nat} {m m1 : Mem α} {w w1 : VB} {xs vals : List α} {p : Nat}
    (hfr : FrameL cfg c (regionOf cfg c w) m m1)
    (hreg : regionOf cfg c w1 = regionOf cfg c w ∨ ∃ id, regionOf cfg c w1 = .blk id ∧ m.nextId ≤ id)
    {res : Except Stop Nat} {m' : Mem α} (h : InsPost cfg Ok c m1 w1 xs p vals res m') : InsPost cfg Ok c m w xs p vals res m' :=
  ⟨h.1, hfr.trans hreg h.2⟩

/-- insertion at the end, once there is room: an all-or-nothing construction of `vals` at `end()`, then the size is
    committed -/
theorem insert_end_core {cfg : Cfg} {Ok : VB → Prop} (L : VecLaws α cfg Ok) (m : Mem α) (c : Nat) (xs : List α) (w : VB)
    (vals : List α) (build : M α Unit) (s p : Nat) (h : VRepW cfg Ok c m xs w) (hp : p = xs.length) (hv : vals ≠ [])
    (hcap : xs.length + vals.length ≤ cfg.ops.capacity w) (hs : s = xs.length + vals.length)
    (hbuild : ∀ post, m.buf (regionOf cfg c w) = some (lives xs ++ raws vals.length ++ post) →
      Post build m (BuiltOrRolledBack m (regionOf cfg c w) (lives xs ++ lives vals ++ post) (lives xs ++ raws vals.length ++ post))) :
    Post (do build; setSize cfg c s; pure p) m (InsPost cfg Ok c m w xs p vals) := by
  have hlen : s = (xs ++ vals).length := by rw [hs]; simp
  have hvl : 0 < vals.length := List.length_pos_iff.mpr hv
  have hxs : xs.take p ++ vals ++ xs.drop p = xs ++ vals := by subst hp; simp
  have hbuf : m.buf (regionOf cfg c w) = some (lives xs ++ raws vals.length
      ++ raws (cfg.ops.capacity w - (xs.length + vals.length))) := by
    rcases h.buf with h0 | hb
    · omega
    · rw [hb, List.append_assoc, raws_append]
      congr 3; omega
  refine Post.bind (hbuild _ hbuf) ?_ ?_
  · rintro _ m3 ⟨hq, hk3⟩
    rcases hq with ⟨_, hb3⟩ | ⟨he, _⟩
    · have hb3' : m3.buf = View.set m.buf (regionOf cfg c w)
          (lives (xs ++ vals) ++ raws (cfg.ops.capacity w - (xs ++ vals).length)) := by
        rw [hb3]; simp [lives]
      have hst3 := h.store.set hb3' (by simp; omega) hk3
      refine Post.bind (setSize_commit L s hlen hst3 (by simpa using hcap) (FrameL.ofSet h (by omega) hb3' hk3)) ?_ ?_
      · rintro _ m4 ⟨⟨_, hrep⟩, hfr⟩
        exact ⟨Or.inl ⟨rfl, by rw [hxs]; exact hrep⟩, hfr⟩
      · rintro e m4 ⟨⟨he, _⟩, _⟩; cases he
    · cases he
  · rintro e m3 ⟨hq, hk3⟩
    rcases hq with ⟨he, _⟩ | ⟨he, hb3⟩
    · cases he
    · have hb3' : m3.buf = View.set m.buf (regionOf cfg c w) (lives xs ++ raws (cfg.ops.capacity w - xs.length)) := by
        rw [hb3, List.append_assoc, raws_append]
        congr 3; omega
      injection he with he; subst he
      exact ⟨Or.inr ⟨_, rfl, fun _ => ⟨w, h.ofSet rfl hb3' hk3⟩⟩, FrameL.ofSet h (by omega) hb3' hk3⟩

/-- insertion in the middle, once there is room: shift the tail right by `|vals|`, fill the gap, commit the size -/
theorem insert_mid_core {cfg : Cfg} {Ok : VB → Prop} (L : VecLaws α cfg Ok) (m : Mem α) (c : Nat) (xs : List α) (w : VB)
    (vals : List α) (fill : M α Unit) (s p : Nat) (h : VRepW cfg Ok c m xs w) (hp : p < xs.length) (hv : vals ≠ [])
    (hcap : xs.length + vals.length ≤ cfg.ops.capacity w) (hs : s = xs.length + vals.length)
    (hfill : ∀ (m2 : Mem α) post, m2.cat = m.cat →
      m2.buf (regionOf cfg c w) = some (lives (xs.take p) ++ List.replicate (min vals.length (xs.length - p)) (gapSlot m2.cat)
        ++ raws (vals.length - (xs.length - p)) ++ post) →
      Post fill m2 (FillPost m2 (regionOf cfg c w) (lives (xs.take p)) vals post)) :
    Post (do shiftRightN ⟨regionOf cfg c w, p⟩ (xs.length - p) vals.length; fill; setSize cfg c s; pure p) m
      (InsPost cfg Ok c m w xs p vals) := by
  have hvl : 0 < vals.length := List.length_pos_iff.mpr hv
  have htl : (xs.take p).length = p := by simp; omega
  have hdl : (xs.drop p).length = xs.length - p := by simp
  have hdn : xs.drop p ≠ [] := by
    intro h0; have := congrArg List.length h0; simp at this; omega
  have hlen : s = (xs.take p ++ vals ++ xs.drop p).length := by
    rw [hs]; simp only [List.length_append, htl, hdl]; omega
  have hbuf : m.buf (regionOf cfg c w) = some (lives (xs.take p) ++ lives (xs.drop p) ++ raws vals.length
      ++ raws (cfg.ops.capacity w - (xs.length + vals.length))) := by
    rcases h.buf with h0 | hb
    · omega
    · rw [hb, ← lives_append, List.take_append_drop, List.append_assoc, raws_append]
      congr 3; omega
  have hsh := shiftRightN_post m (regionOf cfg c w) (lives (xs.take p)) _ (xs.drop p) vals.length hdn hvl hbuf
  simp only [lives_length, htl, hdl] at hsh
  refine Post.bind hsh ?_ (by rintro e m1 ⟨he, _⟩; cases he)
  rintro _ m1 ⟨_, hb1, hk1⟩
  have h1 : m1.buf (regionOf cfg c w) = some (lives (xs.take p) ++ List.replicate (min vals.length (xs.length - p)) (gapSlot m1.cat)
        ++ raws (vals.length - (xs.length - p)) ++ (lives (xs.drop p) ++ raws (cfg.ops.capacity w - (xs.length + vals.length)))) := by
    rw [hb1, hk1.cat]; simp
  have hfr1 := FrameL.ofSet h (by omega) hb1 hk1
  refine Post.bind (hfill m1 _ hk1.cat h1) ?_ ?_
  · rintro _ m2 ⟨hq, hk2⟩
    rcases hq with ⟨_, hb2⟩ | ⟨he, _⟩
    · have hb2' : m2.buf = View.set m.buf (regionOf cfg c w) (lives (xs.take p ++ vals ++ xs.drop p)
          ++ raws (cfg.ops.capacity w - (xs.take p ++ vals ++ xs.drop p).length)) := by
        rw [hb2, hb1, View.set_set, ← hlen, hs]; simp [lives_append]
      have hst2 := h.store.set hb2' (by simp only [List.length_append, lives_length, raws_length, ← hlen]; omega) (hk1.trans hk2)
      refine Post.bind (setSize_commit L s hlen hst2 (by rw [← hlen]; omega)
        (FrameL.ofSet h (by omega) hb2' (hk1.trans hk2))) ?_ ?_
      · rintro _ m4 ⟨⟨_, hrep⟩, hfr⟩
        exact ⟨Or.inl ⟨rfl, hrep⟩, hfr⟩
      · rintro e m4 ⟨⟨he, _⟩, _⟩; cases he
    · cases he
  · rintro e m2 ⟨hq, hk2⟩
    rcases hq with ⟨he, _⟩ | ⟨he, b', hb2⟩
    · cases he
    · injection he with he; subst he
      refine ⟨Or.inr ⟨_, rfl, fun hpe => by omega⟩, ?_⟩
      exact FrameL.ofSet h (by omega) (b := b') (by rw [hb2, hb1, View.set_set]) (hk1.trans hk2)

/-- `insert(pos, first, last)` (forward iterators) at any position -/
theorem insertRange_ins {cfg : Cfg} {Ok : VB → Prop} (L : VecLaws α cfg Ok) (m : Mem α) (c : Nat) (xs : List α) (w : VB)
    (p : Nat) (vals : List α) (h : VRepW cfg Ok c m xs w) (hf : Fresh m) (hp : p ≤ xs.length) :
    Post (insertRange cfg c p vals) m (InsPost cfg Ok c m w xs p vals) := by
  unfold insertRange
  by_cases hv : vals = []
  · subst hv
    simp only [List.length_nil, gt_iff_lt, Nat.lt_irrefl, ↓reduceIte]
    refine Post.pure ⟨Or.inl ⟨rfl, w, ?_⟩, FrameL.refl _ _ _ _⟩
    simpa using h
  · have hvl : 0 < vals.length := List.length_pos_iff.mpr hv
    simp only [gt_iff_lt, hvl, ↓reduceIte]
    refine Post.bind (vsize_post cfg m c w h.ws) ?_ (by okerr)
    rintro sz m0 ⟨hsz, rfl⟩; injection hsz with hsz; subst hsz
    rw [h.size]
    refine Post.bind (adjustCapacity_post L m0 c xs w _ h hf) ?_ ?_
    · rintro _ m1 ⟨hq, hfr⟩
      rcases hq with ⟨_, w', ⟨hw', hcap, hreg⟩⟩ | ⟨e, he, _⟩
      · refine Post.bind (posAddr_post cfg m1 c w' p hw'.ws) ?_ (by okerr)
        rintro a m2 ⟨ha, rfl⟩; injection ha with ha; subst ha
        by_cases he : xs.length - p = 0
        · simp only [he, ↓reduceIte]
          have hpe : p = xs.length := by omega
          refine Post.mono (insert_end_core L m2 c xs w' vals _ _ p hw' hpe hv hcap rfl (fun post hb => ?_))
            (fun _ _ hq => hq.lift hfr hreg)
          have := uninitCopyN_post m2 _ (lives xs) post vals hb
          simpa [hpe] using this
        · simp only [he, ↓reduceIte]
          refine Post.mono (insert_mid_core L m2 c xs w' vals _ _ p hw' (by omega) hv hcap rfl (fun m3 post _ hb => ?_))
            (fun _ _ hq => hq.lift hfr hreg)
          have := copyAfterShift_post m3 _ (lives (xs.take p)) post vals (xs.length - p) hb
          simpa [Nat.min_eq_left hp] using this
      · cases he
    · rintro e m1 ⟨hq, hfr⟩
      rcases hq with ⟨he, _⟩ | ⟨e', he, hw', _⟩
      · cases he
      · injection he with he; subst he
        exact ⟨Or.inr ⟨e', rfl, fun _ => ⟨w, hw'⟩⟩, hfr⟩

theorem InsPost.strong {cfg : Cfg} {Ok : VB → Prop} {c : Nat} {m : Mem α} {w : VB} {xs vals : List α} {p : Nat}
    (hend : p = xs.length) {res : Except Stop Nat} {m' : Mem α} (h : InsPost cfg Ok c m w xs p vals res m') :
    StrongPost cfg Ok c m w xs (xs ++ vals) p res m' := by
  rcases h with ⟨⟨hr, hv⟩ | ⟨e, he, hv⟩, hfr⟩
  · refine ⟨Or.inl ⟨hr, ?_⟩, hfr⟩
    subst hend; simpa using hv
  · exact ⟨Or.inr ⟨e, he, hv hend⟩, hfr⟩

/-- the success / no-fault reading of `InsPost` -/
theorem InsPost.spec {cfg : Cfg} {Ok : VB → Prop} {c : Nat} {m : Mem α} {w : VB} {xs vals : List α} {p : Nat}
    {res : Except Stop Nat} {m' : Mem α} (h : InsPost cfg Ok c m w xs p vals res m') :
    (∀ r, res = .ok r → r = p ∧ VRep cfg Ok c m' (xs.take p ++ vals ++ xs.drop p)) ∧ (∀ f, res ≠ .error (.fault f))
      ∧ FrameL cfg c (regionOf cfg c w) m m' := by
  rcases h with ⟨⟨hr, hv⟩ | ⟨e, he, _⟩, hfr⟩
  · subst hr
    exact ⟨fun r hr => (by injection hr with hr; exact ⟨hr.symm, hv⟩), fun f hf => (by cases hf), hfr⟩
  · subst he
    exact ⟨fun r hr => (by cases hr), fun f hf => (by cases hf), hfr⟩

/-- `insert(end(), first, last)`: strong guarantee -/
theorem insertRange_post {cfg : Cfg} {Ok : VB → Prop} (L : VecLaws α cfg Ok) (m : Mem α) (c : Nat) (xs : List α) (w : VB)
    (p : Nat) (hp : p ≤ xs.length) (vals : List α) (hend : p = xs.length) (h : VRepW cfg Ok c m xs w) (hf : Fresh m) :
    Post (insertRange cfg c p vals) m (StrongPost cfg Ok c m w xs (xs ++ vals) p) :=
  Post.mono (insertRange_ins L m c xs w p vals h hf hp) (fun _ _ hq => hq.strong hend)

/-- `insert(pos, first, last)` at any position: if it returns normally the container holds exactly
    `xs.take p ++ vals ++ xs.drop p`; the outcome is never a lifetime fault; nothing outside the container is touched -/
theorem insertRange_ok {cfg : Cfg} {Ok : VB → Prop} (L : VecLaws α cfg Ok) (m : Mem α) (c : Nat) (xs : List α) (w : VB)
    (p : Nat) (hp : p ≤ xs.length) (vals : List α) (h : VRepW cfg Ok c m xs w) (hf : Fresh m) :
    Post (insertRange cfg c p vals) m (fun res m' =>
      (∀ r, res = .ok r → r = p ∧ VRep cfg Ok c m' (xs.take p ++ vals ++ xs.drop p)) ∧ (∀ f, res ≠ .error (.fault f))
        ∧ FrameL cfg c (regionOf cfg c w) m m') :=
  Post.mono (insertRange_ins L m c xs w p vals h hf hp) (fun _ _ hq => hq.spec)

/-- `adjustCapacity(needed, v)` for an outside value: as `adjustCapacity`, and the value is returned unchanged -/
theorem adjustCapacityRef_lit_post {cfg : Cfg} {Ok : VB → Prop} (L : VecLaws α cfg Ok) (m : Mem α) (c : Nat) (xs : List α) (w : VB)
    (needed : Nat) (x : α) (h : VRepW cfg Ok c m xs w) (hf : Fresh m) :
    Post (adjustCapacityRef cfg c needed (.lit x)) m (fun res m' =>
      ((res = .ok (.lit x) ∧ ∃ w', Grown cfg Ok c m m' xs w w' needed) ∨
       (∃ e, res = .error (.exc e) ∧ VRepW cfg Ok c m' xs w ∧ m'.buf = m.buf)) ∧ FrameL cfg c (regionOf cfg c w) m m') := by
  by_cases hroom : needed ≤ cfg.ops.capacity w
  · refine Post.mono (adjustCapacityRef_room cfg Ok L.size m c w needed (.lit x) h.ws hroom) ?_
    rintro res m' ⟨hr, rfl⟩; subst hr
    exact ⟨Or.inl ⟨rfl, w, ⟨h, hroom, Or.inl rfl⟩⟩, FrameL.refl _ _ _ _⟩
  · unfold adjustCapacityRef
    by_cases hd : cfg.dynamic = true
    · rw [if_pos hd]
      refine Post.bind (vcap_post cfg m c w h.ws) ?_ (by okerr)
      rintro k m1 ⟨hk, rfl⟩; injection hk with hk; subst hk
      rw [if_pos (by omega)]
      refine Post.bind (vbegin_post cfg m1 c w h.ws) ?_ (by okerr)
      rintro b m2 ⟨hb, rfl⟩; injection hb with hb; subst hb
      refine Post.bind (vsize_post cfg m2 c w h.ws) ?_ (by okerr)
      rintro sz m3 ⟨hsz, rfl⟩; injection hsz with hsz; subst hsz
      refine Post.bind (L.grow hd m3 c xs w needed false h hf (by omega) (by simp)) ?_ ?_
      · rintro _ m4 ⟨hq, hfr⟩
        rcases hq with ⟨_, w', hg⟩ | ⟨e, he, _⟩
        · exact ⟨Or.inl ⟨rfl, w', hg⟩, hfr⟩
        · cases he
      · rintro e m4 ⟨hq, hfr⟩
        rcases hq with ⟨he, _⟩ | ⟨e', he, hw', hb'⟩
        · cases he
        · injection he with he; subst he
          exact ⟨Or.inr ⟨e', rfl, hw', hb'⟩, hfr⟩
    · rw [if_neg hd]
      refine Post.bind (adjustCapacity_post L m c xs w needed h hf) ?_ ?_
      · rintro _ m1 ⟨hq, hfr⟩
        rcases hq with ⟨_, w', hg⟩ | ⟨e, he, _⟩
        · exact ⟨Or.inl ⟨rfl, w', hg⟩, hfr⟩
        · cases he
      · rintro e m1 ⟨hq, hfr⟩
        rcases hq with ⟨he, _⟩ | ⟨e', he, hw', hb'⟩
        · cases he
        · injection he with he; subst he
          exact ⟨Or.inr ⟨e', rfl, hw', hb'⟩, hfr⟩

/-- `insert(pos, count, v)` with an outside value, at any position -/
theorem insertCount_ins {cfg : Cfg} {Ok : VB → Prop} (L : VecLaws α cfg Ok) (m : Mem α) (c : Nat) (xs : List α) (w : VB)
    (p count : Nat) (ref : Ref α) (v : α) (h : VRepW cfg Ok c m xs w) (hf : Fresh m) (hp : p ≤ xs.length)
    (_hv : RefOK cfg c m w xs ref v) (hlit : ∃ x, ref = .lit x) :
    Post (insertCount cfg c p count ref) m (InsPost cfg Ok c m w xs p (List.replicate count v)) := by
  obtain ⟨x, rfl⟩ := hlit
  have hx : x = v := _hv
  subst hx
  unfold insertCount
  by_cases hc0 : count = 0
  · subst hc0
    simp only [gt_iff_lt, Nat.lt_irrefl, ↓reduceIte]
    refine Post.pure ⟨Or.inl ⟨rfl, w, ?_⟩, FrameL.refl _ _ _ _⟩
    simpa using h
  · have hvl : 0 < count := by omega
    have hv : List.replicate count x ≠ [] := by simp; omega
    simp only [gt_iff_lt, hvl, ↓reduceIte]
    refine Post.bind (vsize_post cfg m c w h.ws) ?_ (by okerr)
    rintro sz m0 ⟨hsz, rfl⟩; injection hsz with hsz; subst hsz
    rw [h.size]
    refine Post.bind (adjustCapacityRef_lit_post L m0 c xs w _ x h hf) ?_ ?_
    · rintro ref' m1 ⟨hq, hfr⟩
      rcases hq with ⟨hr, w', ⟨hw', hcap, hreg⟩⟩ | ⟨e, he, _⟩
      · injection hr with hr; subst hr
        refine Post.bind (posAddr_post cfg m1 c w' p hw'.ws) ?_ (by okerr)
        rintro a m2 ⟨ha, rfl⟩; injection ha with ha; subst ha
        by_cases he : xs.length - p = 0
        · simp only [he, ↓reduceIte]
          have hpe : p = xs.length := by omega
          have := insert_end_core L m2 c xs w' (List.replicate count x) (uninitFillRef ⟨regionOf cfg c w', p⟩ count (.lit x))
            (xs.length + count) p hw' hpe hv (by simpa using hcap) (by simp) (fun post hb => by
              have := uninitFillRef_post m2 _ (lives xs) post (.lit x) x count (by simpa using hb) rfl
              simpa [hpe] using this)
          exact Post.mono this (fun _ _ hq => hq.lift hfr hreg)
        · simp only [he, ↓reduceIte]
          have := insert_mid_core L m2 c xs w' (List.replicate count x)
            (fillAfterShift ⟨regionOf cfg c w', p⟩ (xs.length - p) count (.lit x))
            (xs.length + count) p hw' (by omega) hv (by simpa using hcap) (by simp) (fun m3 post _ hb => by
              have := fillAfterShift_post m3 _ (lives (xs.take p)) post x (xs.length - p) count (by simpa using hb)
              simpa [Nat.min_eq_left hp] using this)
          refine Post.mono ?_ (fun _ _ hq => InsPost.lift hfr hreg hq)
          simpa [addressAfterShift] using this
      · cases he
    · rintro e m1 ⟨hq, hfr⟩
      rcases hq with ⟨he, _⟩ | ⟨e', he, hw', _⟩
      · cases he
      · injection he with he; subst he
        exact ⟨Or.inr ⟨e', rfl, fun _ => ⟨w, hw'⟩⟩, hfr⟩

/-- `insert(end(), count, v)` with an outside value: strong guarantee -/
theorem insertCount_post {cfg : Cfg} {Ok : VB → Prop} (L : VecLaws α cfg Ok) (m : Mem α) (c : Nat) (xs : List α) (w : VB)
    (p count : Nat) (hp : p ≤ xs.length) (ref : Ref α) (v : α) (hv : RefOK cfg c m w xs ref v) (hlit : ∃ x, ref = .lit x)
    (hend : p = xs.length) (h : VRepW cfg Ok c m xs w) (hf : Fresh m) :
    Post (insertCount cfg c p count ref) m (StrongPost cfg Ok c m w xs (xs ++ List.replicate count v) p) :=
  Post.mono (insertCount_ins L m c xs w p count ref v h hf hp hv hlit) (fun _ _ hq => hq.strong hend)

/-- `insert(pos, count, v)` with an outside value at any position: if it returns normally the container holds exactly
    `xs.take p ++ replicate count v ++ xs.drop p`; the outcome is never a lifetime fault -/
theorem insertCount_ok {cfg : Cfg} {Ok : VB → Prop} (L : VecLaws α cfg Ok) (m : Mem α) (c : Nat) (xs : List α) (w : VB)
    (p count : Nat) (hp : p ≤ xs.length) (ref : Ref α) (v : α) (hv : RefOK cfg c m w xs ref v) (hlit : ∃ x, ref = .lit x)
    (h : VRepW cfg Ok c m xs w) (hf : Fresh m) :
    Post (insertCount cfg c p count ref) m (fun res m' =>
      (∀ r, res = .ok r → r = p ∧ VRep cfg Ok c m' (xs.take p ++ List.replicate count v ++ xs.drop p))
        ∧ (∀ f, res ≠ .error (.fault f)) ∧ FrameL cfg c (regionOf cfg c w) m m') :=
  Post.mono (insertCount_ins L m c xs w p count ref v h hf hp hv hlit) (fun _ _ hq => hq.spec)

/-- `insert(end(), count, v)` for any valid argument reference (an outside value, an element of the container itself or a
    live object elsewhere): strong guarantee -/
theorem insertCount_end_post {cfg : Cfg} {Ok : VB → Prop} (L : VecLaws α cfg Ok) (m : Mem α) (c : Nat) (xs : List α) (w : VB)
    (count : Nat) (ref : Ref α) (v : α) (hv : RefOK cfg c m w xs ref v) (h : VRepW cfg Ok c m xs w) (hf : Fresh m) :
    Post (insertCount cfg c xs.length count ref) m (StrongPost cfg Ok c m w xs (xs ++ List.replicate count v) xs.length) := by
  unfold insertCount
  by_cases hc0 : count = 0
  · subst hc0
    simp only [gt_iff_lt, Nat.lt_irrefl, ↓reduceIte]
    refine Post.pure ⟨Or.inl ⟨rfl, w, ?_⟩, FrameL.refl _ _ _ _⟩
    simpa using h
  · have hvl : 0 < count := by omega
    have hne : List.replicate count v ≠ [] := by simp; omega
    simp only [gt_iff_lt, hvl, ↓reduceIte]
    refine Post.bind (vsize_post cfg m c w h.ws) ?_ (by okerr)
    rintro sz m0 ⟨hsz, rfl⟩; injection hsz with hsz; subst hsz
    rw [h.size]
    refine Post.bind (adjustCapacityRef_post L m0 c xs w _ ref v h hf hv) ?_ ?_
    · rintro ref' m1 ⟨hq, hfr⟩
      rcases hq with ⟨ref'', hr, w', ⟨hw', hcap, hreg⟩, hv'⟩ | ⟨e, he, _⟩
      · injection hr with hr; subst hr
        refine Post.bind (posAddr_post cfg m1 c w' xs.length hw'.ws) ?_ (by okerr)
        rintro a m2 ⟨ha, rfl⟩; injection ha with ha; subst ha
        simp only [Nat.sub_self, ↓reduceIte]
        have := insert_end_core L m2 c xs w' (List.replicate count v) (uninitFillRef ⟨regionOf cfg c w', xs.length⟩ count ref')
          (xs.length + count) xs.length hw' rfl hne (by simpa using hcap) (by simp) (fun post hb => by
            have := uninitFillRef_post m2 _ (lives xs) post ref' v count (by simpa using hb) (hv'.refIn post count)
            simpa using this)
        exact Post.mono this (fun _ _ hq => (hq.lift hfr hreg).strong rfl)
      · cases he
    · rintro e m1 ⟨hq, hfr⟩
      rcases hq with ⟨_, he, _⟩ | ⟨e', he, hw', _⟩
      · cases he
      · injection he with he; subst he
        exact ⟨Or.inr ⟨e', rfl, w, hw'⟩, hfr⟩

/-! ### Part 4: `assign(count, v)` -/

/-- `fill(first, n, count, v)` (`n < count`) with an outside value for a non trivially-copyable type: copy-assign over the
    `n` existing objects, then build the rest behind them (all or nothing) -/
theorem fillHelper_post (m : Mem α) (hcat : m.cat ≠ .tc) (r : Region) (xs : List α) (v : α) (count : Nat) (post : List (Slot α))
    (hlt : xs.length < count)
    (h : m.buf r = some (lives xs ++ raws (count - xs.length) ++ post)) :
    Post (fillHelper ⟨r, 0⟩ xs.length count (.lit v)) m (fun res m' =>
      ((res = .ok () ∧ m'.buf = View.set m.buf r (lives (List.replicate count v) ++ post)) ∨
       (res = .error (.exc .elem) ∧ ∃ ys : List α, ys.length = xs.length ∧
          m'.buf = View.set m.buf r (lives ys ++ raws (count - xs.length) ++ post))) ∧ Keep m m') := by
  unfold fillHelper
  refine Post.bind (isTC_post m) ?_ (by okerr)
  rintro t m0 ⟨ht, rfl⟩; injection ht with ht; subst ht
  have hc : (m0.cat == Cat.tc) = false := by simpa using hcat
  simp only [hc, Bool.false_eq_true, ↓reduceIte]
  have hcp := fillRef_post r (.lit v) v xs.length m0 [] (lives xs) (raws (count - xs.length) ++ post)
    (by simp) (lives_ne_raw xs) (by simpa using h) rfl
  simp only [List.length_nil] at hcp
  refine Post.bind hcp ?_ ?_
  · rintro _ m1 ⟨hq, hk1⟩
    rcases hq with ⟨_, hb1⟩ | ⟨he, _⟩
    · have h1 : m1.buf r = some (lives (List.replicate xs.length v) ++ raws (count - xs.length) ++ post) := by
        rw [hb1]; simp
      have hu := uninitFillRef_post m1 r (lives (List.replicate xs.length v)) post (.lit v) v (count - xs.length) h1 rfl
      simp only [lives_length, List.length_replicate] at hu
      rw [show (Addr.mk r 0).add xs.length = ⟨r, xs.length⟩ by simp [Addr.add]]
      refine Post.mono hu ?_
      rintro res m2 ⟨hq2, hk2⟩
      refine ⟨?_, hk1.trans hk2⟩
      rcases hq2 with ⟨hr2, hb2⟩ | ⟨hr2, hb2⟩
      · refine Or.inl ⟨hr2, ?_⟩
        rw [hb2, hb1, View.set_set, ← lives_append, List.replicate_append_replicate,
          show xs.length + (count - xs.length) = count by omega]
      · refine Or.inr ⟨hr2, List.replicate xs.length v, by simp, ?_⟩
        rw [hb2, hb1, View.set_set]
    · cases he
  · rintro e m1 ⟨hq, hk1⟩
    rcases hq with ⟨he, _⟩ | ⟨he, j, hj, hb1⟩
    · cases he
    · refine ⟨Or.inr ⟨he, (List.replicate xs.length v).take j ++ xs.drop j, ?_, ?_⟩, hk1⟩
      · simp only [List.length_append, List.length_take, List.length_drop, List.length_replicate] at hj ⊢; omega
      · rw [hb1]; simp [lives]

/-- `assign(count, v)` with an outside value, for a non trivially-copyable element type: basic guarantee -/
theorem assignFill_post {cfg : Cfg} {Ok : VB → Prop} (L : VecLaws α cfg Ok) (m : Mem α) (c : Nat) (xs : List α) (w : VB)
    (count : Nat) (ref : Ref α) (v : α) (hv : RefOK cfg c m w xs ref v) (hlit : ∃ x, ref = .lit x)
    (h : VRepW cfg Ok c m xs w) (hf : Fresh m) (hcat : m.cat ≠ .tc) :
    Post (assignFill cfg c count ref) m (BasicPost cfg Ok c m w (List.replicate count v) ()) := by
  obtain ⟨x, rfl⟩ := hlit
  have hx : x = v := hv
  subst hx
  unfold assignFill
  refine Post.bind (vsize_post cfg m c w h.ws) ?_ (by okerr)
  rintro sz m0 ⟨hsz, rfl⟩; injection hsz with hsz; subst hsz
  rw [h.size]
  by_cases hlt : xs.length < count
  · simp only [hlt, ↓reduceIte]
    refine Post.bind (adjustCapacityRef_lit_post L m0 c xs w _ x h hf) ?_ ?_
    · rintro ref' m1 ⟨hq, hfr⟩
      rcases hq with ⟨hr, w', ⟨hw', hcap, hreg⟩⟩ | ⟨e, he, _⟩
      · injection hr with hr; subst hr
        refine Post.bind (vbegin_post cfg m1 c w' hw'.ws) ?_ (by okerr)
        rintro a m2 ⟨ha, rfl⟩; injection ha with ha; subst ha
        have hcat2 : m2.cat ≠ .tc := by rw [hfr.cat]; exact hcat
        have := assign_grow_core L m2 c xs w' (List.replicate count x) (fillHelper ⟨regionOf cfg c w', 0⟩ xs.length count (.lit x))
          hw' (by simpa using hlt) (by simpa using hcap)
          (fun post hb => by
            have := fillHelper_post m2 hcat2 _ xs x count post hlt (by simpa using hb)
            simpa using this)
        refine Post.mono ?_ (fun _ _ hq => BasicPost.lift hfr hreg hq)
        simpa using this
      · cases he
    · rintro e m1 ⟨hq, hfr⟩
      rcases hq with ⟨he, _⟩ | ⟨e', he, hw', _⟩
      · cases he
      · injection he with he; subst he
        exact ⟨Or.inr ⟨e', xs, rfl, w, hw'⟩, hfr⟩
  · simp only [hlt, ↓reduceIte]
    refine Post.bind (vbegin_post cfg m0 c w h.ws) ?_ (by okerr)
    rintro a m1 ⟨ha, rfl⟩; injection ha with ha; subst ha
    have := assign_shrink_core L m1 c xs w (List.replicate count x) (fillRef ⟨regionOf cfg c w, 0⟩ count (.lit x)) h
      (by simp; omega)
      (by intro h0
          have : count = 0 := by simpa using h0
          subst this; exact ⟨rfl, rfl⟩)
      (fun post hb => by
        have := fillRef_post (regionOf cfg c w) (.lit x) x count m1 [] (lives (xs.take count)) post (by simp; omega)
          (lives_ne_raw _) (by simpa using hb) rfl
        simpa using this)
    simpa [Addr.add] using this

/-! ### Part 5: `Vector()` and `~Vector()` -/

/-- `Vector()`: the words of pool slot `c` are initialised; the container is empty. The laws of the flavour's constructor are
    explicit hypotheses: the new words satisfy the invariant and have size 0; `amc::vector` starts without storage (capacity
    0); the other flavours start in their inline storage (capacity `N`), which must be raw. -/
theorem construct_post {cfg : Cfg} {Ok : VB → Prop} (m : Mem α) (c : Nat) (hc : c < m.ws.length)
    (hraw : cfg.flavour ≠ .std → m.buf (.inl c) = some (raws cfg.n))
    (hok : Ok (cfg.ops.ctor cfg.n)) (hsz : cfg.ops.size (cfg.ops.ctor cfg.n) = 0)
    (hstd : cfg.flavour = .std → cfg.ops.capacity (cfg.ops.ctor cfg.n) = 0)
    (hinl : cfg.flavour ≠ .std → cfg.ops.capacity (cfg.ops.ctor cfg.n) = cfg.n ∧ cfg.ops.begin (cfg.ops.ctor cfg.n) = .inl 0) :
    Post (construct cfg c) m (fun res m' => res = .ok () ∧ VRepW cfg Ok c m' [] (cfg.ops.ctor cfg.n)
      ∧ m' = { m with ws := m.ws.set c (cfg.ops.ctor cfg.n) } ∧ Frame c [] m m') := by
  unfold construct
  refine Post.mono (setW_post m c _) ?_
  rintro res m' ⟨hr, rfl⟩
  refine ⟨hr, ⟨⟨by simp [hc], hok, by simp [lives], ?_, ?_, ?_⟩, by simpa using hsz⟩, rfl, Frame.withWs c [] m _⟩
  · by_cases hfl : cfg.flavour = .std
    · exact Or.inl (hstd hfl)
    · right
      obtain ⟨hcap, hbeg⟩ := hinl hfl
      have hreg : regionOf cfg c (cfg.ops.ctor cfg.n) = .inl c := by unfold regionOf; rw [hbeg]; rfl
      rw [withWs_buf, hreg, hcap]
      simpa [lives] using hraw hfl
  · intro id hid hne
    by_cases hfl : cfg.flavour = .std
    · exact absurd (hstd hfl) hne
    · obtain ⟨_, hbeg⟩ := hinl hfl
      have hreg : regionOf cfg c (cfg.ops.ctor cfg.n) = .inl c := by unfold regionOf; rw [hbeg]; rfl
      rw [hreg] at hid; cases hid
  · intro hne hfl
    have hfl' : cfg.flavour ≠ .std := by rw [hfl]; simp
    obtain ⟨_, hbeg⟩ := hinl hfl'
    have hreg : regionOf cfg c (cfg.ops.ctor cfg.n) = .inl c := by unfold regionOf; rw [hbeg]; rfl
    exact absurd hreg hne

/-- what the destructor of the flavour emits on words `w`: the heap block is returned with the capacity it was obtained
    with; nothing (or `deallocate(nullptr, 0)`) when there is no storage; nothing for inline storage -/
def DtorSpec (cfg : Cfg) (w : VB) : Prop :=
  (∃ id, cfg.ops.begin w = .blk id ∧ 0 < cfg.ops.capacity w ∧ (cfg.ops.dtor w).2 = [Eff.dealloc (.blk id) (cfg.ops.capacity w)])
  ∨ (cfg.ops.begin w = .null ∧ cfg.ops.capacity w = 0 ∧ ((cfg.ops.dtor w).2 = [] ∨ (cfg.ops.dtor w).2 = [Eff.dealloc .null 0]))
  ∨ (cfg.ops.begin w = .inl 0 ∧ (cfg.ops.dtor w).2 = [])

/-- destroying all the elements of a container: its buffer (if any) is all raw, nothing else changes -/
theorem destroyAll_post {cfg : Cfg} {Ok : VB → Prop} (m : Mem α) (c : Nat) (xs : List α) (w : VB) (h : VRepW cfg Ok c m xs w) :
    Post (destroyN ⟨regionOf cfg c w, 0⟩ xs.length) m (fun res m' => res = .ok () ∧ Keep m m'
      ∧ (cfg.ops.capacity w = 0 ∨ m'.buf (regionOf cfg c w) = some (raws (cfg.ops.capacity w)))
      ∧ (∀ r', r' ≠ regionOf cfg c w → m'.buf r' = m.buf r')
      ∧ (∀ r', (m'.buf r').isSome → (m.buf r').isSome)) := by
  have hle := h.le
  by_cases hx : xs = []
  · subst hx
    simp only [List.length_nil, destroyN]
    refine Post.pure ⟨rfl, Keep.refl m, ?_, fun _ _ => rfl, fun _ h' => h'⟩
    rcases h.buf with h0 | hb
    · exact Or.inl h0
    · exact Or.inr (by simpa [lives] using hb)
  · have hpos : 0 < xs.length := List.length_pos_iff.mpr hx
    have hbuf : m.buf (regionOf cfg c w) = some ([] ++ lives xs ++ raws (cfg.ops.capacity w - xs.length)) := by
      rcases h.buf with h0 | hb
      · omega
      · simpa using hb
    have hd := destroyN_post (regionOf cfg c w) (lives xs) m [] _ hbuf (lives_okAlive _ _)
    simp only [lives_length, List.length_nil] at hd
    refine Post.mono hd ?_
    rintro res m' ⟨hr, hb, hk⟩
    refine ⟨hr, hk, Or.inr ?_, fun r' hr' => by rw [hb, View.set_other _ _ _ _ hr'],
      fun r' h' => by rw [hb, View.set_isSome _ _ _ (by rw [hbuf]; rfl)] at h'; exact h'⟩
    rw [hb, View.set_same, List.nil_append, raws_append]
    congr 2; omega

/-- `~Vector()`: the elements are destroyed and the heap block (if any) is returned: afterwards the block is gone, an inline
    buffer is all raw, no other region changed; never a fault. The law of the flavour's destructor is the explicit
    hypothesis `DtorSpec cfg w`. -/
theorem destruct_post_cnt {cfg : Cfg} {Ok : VB → Prop} (m : Mem α) (c : Nat) (xs : List α) (w : VB)
    (h : VRepW cfg Ok c m xs w) (hd : DtorSpec cfg w) :
    Post (destruct cfg c) m (fun res m' => res = .ok ()
      ∧ (∀ id, regionOf cfg c w = .blk id → 0 < cfg.ops.capacity w → m'.buf (.blk id) = none ∧ m'.cnt id = none)
      ∧ (regionOf cfg c w = .inl c → 0 < cfg.ops.capacity w → m'.buf (.inl c) = some (raws (cfg.ops.capacity w)))
      ∧ (∀ r', r' ≠ regionOf cfg c w → m'.buf r' = m.buf r')
      ∧ m'.ws = m.ws.set c (cfg.ops.dtor w).1 ∧ m'.cat = m.cat ∧ m'.hasRealloc = m.hasRealloc ∧ m'.nextId = m.nextId
      ∧ (∀ id, (m'.buf (.blk id)).isSome → (m.buf (.blk id)).isSome)
      ∧ (∀ id, Region.blk id ≠ regionOf cfg c w → m'.cnt id = m.cnt id)) := by
  unfold destruct
  refine Post.bind (vbegin_post cfg m c w h.ws) ?_ (by okerr)
  rintro a m0 ⟨ha, rfl⟩; injection ha with ha; subst ha
  refine Post.bind (vsize_post cfg m0 c w h.ws) ?_ (by okerr)
  rintro sz m0' ⟨hsz, rfl⟩; injection hsz with hsz; subst hsz
  rw [h.size]
  refine Post.bind (destroyAll_post m0' c xs w h) ?_ (by rintro e m1 ⟨he, _⟩; cases he)
  rintro _ m1 ⟨_, hk1, hb1, ho1, hn1⟩
  refine Post.bind (getW_post m1 c w (by rw [hk1.ws]; exact h.ws)) ?_ (by okerr)
  rintro w0 m1' ⟨hw0, rfl⟩; injection hw0 with hw0; subst hw0
  rcases hdt : cfg.ops.dtor w0 with ⟨w', effs⟩
  simp only
  unfold DtorSpec at hd
  simp only [hdt] at hd
  rcases hd with ⟨id, hbeg, hcap, heff⟩ | ⟨hbeg, hcap, heff⟩ | ⟨hbeg, heff⟩
  · -- heap block
    subst heff
    have hreg : regionOf cfg c w0 = .blk id := regionOf_blk cfg c w0 id hbeg
    have hbb : m1'.buf (.blk id) = some (raws (cfg.ops.capacity w0)) := by
      rcases hb1 with h0 | hb
      · omega
      · rw [← hreg]; exact hb
    have hcc : m1'.cnt id = some (cfg.ops.capacity w0) := by
      rw [hk1.cnt]; exact h.store.cnt id hreg (by omega)
    simp only [interpAll, interp]
    refine Post.bind (AllocAux.post_then_pure (deallocBlock_post m1' id _ _ hbb hcc (Or.inl (by
      intro s hs; simp only [raws, List.mem_replicate] at hs; exact hs.2)))) ?_ (by rintro e m2 ⟨he, _⟩; cases he)
    rintro _ m2 ⟨_, hfr⟩
    refine Post.mono (setW_post m2 c _) ?_
    rintro res m3 ⟨hr, rfl⟩
    refine ⟨hr, ?_, ?_, ?_, ?_, hfr.keep.cat.trans hk1.cat, hfr.keep.hr.trans hk1.hr, hfr.keep.nid.trans hk1.nid, ?_,
      fun id' hne => (withWs_cnt _ _ _).trans ((hfr.cntOther id' (fun e => hne (by rw [hreg, e]))).trans (hk1.cnt id'))⟩
    · intro id' hid' _
      rw [hreg] at hid'; injection hid' with hid'; subst hid'
      exact ⟨by rw [withWs_buf, hfr.buf, View.unset_same], by rw [withWs_cnt]; exact hfr.cnt⟩
    · intro hi _; rw [hreg] at hi; cases hi
    · intro r' hr'
      rw [withWs_buf, hfr.buf, View.unset_other _ _ _ (by rw [← hreg]; exact hr')]
      exact ho1 r' hr'
    · show m2.ws.set c w' = _
      rw [hfr.keep.ws, hk1.ws]
    · intro id' hid'
      rw [withWs_buf, hfr.buf] at hid'
      by_cases e : id' = id
      · subst e; rw [View.unset_same] at hid'; cases hid'
      · rw [View.unset_other _ _ _ (by intro h'; injection h' with h'; exact e h')] at hid'
        exact hn1 _ hid'
  · -- no storage
    have hreg : regionOf cfg c w0 = .blk 0 := by unfold regionOf; rw [hbeg]; rfl
    have hstep : Post (interpAll c c effs) m1' (fun res m' => res = .ok () ∧ Same m1' m') := by
      rcases heff with heff | heff
      · subst heff; exact ⟨rfl, Same.refl _⟩
      · subst heff
        simp only [interpAll, interp]
        exact AllocAux.post_then_pure (deallocNull_post m1')
    refine Post.bind hstep ?_ (by rintro e m2 ⟨he, _⟩; cases he)
    rintro _ m2 ⟨_, hs2⟩
    refine Post.mono (setW_post m2 c _) ?_
    rintro res m3 ⟨hr, rfl⟩
    refine ⟨hr, ?_, ?_, ?_, ?_, hs2.2.cat.trans hk1.cat, hs2.2.hr.trans hk1.hr, hs2.2.nid.trans hk1.nid, ?_,
      fun id' _ => (withWs_cnt _ _ _).trans ((hs2.2.cnt id').trans (hk1.cnt id'))⟩
    · intro id' _ hpos; omega
    · intro hi _; rw [hreg] at hi; cases hi
    · intro r' hr'
      rw [withWs_buf, hs2.1]; exact ho1 r' hr'
    · show m2.ws.set c w' = _
      rw [hs2.2.ws, hk1.ws]
    · intro id' hid'
      rw [withWs_buf, hs2.1] at hid'
      exact hn1 _ hid'
  · -- inline storage
    subst heff
    have hreg : regionOf cfg c w0 = .inl c := by unfold regionOf; rw [hbeg]; rfl
    simp only [interpAll]
    refine Post.bind (Q1 := fun res m' => res = .ok () ∧ m' = m1') ⟨rfl, rfl⟩ ?_ (by okerr)
    rintro _ m2 ⟨_, rfl⟩
    refine Post.mono (setW_post m2 c _) ?_
    rintro res m3 ⟨hr, rfl⟩
    refine ⟨hr, ?_, ?_, ?_, ?_, hk1.cat, hk1.hr, hk1.nid, ?_, fun id' _ => (withWs_cnt _ _ _).trans (hk1.cnt id')⟩
    · intro id' hid' _; rw [hreg] at hid'; cases hid'
    · intro _ hpos
      rw [withWs_buf]
      rcases hb1 with h0 | hb
      · omega
      · rw [← hreg]; exact hb
    · intro r' hr'
      rw [withWs_buf]; exact ho1 r' hr'
    · show m2.ws.set c w' = _
      rw [hk1.ws]
    · intro id' hid'
      rw [withWs_buf] at hid'
      exact hn1 _ hid'

/-- `~Vector()` (see `destruct_post_cnt`, which additionally states that the allocation counts of the other blocks are kept) -/
theorem destruct_post {cfg : Cfg} {Ok : VB → Prop} (m : Mem α) (c : Nat) (xs : List α) (w : VB)
    (h : VRepW cfg Ok c m xs w) (hd : DtorSpec cfg w) :
    Post (destruct cfg c) m (fun res m' => res = .ok ()
      ∧ (∀ id, regionOf cfg c w = .blk id → 0 < cfg.ops.capacity w → m'.buf (.blk id) = none ∧ m'.cnt id = none)
      ∧ (regionOf cfg c w = .inl c → 0 < cfg.ops.capacity w → m'.buf (.inl c) = some (raws (cfg.ops.capacity w)))
      ∧ (∀ r', r' ≠ regionOf cfg c w → m'.buf r' = m.buf r')
      ∧ m'.ws = m.ws.set c (cfg.ops.dtor w).1 ∧ m'.cat = m.cat ∧ m'.hasRealloc = m.hasRealloc ∧ m'.nextId = m.nextId
      ∧ (∀ id, (m'.buf (.blk id)).isSome → (m.buf (.blk id)).isSome)) :=
  Post.mono (destruct_post_cnt m c xs w h hd) (fun _ _ ⟨h1, h2, h3, h4, h5, h6, h7, h8, h9, _⟩ => ⟨h1, h2, h3, h4, h5, h6, h7, h8, h9⟩)

/-- the destructor law of SmallVector (`SmallLaws.dtor`) gives `DtorSpec` on words satisfying the SmallVector invariant -/
theorem DtorSpec.small {cfg : Cfg} {P : Nat → Prop} (L : SmallLaws cfg.ops cfg.n) {w : VB} (hok : SOkP P cfg.ops cfg.n w) :
    DtorSpec cfg w := by
  have hd := L.dtor w
  have hb := L.begin_small w
  cases hs : cfg.ops.isSmall w with
  | true =>
    rw [hs] at hd hb
    exact Or.inr (Or.inr ⟨by simpa using hb, by simpa using hd⟩)
  | false =>
    rw [hs] at hd hb
    simp only [Bool.false_eq_true, ↓reduceIte] at hd hb
    rcases hok.2 hs with ⟨id, hdyn, _, hpos⟩ | ⟨hdyn, hcap⟩
    · exact Or.inl ⟨id, by rw [hb, hdyn], hpos, by rw [hd, hdyn]⟩
    · exact Or.inr (Or.inl ⟨by rw [hb, hdyn], hcap, Or.inr (by rw [hd, hdyn, hcap])⟩)

/-- the destructor law of `amc::vector` (`dvb_effs` in `Bridge/SmallLaws`) gives `DtorSpec` on words satisfying its invariant -/
theorem DtorSpec.std {cfg : Cfg} {P : Nat → Prop} (L : StdLaws cfg.ops)
    (hdtor : ∀ t, (cfg.ops.dtor t).2 = if t.dyn ≠ PtrV.null then [Eff.dealloc t.dyn t.capa] else [])
    {w : VB} (hok : DOkP P cfg.ops.kMax w) : DtorSpec cfg w := by
  have hd := hdtor w
  rcases hok.2.2 with ⟨id, hdyn, _, hpos⟩ | ⟨hdyn, hcap⟩
  · refine Or.inl ⟨id, by rw [L.begin_eq, hdyn], by rw [L.cap_eq]; exact hpos, ?_⟩
    rw [hd, hdyn, L.cap_eq]; simp
  · refine Or.inr (Or.inl ⟨by rw [L.begin_eq, hdyn], by rw [L.cap_eq]; exact hcap, Or.inl ?_⟩)
    rw [hd, hdyn]; simp

/-- `~SmallVector()`: additionally the inline storage is all raw afterwards, whatever the state was -/
theorem destruct_small {cfg : Cfg} {P : Nat → Prop} (hfl : cfg.flavour = .small) (L : SmallLaws cfg.ops cfg.n)
    (m : Mem α) (c : Nat) (xs : List α) (w : VB) (h : VRepW cfg (SOkP P cfg.ops cfg.n) c m xs w) :
    Post (destruct cfg c) m (fun res m' => res = .ok ()
      ∧ (∀ id, regionOf cfg c w = .blk id → 0 < cfg.ops.capacity w → m'.buf (.blk id) = none ∧ m'.cnt id = none)
      ∧ m'.buf (.inl c) = some (raws cfg.n)
      ∧ (∀ r', r' ≠ regionOf cfg c w → m'.buf r' = m.buf r')
      ∧ m'.ws = m.ws.set c (cfg.ops.dtor w).1 ∧ m'.cat = m.cat ∧ m'.hasRealloc = m.hasRealloc ∧ m'.nextId = m.nextId
      ∧ (∀ id, (m'.buf (.blk id)).isSome → (m.buf (.blk id)).isSome)) := by
  refine Post.mono (destruct_post m c xs w h (DtorSpec.small L h.ok)) ?_
  rintro res m' ⟨hr, hblk, hinl, hoth, hrest⟩
  refine ⟨hr, hblk, ?_, hoth, hrest⟩
  by_cases hreg : regionOf cfg c w = .inl c
  · cases hs : cfg.ops.isSmall w with
    | true =>
      have hcap := (L.bounds w h.ok.1).2.2 hs
      have := hinl hreg (by rw [hcap]; exact L.npos)
      rw [hcap] at this; exact this
    | false =>
      -- heap state never resolves to the inline storage
      exfalso
      have hb := L.begin_small w
      rw [hs] at hb
      simp only [Bool.false_eq_true, ↓reduceIte] at hb
      unfold regionOf at hreg
      rcases h.ok.2 hs with ⟨id, hdyn, _, _⟩ | ⟨hdyn, _⟩
      · rw [hb, hdyn] at hreg; cases hreg
      · rw [hb, hdyn] at hreg; cases hreg
  · rw [hoth _ (Ne.symm hreg)]
    exact h.store.inl hreg hfl

/-- `~SmallVector()` with the allocation counts of the other blocks -/
theorem destruct_small_cnt {cfg : Cfg} {P : Nat → Prop} (hfl : cfg.flavour = .small) (L : SmallLaws cfg.ops cfg.n)
    (m : Mem α) (c : Nat) (xs : List α) (w : VB) (h : VRepW cfg (SOkP P cfg.ops cfg.n) c m xs w) :
    Post (destruct cfg c) m (fun res m' => res = .ok ()
      ∧ (∀ id, regionOf cfg c w = .blk id → 0 < cfg.ops.capacity w → m'.buf (.blk id) = none ∧ m'.cnt id = none)
      ∧ m'.buf (.inl c) = some (raws cfg.n)
      ∧ (∀ r', r' ≠ regionOf cfg c w → m'.buf r' = m.buf r')
      ∧ m'.ws = m.ws.set c (cfg.ops.dtor w).1 ∧ m'.cat = m.cat ∧ m'.hasRealloc = m.hasRealloc ∧ m'.nextId = m.nextId
      ∧ (∀ id, (m'.buf (.blk id)).isSome → (m.buf (.blk id)).isSome)
      ∧ (∀ id, Region.blk id ≠ regionOf cfg c w → m'.cnt id = m.cnt id)) := by
  refine Post.mono (destruct_post_cnt m c xs w h (DtorSpec.small L h.ok)) ?_
  rintro res m' ⟨hr, hblk, hinl, hoth, hrest⟩
  refine ⟨hr, hblk, ?_, hoth, hrest⟩
  by_cases hreg : regionOf cfg c w = .inl c
  · cases hs : cfg.ops.isSmall w with
    | true =>
      have hcap := (L.bounds w h.ok.1).2.2 hs
      have := hinl hreg (by rw [hcap]; exact L.npos)
      rw [hcap] at this; exact this
    | false =>
      -- heap state never resolves to the inline storage
      exfalso
      have hb := L.begin_small w
      rw [hs] at hb
      simp only [Bool.false_eq_true, ↓reduceIte] at hb
      unfold regionOf at hreg
      rcases h.ok.2 hs with ⟨id, hdyn, _, _⟩ | ⟨hdyn, _⟩
      · rw [hb, hdyn] at hreg; cases hreg
      · rw [hb, hdyn] at hreg; cases hreg
  · rw [hoth _ (Ne.symm hreg)]
    exact h.store.inl hreg hfl

/-- `~vector()` (`amc::vector`) -/
theorem destruct_std {cfg : Cfg} {P : Nat → Prop} (L : StdLaws cfg.ops)
    (hdtor : ∀ t, (cfg.ops.dtor t).2 = if t.dyn ≠ PtrV.null then [Eff.dealloc t.dyn t.capa] else [])
    (m : Mem α) (c : Nat) (xs : List α) (w : VB) (h : VRepW cfg (DOkP P cfg.ops.kMax) c m xs w) :
    Post (destruct cfg c) m (fun res m' => res = .ok ()
      ∧ (∀ id, w.dyn = .blk id → m'.buf (.blk id) = none ∧ m'.cnt id = none)
      ∧ (∀ r', r' ≠ regionOf cfg c w → m'.buf r' = m.buf r')
      ∧ m'.ws = m.ws.set c (cfg.ops.dtor w).1 ∧ m'.cat = m.cat ∧ m'.hasRealloc = m.hasRealloc ∧ m'.nextId = m.nextId
      ∧ (∀ id, (m'.buf (.blk id)).isSome → (m.buf (.blk id)).isSome)) := by
  refine Post.mono (destruct_post m c xs w h (DtorSpec.std L hdtor h.ok)) ?_
  rintro res m' ⟨hr, hblk, _, hoth, hrest⟩
  refine ⟨hr, ?_, hoth, hrest⟩
  intro id hdyn
  rcases h.ok.2.2 with ⟨id', hdyn', _, hpos⟩ | ⟨hnull, _⟩
  · rw [hdyn] at hdyn'; injection hdyn' with hid; subst hid
    exact hblk id (regionOf_blk cfg c w id (by rw [L.begin_eq, hdyn])) (by rw [L.cap_eq]; exact hpos)
  · rw [hdyn] at hnull; cases hnull

/-- `SmallVector()` -/
theorem construct_small {cfg : Cfg} {P : Nat → Prop} (hfl : cfg.flavour = .small) (L : SmallLaws cfg.ops cfg.n)
    (m : Mem α) (c : Nat) (hc : c < m.ws.length) (hraw : m.buf (.inl c) = some (raws cfg.n)) :
    Post (construct cfg c) m (fun res m' => res = .ok () ∧ VRepW cfg (SOkP P cfg.ops cfg.n) c m' [] (cfg.ops.ctor cfg.n)
      ∧ m' = { m with ws := m.ws.set c (cfg.ops.ctor cfg.n) } ∧ Frame c [] m m') := by
  obtain ⟨hrep, hsz, hcap, hsm⟩ := L.ctor
  have hb := L.begin_small (cfg.ops.ctor cfg.n)
  rw [hsm] at hb
  refine construct_post m c hc (fun _ => hraw) ⟨hrep, fun hf => by rw [hsm] at hf; cases hf⟩ hsz
    (fun h => by rw [hfl] at h; cases h) (fun _ => ⟨hcap, by simpa using hb⟩)

/-- `vector()` (`amc::vector`): the constructor leaves a null pointer and capacity 0 (`DVB.ctor` in the generated words) -/
theorem construct_std {cfg : Cfg} {P : Nat → Prop} (hfl : cfg.flavour = .std) (L : StdLaws cfg.ops)
    (hctor : cfg.ops.ctor cfg.n = ⟨0, 0, PtrV.null⟩) (m : Mem α) (c : Nat) (hc : c < m.ws.length) :
    Post (construct cfg c) m (fun res m' => res = .ok () ∧ VRepW cfg (DOkP P cfg.ops.kMax) c m' [] (cfg.ops.ctor cfg.n)
      ∧ m' = { m with ws := m.ws.set c (cfg.ops.ctor cfg.n) } ∧ Frame c [] m m') := by
  refine construct_post m c hc (fun h => absurd hfl h) ?_ ?_ ?_ (fun h => absurd hfl h)
  · rw [hctor]; exact ⟨Nat.le_refl _, Nat.zero_le _, Or.inr ⟨rfl, rfl⟩⟩
  · rw [L.size_eq, hctor]
  · intro _; rw [L.cap_eq, hctor]

/-! ### Part 6: copies -/

/-- `operator=(const Vector&)` from another container `d` of the pool: the elements of `d` are assigned -/
theorem copyAssign_post {cfg : Cfg} {Ok : VB → Prop} (L : VecLaws α cfg Ok) (m : Mem α) (c d : Nat) (xs ys : List α) (w wd : VB)
    (h : VRepW cfg Ok c m xs w) (hd : VRepW cfg Ok d m ys wd) (hf : Fresh m) (hcat : m.cat ≠ .tc) (hne : c ≠ d) :
    Post (copyAssign cfg c d) m (BasicPost cfg Ok c m w ys ()) := by
  unfold copyAssign
  rw [if_pos hne]
  refine Post.bind (elems_post L m d ys wd hd hf) ?_ (by okerr)
  rintro vals m1 ⟨hv, rfl⟩; injection hv with hv; subst vals
  exact assignRange_post L m1 c xs w ys h hf hcat

/-- self copy-assignment does nothing -/
theorem copyAssign_self (cfg : Cfg) (m : Mem α) (c : Nat) :
    Post (copyAssign cfg c c) m (fun res m' => res = .ok () ∧ m' = m) := by
  unfold copyAssign
  rw [if_neg (by simp)]
  exact ⟨rfl, rfl⟩

/-- `Vector(const Vector&)`: pool slot `c` is constructed (hypotheses of `construct_post`) and receives copies of the elements
    of `d`; if a copy throws, `c` is a valid empty container (strong guarantee relative to the freshly constructed state) -/
theorem copyConstruct_post {cfg : Cfg} {Ok : VB → Prop} (L : VecLaws α cfg Ok) (m : Mem α) (c d : Nat) (ys : List α) (wd : VB)
    (hd : VRepW cfg Ok d m ys wd) (hf : Fresh m) (hc : c < m.ws.length)
    (hraw : cfg.flavour ≠ .std → m.buf (.inl c) = some (raws cfg.n))
    (hok : Ok (cfg.ops.ctor cfg.n)) (hsz : cfg.ops.size (cfg.ops.ctor cfg.n) = 0)
    (hstd : cfg.flavour = .std → cfg.ops.capacity (cfg.ops.ctor cfg.n) = 0)
    (hinl : cfg.flavour ≠ .std → cfg.ops.capacity (cfg.ops.ctor cfg.n) = cfg.n ∧ cfg.ops.begin (cfg.ops.ctor cfg.n) = .inl 0) :
    Post (copyConstruct cfg c d) m
      (StrongPost cfg Ok c ({ m with ws := m.ws.set c (cfg.ops.ctor cfg.n) } : Mem α) (cfg.ops.ctor cfg.n) [] ys ()) := by
  unfold copyConstruct
  refine Post.bind (elems_post L m d ys wd hd hf) ?_ (by okerr)
  rintro vals m1 ⟨hv, rfl⟩; injection hv with hv; subst vals
  refine Post.bind (construct_post (Ok := Ok) m1 c hc hraw hok hsz hstd hinl) ?_ (by rintro e m2 ⟨he, _⟩; cases he)
  rintro _ m2 ⟨_, hrep, rfl, _⟩
  have hf2 : Fresh ({ m1 with ws := m1.ws.set c (cfg.ops.ctor cfg.n) } : Mem α) := by
    intro id hid
    rw [withWs_buf] at hid
    exact hf id hid
  have := appendRange_post L _ c [] (cfg.ops.ctor cfg.n) ys hrep hf2
  simpa using this

end AmcVerif
