import AmcVerif.Lemmas.VecOpsA
import AmcVerif.Lemmas.HelperPosts
import AmcVerif.Lemmas.AllocPosts
namespace AmcVerif
variable {α β : Type}

/-! ### Part 0: general glue -/

/-- composition of frames; the second step may act on the (possibly fresh) region the container moved to -/
theorem FrameG.trans {c : Nat} {r0 r1 : Region} {m m1 m2 : Mem α} (h1 : FrameG c r0 m m1)
    (hreg : r1 = r0 ∨ ∃ id, r1 = .blk id ∧ m.nextId ≤ id) (h2 : FrameG c r1 m1 m2) : FrameG c r0 m m2 := by
  refine ⟨h2.cat.trans h1.cat, h2.hr.trans h1.hr, h2.wsLen.trans h1.wsLen,
    fun c' hc => (h2.wsOther c' hc).trans (h1.wsOther c' hc), Nat.le_trans h1.nid h2.nid, fun hf => h2.fresh (h1.fresh hf), ?_⟩
  intro r' hne hold
  have hne1 : r' ≠ r1 := by
    rcases hreg with hreg | ⟨id, hreg, hge⟩
    · rw [hreg]; exact hne
    · intro heq
      have := hold id (heq.trans hreg)
      omega
  rw [h2.bufOther r' hne1 (fun id hid => Nat.lt_of_lt_of_le (hold id hid) h1.nid)]
  exact h1.bufOther r' hne hold

/-- an element-level update of the buffer that keeps the number of elements -/
theorem VRepW.ofSet {cfg : Cfg} {Ok : VB → Prop} {c : Nat} {m m' : Mem α} {xs xs' : List α} {w : VB}
    (h : VRepW cfg Ok c m xs w) (hl : xs'.length = xs.length)
    (hb : m'.buf = View.set m.buf (regionOf cfg c w) (lives xs' ++ raws (cfg.ops.capacity w - xs'.length))) (hk : Keep m m') :
    VRepW cfg Ok c m' xs' w :=
  ⟨h.store.set hb (by simp [hl]) hk, by rw [h.size, hl]⟩

theorem StrongPost.basic {cfg : Cfg} {Ok : VB → Prop} {c : Nat} {m : Mem α} {w : VB} {xs xs' : List α} {okv : β}
    {res : Except Stop β} {m' : Mem α} (h : StrongPost cfg Ok c m w xs xs' okv res m') : BasicPost cfg Ok c m w xs' okv res m' := by
  rcases h with ⟨h | ⟨e, he, hv⟩, hfr⟩
  · exact ⟨Or.inl h, hfr⟩
  · exact ⟨Or.inr ⟨e, xs, he, hv⟩, hfr⟩

/-- an outcome relative to an intermediate memory `m1` (reached by a framed prefix, e.g. a capacity adjustment) is an
    outcome relative to the initial memory -/
theorem BasicPost.lift {cfg : Cfg} {Ok : VB → Prop} {c : Nat} {m m1 : Mem α} {w w1 : VB} {xs' : List α} {okv : β}
    (hfr : FrameG c (regionOf cfg c w) m m1)
    (hreg : regionOf cfg c w1 = regionOf cfg c w ∨ ∃ id, regionOf cfg c w1 = .blk id ∧ m.nextId ≤ id)
    {res : Except Stop β} {m' : Mem α} (h : BasicPost cfg Ok c m1 w1 xs' okv res m') : BasicPost cfg Ok c m w xs' okv res m' :=
  ⟨h.1, hfr.trans hreg h.2⟩

theorem StrongPost.lift {cfg : Cfg} {Ok : VB → Prop} {c : Nat} {m m1 : Mem α} {w w1 : VB} {xs xs' : List α} {okv : β}
    (hfr : FrameG c (regionOf cfg c w) m m1)
    (hreg : regionOf cfg c w1 = regionOf cfg c w ∨ ∃ id, regionOf cfg c w1 = .blk id ∧ m.nextId ≤ id)
    {res : Except Stop β} {m' : Mem α} (h : StrongPost cfg Ok c m1 w1 xs xs' okv res m') : StrongPost cfg Ok c m w xs xs' okv res m' :=
  ⟨h.1, hfr.trans hreg h.2⟩

/-- the frame of one element-level update of the buffer of the container -/
theorem FrameG.ofSet {cfg : Cfg} {Ok : VB → Prop} {c : Nat} {m m' : Mem α} {xs : List α} {w : VB} {b : List (Slot α)}
    (h : VRepW cfg Ok c m xs w) (hc : 0 < cfg.ops.capacity w)
    (hb : m'.buf = View.set m.buf (regionOf cfg c w) b) (hk : Keep m m') : FrameG c (regionOf cfg c w) m m' :=
  (FrameG.refl c _ m).elem (Or.inl rfl) (h.isSome hc) hb hk

/-! ### Part 1: `assign(first, last)` -/

/-- `assign_n` for a non trivially-copyable type: copy-assign over the `xs.length` existing objects, then build the rest in
    the raw slots behind them (all or nothing) -/
theorem assignN_post (m : Mem α) (hcat : m.cat ≠ .tc) (r : Region) (xs vals : List α) (post : List (Slot α))
    (hlt : xs.length < vals.length)
    (h : m.buf r = some (lives xs ++ raws (vals.length - xs.length) ++ post)) :
    Post (assignN vals ⟨r, 0⟩ xs.length) m (fun res m' =>
      ((res = .ok () ∧ m'.buf = View.set m.buf r (lives vals ++ post)) ∨
       (res = .error (.exc .elem) ∧ ∃ ys : List α, ys.length = xs.length ∧
          m'.buf = View.set m.buf r (lives ys ++ raws (vals.length - xs.length) ++ post))) ∧ Keep m m') := by
  unfold assignN
  refine Post.bind (isTC_post m) ?_ (by okerr)
  rintro t m0 ⟨ht, rfl⟩; injection ht with ht; subst ht
  have hc : (m0.cat == Cat.tc) = false := by simpa using hcat
  simp only [hc, Bool.false_eq_true, ↓reduceIte, hlt]
  have htl : (vals.take xs.length).length = xs.length := by simp; omega
  have hdl : (vals.drop xs.length).length = vals.length - xs.length := by simp
  have hcp := copyN_post r (vals.take xs.length) m0 [] (lives xs) (raws (vals.length - xs.length) ++ post)
    (by simp; omega) (fun s hs => by
      simp only [lives, List.mem_map] at hs; obtain ⟨y, _, rfl⟩ := hs; simp) (by simpa using h)
  simp only [List.length_nil] at hcp
  refine Post.bind hcp ?_ ?_
  · rintro _ m1 ⟨hq, hk1⟩
    rcases hq with ⟨_, hb1⟩ | ⟨he, _⟩
    · have h1 : m1.buf r = some (lives (vals.take xs.length) ++ raws (vals.drop xs.length).length ++ post) := by
        rw [hb1, hdl]; simp
      have hu := uninitCopyN_post m1 r (lives (vals.take xs.length)) post (vals.drop xs.length) h1
      simp only [lives_length, htl] at hu
      rw [show (Addr.mk r 0).add xs.length = ⟨r, xs.length⟩ by simp [Addr.add]]
      refine Post.mono hu ?_
      rintro res m2 ⟨hq2, hk2⟩
      refine ⟨?_, hk1.trans hk2⟩
      rcases hq2 with ⟨hr2, hb2⟩ | ⟨hr2, hb2⟩
      · refine Or.inl ⟨hr2, ?_⟩
        rw [hb2, hb1, View.set_set, ← lives_append, List.take_append_drop]
      · refine Or.inr ⟨hr2, vals.take xs.length, htl, ?_⟩
        rw [hb2, hb1, View.set_set, hdl]
    · cases he
  · rintro e m1 ⟨hq, hk1⟩
    rcases hq with ⟨he, _⟩ | ⟨he, j, hj, hb1⟩
    · cases he
    · refine ⟨Or.inr ⟨he, (vals.take xs.length).take j ++ xs.drop j, ?_, ?_⟩, hk1⟩
      · simp only [List.length_append, List.length_take, List.length_drop] at hj ⊢; omega
      · rw [hb1]; simp [lives]

theorem lives_ne_raw (ys : List α) : ∀ s ∈ lives ys, s ≠ Slot.raw := by
  intro s hs
  simp only [lives, List.mem_map] at hs
  obtain ⟨y, _, rfl⟩ := hs
  simp

/-- the tail of an assignment that does not need more room: after the first `count` elements were overwritten (`act`,
    which may stop half-way), the surplus is destroyed and the size committed -/
theorem assign_shrink_core {cfg : Cfg} {Ok : VB → Prop} (L : VecLaws α cfg Ok) (m : Mem α) (c : Nat) (xs : List α) (w : VB)
    (vals : List α) (act : M α Unit) (h : VRepW cfg Ok c m xs w) (hc : vals.length ≤ xs.length)
    (hnil : vals = [] → Post act m (fun res m' => res = .ok () ∧ m' = m))
    (hact : ∀ post, m.buf (regionOf cfg c w) = some ([] ++ lives (xs.take vals.length) ++ post) →
      Post act m (AssignedOrPartial m (regionOf cfg c w) [] (lives (xs.take vals.length)) post vals)) :
    Post (do act; destroyN ⟨regionOf cfg c w, vals.length⟩ (xs.length - vals.length); setSize cfg c vals.length) m
      (BasicPost cfg Ok c m w vals ()) := by
  have hle := h.le
  by_cases hv : vals = []
  · refine Post.bind (hnil hv) ?_ (by okerr)
    rintro _ m1 ⟨_, rfl⟩
    subst hv
    refine Post.mono (truncate_core L m1 c xs w 0 h (Nat.zero_le _)) ?_
    intro res m' hq
    have := hq.basic
    simpa using this
  · have hvl : 0 < vals.length := List.length_pos_iff.mpr hv
    have hbuf : m.buf (regionOf cfg c w) = some ([] ++ lives (xs.take vals.length)
        ++ (lives (xs.drop vals.length) ++ raws (cfg.ops.capacity w - xs.length))) := by
      rcases h.buf with hz | hb
      · omega
      · rw [hb]; simp only [List.nil_append, ← List.append_assoc, ← lives_append, List.take_append_drop]
    refine Post.bind (hact _ hbuf) ?_ ?_
    · rintro _ m1 ⟨hq, hk1⟩
      rcases hq with ⟨_, hb1⟩ | ⟨he, _⟩
      · have hl1 : (vals ++ xs.drop vals.length).length = xs.length := by simp; omega
        have h1 : VRepW cfg Ok c m1 (vals ++ xs.drop vals.length) w := by
          refine h.ofSet hl1 ?_ hk1
          rw [hb1, hl1]; simp [lives_append]
        have ht := truncate_core L m1 c (vals ++ xs.drop vals.length) w vals.length h1 (by omega)
        rw [hl1] at ht
        refine Post.mono ht ?_
        intro res m' hq
        have hq' := (hq.basic).lift (w := w) (FrameG.ofSet h (by omega) hb1 hk1) (Or.inl rfl)
        simpa using hq'
      · cases he
    · rintro e m1 ⟨hq, hk1⟩
      rcases hq with ⟨he, _⟩ | ⟨he, j, hj, hb1⟩
      · cases he
      · have hl1 : (vals.take j ++ (xs.take vals.length).drop j ++ xs.drop vals.length).length = xs.length := by
          simp only [List.length_append, List.length_take, List.length_drop]; omega
        have h1 : VRepW cfg Ok c m1 (vals.take j ++ (xs.take vals.length).drop j ++ xs.drop vals.length) w := by
          refine h.ofSet hl1 ?_ hk1
          rw [hb1, hl1]; simp [lives]
        exact ⟨Or.inr ⟨_, _, he, w, h1⟩, FrameG.ofSet h (by omega) hb1 hk1⟩

/-- the tail of an assignment into a container that has room for the `n` new elements (`xs.length < n`): `act` overwrites
    the existing elements and builds the others behind them, or throws leaving `xs.length` live elements -/
theorem assign_grow_core {cfg : Cfg} {Ok : VB → Prop} (L : VecLaws α cfg Ok) (m : Mem α) (c : Nat) (xs : List α) (w : VB)
    (vals : List α) (act : M α Unit) (h : VRepW cfg Ok c m xs w) (hlt : xs.length < vals.length)
    (hcap : vals.length ≤ cfg.ops.capacity w)
    (hact : ∀ post, m.buf (regionOf cfg c w) = some (lives xs ++ raws (vals.length - xs.length) ++ post) →
      Post act m (fun res m' =>
        ((res = .ok () ∧ m'.buf = View.set m.buf (regionOf cfg c w) (lives vals ++ post)) ∨
         (res = .error (.exc .elem) ∧ ∃ ys : List α, ys.length = xs.length ∧
            m'.buf = View.set m.buf (regionOf cfg c w) (lives ys ++ raws (vals.length - xs.length) ++ post))) ∧ Keep m m')) :
    Post (do act; setSize cfg c vals.length) m (BasicPost cfg Ok c m w vals ()) := by
  have hbuf : m.buf (regionOf cfg c w) = some (lives xs ++ raws (vals.length - xs.length)
      ++ raws (cfg.ops.capacity w - vals.length)) := by
    rcases h.buf with hz | hb
    · omega
    · rw [hb, List.append_assoc, raws_append]; congr 3; omega
  refine Post.bind (hact _ hbuf) ?_ ?_
  · rintro _ m1 ⟨hq, hk1⟩
    rcases hq with ⟨_, hb1⟩ | ⟨he, _⟩
    · have hst1 := h.store.set hb1 (by simp; omega) hk1
      refine Post.mono (setSize_commit L (xs' := vals) vals.length rfl hst1 hcap (FrameG.ofSet h (by omega) hb1 hk1)) ?_
      rintro res m' ⟨hq, hfr'⟩
      exact ⟨Or.inl hq, hfr'⟩
    · cases he
  · rintro e m1 ⟨hq, hk1⟩
    rcases hq with ⟨he, _⟩ | ⟨he, ys, hys, hb1⟩
    · cases he
    · rw [List.append_assoc, raws_append] at hb1
      have h1 : VRepW cfg Ok c m1 ys w := by
        refine h.ofSet hys ?_ hk1
        rw [hb1, hys]; congr 3; omega
      exact ⟨Or.inr ⟨_, _, he, w, h1⟩, FrameG.ofSet h (by omega) hb1 hk1⟩

/-- `assign(first, last)` (forward iterators) for a non trivially-copyable element type: basic guarantee -/
theorem assignRange_post {cfg : Cfg} {Ok : VB → Prop} (L : VecLaws α cfg Ok) (m : Mem α) (c : Nat) (xs : List α) (w : VB)
    (vals : List α) (h : VRepW cfg Ok c m xs w) (hf : Fresh m) (hcat : m.cat ≠ .tc) :
    Post (assignRange cfg c vals) m (BasicPost cfg Ok c m w vals ()) := by
  unfold assignRange
  refine Post.bind (vsize_post cfg m c w h.ws) ?_ (by okerr)
  rintro sz m0 ⟨hsz, rfl⟩; injection hsz with hsz; subst hsz
  rw [h.size]
  by_cases hlt : xs.length < vals.length
  · simp only [hlt, ↓reduceIte]
    refine Post.bind (adjustCapacity_post L m0 c xs w _ h hf) ?_ ?_
    · rintro _ m1 ⟨hq, hfr⟩
      rcases hq with ⟨_, w', ⟨hw', hcap, hreg⟩⟩ | ⟨e, he, _⟩
      · refine Post.bind (vbegin_post cfg m1 c w' hw'.ws) ?_ (by okerr)
        rintro a m2 ⟨ha, rfl⟩; injection ha with ha; subst ha
        have hcat2 : m2.cat ≠ .tc := by rw [hfr.cat]; exact hcat
        refine Post.mono (assign_grow_core L m2 c xs w' vals _ hw' hlt hcap
          (fun post hb => assignN_post m2 hcat2 _ xs vals post hlt hb)) ?_
        intro res m' hq
        exact hq.lift hfr hreg
      · cases he
    · rintro e m1 ⟨hq, hfr⟩
      rcases hq with ⟨he, _⟩ | ⟨e', he, hw', _⟩
      · cases he
      · injection he with he; subst he
        exact ⟨Or.inr ⟨e', xs, rfl, w, hw'⟩, hfr⟩
  · simp only [hlt, ↓reduceIte]
    refine Post.bind (vbegin_post cfg m0 c w h.ws) ?_ (by okerr)
    rintro a m1 ⟨ha, rfl⟩; injection ha with ha; subst ha
    have := assign_shrink_core L m1 c xs w vals (copyN ⟨regionOf cfg c w, 0⟩ vals) h (by omega)
      (by rintro rfl; exact ⟨rfl, rfl⟩)
      (fun post hb => copyN_post (regionOf cfg c w) vals m1 [] (lives (xs.take vals.length)) post (by simp; omega)
        (lives_ne_raw _) hb)
    simpa [Addr.add] using this

/-! ### Part 2: filling the gap opened by `shift_right(first, n, count)` -/

/-- outcome of filling a window of region `r` (behind `pre`) with `vals`: done, or an element copy threw (only the buffer
    of `r` may have changed) -/
def FillPost (m : Mem α) (r : Region) (pre : List (Slot α)) (vals : List α) (post : List (Slot α)) :
    Except Stop Unit → Mem α → Prop :=
  fun res m' => ((res = .ok () ∧ m'.buf = View.set m.buf r (pre ++ lives vals ++ post)) ∨
                 (res = .error (.exc .elem) ∧ ∃ b', m'.buf = View.set m.buf r b')) ∧ Keep m m'

theorem FillPost.chain {m m1 : Mem α} {r : Region} {b1 pre post : List (Slot α)} {vals : List α}
    (hb1 : m1.buf = View.set m.buf r b1) (hk : Keep m m1) {res : Except Stop Unit} {m2 : Mem α}
    (h : FillPost m1 r pre vals post res m2) : FillPost m r pre vals post res m2 := by
  rcases h with ⟨h | ⟨he, b', hb⟩, hk2⟩
  · exact ⟨Or.inl ⟨h.1, by rw [h.2, hb1]; simp⟩, hk.trans hk2⟩
  · exact ⟨Or.inr ⟨he, b', by rw [hb, hb1]; simp⟩, hk.trans hk2⟩

theorem FillPost.ofBuilt {m : Mem α} {r : Region} {pre post rolled : List (Slot α)} {vals : List α}
    {res : Except Stop Unit} {m' : Mem α} (h : BuiltOrRolledBack m r (pre ++ lives vals ++ post) rolled res m') :
    FillPost m r pre vals post res m' := by
  rcases h with ⟨h | h, hk⟩
  · exact ⟨Or.inl h, hk⟩
  · exact ⟨Or.inr ⟨h.1, _, h.2⟩, hk⟩

theorem FillPost.ofAssigned {m : Mem α} {r : Region} {pre mid post : List (Slot α)} {vals : List α}
    {res : Except Stop Unit} {m' : Mem α} (h : AssignedOrPartial m r pre mid post vals res m') :
    FillPost m r pre vals post res m' := by
  rcases h with ⟨h | ⟨he, j, _, hb⟩, hk⟩
  · exact ⟨Or.inl h, hk⟩
  · exact ⟨Or.inr ⟨he, _, hb⟩, hk⟩

theorem replicate_hollow_ne_raw (k : Nat) : ∀ s ∈ List.replicate k (Slot.hollow : Slot α), s ≠ Slot.raw := by
  intro s hs
  rw [List.mem_replicate] at hs
  rw [hs.2]; simp

/-- `copy_after_shift(first, n, count, pos)` on the gap left by `shift_right(pos, n, count)` -/
theorem copyAfterShift_post (m : Mem α) (r : Region) (pre post : List (Slot α)) (vals : List α) (n : Nat)
    (h : m.buf r = some (pre ++ List.replicate (min vals.length n) (gapSlot m.cat) ++ raws (vals.length - n) ++ post)) :
    Post (copyAfterShift vals n ⟨r, pre.length⟩) m (FillPost m r pre vals post) := by
  unfold copyAfterShift
  refine Post.bind (isTR_post m) ?_ (by okerr)
  rintro t m0 ⟨ht, rfl⟩; injection ht with ht; subst ht
  by_cases hc : m0.cat = .ntr
  · rw [gapSlot_ntr hc] at h
    simp only [hc, bne_self_eq_false, Bool.false_eq_true, ↓reduceIte]
    by_cases hn : n < vals.length
    · simp only [hn, ↓reduceIte]
      rw [Nat.min_eq_right (Nat.le_of_lt hn)] at h
      have htl : (vals.take n).length = n := by simp; omega
      have hcp := copyN_post r (vals.take n) m0 pre (List.replicate n .hollow) (raws (vals.length - n) ++ post)
        (by simp; omega) (replicate_hollow_ne_raw n) (by rw [h]; simp)
      refine Post.bind hcp ?_ ?_
      · rintro _ m1 ⟨hq, hk1⟩
        rcases hq with ⟨_, hb1⟩ | ⟨he, _⟩
        · have h1 : m1.buf r = some ((pre ++ lives (vals.take n)) ++ raws (vals.drop n).length ++ post) := by
            rw [hb1]; simp
          have hu := uninitCopyN_post m1 r (pre ++ lives (vals.take n)) post (vals.drop n) h1
          simp only [List.length_append, lives_length, htl] at hu
          rw [show (Addr.mk r pre.length).add n = ⟨r, pre.length + n⟩ by simp [Addr.add]]
          refine Post.mono hu ?_
          intro res m2 hq2
          have e : pre ++ lives (vals.take n) ++ lives (vals.drop n) ++ post = pre ++ lives vals ++ post := by
            rw [List.append_assoc pre, ← lives_append, List.take_append_drop]
          rw [e] at hq2
          exact (FillPost.ofBuilt hq2).chain hb1 hk1
        · cases he
      · rintro e m1 ⟨hq, hk1⟩
        rcases hq with ⟨he, _⟩ | ⟨he, j, _, hb1⟩
        · cases he
        · exact ⟨Or.inr ⟨he, _, hb1⟩, hk1⟩
    · simp only [hn, ↓reduceIte]
      have hz : vals.length - n = 0 := by omega
      rw [Nat.min_eq_left (by omega), hz] at h
      have hcp := copyN_post r vals m0 pre (List.replicate vals.length .hollow) post
        (by simp) (replicate_hollow_ne_raw _) (by rw [h]; simp [raws])
      exact Post.mono hcp (fun _ _ hq => FillPost.ofAssigned hq)
  · rw [gapSlot_tr hc] at h
    simp only [RelocB.cat_bne_ntr hc, ↓reduceIte]
    have h1 : m0.buf r = some (pre ++ raws vals.length ++ post) := by
      rw [h]
      have : (List.replicate (min vals.length n) (Slot.raw : Slot α)) = raws (min vals.length n) := rfl
      rw [this, List.append_assoc pre, raws_append]
      congr 4; omega
    exact Post.mono (uninitCopyN_post m0 r pre post vals h1) (fun _ _ hq => FillPost.ofBuilt hq)

/-- `fill_after_shift(first, n, count, v)` with an outside value, on the gap left by `shift_right(first, n, count)` -/
theorem fillAfterShift_post (m : Mem α) (r : Region) (pre post : List (Slot α)) (v : α) (n count : Nat)
    (h : m.buf r = some (pre ++ List.replicate (min count n) (gapSlot m.cat) ++ raws (count - n) ++ post)) :
    Post (fillAfterShift ⟨r, pre.length⟩ n count (.lit v)) m (FillPost m r pre (List.replicate count v) post) := by
  unfold fillAfterShift
  refine Post.bind (isTR_post m) ?_ (by okerr)
  rintro t m0 ⟨ht, rfl⟩; injection ht with ht; subst ht
  by_cases hc : m0.cat = .ntr
  · rw [gapSlot_ntr hc] at h
    simp only [hc, bne_self_eq_false, Bool.false_eq_true, ↓reduceIte]
    by_cases hn : n < count
    · simp only [hn, ↓reduceIte]
      rw [Nat.min_eq_right (Nat.le_of_lt hn)] at h
      have hu := uninitFillRef_post m0 r (pre ++ List.replicate n .hollow) post (.lit v) v (count - n) h rfl
      simp only [List.length_append, List.length_replicate] at hu
      rw [show (Addr.mk r pre.length).add n = ⟨r, pre.length + n⟩ by simp [Addr.add]]
      refine Post.bind hu ?_ ?_
      · rintro _ m1 ⟨hq, hk1⟩
        rcases hq with ⟨_, hb1⟩ | ⟨he, _⟩
        · have h1 : m1.buf r = some (pre ++ List.replicate n .hollow ++ (lives (List.replicate (count - n) v) ++ post)) := by
            rw [hb1]; simp
          have hf := fillRef_post r (.lit v) v n m1 pre (List.replicate n .hollow) (lives (List.replicate (count - n) v) ++ post)
            (by simp) (replicate_hollow_ne_raw n) h1 rfl
          refine Post.mono hf ?_
          intro res m2 hq2
          have e : pre ++ lives (List.replicate n v) ++ (lives (List.replicate (count - n) v) ++ post)
              = pre ++ lives (List.replicate count v) ++ post := by
            rw [List.append_assoc pre, ← List.append_assoc (lives _), ← lives_append, List.replicate_append_replicate,
              show n + (count - n) = count by omega, ← List.append_assoc]
          have hq3 := FillPost.ofAssigned hq2
          unfold FillPost at hq3 ⊢
          rw [e] at hq3
          exact FillPost.chain hb1 hk1 hq3
        · cases he
      · rintro e m1 ⟨hq, hk1⟩
        rcases hq with ⟨he, _⟩ | ⟨he, hb1⟩
        · cases he
        · exact ⟨Or.inr ⟨he, _, hb1⟩, hk1⟩
    · simp only [hn, ↓reduceIte]
      have hz : count - n = 0 := by omega
      rw [Nat.min_eq_left (by omega), hz] at h
      have hf := fillRef_post r (.lit v) v count m0 pre (List.replicate count .hollow) post
        (by simp) (replicate_hollow_ne_raw _) (by rw [h]; simp [raws]) rfl
      exact Post.mono hf (fun _ _ hq => FillPost.ofAssigned hq)
  · rw [gapSlot_tr hc] at h
    simp only [RelocB.cat_bne_ntr hc, ↓reduceIte]
    have h1 : m0.buf r = some (pre ++ raws count ++ post) := by
      rw [h]
      have : (List.replicate (min count n) (Slot.raw : Slot α)) = raws (min count n) := rfl
      rw [this, List.append_assoc pre, raws_append]
      congr 4; omega
    exact Post.mono (uninitFillRef_post m0 r pre post (.lit v) v count h1 rfl) (fun _ _ hq => FillPost.ofBuilt hq)

/-! ### Part 3: `insert(pos, first, last)` and `insert(pos, count, v)` -/

/-- outcome of an insertion of `vals` at index `p` into a container holding `xs`: success with exactly the new contents; or
    an exception (never a lifetime fault), and if the insertion was at the end the container still holds `xs` (strong
    guarantee; in the middle the library gives no guarantee: known defect V9) -/
def InsPost (cfg : Cfg) (Ok : VB → Prop) (c : Nat) (m : Mem α) (w : VB) (xs : List α) (p : Nat) (vals : List α) :
    Except Stop Nat → Mem α → Prop :=
  fun res m' => ((res = .ok p ∧ VRep cfg Ok c m' (xs.take p ++ vals ++ xs.drop p)) ∨
                 (∃ e, res = .error (.exc e) ∧ (p = xs.length → VRep cfg Ok c m' xs)))
    ∧ FrameG c (regionOf cfg c w) m m'

theorem InsPost.lift {cfg : Cfg} {Ok : VB → Prop} {c : Nat} {m m1 : Mem α} {w w1 : VB} {xs vals : List α} {p : Nat}
    (hfr : FrameG c (regionOf cfg c w) m m1)
    (hreg : regionOf cfg c w1 = regionOf cfg c w ∨ ∃ id, regionOf cfg c w1 = .blk id ∧ m.nextId ≤ id)
    {res : Except Stop Nat} {m' : Mem α} (h : InsPost cfg Ok c m1 w1 xs p vals res m') : InsPost cfg Ok c m w xs p vals res m' :=
  ⟨h.1, hfr.trans hreg h.2⟩

/-- insertion at the end, once there is room: an all-or-nothing construction of `vals` at `end()`, then the size is
    committed -/
theorem insert_end_core {cfg : Cfg} {Ok : VB → Prop} (L : VecLaws α cfg Ok) (m : Mem α) (c : Nat) (xs : List α) (w : VB)
    (vals : List α) (build : M α Unit) (s p : Nat) (h : VRepW cfg Ok c m xs w) (hp : p = xs.length) (hv : vals ≠ [])
    (hcap : xs.length + vals.length ≤ cfg.ops.capacity w) (hs : s = xs.length + vals.length)
    (hbuild : ∀ post, m.buf (regionOf cfg c w) = some (lives xs ++ raws vals.length ++ post) →
      Post build m (BuiltOrRolledBack m (regionOf cfg c w) (lives xs ++ lives vals ++ post) (lives xs ++ raws vals.length ++ post))) :
    Post (do build; setSize cfg c s; pure p) m (InsPost cfg Ok c m w xs p vals) := by
  have hlen : s = (xs ++ vals).length := by rw [hs]; simp
  have hvl : 0 < vals.length := List.length_pos_iff.mpr hv
  have hxs : xs.take p ++ vals ++ xs.drop p = xs ++ vals := by subst hp; simp
  have hbuf : m.buf (regionOf cfg c w) = some (lives xs ++ raws vals.length
      ++ raws (cfg.ops.capacity w - (xs.length + vals.length))) := by
    rcases h.buf with h0 | hb
    · omega
    · rw [hb, List.append_assoc, raws_append]
      congr 3; omega
  refine Post.bind (hbuild _ hbuf) ?_ ?_
  · rintro _ m3 ⟨hq, hk3⟩
    rcases hq with ⟨_, hb3⟩ | ⟨he, _⟩
    · have hb3' : m3.buf = View.set m.buf (regionOf cfg c w)
          (lives (xs ++ vals) ++ raws (cfg.ops.capacity w - (xs ++ vals).length)) := by
        rw [hb3]; simp [lives]
      have hst3 := h.store.set hb3' (by simp; omega) hk3
      refine Post.bind (setSize_commit L s hlen hst3 (by simpa using hcap) (FrameG.ofSet h (by omega) hb3' hk3)) ?_ ?_
      · rintro _ m4 ⟨⟨_, hrep⟩, hfr⟩
        exact ⟨Or.inl ⟨rfl, by rw [hxs]; exact hrep⟩, hfr⟩
      · rintro e m4 ⟨⟨he, _⟩, _⟩; cases he
    · cases he
  · rintro e m3 ⟨hq, hk3⟩
    rcases hq with ⟨he, _⟩ | ⟨he, hb3⟩
    · cases he
    · have hb3' : m3.buf = View.set m.buf (regionOf cfg c w) (lives xs ++ raws (cfg.ops.capacity w - xs.length)) := by
        rw [hb3, List.append_assoc, raws_append]
        congr 3; omega
      injection he with he; subst he
      exact ⟨Or.inr ⟨_, rfl, fun _ => ⟨w, h.ofSet rfl hb3' hk3⟩⟩, FrameG.ofSet h (by omega) hb3' hk3⟩

/-- insertion in the middle, once there is room: shift the tail right by `|vals|`, fill the gap, commit the size -/
theorem insert_mid_core {cfg : Cfg} {Ok : VB → Prop} (L : VecLaws α cfg Ok) (m : Mem α) (c : Nat) (xs : List α) (w : VB)
    (vals : List α) (fill : M α Unit) (s p : Nat) (h : VRepW cfg Ok c m xs w) (hp : p < xs.length) (hv : vals ≠ [])
    (hcap : xs.length + vals.length ≤ cfg.ops.capacity w) (hs : s = xs.length + vals.length)
    (hfill : ∀ (m2 : Mem α) post, m2.cat = m.cat →
      m2.buf (regionOf cfg c w) = some (lives (xs.take p) ++ List.replicate (min vals.length (xs.length - p)) (gapSlot m2.cat)
        ++ raws (vals.length - (xs.length - p)) ++ post) →
      Post fill m2 (FillPost m2 (regionOf cfg c w) (lives (xs.take p)) vals post)) :
    Post (do shiftRightN ⟨regionOf cfg c w, p⟩ (xs.length - p) vals.length; fill; setSize cfg c s; pure p) m
      (InsPost cfg Ok c m w xs p vals) := by
  have hvl : 0 < vals.length := List.length_pos_iff.mpr hv
  have htl : (xs.take p).length = p := by simp; omega
  have hdl : (xs.drop p).length = xs.length - p := by simp
  have hdn : xs.drop p ≠ [] := by
    intro h0; have := congrArg List.length h0; simp at this; omega
  have hlen : s = (xs.take p ++ vals ++ xs.drop p).length := by
    rw [hs]; simp only [List.length_append, htl, hdl]; omega
  have hbuf : m.buf (regionOf cfg c w) = some (lives (xs.take p) ++ lives (xs.drop p) ++ raws vals.length
      ++ raws (cfg.ops.capacity w - (xs.length + vals.length))) := by
    rcases h.buf with h0 | hb
    · omega
    · rw [hb, ← lives_append, List.take_append_drop, List.append_assoc, raws_append]
      congr 3; omega
  have hsh := shiftRightN_post m (regionOf cfg c w) (lives (xs.take p)) _ (xs.drop p) vals.length hdn hvl hbuf
  simp only [lives_length, htl, hdl] at hsh
  refine Post.bind hsh ?_ (by rintro e m1 ⟨he, _⟩; cases he)
  rintro _ m1 ⟨_, hb1, hk1⟩
  have h1 : m1.buf (regionOf cfg c w) = some (lives (xs.take p) ++ List.replicate (min vals.length (xs.length - p)) (gapSlot m1.cat)
        ++ raws (vals.length - (xs.length - p)) ++ (lives (xs.drop p) ++ raws (cfg.ops.capacity w - (xs.length + vals.length)))) := by
    rw [hb1, hk1.cat]; simp
  have hfr1 := FrameG.ofSet h (by omega) hb1 hk1
  refine Post.bind (hfill m1 _ hk1.cat h1) ?_ ?_
  · rintro _ m2 ⟨hq, hk2⟩
    rcases hq with ⟨_, hb2⟩ | ⟨he, _⟩
    · have hb2' : m2.buf = View.set m.buf (regionOf cfg c w) (lives (xs.take p ++ vals ++ xs.drop p)
          ++ raws (cfg.ops.capacity w - (xs.take p ++ vals ++ xs.drop p).length)) := by
        rw [hb2, hb1, View.set_set, ← hlen, hs]; simp [lives_append]
      have hst2 := h.store.set hb2' (by simp only [List.length_append, lives_length, raws_length, ← hlen]; omega) (hk1.trans hk2)
      refine Post.bind (setSize_commit L s hlen hst2 (by rw [← hlen]; omega)
        (FrameG.ofSet h (by omega) hb2' (hk1.trans hk2))) ?_ ?_
      · rintro _ m4 ⟨⟨_, hrep⟩, hfr⟩
        exact ⟨Or.inl ⟨rfl, hrep⟩, hfr⟩
      · rintro e m4 ⟨⟨he, _⟩, _⟩; cases he
    · cases he
  · rintro e m2 ⟨hq, hk2⟩
    rcases hq with ⟨he, _⟩ | ⟨he, b', hb2⟩
    · cases he
    · injection he with he; subst he
      refine ⟨Or.inr ⟨_, rfl, fun hpe => by omega⟩, ?_⟩
      exact FrameG.ofSet h (by omega) (b := b') (by rw [hb2, hb1, View.set_set]) (hk1.trans hk2)

/-- `insert(pos, first, last)` (forward iterators) at any position -/
theorem insertRange_ins {cfg : Cfg} {Ok : VB → Prop} (L : VecLaws α cfg Ok) (m : Mem α) (c : Nat) (xs : List α) (w : VB)
    (p : Nat) (vals : List α) (h : VRepW cfg Ok c m xs w) (hf : Fresh m) (hp : p ≤ xs.length) :
    Post (insertRange cfg c p vals) m (InsPost cfg Ok c m w xs p vals) := by
  unfold insertRange
  by_cases hv : vals = []
  · subst hv
    simp only [List.length_nil, gt_iff_lt, Nat.lt_irrefl, ↓reduceIte]
    refine Post.pure ⟨Or.inl ⟨rfl, w, ?_⟩, FrameG.refl _ _ _⟩
    simpa using h
  · have hvl : 0 < vals.length := List.length_pos_iff.mpr hv
    simp only [gt_iff_lt, hvl, ↓reduceIte]
    refine Post.bind (vsize_post cfg m c w h.ws) ?_ (by okerr)
    rintro sz m0 ⟨hsz, rfl⟩; injection hsz with hsz; subst hsz
    rw [h.size]
    refine Post.bind (adjustCapacity_post L m0 c xs w _ h hf) ?_ ?_
    · rintro _ m1 ⟨hq, hfr⟩
      rcases hq with ⟨_, w', ⟨hw', hcap, hreg⟩⟩ | ⟨e, he, _⟩
      · refine Post.bind (posAddr_post cfg m1 c w' p hw'.ws) ?_ (by okerr)
        rintro a m2 ⟨ha, rfl⟩; injection ha with ha; subst ha
        by_cases he : xs.length - p = 0
        · simp only [he, ↓reduceIte]
          have hpe : p = xs.length := by omega
          refine Post.mono (insert_end_core L m2 c xs w' vals _ _ p hw' hpe hv hcap rfl (fun post hb => ?_))
            (fun _ _ hq => hq.lift hfr hreg)
          have := uninitCopyN_post m2 _ (lives xs) post vals hb
          simpa [hpe] using this
        · simp only [he, ↓reduceIte]
          refine Post.mono (insert_mid_core L m2 c xs w' vals _ _ p hw' (by omega) hv hcap rfl (fun m3 post _ hb => ?_))
            (fun _ _ hq => hq.lift hfr hreg)
          have := copyAfterShift_post m3 _ (lives (xs.take p)) post vals (xs.length - p) hb
          simpa [Nat.min_eq_left hp] using this
      · cases he
    · rintro e m1 ⟨hq, hfr⟩
      rcases hq with ⟨he, _⟩ | ⟨e', he, hw', _⟩
      · cases he
      · injection he with he; subst he
        exact ⟨Or.inr ⟨e', rfl, fun _ => ⟨w, hw'⟩⟩, hfr⟩

theorem InsPost.strong {cfg : Cfg} {Ok : VB → Prop} {c : Nat} {m : Mem α} {w : VB} {xs vals : List α} {p : Nat}
    (hend : p = xs.length) {res : Except Stop Nat} {m' : Mem α} (h : InsPost cfg Ok c m w xs p vals res m') :
    StrongPost cfg Ok c m w xs (xs ++ vals) p res m' := by
  rcases h with ⟨⟨hr, hv⟩ | ⟨e, he, hv⟩, hfr⟩
  · refine ⟨Or.inl ⟨hr, ?_⟩, hfr⟩
    subst hend; simpa using hv
  · exact ⟨Or.inr ⟨e, he, hv hend⟩, hfr⟩

/-- the success / no-fault reading of `InsPost` -/
theorem InsPost.spec {cfg : Cfg} {Ok : VB → Prop} {c : Nat} {m : Mem α} {w : VB} {xs vals : List α} {p : Nat}
    {res : Except Stop Nat} {m' : Mem α} (h : InsPost cfg Ok c m w xs p vals res m') :
    (∀ r, res = .ok r → r = p ∧ VRep cfg Ok c m' (xs.take p ++ vals ++ xs.drop p)) ∧ (∀ f, res ≠ .error (.fault f))
      ∧ FrameG c (regionOf cfg c w) m m' := by
  rcases h with ⟨⟨hr, hv⟩ | ⟨e, he, _⟩, hfr⟩
  · subst hr
    exact ⟨fun r hr => (by injection hr with hr; exact ⟨hr.symm, hv⟩), fun f hf => (by cases hf), hfr⟩
  · subst he
    exact ⟨fun r hr => (by cases hr), fun f hf => (by cases hf), hfr⟩

/-- `insert(end(), first, last)`: strong guarantee -/
theorem insertRange_post {cfg : Cfg} {Ok : VB → Prop} (L : VecLaws α cfg Ok) (m : Mem α) (c : Nat) (xs : List α) (w : VB)
    (p : Nat) (hp : p ≤ xs.length) (vals : List α) (hend : p = xs.length) (h : VRepW cfg Ok c m xs w) (hf : Fresh m) :
    Post (insertRange cfg c p vals) m (StrongPost cfg Ok c m w xs (xs ++ vals) p) :=
  Post.mono (insertRange_ins L m c xs w p vals h hf hp) (fun _ _ hq => hq.strong hend)

/-- `insert(pos, first, last)` at any position: if it returns normally the container holds exactly
    `xs.take p ++ vals ++ xs.drop p`; the outcome is never a lifetime fault; nothing outside the container is touched -/
theorem insertRange_ok {cfg : Cfg} {Ok : VB → Prop} (L : VecLaws α cfg Ok) (m : Mem α) (c : Nat) (xs : List α) (w : VB)
    (p : Nat) (hp : p ≤ xs.length) (vals : List α) (h : VRepW cfg Ok c m xs w) (hf : Fresh m) :
    Post (insertRange cfg c p vals) m (fun res m' =>
      (∀ r, res = .ok r → r = p ∧ VRep cfg Ok c m' (xs.take p ++ vals ++ xs.drop p)) ∧ (∀ f, res ≠ .error (.fault f))
        ∧ FrameG c (regionOf cfg c w) m m') :=
  Post.mono (insertRange_ins L m c xs w p vals h hf hp) (fun _ _ hq => hq.spec)

/-- `adjustCapacity(needed, v)` for an outside value: as `adjustCapacity`, and the value is returned unchanged -/
theorem adjustCapacityRef_lit_post {cfg : Cfg} {Ok : VB → Prop} (L : VecLaws α cfg Ok) (m : Mem α) (c : Nat) (xs : List α) (w : VB)
    (needed : Nat) (x : α) (h : VRepW cfg Ok c m xs w) (hf : Fresh m) :
    Post (adjustCapacityRef cfg c needed (.lit x)) m (fun res m' =>
      ((res = .ok (.lit x) ∧ ∃ w', Grown cfg Ok c m m' xs w w' needed) ∨
       (∃ e, res = .error (.exc e) ∧ VRepW cfg Ok c m' xs w ∧ m'.buf = m.buf)) ∧ FrameG c (regionOf cfg c w) m m') := by
  by_cases hroom : needed ≤ cfg.ops.capacity w
  · refine Post.mono (adjustCapacityRef_room cfg Ok L.size m c w needed (.lit x) h.ws hroom) ?_
    rintro res m' ⟨hr, rfl⟩; subst hr
    exact ⟨Or.inl ⟨rfl, w, ⟨h, hroom, Or.inl rfl⟩⟩, FrameG.refl _ _ _⟩
  · unfold adjustCapacityRef
    by_cases hd : cfg.dynamic = true
    · rw [if_pos hd]
      refine Post.bind (vcap_post cfg m c w h.ws) ?_ (by okerr)
      rintro k m1 ⟨hk, rfl⟩; injection hk with hk; subst hk
      rw [if_pos (by omega)]
      refine Post.bind (vbegin_post cfg m1 c w h.ws) ?_ (by okerr)
      rintro b m2 ⟨hb, rfl⟩; injection hb with hb; subst hb
      refine Post.bind (vsize_post cfg m2 c w h.ws) ?_ (by okerr)
      rintro sz m3 ⟨hsz, rfl⟩; injection hsz with hsz; subst hsz
      refine Post.bind (L.grow hd m3 c xs w needed false h hf (by omega) (by simp)) ?_ ?_
      · rintro _ m4 ⟨hq, hfr⟩
        rcases hq with ⟨_, w', hg⟩ | ⟨e, he, _⟩
        · exact ⟨Or.inl ⟨rfl, w', hg⟩, hfr⟩
        · cases he
      · rintro e m4 ⟨hq, hfr⟩
        rcases hq with ⟨he, _⟩ | ⟨e', he, hw', hb'⟩
        · cases he
        · injection he with he; subst he
          exact ⟨Or.inr ⟨e', rfl, hw', hb'⟩, hfr⟩
    · rw [if_neg hd]
      refine Post.bind (adjustCapacity_post L m c xs w needed h hf) ?_ ?_
      · rintro _ m1 ⟨hq, hfr⟩
        rcases hq with ⟨_, w', hg⟩ | ⟨e, he, _⟩
        · exact ⟨Or.inl ⟨rfl, w', hg⟩, hfr⟩
        · cases he
      · rintro e m1 ⟨hq, hfr⟩
        rcases hq with ⟨he, _⟩ | ⟨e', he, hw', hb'⟩
        · cases he
        · injection he with he; subst he
          exact ⟨Or.inr ⟨e', rfl, hw', hb'⟩, hfr⟩

end AmcVerif
