import AmcVerif.Lemmas.FlatSetInv
/-! Invariant and set-semantics lemmas of the SmallSet model (`Model/Sets.lean`): the inline vector and the backing
set never hold elements at the same time, the inline vector never exceeds N and holds no two equivalent elements, the
backing set is sorted; `insert` / `erase` / `find` behave as on a std::set in either state and across the transition
(`grow`). -/
namespace AmcVerif.Sets
open AmcVerif.FS
variable {α : Type} {lt : α → α → Bool}

/-- some element of the list is equivalent to `k` -/
def HasEquiv (lt : α → α → Bool) (l : List α) (k : α) : Prop := ∃ x ∈ l, Equiv lt x k

/-- no two elements of the list are equivalent -/
def NoEquivDup (lt : α → α → Bool) (l : List α) : Prop := l.Pairwise (fun a b => ¬ Equiv lt a b)

structure SSet.Inv (lt : α → α → Bool) (N : Nat) (s : SSet α) : Prop where
  excl : s.set ≠ [] → s.vec = []
  bound : s.vec.length ≤ N
  nodup : NoEquivDup lt s.vec
  sorted : Sorted lt s.set

theorem equiv_symm {a b : α} (h : Equiv lt a b) : Equiv lt b a := ⟨h.2, h.1⟩

/-- the inline scan finds an index iff an equivalent element is present, and the index designates it -/
theorem findSmall_spec (lt : α → α → Bool) (vec : List α) (k : α) :
    ∀ i, (match (findSmall lt vec k i).1 with
          | some j => i ≤ j ∧ ∃ y, vec[j - i]? = some y ∧ Equiv lt y k
          | none => ¬ HasEquiv lt vec k) := by
  induction vec with
  | nil => intro i; simp [findSmall, HasEquiv]
  | cons o rest ih =>
    intro i
    simp only [findSmall]
    cases h1 : lt k o with
    | true =>
      simp only [↓reduceIte]
      have := ih (i + 1)
      cases hf : (findSmall lt rest k (i + 1)).1 with
      | none =>
        rw [hf] at this; simp only at this ⊢
        rintro ⟨x, hx, he⟩
        rcases List.mem_cons.mp hx with rfl | hx'
        · rw [he.2] at h1; cases h1
        · exact this ⟨x, hx', he⟩
      | some j =>
        rw [hf] at this; simp only at this ⊢
        obtain ⟨hj, y, hy, he⟩ := this
        refine ⟨by omega, y, ?_, he⟩
        have : j - i = (j - (i + 1)) + 1 := by omega
        rw [this]; simpa using hy
    | false =>
      simp only [Bool.false_eq_true, ↓reduceIte]
      cases h2 : lt o k with
      | true =>
        simp only [↓reduceIte]
        have := ih (i + 1)
        cases hf : (findSmall lt rest k (i + 1)).1 with
        | none =>
          rw [hf] at this; simp only at this ⊢
          rintro ⟨x, hx, he⟩
          rcases List.mem_cons.mp hx with rfl | hx'
          · rw [he.1] at h2; cases h2
          · exact this ⟨x, hx', he⟩
        | some j =>
          rw [hf] at this; simp only at this ⊢
          obtain ⟨hj, y, hy, he⟩ := this
          refine ⟨by omega, y, ?_, he⟩
          have : j - i = (j - (i + 1)) + 1 := by omega
          rw [this]; simpa using hy
      | false =>
        simp only [Bool.false_eq_true, ↓reduceIte]
        exact ⟨Nat.le_refl _, o, by simp, h2, h1⟩

/-- `insertAll` keeps every old element and adds exactly the new ones that have no equivalent yet -/
theorem insertAll_mem (hswo : SWO lt) (vs : List α) :
    ∀ (l : List α), Sorted lt l → ∀ x, x ∈ insertAll lt l vs → x ∈ l ∨ x ∈ vs := by
  induction vs with
  | nil => intro l _ x hx; left; simpa [insertAll] using hx
  | cons v rest ih =>
    intro l hs x hx
    simp only [insertAll, List.foldl_cons] at hx
    rcases ih _ (insertVal_sorted hswo l hs v) x hx with h | h
    · rcases (insertVal_mem l v x).mp h with h' | ⟨_, rfl⟩
      · exact Or.inl h'
      · exact Or.inr (List.mem_cons_self)
    · exact Or.inr (List.mem_cons_of_mem _ h)

theorem insertAll_keeps (vs : List α) : ∀ (l : List α) x, x ∈ l → x ∈ insertAll lt l vs := by
  induction vs with
  | nil => intro l x hx; simpa [insertAll] using hx
  | cons v rest ih =>
    intro l x hx
    simp only [insertAll, List.foldl_cons]
    exact ih _ x ((insertVal_mem l v x).mpr (Or.inl hx))

/-- every new element ends up represented: itself or an equivalent element is in the result -/
theorem insertAll_covers (hswo : SWO lt) (vs : List α) :
    ∀ (l : List α), Sorted lt l → ∀ v ∈ vs, HasEquiv lt (insertAll lt l vs) v := by
  induction vs with
  | nil => intro l _ v hv; cases hv
  | cons w rest ih =>
    intro l hs v hv
    simp only [insertAll, List.foldl_cons]
    rcases List.mem_cons.mp hv with rfl | hv'
    · obtain ⟨y, hy, he⟩ := insertVal_designates hswo l v
      exact ⟨y, insertAll_keeps rest _ y (List.mem_of_getElem? hy), he⟩
    · exact ih _ (insertVal_sorted hswo l hs w) v hv'

/-- `grow`: invariant kept, the set is now large (or was empty), and it represents exactly the inline elements -/
theorem grow_inv (hswo : SWO lt) (N : Nat) (s : SSet α) (h : s.Inv lt N) :
    (s.grow lt).Inv lt N ∧ (s.grow lt).vec = [] := by
  refine ⟨⟨fun _ => rfl, by simp [SSet.grow], by simp [SSet.grow, NoEquivDup], ?_⟩, rfl⟩
  exact insertAll_sorted hswo s.vec s.set h.sorted

theorem grow_mem (hswo : SWO lt) (N : Nat) (s : SSet α) (h : s.Inv lt N) (hs : s.isSmall = true) :
    (∀ x, x ∈ (s.grow lt).set → x ∈ s.vec) ∧ (∀ v ∈ s.vec, HasEquiv lt (s.grow lt).set v) := by
  have hset : s.set = [] := by simpa [SSet.isSmall] using hs
  constructor
  · intro x hx
    simp only [SSet.grow, hset] at hx
    rcases insertAll_mem hswo s.vec [] (by simp [Sorted]) x hx with h | h
    · cases h
    · exact h
  · intro v hv
    simp only [SSet.grow, hset]
    exact insertAll_covers hswo s.vec [] (by simp [Sorted]) v hv

/-- `insert` keeps the invariant in either state and across the transition -/
theorem insert_inv (hswo : SWO lt) (N : Nat) (s : SSet α) (h : s.Inv lt N) (v : α) :
    (s.insert lt N v).1.Inv lt N := by
  unfold SSet.insert
  by_cases hs : s.isSmall = true
  · simp only [hs, ↓reduceIte]
    have hspec := findSmall_spec lt s.vec v 0
    cases hf : findSmall lt s.vec v 0 with
    | mk o c =>
      rw [hf] at hspec
      cases o with
      | some i => exact h
      | none =>
        simp only at hspec ⊢
        by_cases hfull : s.vec.length = N
        · simp only [hfull, ↓reduceIte]
          have hg := (grow_inv hswo N s h).1
          exact ⟨fun _ => rfl, by simp, by simp [NoEquivDup], insertVal_sorted hswo _ hg.sorted v⟩
        · simp only [hfull, ↓reduceIte]
          refine ⟨fun hne => absurd rfl hne, ?_, ?_, by simp [Sorted]⟩
          · have := h.bound; simp only [List.length_append, List.length_singleton]; omega
          · unfold NoEquivDup
            rw [List.pairwise_append]
            refine ⟨h.nodup, by simp, ?_⟩
            intro a ha b hb
            simp only [List.mem_singleton] at hb
            subst hb
            intro he
            exact hspec ⟨a, ha, he⟩
  · have hs' : s.isSmall = false := by simpa using hs
    simp only [hs', Bool.false_eq_true, ↓reduceIte]
    exact ⟨fun _ => rfl, by simp, by simp [NoEquivDup], insertVal_sorted hswo _ h.sorted v⟩

/-- `insert` reports "not inserted" exactly when an equivalent element is present, in either state and when the call
    crosses from the inline to the large state -/
theorem insert_not_inserted_iff (hswo : SWO lt) (N : Nat) (s : SSet α) (h : s.Inv lt N) (v : α) :
    (s.insert lt N v).2.2.1 = false ↔ HasEquiv lt s.elems v := by
  unfold SSet.insert SSet.elems
  by_cases hs : s.isSmall = true
  · simp only [hs, ↓reduceIte]
    have hspec := findSmall_spec lt s.vec v 0
    cases hf : findSmall lt s.vec v 0 with
    | mk o c =>
      rw [hf] at hspec
      cases o with
      | some i =>
        simp only at hspec ⊢
        obtain ⟨_, y, hy, he⟩ := hspec
        exact ⟨fun _ => ⟨y, List.mem_of_getElem? hy, he⟩, fun _ => trivial⟩
      | none =>
        simp only at hspec ⊢
        by_cases hfull : s.vec.length = N
        · simp only [hfull, ↓reduceIte]
          have hg := (grow_inv hswo N s h).1
          have hm := (grow_mem hswo N s h hs).1
          rw [insertVal_not_inserted_iff hswo _ hg.sorted v]
          constructor
          · rintro ⟨x, hx, he⟩; exact ⟨x, hm x hx, he⟩
          · intro he; exact absurd he hspec
        · simp only [hfull, ↓reduceIte]
          constructor
          · intro h; cases h
          · intro he; exact absurd he hspec
  · have hs' : s.isSmall = false := by simpa using hs
    simp only [hs', Bool.false_eq_true, ↓reduceIte]
    exact insertVal_not_inserted_iff hswo _ h.sorted v

/-- `find` / `contains` / `count` in either state: found iff an equivalent element is present -/
theorem find_some_iff (hswo : SWO lt) (N : Nat) (s : SSet α) (h : s.Inv lt N) (k : α) :
    (s.find lt k).1.isSome = true ↔ HasEquiv lt s.elems k := by
  unfold SSet.find SSet.elems
  by_cases hs : s.isSmall = true
  · simp only [hs, ↓reduceIte]
    have hspec := findSmall_spec lt s.vec k 0
    cases hf : (findSmall lt s.vec k 0).1 with
    | none => rw [hf] at hspec; simp only at hspec; simp [hspec]
    | some j =>
      rw [hf] at hspec; simp only at hspec
      obtain ⟨_, y, hy, he⟩ := hspec
      simp only [Option.isSome_some, true_iff]
      exact ⟨y, List.mem_of_getElem? hy, he⟩
  · have hs' : s.isSmall = false := by simpa using hs
    simp only [hs', Bool.false_eq_true, ↓reduceIte]
    have := findC_some_iff hswo s.set h.sorted k
    constructor
    · intro hf
      cases hfi : (findC lt s.set k).1 with
      | none => rw [hfi] at hf; cases hf
      | some i =>
        -- the index found designates an equivalent element
        have hins := insertVal_not_inserted_iff hswo s.set h.sorted k
        have hlb := lowerBound_eq_lowerIdx hswo s.set h.sorted k
        unfold findC at hfi
        generalize hp : lowerBound lt s.set k 0 s.set.length = p at hlb hfi
        obtain ⟨i0, c⟩ := p
        simp only at hlb hfi
        subst hlb
        cases hl : s.set[lowerIdx lt s.set k]? with
        | none => rw [hl] at hfi; cases hfi
        | some x =>
          rw [hl] at hfi
          simp only at hfi
          cases hkx : lt k x with
          | true => rw [hkx] at hfi; cases hfi
          | false => exact ⟨x, List.mem_of_getElem? hl, lowerIdx_at s.set k x hl, hkx⟩
    · intro he
      obtain ⟨i, hi, _⟩ := this.mpr he
      rw [hi]; rfl

/-- erasing by position keeps the invariant; the position returned designates the former successor, or nothing (end) -/
theorem eraseIdx_inv (N : Nat) (s : SSet α) (h : s.Inv lt N) (i : Nat) : (s.eraseIdx i).Inv lt N := by
  unfold SSet.eraseIdx
  by_cases hs : s.isSmall = true
  · simp only [hs, ↓reduceIte]
    refine ⟨fun hne => absurd rfl hne, ?_, List.Pairwise.sublist (List.eraseIdx_sublist _ _) h.nodup, by simp [Sorted]⟩
    have h1 := h.bound
    have h2 := List.length_eraseIdx_le s.vec i
    show (s.vec.eraseIdx i).length ≤ N
    omega
  · have hs' : s.isSmall = false := by simpa using hs
    simp only [hs', Bool.false_eq_true, ↓reduceIte]
    exact ⟨fun _ => rfl, by simp, by simp [NoEquivDup], eraseIdx_sorted _ h.sorted i⟩

end AmcVerif.Sets
