import AmcVerif.Lemmas.VecOpsE
/-! Operations on two containers of the same type for the flavours `amc::vector` (`.std`) and `FixedCapacityVector` (`.fixed`):
move construction, move assignment, swap — the counterpart of `VecOpsE.lean` (SmallVector), with the same post-condition shapes
(`MoveCtorPost`, `MoveAssignPost`, `SwapPost`, `Frame2`, `MoveAcct`).

* `amc::vector`: laws `StdLaws` (AllocPosts.lean) plus `StdMoveLaws` (what the generated `move_construct` / `move_assign` /
  `swap_impl` of StdVectorBase compute and emit). Move construction and swap only rewrite the words; move assignment destroys the
  elements of the target and returns its block, then only rewrites the words. `moveConstruct_std`, `moveAssign_std`, `swapSame_std`.
* `FixedCapacityVector`: laws `FixedLaws` / `FixedMoveLaws`; everything is inline: move construction relocates, move assignment
  uses `move_n`, swap uses `swapDeep`. `moveConstruct_fixed`, `moveAssign_fixed`, `swapSame_fixed`.

The law structures are instantiated for the generated members in `Bridge/MoveLawsStdFixed*.lean`. -/
namespace AmcVerif
variable {α β : Type}
open TwoC ShrinkAux AllocAux

/-! ### amc::vector -/

/-- the words of an `amc::vector` without storage -/
def nullW : VB := ⟨0, 0, .null⟩

/-- what the generated two-object members of StdVectorBase compute and emit -/
structure StdMoveLaws (ops : BaseOps) : Prop where
  moveConstruct : ∀ t o n, ops.moveConstruct t o n = (o, nullW, [])
  moveAssign : ∀ t o n, ops.moveAssign t o n =
    (o, nullW, if t.dyn ≠ PtrV.null then [Eff.destroyN t.dyn t.size, Eff.dealloc t.dyn t.capa] else [])
  swapImpl : ∀ t o, ops.swapImpl t o = (o, t, [])

/-- the words of an `amc::vector` point to one block (block 0 when there is no storage), the same for every pool index -/
theorem DOkP.region {cfg : Cfg} {P : Nat → Prop} (L : StdLaws cfg.ops) {w : VB} (hok : DOkP P cfg.ops.kMax w) :
    ∃ id, (∀ e, regionOf cfg e w = .blk id) ∧
      ((w.dyn = .blk id ∧ 0 < cfg.ops.capacity w) ∨ (w.dyn = .null ∧ id = 0 ∧ cfg.ops.capacity w = 0)) := by
  rcases hok.2.2 with ⟨id, hd, _, hpos⟩ | ⟨hd, hc0⟩
  · exact ⟨id, fun e => by unfold regionOf; rw [L.begin_eq, hd]; rfl, Or.inl ⟨hd, by rw [L.cap_eq]; exact hpos⟩⟩
  · exact ⟨0, fun e => by unfold regionOf; rw [L.begin_eq, hd]; rfl, Or.inr ⟨hd, rfl, by rw [L.cap_eq]; exact hc0⟩⟩

theorem regionOf_std_indep {cfg : Cfg} {P : Nat → Prop} (L : StdLaws cfg.ops) {w : VB} (hok : DOkP P cfg.ops.kMax w) (c d : Nat) :
    regionOf cfg c w = regionOf cfg d w := by
  obtain ⟨id, hr, _⟩ := hok.region L
  rw [hr c, hr d]

theorem nullW_ok (P : Nat → Prop) (kMax : Nat) : DOkP P kMax nullW :=
  ⟨Nat.le_refl _, Nat.zero_le _, Or.inr ⟨rfl, rfl⟩⟩

/-- a container registered with the words "no storage" is a valid empty `amc::vector` -/
theorem VRepW.stdEmpty {cfg : Cfg} {P : Nat → Prop} (hfl : cfg.flavour = .std) (L : StdLaws cfg.ops) {m : Mem α} {e : Nat}
    (hws : m.ws[e]? = some nullW) : VRepW cfg (DOkP P cfg.ops.kMax) e m [] nullW := by
  have hcap : cfg.ops.capacity nullW = 0 := by rw [L.cap_eq]; rfl
  refine ⟨⟨hws, nullW_ok _ _, by rw [hcap]; simp [lives, raws], Or.inl hcap, fun _ _ hne => absurd hcap hne,
    fun _ h => by rw [hfl] at h; cases h⟩, by rw [L.size_eq]; rfl⟩

/-- the storage of `d` (words `w`) seen as the storage of `c` under the same words -/
theorem Store.stealStd {cfg : Cfg} {P : Nat → Prop} (hfl : cfg.flavour = .std) (L : StdLaws cfg.ops) {m m' : Mem α} {c d : Nat}
    {w : VB} {b : List (Slot α)} (hd : Store cfg (DOkP P cfg.ops.kMax) d m w b) (hws : m'.ws[c]? = some w)
    (hbuf : 0 < cfg.ops.capacity w → m'.buf (regionOf cfg d w) = m.buf (regionOf cfg d w))
    (hcnt : ∀ id, regionOf cfg d w = .blk id → 0 < cfg.ops.capacity w → m'.cnt id = m.cnt id) :
    Store cfg (DOkP P cfg.ops.kMax) c m' w b := by
  have hreg := regionOf_std_indep L hd.ok c d
  refine ⟨hws, hd.ok, hd.len, ?_, ?_, fun _ h => by rw [hfl] at h; cases h⟩
  · rcases hd.buf with h0 | hb
    · exact Or.inl h0
    · rcases Nat.eq_zero_or_pos (cfg.ops.capacity w) with h0 | hpos
      · exact Or.inl h0
      · exact Or.inr (by rw [hreg, hbuf hpos]; exact hb)
  · intro id hid hne
    rw [hreg] at hid
    rw [hcnt id hid (by omega)]
    exact hd.cnt id hid hne

/-- `c` registered with the words `d` had owns exactly what `d` owned -/
theorem OwnsBlk.transferStd {cfg : Cfg} {P : Nat → Prop} (L : StdLaws cfg.ops) {m m' : Mem α} {c d : Nat} {w : VB}
    (hws' : m'.ws[c]? = some w) (hws : m.ws[d]? = some w) (hok : DOkP P cfg.ops.kMax w) (id : Nat) :
    OwnsBlk cfg c m' id ↔ OwnsBlk cfg d m id := by
  rw [OwnsBlk.iff hws', OwnsBlk.iff hws, regionOf_std_indep L hok c d]

/-- an `amc::vector` without storage owns no block -/
theorem OwnsBlk.null_none {cfg : Cfg} (L : StdLaws cfg.ops) {m : Mem α} {e : Nat} (hws : m.ws[e]? = some nullW) (id : Nat) :
    ¬ OwnsBlk cfg e m id := by
  rw [OwnsBlk.iff hws]
  rintro ⟨_, hp⟩
  rw [L.cap_eq] at hp
  exact Nat.lt_irrefl _ hp

/-- `Vector(Vector&& d)` for `amc::vector`: only the words change — `c` takes over the words of `d`, `d` is left without storage -/
theorem moveConstruct_std {cfg : Cfg} {P : Nat → Prop} (hfl : cfg.flavour = .std) (L : StdLaws cfg.ops) (ML : StdMoveLaws cfg.ops)
    (m : Mem α) (c d : Nat) (ys : List α) (wd : VB) (hne : c ≠ d) (hc : c < m.ws.length)
    (hd : VRepW cfg (DOkP P cfg.ops.kMax) d m ys wd) :
    Post (moveConstruct cfg c d) m (fun res m' => MoveCtorPost cfg (DOkP P cfg.ops.kMax) c d m ys wd res m' ∧
      m' = ({ m with ws := (m.ws.set c wd).set d nullW } : Mem α)) := by
  have hdl : d < m.ws.length := Cross.getElem?_lt hd.ws
  unfold moveConstruct construct
  refine Post.bind (setW_post m c _) ?_ (by okerr)
  rintro _ m1 ⟨_, rfl⟩
  refine Post.bind (getW_post _ c (cfg.ops.ctor cfg.n) (by simp [hc])) ?_ (by okerr)
  rintro w1 m1 ⟨hw1, rfl⟩; injection hw1 with hw1; subst hw1
  refine Post.bind (getW_post _ d wd (by
    show (m.ws.set c _)[d]? = some wd
    rw [List.getElem?_set_ne hne]; exact hd.ws)) ?_ (by okerr)
  rintro w2 m1 ⟨hw2, rfl⟩; injection hw2 with hw2; subst hw2
  rw [ML.moveConstruct]
  simp only [interpAll, pure_bind]
  refine Post.mono (commit2_post _ c d w2 nullW) ?_
  rintro res m4 ⟨hr, rfl⟩
  have hm4 : ({ ({ m with ws := m.ws.set c (cfg.ops.ctor cfg.n) } : Mem α) with
        ws := ((m.ws.set c (cfg.ops.ctor cfg.n)).set c w2).set d nullW } : Mem α)
      = ({ m with ws := (m.ws.set c w2).set d nullW } : Mem α) := by
    rw [List.set_set]
  rw [hm4]
  have hwc : ({ m with ws := (m.ws.set c w2).set d nullW } : Mem α).ws[c]? = some w2 := ws_fst _ _ _ _ _ hc hne
  have hwd : ({ m with ws := (m.ws.set c w2).set d nullW } : Mem α).ws[d]? = some nullW := ws_snd _ _ _ _ _ (by simpa using hdl)
  refine ⟨⟨hr, w2, nullW, ⟨Store.stealStd hfl L hd.store hwc (fun _ => by rw [withWs_buf]) (fun _ _ _ => rfl), hd.size⟩,
    VRepW.stdEmpty hfl L hwd, rfl, ?_, fun id hid => by rw [withWs_buf]; exact hid, fun _ => ⟨rfl, regionOf_std_indep L hd.ok c d⟩,
    OwnsBlk.transferStd L hwc hd.ws hd.ok, OwnsBlk.null_none L hwd⟩, rfl⟩
  exact ⟨rfl, rfl, rfl, by simp, fun e hec hed => ws_other _ _ _ _ _ _ hec hed, fun _ _ => by rw [withWs_buf],
    fun id hid => by rw [withWs_buf] at hid; exact hid, fun _ _ => rfl⟩

/-- `c.swap(d)` for `amc::vector`: only the words are exchanged -/
theorem swapSame_std {cfg : Cfg} {P : Nat → Prop} (hfl : cfg.flavour = .std) (L : StdLaws cfg.ops) (ML : StdMoveLaws cfg.ops)
    (m : Mem α) (c d : Nat) (xs ys : List α) (wc wd : VB) (hne : c ≠ d)
    (hc : VRepW cfg (DOkP P cfg.ops.kMax) c m xs wc) (hd : VRepW cfg (DOkP P cfg.ops.kMax) d m ys wd) :
    Post (swapSame cfg c d) m (fun res m' => SwapPost cfg (DOkP P cfg.ops.kMax) c d m xs ys res m' ∧
      m' = ({ m with ws := (m.ws.set c wd).set d wc } : Mem α)) := by
  have hcl : c < m.ws.length := Cross.getElem?_lt hc.ws
  have hdl : d < m.ws.length := Cross.getElem?_lt hd.ws
  unfold swapSame
  rw [if_pos hne]
  refine Post.bind (getW_post m c wc hc.ws) ?_ (by okerr)
  rintro w1 m1 ⟨hw1, rfl⟩; injection hw1 with hw1; subst hw1
  refine Post.bind (getW_post _ d wd hd.ws) ?_ (by okerr)
  rintro w2 m1 ⟨hw2, rfl⟩; injection hw2 with hw2; subst hw2
  rw [ML.swapImpl]
  simp only [interpAll, pure_bind]
  refine Post.mono (commit2_post _ c d w2 w1) ?_
  rintro res m4 ⟨hr, rfl⟩
  have hwc : ({ m1 with ws := (m1.ws.set c w2).set d w1 } : Mem α).ws[c]? = some w2 := ws_fst _ _ _ _ _ hcl hne
  have hwd : ({ m1 with ws := (m1.ws.set c w2).set d w1 } : Mem α).ws[d]? = some w1 := ws_snd _ _ _ _ _ (by simpa using hdl)
  refine ⟨⟨hr, w2, w1, ⟨Store.stealStd hfl L hd.store hwc (fun _ => by rw [withWs_buf]) (fun _ _ _ => rfl), hd.size⟩,
    ⟨Store.stealStd hfl L hc.store hwd (fun _ => by rw [withWs_buf]) (fun _ _ _ => rfl), hc.size⟩,
    (Frame2.sameBuf (c := c) (d := d) w2 w1 (rfl : m1 = m1)).mono (by simp),
    OwnsBlk.transferStd L hwc hd.ws hd.ok, OwnsBlk.transferStd L hwd hc.ws hc.ok⟩, rfl⟩

/-- the `amc::vector` `c` (words `wc`) has given up its elements and its heap block (if any): the block is gone, nothing else
    changed (nothing at all when it had no storage) -/
structure ReleasedStd (cfg : Cfg) (c : Nat) (wc : VB) (m m' : Mem α) : Prop where
  keep : KeepA m m'
  other : ∀ r', r' ≠ regionOf cfg c wc ∨ cfg.ops.capacity wc = 0 → m'.buf r' = m.buf r'
  gone : ∀ id, regionOf cfg c wc = .blk id → 0 < cfg.ops.capacity wc → m'.buf (.blk id) = none
  sub : ∀ id, (m'.buf (.blk id)).isSome → (m.buf (.blk id)).isSome
  cnt : ∀ id, (m'.buf (.blk id)).isSome → m'.cnt id = m.cnt id

/-- the effects of the release part of `operator=(Vector&&)`: `destroy_n(begin, size); deallocate(ptr, capacity)` when there is
    storage, nothing otherwise -/
theorem releaseStd_post {cfg : Cfg} {P : Nat → Prop} (L : StdLaws cfg.ops) (m : Mem α) (c d : Nat) (xs : List α) (wc : VB)
    (h : VRepW cfg (DOkP P cfg.ops.kMax) c m xs wc) :
    Post (interpAll c d (if wc.dyn ≠ PtrV.null then [Eff.destroyN wc.dyn wc.size, Eff.dealloc wc.dyn wc.capa] else [])) m
      (fun res m' => res = .ok () ∧ ReleasedStd cfg c wc m m') := by
  obtain ⟨id, hreg, hcase⟩ := h.ok.region L
  have hsz : wc.size = xs.length := by rw [← L.size_eq]; exact h.size
  rcases hcase with ⟨hd, hpos⟩ | ⟨hd, hid0, hc0⟩
  · have hres : resolve c d wc.dyn = ⟨regionOf cfg c wc, 0⟩ := by rw [hreg c, hd]; rfl
    rw [if_pos (by rw [hd]; simp)]
    simp only [interpAll, interp_destroyN, interp_dealloc, hres, hsz]
    refine Post.bind (destroyAll_post m c xs wc h) ?_ (by rintro e m1 ⟨he, _⟩; cases he)
    rintro _ m1 ⟨_, hk1, hb1, ho1, hn1⟩
    have hbb : m1.buf (.blk id) = some (raws (cfg.ops.capacity wc)) := by
      rcases hb1 with h0 | hb
      · omega
      · rw [← hreg c]; exact hb
    have hcc : m1.cnt id = some wc.capa := by
      rw [hk1.cnt, ← L.cap_eq]; exact h.store.cnt id (hreg c) (by omega)
    rw [hd]
    refine Post.bind (deallocBlock_post m1 id _ _ hbb hcc (Or.inl (all_raw _))) ?_ (by rintro e m2 ⟨he, _⟩; cases he)
    rintro _ m2 ⟨_, hf2⟩
    refine Post.pure ⟨rfl, hk1.toA.trans hf2.keep, ?_, ?_, ?_, ?_⟩
    · rintro r' (hr' | hr')
      · rw [hf2.buf, View.unset_other _ _ _ (by rw [← hreg c]; exact hr')]; exact ho1 r' hr'
      · omega
    · intro id' hid' _
      rw [hreg c] at hid'; injection hid' with hid'; subst hid'
      rw [hf2.buf, View.unset_same]
    · intro id' hid'
      rw [hf2.buf] at hid'
      by_cases e : id' = id
      · subst e; rw [View.unset_same] at hid'; cases hid'
      · rw [View.unset_other _ _ _ (by intro e'; injection e' with e'; exact e e')] at hid'
        exact hn1 _ hid'
    · intro id' hid'
      have e : id' ≠ id := by
        rintro rfl; rw [hf2.buf, View.unset_same] at hid'; cases hid'
      rw [hf2.cntOther id' e, hk1.cnt]
  · rw [if_neg (by rw [hd]; simp)]
    simp only [interpAll]
    exact Post.pure ⟨rfl, KeepA.refl m, fun _ _ => rfl, fun _ _ hp => by omega, fun _ h' => h', fun _ _ => rfl⟩

/-- `c = std::move(d)` for two distinct `amc::vector`s whose storages are distinct (or `c` has none): the elements of `c` are
    destroyed and its block returned, then `c` takes over the words of `d` and `d` is left without storage -/
theorem moveAssign_std {cfg : Cfg} {P : Nat → Prop} (hfl : cfg.flavour = .std) (L : StdLaws cfg.ops) (ML : StdMoveLaws cfg.ops)
    (m : Mem α) (c d : Nat) (xs ys : List α) (wc wd : VB) (hne : c ≠ d)
    (hc : VRepW cfg (DOkP P cfg.ops.kMax) c m xs wc) (hd : VRepW cfg (DOkP P cfg.ops.kMax) d m ys wd)
    (hdisj : regionOf cfg c wc ≠ regionOf cfg d wd ∨ cfg.ops.capacity wc = 0) :
    Post (moveAssign cfg c d) m (fun res m' => MoveAssignPost cfg (DOkP P cfg.ops.kMax) c d m ys wc res m' ∧
      ∃ wc' wd', m'.ws[c]? = some wc' ∧ m'.ws[d]? = some wd' ∧ wc' = wd ∧ wd' = nullW) := by
  have hcl : c < m.ws.length := Cross.getElem?_lt hc.ws
  have hdl : d < m.ws.length := Cross.getElem?_lt hd.ws
  unfold moveAssign
  rw [if_pos hne]
  refine Post.bind (getW_post m c wc hc.ws) ?_ (by okerr)
  rintro w1 m1 ⟨hw1, rfl⟩; injection hw1 with hw1; subst hw1
  refine Post.bind (getW_post _ d wd hd.ws) ?_ (by okerr)
  rintro w2 m1 ⟨hw2, rfl⟩; injection hw2 with hw2; subst hw2
  rw [ML.moveAssign]
  dsimp only
  refine Post.bind (releaseStd_post L m1 c d xs w1 hc) ?_ (by rintro e m2 ⟨he, _⟩; cases he)
  rintro _ m2 ⟨_, hrel⟩
  refine Post.mono (commit2_post m2 c d w2 nullW) ?_
  rintro res m4 ⟨hr, rfl⟩
  have hws4 : ({ m2 with ws := (m2.ws.set c w2).set d nullW } : Mem α).ws = (m1.ws.set c w2).set d nullW := by
    show (m2.ws.set c w2).set d nullW = _
    rw [hrel.keep.ws]
  have hwc : ({ m2 with ws := (m2.ws.set c w2).set d nullW } : Mem α).ws[c]? = some w2 := by
    rw [hws4]; exact ws_fst _ _ _ _ _ hcl hne
  have hwd : ({ m2 with ws := (m2.ws.set c w2).set d nullW } : Mem α).ws[d]? = some nullW := by
    rw [hws4]; exact ws_snd _ _ _ _ _ (by simpa using hdl)
  have hdreg : regionOf cfg d w2 ≠ regionOf cfg c w1 ∨ cfg.ops.capacity w1 = 0 := by
    rcases hdisj with h1 | h1
    · exact Or.inl (Ne.symm h1)
    · exact Or.inr h1
  have hsteal : Store cfg (DOkP P cfg.ops.kMax) c ({ m2 with ws := (m2.ws.set c w2).set d nullW } : Mem α) w2
      (lives ys ++ raws (cfg.ops.capacity w2 - ys.length)) := by
    refine Store.stealStd hfl L hd.store hwc ?_ ?_
    · intro _; rw [withWs_buf]; exact hrel.other _ hdreg
    · intro id hid hp
      rw [withWs_cnt]
      refine hrel.cnt id ?_
      rw [← hid, hrel.other _ hdreg]; exact hd.isSome hp
  have hgone4 : ∀ id, regionOf cfg c w1 = .blk id → 0 < cfg.ops.capacity w1 →
      ({ m2 with ws := (m2.ws.set c w2).set d nullW } : Mem α).buf (.blk id) = none := by
    intro id hid hp
    rw [withWs_buf]; exact hrel.gone id hid hp
  refine ⟨⟨hr, w2, nullW, ⟨hsteal, hd.size⟩, VRepW.stdEmpty hfl L hwd, ?_, fun id hid hp _ => hgone4 id hid hp, ?_⟩,
    w2, nullW, hwc, hwd, rfl, rfl⟩
  · refine ⟨hrel.keep.cat, hrel.keep.hr, hrel.keep.nid, by rw [hws4]; simp,
      fun e hec hed => by rw [hws4]; exact ws_other _ _ _ _ _ _ hec hed, ?_, fun id hid => hrel.sub id (by rw [withWs_buf] at hid; exact hid),
      fun id hid => by rw [withWs_cnt]; exact hrel.cnt id (by rw [withWs_buf] at hid; exact hid)⟩
    intro r' hr'
    simp only [List.mem_cons, List.not_mem_nil, or_false, not_or] at hr'
    rw [withWs_buf]; exact hrel.other r' (Or.inl hr'.1)
  · refine MoveAcct.ofSteal (OwnsBlk.null_none L hwd) (OwnsBlk.transferStd L hwc hd.ws hd.ok) (fun id ho => ?_)
    have := (OwnsBlk.iff hc.ws id).mp ho
    exact hgone4 id this.1 this.2

/-! ### FixedCapacityVector -/

/-- representation invariant of the words of a FixedCapacityVector of capacity `N` over a size type counting up to `kMax` -/
def FOkG (kMax N : Nat) (t : VB) : Prop := t.size ≤ t.capa ∧ t.capa = N ∧ N ≤ kMax

/-- the accessors of StaticVectorBase: the elements always live in the inline storage -/
structure FixedLaws (ops : BaseOps) : Prop where
  size_eq : ∀ t, ops.size t = t.size
  cap_eq : ∀ t, ops.capacity t = t.capa
  begin_eq : ∀ t, ops.begin t = PtrV.inl 0

/-- what the generated constructor and two-object members of StaticVectorBase compute and emit -/
structure FixedMoveLaws (ops : BaseOps) : Prop where
  ctor : ∀ n, ops.ctor n = ⟨n, 0, PtrV.null⟩
  moveConstruct : ∀ t o n, ops.moveConstruct t o n =
    (⟨t.capa, o.size, t.dyn⟩, ⟨o.capa, 0, o.dyn⟩, [Eff.relocN (PtrV.inl 1) o.size (PtrV.inl 0)])
  moveAssign : ∀ t o n, ops.moveAssign t o n =
    (⟨t.capa, o.size, t.dyn⟩, ⟨o.capa, 0, o.dyn⟩, [Eff.moveN (PtrV.inl 1) o.size (PtrV.inl 0) t.size])
  swapImpl : ∀ t o, ops.swapImpl t o =
    (⟨t.capa, o.size, t.dyn⟩, ⟨o.capa, t.size, o.dyn⟩, [Eff.swapDeep (PtrV.inl 0) t.size (PtrV.inl 1) o.size])

theorem regionOf_fixed {cfg : Cfg} (L : FixedLaws cfg.ops) (e : Nat) (w : VB) : regionOf cfg e w = .inl e := by
  unfold regionOf; rw [L.begin_eq]; rfl

/-- a FixedCapacityVector whose inline storage holds `zs` followed by raw slots -/
theorem VRepW.fixed {cfg : Cfg} (L : FixedLaws cfg.ops) {m : Mem α} {e : Nat} {w : VB} {zs : List α}
    (hws : m.ws[e]? = some w) (hok : FOkG cfg.ops.kMax cfg.n w) (hsz : w.size = zs.length)
    (hbuf : m.buf (.inl e) = some (lives zs ++ raws (cfg.n - zs.length))) :
    VRepW cfg (FOkG cfg.ops.kMax cfg.n) e m zs w := by
  have hreg := regionOf_fixed L e w
  have hcap : cfg.ops.capacity w = cfg.n := by rw [L.cap_eq]; exact hok.2.1
  have hle : zs.length ≤ cfg.n := by rw [← hsz, ← hok.2.1]; exact hok.1
  refine ⟨⟨hws, hok, by simp; omega, Or.inr (by rw [hreg, hcap]; exact hbuf), ?_, ?_⟩, by rw [L.size_eq]; exact hsz⟩
  · intro id hid; rw [hreg] at hid; cases hid
  · intro hne; exact absurd hreg hne

/-- the inline storage of a FixedCapacityVector of non-zero capacity -/
theorem VRepW.fixedBuf {cfg : Cfg} (L : FixedLaws cfg.ops) (hN : 0 < cfg.n) {m : Mem α} {e : Nat} {w : VB} {zs : List α}
    (h : VRepW cfg (FOkG cfg.ops.kMax cfg.n) e m zs w) :
    zs.length ≤ cfg.n ∧ m.buf (.inl e) = some (lives zs ++ raws (cfg.n - zs.length)) := by
  have hcap : cfg.ops.capacity w = cfg.n := by rw [L.cap_eq]; exact h.ok.2.1
  refine ⟨by rw [← hcap]; exact h.le, ?_⟩
  rcases h.buf with h0 | hb
  · omega
  · rw [regionOf_fixed L e w, hcap] at hb; exact hb

/-- a FixedCapacityVector owns no heap block -/
theorem OwnsBlk.fixed_none {cfg : Cfg} (L : FixedLaws cfg.ops) {m : Mem α} {e : Nat} (id : Nat) : ¬ OwnsBlk cfg e m id := by
  rintro ⟨w, _, hr, _⟩
  rw [regionOf_fixed L e w] at hr; cases hr

/-- `FixedCapacityVector(FixedCapacityVector&& d)` into pool slot `c` (whose inline storage is raw), capacity not 0 -/
theorem moveConstruct_fixed_pos {cfg : Cfg} (L : FixedLaws cfg.ops) (ML : FixedMoveLaws cfg.ops) (hN : 0 < cfg.n)
    (m : Mem α) (c d : Nat) (ys : List α) (wd : VB) (hne : c ≠ d) (hc : c < m.ws.length)
    (hraw : m.buf (.inl c) = some (raws cfg.n)) (hd : VRepW cfg (FOkG cfg.ops.kMax cfg.n) d m ys wd) :
    Post (moveConstruct cfg c d) m (MoveCtorPost cfg (FOkG cfg.ops.kMax cfg.n) c d m ys wd) := by
  have hdl : d < m.ws.length := Cross.getElem?_lt hd.ws
  obtain ⟨hle, hbd⟩ := hd.fixedBuf L hN
  have hszd : wd.size = ys.length := by rw [← L.size_eq]; exact hd.size
  unfold moveConstruct construct
  refine Post.bind (setW_post m c _) ?_ (by okerr)
  rintro _ m1 ⟨_, rfl⟩
  refine Post.bind (getW_post _ c (cfg.ops.ctor cfg.n) (by simp [hc])) ?_ (by okerr)
  rintro w1 m1 ⟨hw1, rfl⟩; injection hw1 with hw1; subst hw1
  refine Post.bind (getW_post _ d wd (by
    show (m.ws.set c _)[d]? = some wd
    rw [List.getElem?_set_ne hne]; exact hd.ws)) ?_ (by okerr)
  rintro w2 m1 ⟨hw2, rfl⟩; injection hw2 with hw2; subst hw2
  rw [ML.moveConstruct, ML.ctor]
  dsimp only
  generalize hm1 : ({ m with ws := m.ws.set c ⟨cfg.n, 0, PtrV.null⟩ } : Mem α) = m1
  have hb1 : m1.buf = m.buf := by rw [← hm1, withWs_buf]
  have hws1 : m1.ws = m.ws.set c ⟨cfg.n, 0, PtrV.null⟩ := by rw [← hm1]
  have hner : Region.inl d ≠ Region.inl c := by intro e; injection e with e; exact hne e.symm
  simp only [interpAll, interp_relocN, resolve_inl0, resolve_inl1, hszd]
  have h2 : m1.buf (.inl d) = some ([] ++ lives ys ++ raws (cfg.n - ys.length)) := by rw [hb1]; simpa using hbd
  have h2' : m1.buf (.inl c) = some ([] ++ raws ys.length ++ raws (cfg.n - ys.length)) := by
    rw [hb1, hraw, List.nil_append, raws_append]; congr 2; omega
  refine Post.bind (post_then_pure (relocAcross_post m1 (.inl d) (.inl c) hner [] _ [] _ ys h2 h2')) ?_
    (by rintro e m3 ⟨he, _⟩; cases he)
  rintro _ m3 ⟨_, hk3, hb3⟩
  refine Post.mono (commit2_post m3 c d _ _) ?_
  rintro res m4 ⟨hr, rfl⟩
  have hws4 : ({ m3 with ws := (m3.ws.set c ⟨cfg.n, ys.length, PtrV.null⟩).set d ⟨w2.capa, 0, w2.dyn⟩ } : Mem α).ws
      = (m.ws.set c ⟨cfg.n, ys.length, PtrV.null⟩).set d ⟨w2.capa, 0, w2.dyn⟩ := by
    show (m3.ws.set c _).set d _ = _
    rw [hk3.ws, hws1, List.set_set]
  have hbc : m3.buf (.inl c) = some (lives ys ++ raws (cfg.n - ys.length)) := by rw [hb3, View.set_same]; rfl
  have hbdd : m3.buf (.inl d) = some (raws cfg.n) := by
    rw [hb3, View.set_other _ _ _ _ hner, View.set_same, List.nil_append, raws_append]; congr 2; omega
  have hcapd : cfg.ops.capacity w2 = cfg.n := by rw [L.cap_eq]; exact hd.ok.2.1
  refine ⟨hr, ⟨cfg.n, ys.length, PtrV.null⟩, ⟨w2.capa, 0, w2.dyn⟩, ?_, ?_, ?_, ?_, ?_, ?_,
    fun id => ⟨fun ho => absurd ho (OwnsBlk.fixed_none L id),
    fun ho => absurd ho (OwnsBlk.fixed_none L id)⟩, OwnsBlk.fixed_none L⟩
  · exact VRepW.fixed L (by rw [hws4]; exact ws_fst _ _ _ _ _ hc hne) ⟨hle, rfl, hd.ok.2.2⟩ rfl (by rw [withWs_buf]; exact hbc)
  · exact VRepW.fixed L (by rw [hws4]; exact ws_snd _ _ _ _ _ (by simpa using hdl)) ⟨Nat.zero_le _, hd.ok.2.1, hd.ok.2.2⟩ rfl
      (by rw [withWs_buf, hbdd]; simp [lives])
  · rw [L.cap_eq, hcapd]
  · refine ⟨hk3.cat.trans (by rw [← hm1]), hk3.hr.trans (by rw [← hm1]), hk3.nid.trans (by rw [← hm1]), by rw [hws4]; simp,
      fun e hec hed => by rw [hws4]; exact ws_other _ _ _ _ _ _ hec hed, ?_, ?_, ?_⟩
    · intro r' hr'
      simp only [List.mem_cons, List.not_mem_nil, or_false, not_or] at hr'
      rw [withWs_buf, hb3, View.set_other _ _ _ _ hr'.1, View.set_other _ _ _ _ hr'.2, hb1]
    · intro id hid
      rw [withWs_buf, hb3, View.set_other _ _ _ _ (by intro e; cases e), View.set_other _ _ _ _ (by intro e; cases e), hb1] at hid
      exact hid
    · intro id _
      rw [withWs_cnt, hk3.cnt, ← hm1]; rfl
  · intro id hid
    rw [withWs_buf, hb3, View.set_other _ _ _ _ (by intro e; cases e), View.set_other _ _ _ _ (by intro e; cases e), hb1]
    exact hid
  · intro hreg; exact absurd (regionOf_fixed L d w2) hreg

/-- `c = std::move(d)` for two distinct FixedCapacityVectors, capacity not 0 -/
theorem moveAssign_fixed_pos {cfg : Cfg} (L : FixedLaws cfg.ops) (ML : FixedMoveLaws cfg.ops) (hN : 0 < cfg.n)
    (m : Mem α) (c d : Nat) (xs ys : List α) (wc wd : VB) (hne : c ≠ d)
    (hc : VRepW cfg (FOkG cfg.ops.kMax cfg.n) c m xs wc) (hd : VRepW cfg (FOkG cfg.ops.kMax cfg.n) d m ys wd) :
    Post (moveAssign cfg c d) m (MoveAssignPost cfg (FOkG cfg.ops.kMax cfg.n) c d m ys wc) := by
  have hcl : c < m.ws.length := Cross.getElem?_lt hc.ws
  have hdl : d < m.ws.length := Cross.getElem?_lt hd.ws
  obtain ⟨hlec, hbc⟩ := hc.fixedBuf L hN
  obtain ⟨hled, hbd⟩ := hd.fixedBuf L hN
  have hszc : wc.size = xs.length := by rw [← L.size_eq]; exact hc.size
  have hszd : wd.size = ys.length := by rw [← L.size_eq]; exact hd.size
  unfold moveAssign
  rw [if_pos hne]
  refine Post.bind (getW_post m c wc hc.ws) ?_ (by okerr)
  rintro w1 m1 ⟨hw1, rfl⟩; injection hw1 with hw1; subst hw1
  refine Post.bind (getW_post _ d wd hd.ws) ?_ (by okerr)
  rintro w2 m1 ⟨hw2, rfl⟩; injection hw2 with hw2; subst hw2
  rw [ML.moveAssign]
  dsimp only
  have hner : Region.inl d ≠ Region.inl c := by intro e; injection e with e; exact hne e.symm
  simp only [interpAll, interp_moveN, resolve_inl0, resolve_inl1, hszc, hszd]
  refine Post.bind (post_then_pure (moveNAcross_post m1 (.inl d) (.inl c) hner [] (raws (cfg.n - ys.length)) [] [] ys xs
    (cfg.n - xs.length) (by omega) (by simpa using hbd) (by simpa using hbc))) ?_ (by rintro e m3 ⟨he, _⟩; cases he)
  rintro _ m3 ⟨_, hk3, hb3⟩
  refine Post.mono (commit2_post m3 c d _ _) ?_
  rintro res m4 ⟨hr, rfl⟩
  have hws4 : ({ m3 with ws := (m3.ws.set c ⟨w1.capa, ys.length, w1.dyn⟩).set d ⟨w2.capa, 0, w2.dyn⟩ } : Mem α).ws
      = (m1.ws.set c ⟨w1.capa, ys.length, w1.dyn⟩).set d ⟨w2.capa, 0, w2.dyn⟩ := by
    show (m3.ws.set c _).set d _ = _
    rw [hk3.ws]
  have hfr := Frame2.ofSet2 (c := c) (d := d) ⟨w1.capa, ys.length, w1.dyn⟩ ⟨w2.capa, 0, w2.dyn⟩ hk3 hb3
    (by rw [hbd]; rfl) (by rw [hbc]; rfl)
  refine ⟨hr, ⟨w1.capa, ys.length, w1.dyn⟩, ⟨w2.capa, 0, w2.dyn⟩, ?_, ?_, hfr.mono (by intro r hr'; simp at hr' ⊢; rcases hr' with rfl | rfl <;> simp), ?_,
    MoveAcct.ofNone (OwnsBlk.fixed_none L) (OwnsBlk.fixed_none L) (OwnsBlk.fixed_none L)
      (fun id ho => absurd ho (OwnsBlk.fixed_none L id))⟩
  · refine VRepW.fixed L (by rw [hws4]; exact ws_fst _ _ _ _ _ hcl hne) ⟨by rw [hc.ok.2.1]; exact hled, hc.ok.2.1, hc.ok.2.2⟩ rfl ?_
    rw [withWs_buf, hb3, View.set_same]
    simp only [List.nil_append, List.append_nil]
    congr 3; omega
  · refine VRepW.fixed L (by rw [hws4]; exact ws_snd _ _ _ _ _ (by simpa using hdl)) ⟨Nat.zero_le _, hd.ok.2.1, hd.ok.2.2⟩ rfl ?_
    rw [withWs_buf, hb3, View.set_other _ _ _ _ hner, View.set_same, List.nil_append, raws_append]
    simp only [lives, List.map_nil, List.nil_append, List.length_nil, Nat.sub_zero]
    congr 2; omega
  · intro id hid; rw [regionOf_fixed L c w1] at hid; cases hid

/-- `c.swap(d)` for two distinct FixedCapacityVectors, capacity not 0 -/
theorem swapSame_fixed_pos {cfg : Cfg} (L : FixedLaws cfg.ops) (ML : FixedMoveLaws cfg.ops) (hN : 0 < cfg.n)
    (m : Mem α) (c d : Nat) (xs ys : List α) (wc wd : VB) (hne : c ≠ d)
    (hc : VRepW cfg (FOkG cfg.ops.kMax cfg.n) c m xs wc) (hd : VRepW cfg (FOkG cfg.ops.kMax cfg.n) d m ys wd) :
    Post (swapSame cfg c d) m (SwapPost cfg (FOkG cfg.ops.kMax cfg.n) c d m xs ys) := by
  have hcl : c < m.ws.length := Cross.getElem?_lt hc.ws
  have hdl : d < m.ws.length := Cross.getElem?_lt hd.ws
  obtain ⟨hlec, hbc⟩ := hc.fixedBuf L hN
  obtain ⟨hled, hbd⟩ := hd.fixedBuf L hN
  have hszc : wc.size = xs.length := by rw [← L.size_eq]; exact hc.size
  have hszd : wd.size = ys.length := by rw [← L.size_eq]; exact hd.size
  unfold swapSame
  rw [if_pos hne]
  refine Post.bind (getW_post m c wc hc.ws) ?_ (by okerr)
  rintro w1 m1 ⟨hw1, rfl⟩; injection hw1 with hw1; subst hw1
  refine Post.bind (getW_post _ d wd hd.ws) ?_ (by okerr)
  rintro w2 m1 ⟨hw2, rfl⟩; injection hw2 with hw2; subst hw2
  rw [ML.swapImpl]
  dsimp only
  have hner : Region.inl c ≠ Region.inl d := by intro e; injection e with e; exact hne e
  simp only [interpAll, interp_swapDeep, resolve_inl0, resolve_inl1, hszc, hszd]
  refine Post.bind (post_then_pure (swapDeepAcross_post m1 (.inl c) (.inl d) hner [] [] [] [] xs ys (cfg.n - xs.length)
    (cfg.n - ys.length) (by omega) (by omega) (by simpa using hbc) (by simpa using hbd))) ?_ (by rintro e m3 ⟨he, _⟩; cases he)
  rintro _ m3 ⟨_, hk3, hb3⟩
  refine Post.mono (commit2_post m3 c d _ _) ?_
  rintro res m4 ⟨hr, rfl⟩
  have hws4 : ({ m3 with ws := (m3.ws.set c ⟨w1.capa, ys.length, w1.dyn⟩).set d ⟨w2.capa, xs.length, w2.dyn⟩ } : Mem α).ws
      = (m1.ws.set c ⟨w1.capa, ys.length, w1.dyn⟩).set d ⟨w2.capa, xs.length, w2.dyn⟩ := by
    show (m3.ws.set c _).set d _ = _
    rw [hk3.ws]
  refine ⟨hr, ⟨w1.capa, ys.length, w1.dyn⟩, ⟨w2.capa, xs.length, w2.dyn⟩, ?_, ?_, Frame2.ofSet2 _ _ hk3 hb3 (by rw [hbc]; rfl) (by rw [hbd]; rfl),
    fun id => ⟨fun ho => absurd ho (OwnsBlk.fixed_none L id), fun ho => absurd ho (OwnsBlk.fixed_none L id)⟩,
    fun id => ⟨fun ho => absurd ho (OwnsBlk.fixed_none L id), fun ho => absurd ho (OwnsBlk.fixed_none L id)⟩⟩
  · refine VRepW.fixed L (by rw [hws4]; exact ws_fst _ _ _ _ _ hcl hne) ⟨by rw [hc.ok.2.1]; exact hled, hc.ok.2.1, hc.ok.2.2⟩ rfl ?_
    rw [withWs_buf, hb3, View.set_other _ _ _ _ hner, View.set_same]
    simp only [List.nil_append, List.append_nil]
    congr 3; omega
  · refine VRepW.fixed L (by rw [hws4]; exact ws_snd _ _ _ _ _ (by simpa using hdl)) ⟨by rw [hd.ok.2.1]; exact hlec, hd.ok.2.1, hd.ok.2.2⟩ rfl ?_
    rw [withWs_buf, hb3, View.set_same]
    simp only [List.nil_append, List.append_nil]
    congr 3; omega

/-! #### capacity 0 (the degenerate `FixedCapacityVector<T, 0>`): both containers are empty and need no storage at all -/

theorem VRepW.fixedZero {cfg : Cfg} (L : FixedLaws cfg.ops) {m : Mem α} {e : Nat} {w : VB} (hws : m.ws[e]? = some w)
    (hok : FOkG cfg.ops.kMax cfg.n w) (hn : cfg.n = 0) (hsz : w.size = 0) : VRepW cfg (FOkG cfg.ops.kMax cfg.n) e m [] w := by
  have hcap : cfg.ops.capacity w = 0 := by rw [L.cap_eq, hok.2.1, hn]
  exact ⟨⟨hws, hok, by rw [hcap]; simp [lives, raws], Or.inl hcap, fun _ _ hne => absurd hcap hne,
    fun hne => absurd (regionOf_fixed L e w) hne⟩, by rw [L.size_eq]; exact hsz⟩

theorem VRepW.fixedNil {cfg : Cfg} (L : FixedLaws cfg.ops) {m : Mem α} {e : Nat} {w : VB} {zs : List α} (hn : cfg.n = 0)
    (h : VRepW cfg (FOkG cfg.ops.kMax cfg.n) e m zs w) : zs = [] := by
  have := h.le
  rw [L.cap_eq, h.ok.2.1, hn] at this
  exact List.eq_nil_of_length_eq_zero (by omega)

theorem swapDeep_zero_post (m : Mem α) (a b : Addr) : Post (swapDeep a 0 b 0) m (fun res m' => res = .ok () ∧ m' = m) := by
  unfold swapDeep
  simp only [Nat.min_self, swapRanges, Nat.lt_irrefl, ↓reduceIte, Nat.sub_self, pure_bind]
  exact uninitRelocN_zero_post m _ _

theorem Frame2.words {c d : Nat} (m : Mem α) (wc' wd' : VB) (rs : List Region) :
    Frame2 c d rs m ({ m with ws := (m.ws.set c wc').set d wd' } : Mem α) :=
  (Frame2.sameBuf (c := c) (d := d) wc' wd' (rfl : m = m)).mono (by simp)

theorem moveConstruct_fixed_zero {cfg : Cfg} (L : FixedLaws cfg.ops) (ML : FixedMoveLaws cfg.ops) (hn : cfg.n = 0)
    (m : Mem α) (c d : Nat) (ys : List α) (wd : VB) (hne : c ≠ d) (hc : c < m.ws.length)
    (hd : VRepW cfg (FOkG cfg.ops.kMax cfg.n) d m ys wd) :
    Post (moveConstruct cfg c d) m (MoveCtorPost cfg (FOkG cfg.ops.kMax cfg.n) c d m ys wd) := by
  have hdl : d < m.ws.length := Cross.getElem?_lt hd.ws
  have hy := hd.fixedNil L hn
  subst hy
  have hszd : wd.size = 0 := by rw [← L.size_eq]; exact hd.size
  unfold moveConstruct construct
  refine Post.bind (setW_post m c _) ?_ (by okerr)
  rintro _ m1 ⟨_, rfl⟩
  refine Post.bind (getW_post _ c (cfg.ops.ctor cfg.n) (by simp [hc])) ?_ (by okerr)
  rintro w1 m1 ⟨hw1, rfl⟩; injection hw1 with hw1; subst hw1
  refine Post.bind (getW_post _ d wd (by
    show (m.ws.set c _)[d]? = some wd
    rw [List.getElem?_set_ne hne]; exact hd.ws)) ?_ (by okerr)
  rintro w2 m1 ⟨hw2, rfl⟩; injection hw2 with hw2; subst hw2
  rw [ML.moveConstruct, ML.ctor]
  dsimp only
  simp only [interpAll, interp_relocN, hszd]
  refine Post.bind (post_then_pure (uninitRelocN_zero_post _ _ _)) ?_ (by okerr)
  rintro _ m3 ⟨_, rfl⟩
  refine Post.mono (commit2_post _ c d _ _) ?_
  rintro res m4 ⟨hr, rfl⟩
  have hm4 : ({ ({ m with ws := m.ws.set c ⟨cfg.n, 0, PtrV.null⟩ } : Mem α) with
        ws := ((m.ws.set c ⟨cfg.n, 0, PtrV.null⟩).set c ⟨cfg.n, 0, PtrV.null⟩).set d ⟨w2.capa, 0, w2.dyn⟩ } : Mem α)
      = ({ m with ws := (m.ws.set c ⟨cfg.n, 0, PtrV.null⟩).set d ⟨w2.capa, 0, w2.dyn⟩ } : Mem α) := by
    rw [List.set_set]
  rw [hm4]
  refine ⟨hr, ⟨cfg.n, 0, PtrV.null⟩, ⟨w2.capa, 0, w2.dyn⟩, ?_, ?_, ?_, Frame2.words m _ _ _,
    fun id hid => by rw [withWs_buf]; exact hid, fun hreg => absurd (regionOf_fixed L d w2) hreg,
    fun id => ⟨fun ho => absurd ho (OwnsBlk.fixed_none L id), fun ho => absurd ho (OwnsBlk.fixed_none L id)⟩,
    OwnsBlk.fixed_none L⟩
  · exact VRepW.fixedZero L (ws_fst _ _ _ _ _ hc hne) ⟨Nat.zero_le _, rfl, hd.ok.2.2⟩ hn rfl
  · exact VRepW.fixedZero L (ws_snd _ _ _ _ _ (by simpa using hdl)) ⟨Nat.zero_le _, hd.ok.2.1, hd.ok.2.2⟩ hn rfl
  · rw [L.cap_eq, L.cap_eq]; exact hd.ok.2.1.symm

theorem moveAssign_fixed_zero {cfg : Cfg} (L : FixedLaws cfg.ops) (ML : FixedMoveLaws cfg.ops) (hn : cfg.n = 0)
    (m : Mem α) (c d : Nat) (xs ys : List α) (wc wd : VB) (hne : c ≠ d)
    (hc : VRepW cfg (FOkG cfg.ops.kMax cfg.n) c m xs wc) (hd : VRepW cfg (FOkG cfg.ops.kMax cfg.n) d m ys wd) :
    Post (moveAssign cfg c d) m (MoveAssignPost cfg (FOkG cfg.ops.kMax cfg.n) c d m ys wc) := by
  have hcl : c < m.ws.length := Cross.getElem?_lt hc.ws
  have hdl : d < m.ws.length := Cross.getElem?_lt hd.ws
  have hx := hc.fixedNil L hn
  have hy := hd.fixedNil L hn
  subst hx; subst hy
  have hszc : wc.size = 0 := by rw [← L.size_eq]; exact hc.size
  have hszd : wd.size = 0 := by rw [← L.size_eq]; exact hd.size
  unfold moveAssign
  rw [if_pos hne]
  refine Post.bind (getW_post m c wc hc.ws) ?_ (by okerr)
  rintro w1 m1 ⟨hw1, rfl⟩; injection hw1 with hw1; subst hw1
  refine Post.bind (getW_post _ d wd hd.ws) ?_ (by okerr)
  rintro w2 m1 ⟨hw2, rfl⟩; injection hw2 with hw2; subst hw2
  rw [ML.moveAssign]
  dsimp only
  simp only [interpAll, interp_moveN, hszc, hszd]
  refine Post.bind (post_then_pure (moveN_zero_post m1 _ _)) ?_ (by okerr)
  rintro _ m3 ⟨_, rfl⟩
  refine Post.mono (commit2_post m3 c d _ _) ?_
  rintro res m4 ⟨hr, rfl⟩
  refine ⟨hr, ⟨w1.capa, 0, w1.dyn⟩, ⟨w2.capa, 0, w2.dyn⟩, ?_, ?_, Frame2.words m3 _ _ _, ?_,
    MoveAcct.ofNone (OwnsBlk.fixed_none L) (OwnsBlk.fixed_none L) (OwnsBlk.fixed_none L)
      (fun id ho => absurd ho (OwnsBlk.fixed_none L id))⟩
  · exact VRepW.fixedZero L (ws_fst _ _ _ _ _ hcl hne) ⟨Nat.zero_le _, hc.ok.2.1, hc.ok.2.2⟩ hn rfl
  · exact VRepW.fixedZero L (ws_snd _ _ _ _ _ (by simpa using hdl)) ⟨Nat.zero_le _, hd.ok.2.1, hd.ok.2.2⟩ hn rfl
  · intro id hid; rw [regionOf_fixed L c w1] at hid; cases hid

theorem swapSame_fixed_zero {cfg : Cfg} (L : FixedLaws cfg.ops) (ML : FixedMoveLaws cfg.ops) (hn : cfg.n = 0)
    (m : Mem α) (c d : Nat) (xs ys : List α) (wc wd : VB) (hne : c ≠ d)
    (hc : VRepW cfg (FOkG cfg.ops.kMax cfg.n) c m xs wc) (hd : VRepW cfg (FOkG cfg.ops.kMax cfg.n) d m ys wd) :
    Post (swapSame cfg c d) m (SwapPost cfg (FOkG cfg.ops.kMax cfg.n) c d m xs ys) := by
  have hcl : c < m.ws.length := Cross.getElem?_lt hc.ws
  have hdl : d < m.ws.length := Cross.getElem?_lt hd.ws
  have hx := hc.fixedNil L hn
  have hy := hd.fixedNil L hn
  subst hx; subst hy
  have hszc : wc.size = 0 := by rw [← L.size_eq]; exact hc.size
  have hszd : wd.size = 0 := by rw [← L.size_eq]; exact hd.size
  unfold swapSame
  rw [if_pos hne]
  refine Post.bind (getW_post m c wc hc.ws) ?_ (by okerr)
  rintro w1 m1 ⟨hw1, rfl⟩; injection hw1 with hw1; subst hw1
  refine Post.bind (getW_post _ d wd hd.ws) ?_ (by okerr)
  rintro w2 m1 ⟨hw2, rfl⟩; injection hw2 with hw2; subst hw2
  rw [ML.swapImpl]
  dsimp only
  simp only [interpAll, interp_swapDeep, hszc, hszd]
  refine Post.bind (post_then_pure (swapDeep_zero_post m1 _ _)) ?_ (by okerr)
  rintro _ m3 ⟨_, rfl⟩
  refine Post.mono (commit2_post m3 c d _ _) ?_
  rintro res m4 ⟨hr, rfl⟩
  refine ⟨hr, ⟨w1.capa, 0, w1.dyn⟩, ⟨w2.capa, 0, w2.dyn⟩, ?_, ?_, Frame2.words m3 _ _ _,
    fun id => ⟨fun ho => absurd ho (OwnsBlk.fixed_none L id), fun ho => absurd ho (OwnsBlk.fixed_none L id)⟩,
    fun id => ⟨fun ho => absurd ho (OwnsBlk.fixed_none L id), fun ho => absurd ho (OwnsBlk.fixed_none L id)⟩⟩
  · exact VRepW.fixedZero L (ws_fst _ _ _ _ _ hcl hne) ⟨Nat.zero_le _, hc.ok.2.1, hc.ok.2.2⟩ hn rfl
  · exact VRepW.fixedZero L (ws_snd _ _ _ _ _ (by simpa using hdl)) ⟨Nat.zero_le _, hd.ok.2.1, hd.ok.2.2⟩ hn rfl

/-! #### all capacities -/

/-- `FixedCapacityVector(FixedCapacityVector&& d)` into pool slot `c` (whose inline storage is raw): the elements are relocated
    (`uninitialized_relocate_n`) from the inline storage of `d` into that of `c`; `d` is left empty; no exception -/
theorem moveConstruct_fixed {cfg : Cfg} (L : FixedLaws cfg.ops) (ML : FixedMoveLaws cfg.ops)
    (m : Mem α) (c d : Nat) (ys : List α) (wd : VB) (hne : c ≠ d) (hc : c < m.ws.length)
    (hraw : m.buf (.inl c) = some (raws cfg.n)) (hd : VRepW cfg (FOkG cfg.ops.kMax cfg.n) d m ys wd) :
    Post (moveConstruct cfg c d) m (MoveCtorPost cfg (FOkG cfg.ops.kMax cfg.n) c d m ys wd) := by
  rcases Nat.eq_zero_or_pos cfg.n with hn | hN
  · exact moveConstruct_fixed_zero L ML hn m c d ys wd hne hc hd
  · exact moveConstruct_fixed_pos L ML hN m c d ys wd hne hc hraw hd

/-- `c = std::move(d)` for two distinct FixedCapacityVectors: `move_n` from the inline storage of `d` onto that of `c`; `d` is
    left empty; no exception -/
theorem moveAssign_fixed {cfg : Cfg} (L : FixedLaws cfg.ops) (ML : FixedMoveLaws cfg.ops)
    (m : Mem α) (c d : Nat) (xs ys : List α) (wc wd : VB) (hne : c ≠ d)
    (hc : VRepW cfg (FOkG cfg.ops.kMax cfg.n) c m xs wc) (hd : VRepW cfg (FOkG cfg.ops.kMax cfg.n) d m ys wd) :
    Post (moveAssign cfg c d) m (MoveAssignPost cfg (FOkG cfg.ops.kMax cfg.n) c d m ys wc) := by
  rcases Nat.eq_zero_or_pos cfg.n with hn | hN
  · exact moveAssign_fixed_zero L ML hn m c d xs ys wc wd hne hc hd
  · exact moveAssign_fixed_pos L ML hN m c d xs ys wc wd hne hc hd

/-- `c.swap(d)` for two distinct FixedCapacityVectors: the elements are exchanged by `swapDeep`; no exception -/
theorem swapSame_fixed {cfg : Cfg} (L : FixedLaws cfg.ops) (ML : FixedMoveLaws cfg.ops)
    (m : Mem α) (c d : Nat) (xs ys : List α) (wc wd : VB) (hne : c ≠ d)
    (hc : VRepW cfg (FOkG cfg.ops.kMax cfg.n) c m xs wc) (hd : VRepW cfg (FOkG cfg.ops.kMax cfg.n) d m ys wd) :
    Post (swapSame cfg c d) m (SwapPost cfg (FOkG cfg.ops.kMax cfg.n) c d m xs ys) := by
  rcases Nat.eq_zero_or_pos cfg.n with hn | hN
  · exact swapSame_fixed_zero L ML hn m c d xs ys wc wd hne hc hd
  · exact swapSame_fixed_pos L ML hN m c d xs ys wc wd hne hc hd

end AmcVerif
