import AmcVerif.Model.FlatSetCore
namespace AmcVerif.FS
variable {α : Type} {lt : α → α → Bool}

theorem SWO.asymm (h : SWO lt) {a b : α} (hab : lt a b = true) : lt b a = false := by
  cases hba : lt b a with
  | false => rfl
  | true => have := h.trans a b a hab hba; rw [h.irrefl] at this; cases this

/-- a < b and b ≡ c (i.e. ¬ c < b) gives a < c -/
theorem SWO.lt_of_lt_of_not_lt (h : SWO lt) {a b c : α} (hab : lt a b = true) (hcb : lt c b = false) :
    lt a c = true := by
  rcases h.cotrans a c b hab with h1 | h1
  · exact h1
  · rw [hcb] at h1; cases h1

theorem sorted_get (hs : Sorted lt l) {j k : Nat} {x y : α} (hjk : j < k)
    (hx : l[j]? = some x) (hy : l[k]? = some y) : lt x y = true := by
  induction l generalizing j k with
  | nil => simp at hx
  | cons a t ih =>
    unfold Sorted at hs
    rw [List.pairwise_cons] at hs
    cases j with
    | zero =>
      cases k with
      | zero => omega
      | succ k' =>
        simp at hx hy; subst hx
        exact hs.1 y (List.mem_of_getElem? hy)
    | succ j' =>
      cases k with
      | zero => omega
      | succ k' => simp at hx hy; exact ih hs.2 (by omega) hx hy

/-- characterisation of the lower bound: first index whose element is not below v -/
theorem lowerIdx_eq (l : List α) (v : α) (i : Nat)
    (hlt : ∀ j x, j < i → l[j]? = some x → lt x v = true) (hlen : i ≤ l.length)
    (hge : ∀ x, l[i]? = some x → lt x v = false) : lowerIdx lt l v = i := by
  induction l generalizing i with
  | nil => simp at hlen; subst hlen; simp [lowerIdx]
  | cons a t ih =>
    cases i with
    | zero => have := hge a (by simp); simp [lowerIdx, List.takeWhile, this]
    | succ i' =>
      have ha : lt a v = true := hlt 0 a (by omega) (by simp)
      have := ih i' (fun j x hj hx => hlt (j+1) x (by omega) (by simpa using hx))
        (by simpa using hlen) (fun x hx => hge x (by simpa using hx))
      simp only [lowerIdx] at this ⊢
      simp [List.takeWhile, ha, this]

theorem lowerIdx_le (l : List α) (v : α) : lowerIdx lt l v ≤ l.length := by
  induction l with
  | nil => simp [lowerIdx]
  | cons a t ih =>
    simp only [lowerIdx, List.takeWhile] at ih ⊢
    cases ha : lt a v <;> simp [ha] <;> omega

theorem lowerIdx_below (l : List α) (v : α) : ∀ j x, j < lowerIdx lt l v → l[j]? = some x → lt x v = true := by
  induction l with
  | nil => intro j x hj; simp [lowerIdx] at hj
  | cons a t ih =>
    intro j x hj hx
    simp only [lowerIdx, List.takeWhile] at hj
    cases ha : lt a v with
    | false => simp [ha] at hj
    | true =>
      simp [ha] at hj
      cases j with
      | zero => simp at hx; subst hx; exact ha
      | succ j' => exact ih j' x (by simpa [lowerIdx] using hj) (by simpa using hx)

theorem lowerIdx_at (l : List α) (v : α) : ∀ x, l[lowerIdx lt l v]? = some x → lt x v = false := by
  induction l with
  | nil => intro x hx; simp at hx
  | cons a t ih =>
    intro x hx
    cases ha : lt a v with
    | false => simp [lowerIdx, List.takeWhile, ha] at hx; subst hx; exact ha
    | true =>
      simp [lowerIdx, List.takeWhile, ha] at hx
      exact ih x (by simpa [lowerIdx] using hx)

/-- in a sorted list everything before an element below v is below v -/
theorem below_of_sorted (hswo : SWO lt) (hs : Sorted lt l) {k : Nat} {y : α} (hy : l[k]? = some y)
    (hyv : lt y v = true) : ∀ j x, j < k + 1 → l[j]? = some x → lt x v = true := by
  intro j x hj hx
  by_cases hjk : j = k
  · subst hjk; rw [hy] at hx; cases hx; exact hyv
  · exact hswo.trans _ _ _ (sorted_get hs (by omega) hx hy) hyv

/-- in a sorted list everything strictly before an element equivalent-or-above v … when that element is ≡ v -/
theorem below_of_sorted_equiv (hswo : SWO lt) (hs : Sorted lt l) {k : Nat} {y : α} (hy : l[k]? = some y)
    (hvy : lt v y = false) : ∀ j x, j < k → l[j]? = some x → lt x v = true := by
  intro j x hj hx
  exact hswo.lt_of_lt_of_not_lt (sorted_get hs hj hx hy) hvy
end AmcVerif.FS
