import AmcVerif.Lemmas.VecOpsC
/-! Container-level theorems, continued.

* Part 1: `shrink_to_fit` (`shrinkToFit_spec`, `shrinkToFit_post`, `shrinkToFit_strong`, `shrinkToFit_capacity`) from the laws
  `ShrinkLaws` of the generated `shrinkImpl` (instantiated per size type in `Bridge/ShrinkLaws*.lean`).
* Part 2: `assign(first,last)` / `assign(count,v)` for trivially copyable element types (`cat = .tc`) when no exception is
  scheduled (`fuel = none`): `assignRange_tc_post`, `assignFill_tc_post` (strong guarantee: the only exception is a length
  error of the capacity adjustment). 2a: `FuelInv p` (`p` leaves `fuel = none` alone) for every primitive, helper, allocator
  call, `interp` of every effect, `grow`, `adjustCapacity(Ref)` (tactic `fuel_auto`); 2b: the copy loops over arbitrary slots
  (`uninitCopyN_go_tc`, `copyN_tc`, `uninitFillRef_go_tc`, `fillRef_tc`); 2c: the container-level theorems.

One adjustment of the planned interface: when a `SmallVector` in heap state shrinks back into its inline storage, the inline
region `.inl c` is rewritten although it is not "the region of the container" before the call, so the frame `FrameL cfg c
(regionOf cfg c w)` of `StrongPost` is false in that case. `FrameLI` is `FrameL` with the inline storage of the container itself
exempted; `shrinkToFit_post` states `StrongPostI` (= `StrongPost` with `FrameLI`) and `shrinkToFit_strong` the literal
`StrongPost` whenever the container does not move into its inline storage (always for `amc::vector` / `FixedCapacityVector`). -/
namespace AmcVerif
variable {α β : Type}

/-! ### Part 1: `shrink_to_fit` -/

/-- `FrameG` with the inline storage of container `c` itself exempted from the frame -/
structure FrameGI (c : Nat) (r : Region) (m m' : Mem α) : Prop where
  cat : m'.cat = m.cat
  hr : m'.hasRealloc = m.hasRealloc
  wsLen : m'.ws.length = m.ws.length
  wsOther : ∀ c', c' ≠ c → m'.ws[c']? = m.ws[c']?
  nid : m.nextId ≤ m'.nextId
  fresh : Fresh m → Fresh m'
  bufOther : ∀ r', r' ≠ r → r' ≠ .inl c → (∀ id, r' = .blk id → id < m.nextId) → m'.buf r' = m.buf r'
  cntOther : ∀ id, Region.blk id ≠ r → id < m.nextId → m'.cnt id = m.cnt id

/-- `FrameL` with the inline storage of container `c` itself exempted from the frame -/
structure FrameLI (cfg : Cfg) (c : Nat) (r : Region) (m m' : Mem α) : Prop extends FrameGI c r m m' where
  noLeak : NoLeak cfg c m m'

theorem FrameL.toI {cfg : Cfg} {c : Nat} {r : Region} {m m' : Mem α} (h : FrameL cfg c r m m') : FrameLI cfg c r m m' :=
  ⟨⟨h.cat, h.hr, h.wsLen, h.wsOther, h.nid, h.fresh, fun r' h1 _ h3 => h.bufOther r' h1 h3, h.cntOther⟩, h.noLeak⟩

/-- the full frame is recovered when the inline storage of the container is unchanged -/
theorem FrameLI.toL {cfg : Cfg} {c : Nat} {r : Region} {m m' : Mem α} (h : FrameLI cfg c r m m')
    (hinl : m'.buf (.inl c) = m.buf (.inl c)) : FrameL cfg c r m m' :=
  ⟨⟨h.cat, h.hr, h.wsLen, h.wsOther, h.nid, h.fresh, fun r' h1 h3 => by
      by_cases h2 : r' = .inl c
      · rw [h2]; exact hinl
      · exact h.bufOther r' h1 h2 h3, h.cntOther⟩, h.noLeak⟩

/-- `StrongPost` with the frame `FrameLI` -/
def StrongPostI (cfg : Cfg) (Ok : VB → Prop) (c : Nat) (m : Mem α) (w : VB) (xs xs' : List α) (okv : β) :
    Except Stop β → Mem α → Prop :=
  fun res m' => ((res = .ok okv ∧ VRep cfg Ok c m' xs') ∨ (∃ e, res = .error (.exc e) ∧ VRep cfg Ok c m' xs))
    ∧ FrameLI cfg c (regionOf cfg c w) m m'

theorem StrongPost.toI {cfg : Cfg} {Ok : VB → Prop} {c : Nat} {m : Mem α} {w : VB} {xs xs' : List α} {okv : β}
    {res : Except Stop β} {m' : Mem α} (h : StrongPost cfg Ok c m w xs xs' okv res m') :
    StrongPostI cfg Ok c m w xs xs' okv res m' := ⟨h.1, h.2.toI⟩

/-- the four things `shrinkImpl` can do on words `t` (result words `w'`, effects `effs`; `fresh` the identifier of a new block):
    nothing (FixedCapacityVector; SmallVector in inline state; size = capacity), back into the inline storage (SmallVector in
    heap state whose elements fit inline: relocate, return the block with its capacity — or a heap state without storage),
    reallocate to a block of exactly `size` elements (SmallVector additionally overlays the pointer), free the block
    (`amc::vector` of size 0) -/
def ShrinkCase (cfg : Cfg) (Ok : VB → Prop) (t : VB) (fresh : Nat) (w' : VB) (effs : List Eff) : Prop :=
  (effs = [] ∧ Ok w' ∧ cfg.ops.begin w' = cfg.ops.begin t ∧ cfg.ops.capacity w' = cfg.ops.capacity t
      ∧ cfg.ops.size w' = cfg.ops.size t)
  ∨ (cfg.flavour = .small ∧ cfg.ops.size t ≤ cfg.n ∧ Ok w' ∧ cfg.ops.begin w' = .inl 0 ∧ cfg.ops.capacity w' = cfg.n
      ∧ cfg.ops.size w' = cfg.ops.size t
      ∧ ((∃ id, cfg.ops.begin t = .blk id ∧ 0 < cfg.ops.capacity t
            ∧ effs = [Eff.relocN (.blk id) (cfg.ops.size t) (.inl 0), Eff.dealloc (.blk id) (cfg.ops.capacity t)])
          ∨ (cfg.ops.begin t = .null ∧ cfg.ops.capacity t = 0
            ∧ effs = [Eff.relocN .null (cfg.ops.size t) (.inl 0), Eff.dealloc .null 0])))
  ∨ (∃ id, cfg.ops.begin t = .blk id ∧ 0 < cfg.ops.size t ∧ cfg.ops.size t < cfg.ops.capacity t ∧ Ok w'
      ∧ cfg.ops.begin w' = .blk fresh ∧ cfg.ops.capacity w' = cfg.ops.size t ∧ cfg.ops.size w' = cfg.ops.size t
      ∧ effs = Eff.realloc (.blk id) (cfg.ops.capacity t) (cfg.ops.size t) (cfg.ops.size t) (.blk fresh)
                :: (if cfg.flavour = .small then [Eff.setDyn 0] else []))
  ∨ (∃ id, cfg.ops.begin t = .blk id ∧ 0 < cfg.ops.capacity t ∧ cfg.ops.size t = 0 ∧ Ok w'
      ∧ cfg.ops.capacity w' = 0 ∧ cfg.ops.size w' = 0 ∧ effs = [Eff.dealloc (.blk id) (cfg.ops.capacity t)])

/-- the capacity after a successful `shrink_to_fit` -/
def shrinkCap (cfg : Cfg) (t : VB) : Nat :=
  match cfg.flavour with
  | .small => max (cfg.ops.size t) cfg.n
  | .std => cfg.ops.size t
  | .fixed => cfg.ops.capacity t

/-- the laws of the generated `shrinkImpl`, relative to the invariant `Ok` of the words; `P` is what `Ok` asks of a new block
    identifier (`fun _ => True` for `DOkW` / `SOkW` / `FOk`, `fun id => 0 < id` for `DOk` / `SOk`) -/
structure ShrinkLawsP (cfg : Cfg) (Ok : VB → Prop) (P : Nat → Prop) : Prop where
  cases : ∀ t, Ok t → ∀ fresh, P fresh →
    ShrinkCase cfg Ok t fresh (cfg.ops.shrinkImpl t cfg.n fresh).1 (cfg.ops.shrinkImpl t cfg.n fresh).2
  cap : ∀ t, Ok t → ∀ fresh, cfg.ops.capacity (cfg.ops.shrinkImpl t cfg.n fresh).1 = shrinkCap cfg t

abbrev ShrinkLaws (cfg : Cfg) (Ok : VB → Prop) : Prop := ShrinkLawsP cfg Ok (fun _ => True)

/-- the frame of a step that returns the block `id` container `c` owned, may rewrite the inline storage of `c`, installs words
    `w'` that own no block, and touches nothing else -/
theorem FrameLI.release {cfg : Cfg} {c : Nat} {m0 m' : Mem α} {w w' : VB} {id : Nat}
    (hws0 : m0.ws[c]? = some w) (hreg : regionOf cfg c w = .blk id) (hws' : m'.ws = m0.ws.set c w')
    (hown' : ∀ j, regionOf cfg c w' = .blk j → cfg.ops.capacity w' = 0)
    (hbuf : ∀ r', r' ≠ .blk id → r' ≠ .inl c → m'.buf r' = m0.buf r') (hgone : m'.buf (.blk id) = none)
    (hcnt : ∀ j, j ≠ id → j < m0.nextId → m'.cnt j = m0.cnt j)
    (hcat : m'.cat = m0.cat) (hhr : m'.hasRealloc = m0.hasRealloc) (hnid : m0.nextId ≤ m'.nextId) :
    FrameLI cfg c (.blk id) m0 m' := by
  have hc : c < m0.ws.length := Cross.getElem?_lt hws0
  have hblk : ∀ j, (m'.buf (.blk j)).isSome → j ≠ id ∧ m'.buf (.blk j) = m0.buf (.blk j) := by
    intro j hj
    have hne : j ≠ id := by rintro rfl; rw [hgone] at hj; cases hj
    exact ⟨hne, hbuf _ (by intro e; injection e with e; exact hne e) (by intro e; cases e)⟩
  refine ⟨⟨hcat, hhr, by rw [hws']; simp, fun c' hc' => by rw [hws']; simp [List.getElem?_set_ne (Ne.symm hc')], hnid, ?_, ?_,
    fun j hne hlt => hcnt j (fun e => hne (by rw [e])) hlt⟩, ?_⟩
  · intro hf j hj
    obtain ⟨_, e⟩ := hblk j hj
    rw [e] at hj
    exact Nat.lt_of_lt_of_le (hf j hj) hnid
  · intro r' h1 h2 _; exact hbuf r' h1 h2
  · intro j hj
    obtain ⟨hne, e⟩ := hblk j hj
    refine Or.inl ⟨by rw [← e]; exact hj, ?_, ?_⟩
    · intro ho
      have := ((OwnsBlk.iff hws0 j).mp ho).1
      rw [hreg] at this; injection this with this; exact hne this.symm
    · intro ho
      have ho' := (OwnsBlk.iff (w := w') (by rw [hws']; simp [hc]) j).mp ho
      have := hown' j ho'.1; omega

namespace ShrinkAux

theorem uninitRelocN_zero (m : Mem α) (src dst : Addr) : runM (uninitRelocN src 0 dst) m = (.ok (), m) := by
  by_cases hc : m.cat = .ntr
  · rw [Cross.uninitRelocN_ntr m hc]; rfl
  · rw [Cross.uninitRelocN_tr m hc, Cross.relocBitwise_zero]

theorem uninitRelocN_zero_post (m : Mem α) (src dst : Addr) :
    Post (uninitRelocN src 0 dst) m (fun res m' => res = .ok () ∧ m' = m) := by
  unfold Post; rw [uninitRelocN_zero]; exact ⟨rfl, rfl⟩

theorem interp_dealloc (c0 c1 : Nat) (p : PtrV) (n : Nat) : (interp c0 c1 (.dealloc p n) : M α Unit) = deallocBlock p n := rfl

theorem all_raw (n : Nat) : ∀ s ∈ (raws n : List (Slot α)), s = .raw := fun _ hs => List.eq_of_mem_replicate hs

end ShrinkAux
open ShrinkAux AllocAux

/-- outcome of `shrink_to_fit` on a container holding `xs` in words `w`: the container holds `xs` in the words `shrinkImpl`
    computed; or `bad_alloc` and the container is exactly as before (same words, same buffers); nothing else is touched and
    nothing is leaked; the inline storage of the container is unchanged unless the container moved into it -/
def ShrinkPost (cfg : Cfg) (Ok : VB → Prop) (c : Nat) (m : Mem α) (xs : List α) (w : VB) : Except Stop Unit → Mem α → Prop :=
  fun res m' =>
    ((res = .ok () ∧ VRepW cfg Ok c m' xs (cfg.ops.shrinkImpl w cfg.n m.nextId).1) ∨
     (res = .error (.exc .badAlloc) ∧ VRepW cfg Ok c m' xs w ∧ m'.buf = m.buf))
    ∧ FrameLI cfg c (regionOf cfg c w) m m'
    ∧ (m'.buf (.inl c) = m.buf (.inl c) ∨
        (cfg.flavour = .small ∧ regionOf cfg c w ≠ .inl c ∧ regionOf cfg c (cfg.ops.shrinkImpl w cfg.n m.nextId).1 = .inl c))

/-- `shrink_to_fit()`: the detailed specification -/
theorem shrinkToFit_spec {cfg : Cfg} {Ok : VB → Prop} {P : Nat → Prop} (S : ShrinkLawsP cfg Ok P) (m : Mem α) (c : Nat)
    (xs : List α) (w : VB) (h : VRepW cfg Ok c m xs w) (hf : Fresh m) (hP : P m.nextId) :
    Post (shrinkToFit cfg c) m (ShrinkPost cfg Ok c m xs w) := by
  unfold shrinkToFit
  refine Post.bind (getW_post m c w h.ws) ?_ (by okerr)
  rintro w0 m0 ⟨hw0, rfl⟩; injection hw0 with hw0; subst hw0
  refine Post.bind (takeFresh_post m0) ?_ (by okerr)
  rintro fr m1 ⟨hfr, rfl⟩; injection hfr with hfr; subst hfr
  have hbm := Bumped.take m0
  generalize ({ m0 with nextId := m0.nextId + 1 } : Mem α) = m1 at hbm ⊢
  have hcase := S.cases w0 h.ok m0.nextId hP
  unfold ShrinkPost
  rcases hres : cfg.ops.shrinkImpl w0 cfg.n m0.nextId with ⟨w', effs⟩
  rw [hres] at hcase
  dsimp only at hcase ⊢
  have hwsc : c < m0.ws.length := Cross.getElem?_lt h.ws
  have hle := h.le
  have hsz := h.size
  rcases hcase with ⟨heff, hok, hbeg, hcap, hsz'⟩ | ⟨hfl, hfit, hok, hbeg, hcap, hsz', hsub⟩
      | ⟨id, hbeg0, hpos, hlt, hok, hbeg, hcap, hsz', heff⟩ | ⟨id, hbeg0, hpos, hz, hok, hcap, hsz', heff⟩
  · -- nothing to do
    subst heff
    simp only [interpAll]
    refine Post.bind (Q1 := fun res m' => res = .ok () ∧ m' = m1) ⟨rfl, rfl⟩ ?_ (by okerr)
    rintro _ m2 ⟨_, rfl⟩
    refine Post.mono (setW_post m2 c _) ?_
    rintro res m3 ⟨hr, rfl⟩
    have hv1 := hbm.vrep h
    refine ⟨Or.inl ⟨hr, VRepW.commit hv1.store hok hbeg hcap (by rw [hsz', hsz])⟩,
      ((hbm.frameL cfg c _).withWs w' hv1.ws hbeg hcap).toI, Or.inl (by rw [withWs_buf, hbm.buf])⟩
  · -- back into the inline storage
    have hreg' : regionOf cfg c w' = .inl c := by unfold regionOf; rw [hbeg]; rfl
    rw [hsz] at hfit
    rcases hsub with ⟨id, hbeg0, hpos, heff⟩ | ⟨hbeg0, hcap0, heff⟩
    · have hreg : regionOf cfg c w0 = .blk id := regionOf_blk cfg c w0 id hbeg0
      have hner : Region.blk id ≠ Region.inl c := by intro e; cases e
      have hb0 : m0.buf (.blk id) = some (lives xs ++ raws (cfg.ops.capacity w0 - xs.length)) := by
        rcases h.buf with h0 | hb
        · omega
        · rw [hreg] at hb; exact hb
      have hc0 : m0.cnt id = some (cfg.ops.capacity w0) := h.store.cnt id hreg (by omega)
      have hinl0 : m0.buf (.inl c) = some (raws cfg.n) := h.store.inl (by rw [hreg]; exact hner) hfl
      subst heff
      simp only [interpAll, interp_relocN, interp_dealloc, resolve, hsz]
      have h2 : m1.buf (.blk id) = some ([] ++ lives xs ++ raws (cfg.ops.capacity w0 - xs.length)) := by
        rw [hbm.buf]; simpa using hb0
      have h2' : m1.buf (.inl c) = some ([] ++ raws xs.length ++ raws (cfg.n - xs.length)) := by
        rw [hbm.buf, hinl0, List.nil_append, raws_append]; congr 2; omega
      refine Post.bind (Q1 := fun res m4 => res = .ok () ∧ KeepA m1 m4 ∧ (∀ j, j ≠ id → m4.cnt j = m1.cnt j) ∧
          m4.buf = View.unset (View.set m1.buf (.inl c) (lives xs ++ raws (cfg.n - xs.length))) (.blk id)) ?_ ?_
          (by rintro e m4 ⟨he, _⟩; cases he)
      · refine Post.bind (relocAcross_post m1 (.blk id) (.inl c) hner [] _ [] _ xs h2 h2') ?_ (by okerr)
        rintro _ m3 ⟨_, hk3, hb3⟩
        have h3 : m3.buf (.blk id) = some (raws xs.length ++ raws (cfg.ops.capacity w0 - xs.length)) := by
          rw [hb3, View.set_other _ _ _ _ hner, View.set_same]; rfl
        have hc3 : m3.cnt id = some (cfg.ops.capacity w0) := by rw [hk3.cnt, hbm.cnt]; exact hc0
        refine Post.bind (deallocBlock_post m3 id _ _ h3 hc3 (Or.inl ?_)) ?_ (by rintro e m4 ⟨he, _⟩; cases he)
        · intro s hs; rw [raws_append] at hs; exact all_raw _ s hs
        · rintro _ m4 ⟨_, hf4⟩
          refine Post.pure ⟨rfl, hk3.toA.trans hf4.keep, fun j hj => by rw [hf4.cntOther j hj, hk3.cnt], ?_⟩
          rw [hf4.buf, hb3]
          funext r
          by_cases h1 : r = .blk id
          · subst h1; simp [View.unset]
          · by_cases h2 : r = .inl c
            · subst h2; simp [View.set, View.unset]
            · simp [View.set, View.unset, h1, h2]
      · rintro _ m4 ⟨_, hk4, hc4, hb4⟩
        refine Post.mono (setW_post m4 c _) ?_
        rintro res m5 ⟨hr, rfl⟩
        have hws4 : m4.ws = m0.ws := hk4.ws.trans hbm.ws
        refine ⟨Or.inl ⟨hr, ⟨⟨by simp [hws4, hwsc], hok, by rw [hcap]; simp; omega, Or.inr ?_, ?_, ?_⟩, by rw [hsz', hsz]⟩⟩, ?_,
          Or.inr ⟨hfl, by rw [hreg]; exact hner, hreg'⟩⟩
        · rw [withWs_buf, hreg', hb4, View.unset_other _ _ _ (Ne.symm hner), View.set_same, hcap]
        · intro j hj; rw [hreg'] at hj; cases hj
        · intro hne; exact absurd hreg' hne
        · rw [hreg]
          refine FrameLI.release h.ws hreg (by show m4.ws.set c w' = _; rw [hws4]) (fun j hj => by rw [hreg'] at hj; cases hj)
            ?_ (by rw [withWs_buf, hb4, View.unset_same])
            (fun j hj _ => (withWs_cnt _ _ _).trans ((hc4 j hj).trans (hbm.cnt j))) (hk4.cat.trans hbm.cat) (hk4.hr.trans hbm.hr)
            (by show m0.nextId ≤ m4.nextId; rw [hk4.nid, hbm.nid]; omega)
          intro r' h1 h2
          rw [withWs_buf, hb4, View.unset_other _ _ _ h1, View.set_other _ _ _ _ h2, hbm.buf]
    · -- a heap state without storage: nothing to relocate, `deallocate(nullptr, 0)`
      have hx : xs = [] := List.eq_nil_of_length_eq_zero (by omega)
      subst hx
      have hreg : regionOf cfg c w0 = .blk 0 := by unfold regionOf; rw [hbeg0]; rfl
      have hner : Region.blk 0 ≠ Region.inl c := by intro e; cases e
      have hinl0 : m0.buf (.inl c) = some (raws cfg.n) := h.store.inl (by rw [hreg]; exact hner) hfl
      subst heff
      simp only [interpAll, interp_relocN, interp_dealloc, resolve, hsz, List.length_nil]
      refine Post.bind (Q1 := fun res m4 => res = .ok () ∧ Same m1 m4) ?_ ?_ (by rintro e m4 ⟨he, _⟩; cases he)
      · refine Post.bind (uninitRelocN_zero_post m1 _ _) ?_ (by okerr)
        rintro _ m3 ⟨_, rfl⟩
        exact post_then_pure (deallocNull_post m3)
      · rintro _ m4 ⟨_, hs4⟩
        refine Post.mono (setW_post m4 c _) ?_
        rintro res m5 ⟨hr, rfl⟩
        have hws4 : m4.ws = m0.ws := hs4.2.ws.trans hbm.ws
        have hbuf4 : m4.buf = m0.buf := hs4.1.trans hbm.buf
        have hws5 : ({ m4 with ws := m4.ws.set c w' } : Mem α).ws[c]? = some w' := by simp [hws4, hwsc]
        refine ⟨Or.inl ⟨hr, ⟨⟨hws5, hok, by rw [hcap]; simp [lives], Or.inr ?_, ?_, ?_⟩, by rw [hsz', hsz]⟩⟩, ?_,
          Or.inl (by rw [withWs_buf, hbuf4])⟩
        · rw [withWs_buf, hreg', hbuf4, hinl0, hcap]; simp [lives]
        · intro j hj; rw [hreg'] at hj; cases hj
        · intro hne; exact absurd hreg' hne
        · refine ⟨⟨hs4.2.cat.trans hbm.cat, hs4.2.hr.trans hbm.hr, by simp [hws4],
            fun c' hc' => by simp [hws4, List.getElem?_set_ne (Ne.symm hc')],
            by show m0.nextId ≤ m4.nextId; rw [hs4.2.nid, hbm.nid]; omega, ?_, fun r' _ _ _ => by rw [withWs_buf, hbuf4],
            fun j _ _ => (withWs_cnt _ _ _).trans ((hs4.2.cnt j).trans (hbm.cnt j))⟩, ?_⟩
          · intro hf0 j hj
            rw [withWs_buf, hbuf4] at hj
            show j < m4.nextId
            rw [hs4.2.nid, hbm.nid]; exact Nat.lt_succ_of_lt (hf0 j hj)
          · refine (NoLeak.refl cfg c m0).step (fun j hj => by rw [withWs_buf, hbuf4] at hj; exact hj) ?_
            intro j
            rw [OwnsBlk.iff hws5, OwnsBlk.iff h.ws, hreg']
            constructor
            · rintro ⟨e, _⟩; cases e
            · rintro ⟨_, hp⟩; omega
  · -- reallocate to a block of exactly `size` elements
    have hreg : regionOf cfg c w0 = .blk id := regionOf_blk cfg c w0 id hbeg0
    have hb0 : m0.buf (.blk id) = some (lives xs ++ raws (cfg.ops.capacity w0 - xs.length)) := by
      rcases h.buf with h0 | hb
      · omega
      · rw [hreg] at hb; exact hb
    have hc0 : m0.cnt id = some (cfg.ops.capacity w0) := h.store.cnt id hreg (by omega)
    have hne : m0.nextId ≠ id := by
      have := hf id (by rw [hb0]; rfl)
      omega
    have hinl0 : cfg.flavour = .small → m0.buf (.inl c) = some (raws cfg.n) :=
      fun hfl => h.store.inl (by rw [hreg]; intro e; cases e) hfl
    subst heff
    simp only [interpAll, interp_realloc, hsz]
    rw [hsz] at hcap hpos hlt
    refine Post.bind (Q1 := fun res m3 =>
        (res = .ok () ∧ Moved m1 m3 id m0.nextId xs.length (lives xs ++ raws (xs.length - xs.length)))
        ∨ (res = .error (.exc .badAlloc) ∧ Same m1 m3)) ?_ ?_ ?_
    · refine Post.bind (reallocBlk_post m1 id m0.nextId (cfg.ops.capacity w0) xs.length xs (by rw [hbm.buf]; exact hb0)
        (by rw [hbm.cnt]; exact hc0) hle (Nat.le_refl _) hne) ?_ ?_
      · rintro _ m2 hq
        rcases hq with ⟨_, hmv⟩ | ⟨he, _⟩
        · by_cases hfl : cfg.flavour = .small
          · simp only [hfl, ↓reduceIte, interpAll]
            have h2 : m2.buf (.inl c) = some (raws cfg.n) := by
              rw [hmv.buf, View.set_other _ _ _ _ (by intro e; cases e), View.unset_other _ _ _ (by intro e; cases e), hbm.buf]
              exact hinl0 hfl
            refine Post.bind (setDyn_post m2 c c _ h2 (Or.inl (all_raw _))) ?_ (by okerr)
            rintro _ m3 ⟨_, rfl⟩
            exact Post.pure (Or.inl ⟨rfl, hmv⟩)
          · simp only [hfl, ↓reduceIte, interpAll]
            exact Post.pure (Or.inl ⟨rfl, hmv⟩)
        · cases he
      · rintro e m2 hq
        rcases hq with ⟨he, _⟩ | ⟨he, hs⟩
        · cases he
        · exact Or.inr ⟨he, hs⟩
    · rintro _ m3 hq
      rcases hq with ⟨_, hmv⟩ | ⟨he, _⟩
      · refine Post.mono (setW_post m3 c _) ?_
        rintro res m4 ⟨hr, rfl⟩; subst hr
        have hinl3 : cfg.flavour = .small → m3.buf (.inl c) = some (raws cfg.n) := by
          intro hfl
          rw [hmv.buf, View.set_other _ _ _ _ (by intro e; cases e), View.unset_other _ _ _ (by intro e; cases e), hbm.buf]
          exact hinl0 hfl
        have hg : GrowPost cfg Ok c m0 xs w0 0 (.ok ()) ({ m3 with ws := m3.ws.set c w' } : Mem α) := by
          refine GrowPost.finish (View.unset m0.buf (.blk id)) h.ws (by rw [hmv.buf, hbm.buf]) ?_ ?_ ?_ hmv.cnt
            (fun j hne hlt => (hmv.cntOther j (fun e => hne (by rw [hreg, e])) (Nat.ne_of_lt hlt)).trans (hbm.cnt j))
            (hmv.keep.cat.trans hbm.cat) (hmv.keep.ws.trans hbm.ws) (hmv.keep.hr.trans hbm.hr) (hmv.keep.nid.trans hbm.nid)
            hok hcap (by rw [hsz', hsz]) hbeg (Nat.le_refl _) (Nat.zero_le _) hpos hinl3
          · intro r' hr'; rw [hreg] at hr'; exact View.unset_other _ _ _ hr'
          · intro j hj
            by_cases e : j = id
            · subst e; rw [View.unset_same] at hj; cases hj
            · rwa [View.unset_other _ _ _ (by intro e'; injection e' with e'; exact e e')] at hj
          · intro j hj _
            rw [hreg] at hj; injection hj with hj; subst hj
            exact View.unset_same _ _
        obtain ⟨hq, hfr⟩ := hg
        rcases hq with ⟨_, w'', hgr⟩ | ⟨e, he, _⟩
        · have hw'' : w'' = w' := by
            have h1 := hgr.rep.ws
            have h2 : ({ m3 with ws := m3.ws.set c w' } : Mem α).ws[c]? = some w' := by
              simp [hmv.keep.ws.trans hbm.ws, hwsc]
            rw [h2] at h1; injection h1 with h1; exact h1.symm
          subst hw''
          exact ⟨Or.inl ⟨rfl, hgr.rep⟩, hfr.toI, Or.inl (hfr.bufOther _ (by rw [hreg]; intro e; cases e) (fun _ e => by cases e))⟩
        · cases he
      · cases he
    · rintro e m3 hq
      rcases hq with ⟨he, _⟩ | ⟨he, hs⟩
      · cases he
      · injection he with he; subst he
        have hb := hbm.same hs
        exact ⟨Or.inr ⟨rfl, hb.vrep h, hb.buf⟩, (hb.frameL cfg c _).toI, Or.inl (by rw [hb.buf])⟩
  · -- no elements: free the block
    have hx : xs = [] := List.eq_nil_of_length_eq_zero (by omega)
    subst hx
    have hreg : regionOf cfg c w0 = .blk id := regionOf_blk cfg c w0 id hbeg0
    have hb0 : m0.buf (.blk id) = some (raws (cfg.ops.capacity w0)) := by
      rcases h.buf with h0 | hb
      · omega
      · rw [hreg] at hb; simpa [lives] using hb
    have hc0 : m0.cnt id = some (cfg.ops.capacity w0) := h.store.cnt id hreg (by omega)
    subst heff
    simp only [interpAll, interp_dealloc]
    refine Post.bind (post_then_pure (deallocBlock_post m1 id _ _ (by rw [hbm.buf]; exact hb0) (by rw [hbm.cnt]; exact hc0)
      (Or.inl (all_raw _)))) ?_ (by rintro e m4 ⟨he, _⟩; cases he)
    rintro _ m4 ⟨_, hf4⟩
    refine Post.mono (setW_post m4 c _) ?_
    rintro res m5 ⟨hr, rfl⟩
    have hws4 : m4.ws = m0.ws := hf4.keep.ws.trans hbm.ws
    have hinl4 : m4.buf (.inl c) = m0.buf (.inl c) := by
      rw [hf4.buf, View.unset_other _ _ _ (by intro e; cases e), hbm.buf]
    refine ⟨Or.inl ⟨hr, ⟨⟨by simp [hws4, hwsc], hok, by rw [hcap]; simp [lives], Or.inl hcap, ?_, ?_⟩, by rw [hsz']; rfl⟩⟩, ?_,
      Or.inl (by rw [withWs_buf]; exact hinl4)⟩
    · intro j _ hne; exact absurd hcap hne
    · intro _ hfl
      rw [withWs_buf, hinl4]
      exact h.store.inl (by rw [hreg]; intro e; cases e) hfl
    · rw [hreg]
      refine FrameLI.release h.ws hreg (by show m4.ws.set c w' = _; rw [hws4]) (fun _ _ => hcap)
        ?_ (by rw [withWs_buf, hf4.buf, View.unset_same])
        (fun j hj _ => (withWs_cnt _ _ _).trans ((hf4.cntOther j hj).trans (hbm.cnt j))) (hf4.keep.cat.trans hbm.cat) (hf4.keep.hr.trans hbm.hr)
        (by show m0.nextId ≤ m4.nextId; rw [hf4.keep.nid, hbm.nid]; omega)
      intro r' h1 _
      rw [withWs_buf, hf4.buf, View.unset_other _ _ _ h1, hbm.buf]

/-- `shrink_to_fit()`: the contents are unchanged whether it succeeds or throws `bad_alloc` (strong guarantee; the frame exempts
    the inline storage of the container itself, which a SmallVector may move back into) -/
theorem shrinkToFit_post {cfg : Cfg} {Ok : VB → Prop} (_L : VecLaws α cfg Ok) (S : ShrinkLaws cfg Ok) (m : Mem α) (c : Nat)
    (xs : List α) (w : VB) (h : VRepW cfg Ok c m xs w) (hf : Fresh m) :
    Post (shrinkToFit cfg c) m (StrongPostI cfg Ok c m w xs xs ()) := by
  refine Post.mono (shrinkToFit_spec S m c xs w h hf trivial) ?_
  rintro res m' ⟨hq, hfr, _⟩
  rcases hq with ⟨hr, hv⟩ | ⟨hr, hv, _⟩
  · exact ⟨Or.inl ⟨hr, _, hv⟩, hfr⟩
  · exact ⟨Or.inr ⟨_, hr, _, hv⟩, hfr⟩

/-- `shrink_to_fit()` with the literal `StrongPost` (full frame): whenever the container does not move into its own inline
    storage; in particular always for `amc::vector` and `FixedCapacityVector` -/
theorem shrinkToFit_strong {cfg : Cfg} {Ok : VB → Prop} (_L : VecLaws α cfg Ok) (S : ShrinkLaws cfg Ok) (m : Mem α) (c : Nat)
    (xs : List α) (w : VB) (h : VRepW cfg Ok c m xs w) (hf : Fresh m)
    (hstay : cfg.flavour ≠ .small ∨ regionOf cfg c w = .inl c
      ∨ regionOf cfg c (cfg.ops.shrinkImpl w cfg.n m.nextId).1 ≠ .inl c) :
    Post (shrinkToFit cfg c) m (StrongPost cfg Ok c m w xs xs ()) := by
  refine Post.mono (shrinkToFit_spec S m c xs w h hf trivial) ?_
  rintro res m' ⟨hq, hfr, hinl⟩
  have hfrL : FrameL cfg c (regionOf cfg c w) m m' := by
    refine hfr.toL ?_
    rcases hinl with hinl | ⟨h1, h2, h3⟩
    · exact hinl
    · rcases hstay with hs | hs | hs
      · exact absurd h1 hs
      · exact absurd hs h2
      · exact absurd h3 hs
  rcases hq with ⟨hr, hv⟩ | ⟨hr, hv, _⟩
  · exact ⟨Or.inl ⟨hr, _, hv⟩, hfrL⟩
  · exact ⟨Or.inr ⟨_, hr, _, hv⟩, hfrL⟩

/-- on success the capacity is `max size N` (SmallVector), `size` (`amc::vector`), unchanged (FixedCapacityVector) -/
theorem shrinkToFit_capacity {cfg : Cfg} {Ok : VB → Prop} (_L : VecLaws α cfg Ok) (S : ShrinkLaws cfg Ok) (m : Mem α) (c : Nat)
    (xs : List α) (w : VB) (h : VRepW cfg Ok c m xs w) (hf : Fresh m) :
    Post (shrinkToFit cfg c) m (fun res m' => res = .ok () →
      ∃ w', VRepW cfg Ok c m' xs w' ∧ cfg.ops.capacity w' =
        (match cfg.flavour with
         | .small => max xs.length cfg.n
         | .std => xs.length
         | .fixed => cfg.ops.capacity w)) := by
  refine Post.mono (shrinkToFit_spec S m c xs w h hf trivial) ?_
  rintro res m' ⟨hq, _, _⟩ hr
  rcases hq with ⟨_, hv⟩ | ⟨he, _⟩
  · refine ⟨_, hv, ?_⟩
    rw [S.cap w h.ok, shrinkCap, h.size]
  · rw [hr] at he; cases he

end AmcVerif

namespace AmcVerif
variable {α β γ : Type}

/-! ### Part 2a: programs that never touch the fuel when no exception is scheduled -/

/-- `p` leaves `fuel = none` alone (no exception is ever injected once the fuel is `none`) -/
structure FuelInv (p : M α β) : Prop where
  inv : ∀ m : Mem α, m.fuel = none → (runM p m).2.fuel = none

theorem Post.andFuel {p : M α β} {m : Mem α} {Q : Except Stop β → Mem α → Prop} (h : Post p m Q) (hf : FuelInv p)
    (hm : m.fuel = none) : Post p m (fun res m' => Q res m' ∧ m'.fuel = none) := ⟨h, hf.inv m hm⟩

namespace FuelInv

theorem bind {x : M α β} {f : β → M α γ} (hx : FuelInv x) (hf : ∀ a, FuelInv (f a)) : FuelInv (x >>= f) := by
  constructor
  intro m hm
  rw [runM_bind]
  have := hx.inv m hm
  cases h : runM x m with
  | mk r m1 =>
    rw [h] at this
    cases r with
    | ok a => exact (hf a).inv m1 this
    | error e => exact this

theorem tryCatch {x : M α β} {h : Stop → M α β} (hx : FuelInv x) (hh : ∀ e, FuelInv (h e)) : FuelInv (tryCatch x h) := by
  constructor
  intro m hm
  rw [runM_tryCatch]
  have := hx.inv m hm
  cases hr : runM x m with
  | mk r m1 =>
    rw [hr] at this
    cases r with
    | ok a => exact this
    | error e => exact (hh e).inv m1 this

theorem pure (a : β) : FuelInv (Pure.pure a : M α β) := ⟨fun _ hm => hm⟩
theorem throw (e : Stop) : FuelInv (MonadExcept.throw e : M α β) := ⟨fun _ hm => hm⟩
theorem fault (f : Fault) : FuelInv (AmcVerif.fault f : M α β) := ⟨fun _ hm => hm⟩
theorem raise (e : Exc) : FuelInv (AmcVerif.raise e : M α β) := ⟨fun _ hm => hm⟩
theorem get : FuelInv (MonadState.get : M α (Mem α)) := by
  constructor; intro m hm; rw [AllocAux.getM_run]; exact hm
theorem modify (f : Mem α → Mem α) (hf : ∀ m, (f m).fuel = m.fuel) : FuelInv (_root_.modify f : M α Unit) := by
  constructor; intro m hm; rw [AllocAux.modify_run]; show (f m).fuel = none; rw [hf, hm]

end FuelInv

syntax "fuel_base" : tactic
macro_rules | `(tactic| fuel_base) => `(tactic| assumption)
macro_rules | `(tactic| fuel_base) => `(tactic| with_reducible exact FuelInv.pure _)
macro_rules | `(tactic| fuel_base) => `(tactic| with_reducible exact FuelInv.throw _)
macro_rules | `(tactic| fuel_base) => `(tactic| with_reducible exact FuelInv.fault _)
macro_rules | `(tactic| fuel_base) => `(tactic| with_reducible exact FuelInv.raise _)
macro_rules | `(tactic| fuel_base) => `(tactic| with_reducible exact FuelInv.get)
macro_rules | `(tactic| fuel_base) => `(tactic| with_reducible exact FuelInv.modify _ (fun _ => rfl))
macro "fuel_auto" : tactic =>
  `(tactic| repeat (first | fuel_base | (with_reducible apply FuelInv.bind) | (with_reducible apply FuelInv.tryCatch) | intro _ | split))

namespace FuelInv

theorem tick (e : Exc) : FuelInv (AmcVerif.tick e : M α Unit) := by
  constructor; intro m hm; rw [tick_none m e (Or.inl hm)]; exact hm
macro_rules | `(tactic| fuel_base) => `(tactic| with_reducible exact FuelInv.tick _)

theorem isTC : FuelInv (AmcVerif.isTC : M α Bool) := by unfold AmcVerif.isTC; fuel_auto
macro_rules | `(tactic| fuel_base) => `(tactic| with_reducible exact FuelInv.isTC)

theorem bumpEv (f : Ev → Ev) : FuelInv (AmcVerif.bumpEv f : M α Unit) := by unfold AmcVerif.bumpEv; fuel_auto
macro_rules | `(tactic| fuel_base) => `(tactic| with_reducible exact FuelInv.bumpEv _)

theorem getBuf (r : Region) : FuelInv (AmcVerif.getBuf r : M α _) := by unfold AmcVerif.getBuf; fuel_auto
macro_rules | `(tactic| fuel_base) => `(tactic| with_reducible exact FuelInv.getBuf _)

theorem putBuf (r : Region) (b : List (Slot α)) : FuelInv (AmcVerif.putBuf r b) := by
  constructor; intro m hm; rw [putBuf_run]; simpa using hm
macro_rules | `(tactic| fuel_base) => `(tactic| with_reducible exact FuelInv.putBuf _ _)

theorem rd (a : Addr) : FuelInv (AmcVerif.rd a : M α _) := by unfold AmcVerif.rd; fuel_auto
macro_rules | `(tactic| fuel_base) => `(tactic| with_reducible exact FuelInv.rd _)

theorem wr (a : Addr) (s : Slot α) : FuelInv (AmcVerif.wr a s) := by unfold AmcVerif.wr; fuel_auto
macro_rules | `(tactic| fuel_base) => `(tactic| with_reducible exact FuelInv.wr _ _)

theorem readLive (a : Addr) : FuelInv (AmcVerif.readLive a : M α α) := by unfold AmcVerif.readLive; fuel_auto
macro_rules | `(tactic| fuel_base) => `(tactic| with_reducible exact FuelInv.readLive _)

theorem requireRaw (a : Addr) : FuelInv (AmcVerif.requireRaw a : M α Unit) := by unfold AmcVerif.requireRaw; fuel_auto
macro_rules | `(tactic| fuel_base) => `(tactic| with_reducible exact FuelInv.requireRaw _)

theorem requireAlive (a : Addr) (f : Fault) : FuelInv (AmcVerif.requireAlive a f : M α Unit) := by
  unfold AmcVerif.requireAlive; fuel_auto
macro_rules | `(tactic| fuel_base) => `(tactic| with_reducible exact FuelInv.requireAlive _ _)

theorem movedFrom (v : α) : FuelInv (AmcVerif.movedFrom v : M α _) := by unfold AmcVerif.movedFrom; fuel_auto
macro_rules | `(tactic| fuel_base) => `(tactic| with_reducible exact FuelInv.movedFrom _)

theorem constructCopy (a : Addr) (v : α) : FuelInv (AmcVerif.constructCopy a v) := by unfold AmcVerif.constructCopy; fuel_auto
macro_rules | `(tactic| fuel_base) => `(tactic| with_reducible exact FuelInv.constructCopy _ _)

theorem constructMove (a b : Addr) : FuelInv (AmcVerif.constructMove a b : M α Unit) := by unfold AmcVerif.constructMove; fuel_auto
macro_rules | `(tactic| fuel_base) => `(tactic| with_reducible exact FuelInv.constructMove _ _)

theorem destroyAt (a : Addr) : FuelInv (AmcVerif.destroyAt a : M α Unit) := by unfold AmcVerif.destroyAt; fuel_auto
macro_rules | `(tactic| fuel_base) => `(tactic| with_reducible exact FuelInv.destroyAt _)

theorem assignCopy (a : Addr) (v : α) : FuelInv (AmcVerif.assignCopy a v) := by unfold AmcVerif.assignCopy; fuel_auto
macro_rules | `(tactic| fuel_base) => `(tactic| with_reducible exact FuelInv.assignCopy _ _)

theorem assignMove (a b : Addr) : FuelInv (AmcVerif.assignMove a b : M α Unit) := by unfold AmcVerif.assignMove; fuel_auto
macro_rules | `(tactic| fuel_base) => `(tactic| with_reducible exact FuelInv.assignMove _ _)


theorem readLiveN (n : Nat) : ∀ a : Addr, FuelInv (AmcVerif.readLiveN a n : M α _) := by
  induction n with
  | zero => intro a; exact FuelInv.pure _
  | succ n ih => intro a; simp only [AmcVerif.readLiveN]; have := ih (a.add 1); fuel_auto
macro_rules | `(tactic| fuel_base) => `(tactic| with_reducible exact FuelInv.readLiveN _ _)

theorem setRawN (n : Nat) : ∀ a : Addr, FuelInv (AmcVerif.setRawN a n : M α Unit) := by
  induction n with
  | zero => intro a; exact FuelInv.pure _
  | succ n ih => intro a; simp only [AmcVerif.setRawN]; have := ih (a.add 1); fuel_auto
macro_rules | `(tactic| fuel_base) => `(tactic| with_reducible exact FuelInv.setRawN _ _)

theorem writeLiveRaw (vs : List α) : ∀ a : Addr, FuelInv (AmcVerif.writeLiveRaw a vs) := by
  induction vs with
  | nil => intro a; exact FuelInv.pure _
  | cons v vs ih => intro a; simp only [AmcVerif.writeLiveRaw]; have := ih (a.add 1); fuel_auto
macro_rules | `(tactic| fuel_base) => `(tactic| with_reducible exact FuelInv.writeLiveRaw _ _)

theorem relocBitwise (src : Addr) (n : Nat) (dst : Addr) : FuelInv (AmcVerif.relocBitwise src n dst : M α Unit) := by
  unfold AmcVerif.relocBitwise; fuel_auto
macro_rules | `(tactic| fuel_base) => `(tactic| with_reducible exact FuelInv.relocBitwise _ _ _)

theorem destroyN (n : Nat) : ∀ a : Addr, FuelInv (AmcVerif.destroyN a n : M α Unit) := by
  induction n with
  | zero => intro a; exact FuelInv.pure _
  | succ n ih => intro a; simp only [AmcVerif.destroyN]; have := ih (a.add 1); fuel_auto
macro_rules | `(tactic| fuel_base) => `(tactic| with_reducible exact FuelInv.destroyN _ _)

theorem uninitMoveN (n : Nat) : ∀ src dst : Addr, FuelInv (AmcVerif.uninitMoveN src n dst : M α Unit) := by
  induction n with
  | zero => intro a b; exact FuelInv.pure _
  | succ n ih => intro a b; simp only [AmcVerif.uninitMoveN]; have := ih (a.add 1) (b.add 1); fuel_auto
macro_rules | `(tactic| fuel_base) => `(tactic| with_reducible exact FuelInv.uninitMoveN _ _ _)

theorem moveFwd (n : Nat) : ∀ src dst : Addr, FuelInv (AmcVerif.moveFwd src n dst : M α Unit) := by
  induction n with
  | zero => intro a b; exact FuelInv.pure _
  | succ n ih => intro a b; simp only [AmcVerif.moveFwd]; have := ih (a.add 1) (b.add 1); fuel_auto
macro_rules | `(tactic| fuel_base) => `(tactic| with_reducible exact FuelInv.moveFwd _ _ _)

theorem uninitRelocN (src : Addr) (n : Nat) (dst : Addr) : FuelInv (AmcVerif.uninitRelocN src n dst : M α Unit) := by
  unfold AmcVerif.uninitRelocN; fuel_auto
macro_rules | `(tactic| fuel_base) => `(tactic| with_reducible exact FuelInv.uninitRelocN _ _ _)

theorem swapElem (a b : Addr) : FuelInv (AmcVerif.swapElem a b : M α Unit) := by unfold AmcVerif.swapElem; fuel_auto
macro_rules | `(tactic| fuel_base) => `(tactic| with_reducible exact FuelInv.swapElem _ _)

theorem swapRanges (n : Nat) : ∀ a b : Addr, FuelInv (AmcVerif.swapRanges a n b : M α Unit) := by
  induction n with
  | zero => intro a b; exact FuelInv.pure _
  | succ n ih => intro a b; simp only [AmcVerif.swapRanges]; have := ih (a.add 1) (b.add 1); fuel_auto
macro_rules | `(tactic| fuel_base) => `(tactic| with_reducible exact FuelInv.swapRanges _ _ _)

theorem allocBlock (n id : Nat) : FuelInv (AmcVerif.allocBlock n id : M α Unit) := by unfold AmcVerif.allocBlock; fuel_auto
macro_rules | `(tactic| fuel_base) => `(tactic| with_reducible exact FuelInv.allocBlock _ _)

theorem findBlock (id : Nat) : FuelInv (AmcVerif.findBlock id : M α _) := by unfold AmcVerif.findBlock; fuel_auto
macro_rules | `(tactic| fuel_base) => `(tactic| with_reducible exact FuelInv.findBlock _)

theorem deallocBlock (p : PtrV) (n : Nat) : FuelInv (AmcVerif.deallocBlock p n : M α Unit) := by
  unfold AmcVerif.deallocBlock; fuel_auto
macro_rules | `(tactic| fuel_base) => `(tactic| with_reducible exact FuelInv.deallocBlock _ _)

theorem isTR : FuelInv (AmcVerif.isTR : M α Bool) := by unfold AmcVerif.isTR; fuel_auto
macro_rules | `(tactic| fuel_base) => `(tactic| with_reducible exact FuelInv.isTR)

theorem swapDeep (a : Addr) (n : Nat) (b : Addr) (k : Nat) : FuelInv (AmcVerif.swapDeep a n b k : M α Unit) := by
  unfold AmcVerif.swapDeep; fuel_auto
macro_rules | `(tactic| fuel_base) => `(tactic| with_reducible exact FuelInv.swapDeep _ _ _ _)

theorem moveN (a : Addr) (n : Nat) (b : Addr) (k : Nat) : FuelInv (AmcVerif.moveN a n b k : M α Unit) := by
  unfold AmcVerif.moveN; fuel_auto
macro_rules | `(tactic| fuel_base) => `(tactic| with_reducible exact FuelInv.moveN _ _ _ _)

theorem reallocBlock (p : PtrV) (old new live : Nat) (res : PtrV) : FuelInv (AmcVerif.reallocBlock p old new live res : M α Unit) := by
  unfold AmcVerif.reallocBlock
  repeat (first | fuel_base | (with_reducible apply FuelInv.bind) | intro _ | split | dsimp only)
macro_rules | `(tactic| fuel_base) => `(tactic| with_reducible exact FuelInv.reallocBlock _ _ _ _ _)

theorem interp (c0 c1 : Nat) (e : Eff) : FuelInv (AmcVerif.interp c0 c1 e : M α Unit) := by
  cases e <;> simp only [AmcVerif.interp] <;> fuel_auto
macro_rules | `(tactic| fuel_base) => `(tactic| with_reducible exact FuelInv.interp _ _ _)

theorem interpAll (c0 c1 : Nat) (es : List Eff) : FuelInv (AmcVerif.interpAll c0 c1 es : M α Unit) := by
  induction es with
  | nil => exact FuelInv.pure _
  | cons e es ih => simp only [AmcVerif.interpAll]; fuel_auto
macro_rules | `(tactic| fuel_base) => `(tactic| with_reducible exact FuelInv.interpAll _ _ _)

theorem getW (c : Nat) : FuelInv (AmcVerif.getW c : M α VB) := by unfold AmcVerif.getW; fuel_auto
macro_rules | `(tactic| fuel_base) => `(tactic| with_reducible exact FuelInv.getW _)

theorem setW (c : Nat) (w : VB) : FuelInv (AmcVerif.setW c w : M α Unit) := by unfold AmcVerif.setW; fuel_auto
macro_rules | `(tactic| fuel_base) => `(tactic| with_reducible exact FuelInv.setW _ _)

theorem takeFresh : FuelInv (AmcVerif.takeFresh : M α Nat) := by
  constructor; intro m hm; rw [takeFresh_run]; exact hm
macro_rules | `(tactic| fuel_base) => `(tactic| with_reducible exact FuelInv.takeFresh)

theorem vsize (cfg : Cfg) (c : Nat) : FuelInv (AmcVerif.vsize cfg c : M α Nat) := by unfold AmcVerif.vsize; fuel_auto
macro_rules | `(tactic| fuel_base) => `(tactic| with_reducible exact FuelInv.vsize _ _)
theorem vcap (cfg : Cfg) (c : Nat) : FuelInv (AmcVerif.vcap cfg c : M α Nat) := by unfold AmcVerif.vcap; fuel_auto
macro_rules | `(tactic| fuel_base) => `(tactic| with_reducible exact FuelInv.vcap _ _)
theorem vbegin (cfg : Cfg) (c : Nat) : FuelInv (AmcVerif.vbegin cfg c : M α Addr) := by unfold AmcVerif.vbegin; fuel_auto
macro_rules | `(tactic| fuel_base) => `(tactic| with_reducible exact FuelInv.vbegin _ _)

theorem grow (cfg : Cfg) (c : Nat) (n : Nat) (ex : Bool) : FuelInv (AmcVerif.grow cfg c n ex : M α Unit) := by
  unfold AmcVerif.grow; fuel_auto
macro_rules | `(tactic| fuel_base) => `(tactic| with_reducible exact FuelInv.grow _ _ _ _)

theorem adjustCapacity (cfg : Cfg) (c : Nat) (n : Nat) : FuelInv (AmcVerif.adjustCapacity cfg c n : M α Unit) := by
  unfold AmcVerif.adjustCapacity; fuel_auto
macro_rules | `(tactic| fuel_base) => `(tactic| with_reducible exact FuelInv.adjustCapacity _ _ _)

theorem adjustCapacityRef (cfg : Cfg) (c : Nat) (n : Nat) (v : Ref α) : FuelInv (AmcVerif.adjustCapacityRef cfg c n v) := by
  unfold AmcVerif.adjustCapacityRef; fuel_auto

end FuelInv

/-! ### Part 2b: the copy loops over arbitrary slots for a trivially copyable type when no exception is scheduled -/

theorem tick_none_post (m : Mem α) (e : Exc) (h : m.fuel = none) : Post (tick e) m (fun res m' => res = .ok () ∧ m' = m) := by
  unfold Post; rw [tick_none m e (Or.inl h)]; exact ⟨rfl, rfl⟩

namespace TcAux
theorem getElem?_of_lt (b : List (Slot α)) (i : Nat) (hi : i < b.length) : b[i]? = some b[i] := by simp [hi]
end TcAux
open TcAux

/-- `construct_at(a, copy of v)` of a trivially copyable type, on any slot, when no exception is scheduled -/
theorem constructCopy_tc (m : Mem α) (hc : m.cat = .tc) (hf : m.fuel = none) (a : Addr) (v : α) (b : List (Slot α))
    (h : m.buf a.r = some b) (hi : a.i < b.length) :
    Post (constructCopy a v) m (fun res m' => OkSet m a.r (b.set a.i (.live v)) res m' ∧ m'.fuel = none) := by
  refine Post.andFuel ?_ (FuelInv.constructCopy a v) hf
  unfold constructCopy
  refine Post.bind (requireRaw_post m a b _ h (getElem?_of_lt b a.i hi) (Or.inr hc)) ?_ okpost_err
  rintro _ m1 ⟨_, rfl⟩
  refine Post.bind (tick_none_post m1 .elem hf) ?_ (by okerr)
  rintro _ m2 ⟨_, rfl⟩
  refine Post.bind (wr_post m2 a b (.live v) h hi) ?_ (by rintro e m3 ⟨he, _⟩; cases he)
  rintro _ m3 ⟨_, hb3, hk3⟩
  refine Post.mono (bumpEv_post m3 _) ?_
  rintro r m4 ⟨hr, hs4⟩
  exact ⟨hr, by rw [hs4.1, hb3], hk3.trans hs4.2⟩

/-- `*a = copy of v` of a trivially copyable type, on any slot, when no exception is scheduled -/
theorem assignCopy_tc (m : Mem α) (hc : m.cat = .tc) (hf : m.fuel = none) (a : Addr) (v : α) (b : List (Slot α))
    (h : m.buf a.r = some b) (hi : a.i < b.length) :
    Post (assignCopy a v) m (fun res m' => OkSet m a.r (b.set a.i (.live v)) res m' ∧ m'.fuel = none) := by
  refine Post.andFuel ?_ (FuelInv.assignCopy a v) hf
  unfold assignCopy
  refine Post.bind (requireAlive_post m a _ b _ h (getElem?_of_lt b a.i hi) (Or.inr hc)) ?_ okpost_err
  rintro _ m1 ⟨_, rfl⟩
  refine Post.bind (tick_none_post m1 .elem hf) ?_ (by okerr)
  rintro _ m2 ⟨_, rfl⟩
  refine Post.bind (wr_post m2 a b (.live v) h hi) ?_ (by rintro e m3 ⟨he, _⟩; cases he)
  rintro _ m3 ⟨_, hb3, hk3⟩
  refine Post.mono (bumpEv_post m3 _) ?_
  rintro r m4 ⟨hr, hs4⟩
  exact ⟨hr, by rw [hs4.1, hb3], hk3.trans hs4.2⟩

/-- outcome of a copy loop that cannot throw: the window holds the new values, the fuel is still `none` -/
def SetNoExc (m : Mem α) (r : Region) (b' : List (Slot α)) : Except Stop Unit → Mem α → Prop :=
  fun res m' => OkSet m r b' res m' ∧ m'.fuel = none

theorem SetNoExc.chain {m m1 : Mem α} {r : Region} {b1 b2 : List (Slot α)} (hb1 : m1.buf = View.set m.buf r b1) (hk : Keep m m1)
    {res : Except Stop Unit} {m2 : Mem α} (h : SetNoExc m1 r b2 res m2) : SetNoExc m r b2 res m2 := by
  obtain ⟨⟨hr, hb, hk2⟩, hf⟩ := h
  exact ⟨⟨hr, by rw [hb, hb1, View.set_set], hk.trans hk2⟩, hf⟩

/-- `std::uninitialized_copy_n` of a trivially copyable type over any slots (the `assign_n` branch for trivially copyable types
    constructs over the existing objects) -/
theorem uninitCopyN_go_tc (r : Region) (a : Addr) : ∀ (vs : List α) (m : Mem α) (pre old post : List (Slot α)) (done : Nat),
    m.cat = .tc → m.fuel = none → old.length = vs.length → m.buf r = some (pre ++ old ++ post) →
    Post (uninitCopyN.go a ⟨r, pre.length⟩ vs done) m (SetNoExc m r (pre ++ lives vs ++ post)) := by
  intro vs
  induction vs with
  | nil =>
    intro m pre old post done _ hf hl h
    have : old = [] := List.eq_nil_of_length_eq_zero (by simpa using hl)
    subst this
    simp only [uninitCopyN.go]
    refine ⟨⟨rfl, ?_, Keep.refl m⟩, hf⟩
    show m.buf = _
    rw [View.set_id]; simpa [lives] using h
  | cons v vs ih =>
    intro m pre old post done hc hf hl h
    match old, hl, h with
    | s :: old', hl, h =>
      simp only [uninitCopyN.go]
      have hb : m.buf (Addr.mk r pre.length).r = some (pre ++ s :: (old' ++ post)) := by simpa using h
      have hact := constructCopy_tc m hc hf ⟨r, pre.length⟩ v _ hb (by simp)
      simp only [set_mid] at hact
      refine Post.bind (Q1 := fun res m' => OkSet m r (pre ++ .live v :: (old' ++ post)) res m' ∧ m'.fuel = none)
        (Post.tryCatch hact (fun _ _ hq => hq) (by rintro e m1 ⟨⟨he, _⟩, _⟩; cases he)) ?_
        (by rintro e m1 ⟨⟨he, _⟩, _⟩; cases he)
      rintro _ m1 ⟨⟨_, hb1, hk1⟩, hf1⟩
      have h1 : m1.buf r = some ((pre ++ [.live v]) ++ old' ++ post) := by rw [hb1]; simp
      have := ih m1 (pre ++ [.live v]) old' post (done + 1) (by rw [hk1.cat]; exact hc) hf1 (by simpa using hl) h1
      simp only [List.length_append, List.length_cons, List.length_nil, Nat.zero_add] at this
      simp only [Addr.add]
      refine Post.mono this ?_
      intro res m2 hq
      have := SetNoExc.chain hb1 hk1 hq
      simpa [lives] using this

/-- `std::copy_n` of a trivially copyable type over any slots -/
theorem copyN_tc (r : Region) : ∀ (vs : List α) (m : Mem α) (pre old post : List (Slot α)),
    m.cat = .tc → m.fuel = none → old.length = vs.length → m.buf r = some (pre ++ old ++ post) →
    Post (copyN ⟨r, pre.length⟩ vs) m (SetNoExc m r (pre ++ lives vs ++ post)) := by
  intro vs
  induction vs with
  | nil =>
    intro m pre old post _ hf hl h
    have : old = [] := List.eq_nil_of_length_eq_zero (by simpa using hl)
    subst this
    simp only [copyN]
    refine ⟨⟨rfl, ?_, Keep.refl m⟩, hf⟩
    show m.buf = _
    rw [View.set_id]; simpa [lives] using h
  | cons v vs ih =>
    intro m pre old post hc hf hl h
    match old, hl, h with
    | s :: old', hl, h =>
      simp only [copyN]
      have hb : m.buf (Addr.mk r pre.length).r = some (pre ++ s :: (old' ++ post)) := by simpa using h
      have hact := assignCopy_tc m hc hf ⟨r, pre.length⟩ v _ hb (by simp)
      simp only [set_mid] at hact
      refine Post.bind hact ?_ (by rintro e m1 ⟨⟨he, _⟩, _⟩; cases he)
      rintro _ m1 ⟨⟨_, hb1, hk1⟩, hf1⟩
      have h1 : m1.buf r = some ((pre ++ [.live v]) ++ old' ++ post) := by rw [hb1]; simp
      have := ih m1 (pre ++ [.live v]) old' post (by rw [hk1.cat]; exact hc) hf1 (by simpa using hl) h1
      simp only [List.length_append, List.length_cons, List.length_nil, Nat.zero_add] at this
      simp only [Addr.add]
      refine Post.mono this ?_
      intro res m2 hq
      have := SetNoExc.chain hb1 hk1 hq
      simpa [lives] using this

/-- `std::uninitialized_fill_n` with an outside value, trivially copyable type, over any slots -/
theorem uninitFillRef_go_tc (r : Region) (a : Addr) (x : α) : ∀ (k : Nat) (m : Mem α) (pre old post : List (Slot α)) (done : Nat),
    m.cat = .tc → m.fuel = none → old.length = k → m.buf r = some (pre ++ old ++ post) →
    Post (uninitFillRef.go a (.lit x) ⟨r, pre.length⟩ k done) m (SetNoExc m r (pre ++ lives (List.replicate k x) ++ post)) := by
  intro k
  induction k with
  | zero =>
    intro m pre old post done _ hf hl h
    have : old = [] := List.eq_nil_of_length_eq_zero hl
    subst this
    simp only [uninitFillRef.go]
    refine ⟨⟨rfl, ?_, Keep.refl m⟩, hf⟩
    show m.buf = _
    rw [View.set_id]; simpa [lives] using h
  | succ k ih =>
    intro m pre old post done hc hf hl h
    match old, hl, h with
    | s :: old', hl, h =>
      simp only [uninitFillRef.go, constructCopyRef, deref, pure_bind]
      have hb : m.buf (Addr.mk r pre.length).r = some (pre ++ s :: (old' ++ post)) := by simpa using h
      have hact := constructCopy_tc m hc hf ⟨r, pre.length⟩ x _ hb (by simp)
      simp only [set_mid] at hact
      refine Post.bind (Q1 := fun res m' => OkSet m r (pre ++ .live x :: (old' ++ post)) res m' ∧ m'.fuel = none)
        (Post.tryCatch hact (fun _ _ hq => hq) (by rintro e m1 ⟨⟨he, _⟩, _⟩; cases he)) ?_
        (by rintro e m1 ⟨⟨he, _⟩, _⟩; cases he)
      rintro _ m1 ⟨⟨_, hb1, hk1⟩, hf1⟩
      have h1 : m1.buf r = some ((pre ++ [.live x]) ++ old' ++ post) := by rw [hb1]; simp
      have := ih m1 (pre ++ [.live x]) old' post (done + 1) (by rw [hk1.cat]; exact hc) hf1 (by simpa using hl) h1
      simp only [List.length_append, List.length_cons, List.length_nil, Nat.zero_add] at this
      simp only [Addr.add]
      refine Post.mono this ?_
      intro res m2 hq
      have := SetNoExc.chain hb1 hk1 hq
      simpa [lives, List.replicate_succ] using this

/-- `std::fill_n` with an outside value, trivially copyable type, over any slots -/
theorem fillRef_tc (r : Region) (x : α) : ∀ (k : Nat) (m : Mem α) (pre old post : List (Slot α)),
    m.cat = .tc → m.fuel = none → old.length = k → m.buf r = some (pre ++ old ++ post) →
    Post (fillRef ⟨r, pre.length⟩ k (.lit x)) m (SetNoExc m r (pre ++ lives (List.replicate k x) ++ post)) := by
  intro k
  induction k with
  | zero =>
    intro m pre old post _ hf hl h
    have : old = [] := List.eq_nil_of_length_eq_zero hl
    subst this
    simp only [fillRef]
    refine ⟨⟨rfl, ?_, Keep.refl m⟩, hf⟩
    show m.buf = _
    rw [View.set_id]; simpa [lives] using h
  | succ k ih =>
    intro m pre old post hc hf hl h
    match old, hl, h with
    | s :: old', hl, h =>
      simp only [fillRef, assignCopyRef]
      have hb : m.buf (Addr.mk r pre.length).r = some (pre ++ s :: (old' ++ post)) := by simpa using h
      have hact := assignCopy_tc m hc hf ⟨r, pre.length⟩ x _ hb (by simp)
      simp only [set_mid] at hact
      refine Post.bind hact ?_ (by rintro e m1 ⟨⟨he, _⟩, _⟩; cases he)
      rintro _ m1 ⟨⟨_, hb1, hk1⟩, hf1⟩
      have h1 : m1.buf r = some ((pre ++ [.live x]) ++ old' ++ post) := by rw [hb1]; simp
      have := ih m1 (pre ++ [.live x]) old' post (by rw [hk1.cat]; exact hc) hf1 (by simpa using hl) h1
      simp only [List.length_append, List.length_cons, List.length_nil, Nat.zero_add] at this
      simp only [Addr.add]
      refine Post.mono this ?_
      intro res m2 hq
      have := SetNoExc.chain hb1 hk1 hq
      simpa [lives, List.replicate_succ] using this


/-! ### Part 2c: `assign(first,last)` and `assign(count,v)` for trivially copyable element types -/

/-- `truncate_core` without the (impossible) exception branch: destroying the tail and committing the size cannot throw -/
theorem truncate_ok {cfg : Cfg} {Ok : VB → Prop} (L : VecLaws α cfg Ok) (m : Mem α) (c : Nat) (xs : List α) (w : VB)
    (count : Nat) (h : VRepW cfg Ok c m xs w) (hc : count ≤ xs.length) :
    Post (do destroyN ⟨regionOf cfg c w, count⟩ (xs.length - count); setSize cfg c count) m
      (fun res m' => (res = .ok () ∧ VRep cfg Ok c m' (xs.take count)) ∧ FrameL cfg c (regionOf cfg c w) m m') := by
  have hle := h.le
  have hlt : (xs.take count).length = count := by simp; omega
  by_cases h0 : xs.length - count = 0
  · have hx : xs.take count = xs := List.take_of_length_le (by omega)
    rw [h0]
    simp only [destroyN]
    refine Post.bind (Q1 := fun res m' => res = .ok () ∧ m' = m) ⟨rfl, rfl⟩ ?_ (by okerr)
    rintro _ m1 ⟨_, rfl⟩
    exact setSize_commit L (xs' := xs.take count) count hlt.symm (by rw [hx]; exact h.store) (by omega)
      (FrameL.refl cfg c (regionOf cfg c w) _)
  · have hbuf : m.buf (regionOf cfg c w) = some (lives (xs.take count) ++ lives (xs.drop count)
        ++ raws (cfg.ops.capacity w - xs.length)) := by
      rcases h.buf with hz | hb
      · omega
      · rw [hb]; simp only [lives, ← List.map_append, List.take_append_drop]
    have hd := destroyN_post (regionOf cfg c w) (lives (xs.drop count)) m (lives (xs.take count)) _ hbuf (lives_okAlive _ _)
    simp only [lives_length, List.length_drop, hlt] at hd
    refine Post.bind hd ?_ (by rintro e m1 ⟨he, _⟩; cases he)
    rintro _ m1 ⟨_, hb1, hk1⟩
    rw [List.append_assoc, raws_append, show xs.length - count + (cfg.ops.capacity w - xs.length)
      = cfg.ops.capacity w - (xs.take count).length by omega] at hb1
    have hst1 := h.store.set hb1 (by simp; omega) hk1
    exact setSize_commit L (xs' := xs.take count) count hlt.symm hst1 (by omega)
      ((FrameL.refl cfg c _ m).elem (Or.inl rfl) (h.isSome (by omega)) hb1 hk1)

/-- the tail of a trivially-copyable assignment that needs no more room: the first `vals.length` slots are overwritten by `act`
    (which cannot throw), the surplus is destroyed, the size committed -/
theorem assign_shrink_tc {cfg : Cfg} {Ok : VB → Prop} (L : VecLaws α cfg Ok) (m : Mem α) (c : Nat) (xs : List α) (w : VB)
    (vals : List α) (act : M α Unit) (h : VRepW cfg Ok c m xs w) (hc : vals.length ≤ xs.length)
    (hnil : vals = [] → Post act m (fun res m' => res = .ok () ∧ m' = m))
    (hact : ∀ post, m.buf (regionOf cfg c w) = some ([] ++ lives (xs.take vals.length) ++ post) →
      Post act m (SetNoExc m (regionOf cfg c w) ([] ++ lives vals ++ post))) :
    Post (do act; destroyN ⟨regionOf cfg c w, vals.length⟩ (xs.length - vals.length); setSize cfg c vals.length) m
      (StrongPost cfg Ok c m w xs vals ()) := by
  have hle := h.le
  by_cases hv : vals = []
  · refine Post.bind (hnil hv) ?_ (by okerr)
    rintro _ m1 ⟨_, rfl⟩
    subst hv
    refine Post.mono (truncate_ok L m1 c xs w 0 h (Nat.zero_le _)) ?_
    rintro res m' ⟨hq, hfr⟩
    exact ⟨Or.inl (by simpa using hq), hfr⟩
  · have hvl : 0 < vals.length := List.length_pos_iff.mpr hv
    have hbuf : m.buf (regionOf cfg c w) = some ([] ++ lives (xs.take vals.length)
        ++ (lives (xs.drop vals.length) ++ raws (cfg.ops.capacity w - xs.length))) := by
      rcases h.buf with hz | hb
      · omega
      · rw [hb]; simp only [List.nil_append, ← List.append_assoc, ← lives_append, List.take_append_drop]
    refine Post.bind (hact _ hbuf) ?_ (by rintro e m1 ⟨⟨he, _⟩, _⟩; cases he)
    rintro _ m1 ⟨⟨_, hb1, hk1⟩, _⟩
    have hl1 : (vals ++ xs.drop vals.length).length = xs.length := by simp; omega
    have h1 : VRepW cfg Ok c m1 (vals ++ xs.drop vals.length) w := by
      refine h.ofSet hl1 ?_ hk1
      rw [hb1, hl1]; simp [lives_append]
    have ht := truncate_ok L m1 c (vals ++ xs.drop vals.length) w vals.length h1 (by omega)
    rw [hl1] at ht
    refine Post.mono ht ?_
    rintro res m' ⟨hq, hfr⟩
    exact ⟨Or.inl (by simpa using hq), (FrameL.ofSet h (by omega) hb1 hk1).trans (Or.inl rfl) hfr⟩

/-- the tail of a trivially-copyable assignment into a container that has room for the new elements: `act` constructs all of
    them over the old objects and the raw slots behind them (it cannot throw), the size is committed -/
theorem assign_grow_tc {cfg : Cfg} {Ok : VB → Prop} (L : VecLaws α cfg Ok) (m : Mem α) (c : Nat) (xs : List α) (w : VB)
    (vals : List α) (act : M α Unit) (h : VRepW cfg Ok c m xs w) (hlt : xs.length < vals.length)
    (hcap : vals.length ≤ cfg.ops.capacity w)
    (hact : ∀ post, m.buf (regionOf cfg c w) = some ([] ++ (lives xs ++ raws (vals.length - xs.length)) ++ post) →
      Post act m (SetNoExc m (regionOf cfg c w) ([] ++ lives vals ++ post))) :
    Post (do act; setSize cfg c vals.length) m
      (fun res m' => (res = .ok () ∧ VRep cfg Ok c m' vals) ∧ FrameL cfg c (regionOf cfg c w) m m') := by
  have hbuf : m.buf (regionOf cfg c w) = some ([] ++ (lives xs ++ raws (vals.length - xs.length))
      ++ raws (cfg.ops.capacity w - vals.length)) := by
    rcases h.buf with hz | hb
    · omega
    · rw [hb, List.nil_append, List.append_assoc, raws_append]; congr 3; omega
  refine Post.bind (hact _ hbuf) ?_ (by rintro e m1 ⟨⟨he, _⟩, _⟩; cases he)
  rintro _ m1 ⟨⟨_, hb1, hk1⟩, _⟩
  rw [List.nil_append] at hb1
  have hst1 := h.store.set hb1 (by simp; omega) hk1
  exact setSize_commit L (xs' := vals) vals.length rfl hst1 hcap (FrameL.ofSet h (by omega) hb1 hk1)

/-- `assign(first, last)` (forward iterators) for a trivially copyable element type, when no exception is scheduled
    (`fuel = none`: real trivially copyable types cannot throw): strong guarantee — the only exception is a length error of
    the capacity adjustment, which leaves the container unchanged -/
theorem assignRange_tc_post {cfg : Cfg} {Ok : VB → Prop} (L : VecLaws α cfg Ok) (m : Mem α) (c : Nat) (xs : List α) (w : VB)
    (vals : List α) (h : VRepW cfg Ok c m xs w) (hf : Fresh m) (hcat : m.cat = .tc) (hfuel : m.fuel = none) :
    Post (assignRange cfg c vals) m (StrongPost cfg Ok c m w xs vals ()) := by
  unfold assignRange
  refine Post.bind (vsize_post cfg m c w h.ws) ?_ (by okerr)
  rintro sz m0 ⟨hsz, rfl⟩; injection hsz with hsz; subst hsz
  rw [h.size]
  by_cases hlt : xs.length < vals.length
  · simp only [hlt, ↓reduceIte]
    refine Post.bind ((adjustCapacity_post L m0 c xs w _ h hf).andFuel (FuelInv.adjustCapacity cfg c _) hfuel) ?_ ?_
    · rintro _ m1 ⟨⟨hq, hfr⟩, hf1⟩
      rcases hq with ⟨_, w', ⟨hw', hcap, hreg⟩⟩ | ⟨e, he, _⟩
      · refine Post.bind (vbegin_post cfg m1 c w' hw'.ws) ?_ (by okerr)
        rintro a m2 ⟨ha, rfl⟩; injection ha with ha; subst ha
        have hcat2 : m2.cat = .tc := by rw [hfr.cat]; exact hcat
        refine Post.mono (assign_grow_tc L m2 c xs w' vals _ hw' hlt hcap (fun post hb => ?_)) ?_
        · unfold assignN
          refine Post.bind (isTC_post m2) ?_ (by okerr)
          rintro t m3 ⟨ht, rfl⟩; injection ht with ht; subst ht
          simp only [hcat2, beq_self_eq_true, ↓reduceIte]
          exact uninitCopyN_go_tc (regionOf cfg c w') _ vals m3 [] _ post 0 hcat2 hf1 (by simp; omega) hb
        · rintro res m' ⟨hq, hfr'⟩
          exact ⟨Or.inl hq, hfr.trans hreg hfr'⟩
      · cases he
    · rintro e m1 ⟨⟨hq, hfr⟩, _⟩
      rcases hq with ⟨he, _⟩ | ⟨e', he, hw', _⟩
      · cases he
      · injection he with he; subst he
        exact ⟨Or.inr ⟨e', rfl, w, hw'⟩, hfr⟩
  · simp only [hlt, ↓reduceIte]
    refine Post.bind (vbegin_post cfg m0 c w h.ws) ?_ (by okerr)
    rintro a m1 ⟨ha, rfl⟩; injection ha with ha; subst ha
    have := assign_shrink_tc L m1 c xs w vals (copyN ⟨regionOf cfg c w, 0⟩ vals) h (by omega)
      (by rintro rfl; exact ⟨rfl, rfl⟩)
      (fun post hb => copyN_tc (regionOf cfg c w) vals m1 [] (lives (xs.take vals.length)) post hcat hfuel (by simp; omega) hb)
    simpa [Addr.add] using this


/-- `assign(count, v)` with an outside value for a trivially copyable element type, when no exception is scheduled: strong
    guarantee (the only exception is a length error of the capacity adjustment) -/
theorem assignFill_tc_post {cfg : Cfg} {Ok : VB → Prop} (L : VecLaws α cfg Ok) (m : Mem α) (c : Nat) (xs : List α) (w : VB)
    (count : Nat) (x : α) (h : VRepW cfg Ok c m xs w) (hf : Fresh m) (hcat : m.cat = .tc) (hfuel : m.fuel = none) :
    Post (assignFill cfg c count (.lit x)) m (StrongPost cfg Ok c m w xs (List.replicate count x) ()) := by
  unfold assignFill
  refine Post.bind (vsize_post cfg m c w h.ws) ?_ (by okerr)
  rintro sz m0 ⟨hsz, rfl⟩; injection hsz with hsz; subst hsz
  rw [h.size]
  by_cases hlt : xs.length < count
  · simp only [hlt, ↓reduceIte]
    refine Post.bind ((adjustCapacityRef_lit_post L m0 c xs w _ x h hf).andFuel (FuelInv.adjustCapacityRef cfg c _ _) hfuel) ?_ ?_
    · rintro ref' m1 ⟨⟨hq, hfr⟩, hf1⟩
      rcases hq with ⟨hr, w', ⟨hw', hcap, hreg⟩⟩ | ⟨e, he, _⟩
      · injection hr with hr; subst hr
        refine Post.bind (vbegin_post cfg m1 c w' hw'.ws) ?_ (by okerr)
        rintro a m2 ⟨ha, rfl⟩; injection ha with ha; subst ha
        have hcat2 : m2.cat = .tc := by rw [hfr.cat]; exact hcat
        have := assign_grow_tc L m2 c xs w' (List.replicate count x) (fillHelper ⟨regionOf cfg c w', 0⟩ xs.length count (.lit x))
          hw' (by simpa using hlt) (by simpa using hcap) (fun post hb => by
            unfold fillHelper
            refine Post.bind (isTC_post m2) ?_ (by okerr)
            rintro t m3 ⟨ht, rfl⟩; injection ht with ht; subst ht
            simp only [hcat2, beq_self_eq_true, ↓reduceIte]
            have := uninitFillRef_go_tc (regionOf cfg c w') ⟨regionOf cfg c w', 0⟩ x count m3 []
              (lives xs ++ raws (count - xs.length)) post 0 hcat2 hf1 (by simp; omega) (by simpa using hb)
            simpa [uninitFillRef] using this)
        simp only [List.length_replicate] at this
        refine Post.mono this ?_
        rintro res m' ⟨hq, hfr'⟩
        exact ⟨Or.inl hq, hfr.trans hreg hfr'⟩
      · cases he
    · rintro e m1 ⟨⟨hq, hfr⟩, _⟩
      rcases hq with ⟨he, _⟩ | ⟨e', he, hw', _⟩
      · cases he
      · injection he with he; subst he
        exact ⟨Or.inr ⟨e', rfl, w, hw'⟩, hfr⟩
  · simp only [hlt, ↓reduceIte]
    refine Post.bind (vbegin_post cfg m0 c w h.ws) ?_ (by okerr)
    rintro a m1 ⟨ha, rfl⟩; injection ha with ha; subst ha
    have := assign_shrink_tc L m1 c xs w (List.replicate count x) (fillRef ⟨regionOf cfg c w, 0⟩ count (.lit x)) h
      (by simp; omega)
      (by intro h0
          have : count = 0 := by simpa using h0
          subst this; exact ⟨rfl, rfl⟩)
      (fun post hb => by
        have := fillRef_tc (regionOf cfg c w) x count m1 [] (lives (xs.take count)) post hcat hfuel (by simp; omega)
          (by simpa using hb)
        simpa using this)
    simpa [Addr.add] using this

end AmcVerif
