import AmcVerif.Bridge.FlatSetBridge
import AmcVerif.Lemmas.HintC
/-! A POOL of `amc::FlatSet` objects of one type whose comparator OBJECTS may be in different states (`ModLess(7)` next to
`ModLess(10)`): the pool-level form of "all ordering and equivalence decisions use the comparator object the set was constructed
with".

* state: `FSet α` = (comparator object, content); a pool is a `List (FSet α)`;
* operations: `FOp α` (data), interpreted by `stepPool` with the GENERATED members of `Gen/FlatSetGen.lean` (regenerated from
  `flatset.hpp` on every run), not with the hand-written model.  `copyAssign` / `moveAssign` have no generated function (the
  class leaves `operator=(const FlatSet &)` / `operator=(FlatSet &&)` to the compiler: member-wise assignment of the comparator
  object and of the vector): they are modelled directly here;
* specification: `specPool`, written with the model's `insertVal` / `insertAll` / `eraseKey` / `mergeFrom`;
* `stepPool_eq`: under the invariant of every set (`PoolInv`: its content is strictly sorted by ITS OWN comparator object, a strict
  weak order) and the hypothesis on stateless comparator types (`StatelessOK`), a step is never undefined behaviour and is the
  specification; `specPool_inv`, `specPool_ltFrom`: the invariant is kept and comparator objects are only ever copied or
  exchanged between the sets of the pool. -/
namespace AmcVerif.FSPool
open AmcVerif AmcVerif.FS AmcVerif.Sets AmcVerif.Bridge.FlatSet
variable {α : Type}

/-- one `amc::FlatSet` object: the comparator object it holds and its content -/
structure FSet (α : Type) where
  lt : α → α → Bool
  l : List α

/-- the invariant of one set: ITS comparator object is a strict weak order and ITS content is strictly increasing under it -/
def FSet.Inv (s : FSet α) : Prop := SWO s.lt ∧ Sorted s.lt s.l

/-- every set of the pool is strictly sorted under its own comparator object -/
def PoolInv (p : List (FSet α)) : Prop := ∀ s ∈ p, SWO s.lt ∧ Sorted s.lt s.l

/-- `stateless` is `std::is_empty<Compare>::value`: all objects of a stateless comparator type compare alike -/
def StatelessOK (stateless : Bool) (p : List (FSet α)) : Prop := stateless = true → ∀ s ∈ p, ∀ t ∈ p, s.lt = t.lt

/-- the comparator objects of `p'` all come from `p` (copied or exchanged, never made up) -/
def LtFrom (p p' : List (FSet α)) : Prop := ∀ s' ∈ p', ∃ s ∈ p, s'.lt = s.lt

/-- pool operations.  `i`, `j` designate sets of the pool (a step on a set that does not exist is skipped); positions are indices
    into the content -/
inductive FOp (α : Type) where
  /-- `p[i].insert(v)` -/
  | insert (i : Nat) (v : α)
  /-- `p[i].emplace_hint(begin() + hint, v)`; guarded: `hint ≤ size()` (an iterator outside `[begin, end]` is undefined behaviour
      at the call site) -/
  | emplaceHint (i hint : Nat) (v : α)
  /-- `p[i].erase(v)` -/
  | eraseKey (i : Nat) (v : α)
  /-- `p[i].erase(begin() + pos)`; guarded: `pos < size()` -/
  | erasePos (i pos : Nat)
  /-- `p[i].clear()` -/
  | clear (i : Nat)
  /-- `p[i].insert(first, last)` -/
  | insertRange (i : Nat) (vs : List α)
  /-- `p[i].merge(p[j])`, the overload for the same comparator TYPE; `i ≠ j` -/
  | merge (i j : Nat)
  /-- `p[i].swap(p[j])`; `i ≠ j` (swapping a set with itself changes nothing) -/
  | swap (i j : Nat)
  /-- `p[i] = p[j]`: content and comparator object are copied (defaulted `operator=`, no generated function) -/
  | copyAssign (i j : Nat)
  /-- `p[i] = std::move(p[j])`: content and comparator object go to `p[i]`, `p[j]` is left empty with its comparator object
      (defaulted `operator=`, no generated function); `i ≠ j` -/
  | moveAssign (i j : Nat)

/-- run a member of one set on set `i` (`f` returns `none` when the member is undefined behaviour) -/
def on1 (p : List (FSet α)) (i : Nat) (f : FSet α → Option (FSet α)) : Option (List (FSet α)) :=
  match p[i]? with
  | none => some p
  | some s =>
    match f s with
    | none => none
    | some s' => some (p.set i s')

/-- run a member of two sets on the sets `i ≠ j` -/
def on2 (p : List (FSet α)) (i j : Nat) (f : FSet α → FSet α → Option (FSet α × FSet α)) : Option (List (FSet α)) :=
  if i = j then some p
  else
    match p[i]? with
    | none => some p
    | some s =>
      match p[j]? with
      | none => some p
      | some t =>
        match f s t with
        | none => none
        | some r => some ((p.set i r.1).set j r.2)

/-- one operation, with the generated members; `none` exactly when the generated member returned `none` (undefined behaviour) -/
def stepPool (stateless : Bool) (p : List (FSet α)) : FOp α → Option (List (FSet α))
  | .insert i v => on1 p i (fun s => (Gen.FlatSet.insert s.lt s.l v).map (fun r => ⟨s.lt, r.1⟩))
  | .emplaceHint i hint v =>
    on1 p i (fun s => if hint ≤ s.l.length then (Gen.FlatSet.emplace_hint s.lt s.l hint v).map (fun r => ⟨s.lt, r.1⟩) else some s)
  | .eraseKey i v => on1 p i (fun s => (Gen.FlatSet.erase s.lt s.l v).map (fun r => ⟨s.lt, r.1⟩))
  | .erasePos i pos =>
    on1 p i (fun s => if pos < s.l.length then (Gen.FlatSet.erase_at s.lt s.l pos).map (fun r => ⟨s.lt, r.1⟩) else some s)
  | .clear i => on1 p i (fun s => (Gen.FlatSet.clear s.lt s.l).map (fun r => ⟨s.lt, r.1⟩))
  | .insertRange i vs => on1 p i (fun s => (Gen.FlatSet.insert_range s.lt s.l vs).map (fun r => ⟨s.lt, r.1⟩))
  | .merge i j =>
    on2 p i j (fun s t => (Gen.FlatSet.merge s.lt s.l t.lt t.l stateless).map (fun r => (⟨s.lt, r.1⟩, ⟨t.lt, r.2.1⟩)))
  | .swap i j =>
    on2 p i j (fun s t => (Gen.FlatSet.swap s.lt s.l t.lt t.l).map (fun r => (⟨r.1, r.2.1⟩, ⟨r.2.2.1, r.2.2.2.1⟩)))
  | .copyAssign i j => on2 p i j (fun _ t => some (t, t))
  | .moveAssign i j => on2 p i j (fun _ t => some (t, ⟨t.lt, []⟩))

/-- a history of operations; stops at the first undefined behaviour -/
def runPool (stateless : Bool) : List (FSet α) → List (FOp α) → Option (List (FSet α))
  | p, [] => some p
  | p, op :: ops =>
    match stepPool stateless p op with
    | none => none
    | some p' => runPool stateless p' ops

/-! ### the specification -/

def spec1 (p : List (FSet α)) (i : Nat) (g : FSet α → FSet α) : List (FSet α) :=
  match p[i]? with
  | none => p
  | some s => p.set i (g s)

def spec2 (p : List (FSet α)) (i j : Nat) (g : FSet α → FSet α → FSet α × FSet α) : List (FSet α) :=
  if i = j then p
  else
    match p[i]? with
    | none => p
    | some s =>
      match p[j]? with
      | none => p
      | some t => (p.set i (g s t).1).set j (g s t).2

/-- what one operation does, with the functions of the specification: every decision about set `i` is taken with `p[i].lt` -/
def specPool (p : List (FSet α)) : FOp α → List (FSet α)
  | .insert i v => spec1 p i (fun s => ⟨s.lt, (insertVal s.lt s.l v).1⟩)
  | .emplaceHint i hint v => spec1 p i (fun s => if hint ≤ s.l.length then ⟨s.lt, (insertVal s.lt s.l v).1⟩ else s)
  | .eraseKey i v => spec1 p i (fun s => ⟨s.lt, (eraseKey s.lt s.l v).1⟩)
  | .erasePos i pos => spec1 p i (fun s => if pos < s.l.length then ⟨s.lt, s.l.eraseIdx pos⟩ else s)
  | .clear i => spec1 p i (fun s => ⟨s.lt, []⟩)
  | .insertRange i vs => spec1 p i (fun s => ⟨s.lt, insertAll s.lt s.l vs⟩)
  | .merge i j => spec2 p i j (fun s t => (⟨s.lt, (mergeFrom s.lt s.l t.l).1⟩, ⟨t.lt, (mergeFrom s.lt s.l t.l).2⟩))
  | .swap i j => spec2 p i j (fun s t => (t, s))
  | .copyAssign i j => spec2 p i j (fun _ t => (t, t))
  | .moveAssign i j => spec2 p i j (fun _ t => (t, ⟨t.lt, []⟩))

def specRun (p : List (FSet α)) (ops : List (FOp α)) : List (FSet α) := ops.foldl specPool p

/-! ### generic lemmas about `on1` / `on2` / `spec1` / `spec2` -/

theorem on1_eq (p : List (FSet α)) (i : Nat) (f : FSet α → Option (FSet α)) (g : FSet α → FSet α)
    (h : ∀ s, p[i]? = some s → f s = some (g s)) : on1 p i f = some (spec1 p i g) := by
  unfold on1 spec1
  cases hs : p[i]? with
  | none => rfl
  | some s => simp only [h s hs]

theorem on2_eq (p : List (FSet α)) (i j : Nat) (f : FSet α → FSet α → Option (FSet α × FSet α))
    (g : FSet α → FSet α → FSet α × FSet α)
    (h : ∀ s t, i ≠ j → p[i]? = some s → p[j]? = some t → f s t = some (g s t)) : on2 p i j f = some (spec2 p i j g) := by
  unfold on2 spec2
  by_cases hij : i = j
  · simp only [hij, if_true]
  · simp only [hij, if_false]
    cases hs : p[i]? with
    | none => rfl
    | some s =>
      cases ht : p[j]? with
      | none => rfl
      | some t => simp only [h s t hij hs ht]

theorem spec1_length (p : List (FSet α)) (i : Nat) (g : FSet α → FSet α) : (spec1 p i g).length = p.length := by
  unfold spec1
  cases p[i]? <;> simp

theorem spec2_length (p : List (FSet α)) (i j : Nat) (g : FSet α → FSet α → FSet α × FSet α) :
    (spec2 p i j g).length = p.length := by
  unfold spec2
  by_cases hij : i = j
  · simp [hij]
  · simp only [hij, if_false]
    cases p[i]? with
    | none => rfl
    | some s => cases p[j]? <;> simp

/-- set `i` is rewritten by `g`, every other set is untouched -/
theorem spec1_getElem? (p : List (FSet α)) (i : Nat) (g : FSet α → FSet α) (k : Nat) :
    (spec1 p i g)[k]? = if k = i then (p[i]?).map g else p[k]? := by
  unfold spec1
  cases hs : p[i]? with
  | none =>
    by_cases hk : k = i
    · subst hk; simp [hs]
    · simp [hk]
  | some s =>
    have hlt : i < p.length := by
      cases Nat.lt_or_ge i p.length with
      | inl h => exact h
      | inr h => rw [List.getElem?_eq_none h] at hs; cases hs
    by_cases hk : k = i
    · subst hk; simp [hlt]
    · have : ¬ i = k := fun h => hk h.symm
      simp [hk, this]

/-- sets `i` and `j` are rewritten by `g`, every other set is untouched -/
theorem spec2_getElem? (p : List (FSet α)) (i j : Nat) (g : FSet α → FSet α → FSet α × FSet α) (hij : i ≠ j) (s t : FSet α)
    (hs : p[i]? = some s) (ht : p[j]? = some t) :
    (spec2 p i j g)[i]? = some (g s t).1 ∧ (spec2 p i j g)[j]? = some (g s t).2
      ∧ ∀ k, k ≠ i → k ≠ j → (spec2 p i j g)[k]? = p[k]? := by
  have hi : i < p.length := by
    cases Nat.lt_or_ge i p.length with
    | inl h => exact h
    | inr h => rw [List.getElem?_eq_none h] at hs; cases hs
  have hj : j < p.length := by
    cases Nat.lt_or_ge j p.length with
    | inl h => exact h
    | inr h => rw [List.getElem?_eq_none h] at ht; cases ht
  have hji : ¬ j = i := fun h => hij h.symm
  unfold spec2
  simp only [hij, if_false, hs, ht]
  refine ⟨?_, ?_, ?_⟩
  · simp [hji, hi]
  · simp [hj]
  · intro k hki hkj
    have h1 : ¬ i = k := fun h => hki h.symm
    have h2 : ¬ j = k := fun h => hkj h.symm
    simp [h1, h2]

/-- skipped steps: a set that does not exist, or twice the same set -/
theorem spec2_skip (p : List (FSet α)) (i j : Nat) (g : FSet α → FSet α → FSet α × FSet α)
    (h : i = j ∨ p[i]? = none ∨ p[j]? = none) : spec2 p i j g = p := by
  unfold spec2
  by_cases hij : i = j
  · simp [hij]
  · simp only [hij, if_false]
    rcases h with h | h | h
    · exact absurd h hij
    · simp [h]
    · cases p[i]? <;> simp [h]

theorem mem_of_getElem?' {p : List (FSet α)} {i : Nat} {s : FSet α} (h : p[i]? = some s) : s ∈ p := List.mem_of_getElem? h

theorem spec1_inv (p : List (FSet α)) (i : Nat) (g : FSet α → FSet α) (hinv : PoolInv p)
    (hg : ∀ s, p[i]? = some s → s.Inv → (g s).Inv) : PoolInv (spec1 p i g) := by
  unfold spec1
  cases hs : p[i]? with
  | none => exact hinv
  | some s =>
    intro s' hs'
    rcases List.mem_or_eq_of_mem_set hs' with h | h
    · exact hinv s' h
    · subst h; exact hg s hs (hinv s (mem_of_getElem?' hs))

theorem spec2_inv (p : List (FSet α)) (i j : Nat) (g : FSet α → FSet α → FSet α × FSet α) (hinv : PoolInv p)
    (hg : ∀ s t, i ≠ j → p[i]? = some s → p[j]? = some t → s.Inv → t.Inv → (g s t).1.Inv ∧ (g s t).2.Inv) :
    PoolInv (spec2 p i j g) := by
  unfold spec2
  by_cases hij : i = j
  · simpa [hij] using hinv
  · simp only [hij, if_false]
    cases hs : p[i]? with
    | none => exact hinv
    | some s =>
      cases ht : p[j]? with
      | none => exact hinv
      | some t =>
        have h := hg s t hij hs ht (hinv s (mem_of_getElem?' hs)) (hinv t (mem_of_getElem?' ht))
        intro s' hs'
        rcases List.mem_or_eq_of_mem_set hs' with h' | h'
        · rcases List.mem_or_eq_of_mem_set h' with h'' | h''
          · exact hinv s' h''
          · subst h''; exact h.1
        · subst h'; exact h.2

theorem spec1_ltFrom (p : List (FSet α)) (i : Nat) (g : FSet α → FSet α) (hg : ∀ s, p[i]? = some s → (g s).lt = s.lt) :
    LtFrom p (spec1 p i g) := by
  unfold spec1
  cases hs : p[i]? with
  | none => exact fun s' h => ⟨s', h, rfl⟩
  | some s =>
    intro s' hs'
    rcases List.mem_or_eq_of_mem_set hs' with h | h
    · exact ⟨s', h, rfl⟩
    · subst h; exact ⟨s, mem_of_getElem?' hs, hg s hs⟩

theorem spec2_ltFrom (p : List (FSet α)) (i j : Nat) (g : FSet α → FSet α → FSet α × FSet α)
    (hg : ∀ s t, p[i]? = some s → p[j]? = some t →
      ((g s t).1.lt = s.lt ∨ (g s t).1.lt = t.lt) ∧ ((g s t).2.lt = s.lt ∨ (g s t).2.lt = t.lt)) :
    LtFrom p (spec2 p i j g) := by
  unfold spec2
  by_cases hij : i = j
  · simp only [hij, if_true]; exact fun s' h => ⟨s', h, rfl⟩
  · simp only [hij, if_false]
    cases hs : p[i]? with
    | none => exact fun s' h => ⟨s', h, rfl⟩
    | some s =>
      cases ht : p[j]? with
      | none => exact fun s' h => ⟨s', h, rfl⟩
      | some t =>
        have h := hg s t hs ht
        have ms := mem_of_getElem?' hs
        have mt := mem_of_getElem?' ht
        intro s' hs'
        rcases List.mem_or_eq_of_mem_set hs' with h' | h'
        · rcases List.mem_or_eq_of_mem_set h' with h'' | h''
          · exact ⟨s', h'', rfl⟩
          · subst h''
            rcases h.1 with e | e
            · exact ⟨s, ms, e⟩
            · exact ⟨t, mt, e⟩
        · subst h'
          rcases h.2 with e | e
          · exact ⟨s, ms, e⟩
          · exact ⟨t, mt, e⟩

theorem LtFrom.refl (p : List (FSet α)) : LtFrom p p := fun s h => ⟨s, h, rfl⟩

theorem LtFrom.trans {p q r : List (FSet α)} (h1 : LtFrom p q) (h2 : LtFrom q r) : LtFrom p r := by
  intro s hs
  obtain ⟨t, ht, e⟩ := h2 s hs
  obtain ⟨u, hu, e'⟩ := h1 t ht
  exact ⟨u, hu, e.trans e'⟩

/-- comparator objects that all compare alike still do after being copied or exchanged -/
theorem StatelessOK.of_ltFrom {stateless : Bool} {p p' : List (FSet α)} (h : LtFrom p p') (hst : StatelessOK stateless p) :
    StatelessOK stateless p' := by
  intro hb s hs t ht
  obtain ⟨s0, hs0, es⟩ := h s hs
  obtain ⟨t0, ht0, et⟩ := h t ht
  rw [es, et]
  exact hst hb s0 hs0 t0 ht0

/-! ### facts of the specification used below -/

theorem eraseKey_sorted' {lt : α → α → Bool} (l : List α) (hs : Sorted lt l) (k : α) : Sorted lt (eraseKey lt l k).1 := by
  unfold eraseKey
  cases hf : findC lt l k with
  | mk o c => cases o <;> simp <;> first | exact hs | exact eraseIdx_sorted l hs _

/-- what stays in the other set after `merge` is a subsequence of it -/
theorem mergeFrom_rest_sublist (lt : α → α → Bool) (l o : List α) : (mergeFrom lt l o).2.Sublist o := by
  rw [mergeFrom_eq_foldl]
  suffices h : ∀ (vs : List α) (l kept : List α), (vs.foldl (mergeStepM lt) (l, kept)).2.Sublist (kept ++ vs) by
    simpa using h o l []
  intro vs
  induction vs with
  | nil => intro l kept; simp
  | cons v t ih =>
    intro l kept
    have hstep : mergeStepM lt (l, kept) v
        = if (insertVal lt l v).2.2 then ((insertVal lt l v).1, kept) else (l, kept ++ [v]) := rfl
    simp only [List.foldl_cons, hstep]
    cases (insertVal lt l v).2.2
    · simpa using ih l (kept ++ [v])
    · simp only [if_true]
      refine (ih _ kept).trans ?_
      exact List.Sublist.append (List.Sublist.refl _) (List.sublist_cons_self v t)

theorem mergeFrom_sorted {lt : α → α → Bool} (hswo : SWO lt) (l o : List α) (hs : Sorted lt l) : Sorted lt (mergeFrom lt l o).1 := by
  rw [mergeFrom_eq_foldl]; exact foldl_mergeStepM_sorted hswo o l [] hs

/-- the rest of the other set keeps the order of ITS comparator, whatever the comparator the merge was done with -/
theorem mergeFrom_rest_sorted (lt lt_o : α → α → Bool) (l o : List α) (ho : Sorted lt_o o) : Sorted lt_o (mergeFrom lt l o).2 :=
  List.Pairwise.sublist (mergeFrom_rest_sublist lt l o) ho

theorem insertHintC_fst' {lt : α → α → Bool} (hswo : SWO lt) (l : List α) (hs : Sorted lt l) (h : Nat) (hh : h ≤ l.length) (v : α) :
    (insertHintC lt l h v).1 = (insertVal lt l v).1 :=
  (congrArg Prod.fst (insertHintC_proj hswo l hs h hh v)).trans (congrArg Prod.fst (insertHint_eq_insertVal hswo l hs h hh v))

/-- `find` of the counted model designates an element equivalent to the key (under the comparator it was run with) -/
theorem findC_some_equiv {lt : α → α → Bool} (hswo : SWO lt) (l : List α) (hs : Sorted lt l) (k : α) (i : Nat)
    (hf : (findC lt l k).1 = some i) : ∃ y, l[i]? = some y ∧ Equiv lt y k := by
  have hlb := lowerBound_eq_lowerIdx hswo l hs k
  unfold findC at hf
  generalize hp : lowerBound lt l k 0 l.length = q at hlb hf
  obtain ⟨i0, c⟩ := q
  simp only at hlb hf
  subst hlb
  cases hl : l[lowerIdx lt l k]? with
  | none => rw [hl] at hf; cases hf
  | some z =>
    rw [hl] at hf
    simp only at hf
    cases hkz : lt k z with
    | true => rw [hkz] at hf; cases hf
    | false =>
      rw [hkz] at hf
      simp only [Bool.false_eq_true, if_false, Option.some.injEq] at hf
      subst hf
      exact ⟨z, hl, lowerIdx_at l k z hl, hkz⟩

/-! ### one step -/

/-- comparator objects are only ever copied or exchanged between the sets of the pool (no hypothesis needed) -/
theorem specPool_ltFrom (p : List (FSet α)) (op : FOp α) : LtFrom p (specPool p op) := by
  cases op with
  | insert i v => exact spec1_ltFrom p i _ (fun s _ => rfl)
  | emplaceHint i hint v => exact spec1_ltFrom p i _ (fun s _ => by by_cases h : hint ≤ s.l.length <;> simp [h])
  | eraseKey i v => exact spec1_ltFrom p i _ (fun s _ => rfl)
  | erasePos i pos => exact spec1_ltFrom p i _ (fun s _ => by by_cases h : pos < s.l.length <;> simp [h])
  | clear i => exact spec1_ltFrom p i _ (fun s _ => rfl)
  | insertRange i vs => exact spec1_ltFrom p i _ (fun s _ => rfl)
  | merge i j => exact spec2_ltFrom p i j _ (fun s t _ _ => ⟨Or.inl rfl, Or.inr rfl⟩)
  | swap i j => exact spec2_ltFrom p i j _ (fun s t _ _ => ⟨Or.inr rfl, Or.inl rfl⟩)
  | copyAssign i j => exact spec2_ltFrom p i j _ (fun s t _ _ => ⟨Or.inr rfl, Or.inr rfl⟩)
  | moveAssign i j => exact spec2_ltFrom p i j _ (fun s t _ _ => ⟨Or.inr rfl, Or.inr rfl⟩)

/-- every set stays strictly sorted under ITS OWN comparator object -/
theorem specPool_inv (p : List (FSet α)) (op : FOp α) (hinv : PoolInv p) : PoolInv (specPool p op) := by
  cases op with
  | insert i v => exact spec1_inv p i _ hinv (fun s _ h => ⟨h.1, insertVal_sorted h.1 s.l h.2 v⟩)
  | emplaceHint i hint v =>
    refine spec1_inv p i _ hinv (fun s _ h => ?_)
    by_cases hh : hint ≤ s.l.length
    · simp only [hh, if_true]; exact ⟨h.1, insertVal_sorted h.1 s.l h.2 v⟩
    · simp only [hh, if_false]; exact h
  | eraseKey i v => exact spec1_inv p i _ hinv (fun s _ h => ⟨h.1, eraseKey_sorted' s.l h.2 v⟩)
  | erasePos i pos =>
    refine spec1_inv p i _ hinv (fun s _ h => ?_)
    by_cases hh : pos < s.l.length
    · simp only [hh, if_true]; exact ⟨h.1, eraseIdx_sorted s.l h.2 pos⟩
    · simp only [hh, if_false]; exact h
  | clear i => exact spec1_inv p i _ hinv (fun s _ h => ⟨h.1, List.Pairwise.nil⟩)
  | insertRange i vs => exact spec1_inv p i _ hinv (fun s _ h => ⟨h.1, insertAll_sorted h.1 vs s.l h.2⟩)
  | merge i j =>
    exact spec2_inv p i j _ hinv (fun s t _ _ _ hs ht =>
      ⟨⟨hs.1, mergeFrom_sorted hs.1 s.l t.l hs.2⟩, ⟨ht.1, mergeFrom_rest_sorted s.lt t.lt s.l t.l ht.2⟩⟩)
  | swap i j => exact spec2_inv p i j _ hinv (fun s t _ _ _ hs ht => ⟨ht, hs⟩)
  | copyAssign i j => exact spec2_inv p i j _ hinv (fun s t _ _ _ _ ht => ⟨ht, ht⟩)
  | moveAssign i j => exact spec2_inv p i j _ hinv (fun s t _ _ _ _ ht => ⟨ht, ⟨ht.1, List.Pairwise.nil⟩⟩)

theorem specPool_length (p : List (FSet α)) (op : FOp α) : (specPool p op).length = p.length := by
  cases op <;> first | exact spec1_length _ _ _ | exact spec2_length _ _ _ _

/-- a step with the generated members is never undefined behaviour and is the step of the specification -/
theorem stepPool_eq (stateless : Bool) (p : List (FSet α)) (op : FOp α) (hinv : PoolInv p) (hst : StatelessOK stateless p) :
    stepPool stateless p op = some (specPool p op) := by
  cases op with
  | insert i v =>
    unfold stepPool specPool
    refine on1_eq p i _ _ (fun s hs => ?_)
    have h := hinv s (mem_of_getElem?' hs)
    have heq := insertValC_eq h.1 s.l h.2 v
    have h1 : (insertValR s.lt s.l v).1 = (insertVal s.lt s.l v).1 := congrArg (·.1) heq
    simp only [insert_eq, Option.map_some, h1]
  | emplaceHint i hint v =>
    unfold stepPool specPool
    refine on1_eq p i _ _ (fun s hs => ?_)
    have h := hinv s (mem_of_getElem?' hs)
    by_cases hh : hint ≤ s.l.length
    · simp only [hh, if_true, emplace_hint_eq s.lt s.l hint hh v, Option.map_some, insertHintC_fst' h.1 s.l h.2 hint hh v]
    · simp only [hh, if_false]
  | eraseKey i v =>
    unfold stepPool specPool
    refine on1_eq p i _ _ (fun s _ => ?_)
    simp only [erase_eq, Option.map_some]
  | erasePos i pos =>
    unfold stepPool specPool
    refine on1_eq p i _ _ (fun s _ => ?_)
    by_cases hh : pos < s.l.length
    · simp only [hh, if_true, erase_at_eq s.lt s.l pos hh, Option.map_some]
    · simp only [hh, if_false]
  | clear i =>
    unfold stepPool specPool
    refine on1_eq p i _ _ (fun s _ => ?_)
    simp only [clear_eq, Option.map_some]
  | insertRange i vs =>
    unfold stepPool specPool
    refine on1_eq p i _ _ (fun s hs => ?_)
    have h := hinv s (mem_of_getElem?' hs)
    simp only [insert_range_eq h.1 s.l h.2 vs, Option.map_some]
  | merge i j =>
    unfold stepPool specPool
    refine on2_eq p i j _ _ (fun s t _ hs ht => ?_)
    have ms := mem_of_getElem?' hs
    have mt := mem_of_getElem?' ht
    have h := hinv s ms
    obtain ⟨c, hc⟩ := merge_eq_inv h.1 s.l h.2 t.lt t.l stateless (hinv t mt).2 (fun hb => hst hb t mt s ms)
    simp only [hc, Option.map_some]
  | swap i j =>
    unfold stepPool specPool
    refine on2_eq p i j _ _ (fun s t _ _ _ => ?_)
    simp only [swap_eq, Option.map_some]
  | copyAssign i j => exact on2_eq p i j _ _ (fun _ _ _ _ _ => rfl)
  | moveAssign i j => exact on2_eq p i j _ _ (fun _ _ _ _ _ => rfl)

/-! ### histories -/

theorem specRun_inv (ops : List (FOp α)) : ∀ p : List (FSet α), PoolInv p → PoolInv (specRun p ops) := by
  induction ops with
  | nil => intro p h; exact h
  | cons op ops ih => intro p h; exact ih _ (specPool_inv p op h)

theorem specRun_ltFrom (ops : List (FOp α)) : ∀ p : List (FSet α), LtFrom p (specRun p ops) := by
  induction ops with
  | nil => intro p; exact LtFrom.refl p
  | cons op ops ih => intro p; exact (specPool_ltFrom p op).trans (ih _)

theorem specRun_length (ops : List (FOp α)) : ∀ p : List (FSet α), (specRun p ops).length = p.length := by
  induction ops with
  | nil => intro p; rfl
  | cons op ops ih => intro p; exact (ih _).trans (specPool_length p op)

theorem runPool_eq (stateless : Bool) (ops : List (FOp α)) :
    ∀ p : List (FSet α), PoolInv p → StatelessOK stateless p → runPool stateless p ops = some (specRun p ops) := by
  induction ops with
  | nil => intro p _ _; rfl
  | cons op ops ih =>
    intro p hinv hst
    rw [runPool, stepPool_eq stateless p op hinv hst]
    exact ih _ (specPool_inv p op hinv) (hst.of_ltFrom (specPool_ltFrom p op))

theorem runPool_append (stateless : Bool) (ops ops' : List (FOp α)) :
    ∀ p : List (FSet α), runPool stateless p (ops ++ ops') = (runPool stateless p ops).bind (fun q => runPool stateless q ops') := by
  induction ops with
  | nil => intro p; rfl
  | cons op ops ih =>
    intro p
    simp only [List.cons_append, runPool]
    cases stepPool stateless p op with
    | none => rfl
    | some q => exact ih q

/-! ### lookups in one set of the pool -/

/-- `find` with the generated member: the position of an element equivalent to the key under the comparator object of the set
    when there is one, `end()` otherwise -/
theorem gen_find_spec {lt : α → α → Bool} (hswo : SWO lt) (l : List α) (hs : Sorted lt l) (k : α) :
    ∃ r, Gen.FlatSet.find lt l k = some r
      ∧ ((∃ x ∈ l, Equiv lt x k) → r.1 < l.length ∧ ∃ y, l[r.1]? = some y ∧ Equiv lt y k)
      ∧ ((¬ ∃ x ∈ l, Equiv lt x k) → r.1 = l.length) := by
  refine ⟨_, find_eq lt l k, ?_, ?_⟩
  · intro hx
    obtain ⟨i, hf, y, hy, he⟩ := (findC_some_iff hswo l hs k).mpr hx
    simp only [findIdx, hf]
    exact ⟨findC_some_lt lt l k i hf, y, hy, he⟩
  · intro hx
    cases hf : (findC lt l k).1 with
    | none => simp [findIdx]
    | some i =>
      obtain ⟨y, hy, he⟩ := findC_some_equiv hswo l hs k i hf
      exact absurd ⟨y, List.mem_of_getElem? hy, he⟩ hx

/-- `contains` with the generated member: true exactly when an element equivalent to the key under the comparator object of the
    set is present -/
theorem gen_contains_spec {lt : α → α → Bool} (hswo : SWO lt) (l : List α) (hs : Sorted lt l) (k : α) :
    ∃ c, Gen.FlatSet.contains lt l k = some c ∧ (c.1 = true ↔ ∃ x ∈ l, Equiv lt x k) := by
  refine ⟨_, contains_eq lt l k, ?_⟩
  rw [← findC_some_iff hswo l hs k]
  constructor
  · intro h
    cases hf : (findC lt l k).1 with
    | none => rw [hf] at h; cases h
    | some i => exact ⟨i, rfl, findC_some_equiv hswo l hs k i hf⟩
  · rintro ⟨i, hf, _⟩
    simp [hf]

/-! ### a comparator type with state, for closed instances -/

/-- `ModLess(m)`: compares the remainders modulo `m`; two objects with different `m` order the same values differently -/
def modLess (m : Nat) : Nat → Nat → Bool := fun a b => a % m < b % m

theorem modLess_swo (m : Nat) : SWO (modLess m) := by
  refine ⟨fun a => ?_, fun a b c h1 h2 => ?_, fun a b c h => ?_⟩
  · simp [modLess]
  · simp only [modLess, decide_eq_true_eq] at *; omega
  · simp only [modLess, decide_eq_true_eq] at *; omega

end AmcVerif.FSPool
