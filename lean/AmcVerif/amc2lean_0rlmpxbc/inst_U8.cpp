#define AMC_NONSTD_FEATURES
#include <amc/smallvector.hpp>
#include <amc/fixedcapacityvector.hpp>
struct E { int v; };
template class amc::vec::SmallVectorBase<E, amc::allocator<E>, unsigned char>;
template class amc::vec::StdVectorBase<E, amc::allocator<E>, unsigned char>;
template class amc::vec::StaticVectorBase<E, unsigned char>;
template unsigned char amc::vec::SafeNextCapacity<unsigned char>(unsigned char, uintmax_t, bool);
void amc2lean_use_check() { amc::vec::ExceptionGrowingPolicy::Check(1, 2); }
void amc2lean_use_swapdyn(amc::vec::ElemWithPtrStorage<E>& a, amc::vec::ElemWithPtrStorage<E>& b, E*& p, E*& q) {
  amc::vec::SwapDynStorage(a, b); amc::vec::SwapDynStorage(a, p); amc::vec::SwapDynStorage(p, a); amc::vec::SwapDynStorage(p, q);
}
