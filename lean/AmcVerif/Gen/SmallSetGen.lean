/- smallset2lean.py FAILED on the current source: TRANSLATION-BROKEN smallset2lean: [SetType = amc::FlatSet<int>] smallset.hpp:590: call of `ComputeSortedPtrVec` of an unknown shape
 -/
namespace AmcVerif.Gen.SmallSet
end AmcVerif.Gen.SmallSet
