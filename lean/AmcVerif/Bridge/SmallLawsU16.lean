import AmcVerif.Model.WordLaws
import AmcVerif.Gen.WordsU16
/-! INSTANTIATED from Bridge/SmallLaws.lean.in for size type U16 on every run: the *generated* base-class
members (SmallVectorBase `SVB.*`, StdVectorBase `DVB.*`, StaticVectorBase `FVB.*`, `SafeNextCapacity`, `Check`)
satisfy the word laws. One uniform script: case split on the representation invariant, unfold the generated
definition, split every `if`, close the arithmetic with `omega`. -/
namespace AmcVerif.Bridge.U16
open AmcVerif AmcVerif.Gen.U16

local macro "words_auto" : tactic =>
  `(tactic| ((try simp only [decide_eq_true_eq, Bool.and_eq_true, Bool.not_eq_true', decide_eq_false_iff_not, ne_eq,
              decide_not, Bool.not_eq_eq_eq_not, Bool.not_true, Bool.not_false, Bool.or_eq_true] at *)
             <;> (repeat' split)
             <;> (first | omega | (simp_all <;> omega) | simp_all)))

local macro "leaf_auto" : tactic =>
  `(tactic| ((try simp only [SRep, kMax, SVB.capacity, SVB.size, SVB.isSmall, decide_eq_true_eq, Bool.and_eq_true, Bool.not_eq_true',
              decide_eq_false_iff_not, ne_eq, decide_not, Bool.not_eq_eq_eq_not, Bool.not_true, Bool.not_false,
              Bool.or_eq_true] at *)
             <;> (repeat' split)
             <;> (first | omega | (simp_all <;> omega) | simp_all)))

theorem kMax_pos : 0 < kMax := by decide

/- ------------------------------------------------------------------------------------------------------------
   SafeNextCapacity and Check
   ------------------------------------------------------------------------------------------------------------ -/

theorem safeNext_exact (old n : Nat) (h : n ≤ kMax) : SafeNextCapacity old n true = .ok n := by
  unfold kMax at h; unfold SafeNextCapacity
  simp only [↓reduceIte] <;> first | rfl | (congr 1; exact Nat.mod_eq_of_lt (by omega))

/-- the unclamped-then-clamped growth target: max(⌈1.5·old⌉, n) limited to the size_type maximum -/
abbrev nextCap (old n : Nat) : Nat := nextCapOf kMax old n

/-- a growth request that fits the size_type succeeds with `nextCap` -/
theorem safeNext_grow (old n : Nat) (h : n ≤ kMax) (h62 : old < 2 ^ 62) :
    SafeNextCapacity old n false = .ok (nextCap old n) := by
  unfold kMax at *; unfold nextCap nextCapOf kMax
  unfold SafeNextCapacity
  simp only [Bool.false_eq_true, ↓reduceIte, decide_eq_true_eq]
  have e1 : (3 * old) % 18446744073709551616 = 3 * old := Nat.mod_eq_of_lt (by omega)
  have e2 : (3 * old + 1) % 18446744073709551616 = 3 * old + 1 := Nat.mod_eq_of_lt (by omega)
  rw [e1, e2]
  split
  · rename_i hh
    exfalso
    revert hh
    simp only [Nat.min_def, Nat.max_def]; repeat' split
    all_goals omega
  · first
      | rfl
      | (congr 1
         apply Nat.mod_eq_of_lt
         simp only [Nat.min_def, Nat.max_def]; repeat' split
         all_goals omega)

theorem nextCap_props (old n : Nat) (h : n ≤ kMax) :
    n ≤ nextCap old n ∧ nextCap old n ≤ kMax ∧ (nextCap old n = kMax ∨ (3 * old + 1) / 2 ≤ nextCap old n) := by
  unfold nextCap nextCapOf; simp only [Nat.min_def, Nat.max_def]; repeat' split
  all_goals omega

/-- a request beyond the size_type maximum is refused with `overflow_error` -/
theorem safeNext_overflow (old n : Nat) (h : kMax < n) : SafeNextCapacity old n false = .error .overflow := by
  unfold kMax at *
  unfold SafeNextCapacity
  simp only [Bool.false_eq_true, ↓reduceIte, decide_eq_true_eq]
  rw [if_pos]
  simp only [Nat.min_def, Nat.max_def]; repeat' split
  all_goals omega

theorem check_ok (c m : Nat) (h : c ≤ m) : Check c m = .ok [] := by
  unfold Check; simp; omega

theorem check_err (c m : Nat) (h : m < c) : Check c m = .error .outOfRange := by
  unfold Check; simp [h]

/- ------------------------------------------------------------------------------------------------------------
   SmallVectorBase
   ------------------------------------------------------------------------------------------------------------ -/

theorem isSmall_iff (t : VB) : SVB.isSmall t = true ↔ t.capa < t.size := by simp [SVB.isSmall]

theorem begin_small (t : VB) : SVB.begin t = if SVB.isSmall t then PtrV.inl 0 else t.dyn := by
  unfold SVB.begin SVB.isSmall; split <;> simp_all

theorem bounds (N : Nat) (hN : N < kMax) (t : VB) (h : SRep N kMax t) :
    SVB.size t ≤ SVB.capacity t ∧ SVB.capacity t ≤ kMax ∧ (SVB.isSmall t = true → SVB.capacity t = N) := by
  unfold SRep at h; unfold kMax at *; unfold SVB.size SVB.capacity SVB.isSmall
  rcases h with ⟨h1, h2⟩ | ⟨h1, h2⟩ | ⟨h1, h2⟩ <;> words_auto

theorem ctor_law (N : Nat) (hN : N < kMax) (hN0 : 0 < N) (t0 : VB) :
    SRep N kMax (SVB.ctor t0 N) ∧ SVB.size (SVB.ctor t0 N) = 0 ∧ SVB.capacity (SVB.ctor t0 N) = N
      ∧ SVB.isSmall (SVB.ctor t0 N) = true := by
  unfold SRep kMax at *; unfold SVB.size SVB.capacity SVB.isSmall SVB.ctor
  words_auto

theorem incrSize_law (N : Nat) (hN : N < kMax) (t : VB) (h : SRep N kMax t) (room : SVB.size t < SVB.capacity t) :
    SRep N kMax (SVB.incrSize t) ∧ SVB.size (SVB.incrSize t) = SVB.size t + 1
      ∧ SVB.capacity (SVB.incrSize t) = SVB.capacity t ∧ SVB.isSmall (SVB.incrSize t) = SVB.isSmall t
      ∧ (SVB.incrSize t).dyn = t.dyn := by
  unfold SRep at *; unfold kMax at *; unfold SVB.size SVB.capacity SVB.isSmall SVB.incrSize at *
  rcases h with ⟨h1, h2⟩ | ⟨h1, h2⟩ | ⟨h1, h2⟩ <;> words_auto

theorem decrSize_law (N : Nat) (hN : N < kMax) (t : VB) (h : SRep N kMax t) (pos : 0 < SVB.size t) :
    SRep N kMax (SVB.decrSize t) ∧ SVB.size (SVB.decrSize t) + 1 = SVB.size t
      ∧ SVB.capacity (SVB.decrSize t) = SVB.capacity t ∧ SVB.isSmall (SVB.decrSize t) = SVB.isSmall t
      ∧ (SVB.decrSize t).dyn = t.dyn := by
  unfold SRep at *; unfold kMax at *; unfold SVB.size at pos
  unfold SVB.decrSize
  rcases h with ⟨h1, h2⟩ | ⟨h1, h2⟩ | ⟨h1, h2⟩
  all_goals
    repeat' split
    all_goals (refine ⟨?_, ?_, ?_, ?_, rfl⟩)
    all_goals simp only [SVB.size, SVB.capacity, SVB.isSmall, decide_eq_true_eq, decide_eq_decide, Bool.and_eq_true,
      ne_eq, decide_not, Bool.not_eq_eq_eq_not, Bool.not_true, decide_eq_false_iff_not] at *
    all_goals (repeat' split)
    all_goals (first | omega | (split at pos <;> omega))

theorem setSize_law (N : Nat) (hN : N < kMax) (t : VB) (h : SRep N kMax t) (s : Nat) (fits : s ≤ SVB.capacity t) :
    SRep N kMax (SVB.setSize t s) ∧ SVB.size (SVB.setSize t s) = s
      ∧ SVB.capacity (SVB.setSize t s) = SVB.capacity t ∧ SVB.isSmall (SVB.setSize t s) = SVB.isSmall t
      ∧ (SVB.setSize t s).dyn = t.dyn := by
  unfold SRep at *; unfold kMax at *; unfold SVB.size SVB.capacity SVB.isSmall SVB.setSize at *
  rcases h with ⟨h1, h2⟩ | ⟨h1, h2⟩ | ⟨h1, h2⟩ <;> words_auto

/-- `grow` asks `SafeNextCapacity` with the *decoded* capacity, whatever the state -/
theorem grow_calls (t : VB) (minSize : Nat) (exact : Bool) (fresh : Nat) (e : Exc)
    (h : SafeNextCapacity (SVB.capacity t) minSize exact = .error e) :
    SVB.grow t minSize exact fresh = .error e := by
  unfold SVB.grow; unfold SVB.capacity at h
  repeat' split
  all_goals simp_all

theorem grow_law (N : Nat) (hN : N < kMax) (t : VB) (h : SRep N kMax t) (minSize : Nat) (exact : Bool) (fresh r : Nat)
    (hr : SafeNextCapacity (SVB.capacity t) minSize exact = .ok r) :
    SVB.grow t minSize exact fresh = .ok (⟨r, SVB.size t, PtrV.blk (fresh + 0)⟩,
      growEffs (SVB.isSmall t) t (SVB.size t) (SVB.capacity t) r fresh) := by
  unfold SRep at *; unfold kMax at *
  unfold SVB.grow growEffs; unfold SVB.capacity SVB.size SVB.isSmall at *
  rcases h with ⟨h1, h2⟩ | ⟨h1, h2⟩ | ⟨h1, h2⟩
  all_goals
    repeat' split
    all_goals simp_all
    all_goals (try omega)

/-- the words after a successful `grow` are a heap state of the requested capacity -/
theorem grown_rep (N : Nat) (sz r : Nat) (d : PtrV) (h1 : sz ≤ r) (h2 : r ≤ kMax) :
    SRep N kMax ⟨r, sz, d⟩ ∧ SVB.size ⟨r, sz, d⟩ = sz ∧ SVB.capacity ⟨r, sz, d⟩ = r ∧ SVB.isSmall ⟨r, sz, d⟩ = false := by
  unfold SRep kMax at *; unfold SVB.size SVB.capacity SVB.isSmall
  words_auto

/-- move assignment: target takes the source's size; source becomes an empty inline vector -/
theorem moveAssign_rep (N : Nat) (hN : N < kMax) (hN0 : 0 < N) (t o : VB) (ht : SRep N kMax t) (ho : SRep N kMax o) :
    SRep N kMax (SVB.move_assign t o N).1 ∧ SRep N kMax (SVB.move_assign t o N).2.1
      ∧ SVB.size (SVB.move_assign t o N).1 = SVB.size o ∧ SVB.size (SVB.move_assign t o N).2.1 = 0
      ∧ SVB.isSmall (SVB.move_assign t o N).2.1 = true ∧ SVB.capacity (SVB.move_assign t o N).2.1 = N := by
  unfold SVB.move_assign
  repeat' split
  all_goals
    dsimp only
    unfold SRep at ht ho
    rcases ht with ⟨ht1, ht2⟩ | ⟨ht1, ht2⟩ | ⟨ht1, ht2⟩ <;> rcases ho with ⟨ho1, ho2⟩ | ⟨ho1, ho2⟩ | ⟨ho1, ho2⟩
    all_goals leaf_auto

/-- move assignment from a heap-backed source steals its buffer -/
theorem moveAssign_steal (N : Nat) (hN : N < kMax) (hN0 : 0 < N) (t o : VB) (ht : SRep N kMax t) (ho : SRep N kMax o)
    (hoL : SVB.isSmall o = false) :
    SVB.isSmall (SVB.move_assign t o N).1 = false ∧ SVB.capacity (SVB.move_assign t o N).1 = SVB.capacity o
      ∧ (SVB.move_assign t o N).1.dyn = o.dyn := by
  unfold SVB.move_assign
  repeat' split
  all_goals
    dsimp only
    unfold SRep at ht ho
    rcases ht with ⟨ht1, ht2⟩ | ⟨ht1, ht2⟩ | ⟨ht1, ht2⟩ <;> rcases ho with ⟨ho1, ho2⟩ | ⟨ho1, ho2⟩ | ⟨ho1, ho2⟩
    all_goals leaf_auto

/-- move assignment between inline vectors keeps the target inline with capacity N (this is what V1 broke) -/
theorem moveAssign_inline (N : Nat) (hN : N < kMax) (hN0 : 0 < N) (t o : VB) (ht : SRep N kMax t) (ho : SRep N kMax o)
    (hoS : SVB.isSmall o = true) (htS : SVB.isSmall t = true) :
    SVB.isSmall (SVB.move_assign t o N).1 = true ∧ SVB.capacity (SVB.move_assign t o N).1 = N
      ∧ (SVB.move_assign t o N).2.2 = [Eff.moveN (PtrV.inl 1) (SVB.size o) (PtrV.inl 0) (SVB.size t)] := by
  unfold SVB.move_assign
  repeat' split
  all_goals
    dsimp only
    unfold SRep at ht ho
    rcases ht with ⟨ht1, ht2⟩ | ⟨ht1, ht2⟩ | ⟨ht1, ht2⟩ <;> rcases ho with ⟨ho1, ho2⟩ | ⟨ho1, ho2⟩ | ⟨ho1, ho2⟩
    all_goals leaf_auto

/-- move assignment of an inline source into a heap-backed target: the heap buffer is kept when it is large
    enough, otherwise released in favour of the inline storage (this is what V19 broke) -/
theorem moveAssign_intoHeap (N : Nat) (hN : N < kMax) (hN0 : 0 < N) (t o : VB) (ht : SRep N kMax t) (ho : SRep N kMax o)
    (hoS : SVB.isSmall o = true) (htL : SVB.isSmall t = false) :
    (SVB.size o ≤ SVB.capacity t →
        SVB.isSmall (SVB.move_assign t o N).1 = false ∧ SVB.capacity (SVB.move_assign t o N).1 = SVB.capacity t
          ∧ (SVB.move_assign t o N).1.dyn = t.dyn)
    ∧ (SVB.capacity t < SVB.size o →
        SVB.isSmall (SVB.move_assign t o N).1 = true ∧ SVB.capacity (SVB.move_assign t o N).1 = N) := by
  unfold SVB.move_assign
  repeat' split
  all_goals
    dsimp only
    unfold SRep at ht ho
    rcases ht with ⟨ht1, ht2⟩ | ⟨ht1, ht2⟩ | ⟨ht1, ht2⟩ <;> rcases ho with ⟨ho1, ho2⟩ | ⟨ho1, ho2⟩ | ⟨ho1, ho2⟩
    all_goals leaf_auto

theorem moveConstruct_law (N : Nat) (hN : N < kMax) (hN0 : 0 < N) (t o : VB) (ho : SRep N kMax o) :
    SRep N kMax (SVB.move_construct t o N).1 ∧ SRep N kMax (SVB.move_construct t o N).2.1 ∧ SVB.size (SVB.move_construct t o N).1 = SVB.size o ∧ SVB.size (SVB.move_construct t o N).2.1 = 0
      ∧ SVB.isSmall (SVB.move_construct t o N).2.1 = true ∧ SVB.capacity (SVB.move_construct t o N).2.1 = N
      ∧ SVB.isSmall (SVB.move_construct t o N).1 = SVB.isSmall o ∧ SVB.capacity (SVB.move_construct t o N).1 = SVB.capacity o
      ∧ (SVB.isSmall o = false → (SVB.move_construct t o N).1.dyn = o.dyn) := by
  unfold SVB.move_construct
  repeat' split
  all_goals
    dsimp only
    unfold SRep at ho
    rcases ho with ⟨ho1, ho2⟩ | ⟨ho1, ho2⟩ | ⟨ho1, ho2⟩
    all_goals leaf_auto

theorem swapImpl_law (N : Nat) (hN : N < kMax) (t o : VB) (ht : SRep N kMax t) (ho : SRep N kMax o) :
    SRep N kMax (SVB.swap_impl t o).1 ∧ SRep N kMax (SVB.swap_impl t o).2.1 ∧ SVB.size (SVB.swap_impl t o).1 = SVB.size o ∧ SVB.size (SVB.swap_impl t o).2.1 = SVB.size t
      ∧ SVB.capacity (SVB.swap_impl t o).1 = SVB.capacity o ∧ SVB.capacity (SVB.swap_impl t o).2.1 = SVB.capacity t
      ∧ SVB.isSmall (SVB.swap_impl t o).1 = SVB.isSmall o ∧ SVB.isSmall (SVB.swap_impl t o).2.1 = SVB.isSmall t
      ∧ (SVB.isSmall o = false → (SVB.swap_impl t o).1.dyn = o.dyn) ∧ (SVB.isSmall t = false → (SVB.swap_impl t o).2.1.dyn = t.dyn) := by
  unfold SVB.swap_impl
  repeat' split
  all_goals
    dsimp only
    unfold SRep at ht ho
    rcases ht with ⟨ht1, ht2⟩ | ⟨ht1, ht2⟩ | ⟨ht1, ht2⟩ <;> rcases ho with ⟨ho1, ho2⟩ | ⟨ho1, ho2⟩ | ⟨ho1, ho2⟩
    all_goals leaf_auto

/-- shrink_to_fit: capacity becomes the size, or the inline capacity again when the elements fit inline -/
theorem shrinkImpl_law (N : Nat) (hN : N < kMax) (t : VB) (h : SRep N kMax t) (fresh : Nat) :
    SRep N kMax (SVB.shrink_impl t N fresh).1 ∧ SVB.size (SVB.shrink_impl t N fresh).1 = SVB.size t
      ∧ (SVB.isSmall t = true → (SVB.shrink_impl t N fresh).1.capa = t.capa ∧ (SVB.shrink_impl t N fresh).1.size = t.size ∧ (SVB.shrink_impl t N fresh).1.dyn = t.dyn ∧ (SVB.shrink_impl t N fresh).2 = [])
      ∧ (SVB.isSmall t = false → SVB.size t ≤ N → SVB.isSmall (SVB.shrink_impl t N fresh).1 = true ∧ SVB.capacity (SVB.shrink_impl t N fresh).1 = N)
      ∧ (SVB.isSmall t = false → N < SVB.size t → SVB.isSmall (SVB.shrink_impl t N fresh).1 = false ∧ SVB.capacity (SVB.shrink_impl t N fresh).1 = SVB.size t) := by
  unfold SVB.shrink_impl
  repeat' split
  all_goals
    dsimp only
    unfold SRep at h
    rcases h with ⟨h1, h2⟩ | ⟨h1, h2⟩ | ⟨h1, h2⟩
    all_goals leaf_auto

/-- the destructor returns the heap block with the capacity it was obtained with, and only in heap state -/
theorem dtor_law (t : VB) :
    (SVB.dtor t).2 = if SVB.isSmall t then [] else [Eff.dealloc t.dyn (SVB.capacity t)] := by
  unfold SVB.dtor SVB.isSmall SVB.capacity
  repeat' split
  all_goals simp_all
  all_goals omega

/- ------------------------------------------------------------------------------------------------------------
   StdVectorBase (amc::vector): plain words
   ------------------------------------------------------------------------------------------------------------ -/

def DRep (t : VB) : Prop := t.size ≤ t.capa ∧ t.capa ≤ kMax

theorem dvb_accessors (t : VB) : DVB.size t = t.size ∧ DVB.capacity t = t.capa ∧ DVB.begin t = t.dyn := by
  simp [DVB.size, DVB.capacity, DVB.begin]

theorem dvb_incr (t : VB) (h : DRep t) (room : t.size < t.capa) :
    DRep (DVB.incrSize t) ∧ (DVB.incrSize t).size = t.size + 1 ∧ (DVB.incrSize t).capa = t.capa
      ∧ (DVB.incrSize t).dyn = t.dyn := by
  unfold DRep kMax at *; unfold DVB.incrSize; simp; omega

theorem dvb_decr (t : VB) (h : DRep t) (pos : 0 < t.size) :
    DRep (DVB.decrSize t) ∧ (DVB.decrSize t).size + 1 = t.size ∧ (DVB.decrSize t).capa = t.capa
      ∧ (DVB.decrSize t).dyn = t.dyn := by
  unfold DRep kMax at *; unfold DVB.decrSize
  refine ⟨?_, ?_, rfl, rfl⟩ <;> dsimp only <;> omega

theorem dvb_setSize (t : VB) (h : DRep t) (s : Nat) (fits : s ≤ t.capa) :
    DRep (DVB.setSize t s) ∧ (DVB.setSize t s).size = s ∧ (DVB.setSize t s).capa = t.capa
      ∧ (DVB.setSize t s).dyn = t.dyn := by
  unfold DRep kMax at *; unfold DVB.setSize; simp; omega

theorem dvb_grow (t : VB) (minSize : Nat) (exact : Bool) (fresh r : Nat)
    (hr : SafeNextCapacity t.capa minSize exact = .ok r) :
    DVB.grow t minSize exact fresh = .ok (⟨r, t.size, PtrV.blk (fresh + 0)⟩,
        [Eff.realloc t.dyn t.capa r t.size (PtrV.blk (fresh + 0))]) := by
  unfold DVB.grow; simp [hr]

theorem dvb_grow_err (t : VB) (minSize : Nat) (exact : Bool) (fresh : Nat) (e : Exc)
    (hr : SafeNextCapacity t.capa minSize exact = .error e) : DVB.grow t minSize exact fresh = .error e := by
  unfold DVB.grow; simp [hr]

theorem dvb_moveAssign (t o : VB) :
    (DVB.move_assign t o 0).1 = o ∧ (DVB.move_assign t o 0).2.1 = ⟨0, 0, PtrV.null⟩
      ∧ (DVB.move_assign t o 0).2.2 = if t.dyn ≠ PtrV.null then [Eff.destroyN t.dyn t.size, Eff.dealloc t.dyn t.capa] else [] := by
  unfold DVB.move_assign; split <;> simp_all

theorem dvb_moveConstruct (t o : VB) :
    (DVB.move_construct t o 0).1 = o ∧ (DVB.move_construct t o 0).2 = ⟨0, 0, PtrV.null⟩ := by
  unfold DVB.move_construct; simp

theorem dvb_swap (t o : VB) : (DVB.swap_impl t o).1 = o ∧ (DVB.swap_impl t o).2 = t := by
  unfold DVB.swap_impl; simp

theorem dvb_shrink (t : VB) (h : DRep t) (fresh : Nat) :
    DRep (DVB.shrink_impl t 0 fresh).1 ∧ (DVB.shrink_impl t 0 fresh).1.size = t.size
      ∧ (DVB.shrink_impl t 0 fresh).1.capa = t.size := by
  unfold DRep kMax at *; unfold DVB.shrink_impl
  repeat' split
  all_goals simp_all
  all_goals omega

/- ------------------------------------------------------------------------------------------------------------
   StaticVectorBase (FixedCapacityVector): capacity word is constant, never an allocator effect
   ------------------------------------------------------------------------------------------------------------ -/

theorem fvb_capacity_const (t o : VB) (s n : Nat) :
    (FVB.incrSize t).capa = t.capa ∧ (FVB.decrSize t).capa = t.capa ∧ (FVB.setSize t s).capa = t.capa
      ∧ (FVB.swap_impl t o).1.capa = t.capa ∧ (FVB.swap_impl t o).2.1.capa = o.capa
      ∧ (FVB.move_assign t o n).1.capa = t.capa ∧ (FVB.move_assign t o n).2.1.capa = o.capa
      ∧ (FVB.move_construct t o n).1.capa = t.capa ∧ (FVB.move_construct t o n).2.1.capa = o.capa
      ∧ (FVB.shrink_impl t n).capa = t.capa ∧ FVB.begin t = PtrV.inl 0 := by
  unfold FVB.incrSize FVB.decrSize FVB.setSize FVB.swap_impl FVB.move_assign FVB.move_construct FVB.shrink_impl FVB.begin
  exact ⟨rfl, rfl, rfl, rfl, rfl, rfl, rfl, rfl, rfl, rfl, rfl⟩

def isAllocEff : Eff → Bool
  | .alloc _ _ => true | .dealloc _ _ => true | .realloc _ _ _ _ _ => true | _ => false

/-- no member of StaticVectorBase performs an allocator call -/
theorem fvb_no_alloc (t o : VB) (n : Nat) :
    ((FVB.swap_impl t o).2.2.any isAllocEff = false) ∧ ((FVB.move_assign t o n).2.2.any isAllocEff = false)
      ∧ ((FVB.move_construct t o n).2.2.any isAllocEff = false) := by
  simp [FVB.swap_impl, FVB.move_assign, FVB.move_construct, isAllocEff]

theorem fvb_sizes (t o : VB) (s n : Nat) (h : t.size < kMax) (hp : 0 < t.size) :
    (FVB.incrSize t).size = t.size + 1 ∧ (FVB.decrSize t).size + 1 = t.size ∧ (FVB.setSize t s).size = s
      ∧ (FVB.swap_impl t o).1.size = o.size ∧ (FVB.swap_impl t o).2.1.size = t.size
      ∧ (FVB.move_assign t o n).1.size = o.size ∧ (FVB.move_assign t o n).2.1.size = 0
      ∧ (FVB.move_construct t o n).1.size = o.size ∧ (FVB.move_construct t o n).2.1.size = 0 := by
  unfold kMax at h
  unfold FVB.incrSize FVB.decrSize FVB.setSize FVB.swap_impl FVB.move_assign FVB.move_construct
  refine ⟨?_, ?_, rfl, rfl, rfl, rfl, rfl, rfl, rfl⟩ <;> dsimp only <;> omega


/- ------------------------------------------------------------------------------------------------------------
   effect lists of the buffer hand-over paths (allocator protocol: every block goes back with the capacity word
   it was obtained with; stealing performs no element operation)
   ------------------------------------------------------------------------------------------------------------ -/

/-- move assignment from a heap-backed source: the target's elements are destroyed, its own block (if any) is
    returned with its true capacity, and the source's block is adopted without touching an element -/
theorem moveAssign_steal_effs (N : Nat) (hN : N < kMax) (hN0 : 0 < N) (t o : VB) (ht : SRep N kMax t) (ho : SRep N kMax o)
    (hoL : SVB.isSmall o = false) :
    (SVB.move_assign t o N).2.2 = (if SVB.isSmall t then [Eff.destroyN (PtrV.inl 0) (SVB.size t), Eff.setDyn 0]
      else [Eff.destroyN t.dyn (SVB.size t), Eff.dealloc t.dyn (SVB.capacity t), Eff.setDyn 0]) := by
  unfold SVB.move_assign
  repeat' split
  all_goals
    dsimp only
    unfold SRep at ht ho
    rcases ht with ⟨ht1, ht2⟩ | ⟨ht1, ht2⟩ | ⟨ht1, ht2⟩ <;> rcases ho with ⟨ho1, ho2⟩ | ⟨ho1, ho2⟩ | ⟨ho1, ho2⟩
    all_goals leaf_auto

/-- move assignment of an inline source into a heap-backed target whose buffer is too small: the buffer is released
    with its true capacity before the elements are moved into the inline storage -/
theorem moveAssign_release_effs (N : Nat) (hN : N < kMax) (hN0 : 0 < N) (t o : VB) (ht : SRep N kMax t) (ho : SRep N kMax o)
    (hoS : SVB.isSmall o = true) (htL : SVB.isSmall t = false) (hcap : SVB.capacity t < SVB.size o) :
    (SVB.move_assign t o N).2.2 = [Eff.destroyN t.dyn (SVB.size t), Eff.dealloc t.dyn (SVB.capacity t),
      Eff.moveN (PtrV.inl 1) (SVB.size o) (PtrV.inl 0) 0] := by
  unfold SVB.move_assign
  repeat' split
  all_goals
    dsimp only
    unfold SRep at ht ho
    rcases ht with ⟨ht1, ht2⟩ | ⟨ht1, ht2⟩ | ⟨ht1, ht2⟩ <;> rcases ho with ⟨ho1, ho2⟩ | ⟨ho1, ho2⟩ | ⟨ho1, ho2⟩
    all_goals leaf_auto

/-- shrink_to_fit: back to inline = relocate + return the block with its true capacity; otherwise reallocate with the
    true old capacity and live-element count; nothing when already tight or inline -/
theorem shrinkImpl_effs (N : Nat) (hN : N < kMax) (t : VB) (h : SRep N kMax t) (fresh : Nat) :
    (SVB.isSmall t = true → (SVB.shrink_impl t N fresh).2 = [])
    ∧ (SVB.isSmall t = false → SVB.size t ≤ N →
        (SVB.shrink_impl t N fresh).2 = [Eff.relocN t.dyn (SVB.size t) (PtrV.inl 0), Eff.dealloc t.dyn (SVB.capacity t)])
    ∧ (SVB.isSmall t = false → N < SVB.size t → SVB.size t ≠ SVB.capacity t →
        (SVB.shrink_impl t N fresh).2 =
          [Eff.realloc t.dyn (SVB.capacity t) (SVB.size t) (SVB.size t) (PtrV.blk (fresh + 0)), Eff.setDyn 0])
    ∧ (SVB.isSmall t = false → N < SVB.size t → SVB.size t = SVB.capacity t → (SVB.shrink_impl t N fresh).2 = []) := by
  unfold SVB.shrink_impl
  repeat' split
  all_goals (try dsimp only)
  all_goals
    try
      unfold SRep at h
      rcases h with ⟨h1, h2⟩ | ⟨h1, h2⟩ | ⟨h1, h2⟩
      all_goals leaf_auto

/-- move construction and swap of heap-backed operands touch no element and no allocator -/
theorem steal_effs (N : Nat) (hN : N < kMax) (t o : VB) (ht : SRep N kMax t) (ho : SRep N kMax o)
    (htL : SVB.isSmall t = false) (hoL : SVB.isSmall o = false) :
    (SVB.move_construct t o N).2.2 = [Eff.setDyn 0] ∧ (SVB.swap_impl t o).2.2 = [Eff.setDyn 0, Eff.setDyn 1] := by
  unfold SVB.move_construct SVB.swap_impl
  constructor
  all_goals
    repeat' split
    all_goals (try dsimp only)
    all_goals
      try
        unfold SRep at ht ho
        rcases ht with ⟨ht1, ht2⟩ | ⟨ht1, ht2⟩ | ⟨ht1, ht2⟩ <;> rcases ho with ⟨ho1, ho2⟩ | ⟨ho1, ho2⟩ | ⟨ho1, ho2⟩
        all_goals leaf_auto

/-- amc::vector: growth reallocates with the true old capacity and size; move assignment returns the old block -/
theorem dvb_effs (t : VB) (minSize fresh r : Nat) (hr : SafeNextCapacity t.capa minSize false = .ok r) :
    DVB.grow t minSize false fresh = .ok (⟨r, t.size, PtrV.blk (fresh + 0)⟩, [Eff.realloc t.dyn t.capa r t.size (PtrV.blk (fresh + 0))])
    ∧ (DVB.dtor t).2 = (if t.dyn ≠ PtrV.null then [Eff.dealloc t.dyn t.capa] else []) := by
  constructor
  · exact dvb_grow t minSize false fresh r hr
  · unfold DVB.dtor; split <;> simp_all


/- ------------------------------------------------------------------------------------------------------------
   no self pointer: no member ever stores the address of the object's own inline storage in the pointer word, and
   begin() is recomputed from the words on every call -- the model-level content of "trivially relocatable" (C14)
   ------------------------------------------------------------------------------------------------------------ -/

/-- the pointer word never designates inline storage -/
def NotInl (p : PtrV) : Prop := ∀ w, p ≠ PtrV.inl w

theorem no_self_pointer (t o : VB) (s N fresh minSize : Nat) (exact : Bool) (ht : NotInl t.dyn) (ho : NotInl o.dyn) :
    NotInl (SVB.ctor t N).dyn ∧ NotInl (SVB.incrSize t).dyn ∧ NotInl (SVB.decrSize t).dyn ∧ NotInl (SVB.setSize t s).dyn
    ∧ NotInl (SVB.move_assign t o N).1.dyn ∧ NotInl (SVB.move_assign t o N).2.1.dyn
    ∧ NotInl (SVB.move_construct t o N).1.dyn ∧ NotInl (SVB.move_construct t o N).2.1.dyn
    ∧ NotInl (SVB.swap_impl t o).1.dyn ∧ NotInl (SVB.swap_impl t o).2.1.dyn
    ∧ NotInl (SVB.shrink_impl t N fresh).1.dyn
    ∧ (∀ r, SVB.grow t minSize exact fresh = .ok r → NotInl r.1.dyn) := by
  unfold NotInl at *
  refine ⟨?_, ?_, ?_, ?_, ?_, ?_, ?_, ?_, ?_, ?_, ?_, ?_⟩
  · unfold SVB.ctor; intro w; simp
  · unfold SVB.incrSize; repeat' split
    all_goals (intro w; simp; exact ht w)
  · unfold SVB.decrSize; repeat' split
    all_goals (intro w; simp; exact ht w)
  · unfold SVB.setSize; repeat' split
    all_goals (intro w; simp; exact ht w)
  · unfold SVB.move_assign; repeat' split
    all_goals (intro w; simp; first | exact ht w | exact ho w)
  · unfold SVB.move_assign; repeat' split
    all_goals (intro w; simp; first | exact ht w | exact ho w)
  · unfold SVB.move_construct; repeat' split
    all_goals (intro w; simp; first | exact ht w | exact ho w)
  · unfold SVB.move_construct; repeat' split
    all_goals (intro w; simp; first | exact ht w | exact ho w)
  · unfold SVB.swap_impl; repeat' split
    all_goals (intro w; simp; first | exact ht w | exact ho w)
  · unfold SVB.swap_impl; repeat' split
    all_goals (intro w; simp; first | exact ht w | exact ho w)
  · unfold SVB.shrink_impl; repeat' split
    all_goals (intro w; simp; try exact ht w)
  · intro r hr
    unfold SVB.grow at hr
    repeat' split at hr
    all_goals (first | (cases hr; done) | (cases hr; intro w; simp))

/-- `begin()` depends on the words only: inline storage of *this* object when small, the stored pointer otherwise;
    FixedCapacityVector always its own inline storage; amc::vector always the stored pointer -/
theorem begin_from_words (t : VB) :
    SVB.begin t = (if SVB.isSmall t then PtrV.inl 0 else t.dyn) ∧ FVB.begin t = PtrV.inl 0 ∧ DVB.begin t = t.dyn := by
  refine ⟨begin_small t, ?_, ?_⟩ <;> simp [FVB.begin, DVB.begin]

/-- the generated SmallVectorBase members of this size type satisfy every word law -/
theorem svb_laws (N : Nat) (hN : N < kMax) (hN0 : 0 < N) : SmallLaws svbOps N where
  kmax := hN
  npos := hN0
  bounds := bounds N hN
  begin_small := begin_small
  ctor := ctor_law N hN hN0 default
  incr := incrSize_law N hN
  decr := decrSize_law N hN
  setSize := setSize_law N hN
  growErr := grow_calls
  growOk := grow_law N hN
  grownRep := fun sz r d => grown_rep N sz r d
  safeExact := safeNext_exact
  safeGrow := safeNext_grow
  safeOverflow := safeNext_overflow
  moveAssignRep := moveAssign_rep N hN hN0
  moveAssignSteal := moveAssign_steal N hN hN0
  moveAssignInline := moveAssign_inline N hN hN0
  moveAssignIntoHeap := moveAssign_intoHeap N hN hN0
  moveConstruct := moveConstruct_law N hN hN0
  swapImpl := swapImpl_law N hN
  shrinkImpl := shrinkImpl_law N hN
  dtor := dtor_law

end AmcVerif.Bridge.U16
