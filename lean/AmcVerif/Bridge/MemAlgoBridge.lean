import AmcVerif.Gen.MemAlgoGen
import AmcVerif.Lemmas.MemAlgo
/-! The generated model of `include/amc/memory.hpp` (`Gen/MemAlgoGen.lean`, regenerated from the source by
`translator/memory2lean.py`, once per `-std=c++11/14/17/20`) equals the hand-written one (`Model/MemAlgo.lean`).

* `implMode_eq`: the `std::conditional` tree of `memory_details::ImplModeFactory`. The source tests
  `std::is_lvalue_reference<iterator_traits<InputIt>::reference>`; the hand-written `implMode` takes the flag
  `rvalueRef` (`is_rvalue_reference<…>`) and tests its negation. The equality therefore reads
  `Gen.implMode a b m s l = implMode a b m s (!l)` (all 32 cases), i.e. the two agree for every iterator whose `reference`
  is a reference type (lvalue, or rvalue for `std::move_iterator`) — `Gen.lvalueRef it = !it.rvalueRef`. An iterator
  whose `operator*` returns a prvalue cannot be described by the model's `It` (see `implMode_prvalue`).
* `Arm.<arm>_eq`: every implementation arm, as a function of all its arguments: `rfl` (the generated text is the
  hand-written text up to the unfolding of `destroyLoop`, `copyDflt`, … and of the hand-written models
  `stdUninitializedCopy`, `stdFillN`, `stdFill` of the three `std::` algorithms the arms call).
* `<alg>_eq`: every public algorithm `amc::X` as a function of the language standard, the iterator facts, the element
  traits, the fault schedule, the length and the buffers. The generated definition is a four-way `match std`
  (one branch per clang run), the hand-written one tests `std.has17` / `std.has20`: case split on `std`, then `rfl`
  after rewriting with `implMode_eq` and the arm equalities.
* `isStdAlias_eq`: which names are `using std::X;` under which standard = the `#if AMC_CXX17` / `AMC_CXX20` ladder of
  the hand-written `Amc.*`.

No hypothesis is needed anywhere. -/
namespace AmcVerif.Bridge.MemAlgo
open AmcVerif AmcVerif.MemAlgo
variable {α : Type}

/- ---------------------------------------------------------------------------------------------------------
   ImplModeFactory
   --------------------------------------------------------------------------------------------------------- -/

/-- the generated condition tree (on `is_lvalue_reference`) against the hand-written one (on `!is_rvalue_reference`) -/
theorem implMode_eq :
    ∀ a b m s l : Bool, Gen.MemAlgo.implMode a b m s l = implMode a b m s (!l) := by decide

/-- as functions of the five Booleans -/
theorem implMode_fun_eq :
    (fun a b m s r => Gen.MemAlgo.implMode a b m s (!r)) = implMode := by
  funext a b m s r
  rw [implMode_eq]
  cases r <;> rfl

/-- for the iterators the model describes -/
theorem mode_eq (it : It) (m : Bool) :
    Gen.MemAlgo.implMode it.isPointerIn it.isPointerOut m it.sameType (Gen.MemAlgo.lvalueRef it) = it.mode m := by
  unfold It.mode Gen.MemAlgo.lvalueRef
  rw [implMode_eq]
  cases it.rvalueRef <;> rfl

/-- where the two readings differ: an input iterator whose `reference` is neither an lvalue nor an rvalue reference
    (`operator*` returns a prvalue) has `is_lvalue_reference = false` and `is_rvalue_reference = false`; the source
    selects `Default`, the hand-written `implMode` with `rvalueRef = false` would select a memcpy arm -/
theorem implMode_prvalue :
    Gen.MemAlgo.implMode true true true true false = .dflt ∧ implMode true true true true false = .memMove := by decide

/- ---------------------------------------------------------------------------------------------------------
   aliases
   --------------------------------------------------------------------------------------------------------- -/

/-- `amc::X` is `using std::X;` exactly where the hand-written `Amc.X` takes its `Spec` branch: from C++17 on for
    `destroy*`, `uninitialized_{default,value}_construct*`, `uninitialized_{copy,move}*`, from C++20 on for `construct_at`,
    never for the relocation functions -/
theorem isStdAlias_eq (a : Gen.MemAlgo.Alg) (std : Std) :
    Gen.MemAlgo.isStdAlias a std =
      match a with
      | .construct_at => std.has20
      | .uninitialized_relocate | .uninitialized_relocate_n | .relocate_at => false
      | _ => std.has17 := by
  cases a <;> cases std <;> rfl

/- ---------------------------------------------------------------------------------------------------------
   the arms
   --------------------------------------------------------------------------------------------------------- -/
namespace Arm

theorem destroyN_eq : @Gen.MemAlgo.Arm.destroyN α = MemAlgo.Arm.destroyN := rfl
theorem destroy_eq : @Gen.MemAlgo.Arm.destroy α = MemAlgo.Arm.destroy := rfl
theorem destroyAt_eq : @Gen.MemAlgo.Arm.destroyAt α = MemAlgo.Arm.destroyAt := rfl

theorem constructAtCopy_eq : @Gen.MemAlgo.Arm.constructAtCopy α = MemAlgo.Arm.constructAtCopy := rfl
theorem constructAtMove_eq : @Gen.MemAlgo.Arm.constructAtMove α = MemAlgo.Arm.constructAtMove := rfl
theorem constructAtValue_eq : @Gen.MemAlgo.Arm.constructAtValue α = MemAlgo.Arm.constructAtValue := rfl

theorem defaultNLoop_eq : @Gen.MemAlgo.Arm.defaultNLoop α = MemAlgo.Arm.defaultNLoop := rfl
theorem defaultNTrivial_eq : @Gen.MemAlgo.Arm.defaultNTrivial α = MemAlgo.Arm.defaultNTrivial := rfl
theorem defaultLoop_eq : @Gen.MemAlgo.Arm.defaultLoop α = MemAlgo.Arm.defaultLoop := rfl
theorem defaultTrivial_eq : @Gen.MemAlgo.Arm.defaultTrivial α = MemAlgo.Arm.defaultTrivial := rfl
theorem valueNLoop_eq : @Gen.MemAlgo.Arm.valueNLoop α = MemAlgo.Arm.valueNLoop := rfl
theorem valueNTrivial_eq : @Gen.MemAlgo.Arm.valueNTrivial α = MemAlgo.Arm.valueNTrivial := rfl
theorem valueLoop_eq : @Gen.MemAlgo.Arm.valueLoop α = MemAlgo.Arm.valueLoop := rfl
theorem valueTrivial_eq : @Gen.MemAlgo.Arm.valueTrivial α = MemAlgo.Arm.valueTrivial := rfl

theorem copyNDflt_eq : @Gen.MemAlgo.Arm.copyNDflt α = MemAlgo.Arm.copyNDflt := rfl
theorem copyNInALoop_eq : @Gen.MemAlgo.Arm.copyNInALoop α = MemAlgo.Arm.copyNInALoop := rfl
theorem copyNMemMove_eq : @Gen.MemAlgo.Arm.copyNMemMove α = MemAlgo.Arm.copyNMemMove := rfl
theorem copyDflt_eq : @Gen.MemAlgo.Arm.copyDflt α = MemAlgo.Arm.copyDflt := rfl
theorem copyInALoop_eq : @Gen.MemAlgo.Arm.copyInALoop α = MemAlgo.Arm.copyInALoop := rfl
theorem copyMemMove_eq : @Gen.MemAlgo.Arm.copyMemMove α = MemAlgo.Arm.copyMemMove := rfl

theorem moveNDflt_eq : @Gen.MemAlgo.Arm.moveNDflt α = MemAlgo.Arm.moveNDflt := rfl
theorem moveNInALoop_eq : @Gen.MemAlgo.Arm.moveNInALoop α = MemAlgo.Arm.moveNInALoop := rfl
theorem moveNMemMove_eq : @Gen.MemAlgo.Arm.moveNMemMove α = MemAlgo.Arm.moveNMemMove := rfl
theorem moveDflt_eq : @Gen.MemAlgo.Arm.moveDflt α = MemAlgo.Arm.moveDflt := rfl
theorem moveInALoop_eq : @Gen.MemAlgo.Arm.moveInALoop α = MemAlgo.Arm.moveInALoop := rfl
theorem moveMemMove_eq : @Gen.MemAlgo.Arm.moveMemMove α = MemAlgo.Arm.moveMemMove := rfl

theorem relocNInALoop_eq : @Gen.MemAlgo.Arm.relocNInALoop α = MemAlgo.Arm.relocNInALoop := rfl
theorem relocNMemMove_eq : @Gen.MemAlgo.Arm.relocNMemMove α = MemAlgo.Arm.relocNMemMove := rfl
theorem relocInALoop_eq : @Gen.MemAlgo.Arm.relocInALoop α = MemAlgo.Arm.relocInALoop := rfl
theorem relocMemMove_eq : @Gen.MemAlgo.Arm.relocMemMove α = MemAlgo.Arm.relocMemMove := rfl
theorem relocateAtMemMove_eq : @Gen.MemAlgo.Arm.relocateAtMemMove α = MemAlgo.Arm.relocateAtMemMove := rfl

end Arm

/- ---------------------------------------------------------------------------------------------------------
   the public algorithms: `Gen.MemAlgo.<alg> = MemAlgo.Amc.<alg>`
   --------------------------------------------------------------------------------------------------------- -/

theorem destroyAt_eq : @Gen.MemAlgo.destroyAt α = Amc.destroyAt := by
  funext std b; cases std <;> rfl

theorem destroy_eq : @Gen.MemAlgo.destroy α = Amc.destroy := by
  funext std n b; cases std <;> rfl

theorem destroyN_eq : @Gen.MemAlgo.destroyN α = Amc.destroyN := by
  funext std n b; cases std <;> rfl

theorem constructAtCopy_eq : @Gen.MemAlgo.constructAtCopy α = Amc.constructAtCopy := by
  funext std k src dst; cases std <;> rfl

theorem constructAtMove_eq : @Gen.MemAlgo.constructAtMove α = Amc.constructAtMove := by
  funext std ty k src dst; cases std <;> rfl

theorem constructAtValue_eq : @Gen.MemAlgo.constructAtValue α = Amc.constructAtValue := by
  funext std zero k b; cases std <;> rfl

theorem uninitDefault_eq : @Gen.MemAlgo.uninitDefault α = Amc.uninitDefault := by
  funext std ty dflt indet k n b; cases std <;> rfl

theorem uninitDefaultN_eq : @Gen.MemAlgo.uninitDefaultN α = Amc.uninitDefaultN := by
  funext std ty dflt indet k n b; cases std <;> rfl

theorem uninitValue_eq : @Gen.MemAlgo.uninitValue α = Amc.uninitValue := by
  funext std ty zero k n b; cases std <;> rfl

theorem uninitValueN_eq : @Gen.MemAlgo.uninitValueN α = Amc.uninitValueN := by
  funext std ty zero k n b; cases std <;> rfl

theorem uninitCopy_eq : @Gen.MemAlgo.uninitCopy α = Amc.uninitCopy := by
  funext std it ty k n src dst
  cases std <;> simp only [Gen.MemAlgo.uninitCopy, Amc.uninitCopy, mode_eq] <;> rfl

theorem uninitCopyN_eq : @Gen.MemAlgo.uninitCopyN α = Amc.uninitCopyN := by
  funext std it ty k n src dst
  cases std <;> simp only [Gen.MemAlgo.uninitCopyN, Amc.uninitCopyN, mode_eq] <;> rfl

theorem uninitMove_eq : @Gen.MemAlgo.uninitMove α = Amc.uninitMove := by
  funext std it ty k n src dst
  cases std <;> simp only [Gen.MemAlgo.uninitMove, Amc.uninitMove, mode_eq] <;> rfl

theorem uninitMoveN_eq : @Gen.MemAlgo.uninitMoveN α = Amc.uninitMoveN := by
  funext std it ty k n src dst
  cases std <;> simp only [Gen.MemAlgo.uninitMoveN, Amc.uninitMoveN, mode_eq] <;> rfl

/-- `uninitialized_relocate_impl(..., Default)` -/
theorem relocDflt_eq : @Gen.MemAlgo.relocDflt α = Amc.relocDflt := by
  funext std it ty k n src dst
  simp only [Gen.MemAlgo.relocDflt, Amc.relocDflt, uninitMove_eq, destroy_eq]
  rfl

theorem uninitReloc_eq : @Gen.MemAlgo.uninitReloc α = Amc.uninitReloc := by
  funext std it ty k n src dst
  simp only [Gen.MemAlgo.uninitReloc, Amc.uninitReloc, mode_eq, relocDflt_eq]
  rfl

/-- `uninitialized_relocate_n_impl(..., Default)` -/
theorem relocNDflt_eq : @Gen.MemAlgo.relocNDflt α = Amc.relocNDflt := by
  funext std it ty k n src dst
  simp only [Gen.MemAlgo.relocNDflt, Amc.relocNDflt, uninitMoveN_eq, destroyN_eq]
  rfl

theorem uninitRelocN_eq : @Gen.MemAlgo.uninitRelocN α = Amc.uninitRelocN := by
  funext std it ty k n src dst
  simp only [Gen.MemAlgo.uninitRelocN, Amc.uninitRelocN, mode_eq, relocNDflt_eq]
  rfl

/-- `relocate_at_impl(elem, dest, Default)` -/
theorem relocateAtDflt_eq : @Gen.MemAlgo.relocateAtDflt α = Amc.relocateAtDflt := by
  funext std ty k src dst
  simp only [Gen.MemAlgo.relocateAtDflt, Amc.relocateAtDflt, constructAtMove_eq, destroyAt_eq]
  rfl

theorem relocateAt_eq : @Gen.MemAlgo.relocateAt α = Amc.relocateAt := by
  funext std ty k src dst
  simp only [Gen.MemAlgo.relocateAt, Amc.relocateAt, relocateAtDflt_eq]
  rfl

end AmcVerif.Bridge.MemAlgo
