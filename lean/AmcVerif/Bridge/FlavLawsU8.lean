import AmcVerif.Lemmas.VecHPoolHistory
import AmcVerif.Bridge.MoveLawsU8
import AmcVerif.Bridge.ShrinkLawsU8
import AmcVerif.Bridge.MoveLawsStdFixedU8
/-! The per-flavour law packages `FlavLaws` (Lemmas/VecHPoolHistory.lean) of the heterogeneous pool, for the *generated* members of
size type U8: a `SmallVector<T, N, Alloc, U8>`, an `amc::vector<T, Alloc, U8>` or a `FixedCapacityVector<T, N, U8>` may be
a slot of a heterogeneous pool (`HPoolRep`) next to slots of any other flavour / inline capacity / size type.
Written so that replacing `U8` textually by another size-type tag gives the other instances. -/
namespace AmcVerif.Bridge.U8
open AmcVerif AmcVerif.Gen.U8

/-- `SmallVector<T, N, Alloc, U8 size type>` as a pool slot -/
theorem small_flavLaws (α : Type) (cfg : Cfg) (hfl : cfg.flavour = .small) (hops : cfg.ops = svbOps) (hN : cfg.n < kMax)
    (hN0 : 0 < cfg.n) : FlavLaws α cfg (SOkW cfg.ops cfg.n) :=
  FlavLaws.small hfl rfl (small_vecLaws α cfg hfl hops hN hN0) (small_shrinkLaws cfg hfl hops hN hN0)
    (small_wordLaws cfg hops hN hN0) (small_moveLaws cfg hops hN hN0)

/-- the constructor of StdVectorBase leaves "no storage" -/
theorem dvb_ctor (n : Nat) : dvbOps.ctor n = nullW := rfl

/-- the destructor of StdVectorBase returns the block with the capacity it was obtained with -/
theorem dvb_dtor (t : VB) : (dvbOps.dtor t).2 = if t.dyn ≠ PtrV.null then [Eff.dealloc t.dyn t.capa] else [] := by
  show (DVB.dtor t).2 = _
  unfold DVB.dtor; split <;> simp_all

/-- `amc::vector<T, Alloc, U8 size type>` as a pool slot -/
theorem std_flavLaws (α : Type) (cfg : Cfg) (hfl : cfg.flavour = .std) (hops : cfg.ops = dvbOps) :
    FlavLaws α cfg (DOkW cfg.ops.kMax) :=
  FlavLaws.std hfl rfl (std_vecLaws α cfg hfl hops) (std_shrinkLaws cfg hfl hops) (std_wordLaws cfg hops) (std_moveLaws cfg hops)
    (by rw [hops]; exact dvb_ctor _) (by rw [hops]; exact dvb_dtor)

/-- the destructor of StaticVectorBase emits nothing -/
theorem fvb_dtor (t : VB) : (fvbOps.dtor t).2 = [] := rfl

/-- `FixedCapacityVector<T, N, U8 size type>` (`0 < N ≤ kMax`, exception growing policy) as a pool slot -/
theorem fixed_flavLaws (α : Type) (cfg : Cfg) (hfl : cfg.flavour = .fixed) (hops : cfg.ops = fvbOps) (hchk : cfg.checked = true)
    (hN0 : 0 < cfg.n) (hN : cfg.n ≤ kMax) : FlavLaws α cfg (FOk cfg.n) :=
  FlavLaws.fixed hfl (FOk_cfg cfg hops) (fixed_vecLaws α cfg hfl hops hchk) (fixed_shrinkLaws cfg hfl hops)
    (fixed_wordLaws cfg hops) (fixed_moveLaws cfg hops) (by rw [hops]; exact fvb_dtor) hN0 (by rw [hops]; exact hN)

end AmcVerif.Bridge.U8
