import AmcVerif.Gen.VecGlue
import AmcVerif.Lemmas.VecRep
/-! The generated model of the public vector operations (`Gen/VecGlue.lean`, regenerated from `vectorcommon.hpp` by
`translator/glue2lean.py`) equals the hand-written one (`Model/Vec.lean`).

* `rfl`: the generated definition is the hand-written one, statement by statement.
* "reads": the two differ only in where `size()` / `begin()` are read (the hand-written model reads once and re-uses the
  value, the source re-reads); proved by running both on an arbitrary memory (`runM`), no hypothesis.
* `hc : c < m.ws.length`: the hand-written model performs a read the source does not (or conversely) on a path without any
  other access; the two agree on every memory in which pool slot `c` exists.
* `hS : GrowStable cfg c m`: the hand-written model re-uses the size read *before* `adjustCapacity`, the source re-reads it
  afterwards. They agree whenever a successful `grow` keeps `size()`, which is a law of the generated base-class members on
  well-formed words (`VecLaws.grow`), not a property of arbitrary `BaseOps`.

* `emplace` / `emplace_back` / `reserve` / `adjustCapacity`: the `DynamicVector` member is the `cfg.dynamic` branch of the
  hand-written definition, the `StaticVector` member its else branch (`emplace_eq`, `reserve_eq`, `adjustCapacity_eq`,
  `adjustCapacityRef_eq`, `emplaceBack_static`); `emplaceBack_dynamic` needs `GrowToDyn` (the source uses
  `dynStorage() + size()` after growing, the hand-written model `end()`).

Everything the element-level helpers of `Prim/` do leaves the words alone (`KeepsWs`, proved for each of them); moves and
relocations never throw a C++ exception (`NoExc`): the try/catch around `relocate_after_shift` in `DynamicVector::emplace`,
absent from the hand-written model, is dead code. `growStable_of_vrep`: `GrowStable` holds on every well-formed memory. -/
namespace AmcVerif.GlueBridge
open AmcVerif
variable {α β γ : Type}
set_option linter.unusedSimpArgs false

/-- the computation never changes the size/capacity/pointer words of any container -/
structure KeepsWs (x : M α β) : Prop where
  ws : ∀ m, (runM x m).2.ws = m.ws

theorem KeepsWs.pure (a : β) : KeepsWs (pure a : M α β) := ⟨fun _ => rfl⟩
theorem KeepsWs.throw (e : Stop) : KeepsWs (throw e : M α β) := ⟨fun _ => rfl⟩
theorem KeepsWs.fault (f : Fault) : KeepsWs (fault f : M α β) := ⟨fun _ => rfl⟩
theorem KeepsWs.raise (e : Exc) : KeepsWs (raise e : M α β) := ⟨fun _ => rfl⟩
theorem KeepsWs.get : KeepsWs (get : M α (Mem α)) := ⟨fun _ => rfl⟩
theorem KeepsWs.modify (g : Mem α → Mem α) (h : ∀ m, (g m).ws = m.ws) : KeepsWs (modify g : M α Unit) := ⟨fun m => h m⟩

theorem KeepsWs.bind {x : M α β} {f : β → M α γ} (hx : KeepsWs x) (hf : ∀ a, KeepsWs (f a)) : KeepsWs (x >>= f) := by
  constructor
  intro m
  rw [runM_bind]
  have h1 := hx.ws m
  cases h : runM x m with
  | mk r m1 =>
    rw [h] at h1
    cases r with
    | ok a => exact ((hf a).ws m1).trans h1
    | error e => exact h1

theorem KeepsWs.tryCatch {x : M α β} {h : Stop → M α β} (hx : KeepsWs x) (hh : ∀ e, KeepsWs (h e)) : KeepsWs (tryCatch x h) := by
  constructor
  intro m
  rw [runM_tryCatch]
  have h1 := hx.ws m
  cases hr : runM x m with
  | mk r m1 =>
    rw [hr] at h1
    cases r with
    | ok a => exact h1
    | error e => exact ((hh e).ws m1).trans h1

/-- `let m ← get; …` where the continuation is run on the state it was given -/
theorem kw_get_bind {f : Mem α → M α β} (h : ∀ m, (runM (f m) m).2.ws = m.ws) : KeepsWs ((MonadState.get : M α (Mem α)) >>= f) := by
  constructor
  intro m
  rw [runM_bind]
  exact h m

/-- one step of the `KeepsWs` prover; extended by `macro_rules` after each lemma (the latest rule is tried first) -/
syntax "kws_step" : tactic
macro "kws" : tactic => `(tactic| repeat' (first | kws_step | intro _))
macro_rules | `(tactic| kws_step) => `(tactic| dsimp only)
macro_rules | `(tactic| kws_step) => `(tactic| split)
macro_rules | `(tactic| kws_step) => `(tactic| with_reducible apply KeepsWs.bind)
macro_rules | `(tactic| kws_step) => `(tactic| with_reducible apply KeepsWs.tryCatch)
macro_rules | `(tactic| kws_step) => `(tactic| (with_reducible apply KeepsWs.modify; intro _; rfl))
macro_rules | `(tactic| kws_step) => `(tactic| with_reducible exact KeepsWs.get)
macro_rules | `(tactic| kws_step) => `(tactic| with_reducible exact KeepsWs.raise _)
macro_rules | `(tactic| kws_step) => `(tactic| with_reducible exact KeepsWs.fault _)
macro_rules | `(tactic| kws_step) => `(tactic| with_reducible exact KeepsWs.throw _)
macro_rules | `(tactic| kws_step) => `(tactic| with_reducible exact KeepsWs.pure _)
macro_rules | `(tactic| kws_step) => `(tactic| with_reducible assumption)

/-- leaves: direct state manipulation -/
macro "kwleaf" : tactic => `(tactic| (repeat' (first | rfl | split)))

theorem kw_tick (e : Exc) : KeepsWs (tick (α := α) e) := by
  unfold tick; apply kw_get_bind; intro m; kwleaf
macro_rules | `(tactic| kws_step) => `(tactic| with_reducible exact kw_tick _)
theorem kw_isTC : KeepsWs (isTC (α := α)) := by unfold isTC; exact ⟨fun m => rfl⟩
macro_rules | `(tactic| kws_step) => `(tactic| with_reducible exact kw_isTC)
theorem kw_isTR : KeepsWs (isTR (α := α)) := by unfold isTR; exact ⟨fun m => rfl⟩
macro_rules | `(tactic| kws_step) => `(tactic| with_reducible exact kw_isTR)
theorem kw_bumpEv (f : Ev → Ev) : KeepsWs (bumpEv (α := α) f) := by unfold bumpEv; kws
macro_rules | `(tactic| kws_step) => `(tactic| with_reducible exact kw_bumpEv _)
theorem kw_getBuf (r : Region) : KeepsWs (getBuf (α := α) r) := by
  unfold getBuf; kws
macro_rules | `(tactic| kws_step) => `(tactic| with_reducible exact kw_getBuf _)
theorem kw_putBuf (r : Region) (b : List (Slot α)) : KeepsWs (putBuf r b) := by
  unfold putBuf; apply kw_get_bind; intro m; kwleaf
macro_rules | `(tactic| kws_step) => `(tactic| with_reducible exact kw_putBuf _ _)
theorem kw_rd (a : Addr) : KeepsWs (rd (α := α) a) := by unfold rd; kws
macro_rules | `(tactic| kws_step) => `(tactic| with_reducible exact kw_rd _)
theorem kw_wr (a : Addr) (s : Slot α) : KeepsWs (wr a s) := by unfold wr; kws
macro_rules | `(tactic| kws_step) => `(tactic| with_reducible exact kw_wr _ _)
theorem kw_readLive (a : Addr) : KeepsWs (readLive (α := α) a) := by unfold readLive; kws
macro_rules | `(tactic| kws_step) => `(tactic| with_reducible exact kw_readLive _)
theorem kw_requireRaw (a : Addr) : KeepsWs (requireRaw (α := α) a) := by unfold requireRaw; kws
macro_rules | `(tactic| kws_step) => `(tactic| with_reducible exact kw_requireRaw _)
theorem kw_requireAlive (a : Addr) (f : Fault) : KeepsWs (requireAlive (α := α) a f) := by unfold requireAlive; kws
macro_rules | `(tactic| kws_step) => `(tactic| with_reducible exact kw_requireAlive _ _)
theorem kw_movedFrom (v : α) : KeepsWs (movedFrom v) := by unfold movedFrom; kws
macro_rules | `(tactic| kws_step) => `(tactic| with_reducible exact kw_movedFrom _)
theorem kw_constructCopy (a : Addr) (v : α) : KeepsWs (constructCopy a v) := by unfold constructCopy; kws
macro_rules | `(tactic| kws_step) => `(tactic| with_reducible exact kw_constructCopy _ _)
theorem kw_constructValue [Inhabited α] (a : Addr) : KeepsWs (constructValue (α := α) a) := by unfold constructValue; kws
macro_rules | `(tactic| kws_step) => `(tactic| with_reducible exact kw_constructValue _)
theorem kw_constructMove (d s : Addr) : KeepsWs (constructMove (α := α) d s) := by unfold constructMove; kws
macro_rules | `(tactic| kws_step) => `(tactic| with_reducible exact kw_constructMove _ _)
theorem kw_constructFromRvalue (d : Addr) (v : α) : KeepsWs (constructFromRvalue d v) := by unfold constructFromRvalue; kws
macro_rules | `(tactic| kws_step) => `(tactic| with_reducible exact kw_constructFromRvalue _ _)
theorem kw_destroyAt (a : Addr) : KeepsWs (destroyAt (α := α) a) := by unfold destroyAt; kws
macro_rules | `(tactic| kws_step) => `(tactic| with_reducible exact kw_destroyAt _)
theorem kw_assignCopy (a : Addr) (v : α) : KeepsWs (assignCopy a v) := by unfold assignCopy; kws
macro_rules | `(tactic| kws_step) => `(tactic| with_reducible exact kw_assignCopy _ _)
theorem kw_assignMove (d s : Addr) : KeepsWs (assignMove (α := α) d s) := by unfold assignMove; kws
macro_rules | `(tactic| kws_step) => `(tactic| with_reducible exact kw_assignMove _ _)
theorem kw_assignFromRvalue (d : Addr) (v : α) : KeepsWs (assignFromRvalue d v) := by unfold assignFromRvalue; kws
macro_rules | `(tactic| kws_step) => `(tactic| with_reducible exact kw_assignFromRvalue _ _)

theorem kw_readLiveN (a : Addr) (n : Nat) : KeepsWs (readLiveN (α := α) a n) := by
  induction n generalizing a with
  | zero => exact KeepsWs.pure _
  | succ n ih => unfold readLiveN; have := ih (a.add 1); kws
macro_rules | `(tactic| kws_step) => `(tactic| with_reducible exact kw_readLiveN _ _)
theorem kw_setRawN (a : Addr) (n : Nat) : KeepsWs (setRawN (α := α) a n) := by
  induction n generalizing a with
  | zero => exact KeepsWs.pure _
  | succ n ih => unfold setRawN; have := ih (a.add 1); kws
macro_rules | `(tactic| kws_step) => `(tactic| with_reducible exact kw_setRawN _ _)
theorem kw_writeLiveRaw (a : Addr) (vs : List α) : KeepsWs (writeLiveRaw a vs) := by
  induction vs generalizing a with
  | nil => exact KeepsWs.pure _
  | cons v vs ih => unfold writeLiveRaw; have := ih (a.add 1); kws
macro_rules | `(tactic| kws_step) => `(tactic| with_reducible exact kw_writeLiveRaw _ _)
theorem kw_relocBitwise (s : Addr) (n : Nat) (d : Addr) : KeepsWs (relocBitwise (α := α) s n d) := by unfold relocBitwise; kws
macro_rules | `(tactic| kws_step) => `(tactic| with_reducible exact kw_relocBitwise _ _ _)
theorem kw_destroyN (a : Addr) (n : Nat) : KeepsWs (destroyN (α := α) a n) := by
  induction n generalizing a with
  | zero => exact KeepsWs.pure _
  | succ n ih => unfold destroyN; have := ih (a.add 1); kws
macro_rules | `(tactic| kws_step) => `(tactic| with_reducible exact kw_destroyN _ _)
theorem kw_uninitFillN_go (a : Addr) (v : α) (k : Nat) (p : Addr) (done : Nat) : KeepsWs (uninitFillN.go a v p k done) := by
  induction k generalizing p done with
  | zero => exact KeepsWs.pure _
  | succ k ih => unfold uninitFillN.go; have := ih (p.add 1) (done + 1); kws
theorem kw_uninitFillN (a : Addr) (n : Nat) (v : α) : KeepsWs (uninitFillN a n v) := kw_uninitFillN_go a v n a 0
macro_rules | `(tactic| kws_step) => `(tactic| with_reducible exact kw_uninitFillN _ _ _)
theorem kw_uninitCopyN_go (a : Addr) (vs : List α) (p : Addr) (done : Nat) : KeepsWs (uninitCopyN.go a p vs done) := by
  induction vs generalizing p done with
  | nil => exact KeepsWs.pure _
  | cons v vs ih => unfold uninitCopyN.go; have := ih (p.add 1) (done + 1); kws
theorem kw_uninitCopyN (a : Addr) (vs : List α) : KeepsWs (uninitCopyN a vs) := kw_uninitCopyN_go a vs a 0
macro_rules | `(tactic| kws_step) => `(tactic| with_reducible exact kw_uninitCopyN _ _)
theorem kw_uninitValueN_go [Inhabited α] (a : Addr) (k : Nat) (p : Addr) (done : Nat) : KeepsWs (uninitValueN.go (α := α) a p k done) := by
  induction k generalizing p done with
  | zero => exact KeepsWs.pure _
  | succ k ih => unfold uninitValueN.go; have := ih (p.add 1) (done + 1); kws
theorem kw_uninitValueN [Inhabited α] (a : Addr) (n : Nat) : KeepsWs (uninitValueN (α := α) a n) := kw_uninitValueN_go a n a 0
macro_rules | `(tactic| kws_step) => `(tactic| with_reducible exact kw_uninitValueN _ _)
theorem kw_fillN (a : Addr) (n : Nat) (v : α) : KeepsWs (fillN a n v) := by
  induction n generalizing a with
  | zero => exact KeepsWs.pure _
  | succ n ih => unfold fillN; have := ih (a.add 1); kws
macro_rules | `(tactic| kws_step) => `(tactic| with_reducible exact kw_fillN _ _ _)
theorem kw_copyN (a : Addr) (vs : List α) : KeepsWs (copyN a vs) := by
  induction vs generalizing a with
  | nil => exact KeepsWs.pure _
  | cons v vs ih => unfold copyN; have := ih (a.add 1); kws
macro_rules | `(tactic| kws_step) => `(tactic| with_reducible exact kw_copyN _ _)
theorem kw_uninitMoveN (s : Addr) (n : Nat) (d : Addr) : KeepsWs (uninitMoveN (α := α) s n d) := by
  induction n generalizing s d with
  | zero => exact KeepsWs.pure _
  | succ n ih => unfold uninitMoveN; have := ih (s.add 1) (d.add 1); kws
macro_rules | `(tactic| kws_step) => `(tactic| with_reducible exact kw_uninitMoveN _ _ _)
theorem kw_moveFwd (s : Addr) (n : Nat) (d : Addr) : KeepsWs (moveFwd (α := α) s n d) := by
  induction n generalizing s d with
  | zero => exact KeepsWs.pure _
  | succ n ih => unfold moveFwd; have := ih (s.add 1) (d.add 1); kws
macro_rules | `(tactic| kws_step) => `(tactic| with_reducible exact kw_moveFwd _ _ _)
theorem kw_moveBwd (s : Addr) (n : Nat) (d : Addr) : KeepsWs (moveBwd (α := α) s n d) := by
  induction n generalizing s d with
  | zero => exact KeepsWs.pure _
  | succ n ih => unfold moveBwd; have := ih s d; kws
macro_rules | `(tactic| kws_step) => `(tactic| with_reducible exact kw_moveBwd _ _ _)

theorem kw_uninitRelocN (s : Addr) (n : Nat) (d : Addr) : KeepsWs (uninitRelocN (α := α) s n d) := by
  unfold uninitRelocN; kws
macro_rules | `(tactic| kws_step) => `(tactic| with_reducible exact kw_uninitRelocN _ _ _)

theorem kw_relocateAt (s d : Addr) : KeepsWs (relocateAt (α := α) s d) := by
  unfold relocateAt; kws
macro_rules | `(tactic| kws_step) => `(tactic| with_reducible exact kw_relocateAt _ _)

theorem kw_swapElem (a b : Addr) : KeepsWs (swapElem (α := α) a b) := by
  unfold swapElem; kws
macro_rules | `(tactic| kws_step) => `(tactic| with_reducible exact kw_swapElem _ _)

theorem kw_swapRanges (a : Addr) (n : Nat) (b : Addr) : KeepsWs (swapRanges (α := α) a n b) := by
  induction n generalizing a b with
  | zero => exact KeepsWs.pure _
  | succ n ih => unfold swapRanges; have := ih (a.add 1) (b.add 1); kws
macro_rules | `(tactic| kws_step) => `(tactic| with_reducible exact kw_swapRanges _ _ _)

theorem kw_allocBlock (n id : Nat) : KeepsWs (allocBlock (α := α) n id) := by
  unfold allocBlock; kws
macro_rules | `(tactic| kws_step) => `(tactic| with_reducible exact kw_allocBlock _ _)

theorem kw_findBlock (id : Nat) : KeepsWs (findBlock (α := α) id) := by
  unfold findBlock; exact ⟨fun m => rfl⟩
macro_rules | `(tactic| kws_step) => `(tactic| with_reducible exact kw_findBlock _)

theorem kw_deallocBlock (p : PtrV) (n : Nat) : KeepsWs (deallocBlock (α := α) p n) := by
  unfold deallocBlock; kws
macro_rules | `(tactic| kws_step) => `(tactic| with_reducible exact kw_deallocBlock _ _)

theorem kw_deref (r : Ref α) : KeepsWs (deref r) := by
  unfold deref; kws
macro_rules | `(tactic| kws_step) => `(tactic| with_reducible exact kw_deref _)

theorem kw_constructCopyRef (a : Addr) (r : Ref α) : KeepsWs (constructCopyRef a r) := by
  unfold constructCopyRef; kws
macro_rules | `(tactic| kws_step) => `(tactic| with_reducible exact kw_constructCopyRef _ _)

theorem kw_assignCopyRef (a : Addr) (r : Ref α) : KeepsWs (assignCopyRef a r) := by
  unfold assignCopyRef; kws
macro_rules | `(tactic| kws_step) => `(tactic| with_reducible exact kw_assignCopyRef _ _)

theorem kw_uninitFillRef_go (a : Addr) (r : Ref α) (k : Nat) (p : Addr) (done : Nat) : KeepsWs (uninitFillRef.go a r p k done) := by
  induction k generalizing p done with
  | zero => exact KeepsWs.pure _
  | succ k ih => unfold uninitFillRef.go; have := ih (p.add 1) (done + 1); kws
theorem kw_uninitFillRef (a : Addr) (n : Nat) (r : Ref α) : KeepsWs (uninitFillRef a n r) := kw_uninitFillRef_go a r n a 0
macro_rules | `(tactic| kws_step) => `(tactic| with_reducible exact kw_uninitFillRef _ _ _)
theorem kw_fillRef (a : Addr) (n : Nat) (r : Ref α) : KeepsWs (fillRef a n r) := by
  induction n generalizing a with
  | zero => exact KeepsWs.pure _
  | succ n ih => unfold fillRef; have := ih (a.add 1); kws
macro_rules | `(tactic| kws_step) => `(tactic| with_reducible exact kw_fillRef _ _ _)

theorem kw_shiftRight1 (f : Addr) (n : Nat) : KeepsWs (shiftRight1 (α := α) f n) := by
  unfold shiftRight1; kws
macro_rules | `(tactic| kws_step) => `(tactic| with_reducible exact kw_shiftRight1 _ _)

theorem kw_shiftRightN (f : Addr) (n k : Nat) : KeepsWs (shiftRightN (α := α) f n k) := by
  unfold shiftRightN; kws
macro_rules | `(tactic| kws_step) => `(tactic| with_reducible exact kw_shiftRightN _ _ _)

theorem kw_fillAfterShift (f : Addr) (n k : Nat) (v : Ref α) : KeepsWs (fillAfterShift f n k v) := by
  unfold fillAfterShift; kws
macro_rules | `(tactic| kws_step) => `(tactic| with_reducible exact kw_fillAfterShift _ _ _ _)

theorem kw_assignN (vals : List α) (d : Addr) (n : Nat) : KeepsWs (assignN vals d n) := by
  unfold assignN; kws
macro_rules | `(tactic| kws_step) => `(tactic| with_reducible exact kw_assignN _ _ _)

theorem kw_copyAfterShift (vals : List α) (n : Nat) (p : Addr) : KeepsWs (copyAfterShift vals n p) := by
  unfold copyAfterShift; kws
macro_rules | `(tactic| kws_step) => `(tactic| with_reducible exact kw_copyAfterShift _ _ _)

theorem kw_destroyAfterShift (p : Addr) : KeepsWs (destroyAfterShift (α := α) p) := by
  unfold destroyAfterShift; kws
macro_rules | `(tactic| kws_step) => `(tactic| with_reducible exact kw_destroyAfterShift _)

theorem kw_shiftLeft (f : Addr) (n : Nat) : KeepsWs (shiftLeft (α := α) f n) := by
  unfold shiftLeft; kws
macro_rules | `(tactic| kws_step) => `(tactic| with_reducible exact kw_shiftLeft _ _)

theorem kw_uninitShiftLeft (f : Addr) (n : Nat) : KeepsWs (uninitShiftLeft (α := α) f n) := by
  unfold uninitShiftLeft; kws
macro_rules | `(tactic| kws_step) => `(tactic| with_reducible exact kw_uninitShiftLeft _ _)

theorem kw_eraseN (f : Addr) (n k : Nat) : KeepsWs (eraseN (α := α) f n k) := by
  unfold eraseN; kws
macro_rules | `(tactic| kws_step) => `(tactic| with_reducible exact kw_eraseN _ _ _)

theorem kw_eraseAt (f : Addr) (k : Nat) : KeepsWs (eraseAt (α := α) f k) := by
  unfold eraseAt; kws
macro_rules | `(tactic| kws_step) => `(tactic| with_reducible exact kw_eraseAt _ _)

theorem kw_fillHelper (f : Addr) (n k : Nat) (v : Ref α) : KeepsWs (fillHelper f n k v) := by
  unfold fillHelper; kws
macro_rules | `(tactic| kws_step) => `(tactic| with_reducible exact kw_fillHelper _ _ _ _)

theorem kw_swapDeep (f1 : Addr) (c1 : Nat) (f2 : Addr) (c2 : Nat) : KeepsWs (swapDeep (α := α) f1 c1 f2 c2) := by
  unfold swapDeep; kws
macro_rules | `(tactic| kws_step) => `(tactic| with_reducible exact kw_swapDeep _ _ _ _)

theorem kw_moveN (f : Addr) (n : Nat) (d : Addr) (dn : Nat) : KeepsWs (moveN (α := α) f n d dn) := by
  unfold moveN; kws
macro_rules | `(tactic| kws_step) => `(tactic| with_reducible exact kw_moveN _ _ _ _)

theorem kw_constructArg (a : Addr) (v : Arg α) : KeepsWs (constructArg a v) := by
  unfold constructArg; kws
macro_rules | `(tactic| kws_step) => `(tactic| with_reducible exact kw_constructArg _ _)

theorem kw_assignAfterShift (p : Addr) (v : Arg α) : KeepsWs (assignAfterShift p v) := by
  unfold assignAfterShift; kws
macro_rules | `(tactic| kws_step) => `(tactic| with_reducible exact kw_assignAfterShift _ _)

theorem kw_relocateAfterShift (e d : Addr) : KeepsWs (relocateAfterShift (α := α) e d) := by
  unfold relocateAfterShift; kws
macro_rules | `(tactic| kws_step) => `(tactic| with_reducible exact kw_relocateAfterShift _ _)

theorem kw_insertN (p : Addr) (n : Nat) (v : Arg α) : KeepsWs (insertN p n v) := by
  unfold insertN; kws
macro_rules | `(tactic| kws_step) => `(tactic| with_reducible exact kw_insertN _ _ _)

theorem kw_reallocBlock (p : PtrV) (o n l : Nat) (r : PtrV) : KeepsWs (reallocBlock (α := α) p o n l r) := by
  unfold reallocBlock; kws
macro_rules | `(tactic| kws_step) => `(tactic| with_reducible exact kw_reallocBlock _ _ _ _ _)

theorem kw_interp (c0 c1 : Nat) (e : Eff) : KeepsWs (interp (α := α) c0 c1 e) := by
  unfold interp; kws
macro_rules | `(tactic| kws_step) => `(tactic| with_reducible exact kw_interp _ _ _)

theorem kw_interpAll (c0 c1 : Nat) (es : List Eff) : KeepsWs (interpAll (α := α) c0 c1 es) := by
  induction es with
  | nil => exact KeepsWs.pure _
  | cons e es ih => unfold interpAll; kws
macro_rules | `(tactic| kws_step) => `(tactic| with_reducible exact kw_interpAll _ _ _)

theorem kw_emplaceN (p : Addr) (n : Nat) (v : Arg α) : KeepsWs (emplaceN p n v) := by
  unfold emplaceN; kws
macro_rules | `(tactic| kws_step) => `(tactic| with_reducible exact kw_emplaceN _ _ _)

theorem kw_moveOut (p : Addr) : KeepsWs (Gen.Glue.moveOut (α := α) p) := by
  unfold Gen.Glue.moveOut; kws
macro_rules | `(tactic| kws_step) => `(tactic| with_reducible exact kw_moveOut _)


/- ------------------------------------------------------------------------------------------------------------------
   running programs: projection form of bind, the reads of the words of container `c`
   ------------------------------------------------------------------------------------------------------------------ -/

theorem M_ext {x y : M α β} (h : ∀ m, runM x m = runM y m) : x = y := by
  have : x.run.run = y.run.run := funext h
  exact this

theorem runM_bind2 (x : M α β) (f : β → M α γ) (m : Mem α) :
    runM (x >>= f) m = match (runM x m).1 with
      | .ok a => runM (f a) (runM x m).2
      | .error e => (.error e, (runM x m).2) := by
  rw [runM_bind]
  cases h : runM x m with
  | mk r m1 => cases r <;> rfl

theorem runM_ite {c : Prop} [Decidable c] (a b : M α β) (m : Mem α) :
    runM (if c then a else b) m = if c then runM a m else runM b m := by split <;> rfl

theorem ws_after {x : M α β} (h : KeepsWs x) (m : Mem α) : (runM x m).2.ws = m.ws := h.ws m

theorem runM_getW (c : Nat) (m : Mem α) :
    runM (getW c) m = match m.ws[c]? with
      | some w => (.ok w, m)
      | none => (.error (.fault .oob), m) := by
  unfold getW
  rw [runM_bind]
  show runM (match m.ws[c]? with | some w => pure w | none => fault Fault.oob) m = _
  cases h : m.ws[c]? <;> rfl


theorem ite_bind' {c : Prop} [Decidable c] (a b : M α β) (f : β → M α γ) :
    (if c then a else b) >>= f = if c then a >>= f else b >>= f := by split <;> rfl

/-- unfold the reads / writes of the words of container `c` down to `getW` / `setW` -/
macro "glue_unfold" : tactic => `(tactic| simp only [posAddr, vsize, vcap, vbegin, vend, Gen.Glue.vdyn, incrSize, decrSize, setSize, bind_assoc, pure_bind, ite_bind'])

macro "glue_run" "[" ts:Lean.Parser.Tactic.simpLemma,* "]" : tactic =>
  `(tactic| simp (disch := kws) only [runM_bind2, runM_pure, runM_getW, runM_ite, ws_after, $ts,*])


theorem run_getW_bind (c : Nat) (f : VB → M α β) (m : Mem α) :
    runM (getW c >>= f) m = match m.ws[c]? with
      | some w => runM (f w) m
      | none => (.error (.fault .oob), m) := by
  rw [runM_bind, runM_getW]
  cases h : m.ws[c]? <;> rfl

/-- step over a common first action: the continuations are compared on the states it can produce -/
theorem bind_congr_run (x : M α β) (f g : β → M α γ) (m : Mem α)
    (h : ∀ a m', runM x m = (.ok a, m') → runM (f a) m' = runM (g a) m') : runM (x >>= f) m = runM (x >>= g) m := by
  rw [runM_bind, runM_bind]
  cases hx : runM x m with
  | mk r m1 =>
    cases r with
    | ok a => exact h a m1 hx
    | error e => rfl

theorem ws_of_run {x : M α β} (hk : KeepsWs x) {m m' : Mem α} {r : Except Stop β} (hx : runM x m = (r, m')) : m'.ws = m.ws := by
  have := hk.ws m; rw [hx] at this; exact this

/- ------------------------------------------------------------------------------------------------------------------
   the equalities
   ------------------------------------------------------------------------------------------------------------------ -/

theorem pushBackCopy_eq : @Gen.Glue.pushBackCopy α = pushBackCopy := rfl
theorem pushBackMove_eq : @Gen.Glue.pushBackMove α = pushBackMove := rfl
theorem popBack_eq : @Gen.Glue.popBack α = popBack := rfl
theorem clear_eq : @Gen.Glue.clear α = clear := rfl
theorem insertMove_eq : @Gen.Glue.insertMove α = fun cfg c p v => insertOne cfg c p (.move v) := rfl

theorem eraseOne_eq : @Gen.Glue.eraseOne α = eraseOne := by
  funext cfg c p; apply M_ext; intro m
  unfold Gen.Glue.eraseOne eraseOne
  glue_unfold
  cases h : m.ws[c]? <;> glue_run [h]

theorem popBackVal_eq : @Gen.Glue.popBackVal α = popBackVal := by
  funext cfg c
  unfold Gen.Glue.popBackVal popBackVal Gen.Glue.popBack popBack Gen.Glue.moveOut Gen.Glue.subA
  glue_unfold

theorem insertCopy_eq : @Gen.Glue.insertCopy α = fun cfg c p v => insertOne cfg c p (.copy v) := by
  funext cfg c p v; apply M_ext; intro m
  unfold Gen.Glue.insertCopy insertOne
  glue_unfold
  cases h : m.ws[c]? with
  | none => simp only [run_getW_bind, h]
  | some w =>
    simp only [run_getW_bind, h]
    apply bind_congr_run; intro newV m' _
    cases h' : m'.ws[c]? <;> glue_run [h']


/-- `erase(first, last)`: the hand-written model reads `size()` before the test `n != 0`, the source only inside the branch:
    the two agree on every memory in which pool slot `c` exists -/
theorem eraseRange_eq (cfg : Cfg) (c p q : Nat) (m : Mem α) (hc : c < m.ws.length) :
    runM (Gen.Glue.eraseRange cfg c p q) m = runM (eraseRange cfg c p q) m := by
  unfold Gen.Glue.eraseRange eraseRange
  glue_unfold
  have h : m.ws[c]? = some m.ws[c] := List.getElem?_eq_getElem hc
  glue_run [h]

/- the reads keep the words -/
theorem kw_getW (c : Nat) : KeepsWs (getW (α := α) c) := by unfold getW; kws
macro_rules | `(tactic| kws_step) => `(tactic| with_reducible exact kw_getW _)
theorem kw_vsize (cfg : Cfg) (c : Nat) : KeepsWs (vsize (α := α) cfg c) := by unfold vsize; kws
macro_rules | `(tactic| kws_step) => `(tactic| with_reducible exact kw_vsize _ _)
theorem kw_vcap (cfg : Cfg) (c : Nat) : KeepsWs (vcap (α := α) cfg c) := by unfold vcap; kws
macro_rules | `(tactic| kws_step) => `(tactic| with_reducible exact kw_vcap _ _)
theorem kw_vbegin (cfg : Cfg) (c : Nat) : KeepsWs (vbegin (α := α) cfg c) := by unfold vbegin; kws
macro_rules | `(tactic| kws_step) => `(tactic| with_reducible exact kw_vbegin _ _)

theorem run_bind_ok {x : M α β} {f : β → M α γ} {m m' : Mem α} {a : γ} (h : runM (x >>= f) m = (.ok a, m')) :
    ∃ b m1, runM x m = (.ok b, m1) ∧ runM (f b) m1 = (.ok a, m') := by
  rw [runM_bind] at h
  cases hx : runM x m with
  | mk r m1 =>
    rw [hx] at h
    cases r with
    | ok b => exact ⟨b, m1, rfl, h⟩
    | error e => cases h

/-- a successful `grow` keeps the size of the container (a law of the generated base-class members, on well-formed words) -/
def GrowStable (cfg : Cfg) (c : Nat) (m : Mem α) : Prop :=
  cfg.dynamic = true → ∀ w, m.ws[c]? = some w → ∀ needed a m', cfg.ops.capacity w < needed →
    runM (grow cfg c needed false) m = (.ok a, m') → ∃ w', m'.ws[c]? = some w' ∧ cfg.ops.size w' = cfg.ops.size w

theorem adjustCapacity_stable {cfg : Cfg} {c : Nat} {m m' : Mem α} (hS : GrowStable cfg c m) {w : VB} (h : m.ws[c]? = some w)
    {needed : Nat} {a : Unit} (hx : runM (adjustCapacity cfg c needed) m = (.ok a, m')) :
    ∃ w', m'.ws[c]? = some w' ∧ cfg.ops.size w' = cfg.ops.size w := by
  unfold adjustCapacity at hx
  by_cases hd : cfg.dynamic = true
  · rw [if_pos hd] at hx
    unfold vcap at hx
    simp only [bind_assoc, pure_bind, run_getW_bind, h] at hx
    by_cases hlt : cfg.ops.capacity w < needed
    · rw [if_pos hlt] at hx
      exact hS hd w h needed a m' hlt hx
    · rw [if_neg hlt] at hx
      have := ws_of_run (KeepsWs.pure _) hx
      exact ⟨w, by rw [this]; exact h, rfl⟩
  · rw [if_neg hd] at hx
    have := ws_of_run (by kws) hx
    exact ⟨w, by rw [this]; exact h, rfl⟩

theorem adjustCapacityRef_stable {cfg : Cfg} {c : Nat} {m m' : Mem α} (hS : GrowStable cfg c m) {w : VB} (h : m.ws[c]? = some w)
    {needed : Nat} {v a : Ref α} (hx : runM (adjustCapacityRef cfg c needed v) m = (.ok a, m')) :
    ∃ w', m'.ws[c]? = some w' ∧ cfg.ops.size w' = cfg.ops.size w := by
  unfold adjustCapacityRef at hx
  by_cases hd : cfg.dynamic = true
  · rw [if_pos hd] at hx
    unfold vcap at hx
    simp only [bind_assoc, pure_bind, run_getW_bind, h] at hx
    by_cases hlt : cfg.ops.capacity w < needed
    · rw [if_pos hlt] at hx
      unfold vbegin vsize at hx
      simp only [bind_assoc, pure_bind, run_getW_bind, h] at hx
      obtain ⟨b, m1, hg, hr⟩ := run_bind_ok hx
      obtain ⟨w', hw', hsz⟩ := hS hd w h needed b m1 hlt hg
      have := ws_of_run (by kws) hr
      exact ⟨w', by rw [this]; exact hw', hsz⟩
    · rw [if_neg hlt] at hx
      have := ws_of_run (KeepsWs.pure _) hx
      exact ⟨w, by rw [this]; exact h, rfl⟩
  · rw [if_neg hd] at hx
    have hk : KeepsWs (adjustCapacity (α := α) cfg c needed >>= fun _ => (Pure.pure v : M α (Ref α))) := by
      unfold adjustCapacity; rw [if_neg hd]; kws
    have := ws_of_run hk hx
    exact ⟨w, by rw [this]; exact h, rfl⟩

theorem resize_eq [Inhabited α] (cfg : Cfg) (c count : Nat) (m : Mem α) (hS : GrowStable cfg c m) :
    runM (Gen.Glue.resize cfg c count) m = runM (resize cfg c count) m := by
  unfold Gen.Glue.resize resize
  glue_unfold
  cases h : m.ws[c]? with
  | none => simp only [run_getW_bind, h]
  | some w =>
    simp only [run_getW_bind, h, runM_ite]
    split
    · apply bind_congr_run; intro _ m' hx
      obtain ⟨w', h', hsz⟩ := adjustCapacity_stable hS h hx
      glue_run [h', hsz]
    · glue_run [h]

theorem resizeFill_eq (cfg : Cfg) (c count : Nat) (v : Ref α) (m : Mem α) (hS : GrowStable cfg c m) :
    runM (Gen.Glue.resizeFill cfg c count v) m = runM (resizeFill cfg c count v) m := by
  unfold Gen.Glue.resizeFill resizeFill
  glue_unfold
  cases h : m.ws[c]? with
  | none => simp only [run_getW_bind, h]
  | some w =>
    simp only [run_getW_bind, h, runM_ite]
    split
    · apply bind_congr_run; intro _ m' hx
      obtain ⟨w', h', hsz⟩ := adjustCapacityRef_stable hS h hx
      glue_run [h', hsz]
    · glue_run [h]

theorem insertCount_eq (cfg : Cfg) (c p count : Nat) (v : Ref α) (m : Mem α) (hS : GrowStable cfg c m) :
    runM (Gen.Glue.insertCount cfg c p count v) m = runM (insertCount cfg c p count v) m := by
  unfold Gen.Glue.insertCount insertCount
  glue_unfold
  simp only [runM_ite]
  split
  · cases h : m.ws[c]? with
    | none => simp only [run_getW_bind, h]
    | some w =>
      simp only [run_getW_bind, h]
      apply bind_congr_run; intro _ m' hx
      obtain ⟨w', h', hsz⟩ := adjustCapacityRef_stable hS h hx
      glue_run [h', hsz]
  · rfl

theorem insertRange_eq (cfg : Cfg) (c p : Nat) (vals : List α) (m : Mem α) (hS : GrowStable cfg c m) :
    runM (Gen.Glue.insertRange cfg c p vals) m = runM (insertRange cfg c p vals) m := by
  unfold Gen.Glue.insertRange insertRange
  glue_unfold
  simp only [runM_ite]
  split
  · cases h : m.ws[c]? with
    | none => simp only [run_getW_bind, h]
    | some w =>
      simp only [run_getW_bind, h]
      apply bind_congr_run; intro _ m' hx
      obtain ⟨w', h', hsz⟩ := adjustCapacity_stable hS h hx
      glue_run [h', hsz]
  · rfl

theorem assignFill_eq (cfg : Cfg) (c count : Nat) (v : Ref α) (m : Mem α) (hS : GrowStable cfg c m) :
    runM (Gen.Glue.assignFill cfg c count v) m = runM (assignFill cfg c count v) m := by
  unfold Gen.Glue.assignFill assignFill
  glue_unfold
  cases h : m.ws[c]? with
  | none => simp only [run_getW_bind, h]
  | some w =>
    simp only [run_getW_bind, h, runM_ite]
    split
    · apply bind_congr_run; intro _ m' hx
      obtain ⟨w', h', hsz⟩ := adjustCapacityRef_stable hS h hx
      glue_run [h', hsz]
    · glue_run [h]

theorem assignRange_eq (cfg : Cfg) (c : Nat) (vals : List α) (m : Mem α) (hS : GrowStable cfg c m) :
    runM (Gen.Glue.assignRange cfg c vals) m = runM (assignRange cfg c vals) m := by
  unfold Gen.Glue.assignRange assignRange
  glue_unfold
  cases h : m.ws[c]? with
  | none => simp only [run_getW_bind, h]
  | some w =>
    simp only [run_getW_bind, h, runM_ite]
    split
    · apply bind_congr_run; intro _ m' hx
      obtain ⟨w', h', hsz⟩ := adjustCapacity_stable hS h hx
      glue_run [h', hsz]
    · glue_run [h]

theorem appendN_eq [Inhabited α] (cfg : Cfg) (c count : Nat) (m : Mem α) (hS : GrowStable cfg c m) :
    runM (Gen.Glue.appendN cfg c count) m = runM (appendN cfg c count) m := by
  unfold Gen.Glue.appendN appendN
  glue_unfold
  cases h : m.ws[c]? with
  | none => simp only [run_getW_bind, h]
  | some w =>
    simp only [run_getW_bind, h]
    apply bind_congr_run; intro _ m' hx
    obtain ⟨w', h', hsz⟩ := adjustCapacity_stable hS h hx
    glue_run [h', hsz]

theorem appendFill_eq (cfg : Cfg) (c count : Nat) (v : Ref α) (m : Mem α) (hS : GrowStable cfg c m) :
    runM (Gen.Glue.appendFill cfg c count v) m = runM (appendFill cfg c count v) m := by
  unfold Gen.Glue.appendFill appendFill
  glue_unfold
  cases h : m.ws[c]? with
  | none => simp only [run_getW_bind, h]
  | some w =>
    simp only [run_getW_bind, h]
    apply bind_congr_run; intro _ m' hx
    obtain ⟨w', h', hsz⟩ := adjustCapacityRef_stable hS h hx
    glue_run [h', hsz]

theorem appendRange_eq (cfg : Cfg) (c : Nat) (vals : List α) (m : Mem α) (hS : GrowStable cfg c m) :
    runM (Gen.Glue.appendRange cfg c vals) m = runM (appendRange cfg c vals) m := by
  unfold Gen.Glue.appendRange appendRange
  glue_unfold
  cases h : m.ws[c]? with
  | none => simp only [run_getW_bind, h]
  | some w =>
    simp only [run_getW_bind, h]
    apply bind_congr_run; intro _ m' hx
    obtain ⟨w', h', hsz⟩ := adjustCapacity_stable hS h hx
    glue_run [h', hsz]

theorem insertIter_eq (cfg : Cfg) (c p : Nat) (vals : List α) (m : Mem α) (hS : GrowStable cfg c m) :
    runM (Gen.Glue.insertIter cfg c p vals) m = runM (insertRange cfg c p vals) m := insertRange_eq cfg c p vals m hS
theorem assignIter_eq (cfg : Cfg) (c : Nat) (vals : List α) (m : Mem α) (hS : GrowStable cfg c m) :
    runM (Gen.Glue.assignIter cfg c vals) m = runM (assignRange cfg c vals) m := assignRange_eq cfg c vals m hS
theorem appendIter_eq (cfg : Cfg) (c : Nat) (vals : List α) (m : Mem α) (hS : GrowStable cfg c m) :
    runM (Gen.Glue.appendIter cfg c vals) m = runM (appendRange cfg c vals) m := appendRange_eq cfg c vals m hS

/- ------------------------------------------------------------------------------------------------------------------
   the members of the flavour classes: `DynamicVector` ↔ the `cfg.dynamic` branches, `StaticVector` ↔ the else branches
   ------------------------------------------------------------------------------------------------------------------ -/

theorem adjustCapacity_eq (cfg : Cfg) (c n : Nat) : adjustCapacity (α := α) cfg c n =
    if cfg.dynamic then Gen.Glue.dynAdjustCapacity cfg c n else Gen.Glue.staticAdjustCapacity cfg c n := by
  unfold adjustCapacity Gen.Glue.dynAdjustCapacity Gen.Glue.staticAdjustCapacity Gen.Glue.policyCheck
  split
  · rfl
  · split
    · rfl
    · rfl

theorem reserve_eq (cfg : Cfg) (c n : Nat) : reserve (α := α) cfg c n =
    if cfg.dynamic then Gen.Glue.dynReserve cfg c n else Gen.Glue.staticReserve cfg c n := by
  unfold reserve
  split
  · rfl
  · rename_i hd
    rw [adjustCapacity_eq, if_neg hd]; rfl

theorem adjustCapacityRef_eq (cfg : Cfg) (c n : Nat) (v : Ref α) : adjustCapacityRef cfg c n v =
    if cfg.dynamic then Gen.Glue.dynAdjustCapacityRef cfg c n v else Gen.Glue.staticAdjustCapacityRef cfg c n v := by
  unfold adjustCapacityRef
  split
  · apply M_ext; intro m
    unfold Gen.Glue.dynAdjustCapacityRef
    glue_unfold
    cases h : m.ws[c]? with
    | none => simp only [run_getW_bind, h]
    | some w =>
      simp only [run_getW_bind, h, runM_ite]
      split
      · apply bind_congr_run; intro _ m' _
        cases v with
        | lit x => simp [Gen.Glue.refGe]
        | «at» a =>
          generalize resolve c c (cfg.ops.begin w) = b
          by_cases h1 : (a.r == b.r) = true <;> by_cases h2 : b.i ≤ a.i <;> by_cases h3 : a.i < b.i + cfg.ops.size w <;>
            simp [Gen.Glue.refGe, Gen.Glue.refLt, Gen.Glue.refDiff, Addr.add, h1, h2, h3]
      · rfl
  · rename_i hd
    unfold Gen.Glue.staticAdjustCapacityRef
    rw [adjustCapacity_eq, if_neg hd]

theorem kw_policyCheck (cfg : Cfg) (n k : Nat) : KeepsWs (Gen.Glue.policyCheck (α := α) cfg n k) := by
  unfold Gen.Glue.policyCheck; kws
macro_rules | `(tactic| kws_step) => `(tactic| with_reducible exact kw_policyCheck _ _ _)

theorem emplaceBack_static (cfg : Cfg) (c : Nat) (arg : Arg α) (hd : ¬ cfg.dynamic = true) :
    emplaceBack cfg c arg = Gen.Glue.staticEmplaceBack cfg c arg := by
  apply M_ext; intro m
  unfold emplaceBack staticCheck Gen.Glue.staticEmplaceBack
  simp only [if_neg hd, adjustCapacity_eq]
  unfold Gen.Glue.staticAdjustCapacity
  glue_unfold

theorem emplace_static (cfg : Cfg) (c p : Nat) (arg : Arg α) (hd : ¬ cfg.dynamic = true) :
    emplace cfg c p arg = Gen.Glue.staticEmplace cfg c p arg := by
  apply M_ext; intro m
  unfold emplace staticCheck Gen.Glue.staticEmplace
  simp only [if_neg hd, adjustCapacity_eq]
  unfold Gen.Glue.staticAdjustCapacity
  glue_unfold
  cases h : m.ws[c]? <;> glue_run [h]

theorem run_tryCatch_getW (c : Nat) (f : VB → M α β) (h : Stop → M α β) (m : Mem α) (w : VB) (hw : m.ws[c]? = some w) :
    runM (tryCatch (getW c >>= f) h) m = runM (tryCatch (f w) h) m := by
  rw [runM_tryCatch, runM_tryCatch, run_getW_bind, hw]

/-- `growOrDestroy(newElem)` reads `size()` itself; the hand-written one is given `size() + 1` by its callers -/
theorem growOrDestroy_eq (cfg : Cfg) (c : Nat) :
    Gen.Glue.growOrDestroy (α := α) cfg c tmpAddr = (do growOrDestroy cfg c ((← vsize cfg c) + 1)) := by
  apply M_ext; intro m
  unfold Gen.Glue.growOrDestroy growOrDestroy
  glue_unfold
  cases h : m.ws[c]? with
  | none =>
    rw [runM_tryCatch, run_getW_bind, run_getW_bind, h]
    rfl
  | some w =>
    rw [run_tryCatch_getW c _ _ m w h, run_getW_bind, h]
    rfl

theorem run_tryCatch_ok {x : M α β} {h : Stop → M α β} {m m' : Mem α} {a : β}
    (hh : ∀ s m1 b, (runM (h s) m1).1 ≠ .ok b) (hx : runM (tryCatch x h) m = (.ok a, m')) : runM x m = (.ok a, m') := by
  rw [runM_tryCatch] at hx
  cases hr : runM x m with
  | mk r m1 =>
    rw [hr] at hx
    cases r with
    | ok b => exact hx
    | error e =>
      have := hh e m1 a
      simp only at hx
      rw [hx] at this
      exact absurd rfl this

theorem run_bind_throw_ne_ok (x : M α β) (s : Stop) (m : Mem α) (b : γ) :
    (runM (x >>= fun _ => (throw s : M α γ)) m).1 ≠ .ok b := by
  rw [runM_bind]
  cases runM x m with
  | mk r m1 => cases r <;> (intro h; cases h)

/-- the handler of `growOrDestroy` always rethrows -/
theorem growOrDestroy_handler (s : Stop) (m1 : Mem α) (b : Unit) :
    (runM (do
      match s with
      | .exc _ => destroyAt (α := α) ⟨.tmp, 0⟩
      | .fault _ => pure ()
      (throw s : M α Unit)) m1).1 ≠ .ok b := by
  cases s with
  | exc e => exact run_bind_throw_ne_ok _ _ _ _
  | fault f => intro h; cases h

/-- after a successful `grow` the elements live in the heap block: `begin() == dynStorage()` (a law of the generated members
    of the dynamic flavours; `emplace_back` uses `dynStorage() + size()` on its growing path, the hand-written model `end()`) -/
def GrowToDyn (cfg : Cfg) (c : Nat) (m : Mem α) : Prop :=
  ∀ needed a m', runM (grow cfg c needed false) m = (.ok a, m') →
    ∀ w', m'.ws[c]? = some w' → resolve c c (cfg.ops.begin w') = resolve c c w'.dyn

theorem emplaceBack_dynamic (cfg : Cfg) (c : Nat) (arg : Arg α) (m : Mem α) (hd : cfg.dynamic = true)
    (hD : ∀ a m1, runM (constructArg tmpAddr arg) m = (.ok a, m1) → GrowToDyn cfg c m1) :
    runM (Gen.Glue.dynEmplaceBack cfg c arg) m = runM (emplaceBack cfg c arg) m := by
  unfold emplaceBack Gen.Glue.dynEmplaceBack
  simp only [if_pos hd, growOrDestroy_eq]
  glue_unfold
  cases h : m.ws[c]? with
  | none => simp only [run_getW_bind, h]
  | some w =>
    simp only [run_getW_bind, h, runM_ite, beq_iff_eq]
    split
    · apply bind_congr_run; intro _ m1 h1
      have hw1 : m1.ws[c]? = some w := by rw [ws_of_run (by kws) h1]; exact h
      simp only [run_getW_bind, hw1]
      apply bind_congr_run; intro _ m2 h2
      have hg := run_tryCatch_ok growOrDestroy_handler h2
      cases h2' : m2.ws[c]? with
      | none => simp only [run_getW_bind, h2']
      | some w2 =>
        have := hD _ m1 h1 _ _ m2 hg w2 h2'
        glue_run [h2', this]
    · glue_run [h]

/- ------------------------------------------------------------------------------------------------------------------
   `NoExc`: computations that never throw a C++ exception (they may fault): the moves and relocations of elements.
   `DynamicVector::emplace` wraps `relocate_after_shift` in a try/catch that the hand-written model omits.
   ------------------------------------------------------------------------------------------------------------------ -/

structure NoExc (x : M α β) : Prop where
  h : ∀ m e, (runM x m).1 ≠ .error (.exc e)

theorem NoExc.pure (a : β) : NoExc (pure a : M α β) := ⟨fun _ _ h => by cases h⟩
theorem NoExc.fault (f : Fault) : NoExc (fault f : M α β) := ⟨fun _ _ h => by cases h⟩
theorem NoExc.get : NoExc (get : M α (Mem α)) := ⟨fun _ _ h => by cases h⟩
theorem NoExc.set (m' : Mem α) : NoExc (set m' : M α PUnit) := ⟨fun _ _ h => by cases h⟩
theorem NoExc.modify (g : Mem α → Mem α) : NoExc (modify g : M α Unit) := ⟨fun _ _ h => by cases h⟩
theorem NoExc.bind {x : M α β} {f : β → M α γ} (hx : NoExc x) (hf : ∀ a, NoExc (f a)) : NoExc (x >>= f) := by
  constructor
  intro m e
  rw [runM_bind]
  have h1 := hx.h m e
  cases h : runM x m with
  | mk r m1 =>
    rw [h] at h1
    cases r with
    | ok a => exact (hf a).h m1 e
    | error e' => simpa using h1

syntax "nex_step" : tactic
macro "nex" : tactic => `(tactic| repeat' (first | nex_step | intro _))
macro_rules | `(tactic| nex_step) => `(tactic| dsimp only)
macro_rules | `(tactic| nex_step) => `(tactic| split)
macro_rules | `(tactic| nex_step) => `(tactic| with_reducible apply NoExc.bind)
macro_rules | `(tactic| nex_step) => `(tactic| with_reducible exact NoExc.modify _)
macro_rules | `(tactic| nex_step) => `(tactic| with_reducible exact NoExc.set _)
macro_rules | `(tactic| nex_step) => `(tactic| with_reducible exact NoExc.get)
macro_rules | `(tactic| nex_step) => `(tactic| with_reducible exact NoExc.fault _)
macro_rules | `(tactic| nex_step) => `(tactic| with_reducible exact NoExc.pure _)
macro_rules | `(tactic| nex_step) => `(tactic| with_reducible assumption)

theorem ne_getBuf (r : Region) : NoExc (getBuf (α := α) r) := by unfold getBuf; nex
macro_rules | `(tactic| nex_step) => `(tactic| with_reducible exact ne_getBuf _)

theorem ne_putBuf (r : Region) (b : List (Slot α)) : NoExc (putBuf r b) := by unfold putBuf; nex
macro_rules | `(tactic| nex_step) => `(tactic| with_reducible exact ne_putBuf _ _)

theorem ne_rd (a : Addr) : NoExc (rd (α := α) a) := by unfold rd; nex
macro_rules | `(tactic| nex_step) => `(tactic| with_reducible exact ne_rd _)

theorem ne_wr (a : Addr) (s : Slot α) : NoExc (wr a s) := by unfold wr; nex
macro_rules | `(tactic| nex_step) => `(tactic| with_reducible exact ne_wr _ _)

theorem ne_isTC  : NoExc (isTC (α := α)) := by unfold isTC; nex
macro_rules | `(tactic| nex_step) => `(tactic| with_reducible exact ne_isTC )

theorem ne_isTR  : NoExc (isTR (α := α)) := by unfold isTR; nex
macro_rules | `(tactic| nex_step) => `(tactic| with_reducible exact ne_isTR )

theorem ne_readLive (a : Addr) : NoExc (readLive (α := α) a) := by unfold readLive; nex
macro_rules | `(tactic| nex_step) => `(tactic| with_reducible exact ne_readLive _)

theorem ne_requireRaw (a : Addr) : NoExc (requireRaw (α := α) a) := by unfold requireRaw; nex
macro_rules | `(tactic| nex_step) => `(tactic| with_reducible exact ne_requireRaw _)

theorem ne_requireAlive (a : Addr) (f : Fault) : NoExc (requireAlive (α := α) a f) := by unfold requireAlive; nex
macro_rules | `(tactic| nex_step) => `(tactic| with_reducible exact ne_requireAlive _ _)

theorem ne_movedFrom (v : α) : NoExc (movedFrom v) := by unfold movedFrom; nex
macro_rules | `(tactic| nex_step) => `(tactic| with_reducible exact ne_movedFrom _)

theorem ne_bumpEv (f : Ev → Ev) : NoExc (bumpEv (α := α) f) := by unfold bumpEv; nex
macro_rules | `(tactic| nex_step) => `(tactic| with_reducible exact ne_bumpEv _)

theorem ne_constructMove (d s : Addr) : NoExc (constructMove (α := α) d s) := by unfold constructMove; nex
macro_rules | `(tactic| nex_step) => `(tactic| with_reducible exact ne_constructMove _ _)

theorem ne_destroyAt (a : Addr) : NoExc (destroyAt (α := α) a) := by unfold destroyAt; nex
macro_rules | `(tactic| nex_step) => `(tactic| with_reducible exact ne_destroyAt _)

theorem ne_assignMove (d s : Addr) : NoExc (assignMove (α := α) d s) := by unfold assignMove; nex
macro_rules | `(tactic| nex_step) => `(tactic| with_reducible exact ne_assignMove _ _)

theorem ne_readLiveN (a : Addr) (n : Nat) : NoExc (readLiveN (α := α) a n) := by
  induction n generalizing a with
  | zero => exact NoExc.pure _
  | succ n ih => unfold readLiveN; have := ih (a.add 1); nex
macro_rules | `(tactic| nex_step) => `(tactic| with_reducible exact ne_readLiveN _ _)
theorem ne_setRawN (a : Addr) (n : Nat) : NoExc (setRawN (α := α) a n) := by
  induction n generalizing a with
  | zero => exact NoExc.pure _
  | succ n ih => unfold setRawN; have := ih (a.add 1); nex
macro_rules | `(tactic| nex_step) => `(tactic| with_reducible exact ne_setRawN _ _)
theorem ne_writeLiveRaw (a : Addr) (vs : List α) : NoExc (writeLiveRaw a vs) := by
  induction vs generalizing a with
  | nil => exact NoExc.pure _
  | cons v vs ih => unfold writeLiveRaw; have := ih (a.add 1); nex
macro_rules | `(tactic| nex_step) => `(tactic| with_reducible exact ne_writeLiveRaw _ _)
theorem ne_relocBitwise (s : Addr) (n : Nat) (d : Addr) : NoExc (relocBitwise (α := α) s n d) := by unfold relocBitwise; nex
macro_rules | `(tactic| nex_step) => `(tactic| with_reducible exact ne_relocBitwise _ _ _)
theorem ne_destroyN (a : Addr) (n : Nat) : NoExc (destroyN (α := α) a n) := by
  induction n generalizing a with
  | zero => exact NoExc.pure _
  | succ n ih => unfold destroyN; have := ih (a.add 1); nex
macro_rules | `(tactic| nex_step) => `(tactic| with_reducible exact ne_destroyN _ _)
theorem ne_uninitMoveN (s : Addr) (n : Nat) (d : Addr) : NoExc (uninitMoveN (α := α) s n d) := by
  induction n generalizing s d with
  | zero => exact NoExc.pure _
  | succ n ih => unfold uninitMoveN; have := ih (s.add 1) (d.add 1); nex
macro_rules | `(tactic| nex_step) => `(tactic| with_reducible exact ne_uninitMoveN _ _ _)
theorem ne_uninitRelocN (s : Addr) (n : Nat) (d : Addr) : NoExc (uninitRelocN (α := α) s n d) := by unfold uninitRelocN; nex
macro_rules | `(tactic| nex_step) => `(tactic| with_reducible exact ne_uninitRelocN _ _ _)
theorem ne_relocateAt (s d : Addr) : NoExc (relocateAt (α := α) s d) := by unfold relocateAt; nex
macro_rules | `(tactic| nex_step) => `(tactic| with_reducible exact ne_relocateAt _ _)
theorem ne_relocateAfterShift (e d : Addr) : NoExc (relocateAfterShift (α := α) e d) := by unfold relocateAfterShift; nex

/-- a handler that only acts on C++ exceptions is dead code around a computation that never throws one -/
theorem tryCatch_noexc {x : M α β} (hx : NoExc x) {h : Stop → M α β}
    (hf : ∀ f m1, runM (h (.fault f)) m1 = (.error (.fault f), m1)) : tryCatch x h = x := by
  apply M_ext; intro m
  rw [runM_tryCatch]
  have h1 := hx.h m
  cases hr : runM x m with
  | mk r m1 =>
    rw [hr] at h1
    cases r with
    | ok a => rfl
    | error e =>
      cases e with
      | exc e => exact absurd rfl (h1 e)
      | fault f => exact hf f m1

theorem emplace_dynamic (cfg : Cfg) (c p : Nat) (arg : Arg α) (hd : cfg.dynamic = true) :
    Gen.Glue.dynEmplace cfg c p arg = emplace cfg c p arg := by
  apply M_ext; intro m
  unfold emplace Gen.Glue.dynEmplace
  simp only [if_pos hd, growOrDestroy_eq]
  glue_unfold
  cases h : m.ws[c]? with
  | none => simp only [run_getW_bind, h]
  | some w =>
    simp only [run_getW_bind, h, runM_ite, beq_iff_eq]
    split
    · apply bind_congr_run; intro _ m1 h1
      have hw1 : m1.ws[c]? = some w := by rw [ws_of_run (by kws) h1]; exact h
      simp only [run_getW_bind, hw1]
      apply bind_congr_run; intro _ m2 _
      cases h2' : m2.ws[c]? with
      | none => simp only [run_getW_bind, h2']
      | some w2 =>
        simp only [run_getW_bind, h2', runM_ite]
        split
        · rfl
        · apply bind_congr_run; intro _ m3 _
          rw [tryCatch_noexc (ne_relocateAfterShift _ _) (fun _ _ => rfl)]
    · glue_run [h]

theorem emplace_eq (cfg : Cfg) (c p : Nat) (arg : Arg α) :
    emplace cfg c p arg = if cfg.dynamic then Gen.Glue.dynEmplace cfg c p arg else Gen.Glue.staticEmplace cfg c p arg := by
  split
  · rename_i hd; exact (emplace_dynamic cfg c p arg hd).symm
  · rename_i hd; exact emplace_static cfg c p arg hd

/- ------------------------------------------------------------------------------------------------------------------
   `GrowStable` holds on every well-formed memory: it follows from the growth guarantee of the law package (`VecLaws.grow`,
   proved for the generated members of every flavour and size type in `Bridge/VecLaws*.lean`)
   ------------------------------------------------------------------------------------------------------------------ -/

theorem growStable_of_vrep {cfg : Cfg} {Ok : VB → Prop} (L : VecLaws α cfg Ok) {c : Nat} {m : Mem α} {xs : List α}
    (h : VRep cfg Ok c m xs) (hf : Fresh m) : GrowStable cfg c m := by
  intro hd w hw needed a m' hlt hrun
  obtain ⟨w0, hrep⟩ := h
  have hw0 : w0 = w := by
    have := hrep.ws; rw [hw] at this; injection this with this; exact this.symm
  subst hw0
  have hp := L.grow hd m c xs w0 needed false hrep hf hlt (by intro h; cases h)
  unfold Post at hp
  rw [hrun] at hp
  rcases hp.1 with ⟨_, w', hg⟩ | ⟨e, he, _⟩
  · exact ⟨w', hg.rep.ws, by rw [hg.rep.size, hrep.size]⟩
  · cases he
end AmcVerif.GlueBridge
