import AmcVerif.Gen.VecGlue
import AmcVerif.Lemmas.VecRep
import AmcVerif.Gen.WordsU8
import AmcVerif.Gen.WordsU16
import AmcVerif.Gen.WordsU32
import AmcVerif.Gen.WordsU64
/-! The generated model of the public vector operations (`Gen/VecGlue.lean`, regenerated from `vectorcommon.hpp` by
`translator/glue2lean.py`) equals the hand-written one (`Model/Vec.lean`).

* `rfl`: the generated definition is the hand-written one, statement by statement.
* "reads": the two differ only in where `size()` / `begin()` are read (the hand-written model reads once and re-uses the
  value, the source re-reads); proved by running both on an arbitrary memory (`runM`), no hypothesis.
* `hc : c < m.ws.length`: the hand-written model performs a read the source does not (or conversely) on a path without any
  other access; the two agree on every memory in which pool slot `c` exists.
* `hS : GrowStable cfg c m`: the hand-written model re-uses the size read *before* `adjustCapacity`, the source re-reads it
  afterwards. They agree whenever a successful `grow` keeps `size()`, which is a law of the generated base-class members on
  well-formed words (`VecLaws.grow`), not a property of arbitrary `BaseOps`.

* `emplace` / `emplace_back` / `reserve` / `adjustCapacity`: the `DynamicVector` member is the `cfg.dynamic` branch of the
  hand-written definition, the `StaticVector` member its else branch (`emplace_eq`, `reserve_eq`, `adjustCapacity_eq`,
  `adjustCapacityRef_eq`, `emplaceBack_static`); `emplaceBack_dynamic` needs `GrowToDyn` (the source uses
  `dynStorage() + size()` after growing, the hand-written model `end()`).

Task T7 (members of `Vector`, `~VectorDestr`, single-pass ranges, swap2):
* `rfl`: `shrinkToFit_eq`, `destruct_eq`, `construct_eq`, `moveConstruct_eq`, `moveAssign_eq` (a call of a base-class member is
  `cfg.ops.* + interpAll + setW` on both sides); `swapSame_eq`: the hand-written `swapSame` is `if c ≠ d then <generated>` (the source
  has no self-swap guard).
* `elems_eq`: `elems` is the pointer range `[o.begin(), o.end())` as the generated members pass it (`ptrRange`);
  `copyAssign_eq` (`GrowStable`), `copyConstruct_eq` (`c ≠ d`, the elements of `o` readable, `GrowStable` after the construction:
  the source constructs the empty vector before it reads `o`, the hand-written model after; `copyConstruct_fault` otherwise).
* single-pass ranges: `assignInput_eq`, `appendInput_eq`, `insertInput_eq` (+ the public dispatchers) are function equalities; the
  generated loops equal `appendInputLoop` by induction; `std::rotate` is the primitive `rotateTail` = the net-effect block of
  the hand-written `insertInput` (`putLive_eq`).
* swap2: `canSwapDyn_eq`, `canExchangeDyn_eq` (Bool functions of the words); `swap2_split` / `genSwap2_split` cut both sides into
  `adjustEachOtherCapacity` and `swap2_impl`; `genAdjust_eq` (`GrowStable ca a`), `genExchange_eq` (`a ≠ b`, `ExchLaws`, well-formed
  words) and `swap2_eq`. `ExchLaws` (what `setSize` does to a word in heap state) is proved for the generated base-class members of
  every size type (`exchLaws_*`).

Everything the element-level helpers of `Prim/` do leaves the words alone (`KeepsWs`, proved for each of them); moves and
relocations never throw a C++ exception (`NoExc`): the try/catch around `relocate_after_shift` in `DynamicVector::emplace`,
absent from the hand-written model, is dead code. `growStable_of_vrep`: `GrowStable` holds on every well-formed memory. -/
namespace AmcVerif.GlueBridge
open AmcVerif
variable {α β γ : Type}
set_option linter.unusedSimpArgs false

/-- the computation never changes the size/capacity/pointer words of any container -/
structure KeepsWs (x : M α β) : Prop where
  ws : ∀ m, (runM x m).2.ws = m.ws

theorem KeepsWs.pure (a : β) : KeepsWs (pure a : M α β) := ⟨fun _ => rfl⟩
theorem KeepsWs.throw (e : Stop) : KeepsWs (throw e : M α β) := ⟨fun _ => rfl⟩
theorem KeepsWs.fault (f : Fault) : KeepsWs (fault f : M α β) := ⟨fun _ => rfl⟩
theorem KeepsWs.raise (e : Exc) : KeepsWs (raise e : M α β) := ⟨fun _ => rfl⟩
theorem KeepsWs.get : KeepsWs (get : M α (Mem α)) := ⟨fun _ => rfl⟩
theorem KeepsWs.modify (g : Mem α → Mem α) (h : ∀ m, (g m).ws = m.ws) : KeepsWs (modify g : M α Unit) := ⟨fun m => h m⟩

theorem KeepsWs.bind {x : M α β} {f : β → M α γ} (hx : KeepsWs x) (hf : ∀ a, KeepsWs (f a)) : KeepsWs (x >>= f) := by
  constructor
  intro m
  rw [runM_bind]
  have h1 := hx.ws m
  cases h : runM x m with
  | mk r m1 =>
    rw [h] at h1
    cases r with
    | ok a => exact ((hf a).ws m1).trans h1
    | error e => exact h1

theorem KeepsWs.tryCatch {x : M α β} {h : Stop → M α β} (hx : KeepsWs x) (hh : ∀ e, KeepsWs (h e)) : KeepsWs (tryCatch x h) := by
  constructor
  intro m
  rw [runM_tryCatch]
  have h1 := hx.ws m
  cases hr : runM x m with
  | mk r m1 =>
    rw [hr] at h1
    cases r with
    | ok a => exact h1
    | error e => exact ((hh e).ws m1).trans h1

/-- `let m ← get; …` where the continuation is run on the state it was given -/
theorem kw_get_bind {f : Mem α → M α β} (h : ∀ m, (runM (f m) m).2.ws = m.ws) : KeepsWs ((MonadState.get : M α (Mem α)) >>= f) := by
  constructor
  intro m
  rw [runM_bind]
  exact h m

/-- one step of the `KeepsWs` prover; extended by `macro_rules` after each lemma (the latest rule is tried first) -/
syntax "kws_step" : tactic
macro "kws" : tactic => `(tactic| repeat' (first | kws_step | intro _))
macro_rules | `(tactic| kws_step) => `(tactic| dsimp only)
macro_rules | `(tactic| kws_step) => `(tactic| split)
macro_rules | `(tactic| kws_step) => `(tactic| with_reducible apply KeepsWs.bind)
macro_rules | `(tactic| kws_step) => `(tactic| with_reducible apply KeepsWs.tryCatch)
macro_rules | `(tactic| kws_step) => `(tactic| (with_reducible apply KeepsWs.modify; intro _; rfl))
macro_rules | `(tactic| kws_step) => `(tactic| with_reducible exact KeepsWs.get)
macro_rules | `(tactic| kws_step) => `(tactic| with_reducible exact KeepsWs.raise _)
macro_rules | `(tactic| kws_step) => `(tactic| with_reducible exact KeepsWs.fault _)
macro_rules | `(tactic| kws_step) => `(tactic| with_reducible exact KeepsWs.throw _)
macro_rules | `(tactic| kws_step) => `(tactic| with_reducible exact KeepsWs.pure _)
macro_rules | `(tactic| kws_step) => `(tactic| with_reducible assumption)

/-- leaves: direct state manipulation -/
macro "kwleaf" : tactic => `(tactic| (repeat' (first | rfl | split)))

theorem kw_tick (e : Exc) : KeepsWs (tick (α := α) e) := by
  unfold tick; apply kw_get_bind; intro m; kwleaf
macro_rules | `(tactic| kws_step) => `(tactic| with_reducible exact kw_tick _)
theorem kw_isTC : KeepsWs (isTC (α := α)) := by unfold isTC; exact ⟨fun m => rfl⟩
macro_rules | `(tactic| kws_step) => `(tactic| with_reducible exact kw_isTC)
theorem kw_isTR : KeepsWs (isTR (α := α)) := by unfold isTR; exact ⟨fun m => rfl⟩
macro_rules | `(tactic| kws_step) => `(tactic| with_reducible exact kw_isTR)
theorem kw_bumpEv (f : Ev → Ev) : KeepsWs (bumpEv (α := α) f) := by unfold bumpEv; kws
macro_rules | `(tactic| kws_step) => `(tactic| with_reducible exact kw_bumpEv _)
theorem kw_getBuf (r : Region) : KeepsWs (getBuf (α := α) r) := by
  unfold getBuf; kws
macro_rules | `(tactic| kws_step) => `(tactic| with_reducible exact kw_getBuf _)
theorem kw_putBuf (r : Region) (b : List (Slot α)) : KeepsWs (putBuf r b) := by
  unfold putBuf; apply kw_get_bind; intro m; kwleaf
macro_rules | `(tactic| kws_step) => `(tactic| with_reducible exact kw_putBuf _ _)
theorem kw_rd (a : Addr) : KeepsWs (rd (α := α) a) := by unfold rd; kws
macro_rules | `(tactic| kws_step) => `(tactic| with_reducible exact kw_rd _)
theorem kw_wr (a : Addr) (s : Slot α) : KeepsWs (wr a s) := by unfold wr; kws
macro_rules | `(tactic| kws_step) => `(tactic| with_reducible exact kw_wr _ _)
theorem kw_readLive (a : Addr) : KeepsWs (readLive (α := α) a) := by unfold readLive; kws
macro_rules | `(tactic| kws_step) => `(tactic| with_reducible exact kw_readLive _)
theorem kw_requireRaw (a : Addr) : KeepsWs (requireRaw (α := α) a) := by unfold requireRaw; kws
macro_rules | `(tactic| kws_step) => `(tactic| with_reducible exact kw_requireRaw _)
theorem kw_requireAlive (a : Addr) (f : Fault) : KeepsWs (requireAlive (α := α) a f) := by unfold requireAlive; kws
macro_rules | `(tactic| kws_step) => `(tactic| with_reducible exact kw_requireAlive _ _)
theorem kw_movedFrom (v : α) : KeepsWs (movedFrom v) := by unfold movedFrom; kws
macro_rules | `(tactic| kws_step) => `(tactic| with_reducible exact kw_movedFrom _)
theorem kw_constructCopy (a : Addr) (v : α) : KeepsWs (constructCopy a v) := by unfold constructCopy; kws
macro_rules | `(tactic| kws_step) => `(tactic| with_reducible exact kw_constructCopy _ _)
theorem kw_constructValue [Inhabited α] (a : Addr) : KeepsWs (constructValue (α := α) a) := by unfold constructValue; kws
macro_rules | `(tactic| kws_step) => `(tactic| with_reducible exact kw_constructValue _)
theorem kw_constructMove (d s : Addr) : KeepsWs (constructMove (α := α) d s) := by unfold constructMove; kws
macro_rules | `(tactic| kws_step) => `(tactic| with_reducible exact kw_constructMove _ _)
theorem kw_constructFromRvalue (d : Addr) (v : α) : KeepsWs (constructFromRvalue d v) := by unfold constructFromRvalue; kws
macro_rules | `(tactic| kws_step) => `(tactic| with_reducible exact kw_constructFromRvalue _ _)
theorem kw_destroyAt (a : Addr) : KeepsWs (destroyAt (α := α) a) := by unfold destroyAt; kws
macro_rules | `(tactic| kws_step) => `(tactic| with_reducible exact kw_destroyAt _)
theorem kw_assignCopy (a : Addr) (v : α) : KeepsWs (assignCopy a v) := by unfold assignCopy; kws
macro_rules | `(tactic| kws_step) => `(tactic| with_reducible exact kw_assignCopy _ _)
theorem kw_assignMove (d s : Addr) : KeepsWs (assignMove (α := α) d s) := by unfold assignMove; kws
macro_rules | `(tactic| kws_step) => `(tactic| with_reducible exact kw_assignMove _ _)
theorem kw_assignFromRvalue (d : Addr) (v : α) : KeepsWs (assignFromRvalue d v) := by unfold assignFromRvalue; kws
macro_rules | `(tactic| kws_step) => `(tactic| with_reducible exact kw_assignFromRvalue _ _)

theorem kw_readLiveN (a : Addr) (n : Nat) : KeepsWs (readLiveN (α := α) a n) := by
  induction n generalizing a with
  | zero => exact KeepsWs.pure _
  | succ n ih => unfold readLiveN; have := ih (a.add 1); kws
macro_rules | `(tactic| kws_step) => `(tactic| with_reducible exact kw_readLiveN _ _)
theorem kw_setRawN (a : Addr) (n : Nat) : KeepsWs (setRawN (α := α) a n) := by
  induction n generalizing a with
  | zero => exact KeepsWs.pure _
  | succ n ih => unfold setRawN; have := ih (a.add 1); kws
macro_rules | `(tactic| kws_step) => `(tactic| with_reducible exact kw_setRawN _ _)
theorem kw_writeLiveRaw (a : Addr) (vs : List α) : KeepsWs (writeLiveRaw a vs) := by
  induction vs generalizing a with
  | nil => exact KeepsWs.pure _
  | cons v vs ih => unfold writeLiveRaw; have := ih (a.add 1); kws
macro_rules | `(tactic| kws_step) => `(tactic| with_reducible exact kw_writeLiveRaw _ _)
theorem kw_relocBitwise (s : Addr) (n : Nat) (d : Addr) : KeepsWs (relocBitwise (α := α) s n d) := by unfold relocBitwise; kws
macro_rules | `(tactic| kws_step) => `(tactic| with_reducible exact kw_relocBitwise _ _ _)
theorem kw_destroyN (a : Addr) (n : Nat) : KeepsWs (destroyN (α := α) a n) := by
  induction n generalizing a with
  | zero => exact KeepsWs.pure _
  | succ n ih => unfold destroyN; have := ih (a.add 1); kws
macro_rules | `(tactic| kws_step) => `(tactic| with_reducible exact kw_destroyN _ _)
theorem kw_uninitFillN_go (a : Addr) (v : α) (k : Nat) (p : Addr) (done : Nat) : KeepsWs (uninitFillN.go a v p k done) := by
  induction k generalizing p done with
  | zero => exact KeepsWs.pure _
  | succ k ih => unfold uninitFillN.go; have := ih (p.add 1) (done + 1); kws
theorem kw_uninitFillN (a : Addr) (n : Nat) (v : α) : KeepsWs (uninitFillN a n v) := kw_uninitFillN_go a v n a 0
macro_rules | `(tactic| kws_step) => `(tactic| with_reducible exact kw_uninitFillN _ _ _)
theorem kw_uninitCopyN_go (a : Addr) (vs : List α) (p : Addr) (done : Nat) : KeepsWs (uninitCopyN.go a p vs done) := by
  induction vs generalizing p done with
  | nil => exact KeepsWs.pure _
  | cons v vs ih => unfold uninitCopyN.go; have := ih (p.add 1) (done + 1); kws
theorem kw_uninitCopyN (a : Addr) (vs : List α) : KeepsWs (uninitCopyN a vs) := kw_uninitCopyN_go a vs a 0
macro_rules | `(tactic| kws_step) => `(tactic| with_reducible exact kw_uninitCopyN _ _)
theorem kw_uninitValueN_go [Inhabited α] (a : Addr) (k : Nat) (p : Addr) (done : Nat) : KeepsWs (uninitValueN.go (α := α) a p k done) := by
  induction k generalizing p done with
  | zero => exact KeepsWs.pure _
  | succ k ih => unfold uninitValueN.go; have := ih (p.add 1) (done + 1); kws
theorem kw_uninitValueN [Inhabited α] (a : Addr) (n : Nat) : KeepsWs (uninitValueN (α := α) a n) := kw_uninitValueN_go a n a 0
macro_rules | `(tactic| kws_step) => `(tactic| with_reducible exact kw_uninitValueN _ _)
theorem kw_fillN (a : Addr) (n : Nat) (v : α) : KeepsWs (fillN a n v) := by
  induction n generalizing a with
  | zero => exact KeepsWs.pure _
  | succ n ih => unfold fillN; have := ih (a.add 1); kws
macro_rules | `(tactic| kws_step) => `(tactic| with_reducible exact kw_fillN _ _ _)
theorem kw_copyN (a : Addr) (vs : List α) : KeepsWs (copyN a vs) := by
  induction vs generalizing a with
  | nil => exact KeepsWs.pure _
  | cons v vs ih => unfold copyN; have := ih (a.add 1); kws
macro_rules | `(tactic| kws_step) => `(tactic| with_reducible exact kw_copyN _ _)
theorem kw_uninitMoveN (s : Addr) (n : Nat) (d : Addr) : KeepsWs (uninitMoveN (α := α) s n d) := by
  induction n generalizing s d with
  | zero => exact KeepsWs.pure _
  | succ n ih => unfold uninitMoveN; have := ih (s.add 1) (d.add 1); kws
macro_rules | `(tactic| kws_step) => `(tactic| with_reducible exact kw_uninitMoveN _ _ _)
theorem kw_moveFwd (s : Addr) (n : Nat) (d : Addr) : KeepsWs (moveFwd (α := α) s n d) := by
  induction n generalizing s d with
  | zero => exact KeepsWs.pure _
  | succ n ih => unfold moveFwd; have := ih (s.add 1) (d.add 1); kws
macro_rules | `(tactic| kws_step) => `(tactic| with_reducible exact kw_moveFwd _ _ _)
theorem kw_moveBwd (s : Addr) (n : Nat) (d : Addr) : KeepsWs (moveBwd (α := α) s n d) := by
  induction n generalizing s d with
  | zero => exact KeepsWs.pure _
  | succ n ih => unfold moveBwd; have := ih s d; kws
macro_rules | `(tactic| kws_step) => `(tactic| with_reducible exact kw_moveBwd _ _ _)

theorem kw_uninitRelocN (s : Addr) (n : Nat) (d : Addr) : KeepsWs (uninitRelocN (α := α) s n d) := by
  unfold uninitRelocN; kws
macro_rules | `(tactic| kws_step) => `(tactic| with_reducible exact kw_uninitRelocN _ _ _)

theorem kw_relocateAt (s d : Addr) : KeepsWs (relocateAt (α := α) s d) := by
  unfold relocateAt; kws
macro_rules | `(tactic| kws_step) => `(tactic| with_reducible exact kw_relocateAt _ _)

theorem kw_swapElem (a b : Addr) : KeepsWs (swapElem (α := α) a b) := by
  unfold swapElem; kws
macro_rules | `(tactic| kws_step) => `(tactic| with_reducible exact kw_swapElem _ _)

theorem kw_swapRanges (a : Addr) (n : Nat) (b : Addr) : KeepsWs (swapRanges (α := α) a n b) := by
  induction n generalizing a b with
  | zero => exact KeepsWs.pure _
  | succ n ih => unfold swapRanges; have := ih (a.add 1) (b.add 1); kws
macro_rules | `(tactic| kws_step) => `(tactic| with_reducible exact kw_swapRanges _ _ _)

theorem kw_allocBlock (n id : Nat) : KeepsWs (allocBlock (α := α) n id) := by
  unfold allocBlock; kws
macro_rules | `(tactic| kws_step) => `(tactic| with_reducible exact kw_allocBlock _ _)

theorem kw_findBlock (id : Nat) : KeepsWs (findBlock (α := α) id) := by
  unfold findBlock; exact ⟨fun m => rfl⟩
macro_rules | `(tactic| kws_step) => `(tactic| with_reducible exact kw_findBlock _)

theorem kw_deallocBlock (p : PtrV) (n : Nat) : KeepsWs (deallocBlock (α := α) p n) := by
  unfold deallocBlock; kws
macro_rules | `(tactic| kws_step) => `(tactic| with_reducible exact kw_deallocBlock _ _)

theorem kw_deref (r : Ref α) : KeepsWs (deref r) := by
  unfold deref; kws
macro_rules | `(tactic| kws_step) => `(tactic| with_reducible exact kw_deref _)

theorem kw_constructCopyRef (a : Addr) (r : Ref α) : KeepsWs (constructCopyRef a r) := by
  unfold constructCopyRef; kws
macro_rules | `(tactic| kws_step) => `(tactic| with_reducible exact kw_constructCopyRef _ _)

theorem kw_assignCopyRef (a : Addr) (r : Ref α) : KeepsWs (assignCopyRef a r) := by
  unfold assignCopyRef; kws
macro_rules | `(tactic| kws_step) => `(tactic| with_reducible exact kw_assignCopyRef _ _)

theorem kw_uninitFillRef_go (a : Addr) (r : Ref α) (k : Nat) (p : Addr) (done : Nat) : KeepsWs (uninitFillRef.go a r p k done) := by
  induction k generalizing p done with
  | zero => exact KeepsWs.pure _
  | succ k ih => unfold uninitFillRef.go; have := ih (p.add 1) (done + 1); kws
theorem kw_uninitFillRef (a : Addr) (n : Nat) (r : Ref α) : KeepsWs (uninitFillRef a n r) := kw_uninitFillRef_go a r n a 0
macro_rules | `(tactic| kws_step) => `(tactic| with_reducible exact kw_uninitFillRef _ _ _)
theorem kw_fillRef (a : Addr) (n : Nat) (r : Ref α) : KeepsWs (fillRef a n r) := by
  induction n generalizing a with
  | zero => exact KeepsWs.pure _
  | succ n ih => unfold fillRef; have := ih (a.add 1); kws
macro_rules | `(tactic| kws_step) => `(tactic| with_reducible exact kw_fillRef _ _ _)

theorem kw_shiftRight1 (f : Addr) (n : Nat) : KeepsWs (shiftRight1 (α := α) f n) := by
  unfold shiftRight1; kws
macro_rules | `(tactic| kws_step) => `(tactic| with_reducible exact kw_shiftRight1 _ _)

theorem kw_shiftRightN (f : Addr) (n k : Nat) : KeepsWs (shiftRightN (α := α) f n k) := by
  unfold shiftRightN; kws
macro_rules | `(tactic| kws_step) => `(tactic| with_reducible exact kw_shiftRightN _ _ _)

theorem kw_fillAfterShift (f : Addr) (n k : Nat) (v : Ref α) : KeepsWs (fillAfterShift f n k v) := by
  unfold fillAfterShift; kws
macro_rules | `(tactic| kws_step) => `(tactic| with_reducible exact kw_fillAfterShift _ _ _ _)

theorem kw_assignN (vals : List α) (d : Addr) (n : Nat) : KeepsWs (assignN vals d n) := by
  unfold assignN; kws
macro_rules | `(tactic| kws_step) => `(tactic| with_reducible exact kw_assignN _ _ _)

theorem kw_copyAfterShift (vals : List α) (n : Nat) (p : Addr) : KeepsWs (copyAfterShift vals n p) := by
  unfold copyAfterShift; kws
macro_rules | `(tactic| kws_step) => `(tactic| with_reducible exact kw_copyAfterShift _ _ _)

theorem kw_destroyAfterShift (p : Addr) : KeepsWs (destroyAfterShift (α := α) p) := by
  unfold destroyAfterShift; kws
macro_rules | `(tactic| kws_step) => `(tactic| with_reducible exact kw_destroyAfterShift _)

theorem kw_shiftLeft (f : Addr) (n : Nat) : KeepsWs (shiftLeft (α := α) f n) := by
  unfold shiftLeft; kws
macro_rules | `(tactic| kws_step) => `(tactic| with_reducible exact kw_shiftLeft _ _)

theorem kw_uninitShiftLeft (f : Addr) (n : Nat) : KeepsWs (uninitShiftLeft (α := α) f n) := by
  unfold uninitShiftLeft; kws
macro_rules | `(tactic| kws_step) => `(tactic| with_reducible exact kw_uninitShiftLeft _ _)

theorem kw_eraseN (f : Addr) (n k : Nat) : KeepsWs (eraseN (α := α) f n k) := by
  unfold eraseN; kws
macro_rules | `(tactic| kws_step) => `(tactic| with_reducible exact kw_eraseN _ _ _)

theorem kw_eraseAt (f : Addr) (k : Nat) : KeepsWs (eraseAt (α := α) f k) := by
  unfold eraseAt; kws
macro_rules | `(tactic| kws_step) => `(tactic| with_reducible exact kw_eraseAt _ _)

theorem kw_fillHelper (f : Addr) (n k : Nat) (v : Ref α) : KeepsWs (fillHelper f n k v) := by
  unfold fillHelper; kws
macro_rules | `(tactic| kws_step) => `(tactic| with_reducible exact kw_fillHelper _ _ _ _)

theorem kw_swapDeep (f1 : Addr) (c1 : Nat) (f2 : Addr) (c2 : Nat) : KeepsWs (swapDeep (α := α) f1 c1 f2 c2) := by
  unfold swapDeep; kws
macro_rules | `(tactic| kws_step) => `(tactic| with_reducible exact kw_swapDeep _ _ _ _)

theorem kw_moveN (f : Addr) (n : Nat) (d : Addr) (dn : Nat) : KeepsWs (moveN (α := α) f n d dn) := by
  unfold moveN; kws
macro_rules | `(tactic| kws_step) => `(tactic| with_reducible exact kw_moveN _ _ _ _)

theorem kw_constructArg (a : Addr) (v : Arg α) : KeepsWs (constructArg a v) := by
  unfold constructArg; kws
macro_rules | `(tactic| kws_step) => `(tactic| with_reducible exact kw_constructArg _ _)

theorem kw_assignAfterShift (p : Addr) (v : Arg α) : KeepsWs (assignAfterShift p v) := by
  unfold assignAfterShift; kws
macro_rules | `(tactic| kws_step) => `(tactic| with_reducible exact kw_assignAfterShift _ _)

theorem kw_relocateAfterShift (e d : Addr) : KeepsWs (relocateAfterShift (α := α) e d) := by
  unfold relocateAfterShift; kws
macro_rules | `(tactic| kws_step) => `(tactic| with_reducible exact kw_relocateAfterShift _ _)

theorem kw_insertN (p : Addr) (n : Nat) (v : Arg α) : KeepsWs (insertN p n v) := by
  unfold insertN; kws
macro_rules | `(tactic| kws_step) => `(tactic| with_reducible exact kw_insertN _ _ _)

theorem kw_reallocBlock (p : PtrV) (o n l : Nat) (r : PtrV) : KeepsWs (reallocBlock (α := α) p o n l r) := by
  unfold reallocBlock; kws
macro_rules | `(tactic| kws_step) => `(tactic| with_reducible exact kw_reallocBlock _ _ _ _ _)

theorem kw_interp (c0 c1 : Nat) (e : Eff) : KeepsWs (interp (α := α) c0 c1 e) := by
  unfold interp; kws
macro_rules | `(tactic| kws_step) => `(tactic| with_reducible exact kw_interp _ _ _)

theorem kw_interpAll (c0 c1 : Nat) (es : List Eff) : KeepsWs (interpAll (α := α) c0 c1 es) := by
  induction es with
  | nil => exact KeepsWs.pure _
  | cons e es ih => unfold interpAll; kws
macro_rules | `(tactic| kws_step) => `(tactic| with_reducible exact kw_interpAll _ _ _)

theorem kw_emplaceN (p : Addr) (n : Nat) (v : Arg α) : KeepsWs (emplaceN p n v) := by
  unfold emplaceN; kws
macro_rules | `(tactic| kws_step) => `(tactic| with_reducible exact kw_emplaceN _ _ _)

theorem kw_moveOut (p : Addr) : KeepsWs (Gen.Glue.moveOut (α := α) p) := by
  unfold Gen.Glue.moveOut; kws
macro_rules | `(tactic| kws_step) => `(tactic| with_reducible exact kw_moveOut _)


/- ------------------------------------------------------------------------------------------------------------------
   running programs: projection form of bind, the reads of the words of container `c`
   ------------------------------------------------------------------------------------------------------------------ -/

theorem M_ext {x y : M α β} (h : ∀ m, runM x m = runM y m) : x = y := by
  have : x.run.run = y.run.run := funext h
  exact this

theorem runM_bind2 (x : M α β) (f : β → M α γ) (m : Mem α) :
    runM (x >>= f) m = match (runM x m).1 with
      | .ok a => runM (f a) (runM x m).2
      | .error e => (.error e, (runM x m).2) := by
  rw [runM_bind]
  cases h : runM x m with
  | mk r m1 => cases r <;> rfl

theorem runM_ite {c : Prop} [Decidable c] (a b : M α β) (m : Mem α) :
    runM (if c then a else b) m = if c then runM a m else runM b m := by split <;> rfl

theorem ws_after {x : M α β} (h : KeepsWs x) (m : Mem α) : (runM x m).2.ws = m.ws := h.ws m

theorem runM_getW (c : Nat) (m : Mem α) :
    runM (getW c) m = match m.ws[c]? with
      | some w => (.ok w, m)
      | none => (.error (.fault .oob), m) := by
  unfold getW
  rw [runM_bind]
  show runM (match m.ws[c]? with | some w => pure w | none => fault Fault.oob) m = _
  cases h : m.ws[c]? <;> rfl


theorem ite_bind' {c : Prop} [Decidable c] (a b : M α β) (f : β → M α γ) :
    (if c then a else b) >>= f = if c then a >>= f else b >>= f := by split <;> rfl

/-- unfold the reads / writes of the words of container `c` down to `getW` / `setW` -/
macro "glue_unfold" : tactic => `(tactic| simp only [posAddr, vsize, vcap, vbegin, vend, Gen.Glue.vdyn, incrSize, decrSize, setSize, bind_assoc, pure_bind, ite_bind'])

macro "glue_run" "[" ts:Lean.Parser.Tactic.simpLemma,* "]" : tactic =>
  `(tactic| simp (disch := kws) only [runM_bind2, runM_pure, runM_getW, runM_ite, ws_after, $ts,*])


theorem run_getW_bind (c : Nat) (f : VB → M α β) (m : Mem α) :
    runM (getW c >>= f) m = match m.ws[c]? with
      | some w => runM (f w) m
      | none => (.error (.fault .oob), m) := by
  rw [runM_bind, runM_getW]
  cases h : m.ws[c]? <;> rfl

/-- step over a common first action: the continuations are compared on the states it can produce -/
theorem bind_congr_run (x : M α β) (f g : β → M α γ) (m : Mem α)
    (h : ∀ a m', runM x m = (.ok a, m') → runM (f a) m' = runM (g a) m') : runM (x >>= f) m = runM (x >>= g) m := by
  rw [runM_bind, runM_bind]
  cases hx : runM x m with
  | mk r m1 =>
    cases r with
    | ok a => exact h a m1 hx
    | error e => rfl

theorem ws_of_run {x : M α β} (hk : KeepsWs x) {m m' : Mem α} {r : Except Stop β} (hx : runM x m = (r, m')) : m'.ws = m.ws := by
  have := hk.ws m; rw [hx] at this; exact this

/- ------------------------------------------------------------------------------------------------------------------
   the equalities
   ------------------------------------------------------------------------------------------------------------------ -/

theorem pushBackCopy_eq : @Gen.Glue.pushBackCopy α = pushBackCopy := rfl
theorem pushBackMove_eq : @Gen.Glue.pushBackMove α = pushBackMove := rfl
theorem popBack_eq : @Gen.Glue.popBack α = popBack := rfl
theorem clear_eq : @Gen.Glue.clear α = clear := rfl
theorem insertMove_eq : @Gen.Glue.insertMove α = fun cfg c p v => insertOne cfg c p (.move v) := rfl

theorem eraseOne_eq : @Gen.Glue.eraseOne α = eraseOne := by
  funext cfg c p; apply M_ext; intro m
  unfold Gen.Glue.eraseOne eraseOne
  glue_unfold
  cases h : m.ws[c]? <;> glue_run [h]

theorem popBackVal_eq : @Gen.Glue.popBackVal α = popBackVal := by
  funext cfg c
  unfold Gen.Glue.popBackVal popBackVal Gen.Glue.popBack popBack Gen.Glue.moveOut Gen.Glue.subA
  glue_unfold

theorem insertCopy_eq : @Gen.Glue.insertCopy α = fun cfg c p v => insertOne cfg c p (.copy v) := by
  funext cfg c p v; apply M_ext; intro m
  unfold Gen.Glue.insertCopy insertOne
  glue_unfold
  cases h : m.ws[c]? with
  | none => simp only [run_getW_bind, h]
  | some w =>
    simp only [run_getW_bind, h]
    apply bind_congr_run; intro newV m' _
    cases h' : m'.ws[c]? <;> glue_run [h']


/-- `erase(first, last)`: the hand-written model reads `size()` before the test `n != 0`, the source only inside the branch:
    the two agree on every memory in which pool slot `c` exists -/
theorem eraseRange_eq (cfg : Cfg) (c p q : Nat) (m : Mem α) (hc : c < m.ws.length) :
    runM (Gen.Glue.eraseRange cfg c p q) m = runM (eraseRange cfg c p q) m := by
  unfold Gen.Glue.eraseRange eraseRange
  glue_unfold
  have h : m.ws[c]? = some m.ws[c] := List.getElem?_eq_getElem hc
  glue_run [h]

/- the reads keep the words -/
theorem kw_getW (c : Nat) : KeepsWs (getW (α := α) c) := by unfold getW; kws
macro_rules | `(tactic| kws_step) => `(tactic| with_reducible exact kw_getW _)
theorem kw_vsize (cfg : Cfg) (c : Nat) : KeepsWs (vsize (α := α) cfg c) := by unfold vsize; kws
macro_rules | `(tactic| kws_step) => `(tactic| with_reducible exact kw_vsize _ _)
theorem kw_vcap (cfg : Cfg) (c : Nat) : KeepsWs (vcap (α := α) cfg c) := by unfold vcap; kws
macro_rules | `(tactic| kws_step) => `(tactic| with_reducible exact kw_vcap _ _)
theorem kw_vbegin (cfg : Cfg) (c : Nat) : KeepsWs (vbegin (α := α) cfg c) := by unfold vbegin; kws
macro_rules | `(tactic| kws_step) => `(tactic| with_reducible exact kw_vbegin _ _)

theorem run_bind_ok {x : M α β} {f : β → M α γ} {m m' : Mem α} {a : γ} (h : runM (x >>= f) m = (.ok a, m')) :
    ∃ b m1, runM x m = (.ok b, m1) ∧ runM (f b) m1 = (.ok a, m') := by
  rw [runM_bind] at h
  cases hx : runM x m with
  | mk r m1 =>
    rw [hx] at h
    cases r with
    | ok b => exact ⟨b, m1, rfl, h⟩
    | error e => cases h

/-- a successful `grow` keeps the size of the container (a law of the generated base-class members, on well-formed words) -/
def GrowStable (cfg : Cfg) (c : Nat) (m : Mem α) : Prop :=
  cfg.dynamic = true → ∀ w, m.ws[c]? = some w → ∀ needed a m', cfg.ops.capacity w < needed →
    runM (grow cfg c needed false) m = (.ok a, m') → ∃ w', m'.ws[c]? = some w' ∧ cfg.ops.size w' = cfg.ops.size w

theorem adjustCapacity_stable {cfg : Cfg} {c : Nat} {m m' : Mem α} (hS : GrowStable cfg c m) {w : VB} (h : m.ws[c]? = some w)
    {needed : Nat} {a : Unit} (hx : runM (adjustCapacity cfg c needed) m = (.ok a, m')) :
    ∃ w', m'.ws[c]? = some w' ∧ cfg.ops.size w' = cfg.ops.size w := by
  unfold adjustCapacity at hx
  by_cases hd : cfg.dynamic = true
  · rw [if_pos hd] at hx
    unfold vcap at hx
    simp only [bind_assoc, pure_bind, run_getW_bind, h] at hx
    by_cases hlt : cfg.ops.capacity w < needed
    · rw [if_pos hlt] at hx
      exact hS hd w h needed a m' hlt hx
    · rw [if_neg hlt] at hx
      have := ws_of_run (KeepsWs.pure _) hx
      exact ⟨w, by rw [this]; exact h, rfl⟩
  · rw [if_neg hd] at hx
    have := ws_of_run (by kws) hx
    exact ⟨w, by rw [this]; exact h, rfl⟩

theorem adjustCapacityRef_stable {cfg : Cfg} {c : Nat} {m m' : Mem α} (hS : GrowStable cfg c m) {w : VB} (h : m.ws[c]? = some w)
    {needed : Nat} {v a : Ref α} (hx : runM (adjustCapacityRef cfg c needed v) m = (.ok a, m')) :
    ∃ w', m'.ws[c]? = some w' ∧ cfg.ops.size w' = cfg.ops.size w := by
  unfold adjustCapacityRef at hx
  by_cases hd : cfg.dynamic = true
  · rw [if_pos hd] at hx
    unfold vcap at hx
    simp only [bind_assoc, pure_bind, run_getW_bind, h] at hx
    by_cases hlt : cfg.ops.capacity w < needed
    · rw [if_pos hlt] at hx
      unfold vbegin vsize at hx
      simp only [bind_assoc, pure_bind, run_getW_bind, h] at hx
      obtain ⟨b, m1, hg, hr⟩ := run_bind_ok hx
      obtain ⟨w', hw', hsz⟩ := hS hd w h needed b m1 hlt hg
      have := ws_of_run (by kws) hr
      exact ⟨w', by rw [this]; exact hw', hsz⟩
    · rw [if_neg hlt] at hx
      have := ws_of_run (KeepsWs.pure _) hx
      exact ⟨w, by rw [this]; exact h, rfl⟩
  · rw [if_neg hd] at hx
    have hk : KeepsWs (adjustCapacity (α := α) cfg c needed >>= fun _ => (Pure.pure v : M α (Ref α))) := by
      unfold adjustCapacity; rw [if_neg hd]; kws
    have := ws_of_run hk hx
    exact ⟨w, by rw [this]; exact h, rfl⟩

theorem resize_eq [Inhabited α] (cfg : Cfg) (c count : Nat) (m : Mem α) (hS : GrowStable cfg c m) :
    runM (Gen.Glue.resize cfg c count) m = runM (resize cfg c count) m := by
  unfold Gen.Glue.resize resize
  glue_unfold
  cases h : m.ws[c]? with
  | none => simp only [run_getW_bind, h]
  | some w =>
    simp only [run_getW_bind, h, runM_ite]
    split
    · apply bind_congr_run; intro _ m' hx
      obtain ⟨w', h', hsz⟩ := adjustCapacity_stable hS h hx
      glue_run [h', hsz]
    · glue_run [h]

theorem resizeFill_eq (cfg : Cfg) (c count : Nat) (v : Ref α) (m : Mem α) (hS : GrowStable cfg c m) :
    runM (Gen.Glue.resizeFill cfg c count v) m = runM (resizeFill cfg c count v) m := by
  unfold Gen.Glue.resizeFill resizeFill
  glue_unfold
  cases h : m.ws[c]? with
  | none => simp only [run_getW_bind, h]
  | some w =>
    simp only [run_getW_bind, h, runM_ite]
    split
    · apply bind_congr_run; intro _ m' hx
      obtain ⟨w', h', hsz⟩ := adjustCapacityRef_stable hS h hx
      glue_run [h', hsz]
    · glue_run [h]

theorem insertCount_eq (cfg : Cfg) (c p count : Nat) (v : Ref α) (m : Mem α) (hS : GrowStable cfg c m) :
    runM (Gen.Glue.insertCount cfg c p count v) m = runM (insertCount cfg c p count v) m := by
  unfold Gen.Glue.insertCount insertCount
  glue_unfold
  simp only [runM_ite]
  split
  · cases h : m.ws[c]? with
    | none => simp only [run_getW_bind, h]
    | some w =>
      simp only [run_getW_bind, h]
      apply bind_congr_run; intro _ m' hx
      obtain ⟨w', h', hsz⟩ := adjustCapacityRef_stable hS h hx
      glue_run [h', hsz]
  · rfl

theorem insertRange_eq (cfg : Cfg) (c p : Nat) (vals : List α) (m : Mem α) (hS : GrowStable cfg c m) :
    runM (Gen.Glue.insertRange cfg c p vals) m = runM (insertRange cfg c p vals) m := by
  unfold Gen.Glue.insertRange insertRange
  glue_unfold
  simp only [runM_ite]
  split
  · cases h : m.ws[c]? with
    | none => simp only [run_getW_bind, h]
    | some w =>
      simp only [run_getW_bind, h]
      apply bind_congr_run; intro _ m' hx
      obtain ⟨w', h', hsz⟩ := adjustCapacity_stable hS h hx
      glue_run [h', hsz]
  · rfl

theorem assignFill_eq (cfg : Cfg) (c count : Nat) (v : Ref α) (m : Mem α) (hS : GrowStable cfg c m) :
    runM (Gen.Glue.assignFill cfg c count v) m = runM (assignFill cfg c count v) m := by
  unfold Gen.Glue.assignFill assignFill
  glue_unfold
  cases h : m.ws[c]? with
  | none => simp only [run_getW_bind, h]
  | some w =>
    simp only [run_getW_bind, h, runM_ite]
    split
    · apply bind_congr_run; intro _ m' hx
      obtain ⟨w', h', hsz⟩ := adjustCapacityRef_stable hS h hx
      glue_run [h', hsz]
    · glue_run [h]

theorem assignRange_eq (cfg : Cfg) (c : Nat) (vals : List α) (m : Mem α) (hS : GrowStable cfg c m) :
    runM (Gen.Glue.assignRange cfg c vals) m = runM (assignRange cfg c vals) m := by
  unfold Gen.Glue.assignRange assignRange
  glue_unfold
  cases h : m.ws[c]? with
  | none => simp only [run_getW_bind, h]
  | some w =>
    simp only [run_getW_bind, h, runM_ite]
    split
    · apply bind_congr_run; intro _ m' hx
      obtain ⟨w', h', hsz⟩ := adjustCapacity_stable hS h hx
      glue_run [h', hsz]
    · glue_run [h]

theorem appendN_eq [Inhabited α] (cfg : Cfg) (c count : Nat) (m : Mem α) (hS : GrowStable cfg c m) :
    runM (Gen.Glue.appendN cfg c count) m = runM (appendN cfg c count) m := by
  unfold Gen.Glue.appendN appendN
  glue_unfold
  cases h : m.ws[c]? with
  | none => simp only [run_getW_bind, h]
  | some w =>
    simp only [run_getW_bind, h]
    apply bind_congr_run; intro _ m' hx
    obtain ⟨w', h', hsz⟩ := adjustCapacity_stable hS h hx
    glue_run [h', hsz]

theorem appendFill_eq (cfg : Cfg) (c count : Nat) (v : Ref α) (m : Mem α) (hS : GrowStable cfg c m) :
    runM (Gen.Glue.appendFill cfg c count v) m = runM (appendFill cfg c count v) m := by
  unfold Gen.Glue.appendFill appendFill
  glue_unfold
  cases h : m.ws[c]? with
  | none => simp only [run_getW_bind, h]
  | some w =>
    simp only [run_getW_bind, h]
    apply bind_congr_run; intro _ m' hx
    obtain ⟨w', h', hsz⟩ := adjustCapacityRef_stable hS h hx
    glue_run [h', hsz]

theorem appendRange_eq (cfg : Cfg) (c : Nat) (vals : List α) (m : Mem α) (hS : GrowStable cfg c m) :
    runM (Gen.Glue.appendRange cfg c vals) m = runM (appendRange cfg c vals) m := by
  unfold Gen.Glue.appendRange appendRange
  glue_unfold
  cases h : m.ws[c]? with
  | none => simp only [run_getW_bind, h]
  | some w =>
    simp only [run_getW_bind, h]
    apply bind_congr_run; intro _ m' hx
    obtain ⟨w', h', hsz⟩ := adjustCapacity_stable hS h hx
    glue_run [h', hsz]

theorem insertIter_eq (cfg : Cfg) (c p : Nat) (vals : List α) (m : Mem α) (hS : GrowStable cfg c m) :
    runM (Gen.Glue.insertIter cfg c p vals) m = runM (insertRange cfg c p vals) m := insertRange_eq cfg c p vals m hS
theorem assignIter_eq (cfg : Cfg) (c : Nat) (vals : List α) (m : Mem α) (hS : GrowStable cfg c m) :
    runM (Gen.Glue.assignIter cfg c vals) m = runM (assignRange cfg c vals) m := assignRange_eq cfg c vals m hS
theorem appendIter_eq (cfg : Cfg) (c : Nat) (vals : List α) (m : Mem α) (hS : GrowStable cfg c m) :
    runM (Gen.Glue.appendIter cfg c vals) m = runM (appendRange cfg c vals) m := appendRange_eq cfg c vals m hS

/- ------------------------------------------------------------------------------------------------------------------
   the members of the flavour classes: `DynamicVector` ↔ the `cfg.dynamic` branches, `StaticVector` ↔ the else branches
   ------------------------------------------------------------------------------------------------------------------ -/

theorem adjustCapacity_eq (cfg : Cfg) (c n : Nat) : adjustCapacity (α := α) cfg c n =
    if cfg.dynamic then Gen.Glue.dynAdjustCapacity cfg c n else Gen.Glue.staticAdjustCapacity cfg c n := by
  unfold adjustCapacity Gen.Glue.dynAdjustCapacity Gen.Glue.staticAdjustCapacity Gen.Glue.policyCheck
  split
  · rfl
  · split
    · rfl
    · rfl

theorem reserve_eq (cfg : Cfg) (c n : Nat) : reserve (α := α) cfg c n =
    if cfg.dynamic then Gen.Glue.dynReserve cfg c n else Gen.Glue.staticReserve cfg c n := by
  unfold reserve
  split
  · rfl
  · rename_i hd
    rw [adjustCapacity_eq, if_neg hd]; rfl

theorem adjustCapacityRef_eq (cfg : Cfg) (c n : Nat) (v : Ref α) : adjustCapacityRef cfg c n v =
    if cfg.dynamic then Gen.Glue.dynAdjustCapacityRef cfg c n v else Gen.Glue.staticAdjustCapacityRef cfg c n v := by
  unfold adjustCapacityRef
  split
  · apply M_ext; intro m
    unfold Gen.Glue.dynAdjustCapacityRef
    glue_unfold
    cases h : m.ws[c]? with
    | none => simp only [run_getW_bind, h]
    | some w =>
      simp only [run_getW_bind, h, runM_ite]
      split
      · apply bind_congr_run; intro _ m' _
        cases v with
        | lit x => simp [Gen.Glue.refGe]
        | «at» a =>
          generalize resolve c c (cfg.ops.begin w) = b
          by_cases h1 : (a.r == b.r) = true <;> by_cases h2 : b.i ≤ a.i <;> by_cases h3 : a.i < b.i + cfg.ops.size w <;>
            simp [Gen.Glue.refGe, Gen.Glue.refLt, Gen.Glue.refDiff, Addr.add, h1, h2, h3]
      · rfl
  · rename_i hd
    unfold Gen.Glue.staticAdjustCapacityRef
    rw [adjustCapacity_eq, if_neg hd]

theorem kw_policyCheck (cfg : Cfg) (n k : Nat) : KeepsWs (Gen.Glue.policyCheck (α := α) cfg n k) := by
  unfold Gen.Glue.policyCheck; kws
macro_rules | `(tactic| kws_step) => `(tactic| with_reducible exact kw_policyCheck _ _ _)

theorem emplaceBack_static (cfg : Cfg) (c : Nat) (arg : Arg α) (hd : ¬ cfg.dynamic = true) :
    emplaceBack cfg c arg = Gen.Glue.staticEmplaceBack cfg c arg := by
  apply M_ext; intro m
  unfold emplaceBack staticCheck Gen.Glue.staticEmplaceBack
  simp only [if_neg hd, adjustCapacity_eq]
  unfold Gen.Glue.staticAdjustCapacity
  glue_unfold

theorem emplace_static (cfg : Cfg) (c p : Nat) (arg : Arg α) (hd : ¬ cfg.dynamic = true) :
    emplace cfg c p arg = Gen.Glue.staticEmplace cfg c p arg := by
  apply M_ext; intro m
  unfold emplace staticCheck Gen.Glue.staticEmplace
  simp only [if_neg hd, adjustCapacity_eq]
  unfold Gen.Glue.staticAdjustCapacity
  glue_unfold
  cases h : m.ws[c]? <;> glue_run [h]

theorem run_tryCatch_getW (c : Nat) (f : VB → M α β) (h : Stop → M α β) (m : Mem α) (w : VB) (hw : m.ws[c]? = some w) :
    runM (tryCatch (getW c >>= f) h) m = runM (tryCatch (f w) h) m := by
  rw [runM_tryCatch, runM_tryCatch, run_getW_bind, hw]

/-- `growOrDestroy(newElem)` reads `size()` itself; the hand-written one is given `size() + 1` by its callers -/
theorem growOrDestroy_eq (cfg : Cfg) (c : Nat) :
    Gen.Glue.growOrDestroy (α := α) cfg c tmpAddr = (do growOrDestroy cfg c ((← vsize cfg c) + 1)) := by
  apply M_ext; intro m
  unfold Gen.Glue.growOrDestroy growOrDestroy
  glue_unfold
  cases h : m.ws[c]? with
  | none =>
    rw [runM_tryCatch, run_getW_bind, run_getW_bind, h]
    rfl
  | some w =>
    rw [run_tryCatch_getW c _ _ m w h, run_getW_bind, h]
    rfl

theorem run_tryCatch_ok {x : M α β} {h : Stop → M α β} {m m' : Mem α} {a : β}
    (hh : ∀ s m1 b, (runM (h s) m1).1 ≠ .ok b) (hx : runM (tryCatch x h) m = (.ok a, m')) : runM x m = (.ok a, m') := by
  rw [runM_tryCatch] at hx
  cases hr : runM x m with
  | mk r m1 =>
    rw [hr] at hx
    cases r with
    | ok b => exact hx
    | error e =>
      have := hh e m1 a
      simp only at hx
      rw [hx] at this
      exact absurd rfl this

theorem run_bind_throw_ne_ok (x : M α β) (s : Stop) (m : Mem α) (b : γ) :
    (runM (x >>= fun _ => (throw s : M α γ)) m).1 ≠ .ok b := by
  rw [runM_bind]
  cases runM x m with
  | mk r m1 => cases r <;> (intro h; cases h)

/-- the handler of `growOrDestroy` always rethrows -/
theorem growOrDestroy_handler (s : Stop) (m1 : Mem α) (b : Unit) :
    (runM (do
      match s with
      | .exc _ => destroyAt (α := α) ⟨.tmp, 0⟩
      | .fault _ => pure ()
      (throw s : M α Unit)) m1).1 ≠ .ok b := by
  cases s with
  | exc e => exact run_bind_throw_ne_ok _ _ _ _
  | fault f => intro h; cases h

/-- after a successful `grow` the elements live in the heap block: `begin() == dynStorage()` (a law of the generated members
    of the dynamic flavours; `emplace_back` uses `dynStorage() + size()` on its growing path, the hand-written model `end()`) -/
def GrowToDyn (cfg : Cfg) (c : Nat) (m : Mem α) : Prop :=
  ∀ needed a m', runM (grow cfg c needed false) m = (.ok a, m') →
    ∀ w', m'.ws[c]? = some w' → resolve c c (cfg.ops.begin w') = resolve c c w'.dyn

theorem emplaceBack_dynamic (cfg : Cfg) (c : Nat) (arg : Arg α) (m : Mem α) (hd : cfg.dynamic = true)
    (hD : ∀ a m1, runM (constructArg tmpAddr arg) m = (.ok a, m1) → GrowToDyn cfg c m1) :
    runM (Gen.Glue.dynEmplaceBack cfg c arg) m = runM (emplaceBack cfg c arg) m := by
  unfold emplaceBack Gen.Glue.dynEmplaceBack
  simp only [if_pos hd, growOrDestroy_eq]
  glue_unfold
  cases h : m.ws[c]? with
  | none => simp only [run_getW_bind, h]
  | some w =>
    simp only [run_getW_bind, h, runM_ite, beq_iff_eq]
    split
    · apply bind_congr_run; intro _ m1 h1
      have hw1 : m1.ws[c]? = some w := by rw [ws_of_run (by kws) h1]; exact h
      simp only [run_getW_bind, hw1]
      apply bind_congr_run; intro _ m2 h2
      have hg := run_tryCatch_ok growOrDestroy_handler h2
      cases h2' : m2.ws[c]? with
      | none => simp only [run_getW_bind, h2']
      | some w2 =>
        have := hD _ m1 h1 _ _ m2 hg w2 h2'
        glue_run [h2', this]
    · glue_run [h]

/- ------------------------------------------------------------------------------------------------------------------
   `NoExc`: computations that never throw a C++ exception (they may fault): the moves and relocations of elements.
   `DynamicVector::emplace` wraps `relocate_after_shift` in a try/catch that the hand-written model omits.
   ------------------------------------------------------------------------------------------------------------------ -/

structure NoExc (x : M α β) : Prop where
  h : ∀ m e, (runM x m).1 ≠ .error (.exc e)

theorem NoExc.pure (a : β) : NoExc (pure a : M α β) := ⟨fun _ _ h => by cases h⟩
theorem NoExc.fault (f : Fault) : NoExc (fault f : M α β) := ⟨fun _ _ h => by cases h⟩
theorem NoExc.get : NoExc (get : M α (Mem α)) := ⟨fun _ _ h => by cases h⟩
theorem NoExc.set (m' : Mem α) : NoExc (set m' : M α PUnit) := ⟨fun _ _ h => by cases h⟩
theorem NoExc.modify (g : Mem α → Mem α) : NoExc (modify g : M α Unit) := ⟨fun _ _ h => by cases h⟩
theorem NoExc.bind {x : M α β} {f : β → M α γ} (hx : NoExc x) (hf : ∀ a, NoExc (f a)) : NoExc (x >>= f) := by
  constructor
  intro m e
  rw [runM_bind]
  have h1 := hx.h m e
  cases h : runM x m with
  | mk r m1 =>
    rw [h] at h1
    cases r with
    | ok a => exact (hf a).h m1 e
    | error e' => simpa using h1

syntax "nex_step" : tactic
macro "nex" : tactic => `(tactic| repeat' (first | nex_step | intro _))
macro_rules | `(tactic| nex_step) => `(tactic| dsimp only)
macro_rules | `(tactic| nex_step) => `(tactic| split)
macro_rules | `(tactic| nex_step) => `(tactic| with_reducible apply NoExc.bind)
macro_rules | `(tactic| nex_step) => `(tactic| with_reducible exact NoExc.modify _)
macro_rules | `(tactic| nex_step) => `(tactic| with_reducible exact NoExc.set _)
macro_rules | `(tactic| nex_step) => `(tactic| with_reducible exact NoExc.get)
macro_rules | `(tactic| nex_step) => `(tactic| with_reducible exact NoExc.fault _)
macro_rules | `(tactic| nex_step) => `(tactic| with_reducible exact NoExc.pure _)
macro_rules | `(tactic| nex_step) => `(tactic| with_reducible assumption)

theorem ne_getBuf (r : Region) : NoExc (getBuf (α := α) r) := by unfold getBuf; nex
macro_rules | `(tactic| nex_step) => `(tactic| with_reducible exact ne_getBuf _)

theorem ne_putBuf (r : Region) (b : List (Slot α)) : NoExc (putBuf r b) := by unfold putBuf; nex
macro_rules | `(tactic| nex_step) => `(tactic| with_reducible exact ne_putBuf _ _)

theorem ne_rd (a : Addr) : NoExc (rd (α := α) a) := by unfold rd; nex
macro_rules | `(tactic| nex_step) => `(tactic| with_reducible exact ne_rd _)

theorem ne_wr (a : Addr) (s : Slot α) : NoExc (wr a s) := by unfold wr; nex
macro_rules | `(tactic| nex_step) => `(tactic| with_reducible exact ne_wr _ _)

theorem ne_isTC  : NoExc (isTC (α := α)) := by unfold isTC; nex
macro_rules | `(tactic| nex_step) => `(tactic| with_reducible exact ne_isTC )

theorem ne_isTR  : NoExc (isTR (α := α)) := by unfold isTR; nex
macro_rules | `(tactic| nex_step) => `(tactic| with_reducible exact ne_isTR )

theorem ne_readLive (a : Addr) : NoExc (readLive (α := α) a) := by unfold readLive; nex
macro_rules | `(tactic| nex_step) => `(tactic| with_reducible exact ne_readLive _)

theorem ne_requireRaw (a : Addr) : NoExc (requireRaw (α := α) a) := by unfold requireRaw; nex
macro_rules | `(tactic| nex_step) => `(tactic| with_reducible exact ne_requireRaw _)

theorem ne_requireAlive (a : Addr) (f : Fault) : NoExc (requireAlive (α := α) a f) := by unfold requireAlive; nex
macro_rules | `(tactic| nex_step) => `(tactic| with_reducible exact ne_requireAlive _ _)

theorem ne_movedFrom (v : α) : NoExc (movedFrom v) := by unfold movedFrom; nex
macro_rules | `(tactic| nex_step) => `(tactic| with_reducible exact ne_movedFrom _)

theorem ne_bumpEv (f : Ev → Ev) : NoExc (bumpEv (α := α) f) := by unfold bumpEv; nex
macro_rules | `(tactic| nex_step) => `(tactic| with_reducible exact ne_bumpEv _)

theorem ne_constructMove (d s : Addr) : NoExc (constructMove (α := α) d s) := by unfold constructMove; nex
macro_rules | `(tactic| nex_step) => `(tactic| with_reducible exact ne_constructMove _ _)

theorem ne_destroyAt (a : Addr) : NoExc (destroyAt (α := α) a) := by unfold destroyAt; nex
macro_rules | `(tactic| nex_step) => `(tactic| with_reducible exact ne_destroyAt _)

theorem ne_assignMove (d s : Addr) : NoExc (assignMove (α := α) d s) := by unfold assignMove; nex
macro_rules | `(tactic| nex_step) => `(tactic| with_reducible exact ne_assignMove _ _)

theorem ne_readLiveN (a : Addr) (n : Nat) : NoExc (readLiveN (α := α) a n) := by
  induction n generalizing a with
  | zero => exact NoExc.pure _
  | succ n ih => unfold readLiveN; have := ih (a.add 1); nex
macro_rules | `(tactic| nex_step) => `(tactic| with_reducible exact ne_readLiveN _ _)
theorem ne_setRawN (a : Addr) (n : Nat) : NoExc (setRawN (α := α) a n) := by
  induction n generalizing a with
  | zero => exact NoExc.pure _
  | succ n ih => unfold setRawN; have := ih (a.add 1); nex
macro_rules | `(tactic| nex_step) => `(tactic| with_reducible exact ne_setRawN _ _)
theorem ne_writeLiveRaw (a : Addr) (vs : List α) : NoExc (writeLiveRaw a vs) := by
  induction vs generalizing a with
  | nil => exact NoExc.pure _
  | cons v vs ih => unfold writeLiveRaw; have := ih (a.add 1); nex
macro_rules | `(tactic| nex_step) => `(tactic| with_reducible exact ne_writeLiveRaw _ _)
theorem ne_relocBitwise (s : Addr) (n : Nat) (d : Addr) : NoExc (relocBitwise (α := α) s n d) := by unfold relocBitwise; nex
macro_rules | `(tactic| nex_step) => `(tactic| with_reducible exact ne_relocBitwise _ _ _)
theorem ne_destroyN (a : Addr) (n : Nat) : NoExc (destroyN (α := α) a n) := by
  induction n generalizing a with
  | zero => exact NoExc.pure _
  | succ n ih => unfold destroyN; have := ih (a.add 1); nex
macro_rules | `(tactic| nex_step) => `(tactic| with_reducible exact ne_destroyN _ _)
theorem ne_uninitMoveN (s : Addr) (n : Nat) (d : Addr) : NoExc (uninitMoveN (α := α) s n d) := by
  induction n generalizing s d with
  | zero => exact NoExc.pure _
  | succ n ih => unfold uninitMoveN; have := ih (s.add 1) (d.add 1); nex
macro_rules | `(tactic| nex_step) => `(tactic| with_reducible exact ne_uninitMoveN _ _ _)
theorem ne_uninitRelocN (s : Addr) (n : Nat) (d : Addr) : NoExc (uninitRelocN (α := α) s n d) := by unfold uninitRelocN; nex
macro_rules | `(tactic| nex_step) => `(tactic| with_reducible exact ne_uninitRelocN _ _ _)
theorem ne_relocateAt (s d : Addr) : NoExc (relocateAt (α := α) s d) := by unfold relocateAt; nex
macro_rules | `(tactic| nex_step) => `(tactic| with_reducible exact ne_relocateAt _ _)
theorem ne_relocateAfterShift (e d : Addr) : NoExc (relocateAfterShift (α := α) e d) := by unfold relocateAfterShift; nex

/-- a handler that only acts on C++ exceptions is dead code around a computation that never throws one -/
theorem tryCatch_noexc {x : M α β} (hx : NoExc x) {h : Stop → M α β}
    (hf : ∀ f m1, runM (h (.fault f)) m1 = (.error (.fault f), m1)) : tryCatch x h = x := by
  apply M_ext; intro m
  rw [runM_tryCatch]
  have h1 := hx.h m
  cases hr : runM x m with
  | mk r m1 =>
    rw [hr] at h1
    cases r with
    | ok a => rfl
    | error e =>
      cases e with
      | exc e => exact absurd rfl (h1 e)
      | fault f => exact hf f m1

theorem emplace_dynamic (cfg : Cfg) (c p : Nat) (arg : Arg α) (hd : cfg.dynamic = true) :
    Gen.Glue.dynEmplace cfg c p arg = emplace cfg c p arg := by
  apply M_ext; intro m
  unfold emplace Gen.Glue.dynEmplace
  simp only [if_pos hd, growOrDestroy_eq]
  glue_unfold
  cases h : m.ws[c]? with
  | none => simp only [run_getW_bind, h]
  | some w =>
    simp only [run_getW_bind, h, runM_ite, beq_iff_eq]
    split
    · apply bind_congr_run; intro _ m1 h1
      have hw1 : m1.ws[c]? = some w := by rw [ws_of_run (by kws) h1]; exact h
      simp only [run_getW_bind, hw1]
      apply bind_congr_run; intro _ m2 _
      cases h2' : m2.ws[c]? with
      | none => simp only [run_getW_bind, h2']
      | some w2 =>
        simp only [run_getW_bind, h2', runM_ite]
        split
        · rfl
        · apply bind_congr_run; intro _ m3 _
          rw [tryCatch_noexc (ne_relocateAfterShift _ _) (fun _ _ => rfl)]
    · glue_run [h]

theorem emplace_eq (cfg : Cfg) (c p : Nat) (arg : Arg α) :
    emplace cfg c p arg = if cfg.dynamic then Gen.Glue.dynEmplace cfg c p arg else Gen.Glue.staticEmplace cfg c p arg := by
  split
  · rename_i hd; exact (emplace_dynamic cfg c p arg hd).symm
  · rename_i hd; exact emplace_static cfg c p arg hd

/- ------------------------------------------------------------------------------------------------------------------
   `GrowStable` holds on every well-formed memory: it follows from the growth guarantee of the law package (`VecLaws.grow`,
   proved for the generated members of every flavour and size type in `Bridge/VecLaws*.lean`)
   ------------------------------------------------------------------------------------------------------------------ -/

theorem growStable_of_vrep {cfg : Cfg} {Ok : VB → Prop} (L : VecLaws α cfg Ok) {c : Nat} {m : Mem α} {xs : List α}
    (h : VRep cfg Ok c m xs) (hf : Fresh m) : GrowStable cfg c m := by
  intro hd w hw needed a m' hlt hrun
  obtain ⟨w0, hrep⟩ := h
  have hw0 : w0 = w := by
    have := hrep.ws; rw [hw] at this; injection this with this; exact this.symm
  subst hw0
  have hp := L.grow hd m c xs w0 needed false hrep hf hlt (by intro h; cases h)
  unfold Post at hp
  rw [hrun] at hp
  rcases hp.1 with ⟨_, w', hg⟩ | ⟨e, he, _⟩
  · exact ⟨w', hg.rep.ws, by rw [hg.rep.size, hrep.size]⟩
  · cases he

/- ------------------------------------------------------------------------------------------------------------------
   the members of the `Vector` class itself and `~VectorDestr` (Task T7): calls of base-class members are
   `cfg.ops.* + interpAll + setW`, exactly as the hand-written model writes them
   ------------------------------------------------------------------------------------------------------------------ -/

theorem shrinkToFit_eq : @Gen.Glue.shrinkToFit α = shrinkToFit := rfl
theorem destruct_eq : @Gen.Glue.destruct α = destruct := rfl
theorem construct_eq : @Gen.Glue.construct α = construct := rfl
theorem moveConstruct_eq : @Gen.Glue.moveConstruct α = moveConstruct := rfl
theorem moveAssign_eq : @Gen.Glue.moveAssign α = moveAssign := rfl
/-- `swap(Vector& o)`: the source calls `swap_impl(o)` unconditionally; the hand-written model skips the self-swap
    (`if c ≠ d`). The generated definition is the body of that guard. -/
theorem swapSame_eq : @swapSame α = fun cfg c d => if c ≠ d then Gen.Glue.swapSame cfg c d else pure () := rfl

/-- a pure read of the element buffers: the memory is returned unchanged and the outcome does not depend on the words -/
structure PureRead (x : M α β) : Prop where
  st : ∀ m, (runM x m).2 = m
  ws : ∀ m ws', (runM x { m with ws := ws' }).1 = (runM x m).1

theorem PureRead.pure (a : β) : PureRead (pure a : M α β) := ⟨fun _ => rfl, fun _ _ => rfl⟩
theorem PureRead.fault (f : Fault) : PureRead (fault f : M α β) := ⟨fun _ => rfl, fun _ _ => rfl⟩

theorem PureRead.bind {x : M α β} {f : β → M α γ} (hx : PureRead x) (hf : ∀ a, PureRead (f a)) : PureRead (x >>= f) := by
  constructor
  · intro m
    rw [runM_bind]
    have h1 := hx.st m
    cases h : runM x m with
    | mk r m1 =>
      rw [h] at h1; simp only at h1; subst h1
      cases r with
      | ok a => exact (hf a).st _
      | error e => rfl
  · intro m ws'
    rw [runM_bind, runM_bind]
    have h1 := hx.st m
    have h2 := hx.st { m with ws := ws' }
    have h3 := hx.ws m ws'
    cases h : runM x m with
    | mk r m1 =>
      cases h' : runM x { m with ws := ws' } with
      | mk r' m1' =>
        rw [h] at h1 h3; rw [h'] at h2 h3; simp only at h1 h2 h3; subst h1 h2 h3
        cases r' with
        | ok a => exact (hf a).ws _ _
        | error e => rfl

theorem PureRead.get_bind {f : Mem α → M α β} (h1 : ∀ m, (runM (f m) m).2 = m)
    (h2 : ∀ m ws', (runM (f { m with ws := ws' }) { m with ws := ws' }).1 = (runM (f m) m).1) :
    PureRead ((MonadState.get : M α (Mem α)) >>= f) := by
  constructor
  · intro m; rw [runM_bind]; exact h1 m
  · intro m ws'; rw [runM_bind, runM_bind]; exact h2 m ws'

syntax "pr_step" : tactic
macro "prd" : tactic => `(tactic| repeat' (first | pr_step | intro _))
macro_rules | `(tactic| pr_step) => `(tactic| dsimp only)
macro_rules | `(tactic| pr_step) => `(tactic| split)
macro_rules | `(tactic| pr_step) => `(tactic| with_reducible apply PureRead.bind)
macro_rules | `(tactic| pr_step) => `(tactic| with_reducible exact PureRead.fault _)
macro_rules | `(tactic| pr_step) => `(tactic| with_reducible exact PureRead.pure _)
macro_rules | `(tactic| pr_step) => `(tactic| with_reducible assumption)

theorem pr_isTC : PureRead (isTC (α := α)) := by
  unfold isTC; exact ⟨fun _ => rfl, fun _ _ => rfl⟩
macro_rules | `(tactic| pr_step) => `(tactic| with_reducible exact pr_isTC)
theorem pr_getBuf (r : Region) : PureRead (getBuf (α := α) r) := by
  unfold getBuf
  apply PureRead.get_bind
  · intro m; cases r <;> (dsimp only; repeat' (first | rfl | split))
  · intro m ws'; cases r <;> (dsimp only; repeat' (first | rfl | split))
macro_rules | `(tactic| pr_step) => `(tactic| with_reducible exact pr_getBuf _)
theorem pr_rd (a : Addr) : PureRead (rd (α := α) a) := by unfold rd; prd
macro_rules | `(tactic| pr_step) => `(tactic| with_reducible exact pr_rd _)
theorem pr_readLive (a : Addr) : PureRead (readLive (α := α) a) := by unfold readLive; prd
macro_rules | `(tactic| pr_step) => `(tactic| with_reducible exact pr_readLive _)
theorem pr_readLiveN (a : Addr) (n : Nat) : PureRead (readLiveN (α := α) a n) := by
  induction n generalizing a with
  | zero => exact PureRead.pure _
  | succ n ih => unfold readLiveN; have := ih (a.add 1); prd
macro_rules | `(tactic| pr_step) => `(tactic| with_reducible exact pr_readLiveN _ _)
theorem pr_ptrRange (a b : Addr) : PureRead (Gen.Glue.ptrRange (α := α) a b) := by unfold Gen.Glue.ptrRange; prd


theorem runM_setW (c : Nat) (w : VB) (m : Mem α) : runM (setW c w) m = (.ok (), { m with ws := m.ws.set c w }) := rfl

/-- `elems` is the range `[begin(), end())` of the vector, as the generated members pass it -/
theorem elems_eq (cfg : Cfg) (c : Nat) : elems (α := α) cfg c = (do Gen.Glue.ptrRange (← vbegin cfg c) (← vend cfg c)) := by
  apply M_ext; intro m
  unfold elems Gen.Glue.ptrRange
  glue_unfold
  cases h : m.ws[c]? <;> glue_run [h, Addr.add, Nat.add_sub_cancel_left]

theorem elems_run (cfg : Cfg) (c : Nat) (m : Mem α) :
    runM (elems cfg c) m = match m.ws[c]? with
      | some w => runM (readLiveN (resolve c c (cfg.ops.begin w)) (cfg.ops.size w)) m
      | none => (.error (.fault .oob), m) := by
  unfold elems
  glue_unfold
  cases h : m.ws[c]? <;> glue_run [h]

theorem elems_st (cfg : Cfg) (c : Nat) (m : Mem α) : (runM (elems cfg c) m).2 = m := by
  rw [elems_run]
  cases h : m.ws[c]? with
  | none => rfl
  | some w => exact (pr_readLiveN _ _).st m

/-- step over a common read: the continuations are compared on the unchanged memory -/
theorem bind_congr_read (x : M α β) (hx : ∀ m, (runM x m).2 = m) (f g : β → M α γ) (m : Mem α)
    (h : ∀ a, (runM x m).1 = .ok a → runM (f a) m = runM (g a) m) : runM (x >>= f) m = runM (x >>= g) m := by
  apply bind_congr_run
  intro a m' hr
  have h1 := hx m; rw [hr] at h1; simp only at h1; subst h1
  exact h a (by rw [hr])

theorem copyAssign_gen (cfg : Cfg) (c d : Nat) :
    Gen.Glue.copyAssign (α := α) cfg c d = if c ≠ d then (elems cfg d >>= fun vals => Gen.Glue.assignIter cfg c vals) else pure () := by
  unfold Gen.Glue.copyAssign
  simp only [elems_eq, bind_assoc]

theorem copyAssign_eq (cfg : Cfg) (c d : Nat) (m : Mem α) (hS : GrowStable cfg c m) :
    runM (Gen.Glue.copyAssign cfg c d) m = runM (copyAssign cfg c d) m := by
  rw [copyAssign_gen]
  unfold copyAssign
  simp only [runM_ite]
  split
  · exact bind_congr_read _ (elems_st cfg d) _ _ m (fun vals _ => assignIter_eq cfg c vals m hS)
  · rfl

theorem copyConstruct_gen (cfg : Cfg) (c d : Nat) :
    Gen.Glue.copyConstruct (α := α) cfg c d = (do construct cfg c; Gen.Glue.appendIter cfg c (← elems cfg d)) := by
  unfold Gen.Glue.copyConstruct construct
  simp only [elems_eq, bind_assoc]

theorem elems_frame (cfg : Cfg) (c d : Nat) (w : VB) (m : Mem α) (hcd : c ≠ d) :
    runM (elems cfg d) { m with ws := m.ws.set c w } = ((runM (elems cfg d) m).1, { m with ws := m.ws.set c w }) := by
  have h2 := elems_st cfg d { m with ws := m.ws.set c w }
  have h1 : (runM (elems cfg d) { m with ws := m.ws.set c w }).1 = (runM (elems cfg d) m).1 := by
    rw [elems_run, elems_run]
    have : (m.ws.set c w)[d]? = m.ws[d]? := List.getElem?_set_ne hcd
    simp only [this]
    cases h : m.ws[d]? with
    | none => rfl
    | some w' => exact (pr_readLiveN _ _).ws m _
  exact Prod.ext h1 h2

/-- `Vector(const Vector& o)`: the source constructs the empty vector first and reads the elements of `o` when the range is
    passed to `append`; the hand-written model reads them first. The two agree whenever `o` is another object whose elements
    can be read (otherwise both stop with the same fault, the hand-written model before, the source after the construction of
    the empty vector) -/
theorem copyConstruct_eq (cfg : Cfg) (c d : Nat) (m : Mem α) (hcd : c ≠ d) (vals : List α)
    (hv : (runM (elems cfg d) m).1 = .ok vals) (hS : GrowStable cfg c { m with ws := m.ws.set c (cfg.ops.ctor cfg.n) }) :
    runM (Gen.Glue.copyConstruct cfg c d) m = runM (copyConstruct cfg c d) m := by
  rw [copyConstruct_gen]
  unfold copyConstruct construct
  have he : runM (elems cfg d) m = (.ok vals, m) := by
    have := elems_st cfg d m
    cases h : runM (elems cfg d) m with
    | mk r m' => rw [h] at hv this; simp only at hv this; rw [hv, this]
  simp only [runM_bind, he, runM_setW, elems_frame cfg c d _ m hcd]
  exact appendIter_eq cfg c vals _ hS

/-- when the elements of `o` cannot be read both stop with the same fault -/
theorem copyConstruct_fault (cfg : Cfg) (c d : Nat) (m : Mem α) (hcd : c ≠ d) (e : Stop)
    (hv : (runM (elems cfg d) m).1 = .error e) :
    (runM (Gen.Glue.copyConstruct cfg c d) m).1 = .error e ∧ (runM (copyConstruct cfg c d) m).1 = .error e := by
  rw [copyConstruct_gen]
  unfold copyConstruct construct
  have he : runM (elems cfg d) m = (.error e, m) := by
    have := elems_st cfg d m
    cases h : runM (elems cfg d) m with
    | mk r m' => rw [h] at hv this; simp only at hv this; rw [hv, this]
  simp only [runM_bind, he, runM_setW, elems_frame cfg c d _ m hcd, and_self]

/- ------------------------------------------------------------------------------------------------------------------
   the single-pass (`std::input_iterator_tag`) overloads of `assign_range` / `append_range` / `insert_range`: the loop
   `for (; first != last; ++first) emplace_back(*first)` is an auxiliary recursive definition over the values of the range
   ------------------------------------------------------------------------------------------------------------------ -/
theorem assignInputLoop_eq : @Gen.Glue.assignInputLoop α = appendInputLoop := by
  funext cfg c vals
  induction vals with
  | nil => rfl
  | cons v vs ih => unfold Gen.Glue.assignInputLoop appendInputLoop; rw [ih]

theorem appendInputLoop_eq : @Gen.Glue.appendInputLoop α = appendInputLoop := by
  funext cfg c vals
  induction vals with
  | nil => rfl
  | cons v vs ih => unfold Gen.Glue.appendInputLoop appendInputLoop; rw [ih]

theorem assignInput_eq : @Gen.Glue.assignInput α = assignInput := by
  funext cfg c vals
  unfold Gen.Glue.assignInput assignInput
  rw [assignInputLoop_eq]; rfl

theorem appendInput_eq : @Gen.Glue.appendInput α = appendInput := by
  funext cfg c vals
  unfold Gen.Glue.appendInput appendInput
  rw [appendInputLoop_eq]; rfl

/-- the named primitive standing for `std::rotate(begin() + i, begin() + j, end())` is the net-effect block of the
    hand-written `insertInput` -/
theorem putLive_eq : @Gen.Glue.putLive α = insertInput.put := by
  funext a vals
  induction vals generalizing a with
  | nil => rfl
  | cons v vs ih => unfold Gen.Glue.putLive insertInput.put; rw [ih]

theorem insertInput_eq : @Gen.Glue.insertInput α = insertInput := by
  funext cfg c p vals
  unfold Gen.Glue.insertInput insertInput Gen.Glue.rotateTail
  rw [appendInput_eq, putLive_eq]
  simp only [bind_assoc]

theorem insertIterInput_eq : @Gen.Glue.insertIterInput α = insertInput := by
  funext cfg c p vals; unfold Gen.Glue.insertIterInput; rw [insertInput_eq]
theorem assignIterInput_eq : @Gen.Glue.assignIterInput α = assignInput := by
  funext cfg c vals; unfold Gen.Glue.assignIterInput; rw [assignInput_eq]
theorem appendIterInput_eq : @Gen.Glue.appendIterInput α = appendInput := by
  funext cfg c vals; unfold Gen.Glue.appendIterInput; rw [appendInput_eq]

/- ------------------------------------------------------------------------------------------------------------------
   swap2 between two vectors of possibly different flavour / size type / allocator: `VectorImpl::swap2`,
   `adjustEachOtherCapacity`, `swap2_impl`, `canExchangeDynStorage`, `canSwapDynStorage` (two configurations `ca cb`)
   ------------------------------------------------------------------------------------------------------------------ -/
theorem nat_beq_decide (x y : Nat) : (x == y) = decide (x = y) := by
  by_cases h : x = y <;> simp [h]

theorem canSwapDyn_eq (ca cb : Cfg) (wa wb : VB) : canSwapDyn ca cb wa wb = Gen.Glue.canSwapDynStorage ca cb wa wb := by
  unfold canSwapDyn Gen.Glue.canSwapDynStorage Gen.Glue.stdCanSwapDynStorage Gen.Glue.smallCanSwapDynStorage
  cases ca.flavour <;> cases cb.flavour <;> simp [Bool.decide_and, Bool.and_assoc, nat_beq_decide]

theorem canExchangeDyn_eq (ca cb : Cfg) (wa wb : VB) :
    canExchangeDyn ca cb wa wb = Gen.Glue.dynCanExchangeDynStorage ca cb wa wb := by
  unfold canExchangeDyn Gen.Glue.dynCanExchangeDynStorage
  rw [canSwapDyn_eq]
  simp [Bool.decide_and, Bool.and_assoc]


/-- first half of the hand-written `swap2`: `adjustEachOtherCapacity` -/
def swap2Adjust (ca cb : Cfg) (a b : Nat) : M α Unit := do
  let wa ← getW a
  let wb ← getW b
  if ca.dynamic then
    if !canExchangeDyn ca cb wa wb then
      adjustCapacity ca a (cb.ops.size wb)
      adjustCapacity cb b (ca.ops.size wa)
  else
    adjustCapacity ca a (cb.ops.size wb)
    adjustCapacity cb b (ca.ops.size wa)

/-- second half of the hand-written `swap2`: `swap2_impl` -/
def swap2Exchange (ca cb : Cfg) (a b : Nat) : M α Unit := do
  let wa ← getW a
  let wb ← getW b
  let sa := ca.ops.size wa
  let sb := cb.ops.size wb
  if ca.dynamic && cb.dynamic && canExchangeDyn ca cb wa wb then
    let capA := ca.ops.capacity wa
    let capB := cb.ops.capacity wb
    setW a ⟨capB, sb, wb.dyn⟩
    setW b ⟨capA, sa, wa.dyn⟩
  else
    swapDeep (← vbegin ca a) sa (← vbegin cb b) sb
    setSize ca a sb
    setSize cb b sa

theorem swap2_split (ca cb : Cfg) (a b : Nat) :
    swap2 (α := α) ca cb a b = (do swap2Adjust ca cb a b; swap2Exchange ca cb a b) := by
  unfold swap2 swap2Adjust swap2Exchange
  simp only [bind_assoc, ite_bind', pure_bind]

/-- the generated `adjustEachOtherCapacity` of the flavour class of `*this` -/
def genAdjust (ca cb : Cfg) (a b : Nat) : M α Unit :=
  if ca.dynamic then Gen.Glue.dynAdjustEachOtherCapacity ca cb a b else Gen.Glue.staticAdjustEachOtherCapacity ca cb a b

/-- the generated `swap2_impl` overload selected by the flavour classes of `*this` and `o` -/
def genExchange (ca cb : Cfg) (a b : Nat) : M α Unit :=
  if ca.dynamic then
    if cb.dynamic then Gen.Glue.dynSwap2ImplDyn ca cb a b else Gen.Glue.dynSwap2ImplStatic ca cb a b
  else Gen.Glue.staticSwap2Impl ca cb a b

theorem genSwap2_split (ca cb : Cfg) (a b : Nat) :
    Gen.Glue.swap2 (α := α) ca cb a b = (do genAdjust ca cb a b; genExchange ca cb a b) := by
  unfold Gen.Glue.swap2 genAdjust genExchange
  cases ca.dynamic <;> cases cb.dynamic <;> rfl


theorem dynAdjustCapacity_eq (cfg : Cfg) (c n : Nat) (hd : cfg.dynamic = true) :
    Gen.Glue.dynAdjustCapacity (α := α) cfg c n = adjustCapacity cfg c n := by rw [adjustCapacity_eq, if_pos hd]
theorem staticAdjustCapacity_eq (cfg : Cfg) (c n : Nat) (hd : ¬ cfg.dynamic = true) :
    Gen.Glue.staticAdjustCapacity (α := α) cfg c n = adjustCapacity cfg c n := by rw [adjustCapacity_eq, if_neg hd]

theorem kw_adjustCapacity_static (cfg : Cfg) (c n : Nat) (hd : ¬ cfg.dynamic = true) : KeepsWs (adjustCapacity (α := α) cfg c n) := by
  unfold adjustCapacity; rw [if_neg hd]; kws

/-- `adjustEachOtherCapacity`: the source reads `this->size()` after `adjustCapacity(o.size())`, the hand-written model before
    (`GrowStable`: a successful `grow` keeps the size) -/
theorem genAdjust_eq (ca cb : Cfg) (a b : Nat) (m : Mem α) (hS : GrowStable ca a m) :
    runM (genAdjust ca cb a b) m = runM (swap2Adjust ca cb a b) m := by
  unfold genAdjust swap2Adjust
  by_cases hd : ca.dynamic = true
  · simp only [if_pos hd]
    unfold Gen.Glue.dynAdjustEachOtherCapacity
    simp only [dynAdjustCapacity_eq _ _ _ hd, canExchangeDyn_eq]
    glue_unfold
    cases ha : m.ws[a]? with
    | none => simp only [run_getW_bind, ha]
    | some wa =>
      cases hb : m.ws[b]? with
      | none => simp only [run_getW_bind, ha, hb]
      | some wb =>
        simp only [run_getW_bind, ha, hb]
        cases hx : Gen.Glue.dynCanExchangeDynStorage ca cb wa wb
        · simp only [Bool.not_false, Bool.false_eq_true, not_false_eq_true, if_true, run_getW_bind, hb]
          apply bind_congr_run; intro _ m' hr
          obtain ⟨w', h', hsz⟩ := adjustCapacity_stable hS ha hr
          simp only [run_getW_bind, h', hsz]
        · simp only [Bool.not_true, Bool.false_eq_true, not_true_eq_false, if_false]
  · simp only [if_neg hd]
    unfold Gen.Glue.staticAdjustEachOtherCapacity
    simp only [staticAdjustCapacity_eq _ _ _ hd]
    glue_unfold
    cases ha : m.ws[a]? with
    | none =>
      cases hb : m.ws[b]? with
      | none => simp only [run_getW_bind, ha, hb]
      | some wb =>
        simp only [run_getW_bind, ha, hb]
        unfold adjustCapacity
        simp only [if_neg hd]
        glue_unfold
        split <;> simp only [bind_assoc, runM_bind, run_getW_bind, ha, runM_getW]
    | some wa =>
      cases hb : m.ws[b]? with
      | none => simp only [run_getW_bind, ha, hb]
      | some wb =>
        simp only [run_getW_bind, ha, hb]
        apply bind_congr_run; intro _ m' hr
        have := ws_of_run (kw_adjustCapacity_static ca a _ hd) hr
        simp only [run_getW_bind, this, ha]


theorem runM_setW' (c : Nat) (w : VB) (m : Mem α) : runM (setW c w) m = (.ok (), { m with ws := m.ws.set c w }) := rfl

theorem ws_set_self {l : List VB} {a : Nat} {w x : VB} (h : l[a]? = some w) : (l.set a x)[a]? = some x := by
  have hl : a < l.length := by
    cases hh : decide (a < l.length) with
    | true => exact of_decide_eq_true hh
    | false =>
      have : ¬ a < l.length := of_decide_eq_false hh
      rw [List.getElem?_eq_none (by omega)] at h; cases h
  simp [List.getElem?_set, hl]

theorem ws_set_ne {l : List VB} {a b : Nat} {x : VB} (h : a ≠ b) : (l.set a x)[b]? = l[b]? := by
  simp [List.getElem?_set, h]

theorem run_setW_bind (c : Nat) (w : VB) (f : Unit → M α β) (m : Mem α) :
    runM (setW c w >>= f) m = runM (f ()) { m with ws := m.ws.set c w } := by
  rw [runM_bind, runM_setW']

/-- the exchange of the two heap buffers as the source performs it, step by step -/
theorem exchange_run (ca cb : Cfg) (a b : Nat) (m : Mem α) (wa wb : VB) (hab : a ≠ b) (ha : m.ws[a]? = some wa) (hb : m.ws[b]? = some wb)
    (sa sb capA capB : Nat) :
    runM (do Gen.Glue.swapDynStorage a b; setSize ca a sb; Gen.Glue.setCapacity a capB; setSize cb b sa; Gen.Glue.setCapacity b capA) m
      = (.ok (), { m with ws := (m.ws.set a { ca.ops.setSize { wa with dyn := wb.dyn } (sb % (ca.ops.kMax + 1)) with capa := capB }).set b
                                  { cb.ops.setSize { wb with dyn := wa.dyn } (sa % (cb.ops.kMax + 1)) with capa := capA } }) := by
  unfold Gen.Glue.swapDynStorage Gen.Glue.setCapacity setSize
  simp only [bind_assoc, pure_bind, run_getW_bind, run_setW_bind, ha, hb, ws_set_self ha, ws_set_self hb, ws_set_ne hab, ws_set_ne hab.symm, runM_setW']
  have hla : a < m.ws.length := by
    cases hh : decide (a < m.ws.length) with
    | true => exact of_decide_eq_true hh
    | false => have : ¬ a < m.ws.length := of_decide_eq_false hh; rw [List.getElem?_eq_none (by omega)] at ha; cases ha
  have hlb : b < m.ws.length := by
    cases hh : decide (b < m.ws.length) with
    | true => exact of_decide_eq_true hh
    | false => have : ¬ b < m.ws.length := of_decide_eq_false hh; rw [List.getElem?_eq_none (by omega)] at hb; cases hb
  simp [List.getElem?_set, List.length_set, hla, hlb, hab, hab.symm]
  apply List.ext_getElem?
  intro i
  simp only [List.getElem?_set, List.length_set]
  by_cases h1 : b = i <;> by_cases h2 : a = i <;> simp [h1, h2, hla, hlb]

/-- laws of the generated base-class members on words in heap state that the exchange of two heap buffers relies on (they hold for
    the generated `StdVectorBase` / `SmallVectorBase` members of every size type; they are not properties of arbitrary `BaseOps`) -/
structure ExchLaws (cfg : Cfg) : Prop where
  setSize : ∀ w s, cfg.ops.isSmall w = false → cfg.ops.setSize w s = { w with size := s }
  isSmall_dyn : ∀ w d, cfg.ops.isSmall { w with dyn := d } = cfg.ops.isSmall w
  std_large : cfg.flavour = .std → ∀ w, cfg.ops.isSmall w = false

theorem not_small_of_canSwap {ca cb : Cfg} {wa wb : VB} (La : ExchLaws ca) (Lb : ExchLaws cb)
    (h : Gen.Glue.canSwapDynStorage ca cb wa wb = true) : ca.ops.isSmall wa = false ∧ cb.ops.isSmall wb = false := by
  unfold Gen.Glue.canSwapDynStorage Gen.Glue.stdCanSwapDynStorage Gen.Glue.smallCanSwapDynStorage at h
  cases hfa : ca.flavour <;> cases hfb : cb.flavour <;> simp [hfa, hfb] at h
  · exact ⟨La.std_large hfa _, Lb.std_large hfb _⟩
  · exact ⟨La.std_large hfa _, h.2⟩
  · exact ⟨h.2, Lb.std_large hfb _⟩
  · exact ⟨h.1.2, h.2⟩

/-- the `swap_deep` path of `swap2_impl`, as the hand-written model writes it -/
def swap2Deep (ca cb : Cfg) (a b : Nat) : M α Unit := do
  let wa ← getW a
  let wb ← getW b
  swapDeep (← vbegin ca a) (ca.ops.size wa) (← vbegin cb b) (cb.ops.size wb)
  setSize ca a (cb.ops.size wb)
  setSize cb b (ca.ops.size wa)

theorem staticSwap2Impl_eq (ca cb : Cfg) (a b : Nat) : Gen.Glue.staticSwap2Impl (α := α) ca cb a b = swap2Deep ca cb a b := by
  unfold Gen.Glue.staticSwap2Impl swap2Deep
  simp only [vsize, bind_assoc, pure_bind]

theorem dynSwap2ImplStatic_eq (ca cb : Cfg) (a b : Nat) : Gen.Glue.dynSwap2ImplStatic (α := α) ca cb a b = swap2Deep ca cb a b := by
  unfold Gen.Glue.dynSwap2ImplStatic swap2Deep
  simp only [vsize, bind_assoc, pure_bind]

theorem swap2Exchange_deep (ca cb : Cfg) (a b : Nat) (h : ¬ (ca.dynamic = true ∧ cb.dynamic = true)) :
    swap2Exchange (α := α) ca cb a b = swap2Deep ca cb a b := by
  unfold swap2Exchange swap2Deep
  have : (ca.dynamic && cb.dynamic) = false := by
    cases h1 : ca.dynamic <;> cases h2 : cb.dynamic <;> simp_all
  simp only [this, Bool.false_and, Bool.false_eq_true, if_false]

/-- `swap2_impl`: the source exchanges the heap buffers member by member (`swapDynStorage`, `setSize`, `mcapacity() =`), the
    hand-written model writes the resulting words directly -/
theorem genExchange_eq (ca cb : Cfg) (a b : Nat) (m : Mem α) (hab : a ≠ b) (La : ExchLaws ca) (Lb : ExchLaws cb)
    (hwa : ∀ w, m.ws[a]? = some w → ca.ops.size w ≤ ca.ops.capacity w)
    (hwb : ∀ w, m.ws[b]? = some w → cb.ops.size w ≤ cb.ops.capacity w) :
    runM (genExchange ca cb a b) m = runM (swap2Exchange ca cb a b) m := by
  unfold genExchange
  by_cases hda : ca.dynamic = true
  · by_cases hdb : cb.dynamic = true
    · rw [if_pos hda, if_pos hdb]
      unfold Gen.Glue.dynSwap2ImplDyn swap2Exchange
      simp only [hda, hdb, Bool.true_and, canExchangeDyn_eq]
      glue_unfold
      cases ha : m.ws[a]? with
      | none => simp only [run_getW_bind, ha]
      | some wa =>
        cases hb : m.ws[b]? with
        | none => simp only [run_getW_bind, ha, hb]
        | some wb =>
          simp only [run_getW_bind, ha, hb]
          cases hx : Gen.Glue.dynCanExchangeDynStorage ca cb wa wb
          · simp only [Bool.false_eq_true, if_false, run_getW_bind, ha, hb]
          · simp only [if_true, run_getW_bind, ha, hb]
            have hx' := hx
            unfold Gen.Glue.dynCanExchangeDynStorage at hx'
            simp only [decide_eq_true_eq] at hx'
            obtain ⟨⟨hsw, hcb⟩, hca⟩ := hx'
            obtain ⟨hsa, hsb⟩ := not_small_of_canSwap La Lb hsw
            have h1 := exchange_run ca cb a b m wa wb hab ha hb (ca.ops.size wa) (cb.ops.size wb) (ca.ops.capacity wa) (cb.ops.capacity wb)
            have e1 : cb.ops.size wb % (ca.ops.kMax + 1) = cb.ops.size wb := Nat.mod_eq_of_lt (by have := hwb wb hb; omega)
            have e2 : ca.ops.size wa % (cb.ops.kMax + 1) = ca.ops.size wa := Nat.mod_eq_of_lt (by have := hwa wa ha; omega)
            rw [e1, e2, La.setSize _ _ (by rw [La.isSmall_dyn]; exact hsa), Lb.setSize _ _ (by rw [Lb.isSmall_dyn]; exact hsb)] at h1
            simp only [setSize, bind_assoc, pure_bind, e1, e2] at h1
            rw [e1, e2, h1]
            simp only [run_setW_bind, runM_setW']
    · rw [if_pos hda, if_neg hdb, dynSwap2ImplStatic_eq, swap2Exchange_deep _ _ _ _ (fun h => hdb h.2)]
  · rw [if_neg hda, staticSwap2Impl_eq, swap2Exchange_deep _ _ _ _ (fun h => hda h.1)]


/-- `swap2`: generated = hand-written, for two different objects, under the laws of the base-class members on heap words, when a
    successful `grow` keeps the size (`GrowStable`, see `growStable_of_vrep`) and the words of the two vectors after
    `adjustEachOtherCapacity` are well formed (`size() <= capacity()`) -/
theorem swap2_eq (ca cb : Cfg) (a b : Nat) (m : Mem α) (hab : a ≠ b) (La : ExchLaws ca) (Lb : ExchLaws cb)
    (hS : GrowStable ca a m)
    (hwf : ∀ m', runM (swap2Adjust ca cb a b) m = (.ok (), m') →
      (∀ w, m'.ws[a]? = some w → ca.ops.size w ≤ ca.ops.capacity w) ∧ (∀ w, m'.ws[b]? = some w → cb.ops.size w ≤ cb.ops.capacity w)) :
    runM (Gen.Glue.swap2 ca cb a b) m = runM (swap2 ca cb a b) m := by
  rw [genSwap2_split, swap2_split, runM_bind, runM_bind, genAdjust_eq _ _ _ _ _ hS]
  cases h : runM (swap2Adjust ca cb a b) m with
  | mk r m' =>
    cases r with
    | error e => rfl
    | ok u =>
      cases u
      exact genExchange_eq ca cb a b m' hab La Lb (hwf m' h).1 (hwf m' h).2

/- the laws `ExchLaws` hold for the generated members of the three vector base classes, for every size type -/
section
open AmcVerif.Gen
theorem exchLaws_std_U8 (cfg : Cfg) (hops : cfg.ops = U8.dvbOps) : ExchLaws cfg :=
  ⟨fun w s _ => by rw [hops]; rfl, fun w d => by rw [hops]; rfl, fun _ w => by rw [hops]; rfl⟩
theorem exchLaws_std_U16 (cfg : Cfg) (hops : cfg.ops = U16.dvbOps) : ExchLaws cfg :=
  ⟨fun w s _ => by rw [hops]; rfl, fun w d => by rw [hops]; rfl, fun _ w => by rw [hops]; rfl⟩
theorem exchLaws_std_U32 (cfg : Cfg) (hops : cfg.ops = U32.dvbOps) : ExchLaws cfg :=
  ⟨fun w s _ => by rw [hops]; rfl, fun w d => by rw [hops]; rfl, fun _ w => by rw [hops]; rfl⟩
theorem exchLaws_std_U64 (cfg : Cfg) (hops : cfg.ops = U64.dvbOps) : ExchLaws cfg :=
  ⟨fun w s _ => by rw [hops]; rfl, fun w d => by rw [hops]; rfl, fun _ w => by rw [hops]; rfl⟩

theorem exchLaws_small_U8 (cfg : Cfg) (hfl : cfg.flavour = .small) (hops : cfg.ops = U8.svbOps) : ExchLaws cfg :=
  ⟨fun w s h => by rw [hops] at h ⊢; simp only [U8.svbOps, U8.SVB.isSmall, U8.SVB.setSize] at h ⊢; rw [h]; rfl,
   fun w d => by rw [hops]; rfl, fun h => by rw [hfl] at h; cases h⟩
theorem exchLaws_small_U16 (cfg : Cfg) (hfl : cfg.flavour = .small) (hops : cfg.ops = U16.svbOps) : ExchLaws cfg :=
  ⟨fun w s h => by rw [hops] at h ⊢; simp only [U16.svbOps, U16.SVB.isSmall, U16.SVB.setSize] at h ⊢; rw [h]; rfl,
   fun w d => by rw [hops]; rfl, fun h => by rw [hfl] at h; cases h⟩
theorem exchLaws_small_U32 (cfg : Cfg) (hfl : cfg.flavour = .small) (hops : cfg.ops = U32.svbOps) : ExchLaws cfg :=
  ⟨fun w s h => by rw [hops] at h ⊢; simp only [U32.svbOps, U32.SVB.isSmall, U32.SVB.setSize] at h ⊢; rw [h]; rfl,
   fun w d => by rw [hops]; rfl, fun h => by rw [hfl] at h; cases h⟩
theorem exchLaws_small_U64 (cfg : Cfg) (hfl : cfg.flavour = .small) (hops : cfg.ops = U64.svbOps) : ExchLaws cfg :=
  ⟨fun w s h => by rw [hops] at h ⊢; simp only [U64.svbOps, U64.SVB.isSmall, U64.SVB.setSize] at h ⊢; rw [h]; rfl,
   fun w d => by rw [hops]; rfl, fun h => by rw [hfl] at h; cases h⟩

/-- a `FixedCapacityVector` never takes part in an exchange of heap buffers (`isSmall` is constantly true): the laws hold vacuously -/
theorem exchLaws_fixed (cfg : Cfg) (hfl : cfg.flavour = .fixed) (hs : ∀ w, cfg.ops.isSmall w = true) : ExchLaws cfg :=
  ⟨fun w s h => by rw [hs] at h; exact absurd h (by decide), fun w d => by rw [hs, hs], fun h => by rw [hfl] at h; cases h⟩
end
end AmcVerif.GlueBridge
