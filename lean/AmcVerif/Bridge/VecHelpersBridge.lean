import AmcVerif.Gen.VecHelpers
import AmcVerif.Bridge.VecGlueBridge
/-! The generated model of the element helpers (`Gen/VecHelpers.lean`, regenerated from the free functions of namespace
`amc::vec` of `vectorcommon.hpp` by `translator/helpers2lean.py`) equals the hand-written one (`Prim/Helpers.lean`, and
`emplaceN` / `addressAfterShift` of `Model/Vec.lean`).

Every statement is an equality of functions, without hypothesis, except `shiftRight1_eq`:

* `rfl`: `fillAfterShift`, `destroyAfterShift`, `fillHelper`, `relocateAfterShift`; after a case split on the argument
  kind: `assignAfterShift`.
* pointer arithmetic (`subA`, `ptrDiff`: the source computes `last - first` on pointers where the hand-written model
  writes the count directly): `shiftRightN`, `shiftLeft`, `uninitShiftLeft`, `eraseN`, `eraseAt`, `swapDeep`, `moveN`.
* lists (`count` is `vals.length`, the iterator is the list of remaining values, the hand-rolled copy loop copies
  `max n 1` values and is guarded by `n > 0`): `assignN`, `copyAfterShift`.
* `addressAfterShift`: the comparisons of `std::addressof(v)` with buffer pointers, by cases.
* `shiftRight1_eq` needs `n ≠ 0` (the documented requirement of `shift_right(first, n)`): the source moves from
  `(first + n) - 1`, the hand-written model from `first + (n - 1)`; on `n = 0` these are different slots (`first - 1`
  resp. `first`), so the two definitions differ there. Both callers (`insert_n`, `emplace_n`) call it in the branch `n ≠ 0`,
  hence `insertN_eq` and `emplaceN_eq` are unconditional.
* `emplaceN_eq`: the source wraps `relocate_after_shift` in `try { … } catch (...) { shift_left(pos + 1, n); throw; }`, the
  hand-written model has no handler. A relocation never throws a C++ exception in the model (`NoExc`, from
  `VecGlueBridge`): the handler is dead code (`tryCatch_noexc`). -/
namespace AmcVerif.HelpersBridge
open AmcVerif AmcVerif.GlueBridge
open AmcVerif.Gen.Helpers (subA ptrDiff refGe refLt refAdd)
variable {α : Type}

/-- the values left after reading `k` of them, `count - k` of them: all of them -/
theorem take_drop_rest (vals : List α) (k : Nat) : (vals.drop k).take (vals.length - k) = vals.drop k := by
  apply List.take_of_length_le; simp

theorem addr_add_zero (a : Addr) : a.add 0 = a := rfl

/-- `shift_right(first, n)`, under its requirement `n != 0` -/
theorem shiftRight1_eq (first : Addr) (n : Nat) (hn : n ≠ 0) :
    Gen.Helpers.shiftRight1 (α := α) first n = shiftRight1 first n := by
  unfold Gen.Helpers.shiftRight1 shiftRight1
  have h1 : first.i + n - 1 = first.i + (n - 1) := by omega
  have h2 : first.i + (n - 1) - first.i = n - 1 := by omega
  have h3 : first.i + n - (n - 1) = first.i + 1 := by omega
  simp only [subA, ptrDiff, Addr.add, h1, h2, h3]

/-- the hypothesis `n ≠ 0` cannot be dropped: with the element before `first` alive and the slot at `first` raw, the source
    text of `shift_right(first, 0)` (non trivially relocatable overload) moves `first[-1]` to `first[0]`, whereas the
    hand-written model reads the raw slot `first[0]` and faults -/
theorem shiftRight1_zero_differs :
    let m : Mem Nat := { inls := [[.live 1, .raw]], blocks := [], cat := .ntr }
    let ok := fun (r : Except Stop Unit) => match r with | .ok _ => true | .error _ => false
    ok (runM (Gen.Helpers.shiftRight1 ⟨.inl 0, 1⟩ 0) m).1 = true ∧ ok (runM (shiftRight1 ⟨.inl 0, 1⟩ 0) m).1 = false := by
  constructor <;> rfl

/-- `shift_right(first, n, count)` -/
theorem shiftRightN_eq : @Gen.Helpers.shiftRightN α = shiftRightN := by
  funext first n count
  unfold Gen.Helpers.shiftRightN shiftRightN
  simp only [subA, ptrDiff, Addr.add]
  congr 1; funext b; split
  · rfl
  · split
    · have h1 : first.i + n - count = first.i + (n - count) := by omega
      have h2 : first.i + (n - count) - first.i = n - count := by omega
      have h3 : first.i + n - (n - count) = first.i + count := by omega
      simp only [h1, h2, h3]
    · rfl

theorem fillAfterShift_eq : @Gen.Helpers.fillAfterShift α = fillAfterShift := rfl

/-- `assign_n(first, count, d_first, d_n)` -/
theorem assignN_eq : @Gen.Helpers.assignN α = assignN := by
  funext vals dFirst dN
  unfold Gen.Helpers.assignN assignN
  congr 1; funext b; split
  · simp only [List.take_length]
  · cases dN with
    | zero =>
      simp only [Nat.lt_irrefl, gt_iff_lt, if_false, Nat.sub_zero, List.take_length, List.take_zero, copyN, pure_bind,
        addr_add_zero, List.drop_zero]
    | succ k =>
      have h : max (k + 1) 1 = k + 1 := by omega
      simp only [gt_iff_lt, Nat.succ_pos, if_true, h, take_drop_rest]

/-- `copy_after_shift(first, n, count, pos)` -/
theorem copyAfterShift_eq : @Gen.Helpers.copyAfterShift α = copyAfterShift := by
  funext vals n pos
  unfold Gen.Helpers.copyAfterShift copyAfterShift
  congr 1; funext b; split
  · simp only [List.take_length]
  · cases n with
    | zero =>
      simp only [Nat.lt_irrefl, gt_iff_lt, if_false, Nat.sub_zero, List.take_length, List.take_zero, copyN, pure_bind,
        addr_add_zero, List.drop_zero]
    | succ k =>
      have h : max (k + 1) 1 = k + 1 := by omega
      simp only [gt_iff_lt, Nat.succ_pos, if_true, h, take_drop_rest, List.take_length]

theorem destroyAfterShift_eq : @Gen.Helpers.destroyAfterShift α = destroyAfterShift := rfl

/-- `shift_left(first, n)` -/
theorem shiftLeft_eq : @Gen.Helpers.shiftLeft α = shiftLeft := by
  funext first n
  unfold Gen.Helpers.shiftLeft shiftLeft
  simp only [subA, ptrDiff, Addr.add, Nat.add_sub_add_left]

/-- `uninitialized_shift_left(first, n)` -/
theorem uninitShiftLeft_eq : @Gen.Helpers.uninitShiftLeft α = uninitShiftLeft := by
  funext first n
  unfold Gen.Helpers.uninitShiftLeft uninitShiftLeft
  simp only [subA, ptrDiff, Addr.add, Nat.add_sub_add_left]

/-- `erase_n(first, n, count)` -/
theorem eraseN_eq : @Gen.Helpers.eraseN α = eraseN := by
  funext first n count
  unfold Gen.Helpers.eraseN eraseN
  simp only [ptrDiff, Addr.add, Nat.add_sub_cancel_left]

/-- `erase_at(first, count)` -/
theorem eraseAt_eq : @Gen.Helpers.eraseAt α = eraseAt := by
  funext first count
  unfold Gen.Helpers.eraseAt eraseAt
  simp only [ptrDiff, Addr.add, Nat.add_sub_cancel_left]

theorem fillHelper_eq : @Gen.Helpers.fillHelper α = fillHelper := rfl

/-- `swap_deep(first1, count1, first2, count2)` -/
theorem swapDeep_eq : @Gen.Helpers.swapDeep α = swapDeep := by
  funext f1 c1 f2 c2
  unfold Gen.Helpers.swapDeep swapDeep
  simp only [ptrDiff, Addr.add, Nat.add_sub_cancel_left]

/-- `move_n(first, n, d_first, d_n)` -/
theorem moveN_eq : @Gen.Helpers.moveN α = moveN := by
  funext first n dFirst dN
  unfold Gen.Helpers.moveN moveN
  simp only [ptrDiff, Addr.add, Nat.add_sub_cancel_left]

/-- `assign_after_shift(pos, v)` -/
theorem assignAfterShift_eq : @Gen.Helpers.assignAfterShift α = assignAfterShift := by
  funext pos v
  cases v <;> rfl

theorem relocateAfterShift_eq : @Gen.Helpers.relocateAfterShift α = relocateAfterShift := rfl

/-- `insert_n(pos, n, v)` -/
theorem insertN_eq : @Gen.Helpers.insertN α = insertN := by
  funext pos n v
  unfold Gen.Helpers.insertN insertN
  cases v <;> dsimp only <;> split
  · rfl
  · rename_i h; rw [shiftRight1_eq _ _ h, assignAfterShift_eq, shiftLeft_eq]; rfl
  · rfl
  · rename_i h; rw [shiftRight1_eq _ _ h, assignAfterShift_eq, shiftLeft_eq]; rfl

/-- `emplace_n(pos, n, args...)`: the handler around `relocate_after_shift` is dead code -/
theorem emplaceN_eq : @Gen.Helpers.emplaceN α = emplaceN := by
  funext pos n v
  unfold Gen.Helpers.emplaceN emplaceN
  cases v <;> dsimp only <;> split
  · rfl
  · rename_i h
    rw [shiftRight1_eq _ _ h, relocateAfterShift_eq, tryCatch_noexc (ne_relocateAfterShift _ _) (fun _ _ => rfl)]
    rfl
  · rfl
  · rename_i h
    rw [shiftRight1_eq _ _ h, relocateAfterShift_eq, tryCatch_noexc (ne_relocateAfterShift _ _) (fun _ _ => rfl)]
    rfl

/-- `address_after_shift(v, pos, n, count)` -/
theorem addressAfterShift_eq : @Gen.Helpers.addressAfterShift α = addressAfterShift := by
  funext v pos n count
  cases v with
  | lit x => simp [Gen.Helpers.addressAfterShift, addressAfterShift, refGe, refLt]
  | «at» a =>
    simp only [Gen.Helpers.addressAfterShift, addressAfterShift, refGe, refLt, refAdd, Addr.add,
      Bool.and_eq_true, decide_eq_true_eq, beq_iff_eq]
    by_cases h1 : a.r = pos.r <;> by_cases h2 : pos.i ≤ a.i <;> by_cases h3 : a.i < pos.i + n <;> simp [h1, h2, h3]

end AmcVerif.HelpersBridge
