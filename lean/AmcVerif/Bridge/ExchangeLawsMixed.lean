import AmcVerif.Lemmas.VecSwap2
import AmcVerif.Bridge.VecLawsU8
import AmcVerif.Bridge.VecLawsU16
import AmcVerif.Bridge.VecLawsU32
import AmcVerif.Bridge.VecLawsU64
/-! The law packages `swap2_post` (Lemmas/VecSwap2.lean) needs, for pairs of vectors of DIFFERENT type, over the generated
base-class members: per operand `VecLaws` (Bridge/VecLaws*.lean) and `NullAt0`; per ordered pair `ExchangeLaws` — the words
`⟨capacity, size, pointer⟩` written by the branch of `swap2_impl` that exchanges the heap buffers satisfy the invariant of the
receiving flavour / inline capacity / size type and decode to the same size, capacity and buffer. `ExchangeLaws` is derived in
VecSwap2.lean from `SmallLaws.grownRep` (SmallVector side) and the `StdLaws` accessors (`amc::vector` side); it is vacuous when a
side is a FixedCapacityVector (`canSwapDynStorage` is false). -/
namespace AmcVerif.Bridge.Mixed
open AmcVerif

/-! ### per operand: the word laws of the generated members behind a `Cfg` -/

theorem smallLaws_U8 (cfg : Cfg) (hops : cfg.ops = Gen.U8.svbOps) (hN : cfg.n < Gen.U8.kMax) (hN0 : 0 < cfg.n) :
    SmallLaws cfg.ops cfg.n := hops ▸ U8.svb_laws cfg.n hN hN0
theorem smallLaws_U16 (cfg : Cfg) (hops : cfg.ops = Gen.U16.svbOps) (hN : cfg.n < Gen.U16.kMax) (hN0 : 0 < cfg.n) :
    SmallLaws cfg.ops cfg.n := hops ▸ U16.svb_laws cfg.n hN hN0
theorem smallLaws_U32 (cfg : Cfg) (hops : cfg.ops = Gen.U32.svbOps) (hN : cfg.n < Gen.U32.kMax) (hN0 : 0 < cfg.n) :
    SmallLaws cfg.ops cfg.n := hops ▸ U32.svb_laws cfg.n hN hN0
theorem smallLaws_U64 (cfg : Cfg) (hops : cfg.ops = Gen.U64.svbOps) (hN : cfg.n < Gen.U64.kMax) (hN0 : 0 < cfg.n) :
    SmallLaws cfg.ops cfg.n := hops ▸ U64.svb_laws cfg.n hN hN0

theorem stdLaws_U8 (cfg : Cfg) (hops : cfg.ops = Gen.U8.dvbOps) : StdLaws cfg.ops := hops ▸ U8.dvb_stdLaws
theorem stdLaws_U16 (cfg : Cfg) (hops : cfg.ops = Gen.U16.dvbOps) : StdLaws cfg.ops := hops ▸ U16.dvb_stdLaws
theorem stdLaws_U32 (cfg : Cfg) (hops : cfg.ops = Gen.U32.dvbOps) : StdLaws cfg.ops := hops ▸ U32.dvb_stdLaws
theorem stdLaws_U64 (cfg : Cfg) (hops : cfg.ops = Gen.U64.dvbOps) : StdLaws cfg.ops := hops ▸ U64.dvb_stdLaws

/-- a FixedCapacityVector has no heap storage at all -/
theorem nullAt0_fixed_U8 (cfg : Cfg) (hops : cfg.ops = Gen.U8.fvbOps) (Ok : VB → Prop) : NullAt0 cfg Ok :=
  NullAt0.ofInline (fun w => by rw [hops]; rfl)
theorem nullAt0_fixed_U16 (cfg : Cfg) (hops : cfg.ops = Gen.U16.fvbOps) (Ok : VB → Prop) : NullAt0 cfg Ok :=
  NullAt0.ofInline (fun w => by rw [hops]; rfl)
theorem nullAt0_fixed_U32 (cfg : Cfg) (hops : cfg.ops = Gen.U32.fvbOps) (Ok : VB → Prop) : NullAt0 cfg Ok :=
  NullAt0.ofInline (fun w => by rw [hops]; rfl)
theorem nullAt0_fixed_U64 (cfg : Cfg) (hops : cfg.ops = Gen.U64.fvbOps) (Ok : VB → Prop) : NullAt0 cfg Ok :=
  NullAt0.ofInline (fun w => by rw [hops]; rfl)

/-! ### per ordered pair: `ExchangeLaws` -/

/-- (SmallVector U32, SmallVector U32), any two inline capacities -/
theorem exch_smallU32_smallU32 (ca cb : Cfg) (hfa : ca.flavour = .small) (hfb : cb.flavour = .small)
    (hoa : ca.ops = Gen.U32.svbOps) (hob : cb.ops = Gen.U32.svbOps)
    (hNa : ca.n < Gen.U32.kMax) (hNa0 : 0 < ca.n) (hNb : cb.n < Gen.U32.kMax) (hNb0 : 0 < cb.n) :
    ExchangeLaws ca cb (SOkW ca.ops ca.n) (SOkW cb.ops cb.n) :=
  ExchangeLaws.small_small (P := fun _ => True) hfa hfb (smallLaws_U32 ca hoa hNa hNa0) (smallLaws_U32 cb hob hNb hNb0)

/-- (SmallVector U8, SmallVector U32): different size types -/
theorem exch_smallU8_smallU32 (ca cb : Cfg) (hfa : ca.flavour = .small) (hfb : cb.flavour = .small)
    (hoa : ca.ops = Gen.U8.svbOps) (hob : cb.ops = Gen.U32.svbOps)
    (hNa : ca.n < Gen.U8.kMax) (hNa0 : 0 < ca.n) (hNb : cb.n < Gen.U32.kMax) (hNb0 : 0 < cb.n) :
    ExchangeLaws ca cb (SOkW ca.ops ca.n) (SOkW cb.ops cb.n) :=
  ExchangeLaws.small_small (P := fun _ => True) hfa hfb (smallLaws_U8 ca hoa hNa hNa0) (smallLaws_U32 cb hob hNb hNb0)

/-- (SmallVector U32, SmallVector U8) -/
theorem exch_smallU32_smallU8 (ca cb : Cfg) (hfa : ca.flavour = .small) (hfb : cb.flavour = .small)
    (hoa : ca.ops = Gen.U32.svbOps) (hob : cb.ops = Gen.U8.svbOps)
    (hNa : ca.n < Gen.U32.kMax) (hNa0 : 0 < ca.n) (hNb : cb.n < Gen.U8.kMax) (hNb0 : 0 < cb.n) :
    ExchangeLaws ca cb (SOkW ca.ops ca.n) (SOkW cb.ops cb.n) :=
  ExchangeLaws.small_small (P := fun _ => True) hfa hfb (smallLaws_U32 ca hoa hNa hNa0) (smallLaws_U8 cb hob hNb hNb0)

/-- (SmallVector U8, amc::vector U32) -/
theorem exch_smallU8_stdU32 (ca cb : Cfg) (hfa : ca.flavour = .small) (hfb : cb.flavour = .std)
    (hoa : ca.ops = Gen.U8.svbOps) (hob : cb.ops = Gen.U32.dvbOps) (hNa : ca.n < Gen.U8.kMax) (hNa0 : 0 < ca.n) :
    ExchangeLaws ca cb (SOkW ca.ops ca.n) (DOkW cb.ops.kMax) :=
  ExchangeLaws.small_std (P := fun _ => True) hfa hfb (smallLaws_U8 ca hoa hNa hNa0) (stdLaws_U32 cb hob)

/-- (amc::vector U32, SmallVector U8) -/
theorem exch_stdU32_smallU8 (ca cb : Cfg) (hfa : ca.flavour = .std) (hfb : cb.flavour = .small)
    (hoa : ca.ops = Gen.U32.dvbOps) (hob : cb.ops = Gen.U8.svbOps) (hNb : cb.n < Gen.U8.kMax) (hNb0 : 0 < cb.n) :
    ExchangeLaws ca cb (DOkW ca.ops.kMax) (SOkW cb.ops cb.n) :=
  ExchangeLaws.std_small (P := fun _ => True) hfa hfb (stdLaws_U32 ca hoa) (smallLaws_U8 cb hob hNb hNb0)

/-- (amc::vector U32, amc::vector U32) -/
theorem exch_stdU32_stdU32 (ca cb : Cfg) (hoa : ca.ops = Gen.U32.dvbOps) (hob : cb.ops = Gen.U32.dvbOps) :
    ExchangeLaws ca cb (DOkW ca.ops.kMax) (DOkW cb.ops.kMax) :=
  ExchangeLaws.std_std (P := fun _ => True) (stdLaws_U32 ca hoa) (stdLaws_U32 cb hob)

/-- (amc::vector U64, amc::vector U16): different size types -/
theorem exch_stdU64_stdU16 (ca cb : Cfg) (hoa : ca.ops = Gen.U64.dvbOps) (hob : cb.ops = Gen.U16.dvbOps) :
    ExchangeLaws ca cb (DOkW ca.ops.kMax) (DOkW cb.ops.kMax) :=
  ExchangeLaws.std_std (P := fun _ => True) (stdLaws_U64 ca hoa) (stdLaws_U16 cb hob)

end AmcVerif.Bridge.Mixed
