import AmcVerif.Bridge.VecGlueBridge
/-! The generated read-only accessors and comparisons of the vectors (`Gen/VecGlue.lean`: `at`, `operator[]`, `front`, `back`,
`data`, `empty`, `max_size`, `operator==`, `!=`, `<`, `<=`, `>`, `>=`, regenerated from `vectorcommon.hpp` by
`translator/glue2lean.py`) equal the hand-written ones of `Model/Vec.lean`.

* `rfl`: `atIdx_eq`, `index_eq`, `front_eq`, `back_eq`, `isEmpty_eq`.
* `dataPtr_eq`, `vecGreater_eq`: `pure (← x)` is `x`.
* `maxSize_eq`: the `DynamicVector` member is the `cfg.dynamic` branch, the `StaticVector` member the else branch.
* `vecEqual_eq`: the source reads `size()` elements from `o.begin()` on after the test `size() == o.size()`, the hand-written
  model the elements of `o` (`elems`): function equality, by running both on an arbitrary memory. `vecLess_eq`: `elems` is the
  pointer range `[begin(), end())` (`elems_eq`). The operators defined through `==` / `<` follow. -/
namespace AmcVerif.GlueBridge
open AmcVerif
variable {α β γ : Type}
set_option linter.unusedSimpArgs false

theorem atIdx_eq : @Gen.Glue.atIdx α = atIdx := rfl
theorem index_eq : @Gen.Glue.index α = index := rfl
theorem front_eq : @Gen.Glue.front α = front := rfl
theorem back_eq : @Gen.Glue.back α = back := rfl
theorem isEmpty_eq : @Gen.Glue.isEmpty α = isEmpty := rfl

theorem dataPtr_eq : @Gen.Glue.dataPtr α = dataPtr := by
  funext cfg c
  unfold Gen.Glue.dataPtr dataPtr
  simp only [bind_pure]

theorem maxSize_eq (cfg : Cfg) (c : Nat) : maxSize (α := α) cfg c =
    if cfg.dynamic then Gen.Glue.dynMaxSize cfg c else Gen.Glue.staticMaxSize cfg c := by
  unfold maxSize Gen.Glue.dynMaxSize Gen.Glue.staticMaxSize
  simp only [bind_pure]

theorem vecLess_eq : @Gen.Glue.vecLess α = vecLess := by
  funext ltT cfg c o
  unfold Gen.Glue.vecLess vecLess
  rw [elems_eq, elems_eq]
  simp only [bind_assoc]

theorem vecGreater_eq : @Gen.Glue.vecGreater α = vecGreater := by
  funext ltT cfg c o
  unfold Gen.Glue.vecGreater vecGreater
  rw [vecLess_eq]

theorem vecLessEq_eq : @Gen.Glue.vecLessEq α = vecLessEq := by
  funext ltT cfg c o
  unfold Gen.Glue.vecLessEq vecLessEq
  rw [vecLess_eq]

theorem vecGreaterEq_eq : @Gen.Glue.vecGreaterEq α = vecGreaterEq := by
  funext ltT cfg c o
  unfold Gen.Glue.vecGreaterEq vecGreaterEq
  rw [vecLess_eq]

theorem vecEqual_eq : @Gen.Glue.vecEqual α = vecEqual := by
  funext eqT cfg c o; apply M_ext; intro m
  unfold Gen.Glue.vecEqual vecEqual elems Gen.Glue.ptrRange
  glue_unfold
  cases h : m.ws[c]? with
  | none => glue_run [h]
  | some w =>
    cases h' : m.ws[o]? with
    | none => glue_run [h, h']
    | some w' =>
      glue_run [h, h', Addr.add, Nat.add_sub_cancel_left]
      split
      · rename_i heq; rw [← heq]
      · rfl

theorem vecNotEqual_eq : @Gen.Glue.vecNotEqual α = vecNotEqual := by
  funext eqT cfg c o
  unfold Gen.Glue.vecNotEqual vecNotEqual
  rw [vecEqual_eq]

end AmcVerif.GlueBridge
