import AmcVerif.Gen.SmallSetGen
import AmcVerif.Model.Sets
import AmcVerif.Lemmas.SmallSetInv
/-! Tie between `include/amc/smallset.hpp` and the hand-written SmallSet model (`Model/Sets.lean`, `SSet`).

`Gen/SmallSetGen.lean` is regenerated from the header by `translator/smallset2lean.py` on every run (from two instantiations,
`SetType = amc::FlatSet<int>` and `SetType = std::set<int>`, which have to give the same text).  The theorems below state that
each generated function (a) never reaches undefined behaviour (its result is `some _`) and (b) computes exactly what the
hand-written model computes: the state `(vec, set)`, the returned iterator (which container, which index) / flag / count,
and the number of comparator calls made by the inline scan.

The only hypothesis that is ever needed is `s.set ≠ [] → s.vec = []` (field `excl` of the model invariant `SSet.Inv`), and only
for the mutators: in the large state the hand-written model *rebuilds* the state as `⟨[], set'⟩`, whereas the source leaves
`_vec` untouched.  The two agree exactly when `_vec` is empty whenever `_set` is not. -/
namespace AmcVerif.Bridge.SmallSet
open AmcVerif AmcVerif.FS AmcVerif.Sets
variable {α : Type} {lt : α → α → Bool}

/-! ### the inline scan -/

/-- the scan model is the `std::find_if` loop with the *generated* functor: one step of `findSmall` calls
    `FindFunctor::operator()` on the head and stops when it answers true -/
theorem findSmall_cons (lt : α → α → Bool) (o : α) (rest : List α) (k : α) (i : Nat) :
    findSmall lt (o :: rest) k i
      = match Gen.SmallSet.FindFunctor_call lt k o with
        | some (true, c) => (some i, c)
        | some (false, c) => ((findSmall lt rest k (i + 1)).1, (findSmall lt rest k (i + 1)).2 + c)
        | none => (none, 0) := by
  unfold Gen.SmallSet.FindFunctor_call
  rw [findSmall]
  cases lt k o <;> cases lt o k <;> simp

/-- an index found by the scan designates an element of the scanned range -/
theorem findSmall_range (lt : α → α → Bool) (vec : List α) (k : α) :
    ∀ i j, (findSmall lt vec k i).1 = some j → i ≤ j ∧ j < i + vec.length := by
  induction vec with
  | nil => intro i j h; simp [findSmall] at h
  | cons o rest ih =>
    intro i j h
    rw [findSmall] at h
    cases h1 : lt k o
    · cases h2 : lt o k
      · simp [h1, h2] at h; simp only [List.length_cons]; omega
      · simp only [h1, h2, Bool.false_eq_true, if_false, if_true] at h
        have := ih (i + 1) j h
        simp only [List.length_cons]; omega
    · simp only [h1, if_true] at h
      have := ih (i + 1) j h
      simp only [List.length_cons]; omega

/-- the iterator returned by the scan is `end()` exactly when the model says "absent" -/
theorem getD_eq_length_iff (lt : α → α → Bool) (vec : List α) (k : α) :
    ((findSmall lt vec k 0).1.getD vec.length = vec.length) ↔ (findSmall lt vec k 0).1 = none := by
  cases h : (findSmall lt vec k 0).1 with
  | none => simp
  | some j =>
    have := findSmall_range lt vec k 0 j h
    simp only [Option.getD_some, reduceCtorEq, iff_false]
    omega

/-- number of comparator calls made by SmallSet's own code for a key: the inline scan, in the small state -/
def scanCalls (lt : α → α → Bool) (s : SSet α) (k : α) : Nat :=
  if s.isSmall then (findSmall lt s.vec k 0).2 else 0

/-! ### state tests, `grow`, the private lookups -/

/-- `isSmall()` is decided in the source by `_set.empty()`: literally the model's `SSet.isSmall` -/
theorem isSmall_eq (lt : α → α → Bool) (N : Nat) (s : SSet α) :
    Gen.SmallSet.isSmall lt N s = some (s.isSmall, 0) := rfl

theorem isSmallContFull_eq (lt : α → α → Bool) (N : Nat) (s : SSet α) :
    Gen.SmallSet.isSmallContFull lt N s = some (decide (s.vec.length = N), 0) := rfl

theorem grow_eq (lt : α → α → Bool) (N : Nat) (s : SSet α) :
    Gen.SmallSet.grow lt N s = some (s.grow lt, (), 0) := rfl

theorem find_small_eq (lt : α → α → Bool) (N : Nat) (s : SSet α) (k : α) :
    Gen.SmallSet.find_small lt N s k
      = some ((findSmall lt s.vec k 0).1.getD s.vec.length, (findSmall lt s.vec k 0).2) := rfl

theorem mfind_small_eq (lt : α → α → Bool) (N : Nat) (s : SSet α) (k : α) :
    Gen.SmallSet.mfind_small lt N s k
      = some (s, (findSmall lt s.vec k 0).1.getD s.vec.length, (findSmall lt s.vec k 0).2) := rfl

/-! ### `insert` -/

/-- the result of the model's `insert` in the shape of the generated functions:
    (state, ((iterator into the inline vector?, index), inserted), calls of the inline scan).
    The model's fourth component (the call count, an `Option`) is `some _` exactly when the call stays in the inline state,
    which is when the returned iterator is an iterator of the inline vector. -/
def insertR (lt : α → α → Bool) (N : Nat) (s : SSet α) (v : α) : SSet α × ((Bool × Nat) × Bool) × Nat :=
  ((s.insert lt N v).1,
   (((s.insert lt N v).2.2.2.isSome, (s.insert lt N v).2.1), (s.insert lt N v).2.2.1),
   scanCalls lt s v)

/-- where the model has a call count, it is the count of the generated function -/
theorem insert_calls (lt : α → α → Bool) (N : Nat) (s : SSet α) (v : α) (c : Nat)
    (h : (s.insert lt N v).2.2.2 = some c) : scanCalls lt s v = c := by
  unfold SSet.insert at h
  unfold scanCalls
  cases hs : s.isSmall
  · simp [hs] at h
  · simp only [hs, if_true] at h ⊢
    generalize findSmall lt s.vec v 0 = p at h ⊢
    obtain ⟨r, c'⟩ := p
    cases r with
    | some i => simpa using h
    | none =>
      by_cases hf : s.vec.length = N
      · simp [hf] at h
      · simpa [hf] using h

theorem insert_small_eq (lt : α → α → Bool) (N : Nat) (s : SSet α) (v : α) (hs : s.isSmall = true) :
    Gen.SmallSet.insert_small lt N s v = some (insertR lt N s v) := by
  have hiff := getD_eq_length_iff lt s.vec v
  have hset : s.set = [] := by simpa [SSet.isSmall] using hs
  unfold Gen.SmallSet.insert_small insertR SSet.insert scanCalls
  rw [mfind_small_eq]
  simp only [hs, if_true, isSmallContFull_eq, grow_eq]
  generalize findSmall lt s.vec v 0 = p at hiff ⊢
  obtain ⟨r, c⟩ := p
  cases r with
  | some i =>
    have hne : ¬ (i = s.vec.length) := by simpa using hiff
    simp [hne]
  | none =>
    by_cases hf : s.vec.length = N
    · simp [hf, SSet.grow]
    · simp [hf, hset]

theorem insert_small_rv_eq (lt : α → α → Bool) (N : Nat) (s : SSet α) (v : α) (hs : s.isSmall = true) :
    Gen.SmallSet.insert_small_rv lt N s v = some (insertR lt N s v) := by
  have hiff := getD_eq_length_iff lt s.vec v
  have hset : s.set = [] := by simpa [SSet.isSmall] using hs
  unfold Gen.SmallSet.insert_small_rv insertR SSet.insert scanCalls
  rw [mfind_small_eq]
  simp only [hs, if_true, isSmallContFull_eq, grow_eq]
  generalize findSmall lt s.vec v 0 = p at hiff ⊢
  obtain ⟨r, c⟩ := p
  cases r with
  | some i =>
    have hne : ¬ (i = s.vec.length) := by simpa using hiff
    simp [hne]
  | none =>
    by_cases hf : s.vec.length = N
    · simp [hf, SSet.grow]
    · simp [hf, hset]

theorem insert_set_eq (lt : α → α → Bool) (N : Nat) (s : SSet α) (v : α) (hs : s.isSmall = false)
    (hx : s.set ≠ [] → s.vec = []) :
    Gen.SmallSet.insert_set lt N s v = some (insertR lt N s v) := by
  have hne : s.set ≠ [] := by
    intro h; simp [SSet.isSmall, h] at hs
  unfold Gen.SmallSet.insert_set insertR SSet.insert scanCalls
  simp [hs, hx hne]

theorem insert_set_rv_eq (lt : α → α → Bool) (N : Nat) (s : SSet α) (v : α) (hs : s.isSmall = false)
    (hx : s.set ≠ [] → s.vec = []) :
    Gen.SmallSet.insert_set_rv lt N s v = some (insertR lt N s v) := by
  have hne : s.set ≠ [] := by
    intro h; simp [SSet.isSmall, h] at hs
  unfold Gen.SmallSet.insert_set_rv insertR SSet.insert scanCalls
  simp [hs, hx hne]

/-- `insert(const T&)` (smallset.hpp:290) -/
theorem insert_eq (lt : α → α → Bool) (N : Nat) (s : SSet α) (v : α) (hx : s.set ≠ [] → s.vec = []) :
    Gen.SmallSet.insert lt N s v = some (insertR lt N s v) := by
  unfold Gen.SmallSet.insert
  rw [isSmall_eq]
  cases hs : s.isSmall
  · simp [insert_set_eq lt N s v hs hx]
  · simp [insert_small_eq lt N s v hs]

/-- `insert(T&&)` (smallset.hpp:292) -/
theorem insert_rv_eq (lt : α → α → Bool) (N : Nat) (s : SSet α) (v : α) (hx : s.set ≠ [] → s.vec = []) :
    Gen.SmallSet.insert_rv lt N s v = some (insertR lt N s v) := by
  unfold Gen.SmallSet.insert_rv
  rw [isSmall_eq]
  cases hs : s.isSmall
  · simp [insert_set_rv_eq lt N s v hs hx]
  · simp [insert_small_rv_eq lt N s v hs]

/-- `emplace(args...)` (smallset.hpp:343), instantiated with one argument of the element type: in the inline non-full state
    it appends first, scans the old elements and pops the new one again when an equivalent element is found; the outcome
    is that of `insert` -/
theorem emplace_eq (lt : α → α → Bool) (N : Nat) (s : SSet α) (v : α) (hx : s.set ≠ [] → s.vec = []) :
    Gen.SmallSet.emplace lt N s v = some (insertR lt N s v) := by
  unfold Gen.SmallSet.emplace
  rw [isSmall_eq, isSmallContFull_eq]
  cases hs : s.isSmall
  · have hne : s.set ≠ [] := by
      intro h; simp [SSet.isSmall, h] at hs
    simp [insertR, SSet.insert, scanCalls, hs, hx hne]
  · by_cases hf : s.vec.length = N
    · simp [hf, insert_rv_eq lt N s v hx]
    · have hiff := getD_eq_length_iff lt s.vec v
      have hset : s.set = [] := by simpa [SSet.isSmall] using hs
      obtain ⟨vec, st⟩ := s
      simp only at hset hf hiff
      subst hset
      simp only [hf, decide_false, Bool.false_eq_true, if_false, if_true, List.getElem?_concat_length,
        List.take_left', insertR, SSet.insert, scanCalls, hs]
      generalize findSmall lt vec v 0 = p at hiff ⊢
      obtain ⟨r, c⟩ := p
      cases r with
      | some i =>
        have hne : ¬ (i = vec.length) := by simpa using hiff
        simp [hne]
      | none => simp

/-! ### lookups -/

/-- the result of the model's `find` in the shape of the generated function: the iterator is an iterator of the container
    in use, its index is the index found or the length of that container (`end()`) -/
def findR (lt : α → α → Bool) (s : SSet α) (k : α) : (Bool × Nat) × Nat :=
  ((s.isSmall, (s.find lt k).1.getD s.elems.length), scanCalls lt s k)

theorem find_calls (lt : α → α → Bool) (s : SSet α) (k : α) (c : Nat) (h : (s.find lt k).2 = some c) :
    scanCalls lt s k = c := by
  unfold SSet.find at h
  unfold scanCalls
  cases hs : s.isSmall <;> simp [hs] at h ⊢
  exact h

theorem find_eq (lt : α → α → Bool) (N : Nat) (s : SSet α) (k : α) :
    Gen.SmallSet.find lt N s k = some (findR lt s k) := by
  unfold Gen.SmallSet.find findR SSet.find SSet.elems scanCalls
  rw [isSmall_eq, find_small_eq]
  cases hs : s.isSmall <;> simp

theorem contains_eq (lt : α → α → Bool) (N : Nat) (s : SSet α) (k : α) :
    Gen.SmallSet.contains lt N s k = some ((s.find lt k).1.isSome, scanCalls lt s k) := by
  have hiff := getD_eq_length_iff lt s.vec k
  unfold Gen.SmallSet.contains SSet.find scanCalls
  rw [isSmall_eq, find_small_eq]
  cases hs : s.isSmall
  · simp
  · simp only [if_true]
    cases hf : (findSmall lt s.vec k 0).1 with
    | none => simp
    | some i =>
      rw [hf] at hiff
      have hne : ¬ (i = s.vec.length) := by simpa using hiff
      simp [hne]

theorem count_eq (lt : α → α → Bool) (N : Nat) (s : SSet α) (k : α) :
    Gen.SmallSet.count lt N s k = some ((if (s.find lt k).1.isSome then 1 else 0), scanCalls lt s k) := by
  unfold Gen.SmallSet.count
  rw [contains_eq]
  cases (s.find lt k).1.isSome <;> simp

/-! ### `erase(key)` -/

theorem erase_eq (lt : α → α → Bool) (N : Nat) (s : SSet α) (k : α) (hx : s.set ≠ [] → s.vec = []) :
    Gen.SmallSet.erase lt N s k = some ((s.eraseKey lt k).1, (s.eraseKey lt k).2, scanCalls lt s k) := by
  unfold Gen.SmallSet.erase SSet.eraseKey scanCalls
  rw [isSmall_eq, mfind_small_eq]
  cases hs : s.isSmall
  · have hne : s.set ≠ [] := by
      intro h; simp [SSet.isSmall, h] at hs
    simp [hx hne]
  · have hset : s.set = [] := by simpa [SSet.isSmall] using hs
    have hiff := getD_eq_length_iff lt s.vec k
    simp only [if_true]
    cases hf : (findSmall lt s.vec k 0).1 with
    | none => simp
    | some i =>
      have hr := findSmall_range lt s.vec k 0 i hf
      have hne : ¬ (i = s.vec.length) := by omega
      have hlt : i < s.vec.length := by omega
      simp [hne, hlt, hset]

/-! ### `erase(position)`, both overloads

Hypotheses `pos.1 = s.isSmall` and `pos.2 < s.elems.length`: the precondition of the C++ function (`pos` is a valid
dereferenceable iterator of this set).  Without them the generated functions return `none`: a pointer into the other
container / `std::get` on the wrong alternative of the variant, or `erase(end())`. -/

/-- `end()` of a set -/
def endIt (s : SSet α) : Bool × Nat := (s.isSmall, s.elems.length)

/-- the model's `eraseIdx` with the iterator returned by the source: the position of the former successor, or `end()` of
    the resulting set when nothing follows — also when the last element of a large set is removed and the set switches
    back to the inline state (whose `end()` is another iterator) -/
def eraseAtR (s : SSet α) (i : Nat) : SSet α × (Bool × Nat) × Nat :=
  (s.eraseIdx i, (if i < (s.eraseIdx i).elems.length then ((s.eraseIdx i).isSmall, i) else endIt (s.eraseIdx i)), 0)

theorem erase_at_ptr_eq (lt : α → α → Bool) (N : Nat) (s : SSet α) (hx : s.set ≠ [] → s.vec = []) (pos : Bool × Nat)
    (hp : pos.1 = s.isSmall) (hi : pos.2 < s.elems.length) :
    Gen.SmallSet.erase_at_ptr lt N s pos = some (eraseAtR s pos.2) := by
  obtain ⟨b, i⟩ := pos
  simp only at hp hi
  subst hp
  unfold Gen.SmallSet.erase_at_ptr eraseAtR endIt SSet.eraseIdx
  simp only [isSmall_eq]
  unfold SSet.elems at hi ⊢
  cases hs : s.isSmall
  · have hne : s.set ≠ [] := by
      intro h; simp [SSet.isSmall, h] at hs
    have hv := hx hne
    simp only [hs, Bool.false_eq_true, if_false] at hi
    have hlen : (s.set.eraseIdx i).length = s.set.length - 1 := List.length_eraseIdx_of_lt hi
    simp only [Bool.false_eq_true, if_false, hi, if_true, hv, SSet.isSmall]
    cases he : s.set.eraseIdx i with
    | nil => simp
    | cons a t =>
      rw [he] at hlen
      simp only [List.isEmpty_cons, Bool.false_eq_true, if_false]
      by_cases hlt : i < (a :: t).length
      · rw [if_pos hlt]
      · rw [if_neg hlt]
        have : i = (a :: t).length := by omega
        rw [← this]
  · have hset : s.set = [] := by simpa [SSet.isSmall] using hs
    simp only [hs, if_true] at hi
    have hlen : (s.vec.eraseIdx i).length = s.vec.length - 1 := List.length_eraseIdx_of_lt hi
    simp only [if_true, hi, hset, SSet.isSmall, List.isEmpty_nil]
    by_cases hlt : i < (s.vec.eraseIdx i).length
    · rw [if_pos hlt]
    · rw [if_neg hlt]
      have : i = (s.vec.eraseIdx i).length := by omega
      rw [← this]

theorem erase_at_var_eq (lt : α → α → Bool) (N : Nat) (s : SSet α) (hx : s.set ≠ [] → s.vec = []) (pos : Bool × Nat)
    (hp : pos.1 = s.isSmall) (hi : pos.2 < s.elems.length) :
    Gen.SmallSet.erase_at_var lt N s pos = some (eraseAtR s pos.2) := by
  obtain ⟨b, i⟩ := pos
  simp only at hp hi
  subst hp
  unfold Gen.SmallSet.erase_at_var eraseAtR endIt SSet.eraseIdx
  simp only [isSmall_eq]
  unfold SSet.elems at hi ⊢
  cases hs : s.isSmall
  · have hne : s.set ≠ [] := by
      intro h; simp [SSet.isSmall, h] at hs
    have hv := hx hne
    simp only [hs, Bool.false_eq_true, if_false] at hi
    have hlen : (s.set.eraseIdx i).length = s.set.length - 1 := List.length_eraseIdx_of_lt hi
    simp only [Bool.false_eq_true, if_false, hi, if_true, hv, SSet.isSmall]
    cases he : s.set.eraseIdx i with
    | nil => simp
    | cons a t =>
      rw [he] at hlen
      simp only [List.isEmpty_cons, Bool.false_eq_true, if_false]
      by_cases hlt : i < (a :: t).length
      · rw [if_pos hlt]
      · rw [if_neg hlt]
        have : i = (a :: t).length := by omega
        rw [← this]
  · have hset : s.set = [] := by simpa [SSet.isSmall] using hs
    simp only [hs, if_true] at hi
    have hlen : (s.vec.eraseIdx i).length = s.vec.length - 1 := List.length_eraseIdx_of_lt hi
    simp only [if_true, hi, hset, SSet.isSmall, List.isEmpty_nil]
    by_cases hlt : i < (s.vec.eraseIdx i).length
    · rw [if_pos hlt]
    · rw [if_neg hlt]
      have : i = (s.vec.eraseIdx i).length := by omega
      rw [← this]

/-! ### `clear`, `size`, `empty` (the model has `size` only) -/

theorem size_eq (lt : α → α → Bool) (N : Nat) (s : SSet α) :
    Gen.SmallSet.size lt N s = some (s.size, 0) := by
  unfold Gen.SmallSet.size SSet.size SSet.elems
  rw [isSmall_eq]
  cases s.isSmall <;> simp

theorem empty_eq (lt : α → α → Bool) (N : Nat) (s : SSet α) :
    Gen.SmallSet.empty lt N s = some (decide (s.size = 0), 0) := by
  unfold Gen.SmallSet.empty SSet.size SSet.elems SSet.isSmall
  cases hv : s.vec <;> cases hs : s.set <;> simp

theorem clear_eq (lt : α → α → Bool) (N : Nat) (s : SSet α) (hx : s.set ≠ [] → s.vec = []) :
    Gen.SmallSet.clear lt N s = some (⟨[], []⟩, (), 0) := by
  unfold Gen.SmallSet.clear
  rw [isSmall_eq]
  cases hs : s.isSmall
  · have hne : s.set ≠ [] := by
      intro h; simp [SSet.isSmall, h] at hs
    simp [hx hne]
  · have hset : s.set = [] := by simpa [SSet.isSmall] using hs
    simp [hset]

/-! ### `merge`

Hypotheses: the comparator is a strict weak order and `s` satisfies the model invariant.  They are needed for one step only:
when the loop makes `*this` grow (smallset.hpp:501-504) the source removes the element from `o` *unconditionally*, whereas the
hand-written model (which calls `SSet.insert` for every element) keeps it in `o` when the backing set answers "not
inserted".  That answer is impossible there — no inline element is equivalent to the value, and the grown set represents
exactly the inline elements — but this takes the invariant (sortedness) and the strict-weak-order laws.  `o.set ≠ [] → o.vec = []` is
needed for the large `o`: the model rebuilds `o` as `⟨[], rest⟩`, the source leaves `o._vec` untouched.  The source keeps
the state in a local flag (`small`) instead of re-deciding `isSmall()` for every element; the proof carries
`small = isSmall()` through the loop.  The model has no comparator-call count for `merge`: the count is existential. -/

/-- `FlatSet::insert_val` never leaves the set empty -/
theorem insertVal_nonempty (lt : α → α → Bool) (l : List α) (v : α) : ((insertVal lt l v).1).isEmpty = false := by
  have hins : (l.insertIdx (lowerIdx lt l v) v).isEmpty = false := by
    unfold lowerIdx
    rw [insertIdx_takeWhile]
    simp
  unfold insertVal
  cases hl : l[lowerIdx lt l v]? with
  | none => simp only [hl]; exact hins
  | some x =>
    have hne : l.isEmpty = false := by
      cases l with
      | nil => simp at hl
      | cons a t => rfl
    simp only [hl]
    cases lt v x
    · simpa using hne
    · simpa using hins

/-- one element of the model's merge loop -/
def mergeStepM (lt : α → α → Bool) (N : Nat) (acc : SSet α × List α) (v : α) : SSet α × List α :=
  let ins := acc.1.insert lt N v
  if ins.2.2.1 then (ins.1, acc.2) else (acc.1, acc.2 ++ [v])

/-- the generated loop body is one step of the model's loop, the local flag staying equal to `isSmall()` -/
theorem merge_step_eq (hswo : SWO lt) (N : Nat) (st : SSet α) (h : st.Inv lt N) (x : α) (kept : List α) :
    ∃ r, Gen.SmallSet.merge_step lt N st st.isSmall x = some r
      ∧ r.1 = (mergeStepM lt N (st, kept) x).1
      ∧ r.2.1 = r.1.isSmall
      ∧ (if r.2.2.1 then kept else kept ++ [x]) = (mergeStepM lt N (st, kept) x).2 := by
  have hnot := insert_not_inserted_iff hswo N st h x
  have hspec := findSmall_spec lt st.vec x 0
  unfold Gen.SmallSet.merge_step mergeStepM
  unfold SSet.insert at hnot ⊢
  unfold SSet.elems at hnot
  simp only [isSmallContFull_eq, grow_eq]
  cases hs : st.isSmall
  · have hne : st.set ≠ [] := by
      intro h0; simp [SSet.isSmall, h0] at hs
    have hv := h.excl hne
    simp only [Bool.false_eq_true, if_false]
    cases hins : (insertVal lt st.set x).2.2
    · have hnoop := insertVal_noop st.set x hins
      simp only [Bool.false_eq_true, if_false, hnoop]
      refine ⟨_, rfl, ?_, ?_, ?_⟩
      · cases st; rfl
      · simp [SSet.isSmall] at hs ⊢; exact hs
      · simp
    · simp only [if_true]
      refine ⟨_, rfl, ?_, ?_, ?_⟩
      · simp [hv]
      · simp [SSet.isSmall, insertVal_nonempty]
      · simp
  · have hset : st.set = [] := by simpa [SSet.isSmall] using hs
    simp only [hs, if_true] at hnot ⊢
    generalize findSmall lt st.vec x 0 = p at hnot hspec ⊢
    obtain ⟨r, c⟩ := p
    cases r with
    | some i =>
      simp only [Option.isNone_some, Bool.false_eq_true, if_false]
      exact ⟨_, rfl, rfl, hs.symm, by simp⟩
    | none =>
      simp only at hspec
      simp only [Option.isNone_none, if_true]
      by_cases hf : st.vec.length = N
      · simp only [hf, decide_true, if_true] at hnot ⊢
        have hins : (insertVal lt (st.grow lt).set x).2.2 = true := by
          cases hb : (insertVal lt (st.grow lt).set x).2.2 with
          | true => rfl
          | false => exact absurd (hnot.mp hb) hspec
        simp only [hins, if_true]
        refine ⟨_, rfl, ?_, ?_, ?_⟩
        · simp [SSet.grow]
        · simp [SSet.isSmall, insertVal_nonempty]
        · simp
      · simp only [hf, decide_false, Bool.false_eq_true, if_false, if_true]
        refine ⟨_, rfl, ?_, ?_, ?_⟩
        · simp [hset]
        · simp [SSet.isSmall, hset]
        · simp

/-- the invariant is kept along the model's loop -/
theorem mergeStepM_inv (hswo : SWO lt) (N : Nat) (st : SSet α) (h : st.Inv lt N) (x : α) (kept : List α) :
    (mergeStepM lt N (st, kept) x).1.Inv lt N := by
  unfold mergeStepM
  simp only
  split
  · exact insert_inv hswo N st h x
  · exact h

theorem foldStep_eq (hswo : SWO lt) (N : Nat) :
    ∀ (vs : List α) (st : SSet α) (kept : List α), st.Inv lt N →
      ∃ c, Gen.SmallSet.foldStep (Gen.SmallSet.merge_step lt N) vs st st.isSmall kept
        = some ((vs.foldl (mergeStepM lt N) (st, kept)).1, (vs.foldl (mergeStepM lt N) (st, kept)).1.isSmall,
                (vs.foldl (mergeStepM lt N) (st, kept)).2, c) := by
  intro vs
  induction vs with
  | nil => intro st kept _; exact ⟨0, rfl⟩
  | cons x rest ih =>
    intro st kept h
    obtain ⟨r, hr, h1, h2, h3⟩ := merge_step_eq hswo N st h x kept
    have hinv := mergeStepM_inv hswo N st h x kept
    rw [← h1] at hinv
    obtain ⟨c, hc⟩ := ih r.1 (if r.2.2.1 then kept else kept ++ [x]) hinv
    refine ⟨r.2.2.2 + c, ?_⟩
    rw [Gen.SmallSet.foldStep]
    simp only [hr, h2, hc, List.foldl_cons]
    have : mergeStepM lt N (st, kept) x = (r.1, if r.2.2.1 then kept else kept ++ [x]) := by
      rw [h1, h3]
    rw [this]

/-- `merge(o)` (smallset.hpp:488) -/
theorem merge_eq (hswo : SWO lt) (N : Nat) (s o : SSet α) (h : s.Inv lt N) (ho : o.set ≠ [] → o.vec = []) :
    ∃ c, Gen.SmallSet.merge lt N s o = some ((s.merge lt N o).1, (s.merge lt N o).2, (), c) := by
  unfold Gen.SmallSet.merge SSet.merge Gen.SmallSet.isSmallOf
  simp only [isSmall_eq, grow_eq]
  cases hos : o.isSmall
  · have hne : o.set ≠ [] := by
      intro h0; simp [SSet.isSmall, h0] at hos
    have hov := ho hne
    have hos' : o.set.isEmpty = false := by simpa [SSet.isSmall] using hos
    simp only [hos', Bool.false_eq_true, if_false, Bool.not_false, if_true]
    cases hs : s.isSmall
    · have hsne : s.set ≠ [] := by
        intro h0; simp [SSet.isSmall, h0] at hs
      exact ⟨0, by simp [h.excl hsne, hov]⟩
    · exact ⟨0, by simp [SSet.grow, hov]⟩
  · have hoset : o.set = [] := by simpa [SSet.isSmall] using hos
    obtain ⟨c, hc⟩ := foldStep_eq hswo N o.vec s [] h
    refine ⟨0 + c, ?_⟩
    simp only [Bool.not_true, Bool.false_eq_true, if_false, hc, hoset]
    rfl

end AmcVerif.Bridge.SmallSet
