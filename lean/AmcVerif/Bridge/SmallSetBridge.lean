import AmcVerif.Gen.SmallSetGen
import AmcVerif.Model.Sets
import AmcVerif.Lemmas.SmallSetInv
import AmcVerif.Bridge.FlatSetBridge
/-! Tie between `include/amc/smallset.hpp` and the hand-written SmallSet model (`Model/Sets.lean`, `SSet`).

`Gen/SmallSetGen.lean` is regenerated from the header by `translator/smallset2lean.py` on every run (from two instantiations,
`SetType = amc::FlatSet<int>` and `SetType = std::set<int>`, which have to give the same text).  The theorems below state that
each generated function (a) never reaches undefined behaviour (its result is `some _`) and (b) computes exactly what the
hand-written model computes: the state `(vec, set)`, the returned iterator (which container, which index) / flag / count,
and the number of comparator calls made by the inline scan.

The only hypothesis that is ever needed is `s.set ≠ [] → s.vec = []` (field `excl` of the model invariant `SSet.Inv`), and only
for the mutators: in the large state the hand-written model *rebuilds* the state as `⟨[], set'⟩`, whereas the source leaves
`_vec` untouched.  The two agree exactly when `_vec` is empty whenever `_set` is not. -/
namespace AmcVerif.Bridge.SmallSet
open AmcVerif AmcVerif.FS AmcVerif.Sets
variable {α : Type} {lt : α → α → Bool}

/-! ### the inline scan -/

/-- the scan model is the `std::find_if` loop with the *generated* functor: one step of `findSmall` calls
    `FindFunctor::operator()` on the head and stops when it answers true -/
theorem findSmall_cons (lt : α → α → Bool) (o : α) (rest : List α) (k : α) (i : Nat) :
    findSmall lt (o :: rest) k i
      = match Gen.SmallSet.FindFunctor_call lt k o with
        | some (true, c) => (some i, c)
        | some (false, c) => ((findSmall lt rest k (i + 1)).1, (findSmall lt rest k (i + 1)).2 + c)
        | none => (none, 0) := by
  unfold Gen.SmallSet.FindFunctor_call
  rw [findSmall]
  cases lt k o <;> cases lt o k <;> simp

/-- an index found by the scan designates an element of the scanned range -/
theorem findSmall_range (lt : α → α → Bool) (vec : List α) (k : α) :
    ∀ i j, (findSmall lt vec k i).1 = some j → i ≤ j ∧ j < i + vec.length := by
  induction vec with
  | nil => intro i j h; simp [findSmall] at h
  | cons o rest ih =>
    intro i j h
    rw [findSmall] at h
    cases h1 : lt k o
    · cases h2 : lt o k
      · simp [h1, h2] at h; simp only [List.length_cons]; omega
      · simp only [h1, h2, Bool.false_eq_true, if_false, if_true] at h
        have := ih (i + 1) j h
        simp only [List.length_cons]; omega
    · simp only [h1, if_true] at h
      have := ih (i + 1) j h
      simp only [List.length_cons]; omega

/-- the iterator returned by the scan is `end()` exactly when the model says "absent" -/
theorem getD_eq_length_iff (lt : α → α → Bool) (vec : List α) (k : α) :
    ((findSmall lt vec k 0).1.getD vec.length = vec.length) ↔ (findSmall lt vec k 0).1 = none := by
  cases h : (findSmall lt vec k 0).1 with
  | none => simp
  | some j =>
    have := findSmall_range lt vec k 0 j h
    simp only [Option.getD_some, reduceCtorEq, iff_false]
    omega

/-- number of comparator calls made by SmallSet's own code for a key: the inline scan, in the small state -/
def scanCalls (lt : α → α → Bool) (s : SSet α) (k : α) : Nat :=
  if s.isSmall then (findSmall lt s.vec k 0).2 else 0

/-! ### state tests, `grow`, the private lookups -/

/-- `isSmall()` is decided in the source by `_set.empty()`: literally the model's `SSet.isSmall` -/
theorem isSmall_eq (lt : α → α → Bool) (N : Nat) (s : SSet α) :
    Gen.SmallSet.isSmall lt N s = some (s.isSmall, 0) := rfl

theorem isSmallContFull_eq (lt : α → α → Bool) (N : Nat) (s : SSet α) :
    Gen.SmallSet.isSmallContFull lt N s = some (decide (s.vec.length = N), 0) := rfl

theorem grow_eq (lt : α → α → Bool) (N : Nat) (s : SSet α) :
    Gen.SmallSet.grow lt N s = some (s.grow lt, (), 0) := rfl

theorem find_small_eq (lt : α → α → Bool) (N : Nat) (s : SSet α) (k : α) :
    Gen.SmallSet.find_small lt N s k
      = some ((findSmall lt s.vec k 0).1.getD s.vec.length, (findSmall lt s.vec k 0).2) := rfl

theorem mfind_small_eq (lt : α → α → Bool) (N : Nat) (s : SSet α) (k : α) :
    Gen.SmallSet.mfind_small lt N s k
      = some (s, (findSmall lt s.vec k 0).1.getD s.vec.length, (findSmall lt s.vec k 0).2) := rfl

/-! ### `insert` -/

/-- the result of the model's `insert` in the shape of the generated functions:
    (state, ((iterator into the inline vector?, index), inserted), calls of the inline scan).
    The model's fourth component (the call count, an `Option`) is `some _` exactly when the call stays in the inline state,
    which is when the returned iterator is an iterator of the inline vector. -/
def insertR (lt : α → α → Bool) (N : Nat) (s : SSet α) (v : α) : SSet α × ((Bool × Nat) × Bool) × Nat :=
  ((s.insert lt N v).1,
   (((s.insert lt N v).2.2.2.isSome, (s.insert lt N v).2.1), (s.insert lt N v).2.2.1),
   scanCalls lt s v)

/-- where the model has a call count, it is the count of the generated function -/
theorem insert_calls (lt : α → α → Bool) (N : Nat) (s : SSet α) (v : α) (c : Nat)
    (h : (s.insert lt N v).2.2.2 = some c) : scanCalls lt s v = c := by
  unfold SSet.insert at h
  unfold scanCalls
  cases hs : s.isSmall
  · simp [hs] at h
  · simp only [hs, if_true] at h ⊢
    generalize findSmall lt s.vec v 0 = p at h ⊢
    obtain ⟨r, c'⟩ := p
    cases r with
    | some i => simpa using h
    | none =>
      by_cases hf : s.vec.length = N
      · simp [hf] at h
      · simpa [hf] using h

theorem insert_small_eq (lt : α → α → Bool) (N : Nat) (s : SSet α) (v : α) (hs : s.isSmall = true) :
    Gen.SmallSet.insert_small lt N s v = some (insertR lt N s v) := by
  have hiff := getD_eq_length_iff lt s.vec v
  have hset : s.set = [] := by simpa [SSet.isSmall] using hs
  unfold Gen.SmallSet.insert_small insertR SSet.insert scanCalls
  rw [mfind_small_eq]
  simp only [hs, if_true, isSmallContFull_eq, grow_eq]
  generalize findSmall lt s.vec v 0 = p at hiff ⊢
  obtain ⟨r, c⟩ := p
  cases r with
  | some i =>
    have hne : ¬ (i = s.vec.length) := by simpa using hiff
    simp [hne]
  | none =>
    by_cases hf : s.vec.length = N
    · simp [hf, SSet.grow]
    · simp [hf, hset]

theorem insert_small_rv_eq (lt : α → α → Bool) (N : Nat) (s : SSet α) (v : α) (hs : s.isSmall = true) :
    Gen.SmallSet.insert_small_rv lt N s v = some (insertR lt N s v) := by
  have hiff := getD_eq_length_iff lt s.vec v
  have hset : s.set = [] := by simpa [SSet.isSmall] using hs
  unfold Gen.SmallSet.insert_small_rv insertR SSet.insert scanCalls
  rw [mfind_small_eq]
  simp only [hs, if_true, isSmallContFull_eq, grow_eq]
  generalize findSmall lt s.vec v 0 = p at hiff ⊢
  obtain ⟨r, c⟩ := p
  cases r with
  | some i =>
    have hne : ¬ (i = s.vec.length) := by simpa using hiff
    simp [hne]
  | none =>
    by_cases hf : s.vec.length = N
    · simp [hf, SSet.grow]
    · simp [hf, hset]

theorem insert_set_eq (lt : α → α → Bool) (N : Nat) (s : SSet α) (v : α) (hs : s.isSmall = false)
    (hx : s.set ≠ [] → s.vec = []) :
    Gen.SmallSet.insert_set lt N s v = some (insertR lt N s v) := by
  have hne : s.set ≠ [] := by
    intro h; simp [SSet.isSmall, h] at hs
  unfold Gen.SmallSet.insert_set insertR SSet.insert scanCalls
  simp [hs, hx hne]

theorem insert_set_rv_eq (lt : α → α → Bool) (N : Nat) (s : SSet α) (v : α) (hs : s.isSmall = false)
    (hx : s.set ≠ [] → s.vec = []) :
    Gen.SmallSet.insert_set_rv lt N s v = some (insertR lt N s v) := by
  have hne : s.set ≠ [] := by
    intro h; simp [SSet.isSmall, h] at hs
  unfold Gen.SmallSet.insert_set_rv insertR SSet.insert scanCalls
  simp [hs, hx hne]

/-- `insert(const T&)` (smallset.hpp:290) -/
theorem insert_eq (lt : α → α → Bool) (N : Nat) (s : SSet α) (v : α) (hx : s.set ≠ [] → s.vec = []) :
    Gen.SmallSet.insert lt N s v = some (insertR lt N s v) := by
  unfold Gen.SmallSet.insert
  rw [isSmall_eq]
  cases hs : s.isSmall
  · simp [insert_set_eq lt N s v hs hx]
  · simp [insert_small_eq lt N s v hs]

/-- `insert(T&&)` (smallset.hpp:292) -/
theorem insert_rv_eq (lt : α → α → Bool) (N : Nat) (s : SSet α) (v : α) (hx : s.set ≠ [] → s.vec = []) :
    Gen.SmallSet.insert_rv lt N s v = some (insertR lt N s v) := by
  unfold Gen.SmallSet.insert_rv
  rw [isSmall_eq]
  cases hs : s.isSmall
  · simp [insert_set_rv_eq lt N s v hs hx]
  · simp [insert_small_rv_eq lt N s v hs]

/-- `emplace(args...)` (smallset.hpp:343), instantiated with one argument of the element type: in the inline non-full state
    it appends first, scans the old elements and pops the new one again when an equivalent element is found; the outcome
    is that of `insert` -/
theorem emplace_eq (lt : α → α → Bool) (N : Nat) (s : SSet α) (v : α) (hx : s.set ≠ [] → s.vec = []) :
    Gen.SmallSet.emplace lt N s v = some (insertR lt N s v) := by
  unfold Gen.SmallSet.emplace
  rw [isSmall_eq, isSmallContFull_eq]
  cases hs : s.isSmall
  · have hne : s.set ≠ [] := by
      intro h; simp [SSet.isSmall, h] at hs
    simp [insertR, SSet.insert, scanCalls, hs, hx hne]
  · by_cases hf : s.vec.length = N
    · simp [hf, insert_rv_eq lt N s v hx]
    · have hiff := getD_eq_length_iff lt s.vec v
      have hset : s.set = [] := by simpa [SSet.isSmall] using hs
      obtain ⟨vec, st⟩ := s
      simp only at hset hf hiff
      subst hset
      simp only [hf, decide_false, Bool.false_eq_true, if_false, if_true, List.getElem?_concat_length,
        List.take_left', insertR, SSet.insert, scanCalls, hs]
      generalize findSmall lt vec v 0 = p at hiff ⊢
      obtain ⟨r, c⟩ := p
      cases r with
      | some i =>
        have hne : ¬ (i = vec.length) := by simpa using hiff
        simp [hne]
      | none => simp

/-! ### lookups -/

/-- the result of the model's `find` in the shape of the generated function: the iterator is an iterator of the container
    in use, its index is the index found or the length of that container (`end()`) -/
def findR (lt : α → α → Bool) (s : SSet α) (k : α) : (Bool × Nat) × Nat :=
  ((s.isSmall, (s.find lt k).1.getD s.elems.length), scanCalls lt s k)

theorem find_calls (lt : α → α → Bool) (s : SSet α) (k : α) (c : Nat) (h : (s.find lt k).2 = some c) :
    scanCalls lt s k = c := by
  unfold SSet.find at h
  unfold scanCalls
  cases hs : s.isSmall <;> simp [hs] at h ⊢
  exact h

theorem find_eq (lt : α → α → Bool) (N : Nat) (s : SSet α) (k : α) :
    Gen.SmallSet.find lt N s k = some (findR lt s k) := by
  unfold Gen.SmallSet.find findR SSet.find SSet.elems scanCalls
  rw [isSmall_eq, find_small_eq]
  cases hs : s.isSmall <;> simp

theorem contains_eq (lt : α → α → Bool) (N : Nat) (s : SSet α) (k : α) :
    Gen.SmallSet.contains lt N s k = some ((s.find lt k).1.isSome, scanCalls lt s k) := by
  have hiff := getD_eq_length_iff lt s.vec k
  unfold Gen.SmallSet.contains SSet.find scanCalls
  rw [isSmall_eq, find_small_eq]
  cases hs : s.isSmall
  · simp
  · simp only [if_true]
    cases hf : (findSmall lt s.vec k 0).1 with
    | none => simp
    | some i =>
      rw [hf] at hiff
      have hne : ¬ (i = s.vec.length) := by simpa using hiff
      simp [hne]

theorem count_eq (lt : α → α → Bool) (N : Nat) (s : SSet α) (k : α) :
    Gen.SmallSet.count lt N s k = some ((if (s.find lt k).1.isSome then 1 else 0), scanCalls lt s k) := by
  unfold Gen.SmallSet.count
  rw [contains_eq]
  cases (s.find lt k).1.isSome <;> simp

/-! ### `erase(key)` -/

theorem erase_eq (lt : α → α → Bool) (N : Nat) (s : SSet α) (k : α) (hx : s.set ≠ [] → s.vec = []) :
    Gen.SmallSet.erase lt N s k = some ((s.eraseKey lt k).1, (s.eraseKey lt k).2, scanCalls lt s k) := by
  unfold Gen.SmallSet.erase SSet.eraseKey scanCalls
  rw [isSmall_eq, mfind_small_eq]
  cases hs : s.isSmall
  · have hne : s.set ≠ [] := by
      intro h; simp [SSet.isSmall, h] at hs
    simp [hx hne]
  · have hset : s.set = [] := by simpa [SSet.isSmall] using hs
    have hiff := getD_eq_length_iff lt s.vec k
    simp only [if_true]
    cases hf : (findSmall lt s.vec k 0).1 with
    | none => simp
    | some i =>
      have hr := findSmall_range lt s.vec k 0 i hf
      have hne : ¬ (i = s.vec.length) := by omega
      have hlt : i < s.vec.length := by omega
      simp [hne, hlt, hset]

/-! ### `erase(position)`, both overloads

Hypotheses `pos.1 = s.isSmall` and `pos.2 < s.elems.length`: the precondition of the C++ function (`pos` is a valid
dereferenceable iterator of this set).  Without them the generated functions return `none`: a pointer into the other
container / `std::get` on the wrong alternative of the variant, or `erase(end())`. -/

/-- `end()` of a set -/
def endIt (s : SSet α) : Bool × Nat := (s.isSmall, s.elems.length)

/-- the model's `eraseIdx` with the iterator returned by the source: the position of the former successor, or `end()` of
    the resulting set when nothing follows — also when the last element of a large set is removed and the set switches
    back to the inline state (whose `end()` is another iterator) -/
def eraseAtR (s : SSet α) (i : Nat) : SSet α × (Bool × Nat) × Nat :=
  (s.eraseIdx i, (if i < (s.eraseIdx i).elems.length then ((s.eraseIdx i).isSmall, i) else endIt (s.eraseIdx i)), 0)

theorem erase_at_ptr_eq (lt : α → α → Bool) (N : Nat) (s : SSet α) (hx : s.set ≠ [] → s.vec = []) (pos : Bool × Nat)
    (hp : pos.1 = s.isSmall) (hi : pos.2 < s.elems.length) :
    Gen.SmallSet.erase_at_ptr lt N s pos = some (eraseAtR s pos.2) := by
  obtain ⟨b, i⟩ := pos
  simp only at hp hi
  subst hp
  unfold Gen.SmallSet.erase_at_ptr eraseAtR endIt SSet.eraseIdx
  simp only [isSmall_eq]
  unfold SSet.elems at hi ⊢
  cases hs : s.isSmall
  · have hne : s.set ≠ [] := by
      intro h; simp [SSet.isSmall, h] at hs
    have hv := hx hne
    simp only [hs, Bool.false_eq_true, if_false] at hi
    have hlen : (s.set.eraseIdx i).length = s.set.length - 1 := List.length_eraseIdx_of_lt hi
    simp only [Bool.false_eq_true, if_false, hi, if_true, hv, SSet.isSmall]
    cases he : s.set.eraseIdx i with
    | nil => simp
    | cons a t =>
      rw [he] at hlen
      simp only [List.isEmpty_cons, Bool.false_eq_true, if_false]
      by_cases hlt : i < (a :: t).length
      · rw [if_pos hlt]
      · rw [if_neg hlt]
        have : i = (a :: t).length := by omega
        rw [← this]
  · have hset : s.set = [] := by simpa [SSet.isSmall] using hs
    simp only [hs, if_true] at hi
    have hlen : (s.vec.eraseIdx i).length = s.vec.length - 1 := List.length_eraseIdx_of_lt hi
    simp only [if_true, hi, hset, SSet.isSmall, List.isEmpty_nil]
    by_cases hlt : i < (s.vec.eraseIdx i).length
    · rw [if_pos hlt]
    · rw [if_neg hlt]
      have : i = (s.vec.eraseIdx i).length := by omega
      rw [← this]

theorem erase_at_var_eq (lt : α → α → Bool) (N : Nat) (s : SSet α) (hx : s.set ≠ [] → s.vec = []) (pos : Bool × Nat)
    (hp : pos.1 = s.isSmall) (hi : pos.2 < s.elems.length) :
    Gen.SmallSet.erase_at_var lt N s pos = some (eraseAtR s pos.2) := by
  obtain ⟨b, i⟩ := pos
  simp only at hp hi
  subst hp
  unfold Gen.SmallSet.erase_at_var eraseAtR endIt SSet.eraseIdx
  simp only [isSmall_eq]
  unfold SSet.elems at hi ⊢
  cases hs : s.isSmall
  · have hne : s.set ≠ [] := by
      intro h; simp [SSet.isSmall, h] at hs
    have hv := hx hne
    simp only [hs, Bool.false_eq_true, if_false] at hi
    have hlen : (s.set.eraseIdx i).length = s.set.length - 1 := List.length_eraseIdx_of_lt hi
    simp only [Bool.false_eq_true, if_false, hi, if_true, hv, SSet.isSmall]
    cases he : s.set.eraseIdx i with
    | nil => simp
    | cons a t =>
      rw [he] at hlen
      simp only [List.isEmpty_cons, Bool.false_eq_true, if_false]
      by_cases hlt : i < (a :: t).length
      · rw [if_pos hlt]
      · rw [if_neg hlt]
        have : i = (a :: t).length := by omega
        rw [← this]
  · have hset : s.set = [] := by simpa [SSet.isSmall] using hs
    simp only [hs, if_true] at hi
    have hlen : (s.vec.eraseIdx i).length = s.vec.length - 1 := List.length_eraseIdx_of_lt hi
    simp only [if_true, hi, hset, SSet.isSmall, List.isEmpty_nil]
    by_cases hlt : i < (s.vec.eraseIdx i).length
    · rw [if_pos hlt]
    · rw [if_neg hlt]
      have : i = (s.vec.eraseIdx i).length := by omega
      rw [← this]

/-! ### `clear`, `size`, `empty` (the model has `size` only) -/

theorem size_eq (lt : α → α → Bool) (N : Nat) (s : SSet α) :
    Gen.SmallSet.size lt N s = some (s.size, 0) := by
  unfold Gen.SmallSet.size SSet.size SSet.elems
  rw [isSmall_eq]
  cases s.isSmall <;> simp

theorem empty_eq (lt : α → α → Bool) (N : Nat) (s : SSet α) :
    Gen.SmallSet.empty lt N s = some (decide (s.size = 0), 0) := by
  unfold Gen.SmallSet.empty SSet.size SSet.elems SSet.isSmall
  cases hv : s.vec <;> cases hs : s.set <;> simp

theorem clear_eq (lt : α → α → Bool) (N : Nat) (s : SSet α) (hx : s.set ≠ [] → s.vec = []) :
    Gen.SmallSet.clear lt N s = some (⟨[], []⟩, (), 0) := by
  unfold Gen.SmallSet.clear
  rw [isSmall_eq]
  cases hs : s.isSmall
  · have hne : s.set ≠ [] := by
      intro h; simp [SSet.isSmall, h] at hs
    simp [hx hne]
  · have hset : s.set = [] := by simpa [SSet.isSmall] using hs
    simp [hset]

/-! ### `merge`

Hypotheses: the comparator is a strict weak order and `s` satisfies the model invariant.  They are needed for one step only:
when the loop makes `*this` grow (smallset.hpp:501-504) the source removes the element from `o` *unconditionally*, whereas the
hand-written model (which calls `SSet.insert` for every element) keeps it in `o` when the backing set answers "not
inserted".  That answer is impossible there — no inline element is equivalent to the value, and the grown set represents
exactly the inline elements — but this takes the invariant (sortedness) and the strict-weak-order laws.  `o.set ≠ [] → o.vec = []` is
needed for the large `o`: the model rebuilds `o` as `⟨[], rest⟩`, the source leaves `o._vec` untouched.  The source keeps
the state in a local flag (`small`) instead of re-deciding `isSmall()` for every element; the proof carries
`small = isSmall()` through the loop.  The model has no comparator-call count for `merge`: the count is existential. -/

/-- `FlatSet::insert_val` never leaves the set empty -/
theorem insertVal_nonempty (lt : α → α → Bool) (l : List α) (v : α) : ((insertVal lt l v).1).isEmpty = false := by
  have hins : (l.insertIdx (lowerIdx lt l v) v).isEmpty = false := by
    unfold lowerIdx
    rw [insertIdx_takeWhile]
    simp
  unfold insertVal
  cases hl : l[lowerIdx lt l v]? with
  | none => simp only [hl]; exact hins
  | some x =>
    have hne : l.isEmpty = false := by
      cases l with
      | nil => simp at hl
      | cons a t => rfl
    simp only [hl]
    cases lt v x
    · simpa using hne
    · simpa using hins

/-- one element of the model's merge loop -/
def mergeStepM (lt : α → α → Bool) (N : Nat) (acc : SSet α × List α) (v : α) : SSet α × List α :=
  let ins := acc.1.insert lt N v
  if ins.2.2.1 then (ins.1, acc.2) else (acc.1, acc.2 ++ [v])

/-- the generated loop body is one step of the model's loop, the local flag staying equal to `isSmall()` -/
theorem merge_step_eq (hswo : SWO lt) (N : Nat) (st : SSet α) (h : st.Inv lt N) (x : α) (kept : List α) :
    ∃ r, Gen.SmallSet.merge_step lt N st st.isSmall x = some r
      ∧ r.1 = (mergeStepM lt N (st, kept) x).1
      ∧ r.2.1 = r.1.isSmall
      ∧ (if r.2.2.1 then kept else kept ++ [x]) = (mergeStepM lt N (st, kept) x).2 := by
  have hnot := insert_not_inserted_iff hswo N st h x
  have hspec := findSmall_spec lt st.vec x 0
  unfold Gen.SmallSet.merge_step mergeStepM
  unfold SSet.insert at hnot ⊢
  unfold SSet.elems at hnot
  simp only [isSmallContFull_eq, grow_eq]
  cases hs : st.isSmall
  · have hne : st.set ≠ [] := by
      intro h0; simp [SSet.isSmall, h0] at hs
    have hv := h.excl hne
    simp only [Bool.false_eq_true, if_false]
    cases hins : (insertVal lt st.set x).2.2
    · have hnoop := insertVal_noop st.set x hins
      simp only [Bool.false_eq_true, if_false, hnoop]
      refine ⟨_, rfl, ?_, ?_, ?_⟩
      · cases st; rfl
      · simp [SSet.isSmall] at hs ⊢; exact hs
      · simp
    · simp only [if_true]
      refine ⟨_, rfl, ?_, ?_, ?_⟩
      · simp [hv]
      · simp [SSet.isSmall, insertVal_nonempty]
      · simp
  · have hset : st.set = [] := by simpa [SSet.isSmall] using hs
    simp only [hs, if_true] at hnot ⊢
    generalize findSmall lt st.vec x 0 = p at hnot hspec ⊢
    obtain ⟨r, c⟩ := p
    cases r with
    | some i =>
      simp only [Option.isNone_some, Bool.false_eq_true, if_false]
      exact ⟨_, rfl, rfl, hs.symm, by simp⟩
    | none =>
      simp only at hspec
      simp only [Option.isNone_none, if_true]
      by_cases hf : st.vec.length = N
      · simp only [hf, decide_true, if_true] at hnot ⊢
        have hins : (insertVal lt (st.grow lt).set x).2.2 = true := by
          cases hb : (insertVal lt (st.grow lt).set x).2.2 with
          | true => rfl
          | false => exact absurd (hnot.mp hb) hspec
        simp only [hins, if_true]
        refine ⟨_, rfl, ?_, ?_, ?_⟩
        · simp [SSet.grow]
        · simp [SSet.isSmall, insertVal_nonempty]
        · simp
      · simp only [hf, decide_false, Bool.false_eq_true, if_false, if_true]
        refine ⟨_, rfl, ?_, ?_, ?_⟩
        · simp [hset]
        · simp [SSet.isSmall, hset]
        · simp

/-- the invariant is kept along the model's loop -/
theorem mergeStepM_inv (hswo : SWO lt) (N : Nat) (st : SSet α) (h : st.Inv lt N) (x : α) (kept : List α) :
    (mergeStepM lt N (st, kept) x).1.Inv lt N := by
  unfold mergeStepM
  simp only
  split
  · exact insert_inv hswo N st h x
  · exact h

theorem foldStep_eq (hswo : SWO lt) (N : Nat) :
    ∀ (vs : List α) (st : SSet α) (kept : List α), st.Inv lt N →
      ∃ c, Gen.SmallSet.foldStep (Gen.SmallSet.merge_step lt N) vs st st.isSmall kept
        = some ((vs.foldl (mergeStepM lt N) (st, kept)).1, (vs.foldl (mergeStepM lt N) (st, kept)).1.isSmall,
                (vs.foldl (mergeStepM lt N) (st, kept)).2, c) := by
  intro vs
  induction vs with
  | nil => intro st kept _; exact ⟨0, rfl⟩
  | cons x rest ih =>
    intro st kept h
    obtain ⟨r, hr, h1, h2, h3⟩ := merge_step_eq hswo N st h x kept
    have hinv := mergeStepM_inv hswo N st h x kept
    rw [← h1] at hinv
    obtain ⟨c, hc⟩ := ih r.1 (if r.2.2.1 then kept else kept ++ [x]) hinv
    refine ⟨r.2.2.2 + c, ?_⟩
    rw [Gen.SmallSet.foldStep]
    simp only [hr, h2, hc, List.foldl_cons]
    have : mergeStepM lt N (st, kept) x = (r.1, if r.2.2.1 then kept else kept ++ [x]) := by
      rw [h1, h3]
    rw [this]

/-- `merge(o)` (smallset.hpp:488) -/
theorem merge_eq (hswo : SWO lt) (N : Nat) (s o : SSet α) (h : s.Inv lt N) (ho : o.set ≠ [] → o.vec = []) :
    ∃ c, Gen.SmallSet.merge lt N s o = some ((s.merge lt N o).1, (s.merge lt N o).2, (), c) := by
  unfold Gen.SmallSet.merge SSet.merge Gen.SmallSet.isSmallOf
  simp only [isSmall_eq, grow_eq]
  cases hos : o.isSmall
  · have hne : o.set ≠ [] := by
      intro h0; simp [SSet.isSmall, h0] at hos
    have hov := ho hne
    have hos' : o.set.isEmpty = false := by simpa [SSet.isSmall] using hos
    simp only [hos', Bool.false_eq_true, if_false, Bool.not_false, if_true]
    cases hs : s.isSmall
    · have hsne : s.set ≠ [] := by
        intro h0; simp [SSet.isSmall, h0] at hs
      exact ⟨0, by simp [h.excl hsne, hov]⟩
    · exact ⟨0, by simp [SSet.grow, hov]⟩
  · have hoset : o.set = [] := by simpa [SSet.isSmall] using hos
    obtain ⟨c, hc⟩ := foldStep_eq hswo N o.vec s [] h
    refine ⟨0 + c, ?_⟩
    simp only [Bool.not_true, Bool.false_eq_true, if_false, hc, hoset]
    rfl

/-! ## Task T8: the remaining members

### range insertion (`insert(first, last)`, `insert(initializer_list)`, `operator=(initializer_list)`, the range constructors)

The source inserts one by one through `insert_small` while the set is inline, then hands the rest of the range to the backing
set in one call (`_set.insert(first, last)`, modelled as `insertAll`); the model's `insertRange` inserts one by one throughout.
Hypothesis: `s.set ≠ [] → s.vec = []` as for `insert`. -/

/-- the model's `insert` keeps "`_vec` is empty whenever `_set` is not" -/
theorem insert_excl (lt : α → α → Bool) (N : Nat) (s : SSet α) (v : α) (hx : s.set ≠ [] → s.vec = []) :
    (s.insert lt N v).1.set ≠ [] → (s.insert lt N v).1.vec = [] := by
  unfold SSet.insert
  cases hs : s.isSmall
  · simp
  · have hset : s.set = [] := by simpa [SSet.isSmall] using hs
    simp only [if_true]
    generalize findSmall lt s.vec v 0 = p
    obtain ⟨r, c⟩ := p
    cases r with
    | some i => simpa using hx
    | none =>
      by_cases hf : s.vec.length = N
      · simp [hf]
      · simp [hf]

/-- in the large state inserting one by one is the bulk insertion into the backing set -/
theorem insertRange_large (lt : α → α → Bool) (N : Nat) (ws : List α) :
    ∀ (st : List α), st ≠ [] → (⟨[], st⟩ : SSet α).insertRange lt N ws = ⟨[], insertAll lt st ws⟩ := by
  induction ws with
  | nil => intro st _; rfl
  | cons w t ih =>
    intro st hne
    have hs : (⟨[], st⟩ : SSet α).isSmall = false := by
      cases st with
      | nil => exact absurd rfl hne
      | cons a u => rfl
    have hne' : (insertVal lt st w).1 ≠ [] := by
      intro h
      have := insertVal_nonempty lt st w
      rw [h] at this; cases this
    simp only [SSet.insertRange, List.foldl_cons, insertAll] at ih ⊢
    have : ((⟨[], st⟩ : SSet α).insert lt N w).1 = ⟨[], (insertVal lt st w).1⟩ := by
      unfold SSet.insert; simp [hs]
    rw [this]
    exact ih _ hne'

theorem range_step_eq (lt : α → α → Bool) (N : Nat) (s : SSet α) (pre : List α) (x : α) (rest : List α) :
    Gen.SmallSet.insert_range_step lt N s (pre ++ x :: rest) pre.length
      = if s.isSmall then some (true, ((s.insert lt N x).1, pre.length + 1), scanCalls lt s x)
        else some (false, (s, pre.length), 0) := by
  unfold Gen.SmallSet.insert_range_step
  rw [isSmall_eq]
  cases hs : s.isSmall
  · simp
  · have hne : ¬ (pre.length = (pre ++ x :: rest).length) := by simp
    have hx : (pre ++ x :: rest)[pre.length]? = some x := by simp
    simp only [if_true, hne, if_false, hx, insert_small_eq lt N s x hs, insertR]
    simp

theorem range_step_end (lt : α → α → Bool) (N : Nat) (s : SSet α) (vs : List α) :
    Gen.SmallSet.insert_range_step lt N s vs vs.length = some (false, (s, vs.length), 0) := by
  unfold Gen.SmallSet.insert_range_step
  rw [isSmall_eq]
  cases s.isSmall <;> simp

/-- what `insert(first, last)` does after its loop -/
def rangePost (lt : α → α → Bool) (N : Nat) (vs : List α) (r0 : (SSet α × Nat) × Nat) : Option (SSet α × Unit × Nat) :=
  match Gen.SmallSet.isSmall lt N r0.1.1 with
  | none => none
  | some r1 =>
    if r1.1 then some (r0.1.1, (), r0.2 + r1.2)
    else if r0.1.2 = vs.length then some (r0.1.1, (), r0.2 + r1.2)
    else some (⟨r0.1.1.vec, Sets.insertAll lt r0.1.1.set (vs.drop r0.1.2)⟩, (), r0.2 + r1.2)

theorem range_loop_spec (lt : α → α → Bool) (N : Nat) (rest : List α) :
    ∀ (pre : List α) (s : SSet α) (fuel : Nat), rest.length < fuel → (s.set ≠ [] → s.vec = []) →
      ∃ r0, Gen.SmallSet.whileFuel (fun st => Gen.SmallSet.insert_range_step lt N st.1 (pre ++ rest) st.2) fuel (s, pre.length)
          = some r0
        ∧ ∃ c, rangePost lt N (pre ++ rest) r0 = some (s.insertRange lt N rest, (), c) := by
  induction rest with
  | nil =>
    intro pre s fuel hf hx
    cases fuel with
    | zero => simp at hf
    | succ n =>
      rw [Gen.SmallSet.whileFuel]
      have := range_step_end lt N s (pre ++ [])
      simp only [List.append_nil] at this ⊢
      simp only [this, Bool.false_eq_true, if_false]
      refine ⟨_, rfl, ?_⟩
      unfold rangePost
      rw [isSmall_eq]
      cases s.isSmall <;> simp [SSet.insertRange]
  | cons x t ih =>
    intro pre s fuel hf hx
    cases fuel with
    | zero => simp at hf
    | succ n =>
      rw [Gen.SmallSet.whileFuel]
      simp only [range_step_eq]
      cases hs : s.isSmall
      · -- large: the loop stops at once, the whole rest goes to the backing set
        simp only [Bool.false_eq_true, if_false]
        refine ⟨_, rfl, ?_⟩
        have hne : s.set ≠ [] := by
          intro h; simp [SSet.isSmall, h] at hs
        have hv := hx hne
        unfold rangePost
        rw [isSmall_eq]
        have hlen : ¬ (pre.length = (pre ++ x :: t).length) := by simp
        simp only [hs, Bool.false_eq_true, if_false, hlen, List.drop_left, hv]
        have := insertRange_large lt N (x :: t) s.set hne
        have hs' : s = ⟨[], s.set⟩ := by cases s; simp_all
        rw [hs'] at this ⊢
        simp only at this ⊢
        rw [this]
        exact ⟨_, rfl⟩
      · -- inline: one element goes through insert_small
        simp only [if_true]
        have hx' := insert_excl lt N s x hx
        obtain ⟨r0, h0, c, hc⟩ := ih (pre ++ [x]) (s.insert lt N x).1 n
          (by simp only [List.length_cons] at hf; omega) hx'
        simp only [List.append_assoc, List.singleton_append, List.length_append, List.length_singleton] at h0 hc
        rw [h0]
        refine ⟨_, rfl, ?_⟩
        have : s.insertRange lt N (x :: t) = (s.insert lt N x).1.insertRange lt N t := rfl
        rw [this]
        unfold rangePost at hc ⊢
        rw [isSmall_eq] at hc ⊢
        simp only at hc ⊢
        cases hsm : r0.1.1.isSmall
        · simp only [hsm, Bool.false_eq_true, if_false] at hc ⊢
          by_cases hl : r0.1.2 = (pre ++ x :: t).length
          · simp only [hl, if_true] at hc ⊢
            obtain ⟨h1, _⟩ := Prod.mk.inj (Option.some.inj hc)
            exact ⟨_, by rw [h1]⟩
          · simp only [hl, if_false] at hc ⊢
            obtain ⟨h1, _⟩ := Prod.mk.inj (Option.some.inj hc)
            exact ⟨_, by rw [h1]⟩
        · simp only [hsm, if_true] at hc ⊢
          obtain ⟨h1, _⟩ := Prod.mk.inj (Option.some.inj hc)
          exact ⟨_, by rw [h1]⟩

/-- `insert(first, last)` (smallset.hpp:295) -/
theorem insert_range_eq (lt : α → α → Bool) (N : Nat) (s : SSet α) (hx : s.set ≠ [] → s.vec = []) (vs : List α) :
    ∃ c, Gen.SmallSet.insert_range lt N s vs = some (s.insertRange lt N vs, (), c) := by
  obtain ⟨r0, h0, c, hc⟩ := range_loop_spec lt N vs [] s (vs.length + 1) (by omega) hx
  simp only [List.nil_append, List.length_nil] at h0 hc
  refine ⟨c, ?_⟩
  unfold Gen.SmallSet.insert_range
  rw [h0]
  exact hc

/-- `insert(std::initializer_list)` (smallset.hpp:317) -/
theorem insert_ilist_eq (lt : α → α → Bool) (N : Nat) (s : SSet α) (hx : s.set ≠ [] → s.vec = []) (vs : List α) :
    ∃ c, Gen.SmallSet.insert_ilist lt N s vs = some (s.insertRange lt N vs, (), c) := by
  obtain ⟨c, hc⟩ := insert_range_eq lt N s hx vs
  exact ⟨c, by simp [Gen.SmallSet.insert_ilist, hc]⟩

/-- `operator=(std::initializer_list)` (smallset.hpp:251): `clear()`, then the range insertion -/
theorem assign_ilist_eq (lt : α → α → Bool) (N : Nat) (s : SSet α) (hx : s.set ≠ [] → s.vec = []) (vs : List α) :
    ∃ c, Gen.SmallSet.assign_ilist lt N s vs = some ((⟨[], []⟩ : SSet α).insertRange lt N vs, (), c) := by
  obtain ⟨c, hc⟩ := insert_range_eq lt N (⟨[], []⟩ : SSet α) (fun h => absurd rfl h) vs
  exact ⟨0 + c, by simp [Gen.SmallSet.assign_ilist, clear_eq lt N s hx, hc]⟩

/-- the range constructor (smallset.hpp:234) and the initializer-list constructor (smallset.hpp:246) -/
theorem ctor_range_eq (lt : α → α → Bool) (N : Nat) (vs : List α) :
    ∃ c, Gen.SmallSet.ctor_range lt N vs = some ((⟨[], []⟩ : SSet α).insertRange lt N vs, (), c) := by
  obtain ⟨c, hc⟩ := insert_range_eq lt N (⟨[], []⟩ : SSet α) (fun h => absurd rfl h) vs
  exact ⟨c, by simp [Gen.SmallSet.ctor_range, hc]⟩

theorem ctor_ilist_eq (lt : α → α → Bool) (N : Nat) (vs : List α) :
    ∃ c, Gen.SmallSet.ctor_ilist lt N vs = some ((⟨[], []⟩ : SSet α).insertRange lt N vs, (), c) := by
  obtain ⟨c, hc⟩ := ctor_range_eq lt N vs
  exact ⟨c, by simp [Gen.SmallSet.ctor_ilist, hc]⟩

/-! ### `erase(first, last)`, both overloads; `swap`

The model has no range erase: direct specification.  Hypotheses: both iterators are iterators of the container in use and
`a ≤ b ≤ size` (a valid range of this set). -/

/-- the set without the elements at the positions `[a, b)` of its iteration sequence -/
def eraseRangeS (s : SSet α) (a b : Nat) : SSet α :=
  if s.isSmall then ⟨s.vec.take a ++ s.vec.drop b, []⟩ else ⟨[], s.set.take a ++ s.set.drop b⟩

/-- … with the iterator returned by the source: the position of the former `last`, or `end()` of the resulting set when nothing
    follows (also when a large set becomes empty and so switches back to the inline state) -/
def eraseRangeR (s : SSet α) (a b : Nat) : SSet α × (Bool × Nat) × Nat :=
  (eraseRangeS s a b,
   (if a < (eraseRangeS s a b).elems.length then ((eraseRangeS s a b).isSmall, a) else endIt (eraseRangeS s a b)), 0)

theorem erase_range_ptr_eq (lt : α → α → Bool) (N : Nat) (s : SSet α) (hx : s.set ≠ [] → s.vec = []) (first last : Bool × Nat)
    (hf : first.1 = s.isSmall) (hl : last.1 = s.isSmall) (hab : first.2 ≤ last.2) (hb : last.2 ≤ s.elems.length) :
    Gen.SmallSet.erase_range_ptr lt N s first last = some (eraseRangeR s first.2 last.2) := by
  obtain ⟨fb, a⟩ := first
  obtain ⟨lb, b⟩ := last
  simp only at hf hl hab hb
  subst hf hl
  unfold Gen.SmallSet.erase_range_ptr eraseRangeR eraseRangeS endIt
  simp only [isSmall_eq]
  unfold SSet.elems at hb ⊢
  cases hs : s.isSmall
  · have hne : s.set ≠ [] := by
      intro h; simp [SSet.isSmall, h] at hs
    have hv := hx hne
    simp only [hs, Bool.false_eq_true, if_false] at hb
    simp only [Bool.false_eq_true, if_false, hab, hb, if_true, hv, SSet.isSmall]
    cases he : s.set.take a ++ s.set.drop b with
    | nil => simp
    | cons y t =>
      have hlen : (y :: t).length = a + (s.set.length - b) := by
        rw [← he]; simp [List.length_append, List.length_take, List.length_drop]; omega
      simp only [List.isEmpty_cons, Bool.false_eq_true, if_false]
      by_cases hlt : a < (y :: t).length
      · rw [if_pos hlt]
      · rw [if_neg hlt]
        have : a = (y :: t).length := by omega
        rw [← this]
  · have hset : s.set = [] := by simpa [SSet.isSmall] using hs
    simp only [hs, if_true] at hb
    simp only [if_true, hab, hb, hset, SSet.isSmall, List.isEmpty_nil]
    have hlen : (s.vec.take a ++ s.vec.drop b).length = a + (s.vec.length - b) := by
      simp [List.length_append, List.length_take, List.length_drop]; omega
    by_cases hlt : a < (s.vec.take a ++ s.vec.drop b).length
    · rw [if_pos hlt]
    · rw [if_neg hlt]
      have : a = (s.vec.take a ++ s.vec.drop b).length := by omega
      rw [← this]

theorem erase_range_var_eq (lt : α → α → Bool) (N : Nat) (s : SSet α) (hx : s.set ≠ [] → s.vec = []) (first last : Bool × Nat)
    (hf : first.1 = s.isSmall) (hl : last.1 = s.isSmall) (hab : first.2 ≤ last.2) (hb : last.2 ≤ s.elems.length) :
    Gen.SmallSet.erase_range_var lt N s first last = some (eraseRangeR s first.2 last.2) := by
  obtain ⟨fb, a⟩ := first
  obtain ⟨lb, b⟩ := last
  simp only at hf hl hab hb
  subst hf hl
  unfold Gen.SmallSet.erase_range_var eraseRangeR eraseRangeS endIt
  simp only [isSmall_eq]
  unfold SSet.elems at hb ⊢
  cases hs : s.isSmall
  · have hne : s.set ≠ [] := by
      intro h; simp [SSet.isSmall, h] at hs
    have hv := hx hne
    simp only [hs, Bool.false_eq_true, if_false] at hb
    simp only [Bool.false_eq_true, if_false, hab, hb, if_true, hv, SSet.isSmall]
    cases he : s.set.take a ++ s.set.drop b with
    | nil => simp
    | cons y t =>
      have hlen : (y :: t).length = a + (s.set.length - b) := by
        rw [← he]; simp [List.length_append, List.length_take, List.length_drop]; omega
      simp only [List.isEmpty_cons, Bool.false_eq_true, if_false]
      by_cases hlt : a < (y :: t).length
      · rw [if_pos hlt]
      · rw [if_neg hlt]
        have : a = (y :: t).length := by omega
        rw [← this]
  · have hset : s.set = [] := by simpa [SSet.isSmall] using hs
    simp only [hs, if_true] at hb
    simp only [if_true, hab, hb, hset, SSet.isSmall, List.isEmpty_nil]
    have hlen : (s.vec.take a ++ s.vec.drop b).length = a + (s.vec.length - b) := by
      simp [List.length_append, List.length_take, List.length_drop]; omega
    by_cases hlt : a < (s.vec.take a ++ s.vec.drop b).length
    · rw [if_pos hlt]
    · rw [if_neg hlt]
      have : a = (s.vec.take a ++ s.vec.drop b).length := by omega
      rw [← this]

theorem swap_eq (lt : α → α → Bool) (N : Nat) (s o : SSet α) :
    Gen.SmallSet.swap lt N s o = some (o, s, (), 0) := by
  cases s; cases o; rfl

/-! ### `insert(hint, value)`: in the inline state the hint is ignored; in the large state it must be an iterator of the backing
set, whose hinted insertion has the result of plain insertion -/

theorem insert_at_ptr_eq (lt : α → α → Bool) (N : Nat) (s : SSet α) (hx : s.set ≠ [] → s.vec = []) (hint : Bool × Nat)
    (hh : hint.1 = s.isSmall) (v : α) :
    Gen.SmallSet.insert_at_ptr lt N s hint v = some ((insertR lt N s v).1, (insertR lt N s v).2.1.1, (insertR lt N s v).2.2) := by
  unfold Gen.SmallSet.insert_at_ptr
  rw [isSmall_eq]
  cases hs : s.isSmall
  · have hne : s.set ≠ [] := by
      intro h; simp [SSet.isSmall, h] at hs
    rw [hs] at hh
    simp [hh, insertR, SSet.insert, scanCalls, hs, hx hne]
  · simp [insert_small_eq lt N s v hs]

theorem insert_at_var_eq (lt : α → α → Bool) (N : Nat) (s : SSet α) (hx : s.set ≠ [] → s.vec = []) (hint : Bool × Nat)
    (hh : hint.1 = s.isSmall) (v : α) :
    Gen.SmallSet.insert_at_var lt N s hint v = some ((insertR lt N s v).1, (insertR lt N s v).2.1.1, (insertR lt N s v).2.2) := by
  unfold Gen.SmallSet.insert_at_var
  rw [isSmall_eq]
  cases hs : s.isSmall
  · have hne : s.set ≠ [] := by
      intro h; simp [SSet.isSmall, h] at hs
    rw [hs] at hh
    simp [hh, insertR, SSet.insert, scanCalls, hs, hx hne]
  · simp [insert_small_eq lt N s v hs]

theorem insert_at_rv_ptr_eq (lt : α → α → Bool) (N : Nat) (s : SSet α) (hx : s.set ≠ [] → s.vec = []) (hint : Bool × Nat)
    (hh : hint.1 = s.isSmall) (v : α) :
    Gen.SmallSet.insert_at_rv_ptr lt N s hint v = some ((insertR lt N s v).1, (insertR lt N s v).2.1.1, (insertR lt N s v).2.2) := by
  unfold Gen.SmallSet.insert_at_rv_ptr
  rw [isSmall_eq]
  cases hs : s.isSmall
  · have hne : s.set ≠ [] := by
      intro h; simp [SSet.isSmall, h] at hs
    rw [hs] at hh
    simp [hh, insertR, SSet.insert, scanCalls, hs, hx hne]
  · simp [insert_small_rv_eq lt N s v hs]

theorem insert_at_rv_var_eq (lt : α → α → Bool) (N : Nat) (s : SSet α) (hx : s.set ≠ [] → s.vec = []) (hint : Bool × Nat)
    (hh : hint.1 = s.isSmall) (v : α) :
    Gen.SmallSet.insert_at_rv_var lt N s hint v = some ((insertR lt N s v).1, (insertR lt N s v).2.1.1, (insertR lt N s v).2.2) := by
  unfold Gen.SmallSet.insert_at_rv_var
  rw [isSmall_eq]
  cases hs : s.isSmall
  · have hne : s.set ≠ [] := by
      intro h; simp [SSet.isSmall, h] at hs
    rw [hs] at hh
    simp [hh, insertR, SSet.insert, scanCalls, hs, hx hne]
  · simp [insert_small_rv_eq lt N s v hs]

/-! ### node handles: `extract(key)`, `extract(position)`, `insert(node)`, `insert(hint, node)` -/

/-- the element that `extract(key)` hands out: the element found, in the container in use -/
def extractNode (lt : α → α → Bool) (s : SSet α) (k : α) : Option α :=
  if s.isSmall then (match (findSmall lt s.vec k 0).1 with | some i => s.vec[i]? | none => none)
  else (match (findC lt s.set k).1 with | some i => s.set[i]? | none => none)

theorem extract_eq (lt : α → α → Bool) (N : Nat) (s : SSet α) (hx : s.set ≠ [] → s.vec = []) (k : α) :
    Gen.SmallSet.extract lt N s k = some ((s.eraseKey lt k).1, extractNode lt s k, scanCalls lt s k) := by
  unfold Gen.SmallSet.extract SSet.eraseKey extractNode scanCalls
  rw [isSmall_eq, mfind_small_eq]
  cases hs : s.isSmall
  · have hne : s.set ≠ [] := by
      intro h; simp [SSet.isSmall, h] at hs
    have hv := hx hne
    obtain ⟨vec, st⟩ := s
    simp only at hv hne ⊢
    subst hv
    simp only [Bool.false_eq_true, if_false, Sets.eraseKey]
    cases hf : (findC lt st k).1 with
    | none =>
      have : findC lt st k = (none, (findC lt st k).2) := by rw [← hf]
      rw [this]
    | some i =>
      have hlt := Bridge.FlatSet.findC_some_lt lt st k i hf
      obtain ⟨y, hy⟩ := Bridge.FlatSet.getElem?_of_lt st i hlt
      have : findC lt st k = (some i, (findC lt st k).2) := by rw [← hf]
      rw [this]
      simp [hy]
  · have hset : s.set = [] := by simpa [SSet.isSmall] using hs
    simp only [if_true]
    cases hf : (findSmall lt s.vec k 0).1 with
    | none => simp
    | some i =>
      have hr := findSmall_range lt s.vec k 0 i hf
      have hne : ¬ (i = s.vec.length) := by omega
      have hlt : i < s.vec.length := by omega
      obtain ⟨y, hy⟩ := Bridge.FlatSet.getElem?_of_lt s.vec i hlt
      simp [hne, hlt, hset]

theorem extract_at_ptr_eq (lt : α → α → Bool) (N : Nat) (s : SSet α) (hx : s.set ≠ [] → s.vec = []) (pos : Bool × Nat)
    (hp : pos.1 = s.isSmall) (hi : pos.2 < s.elems.length) :
    Gen.SmallSet.extract_at_ptr lt N s pos = some (s.eraseIdx pos.2, s.elems[pos.2]?, 0) := by
  obtain ⟨b, i⟩ := pos
  simp only at hp hi
  subst hp
  unfold Gen.SmallSet.extract_at_ptr SSet.eraseIdx
  simp only [isSmall_eq]
  unfold SSet.elems at hi ⊢
  cases hs : s.isSmall
  · have hne : s.set ≠ [] := by
      intro h; simp [SSet.isSmall, h] at hs
    simp only [hs, Bool.false_eq_true, if_false] at hi
    obtain ⟨y, hy⟩ := Bridge.FlatSet.getElem?_of_lt s.set i hi
    simp [hy, hx hne]
  · have hset : s.set = [] := by simpa [SSet.isSmall] using hs
    simp only [hs, if_true] at hi
    obtain ⟨y, hy⟩ := Bridge.FlatSet.getElem?_of_lt s.vec i hi
    simp [hi, hset]

theorem extract_at_var_eq (lt : α → α → Bool) (N : Nat) (s : SSet α) (hx : s.set ≠ [] → s.vec = []) (pos : Bool × Nat)
    (hp : pos.1 = s.isSmall) (hi : pos.2 < s.elems.length) :
    Gen.SmallSet.extract_at_var lt N s pos = some (s.eraseIdx pos.2, s.elems[pos.2]?, 0) := by
  obtain ⟨b, i⟩ := pos
  simp only at hp hi
  subst hp
  unfold Gen.SmallSet.extract_at_var SSet.eraseIdx
  simp only [isSmall_eq]
  unfold SSet.elems at hi ⊢
  cases hs : s.isSmall
  · have hne : s.set ≠ [] := by
      intro h; simp [SSet.isSmall, h] at hs
    simp only [hs, Bool.false_eq_true, if_false] at hi
    obtain ⟨y, hy⟩ := Bridge.FlatSet.getElem?_of_lt s.set i hi
    simp [hy, hx hne]
  · have hset : s.set = [] := by simpa [SSet.isSmall] using hs
    simp only [hs, if_true] at hi
    obtain ⟨y, hy⟩ := Bridge.FlatSet.getElem?_of_lt s.vec i hi
    simp [hi, hset]

/-- the model of `insert(node_type&&)`: `{position, inserted, node}`; an empty node does nothing and gets `end()`; a refused
    node keeps its value and gets the position of the element that refused it -/
def insertNodeR (lt : α → α → Bool) (N : Nat) (s : SSet α) (nh : Option α) : SSet α × ((Bool × Nat) × Bool × Option α) × Nat :=
  match nh with
  | none => (s, (endIt s, false, none), 0)
  | some v => ((insertR lt N s v).1,
               ((insertR lt N s v).2.1.1, (insertR lt N s v).2.1.2, if (insertR lt N s v).2.1.2 then none else some v),
               (insertR lt N s v).2.2)

theorem insert_node_eq (lt : α → α → Bool) (N : Nat) (s : SSet α) (hx : s.set ≠ [] → s.vec = []) (nh : Option α) :
    Gen.SmallSet.insert_node lt N s nh = some (insertNodeR lt N s nh) := by
  unfold Gen.SmallSet.insert_node insertNodeR
  cases nh with
  | none =>
    simp only [isSmall_eq, endIt, SSet.elems]
    cases s.isSmall <;> simp
  | some v =>
    simp only [isSmall_eq, insert_rv_eq lt N s v hx]
    cases s.isSmall <;> cases (insertR lt N s v).2.1.2 <;> simp

/-- the model of `insert(hint, node_type&&)`: the node left to the caller is emptied iff the size has changed -/
def insertNodeAtR (lt : α → α → Bool) (N : Nat) (s : SSet α) (nh : Option α) : SSet α × ((Bool × Nat) × Option α) × Nat :=
  match nh with
  | none => (s, (endIt s, none), 0)
  | some v => ((insertR lt N s v).1,
               ((insertR lt N s v).2.1.1, if (insertR lt N s v).1.size = s.size then some v else none),
               (insertR lt N s v).2.2)

theorem insert_node_at_ptr_eq (lt : α → α → Bool) (N : Nat) (s : SSet α) (hx : s.set ≠ [] → s.vec = []) (hint : Bool × Nat)
    (hh : hint.1 = s.isSmall) (nh : Option α) :
    Gen.SmallSet.insert_node_at_ptr lt N s hint nh = some (insertNodeAtR lt N s nh) := by
  unfold Gen.SmallSet.insert_node_at_ptr insertNodeAtR
  cases nh with
  | none =>
    simp only [isSmall_eq, endIt, SSet.elems]
    cases s.isSmall <;> simp
  | some v =>
    have := insert_at_rv_ptr_eq lt N s hx hint hh v
    simp only [Prod.eta] at this ⊢
    simp only [size_eq, this]
    by_cases hsz : (insertR lt N s v).1.size = s.size <;> simp [hsz]

theorem insert_node_at_var_eq (lt : α → α → Bool) (N : Nat) (s : SSet α) (hx : s.set ≠ [] → s.vec = []) (hint : Bool × Nat)
    (hh : hint.1 = s.isSmall) (nh : Option α) :
    Gen.SmallSet.insert_node_at_var lt N s hint nh = some (insertNodeAtR lt N s nh) := by
  unfold Gen.SmallSet.insert_node_at_var insertNodeAtR
  cases nh with
  | none =>
    simp only [isSmall_eq, endIt, SSet.elems]
    cases s.isSmall <;> simp
  | some v =>
    have := insert_at_rv_var_eq lt N s hx hint hh v
    simp only [Prod.eta] at this ⊢
    simp only [size_eq, this]
    by_cases hsz : (insertR lt N s v).1.size = s.size <;> simp [hsz]

/-! ### comparison operators

The generated const members on two sets take TWO comparator objects: `lt`, stored in `*this`, and `lt_o`, stored in the other
set (`o.key_comp()`); `o < *this` reads `op_lt lt_o N o lt s`.  (With one shared `lt` the defects V24 / V26 — two sets of the same
type whose comparator objects are in different states — cannot even be stated.)

`operator==`: different sizes are unequal; two large sets compare their backing sets (`operator==` of the backing set);
otherwise an inline side is compared through a sorted vector of pointers to its elements — each side sorted with the comparator
object of ITS OWN set (`ComputeSortedPtrVec(_vec, key_comp())`, `ComputeSortedPtrVec(o._vec, o.key_comp())`) — with the
three-iterator `std::equal` and `==` of the element type: in every state this is `std::set`'s `operator==`, the element-wise
comparison of the two iteration sequences.  (The historical source used `std::is_permutation` as soon as one side was inline:
`eqPermS` below; that answer depends on the states of the two sets when their comparator objects differ.)
`operator<`: the same two sequences, with `std::lexicographical_compare` and `<` of the element type. -/

/-- the sequence that `operator==` / `operator<` compare: the backing set, or the inline elements sorted by `cmp` -/
def sortedElems (cmp : α → α → Bool) (s : SSet α) : List α :=
  if s.isSmall then Gen.SmallSet.sortedBy cmp s.vec else s.set

/-- the model of `operator==`: the two sequences, each ordered by the comparator object of its own set, are compared element by
    element with `==` of the element type (as `std::set::operator==` does) -/
def eqS (lt lt_o eqT : α → α → Bool) (s o : SSet α) : Bool :=
  Gen.SmallSet.vecEq eqT (sortedElems lt s) (sortedElems lt_o o)

/-- the equality of the HISTORICAL source (`std::is_permutation` as soon as one side is inline); kept to state that nothing
    changes for two sets that share their comparator (`Props/C04c.lean`, `C04_gen_eq_shared`) -/
def eqPermS (eqT : α → α → Bool) (s o : SSet α) : Bool :=
  if s.size = o.size then
    (if s.isSmall then Gen.SmallSet.isPermutation eqT s.vec o.elems
     else if o.isSmall then Gen.SmallSet.isPermutation eqT s.set o.vec
     else Gen.SmallSet.vecEq eqT s.set o.set)
  else false

/-- the lambda of the sort is the comparator object it captures -/
theorem op_eq_pred_eq (lt : α → α → Bool) : Gen.SmallSet.op_eq_pred lt = lt := rfl

theorem sortedBy_length (cmp : α → α → Bool) (l : List α) : (Gen.SmallSet.sortedBy cmp l).length = l.length := by
  unfold Gen.SmallSet.sortedBy
  exact List.length_mergeSort l

theorem sortedElems_length (cmp : α → α → Bool) (s : SSet α) : (sortedElems cmp s).length = s.size := by
  unfold sortedElems SSet.size SSet.elems
  cases s.isSmall <;> simp [sortedBy_length]

theorem vecEq_length_ne (eqT : α → α → Bool) (l o : List α) (h : l.length ≠ o.length) :
    Gen.SmallSet.vecEq eqT l o = false := by
  induction l generalizing o with
  | nil => cases o with
    | nil => simp at h
    | cons b u => simp [Gen.SmallSet.vecEq]
  | cons a t ih =>
    cases o with
    | nil => simp [Gen.SmallSet.vecEq]
    | cons b u =>
      simp only [Gen.SmallSet.vecEq, ih u (by simpa using h), Bool.and_false]

theorem op_eq_eq (lt : α → α → Bool) (N : Nat) (s : SSet α) (lt_o : α → α → Bool) (o : SSet α) (eqT : α → α → Bool) :
    Gen.SmallSet.op_eq lt N s lt_o o eqT = some (eqS lt lt_o eqT s o, 0) := by
  unfold Gen.SmallSet.op_eq eqS Gen.SmallSet.isSmallOf
  simp only [size_eq, isSmall_eq, op_eq_pred_eq]
  by_cases hsz : s.size = o.size
  · have hlen : (sortedElems lt s).length = (sortedElems lt_o o).length := by
      rw [sortedElems_length, sortedElems_length, hsz]
    simp only [hsz, if_true]
    unfold sortedElems at hlen ⊢
    cases hs : s.isSmall <;> cases ho : o.isSmall <;> simp only [hs, ho, if_true, if_false, Bool.false_eq_true] at hlen ⊢ <;>
      simp [SSet.isSmall] at hs ho <;> simp [*]
  · have hlen : (sortedElems lt s).length ≠ (sortedElems lt_o o).length := by
      rw [sortedElems_length, sortedElems_length]; exact hsz
    simp [hsz, vecEq_length_ne eqT _ _ hlen]

theorem op_ne_eq (lt : α → α → Bool) (N : Nat) (s : SSet α) (lt_o : α → α → Bool) (o : SSet α) (eqT : α → α → Bool) :
    Gen.SmallSet.op_ne lt N s lt_o o eqT = some (!eqS lt lt_o eqT s o, 0) := by
  unfold Gen.SmallSet.op_ne
  rw [op_eq_eq]
  cases eqS lt lt_o eqT s o <;> rfl

/-- the model of `operator<`: the two sequences, each ordered by the comparator object of its own set, are compared
    lexicographically with `<` of the element type -/
def ltS (lt lt_o ltT : α → α → Bool) (s o : SSet α) : Bool :=
  Gen.SmallSet.vecLess ltT (sortedElems lt s) (sortedElems lt_o o)

/-- the lambda of the sort is the comparator object it captures -/
theorem op_lt_pred_eq (lt : α → α → Bool) : Gen.SmallSet.op_lt_pred lt = lt := rfl

theorem op_lt_eq (lt : α → α → Bool) (N : Nat) (s : SSet α) (lt_o : α → α → Bool) (o : SSet α) (ltT : α → α → Bool) :
    Gen.SmallSet.op_lt lt N s lt_o o ltT = some (ltS lt lt_o ltT s o, 0) := by
  unfold Gen.SmallSet.op_lt ltS sortedElems Gen.SmallSet.isSmallOf
  simp only [isSmall_eq, op_lt_pred_eq]
  cases hs : s.isSmall <;> cases ho : o.isSmall <;> simp [SSet.isSmall] at hs ho ⊢ <;> simp [*]

theorem op_gt_eq (lt : α → α → Bool) (N : Nat) (s : SSet α) (lt_o : α → α → Bool) (o : SSet α) (ltT : α → α → Bool) :
    Gen.SmallSet.op_gt lt N s lt_o o ltT = some (ltS lt_o lt ltT o s, 0) := by
  unfold Gen.SmallSet.op_gt
  rw [op_lt_eq]

theorem op_le_eq (lt : α → α → Bool) (N : Nat) (s : SSet α) (lt_o : α → α → Bool) (o : SSet α) (ltT : α → α → Bool) :
    Gen.SmallSet.op_le lt N s lt_o o ltT = some (!ltS lt_o lt ltT o s, 0) := by
  unfold Gen.SmallSet.op_le
  rw [op_lt_eq]
  cases ltS lt_o lt ltT o s <;> rfl

theorem op_ge_eq (lt : α → α → Bool) (N : Nat) (s : SSet α) (lt_o : α → α → Bool) (o : SSet α) (ltT : α → α → Bool) :
    Gen.SmallSet.op_ge lt N s lt_o o ltT = some (!ltS lt lt_o ltT s o, 0) := by
  unfold Gen.SmallSet.op_ge
  rw [op_lt_eq]
  cases ltS lt lt_o ltT s o <;> rfl

theorem vecEq_decide [DecidableEq α] (l o : List α) :
    Gen.SmallSet.vecEq (fun a b => decide (a = b)) l o = decide (l = o) := by
  induction l generalizing o with
  | nil => cases o <;> simp [Gen.SmallSet.vecEq]
  | cons a t ih =>
    cases o with
    | nil => simp [Gen.SmallSet.vecEq]
    | cons b u =>
      simp only [Gen.SmallSet.vecEq, ih, List.cons.injEq]
      by_cases hab : a = b <;> by_cases htu : t = u <;> simp [hab, htu]

theorem vecLess_irrefl (ltT : α → α → Bool) (hirr : ∀ a, ltT a a = false) (l : List α) :
    Gen.SmallSet.vecLess ltT l l = false := by
  induction l with
  | nil => rfl
  | cons a t ih => simp [Gen.SmallSet.vecLess, hirr, ih]

theorem isPermutation_decide [DecidableEq α] (l o : List α) :
    Gen.SmallSet.isPermutation (fun a b => decide (a = b)) l o = true ↔ l.Perm o := by
  have : Gen.SmallSet.isPermutation (fun a b => decide (a = b)) l o = l.isPerm o := rfl
  rw [this]
  exact List.isPerm_iff

end AmcVerif.Bridge.SmallSet
