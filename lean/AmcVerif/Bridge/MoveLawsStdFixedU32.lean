import AmcVerif.Lemmas.VecOpsG
import AmcVerif.Bridge.VecLawsU32
/-! Instances of `StdMoveLaws`, `FixedLaws` and `FixedMoveLaws` (Lemmas/VecOpsG.lean) for the *generated* members of size type U32:
`DVB.move_construct` / `DVB.move_assign` / `DVB.swap_impl` of StdVectorBase (amc::vector) and `FVB.ctor` / `FVB.move_construct` /
`FVB.move_assign` / `FVB.swap_impl` of StaticVectorBase (FixedCapacityVector) — the words they compute and the effect lists they
emit — and the two-container theorems of VecOpsG.lean stated over these members.
Written so that replacing `U32` textually by another size-type tag gives the other instances. -/
namespace AmcVerif.Bridge.U32
open AmcVerif AmcVerif.Gen.U32

/-- move construction and swap of StdVectorBase only rewrite the words; move assignment first destroys the elements of the target
    and returns its block (when it has one) -/
theorem dvb_moveLaws : StdMoveLaws dvbOps where
  moveConstruct := fun _ _ _ => rfl
  moveAssign := by
    intro t o n
    show DVB.move_assign t o n = _
    unfold DVB.move_assign nullW
    split <;> simp_all
  swapImpl := fun _ _ => rfl

/-- the accessors of StaticVectorBase -/
theorem fvb_fixedLaws : FixedLaws fvbOps where
  size_eq := fun _ => rfl
  cap_eq := fun _ => rfl
  begin_eq := fun _ => rfl

/-- the two-object members of StaticVectorBase keep the capacity words and emit exactly one element-level effect -/
theorem fvb_moveLaws : FixedMoveLaws fvbOps where
  ctor := fun _ => rfl
  moveConstruct := fun _ _ _ => rfl
  moveAssign := fun _ _ _ => rfl
  swapImpl := fun _ _ => rfl

/-- the invariant of `Bridge/VecLawsU32.lean` is the generic one of `Lemmas/VecOpsG.lean` -/
theorem FOk_eq (N : Nat) : FOk N = FOkG fvbOps.kMax N := rfl

theorem std_moveLaws (cfg : Cfg) (hops : cfg.ops = dvbOps) : StdMoveLaws cfg.ops := hops ▸ dvb_moveLaws
theorem std_wordLaws (cfg : Cfg) (hops : cfg.ops = dvbOps) : StdLaws cfg.ops := hops ▸ dvb_stdLaws
theorem fixed_moveLaws (cfg : Cfg) (hops : cfg.ops = fvbOps) : FixedMoveLaws cfg.ops := hops ▸ fvb_moveLaws
theorem fixed_wordLaws (cfg : Cfg) (hops : cfg.ops = fvbOps) : FixedLaws cfg.ops := hops ▸ fvb_fixedLaws

theorem FOk_cfg (cfg : Cfg) (hops : cfg.ops = fvbOps) : FOk cfg.n = FOkG cfg.ops.kMax cfg.n := by rw [hops]; rfl

/-- `vector(vector&&)` over the generated U32 members: only the words change -/
theorem moveConstruct_std_U32 (α : Type) (cfg : Cfg) (hfl : cfg.flavour = .std) (hops : cfg.ops = dvbOps)
    (m : Mem α) (c d : Nat) (ys : List α) (wd : VB) (hne : c ≠ d) (hc : c < m.ws.length)
    (hd : VRepW cfg (DOkW cfg.ops.kMax) d m ys wd) :
    Post (moveConstruct cfg c d) m (fun res m' => MoveCtorPost cfg (DOkW cfg.ops.kMax) c d m ys wd res m' ∧
      m' = ({ m with ws := (m.ws.set c wd).set d nullW } : Mem α)) :=
  moveConstruct_std (P := fun _ => True) hfl (std_wordLaws cfg hops) (std_moveLaws cfg hops) m c d ys wd hne hc hd

/-- `operator=(vector&&)` over the generated U32 members -/
theorem moveAssign_std_U32 (α : Type) (cfg : Cfg) (hfl : cfg.flavour = .std) (hops : cfg.ops = dvbOps)
    (m : Mem α) (c d : Nat) (xs ys : List α) (wc wd : VB) (hne : c ≠ d)
    (hc : VRepW cfg (DOkW cfg.ops.kMax) c m xs wc) (hd : VRepW cfg (DOkW cfg.ops.kMax) d m ys wd)
    (hdisj : regionOf cfg c wc ≠ regionOf cfg d wd ∨ cfg.ops.capacity wc = 0) :
    Post (moveAssign cfg c d) m (fun res m' => MoveAssignPost cfg (DOkW cfg.ops.kMax) c d m ys wc res m' ∧
      ∃ wc' wd', m'.ws[c]? = some wc' ∧ m'.ws[d]? = some wd' ∧ wc' = wd ∧ wd' = nullW) :=
  moveAssign_std (P := fun _ => True) hfl (std_wordLaws cfg hops) (std_moveLaws cfg hops) m c d xs ys wc wd hne hc hd hdisj

/-- `swap(vector&)` over the generated U32 members: only the words are exchanged -/
theorem swapSame_std_U32 (α : Type) (cfg : Cfg) (hfl : cfg.flavour = .std) (hops : cfg.ops = dvbOps)
    (m : Mem α) (c d : Nat) (xs ys : List α) (wc wd : VB) (hne : c ≠ d)
    (hc : VRepW cfg (DOkW cfg.ops.kMax) c m xs wc) (hd : VRepW cfg (DOkW cfg.ops.kMax) d m ys wd) :
    Post (swapSame cfg c d) m (fun res m' => SwapPost cfg (DOkW cfg.ops.kMax) c d m xs ys res m' ∧
      m' = ({ m with ws := (m.ws.set c wd).set d wc } : Mem α)) :=
  swapSame_std (P := fun _ => True) hfl (std_wordLaws cfg hops) (std_moveLaws cfg hops) m c d xs ys wc wd hne hc hd

/-- `FixedCapacityVector(FixedCapacityVector&&)` over the generated U32 members -/
theorem moveConstruct_fixed_U32 (α : Type) (cfg : Cfg) (hops : cfg.ops = fvbOps)
    (m : Mem α) (c d : Nat) (ys : List α) (wd : VB) (hne : c ≠ d) (hc : c < m.ws.length)
    (hraw : m.buf (.inl c) = some (raws cfg.n)) (hd : VRepW cfg (FOk cfg.n) d m ys wd) :
    Post (moveConstruct cfg c d) m (MoveCtorPost cfg (FOk cfg.n) c d m ys wd) := by
  rw [FOk_cfg cfg hops] at hd ⊢
  exact moveConstruct_fixed (fixed_wordLaws cfg hops) (fixed_moveLaws cfg hops) m c d ys wd hne hc hraw hd

/-- `operator=(FixedCapacityVector&&)` over the generated U32 members -/
theorem moveAssign_fixed_U32 (α : Type) (cfg : Cfg) (hops : cfg.ops = fvbOps)
    (m : Mem α) (c d : Nat) (xs ys : List α) (wc wd : VB) (hne : c ≠ d)
    (hc : VRepW cfg (FOk cfg.n) c m xs wc) (hd : VRepW cfg (FOk cfg.n) d m ys wd) :
    Post (moveAssign cfg c d) m (MoveAssignPost cfg (FOk cfg.n) c d m ys wc) := by
  rw [FOk_cfg cfg hops] at hc hd ⊢
  exact moveAssign_fixed (fixed_wordLaws cfg hops) (fixed_moveLaws cfg hops) m c d xs ys wc wd hne hc hd

/-- `swap(FixedCapacityVector&)` over the generated U32 members -/
theorem swapSame_fixed_U32 (α : Type) (cfg : Cfg) (hops : cfg.ops = fvbOps)
    (m : Mem α) (c d : Nat) (xs ys : List α) (wc wd : VB) (hne : c ≠ d)
    (hc : VRepW cfg (FOk cfg.n) c m xs wc) (hd : VRepW cfg (FOk cfg.n) d m ys wd) :
    Post (swapSame cfg c d) m (SwapPost cfg (FOk cfg.n) c d m xs ys) := by
  rw [FOk_cfg cfg hops] at hc hd ⊢
  exact swapSame_fixed (fixed_wordLaws cfg hops) (fixed_moveLaws cfg hops) m c d xs ys wc wd hne hc hd

end AmcVerif.Bridge.U32
