import AmcVerif.Gen.TraitsGen
import AmcVerif.Props.C17
import AmcVerif.Prim.Slot
/-! Bridge: the static contract GENERATED from the headers (`Gen/TraitsGen.lean`, translator/traits2lean.py) equals the
hand-written model `Model/Layout.lean`.  Core Lean only.

Every generated definition is proved equal to the corresponding hand-written one, as functions where the two have the
same parameters, pointwise otherwise (the generated definitions carry `cxx14` -- which arm of the `#ifdef AMC_CXX14`
ladders -- and `sT` -- `NoInlineStorage` looks at `sizeof(T)` -- where the model has already simplified them away).
Hypotheses appear in two places only and are stated explicitly:
* `0 < sT` where the pre-C++14 arm of `kNbSlots` / `ElemWithPtrStorage` is compared with the C++14 formula of the model;
* `0 < aT` where the alignment of an array of `ElemStorage<T>` (generated: that of `ElemStorage<T>`, i.e. `max 1 aT`)
  is compared with the model's `aT`. -/
namespace AmcVerif.Bridge.Traits
open AmcVerif AmcVerif.Layout
set_option linter.unusedSimpArgs false
set_option linter.unusedVariables false

/-! ## amc::is_trivially_relocatable -/

/-- the SFINAE probe finds exactly the declared typedefs -/
theorem hasTriviallyRelocatable_eq (d : Option Bool) : Gen.Traits.hasTriviallyRelocatable d = d.isSome := by
  cases d <;> rfl

/-- the two arms of `is_trivially_relocatable_impl` -/
theorem isTriviallyRelocatableImpl_true (d : Option Bool) (tc : Bool) :
    Gen.Traits.isTriviallyRelocatableImpl d tc true = (d == some true) := rfl
theorem isTriviallyRelocatableImpl_false (d : Option Bool) (tc : Bool) :
    Gen.Traits.isTriviallyRelocatableImpl d tc false = tc := rfl

/-- `amc::is_trivially_relocatable<T>` (primary template) = `Layout.isTR`, as functions -/
theorem isTriviallyRelocatable_eq : Gen.Traits.isTriviallyRelocatable = Layout.isTR := by
  funext d tc
  cases d with
  | none => rfl
  | some b => cases b <;> rfl

/-- the `std::pair` specialisation = `Layout.isTRPair` -/
theorem isTriviallyRelocatablePair_eq : Gen.Traits.isTriviallyRelocatablePair = Layout.isTRPair := rfl

/-- the primary template applied to a class that declares the typedef reads the typedef -/
theorem isTriviallyRelocatable_declared (b tc : Bool) : Gen.Traits.isTriviallyRelocatable (some b) tc = b := by
  cases b <;> rfl

/-! ## kNbSlots, NoInlineStorage -/

theorem kNbSlots_cxx14 (sT : Nat) : Gen.Traits.kNbSlots true sT = Layout.kNbSlots sT := by
  simp [Gen.Traits.kNbSlots, Layout.kNbSlots, Nat.max_comm]

theorem kNbSlots_cxx11 (sT : Nat) : Gen.Traits.kNbSlots false sT = Layout.kNbSlots11 sT := by
  simp [Gen.Traits.kNbSlots, Layout.kNbSlots11]

/-- both arms of the ladder give the model's `kNbSlots` (for the pre-C++14 arm: when `sizeof(T)` is not 0) -/
theorem kNbSlots_eq (c : Bool) (sT : Nat) (h : c = true ∨ 0 < sT) : Gen.Traits.kNbSlots c sT = Layout.kNbSlots sT := by
  cases c with
  | true => exact kNbSlots_cxx14 sT
  | false =>
    rw [kNbSlots_cxx11]
    rcases h with h | h
    · cases h
    · exact (Props.C17.C17_ladder_arms sT 1 h).1

theorem kNbSlots_pos (c : Bool) (sT : Nat) (h : c = true ∨ 0 < sT) : 1 ≤ Gen.Traits.kNbSlots c sT := by
  rw [kNbSlots_eq c sT h]; simp [Layout.kNbSlots]; omega

/-- `NoInlineStorage` for N = 0 and N = 1 (the two explicit specialisations) -/
theorem noInlineStorage_zero (c dyn : Bool) (sT : Nat) : Gen.Traits.noInlineStorage c dyn sT 0 = true := rfl
theorem noInlineStorage_one (c dyn : Bool) (sT : Nat) : Gen.Traits.noInlineStorage c dyn sT 1 = true := rfl

/-- for a FixedCapacityVector (static growing policy): no `_elems` array iff N ≤ 1 -/
theorem noInlineStorage_static (c : Bool) (sT N : Nat) : Gen.Traits.noInlineStorage c false sT N = decide (N ≤ 1) := by
  unfold Gen.Traits.noInlineStorage
  by_cases h0 : N = 0
  · simp [h0]
  by_cases h1 : N = 1
  · simp [h1]
  have : ¬ N ≤ 1 := by omega
  simp [h0, h1, this]

/-- for a SmallVector (dynamic growing policy): no `_elems` array iff the N elements fit in the pointer union -/
theorem noInlineStorage_dyn (c : Bool) (sT N : Nat) (h : c = true ∨ 0 < sT) :
    Gen.Traits.noInlineStorage c true sT N = decide (N ≤ Layout.kNbSlots sT) := by
  have hk := kNbSlots_pos c sT h
  rw [kNbSlots_eq c sT h] at hk
  unfold Gen.Traits.noInlineStorage
  rw [kNbSlots_eq c sT h]
  by_cases h0 : N = 0
  · simp [h0]
  by_cases h1 : N = 1
  · have : N ≤ Layout.kNbSlots sT := by omega
    simp [h1, this]; omega
  simp [h0, h1]

/-! ## the containers' typedefs -/

/-- `Vector<..., DynamicGrowingPolicy, N>::trivially_relocatable` (SmallVector / vector) -/
theorem vectorTriviallyRelocatable_dyn (c trT : Bool) (sT N : Nat) :
    Gen.Traits.vectorTriviallyRelocatable c trT true sT N = Layout.trSmallVector N trT := by
  unfold Gen.Traits.vectorTriviallyRelocatable Layout.trSmallVector
  by_cases h0 : N = 0
  · subst h0; simp [noInlineStorage_zero]
  · cases hn : Gen.Traits.noInlineStorage c true sT N <;> simp [h0]

/-- `Vector<..., a static growing policy, N>::trivially_relocatable` (FixedCapacityVector) -/
theorem vectorTriviallyRelocatable_static (c trT : Bool) (sT N : Nat) :
    Gen.Traits.vectorTriviallyRelocatable c trT false sT N = Layout.trFixedCapacityVector trT := by
  unfold Gen.Traits.vectorTriviallyRelocatable Layout.trFixedCapacityVector
  cases hn : Gen.Traits.noInlineStorage c false sT N <;> simp

theorem smallVectorTriviallyRelocatable_eq (c trT : Bool) (sT N : Nat) :
    Gen.Traits.smallVectorTriviallyRelocatable c trT sT N = Layout.trSmallVector N trT :=
  vectorTriviallyRelocatable_dyn c trT sT N

theorem stdVectorTriviallyRelocatable_eq (c trT : Bool) (sT : Nat) :
    Gen.Traits.stdVectorTriviallyRelocatable c trT sT = Layout.trVector := by
  unfold Gen.Traits.stdVectorTriviallyRelocatable
  rw [vectorTriviallyRelocatable_dyn]; rfl

theorem fixedCapacityVectorTriviallyRelocatable_eq (c trT : Bool) (sT N : Nat) :
    Gen.Traits.fixedCapacityVectorTriviallyRelocatable c trT sT N = Layout.trFixedCapacityVector trT :=
  vectorTriviallyRelocatable_static c trT sT N

theorem flatSetTriviallyRelocatable_eq : Gen.Traits.flatSetTriviallyRelocatable = Layout.trFlatSet := by
  funext a b; cases a <;> cases b <;> rfl

theorem smallSetTriviallyRelocatable_eq : Gen.Traits.smallSetTriviallyRelocatable = Layout.trSmallSet := by
  funext a b; cases a <;> cases b <;> rfl

/-- the generated trait on the model's type descriptions is `Ty.isTR`, whatever the language standard and the sizes of
the element types -/
theorem isTR_eq (c : Bool) (sz : Ty → Nat) : ∀ t : Ty, Gen.Traits.isTR c sz t = t.isTR := by
  intro t
  induction t with
  | cls d tc => simp [Gen.Traits.isTR, Ty.isTR, isTriviallyRelocatable_eq]
  | pair a b iha ihb => simp [Gen.Traits.isTR, Ty.isTR, isTriviallyRelocatablePair_eq, iha, ihb]
  | vector e ih =>
    simp [Gen.Traits.isTR, Ty.isTR, isTriviallyRelocatable_declared, stdVectorTriviallyRelocatable_eq]
  | smallVector e N ih =>
    simp [Gen.Traits.isTR, Ty.isTR, isTriviallyRelocatable_declared, smallVectorTriviallyRelocatable_eq, ih]
  | fixedCapacityVector e N ih =>
    simp [Gen.Traits.isTR, Ty.isTR, isTriviallyRelocatable_declared, fixedCapacityVectorTriviallyRelocatable_eq, ih]
  | flatSet cmp v ihc ihv =>
    simp [Gen.Traits.isTR, Ty.isTR, isTriviallyRelocatable_declared, flatSetTriviallyRelocatable_eq, ihc, ihv]
  | smallSet v st ihv ihs =>
    simp [Gen.Traits.isTR, Ty.isTR, isTriviallyRelocatable_declared, smallSetTriviallyRelocatable_eq, ihv, ihs]

theorem isTR_eq_fun (c : Bool) (sz : Ty → Nat) : Gen.Traits.isTR c sz = Ty.isTR := funext (isTR_eq c sz)

/-! ## noexcept specifications -/

theorem isSwapNoexcept_eq : Gen.Traits.isSwapNoexcept = Layout.isSwapNoexcept := rfl
theorem isShiftNothrow_eq : Gen.Traits.isShiftNothrow = Layout.isShiftNothrow := rfl
theorem isMoveConstructNothrow_eq : Gen.Traits.isMoveConstructNothrow = Layout.isMoveConstructNothrow := rfl

/-- `Vector(Vector&&)`, with and without allocator; the model's `nIsZero` is `N == 0` -/
theorem vectorMoveCtorNoexcept_eq (e : ElemTraits) (N : Nat) :
    Gen.Traits.vectorMoveCtorNoexcept e N = Layout.moveCtorNoexcept (N == 0) e := rfl
theorem vectorMoveCtorAllocNoexcept_eq (e : ElemTraits) (N : Nat) :
    Gen.Traits.vectorMoveCtorAllocNoexcept e N = Layout.moveCtorNoexcept (N == 0) e := rfl
theorem vectorMoveAssignNoexcept_eq (e : ElemTraits) (N : Nat) :
    Gen.Traits.vectorMoveAssignNoexcept e N = Layout.moveAssignNoexcept (N == 0) e := rfl
theorem vectorSwapNoexcept_eq (e : ElemTraits) (N : Nat) :
    Gen.Traits.vectorSwapNoexcept e N = Layout.swapNoexcept (N == 0) e := rfl
theorem vectorFreeSwapNoexcept_eq (e : ElemTraits) (N : Nat) :
    Gen.Traits.vectorFreeSwapNoexcept e N = Layout.swapNoexcept (N == 0) e := rfl

/-- the members of the base classes that `Vector`'s move constructor / move assignment / swap call: for a dynamic
vector their specification is exactly the one `Vector` promises ... -/
theorem vectorBase_dyn (c : Bool) (e : ElemTraits) (sT N : Nat) :
    Gen.Traits.vectorBaseMoveConstructNoexcept c e true sT N = Layout.moveCtorNoexcept (N == 0) e
    ∧ Gen.Traits.vectorBaseMoveAssignNoexcept c e true sT N = Layout.moveAssignNoexcept (N == 0) e
    ∧ Gen.Traits.vectorBaseSwapImplNoexcept c e true sT N = Layout.swapNoexcept (N == 0) e := by
  unfold Gen.Traits.vectorBaseMoveConstructNoexcept Gen.Traits.vectorBaseMoveAssignNoexcept
    Gen.Traits.vectorBaseSwapImplNoexcept Layout.moveCtorNoexcept Layout.moveAssignNoexcept Layout.swapNoexcept
  by_cases h0 : N = 0
  · subst h0; simp [noInlineStorage_zero]
  · cases hn : Gen.Traits.noInlineStorage c true sT N <;>
      simp [h0, isMoveConstructNothrow_eq, isShiftNothrow_eq, isSwapNoexcept_eq]

/-- ... for a FixedCapacityVector it is the element's trait alone (StaticVectorBase does not know N) -/
theorem vectorBase_static (c : Bool) (e : ElemTraits) (sT N : Nat) :
    Gen.Traits.vectorBaseMoveConstructNoexcept c e false sT N = Layout.isMoveConstructNothrow e
    ∧ Gen.Traits.vectorBaseMoveAssignNoexcept c e false sT N = Layout.isShiftNothrow e
    ∧ Gen.Traits.vectorBaseSwapImplNoexcept c e false sT N = Layout.isSwapNoexcept e := by
  unfold Gen.Traits.vectorBaseMoveConstructNoexcept Gen.Traits.vectorBaseMoveAssignNoexcept
    Gen.Traits.vectorBaseSwapImplNoexcept
  cases hn : Gen.Traits.noInlineStorage c false sT N <;>
    simp [isMoveConstructNothrow_eq, isShiftNothrow_eq, isSwapNoexcept_eq]

/-- the shifting helpers: the `enable_if` pair (memmove overload `noexcept`, element-wise overload
`noexcept(is_shift_nothrow<T>::value)`) amounts to `is_shift_nothrow<T>` -/
theorem shift_noexcept (e : ElemTraits) :
    Gen.Traits.shiftRight2Noexcept e = Layout.isShiftNothrow e
    ∧ Gen.Traits.shiftRight3Noexcept e = Layout.isShiftNothrow e
    ∧ Gen.Traits.shiftLeftNoexcept e = Layout.isShiftNothrow e
    ∧ Gen.Traits.uninitializedShiftLeftNoexcept e = Layout.isShiftNothrow e
    ∧ Gen.Traits.swapDeepNoexcept e = Layout.isSwapNoexcept e := by
  obtain ⟨tr, mc, ma, sw⟩ := e
  cases tr <;> cases mc <;> cases ma <;> cases sw <;> decide

/-- `vec::CanReallocate<Alloc>`: the condition under which the slot-level model (`Prim/Helpers.lean`, `reallocBlock`:
`let canRealloc := m.cat != .ntr && m.hasRealloc`) takes the `realloc` path -/
theorem canReallocate_eq (trValueType hasReallocate : Bool) :
    Gen.Traits.canReallocate trValueType hasReallocate = (trValueType && hasReallocate) := rfl
theorem canReallocate_mem {α : Type} (m : Mem α) :
    Gen.Traits.canReallocate (m.cat != .ntr) m.hasRealloc = (m.cat != .ntr && m.hasRealloc) := rfl

/-! ## storage layout -/

theorem smallestSizeType_eq : Gen.Traits.smallestSizeType = Layout.smallestSizeType := by
  funext N
  simp [Gen.Traits.smallestSizeType, Layout.smallestSizeType]

theorem elemStorage_eq : Gen.Traits.elemStorage = Layout.elemStorage := rfl

theorem elemWithPtrStorage_cxx14 (sT aT : Nat) :
    Gen.Traits.elemWithPtrStorage true sT aT = Layout.elemWithPtrStorage sT aT := rfl

theorem elemWithPtrStorage_cxx11 (sT aT : Nat) :
    Gen.Traits.elemWithPtrStorage false sT aT = Layout.elemWithPtrStorage11 sT aT := by
  simp [Gen.Traits.elemWithPtrStorage, Layout.elemWithPtrStorage11]

theorem elemWithPtrStorage_eq (c : Bool) (sT aT : Nat) (h : c = true ∨ 0 < sT) :
    Gen.Traits.elemWithPtrStorage c sT aT = Layout.elemWithPtrStorage sT aT := by
  cases c with
  | true => rfl
  | false =>
    rw [elemWithPtrStorage_cxx11]
    rcases h with h | h
    · cases h
    · exact (Props.C17.C17_ladder_arms sT aT h).2

theorem staticVectorBaseMembers_eq (sT aT sS : Nat) :
    Gen.Traits.staticVectorBaseMembers sT aT sS = [scalar sS, scalar sS, Layout.elemStorage sT aT] := rfl

theorem stdVectorBaseMembers_eq : Gen.Traits.stdVectorBaseMembers = Layout.vectorMembers := rfl

theorem smallVectorBaseMembers_eq (c : Bool) (sT aT sS : Nat) (h : c = true ∨ 0 < sT) :
    Gen.Traits.smallVectorBaseMembers c sT aT sS = [scalar sS, scalar sS, Layout.elemWithPtrStorage sT aT] := by
  simp [Gen.Traits.smallVectorBaseMembers, elemWithPtrStorage_eq c sT aT h]

/-- alignment of `ElemStorage<T>` (and so of an array of them) -/
theorem elemStorage_align (sT aT : Nat) (ha : 0 < aT) : (Layout.elemStorage sT aT).align = aT := by
  simp [Layout.elemStorage, classOf, place, placeAt]; omega

/-- an array `ElemStorage<T> _elems[n]` as generated = the model's `elemArray` -/
theorem elemArray_eq (sT aT n : Nat) (ha : 0 < aT) :
    (⟨n * (Gen.Traits.elemStorage sT aT).size, (Gen.Traits.elemStorage sT aT).align⟩ : SA) = Layout.elemArray sT aT n := by
  rw [elemStorage_eq, elemStorage_align sT aT ha]; rfl

/-- `sizeof` / `alignof` of `amc::vector<T, Alloc, S>` -/
theorem stdVectorSA_eq (c : Bool) (sT aT sS : Nat) : Gen.Traits.stdVectorSA c sT aT sS = Layout.vectorSA sS := by
  simp [Gen.Traits.stdVectorSA, Gen.Traits.vectorSA, Gen.Traits.vectorMembers, noInlineStorage_zero,
    stdVectorBaseMembers_eq, Layout.vectorSA]

/-- `sizeof` / `alignof` of `SmallVector<T, N, Alloc, S>` -/
theorem smallVectorSA_eq (c : Bool) (sT aT sS N : Nat) (h : c = true ∨ 0 < sT) (ha : 0 < aT) :
    Gen.Traits.smallVectorSA c sT aT sS N = Layout.smallVectorSA sT aT N sS := by
  unfold Gen.Traits.smallVectorSA Gen.Traits.vectorSA Gen.Traits.vectorMembers Layout.smallVectorSA
  rw [noInlineStorage_dyn c sT N h]
  by_cases h0 : N = 0
  · subst h0
    simp [stdVectorBaseMembers_eq, Layout.vectorSA]
  · by_cases hk : N ≤ Layout.kNbSlots sT
    · have hk' : ¬ Layout.kNbSlots sT < N := by omega
      simp [h0, hk, hk', smallVectorBaseMembers_eq c sT aT sS h, Layout.smallVectorMembers]
    · have hk' : Layout.kNbSlots sT < N := by omega
      simp only [decide_eq_true_eq, hk, if_false, if_true, h0, hk', Layout.smallVectorMembers,
        smallVectorBaseMembers_eq c sT aT sS h, kNbSlots_eq c sT h, elemArray_eq sT aT _ ha]

/-- `sizeof` / `alignof` of `FixedCapacityVector<T, N, G, S>` -/
theorem fixedCapacityVectorSA_eq (c : Bool) (sT aT sS N : Nat) (ha : 0 < aT) :
    Gen.Traits.fixedCapacityVectorSA c sT aT sS N = Layout.fixedCapacityVectorSA sT aT N sS := by
  unfold Gen.Traits.fixedCapacityVectorSA Gen.Traits.vectorSA Gen.Traits.vectorMembers Layout.fixedCapacityVectorSA
  rw [noInlineStorage_static c sT N]
  by_cases h1 : N ≤ 1
  · have h1' : ¬ 1 < N := by omega
    simp [h1, h1', staticVectorBaseMembers_eq, Layout.fixedCapacityVectorMembers]
  · have h1' : 1 < N := by omega
    simp only [decide_eq_true_eq, h1, if_false, if_true, h1', Layout.fixedCapacityVectorMembers,
      staticVectorBaseMembers_eq, elemArray_eq sT aT _ ha, Bool.false_eq_true]

/-- the subtraction in the bound of `_elems` never wraps where the array exists (`N - kNbSlots`, `N - 1`) -/
theorem elems_bound_no_wrap (c dyn : Bool) (sT N : Nat) (h : c = true ∨ 0 < sT)
    (hn : Gen.Traits.noInlineStorage c dyn sT N = false) :
    (if dyn then Gen.Traits.kNbSlots c sT else 1) < N := by
  cases dyn with
  | true =>
    rw [noInlineStorage_dyn c sT N h] at hn
    simp at hn; simp [kNbSlots_eq c sT h]; omega
  | false =>
    rw [noInlineStorage_static] at hn
    simp at hn; simp; omega

/-! ## triviality of the destructor -/

theorem defineDestructor_eq : Gen.Traits.defineDestructor = Layout.defineDestructor := rfl

theorem defineVectorDestructor_eq (td dyn wie : Bool) :
    Gen.Traits.defineVectorDestructor td dyn wie = Layout.defineVectorDestructor td wie dyn := rfl

/-- `std::is_trivially_destructible<FixedCapacityVector<T, N>>`: no class of the hierarchy declares a destructor
(all data members are size types and byte arrays) -/
theorem fixedCapacityVectorHasUserDestructor_eq (c td : Bool) (sT N : Nat) :
    (!Gen.Traits.fixedCapacityVectorHasUserDestructor c td sT N) = Layout.fcvTriviallyDestructible N td := by
  unfold Gen.Traits.fixedCapacityVectorHasUserDestructor Gen.Traits.vectorHasUserDestructor
    Layout.fcvTriviallyDestructible Layout.fcvWithInlineElements
  rw [noInlineStorage_static, defineVectorDestructor_eq, defineVectorDestructor_eq]
  by_cases h1 : N ≤ 1
  · cases td <;> simp [h1, Layout.defineVectorDestructor, Layout.defineDestructor]
  · cases td <;> simp [h1, Layout.defineVectorDestructor, Layout.defineDestructor]

/-- a dynamic vector always has a user-provided destructor (StdVectorBase / SmallVectorBase free the storage) -/
theorem vectorHasUserDestructor_dyn (c td : Bool) (sT N : Nat) :
    Gen.Traits.vectorHasUserDestructor c td true sT N = true := by
  unfold Gen.Traits.vectorHasUserDestructor
  cases Gen.Traits.noInlineStorage c true sT N <;>
    cases Gen.Traits.defineVectorDestructor td true (N != 0) <;>
    cases Gen.Traits.defineVectorDestructor td true true <;> simp

end AmcVerif.Bridge.Traits
