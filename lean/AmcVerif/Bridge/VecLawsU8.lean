import AmcVerif.Lemmas.AllocPosts
import AmcVerif.Bridge.SmallLawsU8
/-! INSTANTIATED from Bridge/VecLaws.lean.in for size type U8 on every run: the *generated* base-class members satisfy the
container-level law packages (`VecLaws`) of the three vector flavours, on which every container-level theorem
(`Lemmas/VecOps*.lean`, `Props/C01 C02 C09`) rests: `SizeLaws` of the size members, the growth guarantee `GrowSpec`
(derived in `Lemmas/AllocPosts.lean` from the effect lists the generated `grow` emits) and the soundness of
`SafeNextCapacity`. -/
namespace AmcVerif.Bridge.U8
open AmcVerif AmcVerif.Gen.U8

/-- `SafeNextCapacity` never returns less than what was asked for, nor more than the size type can count -/
theorem safeNext_sound (old n : Nat) (exact : Bool) (r : Nat) (h : SafeNextCapacity old n exact = .ok r)
    (hx : exact = true → n ≤ kMax) : n ≤ r ∧ r ≤ kMax := by
  unfold SafeNextCapacity at h
  cases exact with
  | true =>
    have hn := hx rfl
    unfold kMax at *
    simp only [↓reduceIte, Except.ok.injEq] at h
    omega
  | false =>
    simp only [Bool.false_eq_true, ↓reduceIte] at h
    generalize hX : Nat.max (((3 * old % 18446744073709551616 + 1) % 18446744073709551616) / 2) n = X at h
    have hle : Nat.min X kMax ≤ kMax := Nat.min_le_right _ _
    unfold kMax at *
    generalize hY : Nat.min X _ = Y at h hle
    split at h
    · cases h
    · rename_i hlt
      simp only [decide_eq_true_eq, Nat.not_lt] at hlt
      simp only [Except.ok.injEq] at h
      omega

/-- representation invariant of the words of a FixedCapacityVector of capacity `N` -/
def FOk (N : Nat) (t : VB) : Prop := t.size ≤ t.capa ∧ t.capa = N ∧ N ≤ kMax

theorem fvb_incr (N : Nat) (t : VB) (h : FOk N t) (room : t.size < t.capa) :
    FOk N (FVB.incrSize t) ∧ (FVB.incrSize t).size = t.size + 1 ∧ (FVB.incrSize t).capa = t.capa := by
  unfold FOk kMax at *; unfold FVB.incrSize
  refine ⟨⟨?_, h.2.1, h.2.2⟩, ?_, rfl⟩ <;> dsimp only <;> omega

theorem fvb_decr (N : Nat) (t : VB) (h : FOk N t) (pos : 0 < t.size) :
    FOk N (FVB.decrSize t) ∧ (FVB.decrSize t).size + 1 = t.size ∧ (FVB.decrSize t).capa = t.capa := by
  unfold FOk kMax at *; unfold FVB.decrSize
  refine ⟨⟨?_, h.2.1, h.2.2⟩, ?_, rfl⟩ <;> dsimp only <;> omega

theorem fvbOps_size (x : VB) : fvbOps.size x = x.size := rfl
theorem fvbOps_capacity (x : VB) : fvbOps.capacity x = x.capa := rfl
theorem fvbOps_begin (x : VB) : fvbOps.begin x = PtrV.inl 0 := rfl
theorem fvbOps_incr (x : VB) : fvbOps.incrSize x = FVB.incrSize x := rfl
theorem fvbOps_decr (x : VB) : fvbOps.decrSize x = FVB.decrSize x := rfl
theorem fvbOps_setSize (x : VB) (s : Nat) : fvbOps.setSize x s = ⟨x.capa, s, x.dyn⟩ := rfl

theorem fvb_sizeLaws (N : Nat) : SizeLaws fvbOps (FOk N) where
  bounds := by
    intro t h
    rw [fvbOps_size, fvbOps_capacity]
    exact ⟨h.1, by rw [h.2.1]; exact h.2.2⟩
  incr := by
    intro t h hroom
    rw [fvbOps_size, fvbOps_capacity] at hroom
    have := fvb_incr N t h hroom
    rw [fvbOps_incr, fvbOps_size, fvbOps_size, fvbOps_capacity, fvbOps_capacity, fvbOps_begin, fvbOps_begin]
    exact ⟨this.1, this.2.1, this.2.2, rfl⟩
  decr := by
    intro t h hpos
    rw [fvbOps_size] at hpos
    have := fvb_decr N t h hpos
    rw [fvbOps_decr, fvbOps_size, fvbOps_size, fvbOps_capacity, fvbOps_capacity, fvbOps_begin, fvbOps_begin]
    exact ⟨this.1, this.2.1, this.2.2, rfl⟩
  setSize := by
    intro t h s hs
    rw [fvbOps_capacity] at hs
    rw [fvbOps_setSize, fvbOps_size, fvbOps_capacity, fvbOps_capacity, fvbOps_begin, fvbOps_begin]
    exact ⟨⟨hs, h.2.1, h.2.2⟩, rfl, rfl, rfl⟩
  checkOk := fun c m h => check_ok c m h
  checkErr := fun c m h => check_err c m h

/-- the generated StdVectorBase members satisfy the laws `Lemmas/AllocPosts.lean` derives the growth guarantee from -/
theorem dvb_stdLaws : StdLaws dvbOps where
  size_eq := fun _ => rfl
  cap_eq := fun _ => rfl
  begin_eq := fun _ => rfl
  grow_ok := fun t minSize exact fresh r h => dvb_grow t minSize exact fresh r h
  grow_err := fun t minSize exact fresh e h => dvb_grow_err t minSize exact fresh e h
  safe_sound := fun old n exact r h hx => safeNext_sound old n exact r h hx
  incr := by
    intro t h1 h2 h3
    rw [show dvbOps.incrSize = DVB.incrSize from rfl]
    have := dvb_incr t ⟨h1, h2⟩ h3
    exact ⟨this.2.1, this.2.2.1, this.2.2.2⟩
  decr := by
    intro t h1 h2 h3
    rw [show dvbOps.decrSize = DVB.decrSize from rfl]
    have := dvb_decr t ⟨h1, h2⟩ h3
    exact ⟨this.2.1, this.2.2.1, this.2.2.2⟩
  setSize := by
    intro t h1 h2 s hs
    rw [show dvbOps.setSize = DVB.setSize from rfl]
    have := dvb_setSize t ⟨h1, h2⟩ s hs
    exact ⟨this.2.1, this.2.2.1, this.2.2.2⟩
  check_ok := fun c m h => check_ok c m h
  check_err := fun c m h => check_err c m h

/-- law package of `amc::vector<T, Alloc, U8 size type>` -/
theorem std_vecLaws (α : Type) (cfg : Cfg) (hfl : cfg.flavour = .std) (hops : cfg.ops = dvbOps) :
    VecLaws α cfg (DOkW cfg.ops.kMax) :=
  std_vecLawsW cfg hfl (hops ▸ dvb_stdLaws)

/-- law package of `SmallVector<T, N, Alloc, U8 size type>` -/
theorem small_vecLaws (α : Type) (cfg : Cfg) (hfl : cfg.flavour = .small) (hops : cfg.ops = svbOps) (hN : cfg.n < kMax) (hN0 : 0 < cfg.n) :
    VecLaws α cfg (SOkW cfg.ops cfg.n) := by
  have L : SmallLaws cfg.ops cfg.n := hops ▸ svb_laws cfg.n hN hN0
  refine small_vecLawsW cfg hfl L ?_ ?_ ?_
  · rw [hops]; exact fun old n exact r h hx => safeNext_sound old n exact r h hx
  · rw [hops]; exact fun c m h => check_ok c m h
  · rw [hops]; exact fun c m h => check_err c m h

/-- law package of `FixedCapacityVector<T, N>` with the (default) exception growing policy -/
theorem fixed_vecLaws (α : Type) (cfg : Cfg) (hfl : cfg.flavour = .fixed) (hops : cfg.ops = fvbOps) (hchk : cfg.checked = true) :
    VecLaws α cfg (FOk cfg.n) where
  size := hops ▸ fvb_sizeLaws cfg.n
  grow := fun hd => by simp [Cfg.dynamic, hfl] at hd
  checked := fun _ => hchk

end AmcVerif.Bridge.U8
